/-
C01 / C06, schema 2.x, on the conversion helpers REGENERATED from the source.

`Gen.ConvertV2.*` is rewritten by tools/tr_convert_v2.py from clang's typed AST of
`convert::read::*` / `convert::write::*` (src/djinterop/engine/v2/convert_track.hpp,
convert_hot_cues.hpp, convert_loops.hpp, as compiled into v2/track_impl.cpp) on every run of the
check.  `cv_*_eq_hand` say that each regenerated function IS the component of the hand model
(`TracksV2/Model.lean`) that `writeSnap` / `readSnap` (C01) and `applySetter` / the getters (C06)
are made of — for every input, no side condition; the clauses of C01 / C06 that speak about one
field are then restated on the regenerated pair (write, then read = the Spec's normalisation of
that field; eight slots; rating inside 0..100; nothing undefined).  The statements mention names
only (their lock hashes do not depend on the translation); the proofs unfold the regenerated
bodies (Proofs/ConvertV2GenEq.lean), so a change of the C++ that changes what a conversion
computes breaks a proof obligation here.
-/
import Proofs.ConvertV2GenEq
import Proofs.TracksV2

namespace EngineModel.Properties.C01V2Convert
open EngineModel EngineModel.TracksV2 EngineModel.Gen.ConvertV2

/-! ## the regenerated functions are the hand model's components -/

/-- **convert_track.hpp, regenerated = hand model** (all sixteen used by `track_impl.cpp`). -/
theorem cv_track_eq_hand (ops : FOps) :
    (∀ r, write_rating r = .ok (writeRating r)) ∧ (∀ r, read_rating r = .ok (readRating r)) ∧
    (∀ d, write_duration d = .ok (writeDuration d)) ∧ (∀ l, read_duration l = readDuration l) ∧
    (∀ v, write_bpm v = .ok (writeBpm v)) ∧ (∀ a b, read_bpm ops a b = .ok (readBpm ops a b)) ∧
    (∀ k, write_key k = .ok (writeKey k)) ∧ (∀ k, read_key k = .ok k) ∧
    (∀ v, write_average_loudness v = .ok (writeAverageLoudness v)) ∧
    (∀ t, read_average_loudness t = .ok (readAverageLoudness t)) ∧
    (∀ v, write_sample_rate v = .ok (writeSampleRate v)) ∧ (∀ t, read_sample_rate t = .ok (readSampleRate t)) ∧
    (∀ c, write_sample_count ops c = .ok (c.getD 0, ops.ofU64 (c.getD 0))) ∧
    (∀ t, read_sample_count t = .ok (readSampleCount t)) :=
  ⟨write_rating_eq, read_rating_eq, write_duration_eq, read_duration_eq, write_bpm_eq, read_bpm_eq ops,
   write_key_eq, read_key_eq, write_average_loudness_eq, read_average_loudness_eq, write_sample_rate_eq,
   read_sample_rate_eq, write_sample_count_eq ops, read_sample_count_eq⟩

/-- **convert_hot_cues.hpp, regenerated = hand model** (incl. `quick_cue_blob::empty()`). -/
theorem cv_cues_eq_hand :
    quick_cue_blob_empty = .ok emptyCue ∧
    (∀ c, write_hot_cue c = .ok (writeHotCue c)) ∧ (∀ q, read_hot_cue q = .ok (readHotCue q)) ∧
    (∀ cs, write_hot_cues cs = writeHotCues cs) ∧ (∀ q, read_hot_cues q = .ok (readHotCues q)) ∧
    (∀ v, write_main_cue v = .ok (writeMainCue v)) ∧ (∀ v, read_main_cue v = .ok (readMainCue v)) :=
  ⟨quick_cue_blob_empty_eq, write_hot_cue_eq, read_hot_cue_eq, write_hot_cues_eq, read_hot_cues_eq,
   write_main_cue_eq, read_main_cue_eq⟩

/-- **convert_loops.hpp, regenerated = hand model** (incl. `loop_blob::empty()`; `write::loops`
returns a blob without `extra_data`). -/
theorem cv_loops_eq_hand :
    loop_blob_empty = .ok emptyLoop ∧
    (∀ l, write_loop l = .ok (writeLoop l)) ∧ (∀ l, read_loop l = .ok (readLoop l)) ∧
    (∀ ls, write_loops ls = (writeLoops ls).bind fun l => .ok ⟨l, []⟩) ∧
    (∀ b, read_loops b = .ok (readLoops b.loops)) :=
  ⟨loop_blob_empty_eq, write_loop_eq, read_loop_eq, write_loops_eq, read_loops_eq⟩

/-- **convert_beatgrid.hpp, regenerated = hand model**: the single pass with a write through
`converted.back()` is the hand model's look-ahead recursion; the `int64_t` subtraction never overflows. -/
theorem cv_grid_eq_hand :
    (∀ m, read_beatgrid_marker m = .ok ⟨trunc32 m.beatNo, m.off⟩) ∧
    (∀ g, read_beatgrid_markers g = .ok (readGridMarkers g)) ∧
    (∀ g, write_beatgrid_markers g = .ok (writeGridMarkers g)) ∧
    (∀ g, write_beatgrid g =
      .ok ((if (writeGridMarkers g).isEmpty then 0 else 1), writeGridMarkers g, writeGridMarkers g)) :=
  ⟨read_beatgrid_marker_eq, read_beatgrid_markers_eq, write_beatgrid_markers_eq, write_beatgrid_eq⟩

/-- `album_art_id` (translated although `track_impl.cpp` does not call it): 1 is "none". -/
theorem cv_album_art_id (a : Option UInt64) :
    (write_album_art_id a).bind read_album_art_id = .ok (match a with | some v => if v = 1 then none else some v | none => none) := by
  rw [write_album_art_id_eq]
  simp only [Res.bind]
  rw [read_album_art_id_eq]
  cases a <;> rfl

/-! ## C01 / C06 field clauses on the regenerated pairs: read ∘ write = the Spec's normalisation -/

/-- rating: what is read back is the value clamped to 0..100, 0 = none -/
theorem cv_rating_roundtrip (r : Option UInt32) :
    (write_rating r).bind read_rating = .ok (Spec.normRating r) := by
  rw [write_rating_eq]; simp only [Res.bind]; rw [read_rating_eq, read_write_rating]

/-- … and the stored column is inside 0..100 whatever was passed -/
theorem cv_rating_stored_range (r : Option UInt32) (v : UInt64) (h : write_rating r = .ok v) :
    0 ≤ Prim.s64 v ∧ Prim.s64 v ≤ 100 := by
  rw [write_rating_eq] at h
  cases h
  unfold writeRating
  have hb : ∀ i : Int, 0 ≤ i → i ≤ 100 → Prim.s64 (Prim.u64OfInt i) = i := fun i h0 h1 =>
    Prim.s64_u64OfInt i (by omega) (by omega)
  simp only
  by_cases h1 : Prim.s32 (r.getD 0) < 0
  · rw [if_pos h1, hb 0 (by omega) (by omega)]; omega
  · by_cases h2 : 100 < Prim.s32 (r.getD 0)
    · rw [if_neg h1, if_pos h2, hb 100 (by omega) (by omega)]; omega
    · rw [if_neg h1, if_neg h2, hb _ (by omega) (by omega)]; omega

/-- duration: whole seconds toward zero, under one second = unknown; never undefined -/
theorem cv_duration_roundtrip (d : Option UInt64) :
    (write_duration d).bind read_duration = .ok (Spec.normDuration d) := by
  rw [write_duration_eq]; simp only [Res.bind]; rw [read_duration_eq, read_write_duration]

/-- tempo: through the `bpmAnalyzed` REAL column (`storeReal`) and the truncated `bpm` column -/
theorem cv_bpm_roundtrip (ops : FOps) (v : Option F) :
    (write_bpm v).bind (fun p => read_bpm ops (storeReal p.1) p.2) = .ok (Spec.normBpm v) := by
  rw [write_bpm_eq]; simp only [Res.bind]; rw [read_bpm_eq, read_write_bpm]

/-- the integer `bpm` column holds the truncated tempo exactly when it has a 64-bit integer part -/
theorem cv_bpm_truncated (b : F) :
    write_bpm (some b) = .ok (some b, (Spec.integerPart b).map Prim.u64OfInt) := by
  rw [write_bpm_eq, integerPart_eq_toI64]; rfl

/-- key: verbatim, and in both places (`key` column, `track_data.key` with 0 for none) -/
theorem cv_key_roundtrip (k : Option UInt32) :
    (write_key k).bind (fun p => read_key p.1) = .ok k ∧ write_key k = .ok (k, k.getD 0) := by
  rw [write_key_eq]; exact ⟨rfl, rfl⟩

/-- average loudness: the same double in the three bands; ±0.0 = absent -/
theorem cv_loudness_roundtrip (v : Option F) (rate : F) (n : UInt64) (k : UInt32) :
    (write_average_loudness v).bind (fun x => read_average_loudness ⟨rate, n, k, x, x, x⟩) =
      .ok (Spec.normZeroAbsent v) := by
  rw [write_average_loudness_eq]; simp only [Res.bind]; rw [read_average_loudness_eq]
  exact congrArg Res.ok (zeroAbsent_getD v)

/-- sample rate: ±0.0 = absent -/
theorem cv_sample_rate_roundtrip (v : Option F) (n : UInt64) (k : UInt32) (a b c : F) :
    (write_sample_rate v).bind (fun x => read_sample_rate ⟨x, n, k, a, b, c⟩) = .ok (Spec.normZeroAbsent v) := by
  rw [write_sample_rate_eq]; simp only [Res.bind]; rw [read_sample_rate_eq]
  exact congrArg Res.ok (zeroAbsent_getD v)

/-- sample count: 0 = absent; the same number goes to `beat_data` as a double -/
theorem cv_sample_count_roundtrip (ops : FOps) (v : Option UInt64) (rate : F) (k : UInt32) (a b c : F) :
    (write_sample_count ops v).bind (fun p => read_sample_count ⟨rate, p.1, k, a, b, c⟩) = .ok (Spec.normCount v) := by
  rw [write_sample_count_eq]; simp only [Res.bind]; rw [read_sample_count_eq]
  exact congrArg Res.ok (read_write_count v)

/-- main cue: ±0.0 = absent -/
theorem cv_main_cue_roundtrip (v : Option F) :
    (write_main_cue v).bind read_main_cue = .ok (Spec.normZeroAbsent v) := by
  rw [write_main_cue_eq]; simp only [Res.bind]; rw [read_main_cue_eq]
  exact congrArg Res.ok (zeroAbsent_getD v)

/-- beat grid: every marker (index, offset) comes back verbatim from the adjusted grid — and from the default
grid, which holds the same markers; the flag says whether there are any; never undefined -/
theorem cv_grid_roundtrip (g : List GMarker) :
    (write_beatgrid g).bind (fun p => read_beatgrid_markers p.2.2) = .ok g ∧
    (write_beatgrid g).bind (fun p => read_beatgrid_markers p.2.1) = .ok g ∧
    (write_beatgrid g).bind (fun p => .ok p.1) = .ok (if g.isEmpty then 0 else 1) := by
  rw [write_beatgrid_eq]
  simp only [Res.bind]
  rw [read_beatgrid_markers_eq, read_write_grid]
  refine ⟨rfl, rfl, ?_⟩
  cases g with
  | nil => rfl
  | cons a r => cases r <;> rfl

/-- hot cues: at most eight are padded to eight slots (a cue at −1.0 is an empty slot) … -/
theorem cv_hot_cues_roundtrip (cs : List (Option HotCue)) (h : cs.length ≤ 8) (a d : F) (b : Bool) :
    (write_hot_cues cs).bind (fun q => read_hot_cues ⟨q, a, b, d⟩) = .ok (Spec.pad8 (cs.map Spec.normCue)) := by
  rw [write_hot_cues_eq]
  unfold writeHotCues
  rw [if_neg (by omega)]
  simp only [Res.bind]
  rw [read_hot_cues_eq]
  exact congrArg Res.ok (read_write_hotCues cs)

/-- … more than eight are rejected with `hot_cues_overflow`, nothing else can happen -/
theorem cv_hot_cues_overflow (cs : List (Option HotCue)) (h : 8 < cs.length) :
    write_hot_cues cs = .throw (.dj "hot_cues_overflow") := by
  rw [write_hot_cues_eq]; unfold writeHotCues; rw [if_pos h]

/-- what `write::hot_cues` returns always has exactly eight slots -/
theorem cv_hot_cues_eight (cs : List (Option HotCue)) (q : List V2.Cue) (h : write_hot_cues cs = .ok q) :
    q.length = 8 := by
  rw [write_hot_cues_eq] at h
  unfold writeHotCues at h
  split at h
  · cases h
  · cases h; simp [padTo]; omega

/-- loops: verbatim, padded to eight -/
theorem cv_loops_roundtrip (ls : List (Option LoopV)) (h : ls.length ≤ 8) :
    (write_loops ls).bind read_loops = .ok (Spec.pad8 ls) := by
  rw [write_loops_eq]
  unfold writeLoops
  rw [if_neg (by omega)]
  simp only [Res.bind]
  rw [read_loops_eq]
  exact congrArg Res.ok (read_write_loops ls)

theorem cv_loops_overflow (ls : List (Option LoopV)) (h : 8 < ls.length) :
    write_loops ls = .throw (.dj "loops_overflow") := by
  rw [write_loops_eq]; unfold writeLoops; rw [if_pos h]; rfl

theorem cv_loops_eight (ls : List (Option LoopV)) (q : Cv.LoopsBlob) (h : write_loops ls = .ok q) :
    q.loops.length = 8 ∧ q.extra = [] := by
  rw [write_loops_eq] at h
  unfold writeLoops at h
  split at h
  · cases h
  · cases h; simp [padTo]; omega

/-- **Nothing undefined on the write side**: for every argument each `convert::write::*` returns
normally, except the two list conversions, which throw their overflow exception (the `double →
int64_t` cast of `write::bpm` sits behind its range guard; `duration / 1000` cannot overflow). -/
theorem cv_write_total (ops : FOps) :
    (∀ r, (write_rating r).isOk = true) ∧ (∀ d, (write_duration d).isOk = true) ∧ (∀ v, (write_bpm v).isOk = true) ∧
    (∀ k, (write_key k).isOk = true) ∧ (∀ v, (write_average_loudness v).isOk = true) ∧
    (∀ v, (write_sample_rate v).isOk = true) ∧ (∀ c, (write_sample_count ops c).isOk = true) ∧
    (∀ v, (write_main_cue v).isOk = true) ∧ (∀ c, (write_hot_cue c).isOk = true) ∧ (∀ l, (write_loop l).isOk = true) ∧
    (∀ cs, (write_hot_cues cs).isUb = false) ∧ (∀ ls, (write_loops ls).isUb = false) := by
  refine ⟨?_, ?_, ?_, ?_, ?_, ?_, ?_, ?_, ?_, ?_, ?_, ?_⟩
  · intro r; rw [write_rating_eq]; rfl
  · intro d; rw [write_duration_eq]; rfl
  · intro v; rw [write_bpm_eq]; rfl
  · intro k; rw [write_key_eq]; rfl
  · intro v; rw [write_average_loudness_eq]; rfl
  · intro v; rw [write_sample_rate_eq]; rfl
  · intro c; rw [write_sample_count_eq]; rfl
  · intro v; rw [write_main_cue_eq]; rfl
  · intro c; rw [write_hot_cue_eq]; rfl
  · intro l; rw [write_loop_eq]; rfl
  · intro cs; rw [write_hot_cues_eq]; unfold writeHotCues; split <;> rfl
  · intro ls; rw [write_loops_eq]; unfold writeLoops; split <;> rfl

/-- The one conversion with undefined behaviour in reach: `read::duration` multiplies the stored
`length` by 1000 in `int64_t` (a foreign row with `|length| > 2^63 / 1000`); rows written by the
library never get there (`cv_duration_roundtrip`). -/
theorem cv_read_duration_ub : read_duration (Cv.i64 9223372036854775807) = .ub .signed_overflow := by
  rw [read_duration_eq]; decide

/-! ## non-vacuity: the regenerated functions evaluated in the kernel -/

example : write_rating (some (Cv.i32 250)) = .ok 100 := by decide
example : write_rating (some (Cv.i32 (-5))) = .ok 0 := by decide
example : (write_rating (some (Cv.i32 77))).bind read_rating = .ok (some 77) := by decide
example : (write_duration (some (Cv.i64 (-1999)))).bind read_duration = .ok (some (Cv.i64 (-1000))) := by decide
example : (write_duration (some (Cv.i64 999))).bind read_duration = .ok none := by decide
example : write_key (some 7) = .ok (some 7, 7) := by decide
-- 120.5 bpm: kept exactly, truncated column 120
example : write_bpm (some 0x405e200000000000) = .ok (some 0x405e200000000000, some 120) := by decide
-- 1e300 bpm: kept exactly, no integer column (and no `ub float_cast_range`)
example : write_bpm (some 0x7e37e43c8800759c) = .ok (some 0x7e37e43c8800759c, none) := by decide
-- nine cues are rejected, one cue is padded to eight, a cue at -1.0 becomes an empty slot
example : write_hot_cues (List.replicate 9 none) = .throw (.dj "hot_cues_overflow") := by decide
example : (write_hot_cues [some ⟨[65], 0x3ff0000000000000, ⟨1, 2, 3, 4⟩⟩]).bind (fun q => .ok q.length) = .ok 8 := by decide
example : (write_hot_cues [some ⟨[65], F64.negOne, ⟨1, 2, 3, 4⟩⟩]).bind (fun q => read_hot_cues ⟨q, 0, true, 0⟩) =
    .ok (List.replicate 8 none) := by decide
example : (write_loops [none, some ⟨[66], 0, 0x3ff0000000000000, ⟨9, 9, 9, 9⟩⟩]).bind read_loops =
    .ok ([none, some ⟨[66], 0, 0x3ff0000000000000, ⟨9, 9, 9, 9⟩⟩] ++ List.replicate 6 none) := by decide
example : (([none, none] : List (Option HotCue)).length ≤ 8) := by decide
-- three markers: beat distances 4 and 8 written through the reference, the last keeps 0
example : write_beatgrid_markers [⟨0, 0⟩, ⟨4, 0x40e5888000000000⟩, ⟨12, 0x40f5888000000000⟩] =
    .ok [⟨0, 0, 4, 0⟩, ⟨0x40e5888000000000, 4, 8, 0⟩, ⟨0x40f5888000000000, 12, 0, 0⟩] := by decide
-- extreme indices: the distance INT32_MAX − INT32_MIN wraps to −1 in the int32 field, no overflow of the int64 subtraction
example : write_beatgrid_markers [⟨0x80000000, 0⟩, ⟨0x7fffffff, 0⟩] =
    .ok [⟨0, 0xffffffff80000000, 0xffffffff, 0⟩, ⟨0, 0x7fffffff, 0, 0⟩] := by decide

end EngineModel.Properties.C01V2Convert
