/-
C12 — A created library matches the reference schema of its version.
-/
import EngineModel.Spec.SqlCanon
import EngineModel.Spec.SchemaDump

namespace EngineModel.Properties.C12
open EngineModel.Spec.SqlCanon EngineModel.Spec.SchemaDump

end EngineModel.Properties.C12
