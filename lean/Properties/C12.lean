/-
C12 — A created library matches the reference schema of its version.

The property's quantifier is finite (versions × reference dumps × {disk, temporary});
it is decided on every run by evaluating the Lean-defined comparison `schemaEq`
(Spec/SchemaDump.lean over Spec/SqlCanon.lean) on the catalogs of the created and the
hydrated reference libraries (tools/props/C12.py; in thorough tier additionally inside
the kernel: Properties/C12Table.lean over Gen/SchemaFacts.lean).

This file holds what makes that evaluation mean "equal modulo whitespace and identifier
quoting — and nothing else":

* Part 1 (`canon`): the lexer is lossless and a bijection onto well-formed lexeme
  lists (`unlex_lex`, `lex_wf`, `lex_unlex`), `canon` is "drop whitespace/comment
  lexemes, forget the quoting style of identifiers" on that faithful representation
  (`canon_unlex`), hence invariant under insertion / removal of whitespace between
  tokens and under the three quoting styles (`canon_ws_insert`, `canon_requote`,
  `canon_quote_bare`), and injective otherwise (`canon_eq_iff`: equal canon ⇔ the
  significant lexemes agree pairwise up to identifier quoting).

* Part 2 (`schemaEq`): it is an equivalence relation, and it holds exactly when the
  `(db, type, name, tbl_name, canon sql)` sets, the `table_info` column lists (ordered)
  and the index descriptions agree (`schemaEq_iff`, with the projections
  `schemaEq_master`, `schemaEq_columns`, `schemaEq_indexes`, `schemaEq_sql`).
-/
import EngineModel.Spec.SqlCanon
import EngineModel.Spec.SchemaDump
import Proofs.SqlCanon

namespace EngineModel.Properties.C12
open EngineModel.Spec.SqlCanon EngineModel.Spec.SchemaDump

/-! ## Part 1 — `canon` forgets whitespace and identifier quoting, nothing else -/

/-- The lexer loses nothing: the source text is the concatenation of its lexemes. -/
theorem lex_lossless (s : List Char) : unlex (lex s) = s := unlex_lex s

/-- Every lexeme list produced by the lexer is well formed … -/
theorem lex_wellformed (s : List Char) : LexWf (lex s) = true := lex_wf s

/-- … and every well-formed lexeme list is the lexing of its own text: `lex` and `unlex`
are mutually inverse bijections between texts and well-formed lexeme lists. -/
theorem lex_bijective {ls : List Lexeme} (h : LexWf ls = true) : lex (unlex ls) = ls := lex_unlex h

/-- `canon` of a text, read off any well-formed lexeme list that spells it. -/
theorem canon_of_lexemes {ls : List Lexeme} (h : LexWf ls = true) :
    canonChars (unlex ls) = ls.filterMap strip := canon_unlex h

/-- `canon` is by definition a map (`filterMap strip`) over the lossless token stream. -/
theorem canon_def (s : String) : canon s = (lex s.toList).filterMap strip := rfl

/-- Lexemes `canon` drops: whitespace runs and comments. -/
def insignificant : Lexeme → Bool
  | .ws _ => true
  | .lineComment _ _ => true
  | .blockComment _ _ => true
  | _ => false

theorem strip_none_iff (l : Lexeme) : strip l = none ↔ insignificant l = true := by
  cases l <;> simp [strip, insignificant]

/-- Inserting (or removing) a whitespace run or a comment between two tokens does not
change `canon` — whenever the text with and the text without it lex at that boundary
(i.e. both lexeme lists are well formed: the insertion does not glue or split tokens). -/
theorem canon_ws_insert {l₁ l₂ : List Lexeme} {w : Lexeme} (hw : insignificant w = true)
    (h₀ : LexWf (l₁ ++ l₂) = true) (h₁ : LexWf (l₁ ++ w :: l₂) = true) :
    canonChars (unlex (l₁ ++ w :: l₂)) = canonChars (unlex (l₁ ++ l₂)) := by
  rw [canon_unlex h₀, canon_unlex h₁]
  have : strip w = none := (strip_none_iff w).2 hw
  simp [List.filterMap_append, List.filterMap_cons, this]

/-- Changing the quoting style of an identifier (`[x]`, `"x"`, `` `x` ``) does not change `canon`. -/
theorem canon_requote {l₁ l₂ : List Lexeme} {st st' : QStyle} {c : List Char}
    (h₀ : LexWf (l₁ ++ .quoted st c :: l₂) = true) (h₁ : LexWf (l₁ ++ .quoted st' c :: l₂) = true) :
    canonChars (unlex (l₁ ++ .quoted st c :: l₂)) = canonChars (unlex (l₁ ++ .quoted st' c :: l₂)) := by
  rw [canon_unlex h₀, canon_unlex h₁]
  simp [List.filterMap_append, List.filterMap_cons, strip]

/-- Quoting a bare identifier (or removing the quotes) does not change `canon`. -/
theorem canon_quote_bare {l₁ l₂ : List Lexeme} {st : QStyle} {c : List Char}
    (h₀ : LexWf (l₁ ++ .bare c :: l₂) = true) (h₁ : LexWf (l₁ ++ .quoted st c :: l₂) = true) :
    canonChars (unlex (l₁ ++ .bare c :: l₂)) = canonChars (unlex (l₁ ++ .quoted st c :: l₂)) := by
  rw [canon_unlex h₀, canon_unlex h₁]
  simp [List.filterMap_append, List.filterMap_cons, strip]

/-- Two significant lexemes that `canon` identifies: the same lexeme, or two spellings
(bare or quoted in any style) of the same identifier. -/
def sameTok (a b : Lexeme) : Prop :=
  a = b ∨ ∃ c, (a = .bare c ∨ ∃ st, a = .quoted st c) ∧ (b = .bare c ∨ ∃ st, b = .quoted st c)

theorem strip_eq_iff {a b : Lexeme} (ha : insignificant a = false) (hb : insignificant b = false) :
    strip a = strip b ↔ sameTok a b := by
  cases a <;> cases b <;> simp_all [strip, insignificant, sameTok] <;>
    first | exact eq_comm | (constructor <;> intro h <;> first | exact h.symm | (rcases h with h | h <;> first | exact h.2 | exact h.symm) | (exact Or.inr h.symm))

/-- The two lexeme lists have the same length and agree position by position up to `sameTok`. -/
inductive Agree : List Lexeme → List Lexeme → Prop
  | nil : Agree [] []
  | cons {a b : Lexeme} {as bs : List Lexeme} : sameTok a b → Agree as bs → Agree (a :: as) (b :: bs)

theorem agree_cons_iff {a b : Lexeme} {as bs : List Lexeme} :
    Agree (a :: as) (b :: bs) ↔ sameTok a b ∧ Agree as bs :=
  ⟨fun h => by cases h with | cons h₁ h₂ => exact ⟨h₁, h₂⟩, fun h => .cons h.1 h.2⟩

theorem agree_nil_cons {b : Lexeme} {bs : List Lexeme} : ¬ Agree [] (b :: bs) := fun h => nomatch h
theorem agree_cons_nil {a : Lexeme} {as : List Lexeme} : ¬ Agree (a :: as) [] := fun h => nomatch h

/-- The significant lexemes of a text. -/
def significant (s : List Char) : List Lexeme := (lex s).filter fun l => !insignificant l

theorem filterMap_strip_eq_iff (xs ys : List Lexeme)
    (hx : ∀ l ∈ xs, insignificant l = false) (hy : ∀ l ∈ ys, insignificant l = false) :
    xs.filterMap strip = ys.filterMap strip ↔ Agree xs ys := by
  induction xs generalizing ys with
  | nil =>
    cases ys with
    | nil => exact ⟨fun _ => .nil, fun _ => rfl⟩
    | cons y ys =>
      have hy' := hy y (by simp)
      have : ∃ t, strip y = some t := by
        cases h : strip y with
        | none => rw [strip_none_iff] at h; simp [h] at hy'
        | some t => exact ⟨t, rfl⟩
      obtain ⟨t, ht⟩ := this
      simp [ht, agree_nil_cons]
  | cons x xs ih =>
    have hx' := hx x (by simp)
    obtain ⟨t, ht⟩ : ∃ t, strip x = some t := by
      cases h : strip x with
      | none => rw [strip_none_iff] at h; simp [h] at hx'
      | some t => exact ⟨t, rfl⟩
    cases ys with
    | nil => simp [ht, agree_cons_nil]
    | cons y ys =>
      have hy' := hy y (by simp)
      obtain ⟨u, hu⟩ : ∃ u, strip y = some u := by
        cases h : strip y with
        | none => rw [strip_none_iff] at h; simp [h] at hy'
        | some u => exact ⟨u, rfl⟩
      have ih' := ih ys (fun l hl => hx l (by simp [hl])) (fun l hl => hy l (by simp [hl]))
      rw [agree_cons_iff, ← ih', ← strip_eq_iff hx' hy']
      simp [ht, hu]

theorem filterMap_strip_filter (xs : List Lexeme) :
    (xs.filter fun l => !insignificant l).filterMap strip = xs.filterMap strip := by
  induction xs with
  | nil => rfl
  | cons x xs ih =>
    cases h : insignificant x with
    | true =>
      have : strip x = none := (strip_none_iff x).2 h
      simp [h, this, ih]
    | false =>
      simp only [List.filter_cons, h, Bool.not_false, if_true, List.filterMap_cons, ih]

/-- **Injective otherwise.**  Two texts have the same `canon` exactly when their
significant lexemes (everything except whitespace and comments, read off the lossless
lexing) agree one by one up to the spelling — bare or quoted, in whichever style — of
identifiers.  So a difference in any keyword, identifier content, case, string literal,
number, operator or punctuation is a difference of `canon`. -/
theorem canon_eq_iff (s t : List Char) :
    canonChars s = canonChars t ↔ Agree (significant s) (significant t) := by
  unfold canonChars significant
  rw [← filterMap_strip_filter (lex s), ← filterMap_strip_filter (lex t)]
  apply filterMap_strip_eq_iff <;>
  · intro l hl
    have := (List.mem_filter.1 hl).2
    simpa using this

/-- The same, for the `String` entry point used by `schemaEq`. -/
theorem canon_string_eq_iff (s t : String) :
    canon s = canon t ↔ Agree (significant s.toList) (significant t.toList) :=
  canon_eq_iff s.toList t.toList

/-- Every `canon` value has a canonical text (`render`: tokens separated by single blanks,
identifiers bare where possible and double-quoted otherwise) with the same `canon`; so
`canon` is a retraction of texts onto well-formed token lists, `render` its section. -/
theorem canon_render_canon (s : List Char) : canonChars (render (canonChars s)) = canonChars s :=
  canon_render (canon_tokWf s)

/-- Every well-formed token list is the `canon` of some text. -/
theorem canon_surjective {ts : List Token} (h : TokWf ts = true) : ∃ s, canonChars s = ts :=
  ⟨render ts, canon_render h⟩

/-! non-vacuity: concrete texts satisfying the hypotheses / showing both directions -/

example : LexWf ([.bare "a".toList, .ws " ".toList, .bare "b".toList]) = true := by decide +kernel
example : canon "CREATE TABLE [T] (\"a\" INTEGER ,`b` TEXT)" = canon "create TABLE T(a INTEGER, b TEXT)" → False := by
  decide +kernel
example : canon "CREATE TABLE [T] (\"a\" INTEGER ,`b` TEXT)" = canon "CREATE   TABLE T(a INTEGER, b TEXT) -- c" := by
  decide +kernel
example : canon "x 'a b'" ≠ canon "x 'a  b'" := by decide +kernel
example : canon "trigger_after_update_PerformanceDataAFTER UPDATE" ≠ canon "trigger_after_update_PerformanceData AFTER UPDATE" := by
  decide +kernel

/-! ## Part 2 — `schemaEq` -/

section sets
variable {α : Type} [DecidableEq α]

theorem subsetB_iff (xs ys : List α) : subsetB xs ys = true ↔ ∀ x ∈ xs, x ∈ ys := by
  simp [subsetB, List.all_eq_true]

theorem sameSet_iff (xs ys : List α) :
    sameSet xs ys = true ↔ (∀ x, x ∈ xs ↔ x ∈ ys) ∧ xs.length = ys.length := by
  simp only [sameSet, Bool.and_eq_true, subsetB_iff, beq_iff_eq]
  constructor
  · rintro ⟨⟨h1, h2⟩, h3⟩
    exact ⟨fun x => ⟨h1 x, h2 x⟩, h3⟩
  · rintro ⟨h, h3⟩
    exact ⟨⟨fun x => (h x).1, fun x => (h x).2⟩, h3⟩

theorem sameSet_refl (xs : List α) : sameSet xs xs = true := by
  rw [sameSet_iff]; exact ⟨fun _ => Iff.rfl, rfl⟩

theorem sameSet_symm {xs ys : List α} (h : sameSet xs ys = true) : sameSet ys xs = true := by
  rw [sameSet_iff] at *; exact ⟨fun x => (h.1 x).symm, h.2.symm⟩

theorem sameSet_trans {xs ys zs : List α} (h₁ : sameSet xs ys = true) (h₂ : sameSet ys zs = true) :
    sameSet xs zs = true := by
  rw [sameSet_iff] at *; exact ⟨fun x => (h₁.1 x).trans (h₂.1 x), h₁.2.trans h₂.2⟩

end sets

/-- What `schemaEq` says, spelled out: the canonicalised `sqlite_master` rows
`(db, type, name, tbl_name, canon sql)`, the `table_info` descriptions (columns in `cid`
order with type, notnull, default, pk) and the index descriptions (unique, origin,
partial, columns in order) of the two catalogs are the same sets, of the same sizes. -/
theorem schemaEq_iff (a b : Dump) :
    schemaEq a b = true ↔
      ((∀ r, r ∈ (canonDump a).master ↔ r ∈ (canonDump b).master) ∧
        (canonDump a).master.length = (canonDump b).master.length) ∧
      ((∀ t, t ∈ a.tables ↔ t ∈ b.tables) ∧ a.tables.length = b.tables.length) ∧
      ((∀ i, i ∈ (canonDump a).indexes ↔ i ∈ (canonDump b).indexes) ∧
        (canonDump a).indexes.length = (canonDump b).indexes.length) := by
  simp only [schemaEq, cdumpEq, Bool.and_eq_true, sameSet_iff, and_assoc]
  rfl

theorem schemaEq_refl (a : Dump) : schemaEq a a = true := by
  simp [schemaEq, cdumpEq, sameSet_refl]

theorem schemaEq_symm {a b : Dump} (h : schemaEq a b = true) : schemaEq b a = true := by
  simp only [schemaEq, cdumpEq, Bool.and_eq_true] at *
  exact ⟨⟨sameSet_symm h.1.1, sameSet_symm h.1.2⟩, sameSet_symm h.2⟩

theorem schemaEq_trans {a b c : Dump} (h₁ : schemaEq a b = true) (h₂ : schemaEq b c = true) :
    schemaEq a c = true := by
  simp only [schemaEq, cdumpEq, Bool.and_eq_true] at *
  exact ⟨⟨sameSet_trans h₁.1.1 h₂.1.1, sameSet_trans h₁.1.2 h₂.1.2⟩, sameSet_trans h₁.2 h₂.2⟩

/-- `schemaEq` is an equivalence relation on catalog dumps. -/
theorem schemaEq_equivalence : Equivalence fun a b : Dump => schemaEq a b = true :=
  ⟨schemaEq_refl, schemaEq_symm, schemaEq_trans⟩

/-- Equal `(db, type, name, tbl_name, canon sql)` sets. -/
theorem schemaEq_master {a b : Dump} (h : schemaEq a b = true) (r : CMasterRow) :
    r ∈ a.master.map canonRow ↔ r ∈ b.master.map canonRow :=
  ((schemaEq_iff a b).1 h).1.1 r

/-- Every object of one catalog has a counterpart in the other with the same database,
type, name, table and the same DDL modulo whitespace and identifier quoting. -/
theorem schemaEq_sql {a b : Dump} (h : schemaEq a b = true) {r : MasterRow} (hr : r ∈ a.master) :
    ∃ r' ∈ b.master, r'.db = r.db ∧ r'.type = r.type ∧ r'.name = r.name ∧ r'.tbl = r.tbl ∧
      r'.sql.map canonChars = r.sql.map canonChars := by
  have := (schemaEq_master h (canonRow r)).1 (List.mem_map_of_mem hr)
  obtain ⟨r', hr', e⟩ := List.mem_map.1 this
  refine ⟨r', hr', ?_⟩
  simp only [canonRow, CMasterRow.mk.injEq] at e
  exact e

/-- Equal `table_info` descriptions: every table / view has the same columns — names,
declared types, nullability, defaults, key membership — in the same order. -/
theorem schemaEq_columns {a b : Dump} (h : schemaEq a b = true) (t : TableCols) :
    t ∈ a.tables ↔ t ∈ b.tables :=
  ((schemaEq_iff a b).1 h).2.1.1 t

/-- Equal index descriptions per table (name, uniqueness, origin, partiality, columns in order). -/
theorem schemaEq_indexes {a b : Dump} (h : schemaEq a b = true) (i : Str × Str × Index) :
    i ∈ (canonDump a).indexes ↔ i ∈ (canonDump b).indexes :=
  ((schemaEq_iff a b).1 h).2.2.1 i

/-- Equal numbers of objects (so a duplicated object is seen). -/
theorem schemaEq_sizes {a b : Dump} (h : schemaEq a b = true) :
    a.master.length = b.master.length ∧ a.tables.length = b.tables.length := by
  have := (schemaEq_iff a b).1 h
  exact ⟨by simpa [canonDump] using this.1.2, this.2.1.2⟩

/-- `schemaEq` does not look at the stored DDL beyond its `canon`: rewriting the DDL of
any objects into texts with the same `canon` (e.g. re-spacing, re-quoting identifiers)
leaves the two dumps `schemaEq`. -/
theorem schemaEq_of_canon_eq {a b : Dump} (hm : a.master.map canonRow = b.master.map canonRow)
    (ht : a.tables = b.tables) (hi : a.indexes = b.indexes) : schemaEq a b = true := by
  have : canonDump a = canonDump b := by simp [canonDump, hm, ht, hi]
  simp [schemaEq, this, cdumpEq, sameSet_refl]

/-- A single object whose DDL differs beyond whitespace and quoting (no counterpart with
equal `canon`) makes the comparison fail. -/
theorem schemaEq_detects {a b : Dump} {r : MasterRow} (hr : r ∈ a.master)
    (hno : ∀ r' ∈ b.master, canonRow r' ≠ canonRow r) : schemaEq a b = false := by
  cases h : schemaEq a b with
  | false => rfl
  | true =>
    obtain ⟨r', hr', e⟩ := List.mem_map.1 ((schemaEq_master h (canonRow r)).1 (List.mem_map_of_mem hr))
    exact absurd e (hno r' hr')

/-! non-vacuity -/

private def dA : Dump :=
  ⟨[⟨"main".toList, "table".toList, "T".toList, "T".toList, some "CREATE TABLE T ( [a] INTEGER )".toList⟩],
   [⟨"main".toList, "T".toList, [⟨"a".toList, "INTEGER".toList, 0, none, 0⟩]⟩], []⟩
private def dB : Dump :=
  ⟨[⟨"main".toList, "table".toList, "T".toList, "T".toList, some "CREATE TABLE \"T\"(a   INTEGER)".toList⟩],
   [⟨"main".toList, "T".toList, [⟨"a".toList, "INTEGER".toList, 0, none, 0⟩]⟩], []⟩
private def dC : Dump :=
  ⟨[⟨"main".toList, "table".toList, "T".toList, "T".toList, some "CREATE TABLE T ( [a] TEXT )".toList⟩],
   [⟨"main".toList, "T".toList, [⟨"a".toList, "TEXT".toList, 0, none, 0⟩]⟩], []⟩

example : schemaEq dA dB = true := by decide +kernel
example : dA ≠ dB := by decide +kernel
example : schemaEq dA dC = false := by decide +kernel

end EngineModel.Properties.C12
