/-
C11, schema 2.x, per-track derived columns — "derived per-track columns (file
name, extension or file type, origin ids) agree with the track's path and the
database UUID", after any sequence of public track calls, checking the raw
table after every prefix — including after calls that were refused.

Model (EngineModel/TracksV2/Table.lean): the Track table at *statement* level —
rows with id / path / filename / fileType / originDatabaseUuid / originTrackId,
`UNIQUE (path)`, `UNIQUE (originDatabaseUuid, originTrackId)`, the id-change and
origin fix-up triggers, `INSERT` / whole-row `UPDATE` / one-column `UPDATE` with
its `rows_modified` test / `SELECT` / `DELETE`; every public call
(`create_track`, `track::update`, each of the 26 `set_*`, `remove_track`) is the
sequence of statements the C++ issues, inside the RAII transaction scope where
the C++ has one.  A failing statement has no effect of its own; what the
earlier statements of the call did stays unless the call is inside a
transaction.  The same seven schema versions share these constraints and
triggers (checked by C12 against the reference dumps).

Spec (`Spec.tracksWf`, written from the property text, independent of the
library's `get_filename` / `get_file_extension`): file name = what follows the
last '/', file type = what follows the last '.' of the file name, origin uuid =
`Information.uuid`, origin track id = the row's id; ids and paths are keys.
-/
import Proofs.TracksV2Wf

namespace EngineModel.Properties.C11V2Tracks
open EngineModel EngineModel.TracksV2 EngineModel.Prim

def exOps : FOps := ⟨fun _ => 0, fun _ => 0, fun _ _ => 0⟩
/-- "a/<n>.mp3" -/
def exSnap (n : UInt8) : Snap := { Snap.empty with relativePath := some [97, 47, n, 46, 109, 112, 51], title := some [n] }
def exPathA : Bytes := [97, 47, 49, 46, 109, 112, 51]
/-- two tracks "a/1.mp3", "a/2.mp3" -/
def exDb : TDb := (TDb.empty [1, 2]).run exOps .s2_20_3 [.create (exSnap 49), .create (exSnap 50)]

/-- **Every reachable state is well-formed**: from the empty table, after any
history of create / update / any setter / remove — arbitrary snapshots, values,
ids and (colliding) paths, whatever each call answered (normal return,
exception) — the executable predicate the tie evaluates on the real raw rows
holds.  The quantifier is over all histories, hence over every prefix. -/
theorem C11V2T_reachable_wf (ops : FOps) (s : Schema) (uuid : Bytes) (hist : List TOp) :
    Spec.tracksWf ((TDb.empty uuid).run ops s hist) = true :=
  tracksWf_of_inv (inv_run ops s hist (inv_empty uuid))

/-- … in logical form: in every reachable state every stored row has
`filename` = the file-name part of `path`, `fileType` = its extension (empty if
none), `originDatabaseUuid` = the uuid the database was created with,
`originTrackId` = its own id; ids and paths are keys; ids are positive and
within the AUTOINCREMENT counter. -/
theorem C11V2T_reachable_rows (ops : FOps) (s : Schema) (uuid : Bytes) (hist : List TOp) :
    let db := (TDb.empty uuid).run ops s hist
    db.uuid = uuid ∧
    (∀ t ∈ db.rows, t.row.filename = Spec.fileNameOf t.row.path ∧ t.row.fileType = Spec.fileTypeOf t.row.path ∧
      t.originUuid = uuid ∧ t.originId = t.id ∧ 1 ≤ t.id ∧ t.id ≤ db.seq) ∧
    (db.rows.map (·.id)).Nodup ∧ (db.rows.map (·.row.path)).Nodup := by
  intro db
  have hI : Inv db := inv_run ops s hist (inv_empty uuid)
  have hu : db.uuid = uuid := run_uuid ops s hist (inv_empty uuid)
  refine ⟨hu, ?_, hI.s.ids, paths_nodup hI.s⟩
  intro t ht
  obtain ⟨h1, h2⟩ := hI.d t ht
  obtain ⟨h3, h4⟩ := hI.s.origin t ht
  refine ⟨by rw [fileNameOf_eq]; exact h1, by rw [fileTypeOf_eq, h2, h1], by rw [h3, hu], h4, hI.s.pos t ht⟩

/-- The invariant is inductive over single calls, from *any* well-formed table
(not only those built from the empty one), whatever the call's outcome. -/
theorem C11V2T_step_preserves (ops : FOps) (s : Schema) (op : TOp) (db : TDb) (h : Inv db) :
    Inv (db.step ops s op).1 ∧ Spec.tracksWf (db.step ops s op).1 = true :=
  ⟨inv_step ops s op h, tracksWf_of_inv (inv_step ops s op h)⟩

/-- **From any library whose raw rows pass the check** (not only those grown from
the empty one — e.g. a library written by Engine and loaded): the executable
predicate is exactly the invariant, so every history from such a table keeps it,
a failed call leaves it untouched and the setters are atomic. -/
theorem C11V2T_from_any_wellformed (ops : FOps) (s : Schema) (db : TDb) (h : Spec.tracksWf db = true)
    (hist : List TOp) :
    Spec.tracksWf (db.run ops s hist) = true ∧ (Spec.tracksWf db = true ↔ Inv db) :=
  ⟨tracksWf_of_inv (inv_run ops s hist (inv_of_tracksWf h)), tracksWf_iff_inv db⟩

/-- **A call that does not return normally leaves the Track table exactly as it
was** — proved of the statement sequences (a `UNIQUE` failure of the k-th
statement rolls back the k−1 before it because the C++ has a transaction scope
there), not assumed by the shape of the model. -/
theorem C11V2T_failed_call_unchanged (ops : FOps) (s : Schema) (op : TOp) (db : TDb) (h : Inv db)
    (hfail : ¬ ∃ v, (db.step ops s op).2 = .ok v) : (db.step ops s op).1 = db :=
  step_failed_unchanged ops s op h.s hfail

/-- **Every setter is atomic**: the statement sequence of `set_*` has either the
whole effect of the lens model of C06 (`applySetter` on the row of its track) or
none (`atomicSet`), on every table satisfying the structural invariant. -/
theorem C11V2T_setter_atomic (ops : FOps) (id : Nat) (σ : Setter) (db : TDb) (h : Inv db) :
    callSet ops id σ db = atomicSet ops id σ db :=
  callSet_atomic ops id σ h.s

/-- The predicate is not vacuous and the transaction scope is what carries it:
`set_relative_path` without the scope and with the derived columns written
first (the seeded change C11-2) refuses a colliding path *after* having stored
the refused path's file name and type. -/
theorem C11V2T_unscoped_counterexample :
    ∃ (db : TDb) (id : Nat) (p : Bytes), Inv db ∧
      (callSetRelativePathUnscoped id p db).2 = .throw .sqlite_error ∧
      Spec.tracksWf (callSetRelativePathUnscoped id p db).1 = false ∧
      -- the real setter on the same input: refused as well, table untouched
      (callSet exOps id (.relativePath p) db) = (db, .throw .sqlite_error) := by
  refine ⟨exDb, 2, exPathA, inv_run exOps .s2_20_3 _ (inv_empty _), ?_, ?_, ?_⟩ <;> decide +kernel

/-- What the Spec's "file name" and "file type" mean (so that the oracle cannot
be satisfied by a degenerate definition): the file name contains no '/', and the
path is the file name itself or ends in '/' followed by it; the file type
contains no '.', and the file name either contains no '.' (type empty) or ends in
'.' followed by the type. -/
theorem C11V2T_spec_meaning (p : Bytes) :
    (Spec.fileNameOf p).all (· != 47) = true ∧
    (Spec.fileNameOf p = p ∨ ∃ dir, p = dir ++ 47 :: Spec.fileNameOf p) ∧
    (Spec.fileTypeOf p).all (· != 46) = true ∧
    ((Spec.fileNameOf p).all (· != 46) = true ∧ Spec.fileTypeOf p = [] ∨
      ∃ stem, Spec.fileNameOf p = stem ++ 46 :: Spec.fileTypeOf p) := by
  refine ⟨suffixAfter_no 47 p, suffixAfter_split 47 p, ?_, ?_⟩
  · unfold Spec.fileTypeOf
    simp only []
    split
    · exact suffixAfter_no 46 _
    · rfl
  · unfold Spec.fileTypeOf
    simp only []
    rw [contains_iff_not_all]
    by_cases h : (Spec.fileNameOf p).all (· != 46) = true
    · left; simp [h]
    · right
      simp only [h, Bool.not_false, if_true]
      rcases suffixAfter_split 46 (Spec.fileNameOf p) with e | e
      · exact absurd (e ▸ suffixAfter_no 46 _) h
      · exact e

/-! ### non-vacuity -/

/-- a history with colliding paths, a refused re-pathing, a refused update, a
refused create, removals, calls on a removed track -/
def exHist : List TOp :=
  [.create (exSnap 49), .create (exSnap 50), .set 2 (.relativePath exPathA), .set 2 (.relativePath [120, 46, 111, 103, 103]),
   .update 1 (exSnap 50), .update 2 (exSnap 50), .create (exSnap 50), .remove 2, .remove 2, .create (exSnap 49),
   .set 2 (.title none), .set 3 (.relativePath [110, 111, 101, 120, 116]), .set 1 (.rating (some 7))]

example : ((TDb.empty [1, 2]).run exOps .s2_20_3 exHist).rows.map (fun t => (t.id, t.originId, t.row.path, t.row.filename, t.row.fileType))
    = [(1, 1, [97, 47, 50, 46, 109, 112, 51], [50, 46, 109, 112, 51], [109, 112, 51]),
       (3, 3, [110, 111, 101, 120, 116], [110, 111, 101, 120, 116], [])] := by decide +kernel
/-- the outcomes: two refused by `UNIQUE (path)`, one removed twice, one call on a removed track -/
example : (exHist.foldl (fun (acc : TDb × List (Res Nat)) op => ((acc.1.step exOps .s2_20_3 op).1, acc.2 ++ [(acc.1.step exOps .s2_20_3 op).2]))
    (TDb.empty [1, 2], [])).2 =
    [.ok 1, .ok 2, .throw .sqlite_error, .ok 0, .ok 0, .throw .sqlite_error, .throw .sqlite_error, .ok 0,
     .throw .invalid_argument, .ok 3, .throw .runtime_error, .ok 0, .ok 0] := by decide +kernel
/-- `tracksWf` rejects a row whose filename belongs to another path -/
example : Spec.tracksWf ⟨[1], 1, [⟨1, [1], 1, { (default : Row) with path := [97, 46, 98], filename := [99, 46, 98], fileType := [98] }⟩]⟩ = false := by
  decide +kernel
example : Spec.fileNameOf [97, 47, 98, 46, 99, 47, 100, 46, 116, 97, 114, 46, 103, 122] = [100, 46, 116, 97, 114, 46, 103, 122] ∧
    Spec.fileTypeOf [97, 47, 98, 46, 99, 47, 100, 46, 116, 97, 114, 46, 103, 122] = [103, 122] ∧
    Spec.fileTypeOf [97, 46, 98, 47, 99] = [] := by decide +kernel

end EngineModel.Properties.C11V2Tracks
