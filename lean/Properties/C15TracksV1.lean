/-
C15, schema 1.x tracks — "every public operation invoked with any argument
values on any state reachable through the API either completes or throws an
exception derived from std::exception; it never invokes undefined behaviour".

Model: `Api.C15TracksV1.step` = one dispatcher over `dbCreate` / `dbUpdate` /
`dbSnap` / `dbGet` / `dbSet` / `getDerived` of `EngineModel/TracksV1` (every
getter and setter incl. the per-slot accessors at ANY `int` index, create /
update with ANY snapshot) plus `remove` / `is_valid` / handle copy / `id()`.
The `ub` outcomes this model can produce at all (so the theorems say something):
`oob_index` (slot accessors, waveform resampling), `signed_overflow` (seconds →
ms / ns in `duration()`, `last_played_at()`, `snapshot()`; the generated
`track_utils` extents), `float_cast_range` (`static_cast<int64_t>` of sample
rate, BPM, ceil(BPM)), `div_zero` (`sample_count / (int64) sample_rate`).

`o : FOps` is the double arithmetic whose results only reach raw columns; the
only law assumed of it is `CeilInRange` (for |x| < 2^63 the cast of `ceil x` to
int64 is defined), needed by `set_bpm` alone — and proved here for the bit-exact
IEEE `ceil` (`ceilBits`), which the driver compares with the hardware on every
run.  `DbInv` is the invariant of the tracks-1.x package (stored whole seconds
scale back into int64, eight cue / loop slots, …); it holds of the empty
library and is kept by every operation (their locked theorems `v1_C06_inv_db`,
`v1_C06_remove_track`), so every reachable state has it.
-/
import Proofs.NoUbTracksV1
import Proofs.NoUbGuardsV1
import Proofs.NoUbStaleTracksV1

namespace EngineModel.Properties.C15TracksV1
open EngineModel EngineModel.TracksV1 EngineModel.Api.C15TracksV1 EngineModel.Api.GuardedTracksV1
open Fl (FOps)

/-- No operation, with any arguments, has undefined behaviour on a library whose rows satisfy the invariant. -/
theorem v1t_C15_no_ub (o : FOps) (hc : CeilInRange o) (d : Db) (hd : DbInv d) (op : Op) (u : Ub) :
    (step o d op).2 ≠ .ub u :=
  step_defined o hc d hd op u

/-- Every operation keeps the invariant (whether it returns or throws). -/
theorem v1t_C15_invariant (o : FOps) (d : Db) (hd : DbInv d) (op : Op) : DbInv (step o d op).1 :=
  step_inv o d hd op

/-- The empty library of any 1.x version satisfies the invariant. -/
theorem v1t_C15_empty (s : Schema) : DbInv ⟨s, []⟩ := dbInv_empty s

/-- **Reachable states**: along any script of operations with any arguments, started on the empty
library of any 1.x version, no call has undefined behaviour. -/
theorem v1t_C15_reachable_no_ub (o : FOps) (hc : CeilInRange o) (s : Schema) (ops : List Op) :
    ∀ r ∈ outcomes o ⟨s, []⟩ ops, ∀ u, r ≠ .ub u :=
  fun r hr u => outcomes_defined o hc ops ⟨s, []⟩ (dbInv_empty s) r hr u

/-- The law assumed of `ceil` (`CeilInRange`, stated by the tracks-1.x package) is a theorem for the
bit-exact IEEE `ceil` (`ceilBits`, compared with the hardware's on every run): with it, nothing at all is
assumed of the double arithmetic. -/
theorem v1t_C15_ceil_exact (o : FOps) : CeilInRange (withExactCeil o) :=
  ceilInRange_of_bounded (ceilBounded_exact o)

theorem v1t_C15_reachable_no_ub_exact_ceil (o : FOps) (s : Schema) (ops : List Op) :
    ∀ r ∈ outcomes (withExactCeil o) ⟨s, []⟩ ops, ∀ u, r ≠ .ub u :=
  v1t_C15_reachable_no_ub (withExactCeil o) (v1t_C15_ceil_exact o) s ops

/-- create_track / update never have undefined behaviour, whatever the snapshot and whatever was stored
before — no invariant needed (over-long cue lists, labels of any length, absent optionals, a waveform
without sample rate, doubles of any bit pattern incl. NaN and infinities), also through the handle of a
removed track. -/
theorem v1t_C15_write_any_snapshot (o : FOps) (d : Db) (id : Int) (x : Snap) (u : Ub) :
    dbCreate o d x ≠ .ub u ∧ dbUpdate o d id x ≠ .ub u :=
  ⟨dbCreate_defined o d x u, dbUpdate_defined o d id x u⟩

/-- The per-slot accessors at any `int` index, on any rows: a value or an exception. -/
theorem v1t_C15_slot_any_index (o : FOps) (hc : CeilInRange o) (r : TrackRows) (i : UInt32)
    (q : Option Impl.V1.HotCue) (l : Option Impl.V1.LoopV) (u : Ub) :
    get o r (.hotCueAt i) ≠ .ub u ∧ get o r (.loopAt i) ≠ .ub u ∧
    TracksV1.set o r (.hotCueAt i) q ≠ .ub u ∧ TracksV1.set o r (.loopAt i) l ≠ .ub u := by
  refine ⟨?_, ?_, set_def o hc r (.hotCueAt i) q u, set_def o hc r (.loopAt i) l u⟩
  · simp only [TracksV1.get]; exact slot_lookup_defined _ _ u
  · simp only [TracksV1.get]; exact slot_lookup_defined _ _ u

/-- **Stale handles, one step**: right after `remove_track` the handle reports `is_valid() = false`; `id()`,
copying, assigning and destroying it succeed (they touch no library state: a handle is its id — no model
content; AddressSanitizer watches them in the tie); every setter and `snapshot()` throw, and no call
whatsoever through it has undefined behaviour (the getters of MetaData / PerformanceData columns answer
as for a track without such rows, the others throw `track_deleted`). -/
theorem v1t_C15_stale_handle_one_step (o : FOps) (hc : CeilInRange o) (d : Db) (hd : DbInv d) (id : Int) :
    let d' := (step o d (.remove id)).1
    (step o d' (.isValid id)).2 = .ok (.bool false) ∧
    void (step o d' (.handleId id)).2 = .ok () ∧ void (step o d' (.handleCopy id)).2 = .ok () ∧
    (∀ f v, ∃ e, void (step o d' (.set id f v)).2 = .throw e) ∧
    void (step o d' (.snapshot id)).2 = .throw (.dj "track_deleted") ∧
    (∀ op u, (step o d' op).2 ≠ .ub u) := by
  intro d'
  have hrows : d'.rows id = none := (C06V1.v1_C06_remove_track d id).1
  have hinv : DbInv d' := (C06V1.v1_C06_remove_track d id).2.2.2 hd
  obtain ⟨hset, hsnap, hval, _⟩ := C06V1.v1_C06_absent_track o d' id hrows
  refine ⟨?_, rfl, rfl, ?_, ?_, fun op u => step_defined o hc d' hinv op u⟩
  · simp only [step, hval]
  · intro f v
    obtain ⟨e, he⟩ := hset f v
    exact ⟨e, by simp only [step, he]; rfl⟩
  · simp only [step, hsnap]; rfl

/-- double arithmetic with a `ceil` that satisfies the assumed law -/
def exOps : FOps := ⟨fun _ => 0, fun _ => 0, fun _ _ => 0, id⟩

def exSnap : Snap :=
  { Snap.empty with
    title := some [65], relativePath := some [97, 47, 98, 46, 109, 112, 51],
    duration := some 9223372036854775807, lastPlayedAt := some 9223372036854775808,
    bpm := some 0x405e200000000000,
    hotCues := [some ⟨[97], 0x40c3880000000000, ⟨255, 1, 2, 3⟩⟩],
    sampleCount := some 8000000, sampleRate := some 0x40e5888000000000,
    waveform := [⟨1, 2, 3, 4, 5, 6⟩] }

/-- a library with one track whose stored seconds are extreme -/
def exDb : Db := (step exOps ⟨.s1_15_0, []⟩ (.create exSnap)).1

/-- FULL STATEMENT ("handles to removed tracks report is_valid() == false", along every later history) —
FALSE of the 1.x code before schema 1.17.0 (and of this model, which allocates `MAX(id) + 1` as those
schemas do): the id of the removed track with the largest id is handed out again
(`v1t_C15_stale_handle_counterexample`; recorded finding of C15).
PROVED (the honest form): the handle stays invalid, `snapshot()` and every setter keep throwing and no
call through it is `ub`, along every continuation in which no `create_track` reports its id
(`reissuesT … = false`, executable). -/
theorem v1t_C15_stale_handle_partial (o : FOps) (hc : CeilInRange o) (d : Db) (hd : DbInv d) (id : Int) (ops : List Op)
    (hno : reissuesT o (step o d (.remove id)).1 ops id = false) :
    let d' := run o (step o d (.remove id)).1 ops
    (step o d' (.isValid id)).2 = .ok (.bool false) ∧
    (∀ f v, ∃ e, void (step o d' (.set id f v)).2 = .throw e) ∧
    void (step o d' (.snapshot id)).2 = .throw (.dj "track_deleted") := by
  intro d'
  have h0 : (step o d (.remove id)).1.rows id = none := (C06V1.v1_C06_remove_track d id).1
  have hrows : d'.rows id = none := absent_run o id ops _ h0 hno
  obtain ⟨hset, hsnap, hval, _⟩ := C06V1.v1_C06_absent_track o d' id hrows
  refine ⟨?_, ?_, ?_⟩
  · simp only [step, hval]
  · intro f v
    obtain ⟨e, he⟩ := hset f v
    exact ⟨e, by simp only [step, he]; rfl⟩
  · simp only [step, hsnap]; rfl

/-- The full statement is false: create a track (id 1), remove it — the handle is invalid — create another
track: it receives id 1 and the stale handle is valid again. -/
theorem v1t_C15_stale_handle_counterexample :
    let d1 := (step exOps ⟨.s1_15_0, []⟩ (.create exSnap)).1
    let d2 := (step exOps d1 (.remove 1)).1
    let d3 := (step exOps d2 (.create exSnap)).1
    void (step exOps d2 (.isValid 1)).2 = .ok () ∧ dbIsValid d2 1 = false ∧
    createdId (step exOps d2 (.create exSnap)).2 = some 1 ∧
    dbIsValid d3 1 = true := by
  decide +kernel

/-- The invariant of `v1t_C15_no_ub` is needed (registered): a stored `length` that does not scale back to
milliseconds inside `int64_t` — not writable through the API — makes `duration()` overflow. -/
theorem v1t_C15_duration_overflow_counterexample :
    void (get exOps { blankRows with track := { TrackRow.blank with length := some 9223372036854775807 } } .duration) =
      .ub .signed_overflow := by decide +kernel

/-! ### the guards, taken from the source

`GuardedTracksV1.stepG` answers `ub` when one of the sites of the call — `v[index]`, `*optional`,
double→int64 conversion, division: each behind the guard the C++ source has, the guard conditions
(`Gen.C15Guards`) and the extents arithmetic (`Gen.TrackUtils`) being regenerated from the source on every
run — is reached outside its domain, and is the dispatcher `step` otherwise. -/

/-- **No site is reached outside its domain**, for any arguments and ANY stored rows (no invariant): the
per-slot accessors at any `int` index, `set_bpm`, and the conversions of create_track / update
(`to_length_calculated`, `to_bpm_fields`, `to_overview_waveform_data`, `to_high_res_waveform_data`). -/
theorem v1t_C15_sites (o : FOps) (hc : CeilInRange o) (d : Db) (op : Op) : siteG Guards.source o d op = .ok () :=
  siteG_ok o hc d op

/-- **The guarded dispatcher is the dispatcher, and never `ub`** on a library that satisfies the invariant. -/
theorem v1t_C15_guarded_step (o : FOps) (hc : CeilInRange o) (d : Db) (op : Op) :
    stepG o d op = step o d op ∧ (DbInv d → ∀ u, (stepG o d op).2 ≠ .ub u) :=
  ⟨stepG_eq o hc d op, fun hd u => by rw [stepG_eq o hc d op]; exact step_defined o hc d hd op u⟩

/-- … along any script from the empty library of any 1.x version. -/
theorem v1t_C15_guarded_reachable_no_ub (o : FOps) (hc : CeilInRange o) (s : Schema) (ops : List Op) :
    ∀ r ∈ outcomesG o ⟨s, []⟩ ops, ∀ u, r ≠ .ub u := by
  rw [outcomesG_eq o hc]
  exact v1t_C15_reachable_no_ub o hc s ops

/-- **The whole public alphabet** of `database` / `track` over this model — the operations above plus
`database::tracks`, `track_by_id`, `tracks_by_relative_path` and the four calls without model content
(`uuid`, `version_name`, `directory`, `verify`: outcome `ok`, exercised by the tie only) — along any script
from the empty library of any 1.x version: never `ub`. -/
theorem v1t_C15_all_calls_no_ub (o : FOps) (hc : CeilInRange o) (s : Schema) (l : List Call) :
    ∀ r ∈ callOutcomes o ⟨s, []⟩ l, ∀ u, r ≠ .ub u :=
  callOutcomes_defined o hc l ⟨s, []⟩ (dbInv_empty s)

/-- Each guard is needed — what a regression of the C++ does to the model: without the slot range test
(the defect repaired by `fix:` 611fb34) index INT_MAX reads outside the eight slots; with the `>= 1` test
of `to_length_calculated` dropped (repaired by 1ecb065) a rate of 0.5 divides by zero; without the
`!sample_count || !sample_rate` test of the overview conversion (63d2e67) a waveform without a rate
dereferences an empty optional; with the `fabs(bpm) < 2^63` test dropped a huge BPM is cast. -/
theorem v1t_C15_guard_dropped_counterexample :
    void (stepGW { Guards.source with hotCueAt := fun _ _ => false } exOps exDb (.get 1 (.hotCueAt 2147483647))).2 =
      .ub .oob_index ∧
    void (stepGW { Guards.source with setLoopAt := fun _ _ => false } exOps exDb (.set 1 (.loopAt 4294967295) none)).2 =
      .ub .oob_index ∧
    void (stepGW { Guards.source with lengthCalcNone := fun c r _ _ => !c || !r } exOps exDb
      (.update 1 { exSnap with sampleRate := some 0x3fe0000000000000 })).2 = .ub .div_zero ∧
    void (stepGW { Guards.source with overviewAbsent := fun _ _ => false } exOps exDb
      (.update 1 { exSnap with sampleRate := none })).2 = .ub .empty_optional ∧
    void (stepGW { Guards.source with bpmFieldsInRange := fun b _ => b } exOps exDb
      (.update 1 { exSnap with bpm := some 0x7fe0000000000000 })).2 = .ub .float_cast_range ∧
    -- track_utils.hpp: `qn == 0` replaced by `!(sample_rate > 0)`: a rate of 100 Hz divides by zero
    void (stepGW { Guards.source with utilOvwZero := fun n _ r => n == 0 || !(F64.lt F64.zero r) } exOps exDb
      (.update 1 { exSnap with sampleRate := some 0x4059000000000000 })).2 = .ub .div_zero := by
  decide +kernel

/-! ### non-vacuity -/

example : CeilBounded exOps := fun _ h => h
example : CeilInRange exOps := ceilInRange_of_bounded (fun _ h => h)
example : ceilBits 0x3fe0000000000000 = F64.one := by decide            -- ceil 0.5 = 1
example : ceilBits 0xbfe0000000000000 = F64.negZero := by decide        -- ceil −0.5 = −0
example : ceilBits 0x405e200000000000 = 0x405e400000000000 := by decide -- ceil 120.5 = 121
example : ceilBits 0x432fffffffffffff = 0x4330000000000000 := by decide -- ceil (2^52 − 0.5) = 2^52 (carry into the exponent)
example : ceilBits 0xc05e200000000000 = 0xc05e000000000000 := by decide -- ceil −120.5 = −120

example : exDb.tracks.length = 1 := by decide +kernel
example : DbInv exDb := step_inv exOps _ (dbInv_empty _) _
/-- index −1, 8, INT_MAX, INT_MIN: an exception, not an out-of-bounds access -/
example : void (step exOps exDb (.get 1 (.hotCueAt 4294967295))).2 = .throw .out_of_range := by decide +kernel
example : void (step exOps exDb (.get 1 (.loopAt 8))).2 = .throw .out_of_range := by decide +kernel
example : void (step exOps exDb (.set 1 (.hotCueAt 2147483647) none)).2 = .throw .out_of_range := by decide +kernel
example : void (step exOps exDb (.set 1 (.loopAt 2147483648) none)).2 = .throw .out_of_range := by decide +kernel
example : void (step exOps exDb (.get 1 (.hotCueAt 7))).2 = .ok () := by decide +kernel
/-- nine cues, nine loops, a waveform without a sample rate, a rate in (0,1): exceptions or accepted -/
example : void (step exOps exDb (.create { exSnap with hotCues := List.replicate 9 none, relativePath := some [99, 46, 100] })).2 =
    .throw (.dj "hot_cues_overflow") := by decide +kernel
example : void (step exOps exDb (.update 1 { exSnap with loops := List.replicate 12 none })).2 =
    .throw (.dj "loops_overflow") := by decide +kernel
example : void (step exOps exDb (.update 1 { exSnap with sampleRate := none })).2 =
    .throw (.dj "invalid_track_snapshot") := by decide +kernel
example : void (step exOps exDb (.set 1 .sampleRate (some 0x3fe0000000000000))).2 = .ok () := by decide +kernel
/-- the extreme duration reads back without overflow -/
example : void (step exOps exDb (.get 1 .duration)).2 = .ok () := by decide +kernel
example : void (step exOps exDb (.snapshot 1)).2 = .ok () := by decide +kernel
/-- a row that violates the invariant does overflow: the invariant is needed -/
example : void (get exOps { blankRows with track := { TrackRow.blank with length := some 9223372036854775807 } }
    .duration) = .ub .signed_overflow := by decide +kernel

end EngineModel.Properties.C15TracksV1
