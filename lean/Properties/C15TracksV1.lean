/-
C15, schema 1.x tracks — "every public operation invoked with any argument
values on any state reachable through the API either completes or throws an
exception derived from std::exception; it never invokes undefined behaviour".

Model: `Api.C15TracksV1.step` = one dispatcher over `dbCreate` / `dbUpdate` /
`dbSnap` / `dbGet` / `dbSet` / `getDerived` of `EngineModel/TracksV1` (every
getter and setter incl. the per-slot accessors at ANY `int` index, create /
update with ANY snapshot) plus `remove` / `is_valid` / handle copy / `id()`.
The `ub` outcomes this model can produce at all (so the theorems say something):
`oob_index` (slot accessors, waveform resampling), `signed_overflow` (seconds →
ms / ns in `duration()`, `last_played_at()`, `snapshot()`; the generated
`track_utils` extents), `float_cast_range` (`static_cast<int64_t>` of sample
rate, BPM, ceil(BPM)), `div_zero` (`sample_count / (int64) sample_rate`).

`o : FOps` is the double arithmetic whose results only reach raw columns; the
only law assumed of it is `CeilBounded` (IEEE `ceil` keeps |x| < 2^63 below
2^63), needed by `set_bpm` alone.  `dbOk` is the invariant "stored whole
seconds scale back into int64"; it holds of the empty library and is kept by
every operation, so every reachable state has it.
-/
import Proofs.NoUbTracksV1

namespace EngineModel.Properties.C15TracksV1
open EngineModel EngineModel.TracksV1 EngineModel.Api.C15TracksV1
open Fl (FOps)

/-- No operation, with any arguments, has undefined behaviour on a library whose rows satisfy the invariant. -/
theorem v1t_C15_no_ub (o : FOps) (hc : CeilBounded o) (d : Db) (hd : dbOk d = true) (op : Op) (u : Ub) :
    (step o d op).2 ≠ .ub u :=
  step_defined o hc d hd op u

/-- Every operation keeps the invariant (whether it returns or throws). -/
theorem v1t_C15_invariant (o : FOps) (d : Db) (hd : dbOk d = true) (op : Op) : dbOk (step o d op).1 = true :=
  step_dbOk o d hd op

/-- The empty library of any 1.x version satisfies the invariant. -/
theorem v1t_C15_empty (s : Schema) : dbOk ⟨s, []⟩ = true := rfl

/-- **Reachable states**: along any script of operations with any arguments, started on the empty
library of any 1.x version, no call has undefined behaviour. -/
theorem v1t_C15_reachable_no_ub (o : FOps) (hc : CeilBounded o) (s : Schema) (ops : List Op) :
    ∀ r ∈ outcomes o ⟨s, []⟩ ops, ∀ u, r ≠ .ub u :=
  fun r hr u => outcomes_defined o hc ops ⟨s, []⟩ rfl r hr u

/-- create_track / update never have undefined behaviour, whatever the snapshot and whatever was stored
before — no invariant needed (over-long cue lists, labels of any length, absent optionals, a waveform
without sample rate, doubles of any bit pattern incl. NaN and infinities). -/
theorem v1t_C15_write_any_snapshot (o : FOps) (d : Db) (id : Int) (x : Snap) (u : Ub) :
    dbCreate o d x ≠ .ub u ∧ dbUpdate o d id x ≠ .ub u :=
  ⟨dbCreate_defined o d x u, dbUpdate_defined o d id x u⟩

/-- The per-slot accessors at any `int` index: a value or an exception. -/
theorem v1t_C15_slot_any_index (o : FOps) (r : TrackRows) (i : UInt32) (q : Option Impl.V1.HotCue)
    (l : Option Impl.V1.LoopV) (u : Ub) :
    get o r (.hotCueAt i) ≠ .ub u ∧ get o r (.loopAt i) ≠ .ub u ∧
    TracksV1.set o r (.hotCueAt i) q ≠ .ub u ∧ TracksV1.set o r (.loopAt i) l ≠ .ub u := by
  refine ⟨?_, ?_, ?_, ?_⟩
  · simp only [TracksV1.get]; exact slot_lookup_defined _ _ u
  · simp only [TracksV1.get]; exact slot_lookup_defined _ _ u
  · simp only [TracksV1.set]
    refine Defined.bind ?_ (fun _ _ => setCuesCol_defined _ _) u
    unfold slotIndex; simp only; split
    · exact Defined.throw _
    · exact Defined.ok _
  · simp only [TracksV1.set]
    refine Defined.bind ?_ (fun _ _ => setLoopsCol_defined _ _) u
    unfold slotIndex; simp only; split
    · exact Defined.throw _
    · exact Defined.ok _

/-- **Stale handles**: after `remove_track`, the handle reports `is_valid() = false`; `id()`, copying,
assigning and destroying it succeed; every other call through it throws `track_deleted`. -/
theorem v1t_C15_stale_handle (o : FOps) (d : Db) (id : Int) :
    let d' := (step o d (.remove id)).1
    void (step o d' (.isValid id)).2 = .ok () ∧ isValid d' id = .ok false ∧
    void (step o d' (.handleId id)).2 = .ok () ∧ void (step o d' (.handleCopy id)).2 = .ok () ∧
    (∀ f, void (step o d' (.get id f)).2 = .throw (.dj "track_deleted")) ∧
    (∀ f v, void (step o d' (.set id f v)).2 = .throw (.dj "track_deleted")) ∧
    (∀ g, void (step o d' (.getDerived id g)).2 = .throw (.dj "track_deleted")) ∧
    void (step o d' (.snapshot id)).2 = .throw (.dj "track_deleted") ∧
    (∀ x, void (step o d' (.update id x)).2 = .throw (.dj "track_deleted")) := by
  have hv := isValid_after_remove d id
  have hr := rows_after_remove d id
  simp only [step]
  refine ⟨by rw [hv]; rfl, hv, rfl, rfl, ?_, ?_, ?_, ?_, ?_⟩
  · intro f; simp only [dbGet, hr]; rfl
  · intro f v; simp only [dbSet, hr]; rfl
  · intro g; simp only [hr]; rfl
  · simp only [dbSnap, hr]; rfl
  · intro x; simp only [dbUpdate, hr]; rfl

/-! ### non-vacuity -/

/-- double arithmetic with a `ceil` that satisfies the assumed law -/
def exOps : FOps := ⟨fun _ => 0, fun _ => 0, fun _ _ => 0, id⟩

example : CeilBounded exOps := fun _ h => h

def exSnap : Snap :=
  { Snap.empty with
    title := some [65], relativePath := some [97, 47, 98, 46, 109, 112, 51],
    duration := some 9223372036854775807, lastPlayedAt := some 9223372036854775808,
    bpm := some 0x405e200000000000,
    hotCues := [some ⟨[97], 0x40c3880000000000, ⟨255, 1, 2, 3⟩⟩],
    sampleCount := some 8000000, sampleRate := some 0x40e5888000000000,
    waveform := [⟨1, 2, 3, 4, 5, 6⟩] }

/-- a library with one track whose stored seconds are extreme -/
def exDb : Db := (step exOps ⟨.s1_15_0, []⟩ (.create exSnap)).1

example : exDb.tracks.length = 1 := by decide +kernel
example : dbOk exDb = true := by decide +kernel
/-- index −1, 8, INT_MAX, INT_MIN: an exception, not an out-of-bounds access -/
example : void (step exOps exDb (.get 1 (.hotCueAt 4294967295))).2 = .throw .out_of_range := by decide +kernel
example : void (step exOps exDb (.get 1 (.loopAt 8))).2 = .throw .out_of_range := by decide +kernel
example : void (step exOps exDb (.set 1 (.hotCueAt 2147483647) none)).2 = .throw .out_of_range := by decide +kernel
example : void (step exOps exDb (.set 1 (.loopAt 2147483648) none)).2 = .throw .out_of_range := by decide +kernel
example : void (step exOps exDb (.get 1 (.hotCueAt 7))).2 = .ok () := by decide +kernel
/-- nine cues, nine loops, a waveform without a sample rate, a rate in (0,1): exceptions or accepted -/
example : void (step exOps exDb (.create { exSnap with hotCues := List.replicate 9 none, relativePath := some [99, 46, 100] })).2 =
    .throw (.dj "hot_cues_overflow") := by decide +kernel
example : void (step exOps exDb (.update 1 { exSnap with loops := List.replicate 12 none })).2 =
    .throw (.dj "loops_overflow") := by decide +kernel
example : void (step exOps exDb (.update 1 { exSnap with sampleRate := none })).2 =
    .throw (.dj "invalid_track_snapshot") := by decide +kernel
example : void (step exOps exDb (.set 1 .sampleRate (some 0x3fe0000000000000))).2 = .ok () := by decide +kernel
/-- the extreme duration reads back without overflow -/
example : void (step exOps exDb (.get 1 .duration)).2 = .ok () := by decide +kernel
example : void (step exOps exDb (.snapshot 1)).2 = .ok () := by decide +kernel
/-- a row that violates the invariant does overflow: the hypothesis `dbOk` is needed -/
example : void (get exOps { blankRows with track := { TrackRow.blank with length := some 9223372036854775807 } }
    .duration) = .ub .signed_overflow := by decide +kernel

end EngineModel.Properties.C15TracksV1
