/-
C01 / stale handles on the WHOLE schema-2.x library (work-package composite-v2).

"A snapshot is never silently corrupted: it either survives the round trip or the write is rejected with an
exception" — for a write through the handle of a track that has been REMOVED the second alternative must hold.
Before `fix:` 8862536 `track::update` through such a handle returned normally and dropped the snapshot (the track
package's `v2_C01_table_update` stated that silent no-op; reproduced on all seven versions and repaired by this
package).  Here: once `remove_track` went through, along EVERY later history of the composite — any interleaving of
track, crate and membership calls, creations included (2.x ids are AUTOINCREMENT: never re-issued) — every write
through the stale handle throws and writes nothing, every read throws or says "invalid", no crate lists the track.
-/
import Proofs.Lib2Stale
import Proofs.V2MembersQueries

namespace EngineModel.Properties.C01Lib2
open EngineModel EngineModel.Db.Chain EngineModel.TracksV2 EngineModel.Lib.V2
open EngineModel.Table (Schema2)

/-- **Writes through a stale track handle are rejected, reads do not answer, along every later history.**
`L`: any library satisfying the invariant (e.g. any reachable one), `t` a track with a row; after
`database::remove_track(t)` and ANY admissible later history: -/
theorem C01Lib2_stale_track_handle (ops : FOps) (s : Schema2) (L : Lib2) (h : LibCore s L) (t : Nat)
    (hf : (L.tdb.find t).isSome = true) (later : List Call) (ha : later.all Call.admissible = true) :
    let L' := run ops s (step ops s L (.removeTrack t)).1 later
    (∀ x, ∃ e, step ops s L' (.trackUpdate t x) = (L', .throw e)) ∧
    (∀ σ, step ops s L' (.trackSet t σ) = (L', .throw .runtime_error)) ∧
    step ops s L' (.removeTrack t) = (L', .throw .invalid_argument) ∧
    (∀ c, ∃ e, step ops s L' (.crateAddTrack c (t : Int)) = (L', .throw e)) ∧
    (step ops s L' (.trackSnapshot t)).2 = .throw (.dj "track_deleted") ∧
    (∀ g, (step ops s L' (.trackGet t g)).2 = .throw .runtime_error) ∧
    (step ops s L' (.trackIsValid t)).2 = .ok (.bool false) ∧
    (step ops s L' (.trackById (t : Int))).2 = .ok (.oid none) ∧
    (∀ c l, (step ops s L' (.crateTracks c)).2 = .ok (.ids l) → (t : Int) ∉ l) := by
  intro L'
  have h1 : LibCore s (step ops s L (.removeTrack t)).1 := libCore_step ops s h _ rfl
  have h' : LibCore s L' := libCore_run ops s h1 later ha
  have hg : L'.tdb.find t = none := (gone_after_remove ops s h t hf later).1
  obtain ⟨a, b, c, d, e, f, g, i⟩ := stale_track_calls ops s h' t hg
  refine ⟨f, e, g, i, c, d, a, b, ?_⟩
  intro cr l hl
  obtain ⟨S, hS⟩ := h'.cr
  obtain ⟨l', q1, _, _, q4⟩ := EngineModel.Db.V2.qTracks_spec hS.ch hS.mem cr
  have : (step ops s L' (.crateTracks cr)).2 = .ok (.ids l') := by
    simp only [step]; unfold crateQuery
    show ((EngineModel.Db.V2.qTracks L'.crates cr).bind fun a => Res.ok (Out.ids a)) = _
    rw [q1]; rfl
  rw [this] at hl
  cases hl
  intro hm
  have := q4 _ hm
  obtain ⟨x, hx, ex⟩ := List.mem_map.mp this
  exact absurd (by omega) (find_none hg x hx)

/-- **Ids are never re-issued**: a `create_track` at any later point returns an id above the removed one (so the
stale handle can never come to denote another track — unlike 1.x, known finding of C15). -/
theorem C01Lib2_removed_id_not_reissued (ops : FOps) (s : Schema2) (L : Lib2) (h : LibCore s L) (t : Nat)
    (hf : (L.tdb.find t).isSome = true) (later : List Call) (ha : later.all Call.admissible = true) (x : Snap) (i : Int)
    (hc : (step ops s (run ops s (step ops s L (.removeTrack t)).1 later) (.createTrack x)).2 = .ok (.id i)) :
    (t : Int) < i := by
  have h1 : LibCore s (step ops s L (.removeTrack t)).1 := libCore_step ops s h _ rfl
  have h' := libCore_run ops s h1 later ha
  have hg := gone_after_remove ops s h t hf later
  generalize run ops s (step ops s L (.removeTrack t)).1 later = L' at h' hg hc
  simp only [step] at hc
  rw [m2_bind_pure_snd] at hc
  unfold trackCall at hc
  simp only [] at hc
  have hs := tstep ops (toT s) h'.tr (.create x)
  revert hs hc
  generalize (L'.tdb.step ops (toT s) (.create x)).1 = tdb'
  generalize (L'.tdb.step ops (toT s) (.create x)).2 = res
  intro hc hs
  cases hs with
  | failed _ _ hfail =>
    cases res with
    | ok v => exact absurd rfl (hfail v)
    | throw e => simp [Res.bind] at hc
    | ub u => simp [Res.bind] at hc
  | created x row hw =>
    simp only [Res.bind, Res.ok.injEq, Out.id.injEq] at hc
    have := hg.2
    omega

/-! ### non-vacuity: the witness of the repaired defect, and a later creation -/

def exOps : FOps := ⟨fun _ => 0, fun _ => 0, fun _ _ => 0⟩
def exSnap (n : UInt8) : Snap := { Snap.empty with relativePath := some [97, 47, n, 46, 109, 112, 51], title := some [n] }

/-- create_track("a/1.mp3") → 1; remove_track; update({"a/2.mp3"}) → track_deleted (before 8862536: ok);
create_track → 2 -/
example : let L := run exOps .s2_21_2 (Lib2.empty .s2_21_2 [85]) [.createTrack (exSnap 49), .removeTrack 1]
    (step exOps .s2_21_2 L (.trackUpdate 1 (exSnap 50))) = (L, .throw (.dj "track_deleted")) ∧
    (step exOps .s2_21_2 L (.createTrack (exSnap 50))).2 = .ok (.id 2) := by decide +kernel
example : LibCore .s2_21_2 (Lib2.empty .s2_21_2 [85]) := (libInv_empty _ _).toLibCore

end EngineModel.Properties.C01Lib2
