/-
C11 — The stored database stays a well-formed Engine library.   Whole-library part for schema 1.x (composite-v1).

Model  : EngineModel/Lib/V1.lean — ONE transition system `step : FOps → VSchema → Lib1 → Call → Lib1 × Res Out` over every
         public operation of database / crate / track, delegating to the crates package (Api/CratesV1.lean) and the
         tracks package (TracksV1/*.lean) and adding the interactions between the table families.
Spec   : `libInvRaw` — an executable predicate on a RAW DUMP of all tables of m.db and p.db (`Raw1`), written from the
         property text: the crate encodings agree (the crates package's `WfRaw`), `PRAGMA foreign_key_check` over every
         declared key of the 1.x creators is clean (`fkViolationsAll`), no MetaData / MetaDataInteger / PerformanceData
         row of a missing track, every live Track row references an existing AlbumArt row, a NULL-path placeholder row
         only on the AUTOINCREMENT schemas, one stamped Information row per file.  The driver evaluates this same
         function on the dump of the real files after every step.

Every theorem quantifies over ALL eleven 1.x versions `s`, ALL float-operation instances `o`, and ALL histories `cs :
List Call` (any arguments: removed handles, ids that never existed, snapshots the library rejects) from the library
`create_database` leaves.
-/
import Proofs.Lib1Raw
import Proofs.Lib1Proj
import Proofs.Lib1Blobs
import Proofs.Lib1Clean

namespace EngineModel.Properties.C11Lib1
open EngineModel EngineModel.Lib.V1 EngineModel.Api
open EngineModel.TracksV1 (Snap Field)
open EngineModel.TracksV1.Fl (FOps)

/-- **The whole-library invariant holds after every history**, failed calls included: the crates package's `Inv`, the
tracks package's `TableOk` (primary key, `UNIQUE(path)`, row invariant `DbInv`) and the referential integrity between
the table families (`coupled`, `art`, `noPlaceholder`, version stamps). -/
theorem C11_lib1_invariant_after_every_history (o : FOps) (s : VSchema) (um up dir : Bytes) (cs : List Call) :
    LibInv s (run o s (Lib1.empty s um up dir) cs) :=
  libInv_run o cs (libInv_empty s um up dir)

/-- … and is kept by every single call from ANY state satisfying it (a loaded library). -/
theorem C11_lib1_step_preserves_invariant (o : FOps) (s : VSchema) (L : Lib1) (h : LibInv s L) (c : Call) :
    LibInv s (step o s L c).1 := libInv_step o h c

/-- **The executable raw check is true of the dump of every reachable state** — the predicate the driver evaluates on
the dump of the REAL files after every step of every generated history. -/
theorem C11_lib1_raw_check_after_every_history (o : FOps) (s : VSchema) (um up dir : Bytes) (cs : List Call) :
    libInvRaw s (raw (run o s (Lib1.empty s um up dir) cs)) = true :=
  libInvRaw_of_libInv (C11_lib1_invariant_after_every_history o s um up dir cs)

/-- … i.e. the list of failing conjuncts the driver prints is empty. -/
theorem C11_lib1_no_failing_conjunct (o : FOps) (s : VSchema) (um up dir : Bytes) (cs : List Call) :
    libFailures s (raw (run o s (Lib1.empty s um up dir) cs)) = [] := by
  have h := C11_lib1_raw_check_after_every_history o s um up dir cs
  unfold libInvRaw at h
  unfold libFailures
  rw [List.map_eq_nil_iff, List.filter_eq_nil_iff]
  intro c hc
  have := List.all_eq_true.mp h c hc
  simp [this]

/-- **`PRAGMA foreign_key_check` is clean over ALL declared foreign keys of the 1.x schemas** (the three crate tables;
MetaData.id, MetaDataInteger.id → Track.id; Track.idAlbumArt → AlbumArt.id; every other table with a key to Track), from
the invariant — hence after every history. -/
theorem C11_lib1_foreign_key_check_clean (s : VSchema) (L : Lib1) (h : LibInv s L) : fkViolationsAll (raw L) = [] :=
  fkAll_clean h

theorem C11_lib1_foreign_key_check_clean_reachable (o : FOps) (s : VSchema) (um up dir : Bytes) (cs : List Call) :
    fkViolationsAll (raw (run o s (Lib1.empty s um up dir) cs)) = [] :=
  fkAll_clean (C11_lib1_invariant_after_every_history o s um up dir cs)

/-- **Cross-table referential integrity, spelled out**: in every reachable state every MetaData / MetaDataInteger /
PerformanceData row belongs to a track that `tracks()` lists (a Track row with a path), the PerformanceData ids have no
duplicates, every such Track row references album-art row 1 and that row exists, and a NULL-path Track row exists on the
AUTOINCREMENT schemas only. -/
theorem C11_lib1_dependent_rows_of_live_tracks (o : FOps) (s : VSchema) (um up dir : Bytes) (cs : List Call) :
    let L := run o s (Lib1.empty s um up dir) cs
    (∀ m ∈ (raw L).metaStr, m.1 ∈ CratesV1.dbTracks L.cr) ∧ (∀ m ∈ (raw L).metaInt, m.1 ∈ CratesV1.dbTracks L.cr) ∧
    (∀ i ∈ (raw L).perf, i ∈ CratesV1.dbTracks L.cr) ∧ (raw L).perf.Nodup ∧
    (∀ t ∈ (raw L).trackArt, t.1 ∈ CratesV1.dbTracks L.cr → t.2 = some 1) ∧ (raw L).albumArt = [1] ∧
    (CratesV1.trackAutoinc (toDetect s) = false → ∀ r ∈ L.cr.track, r.hasPath = true) := by
  intro L
  have h : LibInv s L := C11_lib1_invariant_after_every_history o s um up dir cs
  have hmem : ∀ x, x ∈ CratesV1.dbTracks L.cr ↔ CratesV1.liveTrack L.cr x := by
    intro x; unfold CratesV1.dbTracks CratesV1.sortIds; rw [List.mem_mergeSort, CratesV1.mem_liveIds]
  have hkey : ∀ e ∈ L.tr.tracks, e.1 ∈ CratesV1.dbTracks L.cr := fun e he => (hmem _).mpr (live_of_key h he)
  refine ⟨?_, ?_, ?_, ?_, ?_, h.albumArt, h.noPlaceholder⟩
  · intro m hm
    obtain ⟨e, he, hm'⟩ := List.mem_flatMap.mp hm
    obtain ⟨x, _, rfl⟩ := List.mem_map.mp hm'
    exact hkey e he
  · intro m hm
    obtain ⟨e, he, hm'⟩ := List.mem_flatMap.mp hm
    obtain ⟨x, _, rfl⟩ := List.mem_map.mp hm'
    exact hkey e he
  · intro i hi
    obtain ⟨e, he, hi'⟩ := List.mem_filterMap.mp hi
    cases hp : e.2.perf with
    | none => rw [hp] at hi'; cases hi'
    | some p =>
      rw [hp] at hi'
      simp only [Option.map_some, Option.some.injEq] at hi'
      subst hi'; exact hkey e he
  · have := libInvRaw_of_libInv h
    unfold libInvRaw libChecks at this
    simp only [List.all_cons, List.all_nil, Bool.and_true, Bool.and_eq_true] at this
    exact (CratesV1.nodupB_iff _).mp this.2.2.2.2.2.1
  · intro t ht hl
    obtain ⟨r, hr, rfl⟩ := List.mem_map.mp ht
    have hs := (h.coupled r.id).mp ((hmem _).mp hl)
    cases hrow : L.tr.rows r.id with
    | none => rw [hrow] at hs; cases hs
    | some x => simp only [Option.bind_some]; exact h.art r.id x hrow

/-- **A call that does not return normally changes nothing** — in any of the tables of either file.  For the calls the
tracks package owns this is the package's all-or-nothing statement model (`v1_C01_txn_*`); for the crate calls it is the
crates package's theorem `step_throw_unchanged`, used here on the composite. -/
theorem C11_lib1_failed_call_changes_nothing (o : FOps) (s : VSchema) (L : Lib1) (h : LibInv s L) (c : Call)
    (hr : (step o s L c).2.isOk = false) : (step o s L c).1 = L := by
  by_cases hc : c.isObserver = true
  · exact step_observer o s L c hc
  · have crate : ∀ op, (viaCrates s L op).2.isOk = false → (viaCrates s L op).1 = L := by
      intro op hop
      have h2 : (CratesV1.step (toDetect s) L.cr op).2.isOk = false := by
        unfold viaCrates at hop
        simp only at hop
        cases hh : (CratesV1.step (toDetect s) L.cr op).2 with
        | ok a => rw [hh] at hop; cases hop
        | throw e => rfl
        | ub u => rfl
      have := CratesV1.step_throw_unchanged (toDetect s) h.crates op h2
      unfold viaCrates
      simp only [this]
    have track : ∀ r, (viaTracks L r).2.isOk = false → (viaTracks L r).1 = L := by
      intro r hrr
      cases r with
      | ok d => cases hrr
      | throw e => rfl
      | ub u => rfl
    cases c with
    | createRootCrate n => exact crate _ hr
    | createRootCrateAfter n a => exact crate _ hr
    | createTrack x =>
      obtain ⟨id, seq, hcr, _⟩ := CratesV1.createTrack_spec (toDetect s) L.cr
      have hr' : (createTrack o s L x).2.isOk = false := hr
      show (createTrack o s L x).1 = L
      unfold createTrack at hr' ⊢
      rw [hcr] at hr' ⊢
      simp only at hr' ⊢
      cases hd : TracksV1.dbCreate o L.tr x with
      | ok p => rw [hd] at hr'; cases hr'
      | throw e => rfl
      | ub u => rfl
    | removeCrate c => exact crate _ hr
    | removeTrack t =>
      have hr' : (removeTrack s L t).2.isOk = false := hr
      unfold removeTrack at hr'
      simp only at hr'
      rw [(CratesV1.removeTrack_spec (toDetect s) h.crates t).1] at hr'
      cases hr'
    | addTrack c t => exact crate _ hr
    | crateRemoveTrack c t => exact crate _ hr
    | clearTracks c => exact crate _ hr
    | createSubCrate c n => exact crate _ hr
    | createSubCrateAfter c n a => exact crate _ hr
    | setName c n => exact crate _ hr
    | setParent c p => exact crate _ hr
    | update t x => exact track _ hr
    | set t f v => exact track _ hr
    | _ => exact absurd rfl hc

/-- **The raw check is not vacuous**: it is false on the raw states the code produced before the repairs the composite
rests on — MetaData rows of a removed track (b5e9c9c), a membership row of a missing track (05ed2a5 / 7f16946), a Track
row referencing a missing AlbumArt row (7ba238d), a PerformanceData row without a track, a placeholder row on a rowid
schema, MetaData rows of the placeholder row (a5d64c8). -/
theorem C11_lib1_raw_check_rejects_known_damage :
    let good : Raw1 := ⟨⟨[⟨1, [97], [97, 59]⟩], [(1, 1)], [], [(1, 1)], [⟨1, true⟩], 0⟩, [(1, some 1)], [(1, 1), (1, 13)],
      [(1, 4)], [1], [1], [], [⟨[77], (1, 6, 0)⟩], [⟨[80], (1, 6, 0)⟩]⟩
    libInvRaw .s1_6_0 good = true ∧
    libFailures .s1_6_0 { good with metaStr := good.metaStr ++ [(2, 1)] } = ["foreign-keys-clean", "metadata-of-live-tracks"] ∧
    libFailures .s1_6_0 { good with cr := { good.cr with ctl := [(1, 1), (1, 5)] } } =
      ["crates-wellformed", "foreign-keys-clean"] ∧
    libFailures .s1_6_0 { good with albumArt := [] } = ["foreign-keys-clean", "live-track-has-album-art"] ∧
    libFailures .s1_6_0 { good with perf := [1, 2] } = ["perfdata-mirrors-music"] ∧
    libFailures .s1_6_0 { good with cr := ({ good.cr with track := [⟨1, true⟩, ⟨2, false⟩] } : CratesV1.Db), trackArt := [(1, some 1), (2, none)] } =
      ["placeholder-only-autoincrement"] ∧
    libFailures .s1_17_0 { good with cr := ({ good.cr with track := [⟨1, true⟩, ⟨2, false⟩] } : CratesV1.Db), trackArt := [(1, some 1), (2, none)], metaStr := good.metaStr ++ [(2, 1)], infoM := [⟨[77], (1, 17, 0)⟩], infoP := [⟨[80], (1, 17, 0)⟩] } =
      ["metadata-of-live-tracks"] := by
  decide +kernel

/-- non-vacuity of the theorems that assume `LibInv` (`…_step_preserves_invariant`, `…_foreign_key_check_clean`,
`…_failed_call_changes_nothing`): the created library of every version satisfies it, and a failing call exists (add_track of
a track that does not exist, on a live crate: `track_deleted`). -/
example : ∀ s, LibInv s (Lib1.empty s [77] [80] []) := fun s => libInv_empty s _ _ _

example :
    let o : FOps := ⟨fun _ => 0, fun n => if n = 0 then 0 else F64.one, fun _ _ => 0, fun b => b⟩
    let L := run o .s1_9_1 (Lib1.empty .s1_9_1 [77] [80] []) [.createRootCrate [97]]
    Res.isOk (step o .s1_9_1 L (.addTrack 1 5)).2 = false ∧ Res.isOk (step o .s1_9_1 L (.set 5 .title none)).2 = false ∧
    Res.isOk (step o .s1_9_1 L (.createTrack Snap.empty)).2 = false := by
  decide +kernel

/-! ### every stored performance blob decodes -/

/-- "The stored blob of this column decodes": the bytes the library's encoder produces for the stored value exist, and
the library's decoder reads exactly that value back from them (`Impl/V1.lean`: the byte-level mirrors of
performance_data_format.cpp, tied to the real bytes by C02–C05). -/
def blobDecodes {α} (enc : α → Res Bytes) (dec : Bytes → Res α) (col : α) : Prop := ∃ b, enc col = .ok b ∧ dec b = .ok col

theorem blobDecodes_of_viaBytes {α} (enc : α → Res Bytes) (dec : Bytes → Res α) (col : α)
    (h : TracksV1.viaBytes enc dec col = .ok col) : blobDecodes enc dec col := by
  unfold TracksV1.viaBytes at h
  cases he : enc col with
  | ok b => rw [he] at h; exact ⟨b, he, h⟩
  | throw e => rw [he] at h; cases h
  | ub u => rw [he] at h; cases h

/-- **Every stored performance blob decodes**, from the codec-fixed-point invariant `BlobsFix`: for every track and each of
the six PerformanceData columns the encoder's bytes of the stored value decode to that very value — track data, beat data
and quick cues unconditionally; loops and the two waveforms for columns below the size any C++ vector can have (the
hypothesis of the codecs package's round-trip theorems, an explicit arithmetic bound on the stored column itself). -/
theorem C11_lib1_stored_blobs_decode (L : Lib1) (h : BlobsFix L) (id : Int) (r : TracksV1.TrackRows) (p : TracksV1.PerfRow)
    (hr : L.tr.rows id = some r) (hp : r.perf = some p) :
    blobDecodes Impl.V1.encodeTrack Impl.V1.decodeTrack p.trackData ∧
    blobDecodes Impl.V1.encodeBeat Impl.V1.decodeBeat p.beat ∧
    blobDecodes Impl.V1.encodeCues Impl.V1.decodeCues p.cues ∧
    (p.loops.length < Codec.maxCount → blobDecodes Impl.V1.encodeLoops Impl.V1.decodeLoops p.loops) ∧
    (30 + 6 * p.hires.entries.length < Codec.maxCount → blobDecodes Impl.V1.encodeHires Impl.V1.decodeHires p.hires) ∧
    (27 + 3 * p.overview.entries.length < Codec.maxCount → blobDecodes Impl.V1.encodeOvw Impl.V1.decodeOvw p.overview) := by
  obtain ⟨f1, f2, f3, f4, f5⟩ := h id r hr p hp
  refine ⟨?_, ?_, ?_, ?_, ?_, ?_⟩
  · apply blobDecodes_of_viaBytes; rw [TracksV1.bridge_track, f1]
  · apply blobDecodes_of_viaBytes; rw [TracksV1.bridge_beat, f2]
  · apply blobDecodes_of_viaBytes
    have := TracksV1.bridge_cues p.cues
    rw [f3] at this
    exact TracksV1.Res.agree_ok this
  · intro hl
    apply blobDecodes_of_viaBytes
    have := TracksV1.bridge_loops p.loops hl
    rw [f4] at this
    exact TracksV1.Res.agree_ok this
  · intro hl
    apply blobDecodes_of_viaBytes; rw [TracksV1.bridge_hires _ hl]; rfl
  · intro hl
    apply blobDecodes_of_viaBytes; rw [TracksV1.bridge_ovw _ hl, f5]

/-- … in every state reachable through the composite step, on every schema version, after every history. -/
theorem C11_lib1_stored_blobs_decode_reachable (o : FOps) (s : VSchema) (um up dir : Bytes) (cs : List Call) :
    BlobsFix (run o s (Lib1.empty s um up dir) cs) :=
  blobsFix_run o cs (libInv_empty s um up dir) (blobsFix_empty s um up dir)

/-! ### the tracks package's `DbClean` on the composite -/

/-- FULL STATEMENT (not provable: NaN is outside the quantifier of C01 / C06, and a track created from a snapshot with a NaN
sample rate holds a beat-data blob that no longer passes the decode-after-encode guard): "`DbClean` after every history".
PROVED PART: under the tracks package's float law, for every history whose `create_track` / `update` snapshots are NaN-free
(`noNaNCalls cs = true`, decidable), every stored track is `Clean` — the hypothesis of the package's acceptance theorems
(`v1_C06_accepts`: which setter calls return normally), which therefore apply in every such state of the composite. -/
theorem C11_lib1_clean_after_every_history_partial (o : FOps) (hl : TracksV1.FloatLaw o) (s : VSchema) (um up dir : Bytes)
    (cs : List Call) (hn : noNaNCalls cs = true) : TracksV1.DbClean (run o s (Lib1.empty s um up dir) cs).tr :=
  clean_run o hl cs (libInv_empty s um up dir) (by intro id r h; cases h) hn

/-- non-vacuity of `noNaNCalls` (the float law's own non-vacuity example is in Properties/C06V1Accept.lean). -/
example : noNaNCalls [.createRootCrate [97], .createTrack { Snap.empty with relativePath := some [98], bpm := some 0x405e000000000000 },
    .set 1 .bpm (some 0x7ff8000000000001), .update 1 { Snap.empty with relativePath := some [99] }, .removeTrack 1] = true ∧
    noNaNCalls [.createTrack { Snap.empty with relativePath := some [98], bpm := some 0x7ff8000000000001 }] = false := by
  decide +kernel

/-- non-vacuity of `C11_lib1_stored_blobs_decode`: a reachable state with a stored PerformanceData row whose columns are
within the size bounds (so all six conclusions apply). -/
example :
    let o : FOps := ⟨fun _ => 0, fun n => if n = 0 then 0 else F64.one, fun _ _ => 0, fun b => b⟩
    let L := run o .s1_15_0 (Lib1.empty .s1_15_0 [77] [80] []) [.createTrack { Snap.empty with relativePath := some [98] }]
    ((L.tr.rows 1).bind (·.perf)).isSome = true ∧
    (((L.tr.rows 1).bind (·.perf)).map fun p => (p.loops.length, p.hires.entries.length, p.overview.entries.length)) = some (8, 0, 0) := by
  decide +kernel

end EngineModel.Properties.C11Lib1
