/-
C19 — Recommended waveform extents cover the track exactly.

`Gen.TrackUtils.*` is regenerated from src/djinterop/engine/track_utils.hpp on
every run (tools/tr_trackutils.py); `C19_gen_*` re-prove, against whatever the
source says now, that the generated code computes the hand model
(`Pure.Waveform`) without undefined behaviour on the property's domain
(n ≤ 2^62, 0 ≤ ⌊rate⌋ ≤ 2^31).  The remaining theorems are the property,
stated on the hand model over unbounded naturals.
-/
import Proofs.Waveform
import Proofs.Cxx

namespace EngineModel.Properties.C19
open EngineModel EngineModel.Pure.Waveform EngineModel.Cxx

variable {F : Type}

/-! ### the generated code is the hand model (translator tie) -/

/-- Normalisation of the regenerated integer code: every wrap-around / checked operation is
replaced by the plain operation on ℕ, its side condition (no wrap, no overflow, divisor ≠ 0)
discharged by `omega` from the bounds in the context.  Written to survive behaviour-preserving
rewrites of the source (other operation order, `(n − 1) / q + 1` for the ceiling division,
`n − n % q` for the rounding). -/
macro "cxx_norm" : tactic => `(tactic|
  simp (disch := omega) only [u64OfInt_zero, u64OfInt_one, u64OfInt_natCast, U64.add_small,
    U64.sub_small, U64.mul_small, U64.div_pos, U64.mod_pos, Option.bind_eq_bind, Option.bind_some,
    Option.pure_def, Bool.false_eq_true, if_false, if_true])

theorem gen_qn (ops : FloatOps F) (rate : F) (r : Nat)
    (hr : ops.toI64 rate = some (r : Int)) (hr2 : r ≤ 2147483648) :
    Gen.TrackUtils.waveform_quantisation_number ops rate = some ((qn r : Nat) : Int) := by
  unfold Gen.TrackUtils.waveform_quantisation_number
  have e1 : I64.div (r : Int) (210 : Int) = some ((r / 210 : Nat) : Int) :=
    I64.div_natCast r 210 (by omega) (by omega)
  have e2 : I64.mul ((r / 210 : Nat) : Int) (2 : Int) = some ((r / 210 * 2 : Nat) : Int) :=
    I64.mul_natCast (r / 210) 2 (by omega)
  have e2' : I64.mul (2 : Int) ((r / 210 : Nat) : Int) = some ((r / 210 * 2 : Nat) : Int) := by
    have := I64.mul_natCast 2 (r / 210) (by omega)
    rw [Nat.mul_comm 2] at this
    exact this
  simp only [hr, Option.bind_eq_bind, Option.bind_some, e1, e2, e2', qn, Option.pure_def]

theorem cond_true (n r : Nat) (h0 : n = 0 ∨ qn r = 0) :
    (decide (n = 0) || decide (((qn r : Nat) : Int) = 0)) = true := by
  rcases h0 with h | h
  · simp [h]
  · simp [h]

theorem cond_false (n r : Nat) (h0 : ¬ (n = 0 ∨ qn r = 0)) :
    (decide (n = 0) || decide (((qn r : Nat) : Int) = 0)) = false := by
  have hn0 : n ≠ 0 := fun h => h0 (Or.inl h)
  have hq0 : qn r ≠ 0 := fun h => h0 (Or.inr h)
  simp [hn0]; omega

theorem C19_gen_hi (ops : FloatOps F) (rate : F) (r n : Nat)
    (hr : ops.toI64 rate = some (r : Int)) (hr2 : r ≤ 2147483648) (hn : n ≤ 4611686018427387904) :
    Gen.TrackUtils.calculate_high_resolution_waveform_extents ops n rate
      = some (hiSize n r, ops.ofI64 (hiSpan n r : Nat)) := by
  unfold Gen.TrackUtils.calculate_high_resolution_waveform_extents
  have hq : qn r ≤ 20453102 := by unfold qn; omega
  simp only [gen_qn ops rate r hr hr2, Option.bind_eq_bind, Option.bind_some]
  by_cases h0 : n = 0 ∨ qn r = 0
  · simp only [u64OfInt_zero, cond_true n r h0, if_true, hiSize, hiSpan, h0]
    rfl
  · have hn0 : n ≠ 0 := fun h => h0 (Or.inl h)
    have hq0 : qn r ≠ 0 := fun h => h0 (Or.inr h)
    -- bounds on the intermediate values a rewriting of the ceiling division may form
    have b1 : (n - 1) / qn r ≤ n - 1 := Nat.div_le_self _ _
    have b2 : (n + qn r - 1) / qn r ≤ n + qn r - 1 := Nat.div_le_self _ _
    have b3 : n / qn r ≤ n := Nat.div_le_self _ _
    have hc := ceil_div_alt n (qn r) (by omega) (by omega)
    simp only [u64OfInt_zero, cond_false n r h0, Bool.false_eq_true, if_false]
    cxx_norm
    simp only [hiSize, hiSpan, h0, if_false] <;>
    first
      | rfl
      | (rw [hc])

theorem C19_gen_ov (ops : FloatOps F) (rate : F) (r n : Nat)
    (hr : ops.toI64 rate = some (r : Int)) (hr2 : r ≤ 2147483648) (hn : n ≤ 4611686018427387904) :
    Gen.TrackUtils.calculate_overview_waveform_extents ops n rate
      = some (ovSize n r,
          if n = 0 ∨ qn r = 0 then ops.ofI64 0 else ops.div (ops.ofU64 (ovRounded n r)) (ops.ofU64 1024)) := by
  unfold Gen.TrackUtils.calculate_overview_waveform_extents
  have hq : qn r ≤ 20453102 := by unfold qn; omega
  simp only [gen_qn ops rate r hr hr2, Option.bind_eq_bind, Option.bind_some]
  by_cases h0 : n = 0 ∨ qn r = 0
  · simp only [u64OfInt_zero, cond_true n r h0, if_true, ovSize, h0]
    rfl
  · have hn0 : n ≠ 0 := fun h => h0 (Or.inl h)
    have hq0 : qn r ≠ 0 := fun h => h0 (Or.inr h)
    have b1 : n / qn r * qn r ≤ n := Nat.div_mul_le_self _ _
    have b2 : n % qn r ≤ n := Nat.mod_le _ _
    have b3 : n / qn r ≤ n := Nat.div_le_self _ _
    have hc := round_down_alt n (qn r)
    simp only [u64OfInt_zero, cond_false n r h0, Bool.false_eq_true, if_false]
    cxx_norm
    simp only [ovSize, ovRounded, h0, if_false] <;>
    first
      | rfl
      | (rw [hc])

/-! ### the property, on the hand model (all `n`, all `r`) -/

/-- Minimal cover with less than one entry of slack. -/
theorem C19_hi_cover (n r : Nat) (hn : n ≠ 0) (hq : qn r ≠ 0) :
    n ≤ hiSize n r * qn r ∧ (hiSize n r - 1) * qn r < n := by
  have h := ceil_div_spec n (qn r) (by omega) (by omega)
  simp only [hiSize, hn, hq, or_self, if_false]
  exact ⟨h.1, h.2.1⟩

/-- The entry span is the quantisation number. -/
theorem C19_hi_span (n r : Nat) (hn : n ≠ 0) (hq : qn r ≠ 0) : hiSpan n r = qn r := by
  simp [hiSpan, hn, hq]

/-- No smaller number of entries covers the track. -/
theorem C19_hi_minimal (n r k : Nat) (hn : n ≠ 0) (hq : qn r ≠ 0) (hk : n ≤ k * qn r) :
    hiSize n r ≤ k := by
  have h := (C19_hi_cover n r hn hq).2
  have hpos : 0 < qn r := by omega
  have : (hiSize n r - 1) * qn r < k * qn r := by omega
  have := Nat.lt_of_mul_lt_mul_right this
  omega

theorem C19_ov_size (n r : Nat) (hn : n ≠ 0) (hq : qn r ≠ 0) : ovSize n r = 1024 := by
  simp [ovSize, hn, hq]

/-- The overview spans the sample count rounded *down* to the quantisation number. -/
theorem C19_ov_rounded (n r : Nat) (hn : n ≠ 0) (hq : qn r ≠ 0) :
    ovRounded n r ≤ n ∧ n < ovRounded n r + qn r ∧ ovRounded n r % qn r = 0 := by
  simp only [ovRounded, hn, hq, or_self, if_false]
  have h1 : n / qn r * qn r ≤ n := Nat.div_mul_le_self _ _
  have h2 := Nat.lt_mul_div_succ n (by omega : 0 < qn r)
  refine ⟨h1, ?_, by simp⟩
  rw [Nat.mul_comm] at h2
  rw [Nat.add_mul] at h2
  omega

/-- Both waveforms are empty exactly when there is no audio or the rate is too low to quantise. -/
theorem C19_empty_iff (n r : Nat) :
    (hiSize n r = 0 ↔ n = 0 ∨ r < 210) ∧ (ovSize n r = 0 ↔ n = 0 ∨ r < 210) := by
  constructor
  · constructor
    · intro h
      by_cases h0 : n = 0 ∨ qn r = 0
      · rcases h0 with h0 | h0
        · exact Or.inl h0
        · exact Or.inr ((qn_eq_zero_iff r).mp h0)
      · exfalso
        have hn : n ≠ 0 := fun h => h0 (Or.inl h)
        have hq : qn r ≠ 0 := fun h => h0 (Or.inr h)
        have := (ceil_div_spec n (qn r) (by omega) (by omega)).2.2
        simp only [hiSize, hn, hq, or_self, if_false] at h
        omega
    · intro h
      have : n = 0 ∨ qn r = 0 := by
        rcases h with h | h
        · exact Or.inl h
        · exact Or.inr ((qn_eq_zero_iff r).mpr h)
      simp [hiSize, this]
  · constructor
    · intro h
      by_cases h0 : n = 0 ∨ qn r = 0
      · rcases h0 with h0 | h0
        · exact Or.inl h0
        · exact Or.inr ((qn_eq_zero_iff r).mp h0)
      · simp [ovSize, h0] at h
    · intro h
      have : n = 0 ∨ qn r = 0 := by
        rcases h with h | h
        · exact Or.inl h
        · exact Or.inr ((qn_eq_zero_iff r).mpr h)
      simp [ovSize, this]

/-- Sizes are monotone in the sample count. -/
theorem C19_mono (n n' r : Nat) (h : n ≤ n') : hiSize n r ≤ hiSize n' r ∧ ovSize n r ≤ ovSize n' r := by
  constructor
  · unfold hiSize
    by_cases hq : qn r = 0
    · simp [hq]
    · by_cases hn : n = 0
      · simp [hn]
      · have hn' : n' ≠ 0 := by omega
        simp only [hn, hn', hq, or_self, if_false]
        exact Nat.div_le_div_right (by omega)
  · unfold ovSize
    by_cases hq : qn r = 0
    · simp [hq]
    · by_cases hn : n = 0
      · simp [hn]
      · have hn' : n' ≠ 0 := by omega
        simp [hn, hn', hq]

/-! ### non-vacuity: a concrete track (44.1 kHz, 10 s) meets the hypotheses -/
example : (441000 : Nat) ≠ 0 ∧ qn 44100 ≠ 0 ∧ hiSize 441000 44100 = 1050 ∧ qn 44100 = 420
    ∧ ovRounded 441000 44100 = 441000 := by decide
example : hiSize 441001 44100 = 1051 ∧ ovRounded 441001 44100 = 441000 := by decide

end EngineModel.Properties.C19
