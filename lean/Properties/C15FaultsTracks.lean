/-
C15 on states left behind by FAILED calls, schema 2.x TRACKS — "every public operation … on any state reachable
through the API … completes or throws …; never undefined behaviour", where a state is also reachable when a
mutating track call before it failed half-way (an SQLite statement failing at any statement position, BEGIN and
COMMIT included; `UNIQUE (path)` or the origin trigger refusing an UPDATE / INSERT; `rows_modified() == 0`).

Model (`Api/FaultsTracksV2.lean`): `callF ops s d op plan` executes `create_track` / `track::update` / any of the 26
`set_*` / `remove_track` as its STATEMENT PROGRAM (`TracksV2/Stmts.topStmts`, the program C14 proves all-or-nothing:
`C14_tracks_v2_program`, `C14_tracks_v2_shape`) over the statement-level Track table `TDb` on the connection of
`Spec/Txn.lean` under a fault plan, with the RAII rollback; `runF` is a history of such calls, each under its own
plan or none.  The public getters read the row store `view d : TracksV2.Db`, the state space of the C15 track
theorems (`Api/C15TracksV2.step`, `GuardedTracksV2.stepG` / `callG` with the guards regenerated from the source).

The composition (the bridge design/C15_faults.md §5 said was missing):

    all-or-nothing (C14)   ⇒  the table after a failed call is the table before              (v2t_C14_failed_call_unchanged)
    bridge                 ⇒  TDb.step = C15TracksV2.step on `view`, state and outcome        (v2t_C15_bridge)
                           ⇒  view (runF … hist) = the FAULT-FREE C15 run of the calls that
                              took effect                                                     (v2t_C15_after_faults_reachable)
                           ⇒  `dbOk` survives, the existing no-`ub` theorems apply            (v2t_C15_after_faults_no_ub)

for ALL histories × ALL fault plans × ALL arguments × all seven 2.x schema versions × any `FOps`.
-/
import Proofs.C15FaultsTracksV2
import Properties.C15TracksV2
import Properties.C11V2Tracks

namespace EngineModel.Properties.C15FaultsTracks
open EngineModel EngineModel.TracksV2 EngineModel.Api.C15TracksV2 EngineModel.Api.GuardedTracksV2
open EngineModel.Api.FaultsTracksV2 EngineModel.Spec.Txn EngineModel.Spec.Stmts
open EngineModel.Proofs.C15FaultsTracksV2

/-! ### one call -/

/-- **Whatever makes the statement program of a 2.x track call raise** — a fault injected at any statement position
(`fault = some k`), or a statement refusing by itself (`fault = none`: `UNIQUE (path)`, the origin trigger, an
UPDATE / DELETE that matches no row), with or without SQLite's own rollback — the connection is afterwards at rest
on exactly the prior Track table.  Any table, any call, any arguments. -/
theorem v2t_C15_failed_call_restores (ops : FOps) (s : Schema) (d : TDb) (op : TOp) (fault : Option Nat) (auto : Bool)
    (hr : (call fault auto (topStmts ops s d op) d).raised = true) :
    (call fault auto (topStmts ops s d op) d).conn = Conn.idle d :=
  raised_restores ops s d op fault auto hr

/-- A fault position inside the call (`k < positions` = the number of faultable statements the call issues on this
prior table): the call reports it by throwing and the next call starts from exactly the prior table. -/
theorem v2t_C15_fault_inside_throws (ops : FOps) (s : Schema) (d : TDb) (op : TOp) (p : Plan)
    (hk : p.k < positions ops s d op) (hu : ∀ u, (d.step ops s op).2 ≠ .ub u) :
    callF ops s d op (some p) = (d, .throw .sqlite_error) :=
  callF_fault_inside ops s d op p hk hu

/-- One call under ANY plan, on ANY table: the table afterwards is the prior one or the one the fault-free call
produces, and the outcome is the fault-free call's or the failing statement's exception. -/
theorem v2t_C15_call_under_faults (ops : FOps) (s : Schema) (d : TDb) (op : TOp) (plan : Option Plan) :
    ((callF ops s d op plan).1 = d ∨ (callF ops s d op plan).1 = (d.step ops s op).1) ∧
    ((callF ops s d op plan).2 = (d.step ops s op).2 ∨ (callF ops s d op plan).2 = .throw .sqlite_error) :=
  ⟨callF_state ops s d op plan, callF_outcome ops s d op plan⟩

/-- **C14 on this semantics: a failed call leaves every observation of every track unchanged.**  On a table
satisfying the structural invariant (every reachable one: `v2t_C15_after_faults_inv`), a call — under any plan or
none — that does not return normally (an injected fault, a constraint, or an exception of the call itself:
`invalid_track_snapshot`, `track_deleted`, `out_of_range`, …) leaves the Track table EQUAL to the prior one; hence
every public operation (`snapshot()`, each getter at any index, `is_valid()`, `database::tracks`, `track_by_id`,
`tracks_by_relative_path`, and every later mutating call) answers exactly as it would have before the call. -/
theorem v2t_C14_failed_call_unchanged (ops : FOps) (s : Schema) (d : TDb) (hI : Inv d) (op : TOp) (plan : Option Plan)
    (hfail : ¬ ∃ v, (callF ops s d op plan).2 = .ok v) :
    (callF ops s d op plan).1 = d ∧
    (∀ q, stepG ops s (view (callF ops s d op plan).1) q = stepG ops s (view d) q) ∧
    (∀ c, callG ops s (view (callF ops s d op plan).1) c = callG ops s (view d) c) ∧
    (∀ op' plan', callF ops s (callF ops s d op plan).1 op' plan' = callF ops s d op' plan') := by
  have h := callF_failed_unchanged ops s hI.s op plan hfail
  refine ⟨h, ?_, ?_, ?_⟩ <;> intros <;> rw [h]

/-! ### the bridge -/

/-- **The bridge between the two track models.**  On every table satisfying the structural invariant, a public
mutating track call of the statement-level model (where the statement programs of C14 live) is — on the row store
`view` the getters read — exactly the call of the guarded C15 API model: the same row store afterwards, the same
outcome (`create_track` answers the new id), `ub` included. -/
theorem v2t_C15_bridge (ops : FOps) (s : Schema) (d : TDb) (hI : Inv d) (op : TOp) :
    view (d.step ops s op).1 = (stepG ops s (view d) (toOp op)).1 ∧
    (stepG ops s (view d) (toOp op)).2 = mapRes (outOf op) (d.step ops s op).2 := by
  rw [stepG_eq]
  exact step_view ops s hI.s op

/-! ### histories with failures -/

/-- **The invariants survive every history with failures**: the structural invariant of the Track table (C11's
`Inv`: ids, paths and origin columns, derived columns) and the invariant of the C15 track theorems on the row store
(`dbOk`), from any table satisfying them, after any calls with any arguments, each under any fault plan or none. -/
theorem v2t_C15_after_faults_inv (ops : FOps) (s : Schema) {d : TDb} (hI : FInv d) (hist : List FCall) :
    FInv (runF ops s d hist) ∧ Spec.tracksWf (runF ops s d hist) = true :=
  ⟨finv_runF ops s hist hI, tracksWf_of_inv (finv_runF ops s hist hI).inv⟩

/-- **Reachability.**  The row store after ANY history of track calls under ANY fault plans, from the empty library,
is a state the FAULT-FREE C15 track model reaches from its empty library: by the calls of the history that took
effect (`effective`: a sub-list of the history, in order — the failed calls dropped). -/
theorem v2t_C15_after_faults_reachable (ops : FOps) (s : Schema) (uuid : Bytes) (hist : List FCall) :
    ∃ l : List Op, l.Sublist (hist.map fun c => toOp c.1) ∧
      view (runF ops s (TDb.empty uuid) hist) = run ops s Db.empty l :=
  ⟨effective ops s (TDb.empty uuid) hist, effective_sublist ops s hist _,
    view_runF ops s hist (finv_empty uuid)⟩

/-- **C15 after failed calls, 2.x tracks**: for ALL histories of `create_track` / `track::update` / `set_*` /
`remove_track` (any snapshots, values, slot indices, ids — live, stale or never issued) × ALL fault plans (a fault at
any statement position of any of the calls, BEGIN / COMMIT included, positions beyond the call included, or none)
from the empty library of any 2.x version:
no call of the history has undefined behaviour; on the state afterwards every public operation of the guarded C15
model — `snapshot()`, every getter at any index, `is_valid()`, `id()`, handle copies, and every mutating call with
any arguments — is a value or an exception; so is the whole `database` / `track` alphabet (`tracks`, `track_by_id`,
`tracks_by_relative_path`, …); and so is every further mutating call under any fault plan. -/
theorem v2t_C15_after_faults_no_ub (ops : FOps) (s : Schema) (uuid : Bytes) (hist : List FCall) :
    (∀ r ∈ outcomesF ops s (TDb.empty uuid) hist, ∀ u, r ≠ .ub u) ∧
    (∀ op u, (stepG ops s (view (runF ops s (TDb.empty uuid) hist)) op).2 ≠ .ub u) ∧
    (∀ c u, (callG ops s (view (runF ops s (TDb.empty uuid) hist)) c).2 ≠ .ub u) ∧
    (∀ op plan u, (callF ops s (runF ops s (TDb.empty uuid) hist) op plan).2 ≠ .ub u) := by
  have hI := finv_runF ops s hist (finv_empty uuid)
  refine ⟨outcomesF_defined ops s hist (finv_empty uuid), ?_, ?_, ?_⟩
  · exact fun op u => stepG_defined ops s _ hI.ok op u
  · exact fun c u => callG_defined ops s _ hI.ok c u
  · exact fun op plan u => callF_defined ops s hI op plan u

/-- … and from ANY table satisfying the invariants (e.g. a library written by Engine and loaded), not only those
grown from the empty one. -/
theorem v2t_C15_after_faults_no_ub_from (ops : FOps) (s : Schema) {d : TDb} (h : FInv d) (hist : List FCall) :
    (∀ r ∈ outcomesF ops s d hist, ∀ u, r ≠ .ub u) ∧
    (∀ op u, (stepG ops s (view (runF ops s d hist)) op).2 ≠ .ub u) ∧
    (∀ op plan u, (callF ops s (runF ops s d hist) op plan).2 ≠ .ub u) := by
  have hI := finv_runF ops s hist h
  exact ⟨outcomesF_defined ops s hist h, fun op u => stepG_defined ops s _ hI.ok op u,
    fun op plan u => callF_defined ops s hI op plan u⟩

/-- **Handles to removed tracks stay safe along every later history with failures.**  After any history with
failures, a `remove_track` that RETURNED NORMALLY (under any plan), and then ANY further history with failures —
creations included —: the handle reports `is_valid() = false`; `id()` and copies answer; getters and setters throw,
`snapshot()` throws `track_deleted`, removing again throws, `update` has no undefined behaviour.
(A `remove_track` that FAILED leaves the track valid and unchanged: `v2t_C14_failed_call_unchanged`.) -/
theorem v2t_C15_after_faults_stale_handle (ops : FOps) (s : Schema) (uuid : Bytes) (hist1 : List FCall) (id : Nat)
    (plan : Option Plan) (v : Nat)
    (hv : (callF ops s (runF ops s (TDb.empty uuid) hist1) (.remove id) plan).2 = .ok v) (hist2 : List FCall) :
    let db' := view (runF ops s (callF ops s (runF ops s (TDb.empty uuid) hist1) (.remove id) plan).1 hist2)
    (stepG ops s db' (.isValid id)).2 = .ok (.bool false) ∧
    (stepG ops s db' (.handleId id)).2 = .ok (.id id) ∧ (stepG ops s db' (.handleCopy id)).2 = .ok (.id id) ∧
    (∀ g, (stepG ops s db' (.get id g)).2 = .throw .runtime_error) ∧
    (∀ σ, (stepG ops s db' (.set id σ)).2 = .throw .runtime_error) ∧
    (stepG ops s db' (.snapshot id)).2 = .throw (.dj "track_deleted") ∧
    (stepG ops s db' (.remove id)).2 = .throw .invalid_argument ∧
    (∀ x u, (stepG ops s db' (.update id x)).2 ≠ .ub u) := by
  have h1 := finv_runF ops s hist1 (finv_empty uuid)
  have hg := gone_of_removed ops s h1 id plan v hv
  have hg2 := gone_runF ops s hist2 (finv_callF ops s h1 (.remove id) plan) hg
  have := C15TracksV2.stale_calls ops s _ id (view_get_of_gone hg2)
  simp only [stepG_eq]
  exact this

/-! ### the scope is what the theorems rest on -/

def exOps : FOps := C11V2Tracks.exOps
/-- two tracks "a/1.mp3" (1), "a/2.mp3" (2) -/
def cxDb : TDb := C11V2Tracks.exDb
/-- "b/9.ogg" -/
def cxPath : Bytes := [98, 47, 57, 46, 111, 103, 103]

/-- **What breaks when a multi-statement setter loses its transaction scope** (the defect repaired by `dbbedfa`;
seeded/sv-C14-drop-scope-*): `set_relative_path("b/9.ogg")` of track 2 issued as its three UPDATEs in autocommit
mode (`unscoped`), the second UPDATE (`filename`) failing.
* WITHOUT the scope the call throws with the `path` column already written: `relative_path()` of the track answers
  the new path although the call failed (C14 is violated), the stored file name belongs to the old path, and the
  table fails the well-formedness every reachable state has (`C11V2T_reachable_wf`) — the state is NOT a state of
  the fault-free model, so the bridge to the C15 theorems is lost.  (In this model the half-written table is still
  memory-safe — `dbOk`: the `ub` sites of the 2.x track paths do not depend on cross-column consistency; what is
  lost for tracks is atomicity and reachability, where for crates it is memory safety.)
* With the scope (the program the theorems are about) a fault at each of its 5 positions — BEGIN, the three
  UPDATEs, COMMIT — gives `(prior table, throw)` and every getter answers as before. -/
theorem v2t_C15_without_scope_counterexample :
    let s : Schema := .s2_20_3
    let op : TOp := .set 2 (.relativePath cxPath)
    let r := call (some 1) false (unscoped exOps s cxDb op) cxDb
    atomicShape ((unscoped exOps s cxDb op).map Cmd.kind) = false ∧
    r.raised = true ∧
    (stepG exOps s (view cxDb) (.get 2 .relativePath)).2 = .ok (.val (.bytes [97, 47, 50, 46, 109, 112, 51])) ∧
    (stepG exOps s (view r.conn.view) (.get 2 .relativePath)).2 = .ok (.val (.bytes cxPath)) ∧
    (r.conn.view.rows.map fun t => (t.id, t.row.path, t.row.filename)) =
      [(1, [97, 47, 49, 46, 109, 112, 51], [49, 46, 109, 112, 51]), (2, cxPath, [50, 46, 109, 112, 51])] ∧
    Spec.tracksWf r.conn.view = false ∧
    dbOk (view r.conn.view) = true ∧
    -- with the scope
    positions exOps s cxDb op = 5 ∧
    (∀ k, k < 5 → callF exOps s cxDb op (some ⟨k, false⟩) = (cxDb, .throw .sqlite_error)) ∧
    (callF exOps s cxDb op none).2 = .ok 0 := by
  decide +kernel

/-! ### non-vacuity -/

def exSnap (n : UInt8) : Snap := C11V2Tracks.exSnap n

/-- a history with failures: a fault on the INSERT of a creation, a creation, a fault on the COMMIT of
`set_relative_path`, on the second UPDATE of `set_bpm`, a path refused by `UNIQUE (path)` (no injected fault, and with
one), a position beyond the call (does not fire), a fault on the DELETE of `remove_track`, the removal, a setter
through the stale handle under a plan, a creation after the removal -/
def exHist : List FCall :=
  [(.create (exSnap 49), some ⟨0, false⟩), (.create (exSnap 49), none), (.create (exSnap 50), none),
   (.set 2 (.relativePath cxPath), some ⟨4, true⟩), (.set 2 (.bpm (some 0x405e000000000000)), some ⟨2, false⟩),
   (.set 2 (.relativePath [97, 47, 49, 46, 109, 112, 51]), none),
   (.set 2 (.relativePath [97, 47, 49, 46, 109, 112, 51]), some ⟨3, false⟩),
   (.set 1 (.title (some [90])), some ⟨7, false⟩), (.remove 2, some ⟨1, false⟩), (.remove 2, some ⟨9, true⟩),
   (.set 2 (.title none), some ⟨0, false⟩), (.create (exSnap 51), none)]

example : (outcomesF exOps .s2_20_3 (TDb.empty [1, 2]) exHist).map Res.isOk =
    [false, true, true, false, false, false, false, true, false, true, false, true] := by decide +kernel
/-- the state after the history = the fault-free run of the five calls that took effect -/
example : runF exOps .s2_20_3 (TDb.empty [1, 2]) exHist =
    (TDb.empty [1, 2]).run exOps .s2_20_3
      [.create (exSnap 49), .create (exSnap 50), .set 1 (.title (some [90])), .remove 2, .create (exSnap 51)] := by
  decide +kernel
example : (effective exOps .s2_20_3 (TDb.empty [1, 2]) exHist).length = 5 := by decide +kernel
/-- ids are not re-issued after the removal: the new track is 3, the stale handle 2 stays invalid -/
example : (view (runF exOps .s2_20_3 (TDb.empty [1, 2]) exHist)).rows.map (·.1) = [1, 3] := by decide +kernel
example : (stepG exOps .s2_20_3 (view (runF exOps .s2_20_3 (TDb.empty [1, 2]) exHist)) (.isValid 2)).2 =
    .ok (.bool false) := by decide +kernel
/-- fault positions: `set_relative_path` 5, `set_bpm` 4, `remove_track` 3, `create_track` / `set_title` 1 -/
example : positions exOps .s2_20_3 cxDb (.set 2 (.relativePath cxPath)) = 5 ∧
    positions exOps .s2_20_3 cxDb (.set 2 (.bpm none)) = 4 ∧ positions exOps .s2_20_3 cxDb (.remove 2) = 3 ∧
    positions exOps .s2_20_3 cxDb (.create (exSnap 51)) = 1 ∧
    positions exOps .s2_20_3 cxDb (.set 1 (.title none)) = 1 := by decide +kernel
example : ∀ u, (cxDb.step exOps .s2_20_3 (.set 2 (.relativePath cxPath))).2 ≠ .ub u := by
  have h : (cxDb.step exOps .s2_20_3 (.set 2 (.relativePath cxPath))).2 = .ok 0 := by decide +kernel
  intro u hu; rw [h] at hu; cases hu
example : FInv cxDb := finv_runF exOps .s2_20_3 [(.create (exSnap 49), none), (.create (exSnap 50), none)] (finv_empty _)
/-- the program of a refused re-pathing raises without any injected fault: the hypothesis of
`v2t_C15_failed_call_restores` with `fault = none` is satisfiable -/
example : (call none true (topStmts exOps .s2_20_3 cxDb (.set 2 (.relativePath [97, 47, 49, 46, 109, 112, 51]))) cxDb).raised
    = true := by decide +kernel
/-- a failed call in the sense of `v2t_C14_failed_call_unchanged`, by a fault and by the call itself -/
example : ¬ ∃ v, (callF exOps .s2_20_3 cxDb (.remove 2) (some ⟨1, false⟩)).2 = .ok v := by
  have h : (callF exOps .s2_20_3 cxDb (.remove 2) (some ⟨1, false⟩)).2 = .throw .sqlite_error := by decide +kernel
  rintro ⟨v, hv⟩; rw [h] at hv; cases hv
example : (callF exOps .s2_20_3 cxDb (.set 1 (.hotCueAt 8 none)) none).2 = .throw .out_of_range := by decide +kernel
/-- the hypothesis of `v2t_C15_after_faults_stale_handle`: a removal that returns normally under a plan -/
example : (callF exOps .s2_20_3 (runF exOps .s2_20_3 (TDb.empty [1, 2]) (exHist.take 9)) (.remove 2) (some ⟨9, true⟩)).2
    = .ok 0 := by decide +kernel

end EngineModel.Properties.C15FaultsTracks
