/-
C15 on states left behind by FAILED calls — "every public operation … on any state reachable through the API …
completes or throws …; never undefined behaviour".  A state is also "reachable through the API" when a mutating
call before it FAILED half-way: an SQLite statement failing (I/O error) at any statement position, BEGIN and
COMMIT included, or a statement refused by a constraint (UNIQUE (title, parentListId) refusing the last UPDATE of
a 2.x crate move).

Model (`Api/FaultsV2.lean`): `callF d op plan` executes a public mutating call as its STATEMENT
PROGRAM — the program `Db/V2CratesStmts.stmts` that C14 proves all-or-nothing (`C14_crates_v2_program`:
the program is the modelled call; `C14_crates_v2_shape`: atomic shape) — on the connection of `Spec/Txn.lean`
under a fault plan, with the RAII rollback; `runF` is a history of such calls, each under its own plan (or
none).  The theorems compose

    all-or-nothing (C14)  ⇒  the state after a failed call is the state before
                          ⇒  the invariant of the crates package (`Inv`: Chain.R of both tables, forest, …) survives
                          ⇒  the existing no-`ub` theorems (`queryG_defined`, `step_defined`) apply,

for ALL histories × ALL fault plans × ALL arguments.  `…_without_scope_counterexample`: the same move executed
WITHOUT the transaction scope reaches, under a UNIQUE refusal or a fault at its last statement, a state on which
the ordered walk is `ub oob_read` — what seeded/C15-3 breaks.
-/
import Proofs.C15FaultsV2
import Proofs.C15FaultsV1
import Properties.C15CratesV1

namespace EngineModel.Properties.C15Faults
open EngineModel EngineModel.Db.Chain EngineModel.Db.V2 EngineModel.Api.GuardedV2 EngineModel.Api.FaultsV2
open EngineModel.Spec.Txn EngineModel.Spec.Stmts EngineModel.Proofs.C15FaultsV2
open EngineModel.Api EngineModel.Proofs

/-! ### schema 2.x crates / memberships -/

/-- **Whatever makes the statement program of a 2.x crate / membership call raise** — a fault injected at any
statement position (`fault = some k`), or a statement refusing by itself (`fault = none`: the UNIQUE constraint
on the last UPDATE of a move or rename), with or without SQLite's own rollback — the connection is afterwards
at rest on exactly the prior tables. -/
theorem v2c_C15_failed_call_restores (d : Db) (op : Op) (fault : Option Nat) (auto : Bool)
    (hr : (call fault auto (stmts d op) d).raised = true) :
    (call fault auto (stmts d op) d).conn = Conn.idle d :=
  raised_restores d op fault auto hr

/-- A fault position inside the call (`k < positions d op` = the number of faultable statements the call issues
on this prior state): the call throws and the next call starts from exactly the prior state. -/
theorem v2c_C15_fault_inside_throws (d : Db) (op : Op) (p : Plan) (hk : p.k < positions d op)
    (hu : ∀ u, (stepG d op).2 ≠ .ub u) : callF d op (some p) = (d, .throw .sqlite_error) :=
  callF_fault_inside d op p hk hu

/-- One call under ANY plan, on ANY state: the state afterwards is the prior one or the one the fault-free
call produces, and the outcome is the fault-free call's or the failing statement's exception. -/
theorem v2c_C15_call_under_faults (d : Db) (op : Op) (plan : Option Plan) :
    ((callF d op plan).1 = d ∨ (callF d op plan).1 = (step d op).1) ∧
    ((callF d op plan).2 = (step d op).2 ∨ (callF d op plan).2 = .throw .sqlite_error) :=
  ⟨callF_state d op plan, callF_outcome d op plan⟩

/-- **The invariant survives every history with failures**: from a state satisfying the crates-2.x invariant
(`Inv` = `ChInv` (both tables represent lists: `Chain.R`) ∧ `PlInv` (forest) ∧ `MemInv`), after any calls with any
arguments, each under any fault plan or none. -/
theorem v2c_C15_after_faults_inv {S : Ord} {d : Db} (hI : Inv S d) (hist : List FCall)
    (hm : (hist.all fun c => memOp c.1) = true) : ∃ S', Inv S' (runF d hist) :=
  inv_runF hist hI hm

/-- **C15 after failed calls, 2.x crates**: for ALL histories of public-API calls (crate, membership, track
operations, any arguments) × ALL fault plans (a fault at any statement position of any of the calls, BEGIN / COMMIT
included, positions beyond the call included, or none) from the empty library:
no call of the history has undefined behaviour; on the state after the history every query (any crate id / name)
is a value or an exception and terminates; and so is every further mutating call, with or without a fault plan. -/
theorem v2c_C15_after_faults_no_ub (hist : List FCall) (hapi : (hist.all fun c => apiOp c.1) = true) :
    (∀ r ∈ outcomesF Db.empty hist, ∀ u, r ≠ .ub u) ∧
    (∀ q u, queryG (runF Db.empty hist) q ≠ .ub u) ∧
    (∀ op u, (stepG (runF Db.empty hist) op).2 ≠ .ub u) ∧
    (∀ op plan u, (callF (runF Db.empty hist) op plan).2 ≠ .ub u) := by
  have hm : (hist.all fun c => memOp c.1) = true := by
    rw [List.all_eq_true] at hapi ⊢
    exact fun c hc => memOp_of_apiOp (hapi c hc)
  obtain ⟨S', hI⟩ := inv_runF hist inv_empty hm
  refine ⟨outcomesF_defined hist inv_empty hm, ?_, ?_, ?_⟩
  · exact fun q u => queryG_defined _ hI.ch.rk hI.ch.re hI.pl.wf q u
  · exact fun op u => stepG_defined _ hI.pl.wf op u
  · exact fun op plan u => callF_defined hI op plan u

/-- The interleaved form: queries between the calls of a history with failures (each query runs on the state
some prefix of the history has left behind). -/
theorem v2c_C15_after_faults_prefix_queries_no_ub (hist rest : List FCall)
    (hapi : ((hist ++ rest).all fun c => apiOp c.1) = true) (q : Query) (u : Ub) :
    queryG (runF Db.empty hist) q ≠ .ub u := by
  have h1 : (hist.all fun c => apiOp c.1) = true := by
    rw [List.all_append, Bool.and_eq_true] at hapi; exact hapi.1
  exact (v2c_C15_after_faults_no_ub hist h1).2.1 q u

def nm (c : Char) : Bytes := [c.toNat.toUInt8]

/-- roots P1 (1), P2 (2); X (3) under P1; X (4) and Y (5) under P2 -/
def cxDb : Db := run Db.empty [.createRoot (nm 'P'), .createRoot (nm 'Q'), .createSub 1 (nm 'X'), .createSub 2 (nm 'X'),
  .createSub 2 (nm 'Y')]

/-- **The scope is what the theorem rests on** (seeded/C15-3: the `sqlite_transaction` of
`playlist_table::update` dropped).  Moving crate 3 (`X` under 1) under crate 2, which already has an `X`:
the last of the four UPDATEs is refused by UNIQUE (title, parentListId).
* With the scope (the program C14 and the theorems above are about) the call raises, nothing is left behind and
  every ordered query answers; the same under a fault injected at each of its 3 positions.
* WITHOUT the scope (`unscoped`: the four UPDATEs in autocommit mode) the refusal leaves the first three UPDATEs
  behind: crate 3 keeps a negative `nextListId` in its old sibling list and the tail of the new sibling list points
  at it — neither list has a tail, and `children()` of either parent dereferences `end()`: `ub oob_read`.
* The same for a move that would succeed (crate 5 `Y` under 1) WITHOUT the scope under a fault injected at its last
  statement (position 3 of its four UPDATEs); with the scope a fault at its last statement (position 2, the COMMIT)
  leaves nothing behind. -/
theorem v2c_C15_without_scope_counterexample :
    let op : Op := .setParent 3 (some 2)
    (step cxDb op).2 = .throw .sqlite_error ∧
    -- with the scope
    (call none false (stmts cxDb op) cxDb).raised = true ∧
    (call none false (stmts cxDb op) cxDb).conn = Conn.idle cxDb ∧
    (∀ k, k < 3 → callF cxDb op (some ⟨k, false⟩) = (cxDb, .throw .sqlite_error)) ∧
    queryG cxDb (.children 1) = .ok () ∧ queryG cxDb (.children 2) = .ok () ∧
    -- without: the UNIQUE refusal alone
    (call none false (unscoped cxDb op) cxDb).raised = true ∧
    queryG (call none false (unscoped cxDb op) cxDb).conn.view (.children 1) = .ub .oob_read ∧
    queryG (call none false (unscoped cxDb op) cxDb).conn.view (.children 2) = .ub .oob_read ∧
    -- without: a move that succeeds when nothing fails, under a fault at its last statement
    (step cxDb (.setParent 5 (some 1))).2 = .ok none ∧
    (call none false (unscoped cxDb (.setParent 5 (some 1))) cxDb).conn = Conn.idle (step cxDb (.setParent 5 (some 1))).1 ∧
    (call (some 3) false (unscoped cxDb (.setParent 5 (some 1))) cxDb).raised = true ∧
    queryG (call (some 3) false (unscoped cxDb (.setParent 5 (some 1))) cxDb).conn.view (.children 1) = .ub .oob_read ∧
    callF cxDb (.setParent 5 (some 1)) (some ⟨2, false⟩) = (cxDb, .throw .sqlite_error) := by
  decide +kernel

/-! #### non-vacuity -/

/-- a history with failures: a fault on the COMMIT of a move, a refused move, a fault on the INSERT of a creation, a
fault position beyond the call (does not fire), then successful calls -/
def exHist : List FCall :=
  [(.createRoot (nm 'P'), none), (.createRoot (nm 'Q'), none), (.createSub 1 (nm 'X'), none), (.createSub 2 (nm 'X'), none),
   (.createSub 2 (nm 'Y'), some ⟨0, false⟩), (.createSub 2 (nm 'Y'), none),
   (.setParent 5 (some 1), some ⟨2, true⟩), (.setParent 3 (some 2), none), (.setParent 3 (some 2), some ⟨1, false⟩),
   (.createTrack, none), (.addTrack 1 1, some ⟨1, false⟩), (.addTrack 1 1, some ⟨7, false⟩), (.removeCrate 2, some ⟨3, false⟩)]

example : (exHist.all fun c => apiOp c.1) = true := by decide
example : runF Db.empty exHist = run cxDb [.createTrack, .addTrack 1 1] := by decide +kernel
example : (outcomesF Db.empty exHist).map Res.isOk =
    [true, true, true, true, false, true, false, false, false, true, false, true, false] := by decide +kernel
example : positions cxDb (.setParent 5 (some 1)) = 3 ∧ positions cxDb (.removeCrate 2) = 8 ∧
    positions cxDb (.createRoot (nm 'Z')) = 1 := by decide +kernel
example : ∀ u, (stepG cxDb (.setParent 5 (some 1))).2 ≠ .ub u := by
  have h : (stepG cxDb (.setParent 5 (some 1))).2 = .ok none := by decide +kernel
  intro u hu; rw [h] at hu; cases hu
example : ∃ S, Inv S cxDb := by
  obtain ⟨S', _, h, _⟩ := inv_run inv_empty [.createRoot (nm 'P'), .createRoot (nm 'Q'), .createSub 1 (nm 'X'),
    .createSub 2 (nm 'X'), .createSub 2 (nm 'Y')] (by decide)
  exact ⟨S', h⟩
/-- the program of the refused move raises without any injected fault: the hypothesis of
`v2c_C15_failed_call_restores` with `fault = none` is satisfiable -/
example : (call none true (stmts cxDb (.setParent 3 (some 2))) cxDb).raised = true := by decide +kernel

/-! ### schema 1.x crates / memberships

The same composition over `Api.CratesV1.step`, its statement programs `CratesV1.stmts` (`C14_crates_v1_program`,
`C14_crates_v1_shape`: every INSERT / UPDATE / DELETE of every loop iteration and of every level of the
`update_path` recursion is a statement of its own, so the fault positions are the real ones) and the invariant
`CInv` of Proofs/NoUbCratesV1.lean (forest invariant `FInv` + the AUTOINCREMENT bound).  The one `ub` of this
model is the unbounded `update_path` recursion on a cyclic parent list. -/
section v1
open EngineModel.Api.CratesV1 EngineModel.Api.CratesV1.C15 EngineModel.Pure.Detect

/-- Whatever makes the statement program of a 1.x crate / membership call raise (a fault at any statement
position, or a statement failing by itself), the connection is afterwards at rest on exactly the prior tables. -/
theorem v1c_C15_failed_call_restores (s : Schema) (d : CratesV1.Db) (op : CratesV1.Op) (fault : Option Nat) (auto : Bool)
    (hr : (call fault auto (CratesV1.stmts s d op) d).raised = true) :
    (call fault auto (CratesV1.stmts s d op) d).conn = Conn.idle d :=
  C15FaultsV1.raised_restores s d op fault auto hr

/-- A fault position inside the call: the call throws and the next call starts from exactly the prior state. -/
theorem v1c_C15_fault_inside_throws (s : Schema) (d : CratesV1.Db) (op : CratesV1.Op) (p : FaultsV1.Plan)
    (hk : p.k < FaultsV1.positions s d op) (hu : ∀ u, (CratesV1.step s d op).2 ≠ .ub u) :
    FaultsV1.callF s d op (some p) = (d, .throw .sqlite_error) :=
  C15FaultsV1.callF_fault_inside s d op p hk hu

/-- One call under ANY plan, on ANY state: prior state or the fault-free call's; the fault-free outcome or the
failing statement's exception. -/
theorem v1c_C15_call_under_faults (s : Schema) (d : CratesV1.Db) (op : CratesV1.Op) (plan : Option FaultsV1.Plan) :
    ((FaultsV1.callF s d op plan).1 = d ∨ (FaultsV1.callF s d op plan).1 = (CratesV1.step s d op).1) ∧
    ((FaultsV1.callF s d op plan).2 = (CratesV1.step s d op).2 ∨ (FaultsV1.callF s d op plan).2 = .throw .sqlite_error) :=
  ⟨C15FaultsV1.callF_state s d op plan, C15FaultsV1.callF_outcome s d op plan⟩

/-- The invariant survives every history with failures (any operations, any arguments, any plans). -/
theorem v1c_C15_after_faults_inv (s : Schema) {d : CratesV1.Db} (hI : CInv s d) (hist : List FaultsV1.FCall) :
    CInv s (FaultsV1.runF s d hist) :=
  C15FaultsV1.cinv_runF s hist hI

/-- **C15 after failed calls, 1.x crates**: for ALL schema versions × ALL histories of calls (any arguments) ×
ALL fault plans from the empty library: no call of the history has undefined behaviour (no `update_path`
recursion runs away), the state afterwards satisfies the forest invariant, and every further call — with or
without a fault plan — and `crate::name` (the one query of the 1.x crate paths with a dereference site) are free
of `ub`. -/
theorem v1c_C15_after_faults_no_ub (s : Schema) (hist : List FaultsV1.FCall) :
    (∀ r ∈ FaultsV1.outcomesF s CratesV1.Db.empty hist, ∀ u, r ≠ .ub u) ∧
    FInv (FaultsV1.runF s CratesV1.Db.empty hist) ∧
    (∀ op u, (CratesV1.step s (FaultsV1.runF s CratesV1.Db.empty hist) op).2 ≠ .ub u) ∧
    (∀ op plan u, (FaultsV1.callF s (FaultsV1.runF s CratesV1.Db.empty hist) op plan).2 ≠ .ub u) ∧
    (∀ c u, GuardedCratesV1.crateNameSrc (FaultsV1.runF s CratesV1.Db.empty hist) c ≠ .ub u) := by
  have hI := C15FaultsV1.cinv_runF s hist (cinv_empty s)
  refine ⟨C15FaultsV1.outcomesF_defined s hist (cinv_empty s), hI.finv, ?_, ?_, ?_⟩
  · exact fun op u => step_defined s hI.finv op u
  · exact fun op plan u => C15FaultsV1.callF_defined hI op plan u
  · exact fun c u => (EngineModel.Properties.C15CratesV1.v1c_C15_queries_no_ub _ c u).2.1

def n1 (c : Char) : CratesV1.Name := [c.toNat.toUInt8]

/-- roots A (1), B (2); C (3) under A -/
def cxDb1 : CratesV1.Db :=
  CratesV1.run .schema_1_18_0_os CratesV1.Db.empty [.createRoot (n1 'A'), .createRoot (n1 'B'), .createSub 1 (n1 'C')]

/-- **The scope is what the theorem rests on, 1.x**: `crate::set_parent` (A under B) executed WITHOUT its
`sqlite_transaction` scope (`unscoped`: the same 6 writing statements in autocommit mode), a fault on its third
writing statement — the first INSERT INTO CrateHierarchy, after CrateParentList has been rewritten: the parent
link A → B is durable, the ancestor closure is not.  The cycle test of `set_parent` reads the closure, so the
reverse move (B under A) is then ACCEPTED, the parent list is cyclic and the `update_path` recursion of that very
call never returns: `ub nontermination`.  With the scope, a fault at each of the 8 positions (BEGIN, the 6 writes, COMMIT) leaves the tables
as they were and the reverse move is an ordinary move. -/
theorem v1c_C15_without_scope_counterexample :
    let s : Schema := .schema_1_18_0_os
    let op : CratesV1.Op := .setParent 1 (some 2)
    let r := call (some 2) false (FaultsV1.unscoped s cxDb1 op) cxDb1
    r.raised = true ∧
    (CratesV1.step s r.conn.view (.setParent 2 (some 1))).2 = .ub .nontermination ∧
    FaultsV1.positions s cxDb1 op = 8 ∧
    (∀ k, k < 8 → FaultsV1.callF s cxDb1 op (some ⟨k, false⟩) = (cxDb1, .throw .sqlite_error)) ∧
    (CratesV1.step s cxDb1 (.setParent 2 (some 1))).2 = .ok .unit := by
  decide +kernel

/-- a history with failures on 1.x: faults on BEGIN, on a DELETE in the middle of a move, on COMMIT, beyond the call -/
def exHist1 : List FaultsV1.FCall :=
  [(.createRoot (n1 'A'), some ⟨0, false⟩), (.createRoot (n1 'A'), none), (.createRoot (n1 'B'), none),
   (.createSub 1 (n1 'C'), some ⟨3, true⟩), (.createSub 1 (n1 'C'), none),
   (.setParent 1 (some 2), some ⟨4, false⟩), (.setParent 1 (some 2), some ⟨7, false⟩), (.rename 1 (n1 'Z'), some ⟨99, false⟩),
   (.rename 1 (n1 'A'), none), (.removeCrate 1, some ⟨5, false⟩)]

example : FaultsV1.runF .schema_1_18_0_os CratesV1.Db.empty exHist1 = cxDb1 := by decide +kernel
example : (FaultsV1.outcomesF .schema_1_18_0_os CratesV1.Db.empty exHist1).map Res.isOk =
    [false, true, true, false, true, false, false, true, true, false] := by decide +kernel
example : CInv .schema_1_18_0_os cxDb1 := run_cinv _ _ _ (cinv_empty _)
example : (CratesV1.step .schema_1_18_0_os cxDb1 (.setParent 1 (some 2))).2 = .ok .unit := by decide +kernel

end v1

end EngineModel.Properties.C15Faults
