/-
C15 on states left behind by FAILED calls — "every public operation … on any state reachable through the API …
completes or throws …; never undefined behaviour".  A state is also "reachable through the API" when a mutating
call before it FAILED half-way: an SQLite statement failing (I/O error) at any statement position, BEGIN and
COMMIT included, or a statement refused by a constraint (UNIQUE (title, parentListId) refusing the last UPDATE of
a 2.x crate move).

Model (`Api/FaultsV2.lean`): `callF d op plan` executes a public mutating call as its STATEMENT
PROGRAM — the program `Db/V2CratesStmts.stmts` that C14 proves all-or-nothing (`C14_crates_v2_program`:
the program is the modelled call; `C14_crates_v2_shape`: atomic shape) — on the connection of `Spec/Txn.lean`
under a fault plan, with the RAII rollback; `runF` is a history of such calls, each under its own plan (or
none).  The theorems compose

    all-or-nothing (C14)  ⇒  the state after a failed call is the state before
                          ⇒  the invariant of the crates package (`Inv`: Chain.R of both tables, forest, …) survives
                          ⇒  the existing no-`ub` theorems (`queryG_defined`, `step_defined`) apply,

for ALL histories × ALL fault plans × ALL arguments.  `…_without_scope_counterexample`: the same move executed
WITHOUT the transaction scope reaches, under a UNIQUE refusal or a fault at its last statement, a state on which
the ordered walk is `ub oob_read` — what seeded/C15-3 breaks.
-/
import Proofs.C15FaultsV2

namespace EngineModel.Properties.C15Faults
open EngineModel EngineModel.Db.Chain EngineModel.Db.V2 EngineModel.Api.GuardedV2 EngineModel.Api.FaultsV2
open EngineModel.Spec.Txn EngineModel.Spec.Stmts EngineModel.Proofs.C15FaultsV2

/-! ### schema 2.x crates / memberships -/

/-- **Whatever makes the statement program of a 2.x crate / membership call raise** — a fault injected at any
statement position (`fault = some k`), or a statement refusing by itself (`fault = none`: the UNIQUE constraint
on the last UPDATE of a move or rename), with or without SQLite's own rollback — the connection is afterwards
at rest on exactly the prior tables. -/
theorem v2c_C15_failed_call_restores (d : Db) (op : Op) (fault : Option Nat) (auto : Bool)
    (hr : (call fault auto (stmts d op) d).raised = true) :
    (call fault auto (stmts d op) d).conn = Conn.idle d :=
  raised_restores d op fault auto hr

/-- A fault position inside the call (`k < positions d op` = the number of faultable statements the call issues
on this prior state): the call throws and the next call starts from exactly the prior state. -/
theorem v2c_C15_fault_inside_throws (d : Db) (op : Op) (p : Plan) (hk : p.k < positions d op)
    (hu : ∀ u, (stepG d op).2 ≠ .ub u) : callF d op (some p) = (d, .throw .sqlite_error) :=
  callF_fault_inside d op p hk hu

/-- One call under ANY plan, on ANY state: the state afterwards is the prior one or the one the fault-free
call produces, and the outcome is the fault-free call's or the failing statement's exception. -/
theorem v2c_C15_call_under_faults (d : Db) (op : Op) (plan : Option Plan) :
    ((callF d op plan).1 = d ∨ (callF d op plan).1 = (step d op).1) ∧
    ((callF d op plan).2 = (step d op).2 ∨ (callF d op plan).2 = .throw .sqlite_error) :=
  ⟨callF_state d op plan, callF_outcome d op plan⟩

/-- **The invariant survives every history with failures**: from a state satisfying the crates-2.x invariant
(`Inv` = `ChInv` (both tables represent lists: `Chain.R`) ∧ `PlInv` (forest) ∧ `MemInv`), after any calls with any
arguments, each under any fault plan or none. -/
theorem v2c_C15_after_faults_inv {S : Ord} {d : Db} (hI : Inv S d) (hist : List FCall)
    (hm : (hist.all fun c => memOp c.1) = true) : ∃ S', Inv S' (runF d hist) :=
  inv_runF hist hI hm

/-- **C15 after failed calls, 2.x crates**: for ALL histories of public-API calls (crate, membership, track
operations, any arguments) × ALL fault plans (a fault at any statement position of any of the calls, BEGIN / COMMIT
included, positions beyond the call included, or none) from the empty library:
no call of the history has undefined behaviour; on the state after the history every query (any crate id / name)
is a value or an exception and terminates; and so is every further mutating call, with or without a fault plan. -/
theorem v2c_C15_after_faults_no_ub (hist : List FCall) (hapi : (hist.all fun c => apiOp c.1) = true) :
    (∀ r ∈ outcomesF Db.empty hist, ∀ u, r ≠ .ub u) ∧
    (∀ q u, queryG (runF Db.empty hist) q ≠ .ub u) ∧
    (∀ op u, (stepG (runF Db.empty hist) op).2 ≠ .ub u) ∧
    (∀ op plan u, (callF (runF Db.empty hist) op plan).2 ≠ .ub u) := by
  have hm : (hist.all fun c => memOp c.1) = true := by
    rw [List.all_eq_true] at hapi ⊢
    exact fun c hc => memOp_of_apiOp (hapi c hc)
  obtain ⟨S', hI⟩ := inv_runF hist inv_empty hm
  refine ⟨outcomesF_defined hist inv_empty hm, ?_, ?_, ?_⟩
  · exact fun q u => queryG_defined _ hI.ch.rk hI.ch.re hI.pl.wf q u
  · exact fun op u => stepG_defined _ hI.pl.wf op u
  · exact fun op plan u => callF_defined hI op plan u

/-- The interleaved form: queries between the calls of a history with failures (each query runs on the state
some prefix of the history has left behind). -/
theorem v2c_C15_after_faults_prefix_queries_no_ub (hist rest : List FCall)
    (hapi : ((hist ++ rest).all fun c => apiOp c.1) = true) (q : Query) (u : Ub) :
    queryG (runF Db.empty hist) q ≠ .ub u := by
  have h1 : (hist.all fun c => apiOp c.1) = true := by
    rw [List.all_append, Bool.and_eq_true] at hapi; exact hapi.1
  exact (v2c_C15_after_faults_no_ub hist h1).2.1 q u

def nm (c : Char) : Bytes := [c.toNat.toUInt8]

/-- roots P1 (1), P2 (2); X (3) under P1; X (4) and Y (5) under P2 -/
def cxDb : Db := run Db.empty [.createRoot (nm 'P'), .createRoot (nm 'Q'), .createSub 1 (nm 'X'), .createSub 2 (nm 'X'),
  .createSub 2 (nm 'Y')]

/-- **The scope is what the theorem rests on** (seeded/C15-3: the `sqlite_transaction` of
`playlist_table::update` dropped).  Moving crate 3 (`X` under 1) under crate 2, which already has an `X`:
the last of the four UPDATEs is refused by UNIQUE (title, parentListId).
* With the scope (the program C14 and the theorems above are about) the call raises, nothing is left behind and
  every ordered query answers; the same under a fault injected at each of its 3 positions.
* WITHOUT the scope (`unscoped`: the four UPDATEs in autocommit mode) the refusal leaves the first three UPDATEs
  behind: crate 3 keeps a negative `nextListId` in its old sibling list and the tail of the new sibling list points
  at it — neither list has a tail, and `children()` of either parent dereferences `end()`: `ub oob_read`.
* The same for a move that would succeed (crate 5 `Y` under 1) WITHOUT the scope under a fault injected at its last
  statement (position 3 of its four UPDATEs); with the scope a fault at its last statement (position 2, the COMMIT)
  leaves nothing behind. -/
theorem v2c_C15_without_scope_counterexample :
    let op : Op := .setParent 3 (some 2)
    (step cxDb op).2 = .throw .sqlite_error ∧
    -- with the scope
    (call none false (stmts cxDb op) cxDb).raised = true ∧
    (call none false (stmts cxDb op) cxDb).conn = Conn.idle cxDb ∧
    (∀ k, k < 3 → callF cxDb op (some ⟨k, false⟩) = (cxDb, .throw .sqlite_error)) ∧
    queryG cxDb (.children 1) = .ok () ∧ queryG cxDb (.children 2) = .ok () ∧
    -- without: the UNIQUE refusal alone
    (call none false (unscoped cxDb op) cxDb).raised = true ∧
    queryG (call none false (unscoped cxDb op) cxDb).conn.view (.children 1) = .ub .oob_read ∧
    queryG (call none false (unscoped cxDb op) cxDb).conn.view (.children 2) = .ub .oob_read ∧
    -- without: a move that succeeds when nothing fails, under a fault at its last statement
    (step cxDb (.setParent 5 (some 1))).2 = .ok none ∧
    (call none false (unscoped cxDb (.setParent 5 (some 1))) cxDb).conn = Conn.idle (step cxDb (.setParent 5 (some 1))).1 ∧
    (call (some 3) false (unscoped cxDb (.setParent 5 (some 1))) cxDb).raised = true ∧
    queryG (call (some 3) false (unscoped cxDb (.setParent 5 (some 1))) cxDb).conn.view (.children 1) = .ub .oob_read ∧
    callF cxDb (.setParent 5 (some 1)) (some ⟨2, false⟩) = (cxDb, .throw .sqlite_error) := by
  decide +kernel

/-! #### non-vacuity -/

/-- a history with failures: a fault on the COMMIT of a move, a refused move, a fault on the INSERT of a creation, a
fault position beyond the call (does not fire), then successful calls -/
def exHist : List FCall :=
  [(.createRoot (nm 'P'), none), (.createRoot (nm 'Q'), none), (.createSub 1 (nm 'X'), none), (.createSub 2 (nm 'X'), none),
   (.createSub 2 (nm 'Y'), some ⟨0, false⟩), (.createSub 2 (nm 'Y'), none),
   (.setParent 5 (some 1), some ⟨2, true⟩), (.setParent 3 (some 2), none), (.setParent 3 (some 2), some ⟨1, false⟩),
   (.createTrack, none), (.addTrack 1 1, some ⟨1, false⟩), (.addTrack 1 1, some ⟨7, false⟩), (.removeCrate 2, some ⟨3, false⟩)]

example : (exHist.all fun c => apiOp c.1) = true := by decide
example : runF Db.empty exHist = run cxDb [.createTrack, .addTrack 1 1] := by decide +kernel
example : (outcomesF Db.empty exHist).map Res.isOk =
    [true, true, true, true, false, true, false, false, false, true, false, true, false] := by decide +kernel
example : positions cxDb (.setParent 5 (some 1)) = 3 ∧ positions cxDb (.removeCrate 2) = 8 ∧
    positions cxDb (.createRoot (nm 'Z')) = 1 := by decide +kernel
example : ∀ u, (stepG cxDb (.setParent 5 (some 1))).2 ≠ .ub u := by
  have h : (stepG cxDb (.setParent 5 (some 1))).2 = .ok none := by decide +kernel
  intro u hu; rw [h] at hu; cases hu
example : ∃ S, Inv S cxDb := by
  obtain ⟨S', _, h, _⟩ := inv_run inv_empty [.createRoot (nm 'P'), .createRoot (nm 'Q'), .createSub 1 (nm 'X'),
    .createSub 2 (nm 'X'), .createSub 2 (nm 'Y')] (by decide)
  exact ⟨S', h⟩
/-- the program of the refused move raises without any injected fault: the hypothesis of
`v2c_C15_failed_call_restores` with `fault = none` is satisfiable -/
example : (call none true (stmts cxDb (.setParent 3 (some 2))) cxDb).raised = true := by decide +kernel

end EngineModel.Properties.C15Faults
