/-
C11 on the whole 2.x library, clause "every stored performance blob decodes" — composed with the codecs
packages (C02 / C03, `Impl/Blob.lean`).

The Track table of the composite holds the five BLOB columns at value level (decoded value + trailing
`extra_data`, `TracksV2.Row`).  What the library stores is `to_blob()` of that value:

    payload = the payload encoder of the kind (`Impl.V2.encodeX v extra`, = the Spec layout `X.enc v ++ extra`, C02)
    blob    = zlib_compress(payload)   for trackData / overviewWaveFormData / beatData / quickCues,
              payload itself           for loops (stored uncompressed)

and a reader decodes with `from_blob()` = `Blob.fromBlobX2` = `zlib_uncompress` (`unz`) then the payload decoder.
Here: for every row whose values have C++ shape (`BlobShape`: labels ≤ 255 bytes — kept by every write, see
`C11Lib2_reachable_rows_encodable` —, vector sizes below 2^63, three bytes per waveform point), each of the five
payload encoders succeeds, and EVERY byte string that `zlib_uncompress` maps back to that payload — in particular
the Spec framing `Zlib.frame payload` (`C02_unz_frame`), and what `zlib_compress` builds over any deflate oracle
honouring the contract (`uncompress_compress`, C03) — decodes to exactly the stored value and its extra data.
-/
import Properties.C02Written
import Proofs.Lib2Step
import Proofs.Lib2Sim

namespace EngineModel.Properties.C11Lib2
open EngineModel EngineModel.Codec EngineModel.V2 EngineModel.Impl.V2 EngineModel.Impl.Blob
open EngineModel.Impl.Zlib EngineModel.Properties.C02 EngineModel.Properties.C03
open EngineModel.TracksV2 (Row cuesEncodable loopsEncodable)
open EngineModel.Lib.V2
open EngineModel.Table (Schema2)

/-- every cue / loop label fits the one length byte the format gives it (what `to_blob()` tests) -/
def LabelsFit (r : Row) : Prop := cuesEncodable r.cues.1 = true ∧ loopsEncodable r.loops.1 = true

/-- what `to_blob()` encodes for each BLOB column of a Track row -/
def payloadTrack (r : Row) : Res Bytes := encodeTrack r.trackData.1 r.trackData.2
def payloadOvw (r : Row) : Res Bytes := encodeOvw r.ovw.1 r.ovw.2
def payloadBeat (r : Row) : Res Bytes := encodeBeat r.beat.1 r.beat.2
def payloadCues (r : Row) : Res Bytes := encodeCues r.cues.1 r.cues.2
def payloadLoops (r : Row) : Res Bytes := encodeLoops r.loops.1 r.loops.2

/-- the values of the row have the shape of C++ values: labels fit their length byte (`LabelsFit`: kept by every
write of the library), sizes are below 2^63, the waveform has three bytes per point and a three-byte maximum -/
structure BlobShape (r : Row) : Prop where
  labels : LabelsFit r
  beat : r.beat.1.Valid
  ovw : r.ovw.1.Valid
  ovwLen : 27 + r.ovw.1.points.length + r.ovw.2.length < maxCount
  cues : r.cues.1.cues.length < maxCount
  loops : r.loops.1.length < maxCount

/-- **Every stored blob decodes** (to the very value and extra data the row holds). -/
theorem C11Lib2_stored_blobs_decode (r : Row) (h : BlobShape r) :
    (∃ p, payloadTrack r = .ok p ∧ ∀ b, unz b = .ok p → fromBlobTrack2 b = .ok r.trackData) ∧
    (∃ p, payloadOvw r = .ok p ∧ ∀ b, unz b = .ok p → fromBlobOvw2 b = .ok r.ovw) ∧
    (∃ p, payloadBeat r = .ok p ∧ ∀ b, unz b = .ok p → fromBlobBeat2 b = .ok r.beat) ∧
    (∃ p, payloadCues r = .ok p ∧ ∀ b, unz b = .ok p → fromBlobCues2 b = .ok r.cues) ∧
    (∃ p, payloadLoops r = .ok p ∧ fromBlobLoops2 p = .ok r.loops) := by
  have hc : ∀ q ∈ r.cues.1.cues, q.label.length ≤ 255 := by
    have := h.labels.1
    unfold cuesEncodable at this
    rw [List.all_eq_true] at this
    intro q hq; simpa using this q hq
  have hl : ∀ q ∈ r.loops.1, q.label.length ≤ 255 := by
    have := h.labels.2
    unfold loopsEncodable at this
    rw [List.all_eq_true] at this
    intro q hq; simpa using this q hq
  refine ⟨?_, ?_, ?_, ?_, ?_⟩
  · obtain ⟨b, h1, h2⟩ := C03_v2_track_roundtrip r.trackData.1 r.trackData.2
    exact ⟨b, h1, fun blob hb => by unfold fromBlobTrack2 fromBlob; rw [hb]; exact h2⟩
  · obtain ⟨b, h1, h2⟩ := C03_v2_ovw_roundtrip r.ovw.1 r.ovw.2 h.ovw h.ovwLen
    exact ⟨b, h1, fun blob hb => by unfold fromBlobOvw2 fromBlob; rw [hb]; exact h2⟩
  · obtain ⟨b, h1, h2⟩ := C03_v2_beat_roundtrip r.beat.1 r.beat.2 h.beat
    exact ⟨b, h1, fun blob hb => by unfold fromBlobBeat2 fromBlob; rw [hb]; exact h2⟩
  · obtain ⟨b, h1, h2⟩ := C03_v2_cues_roundtrip r.cues.1 r.cues.2 h.cues hc
    exact ⟨b, h1, fun blob hb => by unfold fromBlobCues2 fromBlob; rw [hb]; exact h2⟩
  · obtain ⟨b, h1, h2⟩ := C03_v2_loops_roundtrip r.loops.1 r.loops.2 h.loops hl
    exact ⟨b, h1, h2⟩

/-- … in particular under the Engine framing written by the independent Spec encoder (4-byte big-endian length +
zlib stream of stored blocks): payloads below 2 GiB. -/
theorem C11Lib2_framed_blobs_decode (r : Row) (h : BlobShape r) :
    (∀ p, payloadTrack r = .ok p → p.length < 2147483648 → fromBlobTrack2 (Zlib.frame p) = .ok r.trackData) ∧
    (∀ p, payloadOvw r = .ok p → p.length < 2147483648 → fromBlobOvw2 (Zlib.frame p) = .ok r.ovw) ∧
    (∀ p, payloadBeat r = .ok p → p.length < 2147483648 → fromBlobBeat2 (Zlib.frame p) = .ok r.beat) ∧
    (∀ p, payloadCues r = .ok p → p.length < 2147483648 → fromBlobCues2 (Zlib.frame p) = .ok r.cues) := by
  obtain ⟨⟨p1, e1, d1⟩, ⟨p2, e2, d2⟩, ⟨p3, e3, d3⟩, ⟨p4, e4, d4⟩, _⟩ := C11Lib2_stored_blobs_decode r h
  refine ⟨?_, ?_, ?_, ?_⟩
  · intro p hp hlen; rw [e1] at hp; cases hp; exact d1 _ (C02_unz_frame _ hlen)
  · intro p hp hlen; rw [e2] at hp; cases hp; exact d2 _ (C02_unz_frame _ hlen)
  · intro p hp hlen; rw [e3] at hp; cases hp; exact d3 _ (C02_unz_frame _ hlen)
  · intro p hp hlen; rw [e4] at hp; cases hp; exact d4 _ (C02_unz_frame _ hlen)

/-! ### the label part of `BlobShape` is an invariant of the library -/

theorem putCues_ok {x q : EngineModel.V2.Cues × Bytes} (h : TracksV2.putCues x = .ok q) : q = x ∧ cuesEncodable q.1 = true := by
  unfold TracksV2.putCues at h
  split at h
  · cases h; exact ⟨rfl, by assumption⟩
  · cases h

theorem putLoops_ok {x q : EngineModel.V2.Loops × Bytes} (h : TracksV2.putLoops x = .ok q) : q = x ∧ loopsEncodable q.1 = true := by
  unfold TracksV2.putLoops at h
  split at h
  · cases h; exact ⟨rfl, by assumption⟩
  · cases h

/-- every setter keeps the labels fitting (the cue / loop setters through `to_blob()`'s own test) -/
theorem applySetter_labels (ops : TracksV2.FOps) (σ : TracksV2.Setter) (r r' : Row)
    (h : TracksV2.applySetter ops σ r = .ok r') (hr : LabelsFit r) : LabelsFit r' := by
  unfold LabelsFit at *
  cases σ <;> simp only [TracksV2.applySetter, TracksV2.Res.bind_eq_ok, Res.ok.injEq] at h
  all_goals first
    | (subst h; exact hr)
    | (obtain ⟨_, _, q, hq, rfl⟩ := h; first
        | exact ⟨(putCues_ok hq).2, hr.2⟩
        | exact ⟨hr.1, (putLoops_ok hq).2⟩)
    | (obtain ⟨_, _, _, _, rfl⟩ := h; exact hr)
    | (obtain ⟨_, _, rfl⟩ := h; exact hr)

theorem writeStore_labels (ops : TracksV2.FOps) (s : TracksV2.Schema) (x : TracksV2.Snap) (r : Row)
    (h : TracksV2.writeStore ops s x = .ok r) : LabelsFit r := by
  unfold TracksV2.writeStore at h
  rw [TracksV2.Res.bind_eq_ok] at h
  obtain ⟨r0, _, h1⟩ := h
  simp only [TracksV2.tablePut, TracksV2.Res.bind_eq_ok, Res.ok.injEq] at h1
  obtain ⟨q1, hq1, q2, hq2, rfl⟩ := h1
  obtain ⟨e1, c1⟩ := putCues_ok hq1
  obtain ⟨e2, c2⟩ := putLoops_ok hq2
  subst e1 e2
  exact ⟨c1, c2⟩

/-- every row's labels fit -/
def Stored (db : TracksV2.TDb) : Prop := ∀ t ∈ db.rows, LabelsFit t.row

theorem stored_step (ops : TracksV2.FOps) (s : TracksV2.Schema) {db : TracksV2.TDb} (hI : TracksV2.Inv db)
    (h : Stored db) (op : TracksV2.TOp) : Stored (db.step ops s op).1 := by
  have hs := tstep ops s hI op
  revert hs
  generalize (db.step ops s op).1 = db'
  generalize (db.step ops s op).2 = res
  intro hs
  cases hs with
  | failed _ _ _ => exact h
  | created x row hw =>
    intro t ht
    rcases List.mem_append.mp ht with ht | ht
    · exact h t ht
    · simp only [List.mem_singleton] at ht; rw [ht]
      exact writeStore_labels ops s x row hw
  | updated id x t0 row hf hw =>
    intro t ht
    rcases TracksV2.mem_replace ht with h1 | h1
    · rw [h1.1]; exact writeStore_labels ops s x row hw
    · exact h t h1.1
  | set id σ t0 row hf ha =>
    intro t ht
    rcases TracksV2.mem_replace ht with h1 | h1
    · rw [h1.1]; exact applySetter_labels ops σ _ _ ha (h t0 (TracksV2.find_mem hf).1)
    · exact h t h1.1
  | removed id t0 hf =>
    intro t ht
    exact h t (List.mem_filter.mp ht).1

theorem stored_run (ops : TracksV2.FOps) (s : TracksV2.Schema) (hist : List TracksV2.TOp) {db : TracksV2.TDb}
    (hI : TracksV2.Inv db) (h : Stored db) : Stored (db.run ops s hist) := by
  induction hist generalizing db with
  | nil => exact h
  | cons op t ih => exact ih (TracksV2.inv_step ops s op hI) (stored_step ops s hI h op)

/-- **Reachable rows are encodable**: after every history of the composite (any calls, any snapshots and setter
values, failed calls included) every cue / loop label of every Track row fits its length byte — so `to_blob()` of
every stored value succeeds (`C11Lib2_stored_blobs_decode`: and what it stores decodes). -/
theorem C11Lib2_reachable_rows_encodable (ops : TracksV2.FOps) (s : Schema2) (uuid : Bytes) (hist : List Call) :
    ∀ t ∈ (run ops s (Lib2.empty s uuid) hist).tdb.rows, LabelsFit t.row := by
  rw [tdb_run]
  exact stored_run ops (toT s) _ (TracksV2.inv_empty uuid) (fun t ht => by cases ht)

/-! ### non-vacuity: the row the library writes for a snapshot with a hot cue and a loop has `BlobShape` -/

def exRow : Row :=
  match TracksV2.writeStore ⟨fun _ => 0, fun _ => 0, fun _ _ => 0⟩ .s2_18_0
      { TracksV2.Snap.empty with relativePath := some [97, 46, 98], hotCues := [some ⟨[99], 0, ⟨1, 2, 3, 4⟩⟩],
                                 loops := [none, some ⟨[108], 0, 0x4000000000000000, ⟨1, 2, 3, 4⟩⟩] } with
  | .ok r => r
  | _ => default

example : BlobShape exRow :=
  ⟨⟨by decide +kernel, by decide +kernel⟩, by unfold Beat.Valid maxCount; decide +kernel,
   by unfold Ovw.Valid maxCount; decide +kernel, by unfold maxCount; decide +kernel, by unfold maxCount; decide +kernel,
   by unfold maxCount; decide +kernel⟩
example : exRow.cues.1.cues.length = 8 ∧ exRow.loops.1.length = 8 ∧ exRow.path = [97, 46, 98] := by decide +kernel

end EngineModel.Properties.C11Lib2
