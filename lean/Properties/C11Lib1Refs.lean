/-
C11 — The stored database stays a well-formed Engine library.   Schema 1.x, whole library, WITH the rows Engine DJ writes
in the tables the library itself never inserts into (work-package lib1plant).

`database::remove_track` (engine/v1/engine_database_impl.cpp) deletes, besides the crate memberships and the MetaData /
MetaDataInteger / PerformanceData rows, the rows naming the track in PlaylistTrackList, HistorylistTrackList,
PreparelistTrackList and CopiedTrack (foreign keys are not enforced on the connection).  In `Properties/C11Lib1.lean` the
`otherTrackRefs` section of the raw dump is empty — those four DELETEs are invisible there.  Here:

Model  : EngineModel/Lib/V1Refs.lean — `Lib1R` = the composite library `Lib1` + the rows `(table, trackId)` of the four
         tables; `CallR` = every public call (`api c`, stepped through `Lib.V1.step` unchanged) + ONE environment step
         `plantRefs t` (Engine puts track `t` on a playlist, a history list, the prepare list and records it as copied);
         `stepR` = the code (all four DELETEs), `stepRWith keeps` = the variants with the DELETE of the tables `keeps`
         missing.
Spec   : the same executable `libInvRaw` / `fkViolationsAll` as the plain part, on `rawR` = the raw dump with the `OT`
         section filled in (conjuncts "foreign-keys-clean" and "no-foreign-track-refs" are no longer vacuous).

Every theorem quantifies over all eleven versions, all float-operation instances, all histories `cs : List CallR` — public
calls with any arguments interleaved with Engine's writes in any order.
-/
import Proofs.Lib1Refs

namespace EngineModel.Properties.C11Lib1Refs
open EngineModel EngineModel.Lib.V1 EngineModel.Api
open EngineModel.Api.CratesV1 (liveTrack)
open EngineModel.TracksV1 (Snap Field)
open EngineModel.TracksV1.Fl (FOps)

/-- **The extended invariant holds after every history**: `LibInv` of the library and no row of PlaylistTrackList /
HistorylistTrackList / PreparelistTrackList / CopiedTrack names a track that does not exist. -/
theorem C11_lib1_refs_invariant_after_every_history (o : FOps) (s : VSchema) (um up dir : Bytes) (cs : List CallR) :
    LibInvR s (runR o s (Lib1R.empty s um up dir) cs) :=
  libInvR_run o cs (libInvR_empty s um up dir)

/-- … and is kept by every single step from ANY state satisfying it (a library written by Engine DJ and loaded). -/
theorem C11_lib1_refs_step_preserves_invariant (o : FOps) (s : VSchema) (R : Lib1R) (h : LibInvR s R) (c : CallR) :
    LibInvR s (stepR o s R c).1 := libInvR_step o h c

/-- **`PRAGMA foreign_key_check` is clean over ALL declared foreign keys, the trackId of the four tables (from 1.9.1:
of ListTrackList behind the views) included** — from the invariant … -/
theorem C11_lib1_refs_foreign_key_check_clean (s : VSchema) (R : Lib1R) (h : LibInvR s R) : fkViolationsAll (rawR s R) = [] :=
  fkAllR_clean h

/-- … hence after any history that includes plants and removals. -/
theorem C11_lib1_refs_foreign_key_check_clean_reachable (o : FOps) (s : VSchema) (um up dir : Bytes) (cs : List CallR) :
    fkViolationsAll (rawR s (runR o s (Lib1R.empty s um up dir) cs)) = [] :=
  fkAllR_clean (C11_lib1_refs_invariant_after_every_history o s um up dir cs)

/-- **The executable raw check (all twelve conjuncts) is true of the dump of every reachable extended state** — the
function the driver evaluates on the REAL dump after every call. -/
theorem C11_lib1_refs_raw_check_after_every_history (o : FOps) (s : VSchema) (um up dir : Bytes) (cs : List CallR) :
    libInvRaw s (rawR s (runR o s (Lib1R.empty s um up dir) cs)) = true :=
  libInvRawR_of_libInvR (C11_lib1_refs_invariant_after_every_history o s um up dir cs)

/-- **No dependent row of a missing track, spelled out**: after every history every row of the four tables names a track
that `tracks()` lists. -/
theorem C11_lib1_refs_rows_of_live_tracks (o : FOps) (s : VSchema) (um up dir : Bytes) (cs : List CallR) :
    let R := runR o s (Lib1R.empty s um up dir) cs
    ∀ x ∈ R.refs, x.2 ∈ CratesV1.dbTracks R.lib.cr := by
  intro R x hx
  have h := C11_lib1_refs_invariant_after_every_history o s um up dir cs
  unfold CratesV1.dbTracks CratesV1.sortIds
  rw [List.mem_mergeSort, CratesV1.mem_liveIds]
  exact h.refsLive x hx

/-- **`remove_track` deletes exactly the rows naming the track**, from ANY state: afterwards no row of any of the four
tables names it, and the rows of every other track are the ones that were there. -/
theorem C11_lib1_refs_remove_track_deletes_rows (o : FOps) (s : VSchema) (R : Lib1R) (t : Id) :
    let R' := (stepR o s R (.api (.removeTrack t))).1
    (∀ x ∈ R'.refs, x.2 ≠ t) ∧ (∀ x, x.2 ≠ t → (x ∈ R'.refs ↔ x ∈ R.refs)) := by
  intro R'
  have e : R'.refs = dropRefs (fun _ => false) R.refs t := stepR_remove_refs o s R t
  rw [e]
  constructor
  · intro x hx
    rcases (mem_dropRefs.mp hx).2 with hk | hk
    · cases hk
    · exact hk
  · intro x hne
    rw [mem_dropRefs]
    exact ⟨fun hh => hh.1, fun hh => ⟨hh, .inr hne⟩⟩

/-- **The library under Engine's writes is the plain composite library**: the library part of an extended history is the
history of its public calls — every `C08/C10/C11/C16_lib1_*` theorem applies unchanged; the environment step changes no
table a public call reads. -/
theorem C11_lib1_refs_library_projection (o : FOps) (s : VSchema) (um up dir : Bytes) (cs : List CallR) :
    (runR o s (Lib1R.empty s um up dir) cs).lib = run o s (Lib1.empty s um up dir) (apiCalls cs) :=
  runR_lib o s cs _

/-- **What each of the four DELETEs is for** (general form): in the variant of `remove_track` that lacks the DELETE on
table `k`, removing a track that has a row in `k` breaks the invariant — from EVERY state satisfying it. -/
theorem C11_lib1_refs_every_delete_is_needed (o : FOps) (s : VSchema) (R : Lib1R) (h : LibInvR s R) (keeps : RefTable → Bool)
    (k : RefTable) (hk : keeps k = true) (t : Id) (hm : (k, t) ∈ R.refs) :
    ¬ LibInvR s (stepRWith keeps o s R (.api (.removeTrack t))).1 := by
  intro h'
  have hin : (k, t) ∈ (stepRWith keeps o s R (.api (.removeTrack t))).1.refs := by
    show (k, t) ∈ dropRefs keeps R.refs t
    exact mem_dropRefs.mpr ⟨hm, .inl hk⟩
  have hl := h'.refsLive (k, t) hin
  obtain ⟨_, _, _, _, _, _, e6⟩ := CratesV1.removeTrack_spec (toDetect s) h.lib.crates t
  have hl' : liveTrack (CratesV1.removeTrack (toDetect s) R.lib.cr t).1 t := hl
  rw [e6] at hl'
  exact hl'.2 rfl

/-- FULL STATEMENT refuted for the variants: "the raw check holds after every history" is FALSE for each of the four
variants of `remove_track` that lack ONE of the DELETEs — concrete witness on the oldest and the newest version: from the
library with two tracks (two `create_track` calls), Engine writes its rows for both, then the 2-step history
`remove_track(1)` … leaves, in the variant, the row of track 1 in the table whose DELETE is missing: the executable check
fails in exactly the conjuncts "foreign-keys-clean" and "no-foreign-track-refs", and `foreign_key_check` reports the row
(from 1.9.1 also the ListTrackList row behind the view).  The CODE (all four DELETEs) passes on the same history and
keeps the four rows of track 2. -/
theorem C11_lib1_refs_counterexample :
    let o : FOps := ⟨fun _ => 0, fun n => if n = 0 then 0 else F64.one, fun _ _ => 0, fun b => b⟩
    let hist : List CallR := [.api (.createTrack { Snap.empty with relativePath := some [97] }),
      .api (.createTrack { Snap.empty with relativePath := some [98] }), .plantRefs 1, .plantRefs 2, .api (.removeTrack 1)]
    ∀ s ∈ ([.s1_6_0, .s1_18_0_os] : List VSchema),
      (∀ k ∈ RefTable.all,
        let R := runRWith (fun k' => k' == k) o s (Lib1R.empty s [77] [80] []) hist
        libFailures s (rawR s R) = ["foreign-keys-clean", "no-foreign-track-refs"] ∧
        fkViolationsAll (rawR s R) =
          (k.name, 1, 0) :: (if hasListViews s && k != .copied then [("ListTrackList", 1, 0)] else [])) ∧
      libInvRaw s (rawR s (runR o s (Lib1R.empty s [77] [80] []) hist)) = true ∧
      (runR o s (Lib1R.empty s [77] [80] []) hist).refs = RefTable.all.map fun k => (k, 2) := by
  decide +kernel

/-- non-vacuity of the theorems that assume `LibInvR` (`…_step_preserves_invariant`, `…_foreign_key_check_clean`,
`…_every_delete_is_needed`): the created library satisfies it, and after `create_track; plantRefs` a reachable state has a
row in each of the four tables (so the hypotheses `keeps k`, `(k, t) ∈ R.refs` are satisfiable for every `k`), the dump's
`OT` section is non-empty (on 1.9.1+ with the ListTrackList rows), planting twice adds nothing, and planting on an id
without a track is skipped. -/
example : ∀ s, LibInvR s (Lib1R.empty s [77] [80] []) := fun s => libInvR_empty s _ _ _

example :
    let o : FOps := ⟨fun _ => 0, fun n => if n = 0 then 0 else F64.one, fun _ _ => 0, fun b => b⟩
    let R := runR o .s1_9_1 (Lib1R.empty .s1_9_1 [77] [80] [])
      [.api (.createTrack { Snap.empty with relativePath := some [97] }), .plantRefs 1, .plantRefs 1, .plantRefs 7]
    R.refs = [(.playlist, 1), (.historylist, 1), (.preparelist, 1), (.copied, 1)] ∧
    (rawR .s1_9_1 R).otherTrackRefs = [("PlaylistTrackList", 1), ("HistorylistTrackList", 1), ("PreparelistTrackList", 1),
      ("CopiedTrack", 1), ("ListTrackList", 1), ("ListTrackList", 1), ("ListTrackList", 1)] ∧
    (stepR o .s1_9_1 R (.plantRefs 7)).2.isOk = true ∧ (stepR o .s1_9_1 R (.plantRefs 7)).1.refs = R.refs := by
  decide +kernel

end EngineModel.Properties.C11Lib1Refs
