/-
C13 — Schema and layout detection is exact.
`Gen.Detect.detectGen` / `stampGen` are regenerated from schema.cpp and the
schema_*.hpp creators on every run; the theorems are re-checked against them.
All integer triples (unbounded `Int`), both marker values.
-/
import EngineModel.Pure.Detect
import EngineModel.Gen.DetectGen

namespace EngineModel.Properties.C13
open EngineModel.Pure.Detect EngineModel.Gen.Detect

theorem mem_all (s : Schema) : s ∈ Schema.all := by cases s <;> decide

/-- Each supported (version, marker) is detected as its schema. -/
theorem detect_version (s : Schema) (m : Bool) (hm : s.marker = none ∨ s.marker = some m) :
    detectGen s.version.1 s.version.2.1 s.version.2.2 m = .schema s := by
  cases s <;> cases m <;> simp_all [Schema.marker] <;> decide

set_option maxHeartbeats 4000000 in
/-- Whatever is detected carries exactly that version and marker. -/
theorem detect_sound (a b c : Int) (m : Bool) (s : Schema) (h : detectGen a b c m = .schema s) :
    s.version = (a, b, c) ∧ (s.marker = none ∨ s.marker = some m) := by
  unfold detectGen at h
  repeat' split at h
  all_goals first
    | (cases h; subst_vars; simp_all [Schema.version, Schema.marker]; done)
    | (cases h; done)

/-- Every triple is classified exactly as the public version table says. -/
theorem C13_exact (a b c : Int) (m : Bool) : detectGen a b c m = specDetect a b c m := by
  unfold specDetect
  split
  · rename_i s hf
    have hp := List.find?_some hf
    simp at hp
    obtain ⟨h1, h2⟩ := hp
    have hm : s.marker = none ∨ s.marker = some m := by
      rcases h2 with h2 | h2
      · left; simpa using h2
      · right; simpa using h2
    have := detect_version s m hm
    rw [h1] at this
    exact this
  · rename_i hn
    cases hd : detectGen a b c m with
    | unsupported => rfl
    | schema s =>
      exfalso
      obtain ⟨h1, h2⟩ := detect_sound a b c m s hd
      have := List.find?_eq_none.mp hn s (mem_all s)
      simp at this
      have h3 := this h1
      rcases h2 with h2 | h2 <;> simp_all

/-- The version each creator stamps is the version the public table lists. -/
theorem C13_stamp (s : Schema) : stampGen s = s.version := by
  cases s <;> rfl

/-- Reload: what a creator stamps is detected as that very schema (also C10, C12). -/
theorem C13_reload (s : Schema) (m : Bool) (hm : s.marker = none ∨ s.marker = some m) :
    detectGen (stampGen s).1 (stampGen s).2.1 (stampGen s).2.2 m = .schema s := by
  cases s <;> cases m <;> simp_all [Schema.marker] <;> decide

/-- No version is ever identified as another one. -/
theorem C13_no_misidentification (a b c : Int) (m : Bool) (s : Schema)
    (h : detectGen a b c m = .schema s) :
    s.version = (a, b, c) ∧ (s.marker = none ∨ s.marker = some m) := by
  rw [C13_exact] at h
  unfold specDetect at h
  split at h
  · rename_i s' hf
    have := List.find?_some hf
    simp at h
    subst h
    simp at this
    obtain ⟨h1, h2⟩ := this
    refine ⟨h1, ?_⟩
    rcases h2 with h2 | h2
    · left; simpa using h2
    · right; simpa using h2
  · simp at h

/-- A triple is rejected exactly when no supported schema carries it. -/
theorem C13_unsupported_iff (a b c : Int) (m : Bool) :
    detectGen a b c m = .unsupported ↔
      ∀ s ∈ Schema.all, ¬ (s.version = (a, b, c) ∧ (s.marker = none ∨ s.marker = some m)) := by
  rw [C13_exact]
  unfold specDetect
  constructor
  · intro h s hs hc
    split at h
    · simp at h
    · rename_i hn
      have := List.find?_eq_none.mp hn s hs
      simp at this
      obtain ⟨h1, h2⟩ := hc
      have := this h1
      rcases h2 with h2 | h2 <;> simp_all
  · intro h
    split
    · rename_i s hf
      exfalso
      have hmem := List.mem_of_find?_eq_some hf
      have := List.find?_some hf
      simp at this
      refine h s hmem ⟨this.1, ?_⟩
      rcases this.2 with h2 | h2
      · left; simpa using h2
      · right; simpa using h2
    · rfl

/-- Layout dispatch: no database, or both layouts, is `database_not_found`;
otherwise the outcome is determined by detection alone. -/
theorem C13_layout (a b c : Int) (m : Bool) :
    loadModel detectGen false false a b c m = .database_not_found ∧
    loadModel detectGen true true a b c m = .database_not_found ∧
    (∀ s, detectGen a b c m = .schema s → loadModel detectGen true false a b c m = .loaded s) ∧
    (detectGen a b c m = .unsupported →
      loadModel detectGen true false a b c m = .unsupported_database ∧
      loadModel detectGen false true a b c m = .unsupported_database) ∧
    (∀ s, detectGen a b c m = .schema s → Schema.schema_2_18_0.ord ≤ s.ord →
      loadModel detectGen false true a b c m = .loaded s) := by
  refine ⟨rfl, rfl, ?_, ?_, ?_⟩
  · intro s h; simp [loadModel, h]
  · intro h; simp [loadModel, h]
  · intro s h hs; simp [loadModel, h, hs]

/-- create-or-load creates a library exactly when none exists (load says "not found"). -/
theorem C13_create_or_load (o : LoadOutcome) (req : Schema) :
    ((createOrLoad o req).1 = true ↔ o = .database_not_found) ∧
    (o ≠ .database_not_found → (createOrLoad o req).2 = o) := by
  cases o <;> simp [createOrLoad]

/-! ### non-vacuity -/
example : detectGen 2 21 2 false = .schema .schema_2_21_2 := by decide
example : detectGen 1 18 0 true = .schema .schema_1_18_0_desktop ∧
    detectGen 1 18 0 false = .schema .schema_1_18_0_os := by decide
example : detectGen 2 19 0 false = .unsupported ∧ detectGen 1 6 1 true = .unsupported := by decide

end EngineModel.Properties.C13
