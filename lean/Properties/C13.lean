/-
C13 — Schema and layout detection is exact.
Everything under `Gen.Detect` is regenerated from the source on every run
(tools/tr_detect.py + tr_detect_full.py) and the theorems are re-checked against it:
  `detectGen`        the nested switch of `detect_schema` (schema.cpp)
  `detectSchemaGen`  the whole of `detect_schema`: Information lookup, the three STORED 64-bit
                     numbers, the `fits_int` guard, the narrowing to `int`, then the switch
  `loadDatabaseGen`  `load_database` with `detect_is_database2`, `load_legacy_sqlite_database`,
                     `load_database2_sqlite_database`, `load_existing` (layout dispatch)
  `stampGen`         the version each schema creator stamps
  `enumGen` / `supportedGen` / `toStringGen`   the public table of engine_schema.hpp
All integer triples (unbounded `Int`, hence every stored 64-bit value), both marker values,
all sixteen presence combinations of directory / m.db / p.db / Database2/m.db.
-/
import EngineModel.Pure.Detect
import EngineModel.Gen.DetectGen

namespace EngineModel.Properties.C13
open EngineModel.Pure.Detect EngineModel.Gen.Detect

theorem mem_all (s : Schema) : s ∈ Schema.all := by cases s <;> decide

/-- Each supported (version, marker) is detected as its schema. -/
theorem detect_version (s : Schema) (m : Bool) (hm : s.marker = none ∨ s.marker = some m) :
    detectGen s.version.1 s.version.2.1 s.version.2.2 m = .schema s := by
  cases s <;> cases m <;> simp_all [Schema.marker] <;> decide

set_option maxHeartbeats 4000000 in
/-- Whatever is detected carries exactly that version and marker. -/
theorem detect_sound (a b c : Int) (m : Bool) (s : Schema) (h : detectGen a b c m = .schema s) :
    s.version = (a, b, c) ∧ (s.marker = none ∨ s.marker = some m) := by
  -- Robust against any reordering / regrouping of the `switch` cases: fix each coordinate to one
  -- of the constants of the public table (or to "none of them") and let `simp` evaluate the
  -- regenerated tree, whatever its shape.
  have ha : a = 1 ∨ a = 2 ∨ a = 3 ∨ (a ≠ 1 ∧ a ≠ 2 ∧ a ≠ 3) := by omega
  have hb : b = 0 ∨ b = 6 ∨ b = 7 ∨ b = 9 ∨ b = 11 ∨ b = 13 ∨ b = 15 ∨ b = 17 ∨ b = 18 ∨ b = 20 ∨
      b = 21 ∨ (b ≠ 0 ∧ b ≠ 6 ∧ b ≠ 7 ∧ b ≠ 9 ∧ b ≠ 11 ∧ b ≠ 13 ∧ b ≠ 15 ∧ b ≠ 17 ∧ b ≠ 18 ∧ b ≠ 20 ∧
        b ≠ 21) := by omega
  have hc : c = 0 ∨ c = 1 ∨ c = 2 ∨ c = 3 ∨ (c ≠ 0 ∧ c ≠ 1 ∧ c ≠ 2 ∧ c ≠ 3) := by omega
  rcases ha with rfl | rfl | rfl | ha <;>
  rcases hb with rfl | rfl | rfl | rfl | rfl | rfl | rfl | rfl | rfl | rfl | rfl | hb <;>
  rcases hc with rfl | rfl | rfl | rfl | hc <;>
  cases m <;>
  simp_all [detectGen, Schema.version, Schema.marker] <;>
  (subst h; simp [Schema.version, Schema.marker])

/-- Every triple is classified exactly as the public version table says. -/
theorem C13_exact (a b c : Int) (m : Bool) : detectGen a b c m = specDetect a b c m := by
  unfold specDetect
  split
  · rename_i s hf
    have hp := List.find?_some hf
    simp at hp
    obtain ⟨h1, h2⟩ := hp
    have hm : s.marker = none ∨ s.marker = some m := by
      rcases h2 with h2 | h2
      · left; simpa using h2
      · right; simpa using h2
    have := detect_version s m hm
    rw [h1] at this
    exact this
  · rename_i hn
    cases hd : detectGen a b c m with
    | unsupported => rfl
    | schema s =>
      exfalso
      obtain ⟨h1, h2⟩ := detect_sound a b c m s hd
      have := List.find?_eq_none.mp hn s (mem_all s)
      simp at this
      have h3 := this h1
      rcases h2 with h2 | h2 <;> simp_all

/-- The version each creator stamps is the version the public table lists. -/
theorem C13_stamp (s : Schema) : stampGen s = s.version := by
  cases s <;> rfl

/-- Reload: what a creator stamps is detected as that very schema (also C10, C12). -/
theorem C13_reload (s : Schema) (m : Bool) (hm : s.marker = none ∨ s.marker = some m) :
    detectGen (stampGen s).1 (stampGen s).2.1 (stampGen s).2.2 m = .schema s := by
  cases s <;> cases m <;> simp_all [Schema.marker] <;> decide

/-- A triple is rejected exactly when no supported schema carries it. -/
theorem C13_unsupported_iff (a b c : Int) (m : Bool) :
    detectGen a b c m = .unsupported ↔
      ∀ s ∈ Schema.all, ¬ (s.version = (a, b, c) ∧ (s.marker = none ∨ s.marker = some m)) := by
  rw [C13_exact]
  unfold specDetect
  constructor
  · intro h s hs hc
    split at h
    · simp at h
    · rename_i hn
      have := List.find?_eq_none.mp hn s hs
      simp at this
      obtain ⟨h1, h2⟩ := hc
      have := this h1
      rcases h2 with h2 | h2 <;> simp_all
  · intro h
    split
    · rename_i s hf
      exfalso
      have hmem := List.mem_of_find?_eq_some hf
      have := List.find?_some hf
      simp at this
      refine h s hmem ⟨this.1, ?_⟩
      rcases this.2 with h2 | h2
      · left; simpa using h2
      · right; simpa using h2
    · rfl

/-! ### the whole of `detect_schema`: stored 64-bit numbers -/

theorem fits_int_iff (v : Int) : fits_int v = true ↔ (-2147483648 ≤ v ∧ v ≤ 2147483647) := by
  unfold fits_int
  simp only [Bool.and_eq_true, decide_eq_true_eq]
  omega

theorem narrowI32_of_fits (v : Int) (h : fits_int v = true) : narrowI32 v = v := by
  rw [fits_int_iff] at h; unfold narrowI32; omega

/-- Every version in the public table is a triple of small numbers. -/
theorem spec_schema_fits (a b c : Int) (m : Bool) (s : Schema)
    (h : specDetect a b c m = .schema s) :
    fits_int a = true ∧ fits_int b = true ∧ fits_int c = true := by
  have hs : detectGen a b c m = .schema s := by rw [C13_exact]; exact h
  obtain ⟨hv, -⟩ := detect_sound a b c m s hs
  simp only [fits_int_iff]
  cases s <;> (simp only [Schema.version, Prod.mk.injEq] at hv; obtain ⟨rfl, rfl, rfl⟩ := hv; omega)

/-- **`detect_schema` is exact on the stored 64-bit numbers**: without exactly one `Information`
table it is `database_inconsistency`; otherwise the outcome is the public table's, for every
integer triple — the narrowing to `int` can never turn an unsupported triple into a supported one
(it did before `fix:` 750424b, see `C13_narrowing_counterexample`). -/
theorem C13_detect_exact (w : World) :
    detectSchemaGen w =
      if w.tableCount ≠ 1 then .error .database_inconsistency
      else (specDetect w.vMajor w.vMinor w.vPatch w.numeric).toExcept := by
  unfold detectSchemaGen detectPrefixGen
  by_cases ht : w.tableCount ≠ 1
  · simp [ht, bind, Except.bind, throw, throwThe, MonadExceptOf.throw]
  · rw [if_neg ht]
    by_cases hf : fits_int w.vMajor = true ∧ fits_int w.vMinor = true ∧ fits_int w.vPatch = true
    · obtain ⟨h1, h2, h3⟩ := hf
      simp only [ht, decide_false, h1, h2, h3, Bool.not_true, Bool.or_self, Bool.false_eq_true,
        if_false, narrowI32_of_fits, C13_exact, bind, Except.bind, pure, Except.pure]
    · have hu : specDetect w.vMajor w.vMinor w.vPatch w.numeric = .unsupported := by
        cases hd : specDetect w.vMajor w.vMinor w.vPatch w.numeric with
        | unsupported => rfl
        | schema s => exact absurd (spec_schema_fits _ _ _ _ s hd) hf
      have hc : (((!(fits_int w.vMajor)) || (!(fits_int w.vMinor))) || (!(fits_int w.vPatch))) = true := by
        cases h1 : fits_int w.vMajor <;> cases h2 : fits_int w.vMinor <;>
          cases h3 : fits_int w.vPatch <;> simp_all
      simp [ht, hc, hu, Detected.toExcept, bind, Except.bind, throw, throwThe, MonadExceptOf.throw]

/-- The guard is needed: narrowing alone identifies the stored triple (1, 6, 2^40) as schema
1.6.0 — the historical misidentification (replayed on the library before `fix:` 750424b). -/
theorem C13_narrowing_counterexample :
    detectGen (narrowI32 1) (narrowI32 6) (narrowI32 1099511627776) false = .schema .schema_1_6_0 ∧
    detectSchemaGen ⟨true, true, true, false, 1, 1, 6, 1099511627776, false⟩
      = .error .unsupported_database :=
  ⟨by decide, rfl⟩

/-! ### layout dispatch -/

/-- **Loading a directory is exactly the Spec** (`specLoad`, written from the property text):
for every presence combination and every stored triple. -/
theorem C13_load_exact (w : World) : LoadOutcome.ofExcept (loadDatabaseGen w) = specLoad w := by
  unfold loadDatabaseGen detect_is_database2 load_existing load_legacy_sqlite_database
    load_database2_sqlite_database specLoad
  rw [C13_detect_exact]
  rcases w with ⟨de, l, p, d, tc, a, b, c, m⟩
  cases de <;> cases l <;> cases p <;> cases d <;>
    simp [bind, Except.bind, pure, Except.pure, throw, throwThe, MonadExceptOf.throw,
      LoadOutcome.ofExcept] <;>
    (by_cases ht : tc = 1 <;> simp [ht, LoadOutcome.ofExcept]) <;>
    (cases hd : specDetect a b c m <;> simp [Detected.toExcept, LoadOutcome.ofExcept]) <;>
    (rename_i s; cases s <;> simp [Schema.ord, Schema.version, LoadOutcome.ofExcept])

/-- The layout conjuncts, spelled out (corollaries of `C13_load_exact`):
no directory, no database, or both layouts → `database_not_found`;
a legacy library without `p.db`, or an `m.db` without exactly one `Information` table →
`database_inconsistency`; otherwise detection alone decides — except that a Database2 directory
stamped with a 1.x version is refused with `database_inconsistency`, while a legacy directory
stamped 2.x / 3.x loads with that schema (the asymmetry is the code's; neither returns a schema
other than the table's). -/
theorem C13_layout (w : World) :
    (w.dirExists = false → LoadOutcome.ofExcept (loadDatabaseGen w) = .database_not_found) ∧
    (w.legacy = false → w.db2 = false →
      LoadOutcome.ofExcept (loadDatabaseGen w) = .database_not_found) ∧
    (w.legacy = true → w.db2 = true →
      LoadOutcome.ofExcept (loadDatabaseGen w) = .database_not_found) ∧
    (w.dirExists = true → w.legacy = true → w.db2 = false → w.pdb = false →
      LoadOutcome.ofExcept (loadDatabaseGen w) = .database_inconsistency) ∧
    (w.dirExists = true → w.legacy ≠ w.db2 → (w.legacy = true → w.pdb = true) → w.tableCount ≠ 1 →
      LoadOutcome.ofExcept (loadDatabaseGen w) = .database_inconsistency) ∧
    (w.dirExists = true → w.legacy ≠ w.db2 → (w.legacy = true → w.pdb = true) → w.tableCount = 1 →
      specDetect w.vMajor w.vMinor w.vPatch w.numeric = .unsupported →
      LoadOutcome.ofExcept (loadDatabaseGen w) = .unsupported_database) ∧
    (∀ s, w.dirExists = true → w.legacy = true → w.db2 = false → w.pdb = true → w.tableCount = 1 →
      specDetect w.vMajor w.vMinor w.vPatch w.numeric = .schema s →
      LoadOutcome.ofExcept (loadDatabaseGen w) = .loaded s) ∧
    (∀ s, w.dirExists = true → w.legacy = false → w.db2 = true → w.tableCount = 1 →
      specDetect w.vMajor w.vMinor w.vPatch w.numeric = .schema s →
      LoadOutcome.ofExcept (loadDatabaseGen w) =
        if 2 ≤ s.version.1 then .loaded s else .database_inconsistency) := by
  rw [C13_load_exact]
  rcases w with ⟨de, l, p, d, tc, a, b, c, m⟩
  unfold specLoad
  refine ⟨?_, ?_, ?_, ?_, ?_, ?_, ?_, ?_⟩
  · intro h; simp_all
  · intro h1 h2; cases de <;> simp_all
  · intro h1 h2; cases de <;> simp_all
  · intro h1 h2 h3 h4; simp_all
  · intro h1 h2 h3 h4
    cases de <;> cases l <;> cases d <;> cases p <;> simp_all
  · intro h1 h2 h3 h4 h5
    cases de <;> cases l <;> cases d <;> cases p <;> simp_all
  · rintro s rfl rfl rfl rfl rfl h; simp [h]
  · rintro s rfl rfl rfl rfl h
    simp only [h]
    by_cases hv : 2 ≤ s.version.1
    · simp [hv]
    · simp [hv]

/-- **No version is ever identified as another one**, on the whole load path and on the stored
64-bit numbers: whatever schema `load_database` reports carries exactly the stored triple and
the stored marker. -/
theorem C13_no_misidentification (w : World) (s : Schema)
    (h : loadDatabaseGen w = .ok s) :
    s.version = (w.vMajor, w.vMinor, w.vPatch) ∧ (s.marker = none ∨ s.marker = some w.numeric) := by
  have h1 : LoadOutcome.ofExcept (loadDatabaseGen w) = .loaded s := by rw [h]; rfl
  rw [C13_load_exact] at h1
  unfold specLoad at h1
  have hd : specDetect w.vMajor w.vMinor w.vPatch w.numeric = .schema s := by
    by_cases c1 : (!w.dirExists) = true
    · rw [if_pos c1] at h1; cases h1
    rw [if_neg c1] at h1
    by_cases c2 : (!w.legacy && !w.db2) = true
    · rw [if_pos c2] at h1; cases h1
    rw [if_neg c2] at h1
    by_cases c3 : (w.legacy && w.db2) = true
    · rw [if_pos c3] at h1; cases h1
    rw [if_neg c3] at h1
    by_cases c4 : (w.legacy && !w.pdb) = true
    · rw [if_pos c4] at h1; cases h1
    rw [if_neg c4] at h1
    by_cases c5 : w.tableCount ≠ 1
    · rw [if_pos c5] at h1; cases h1
    rw [if_neg c5] at h1
    cases hd : specDetect w.vMajor w.vMinor w.vPatch w.numeric with
    | unsupported => rw [hd] at h1; cases h1
    | schema t =>
      rw [hd] at h1
      dsimp only at h1
      by_cases c6 : (w.db2 && decide (t.version.1 < 2)) = true
      · rw [if_pos c6] at h1; cases h1
      · rw [if_neg c6] at h1; cases h1; rfl
  have hs : detectGen w.vMajor w.vMinor w.vPatch w.numeric = .schema s := by rw [C13_exact]; exact hd
  exact detect_sound _ _ _ _ s hs

/-- Version and marker identify a schema: two schemas with the same version triple and the same
marker are equal (so the table is a function *and* injective). -/
theorem C13_version_marker_injective (s t : Schema)
    (hv : s.version = t.version) (hm : s.marker = t.marker) : s = t := by
  cases s <;> cases t <;> simp_all [Schema.version, Schema.marker]

/-! ### the Spec table is the public header's -/

/-- The hand-written `Schema` table (names, versions, markers) is exactly what
include/djinterop/engine/engine_schema.hpp declares now: same enumerators in the same order,
`to_string` = version triple (+ variant suffix), `supported_schemas` = all but `schema_3_0_0`.
A new enumerator, a changed version string or a changed order makes this fail. -/
theorem C13_spec_table :
    enumGen = Schema.all.map Schema.name ∧
    toStringGen = Schema.all.map (fun s => (s.name, s.versionString)) ∧
    supportedGen = (Schema.all.filter (fun s => s != .schema_3_0_0)).map Schema.name ∧
    (∀ s : Schema, s ∈ Schema.all) ∧
    Schema.all.map Schema.ord = List.range 19 := by
  refine ⟨by decide, by decide, by decide, mem_all, by decide⟩

/-- create-or-load creates a library exactly when none exists (load says "not found"). -/
theorem C13_create_or_load (o : LoadOutcome) (req : Schema) :
    ((createOrLoad o req).1 = true ↔ o = .database_not_found) ∧
    (o ≠ .database_not_found → (createOrLoad o req).2 = o) := by
  cases o <;> simp [createOrLoad]

/-! ### non-vacuity -/
example : detectGen 2 21 2 false = .schema .schema_2_21_2 := by decide
example : detectGen 1 18 0 true = .schema .schema_1_18_0_desktop ∧
    detectGen 1 18 0 false = .schema .schema_1_18_0_os := by decide
example : detectGen 2 19 0 false = .unsupported ∧ detectGen 1 6 1 true = .unsupported := by decide
/-- a Database2 directory stamped 2.21.2 loads; stamped 1.6.0 it is refused; a legacy one without
p.db is refused; both layouts at once are "not found". -/
example :
    LoadOutcome.ofExcept (loadDatabaseGen ⟨true, false, false, true, 1, 2, 21, 2, false⟩)
      = .loaded .schema_2_21_2 ∧
    LoadOutcome.ofExcept (loadDatabaseGen ⟨true, false, false, true, 1, 1, 6, 0, false⟩)
      = .database_inconsistency ∧
    LoadOutcome.ofExcept (loadDatabaseGen ⟨true, true, false, false, 1, 1, 6, 0, false⟩)
      = .database_inconsistency ∧
    LoadOutcome.ofExcept (loadDatabaseGen ⟨true, true, true, false, 1, 2, 21, 2, false⟩)
      = .loaded .schema_2_21_2 ∧
    LoadOutcome.ofExcept (loadDatabaseGen ⟨true, true, true, true, 1, 1, 6, 0, false⟩)
      = .database_not_found := by decide

end EngineModel.Properties.C13
