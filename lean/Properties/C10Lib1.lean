/-
C10 — Everything observed before closing is observed after reopening.   Whole-library part for schema 1.x (composite-v1).

`Lib.V1.reload` = release every handle, close, `load_database` on the directory: the library state is written to its two
files (`store`: m.db holds Track / MetaData / MetaDataInteger / crate tables / AlbumArt / Information, p.db holds
PerformanceData / Information), the schema is re-detected from the version stamp of m.db (the two 1.18.0 variants by the
NUMERIC marker), and each track's PerformanceData row is looked up again BY ID in the other file (`load`).  A
PerformanceData row whose id has no Track row, or two Track rows with one id, would make the reloaded library differ
from the one that was closed — that it does not is a consequence of the whole-library invariant.
Durability of what SQLite commits is not modelled here (Spec/Txn.lean `Conn.reopen`, theorems `C10_*` of Properties/C10.lean).
-/
import Proofs.Lib1Proj

namespace EngineModel.Properties.C10Lib1
open EngineModel EngineModel.Lib.V1 EngineModel.Api
open EngineModel.TracksV1 (Snap Field)
open EngineModel.TracksV1.Fl (FOps)

/-- **Reload is the identity on every state satisfying the invariant**, and reports the schema the library was created
with. -/
theorem C10_lib1_reload (s : VSchema) (L : Lib1) (h : LibInv s L) : reload s L = some (s, L) := reload_eq h

/-- **After every history, closing and loading again gives the same library and the same schema** (all eleven versions,
every history of calls incl. failed ones). -/
theorem C10_lib1_reload_after_every_history (o : FOps) (s : VSchema) (um up dir : Bytes) (cs : List Call) :
    reload s (run o s (Lib1.empty s um up dir) cs) = some (s, run o s (Lib1.empty s um up dir) cs) :=
  reload_eq (libInv_run o cs (libInv_empty s um up dir))

/-- **Everything observed before closing is observed after reopening**: every list of observing calls — any accessor of
database / crate / track on any id, handles of removed objects included — answers the same on the reloaded library. -/
theorem C10_lib1_observe_after_reload (o : FOps) (s : VSchema) (um up dir : Bytes) (cs qs : List Call) :
    ∃ L', reload s (run o s (Lib1.empty s um up dir) cs) = some (s, L') ∧
      observeAll o s L' qs = observeAll o s (run o s (Lib1.empty s um up dir) cs) qs :=
  ⟨_, C10_lib1_reload_after_every_history o s um up dir cs, rfl⟩

/-- **Closing at every prefix**: the run that reloads after every call reaches, at every prefix, the state of the
one-session run. -/
def runReload (o : FOps) (s : VSchema) : Lib1 → List Call → Option Lib1
  | L, [] => some L
  | L, c :: cs =>
    match reload s (step o s L c).1 with
    | some (_, L') => runReload o s L' cs
    | none => none

theorem C10_lib1_reload_at_every_prefix (o : FOps) (s : VSchema) (um up dir : Bytes) (cs : List Call) (n : Nat) :
    runReload o s (Lib1.empty s um up dir) (cs.take n) = some (run o s (Lib1.empty s um up dir) (cs.take n)) := by
  have key : ∀ (l : List Call) (L : Lib1), LibInv s L → runReload o s L l = some (run o s L l) := by
    intro l
    induction l with
    | nil => intro L _; rfl
    | cons c l ih =>
      intro L h
      have h' := libInv_step o h c
      unfold runReload
      rw [reload_eq h']
      exact ih _ h'
  exact key _ _ (libInv_empty s um up dir)

/-- The version-stamp clause of the invariant is needed: a library whose m.db carries the stamp of another version reloads
as that other version, and one with an unknown stamp does not load at all (`unsupported_database`). -/
theorem C10_lib1_reload_needs_invariant :
    (reload .s1_6_0 { Lib1.empty .s1_6_0 [77] [80] [] with infoM := ⟨[77], (1, 7, 1)⟩ }).map (·.1) = some .s1_7_1 ∧
    (reload .s1_6_0 { Lib1.empty .s1_6_0 [77] [80] [] with infoM := ⟨[77], (9, 9, 9)⟩ }).map (·.1) = none := by
  decide +kernel

/-- non-vacuity of `C10_lib1_reload`: the empty library of every version satisfies the invariant, and so does (by
`C11_lib1_invariant_after_every_history`) every state reached from it; a concrete reload of a populated 1.17.0 library: -/
example : ∀ s, LibInv s (Lib1.empty s [77] [80] []) := fun s => libInv_empty s _ _ _

example :
    let o : FOps := ⟨fun _ => 0, fun n => if n = 0 then 0 else F64.one, fun _ _ => 0, fun b => b⟩
    let L := run o .s1_17_0 (Lib1.empty .s1_17_0 [77] [80] [])
      [.createRootCrate [97], .createTrack { Snap.empty with relativePath := some [98] }, .addTrack 1 1,
       .createTrack { Snap.empty with relativePath := some [99] }, .removeTrack 2]
    ((reload .s1_17_0 L).map fun p => (p.1, (raw p.2) == raw L)) = some (.s1_17_0, true) ∧ (raw L).perf = [1] ∧
      (raw L).cr.track = [⟨1, true⟩, ⟨3, false⟩] := by
  decide +kernel

end EngineModel.Properties.C10Lib1
