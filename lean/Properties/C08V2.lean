/-
C08, schema 2.x — crate contents are exactly the tracks added and not removed.

Model: Db/V2Crates.lean (crate_impl::add_track / remove_track / clear_tracks / tracks,
database_impl::remove_track / remove_crate / create_track, playlist_entity_table::add_back / get / remove /
clear with the delete trigger) after the `fix:` commits listed in findings/C08_v2.json.
Spec: Spec/Members.lean (live crates, live tracks, the (crate, track) pairs; add idempotent, remove of an
absent pair a no-op, clear, track / crate removal erase).
`absM d` (Proofs/V2Abs.lean): crates = Playlist ids, tracks = Track ids, pairs = (listId, trackId) of the
PlaylistEntity rows of the library's OWN database (uuid tag 0) in row order.  `judgeM` / `specRunM`: the Spec
judge driven by the Model's own answers and the Spec forest of C07 (`membersOps` translates each API call into
Spec operations exactly as the oracle of the tie does; it reads nothing of the Model).
Histories range over `memOp`: the crate / track API, interleaved with table-level additions of entries of
OTHER databases (uuid tag ≠ 0) to any list — what other software sharing the library does; such entries may
carry the same numeric track ids as the library's own tracks and must never be confused with them.
(Table-level removals, and table-level own-uuid entries for lists / tracks that do not exist, are outside what
"added to a crate" means.)
-/
import Proofs.V2MembersQueries
import Proofs.V2ForestQueries
import Proofs.V2Run

namespace EngineModel.Properties.C08V2
open EngineModel EngineModel.Db.Chain EngineModel.Db.V2 EngineModel.Spec

/-- Refinement, one step: the membership Spec allows what the Model does, the membership state afterwards is
the abstraction of the Model state afterwards, and the invariants are kept. -/
theorem C08V2_step_refines {S : Ord} {d : Db} (h : Inv S d) (op : Db.V2.Op) (hm : memOp op = true) :
    judgeM (absM d) (absF d) op (step d op).2 = some (absM (step d op).1) ∧
    Inv (ordNext S (absF d) op (step d op).2) (step d op).1 :=
  ⟨(mstep h.mem h.pl h.ch op hm).judge, inv_step h op hm⟩

/-- Refinement, all histories: the Spec.Forest and Spec.Members judges, driven by the Model's answers only,
never object, and the states they track are exactly the abstractions of the Model's tables. -/
theorem C08V2_refines (ops : List Db.V2.Op) (hm : ops.all memOp = true) :
    specRunM Db.empty Forest.empty Members.empty ops = some (absF (run Db.empty ops), absM (run Db.empty ops)) := by
  obtain ⟨_, _, _, h⟩ := inv_hist ops hm
  exact h

/-- Invariant: every entry of the own database refers to a live crate and a live track, no (crate, database,
track) triple is stored twice, track ids are a key. -/
theorem C08V2_invariant (ops : List Db.V2.Op) (hm : ops.all memOp = true) :
    MemInv (run Db.empty ops) ∧ PairsOk (cores (run Db.empty ops).pe) := by
  obtain ⟨_, _, h, _⟩ := inv_hist ops hm
  exact ⟨h.mem, h.ch.pairs⟩

/-- crate.tracks() is exactly the Spec's contents of the crate — the tracks added and not since removed —
with no duplicates and no removed tracks (and it never meets the missing-tail undefined behaviour), whatever
entries of other databases the playlist holds besides. -/
theorem C08V2_tracks_agree (ops : List Db.V2.Op) (hm : ops.all memOp = true) (c : Int) :
    ∃ l, qTracks (run Db.empty ops) c = .ok l ∧ l.Nodup ∧
      (∀ t, t ∈ l ↔ t ∈ Members.tracksOf (absM (run Db.empty ops)) c) ∧ ∀ t ∈ l, t ∈ qAllTracks (run Db.empty ops) := by
  obtain ⟨_, _, hI, _⟩ := inv_hist ops hm
  exact qTracks_spec hI.ch hI.mem c

/-- Frame: an operation changes the membership of no pair it is not about — add_track / remove_track of
(c, t) only (c, t); clear_tracks(c) only pairs of c; remove_track(t) only pairs of t; remove_crate only pairs of
the removed crates; every other operation (incl. a foreign entry being added) none
(`touches`, Proofs/V2MembersQueries.lean). -/
theorem C08V2_frame (ops : List Db.V2.Op) (hm : ops.all memOp = true) (op : Db.V2.Op) (hop : memOp op = true)
    (p : Int × Int)
    (hp : ∀ mop ∈ membersOps (absF (run Db.empty ops)) op (step (run Db.empty ops) op).2, ¬ touches mop p) :
    p ∈ (absM (step (run Db.empty ops) op).1).pairs ↔ p ∈ (absM (run Db.empty ops)).pairs := by
  obtain ⟨_, _, hI, _⟩ := inv_hist ops hm
  exact step_frame hI op hop p hp

/-- … in particular for add_track / remove_track on (c, t): every other pair keeps its membership. -/
theorem C08V2_frame_add_remove (ops : List Db.V2.Op) (hm : ops.all memOp = true) (c t : Int) (p : Int × Int)
    (hp : p ≠ (c, t)) :
    let d := run Db.empty ops
    (p ∈ (absM (step d (.addTrack c t)).1).pairs ↔ p ∈ (absM d).pairs) ∧
    (p ∈ (absM (step d (.removeTrackFrom c t)).1).pairs ↔ p ∈ (absM d).pairs) := by
  refine ⟨C08V2_frame ops hm _ rfl p ?_, C08V2_frame ops hm _ rfl p ?_⟩ <;>
  · intro mop hmo
    simp only [membersOps, List.mem_singleton] at hmo
    subst hmo
    exact hp

/-- Adding a track that is already present is a no-op: crate::add_track returns normally and nothing changes;
at table level add_back returns the existing entity when throw_if_duplicate is off and throws (again without
effect) when it is on ("present" = same list, same track id, same database uuid `u`; the crate API always uses
the library's own uuid, tag 0). -/
theorem C08V2_add_present_noop (d : Db) (c t u : Int) (e : Row Ent) (h : peFind d c t u = some e) :
    step d (.peAddBack c t u false) = (d, .ok (some e.id)) ∧
    step d (.peAddBack c t u true) = (d, .throw .invalid_argument) ∧
    (u = 0 → plExists d c = true → t ∈ d.tracks → step d (.addTrack c t) = (d, .ok (some e.id))) := by
  refine ⟨by simp [Db.V2.step, peAddBack, h], by simp [Db.V2.step, peAddBack, h], ?_⟩
  intro hu h1 h2
  subst hu
  simp [Db.V2.step, peAddBack, h, h1, h2]

/-- Removing a track that is not in the crate is a no-op — also when an entry of ANOTHER database with the same
numeric track id is in the playlist. -/
theorem C08V2_remove_absent_noop (d : Db) (c t : Int) (h : peFind d c t 0 = none) :
    step d (.removeTrackFrom c t) = (d, .ok none) := by
  simp [Db.V2.step, h]

/-- crate::remove_track removes the library's OWN entry for the track, never an entry of another database that
shares the numeric track id (fixed in /repo 9a475eb: the lookup ignored the database uuid): the removed row has
uuid tag 0, and every foreign entry of the playlist is still listed afterwards, in its place. -/
theorem C08V2_remove_track_spares_foreign_entries {S : Ord} {d : Db} (h : ChInv S d) (hP : PlInv d) (c t : Int) :
    ∃ rows, qEntities (step d (.removeTrackFrom c t)).1 c = .ok rows ∧
      rows = ((S.ents c).filter (fun p => !(p.2.track == t && p.2.uuid == 0))).map (fun p => (p.1, p.2.track, p.2.uuid)) := by
  have hI' := chInv_step h hP (.removeTrackFrom c t) rfl
  refine ⟨_, qEntities_eq hI' c, ?_⟩
  congr 1
  cases hg : peFind d c t 0 with
  | none =>
    have hstep : step d (.removeTrackFrom c t) = (d, .ok none) := by simp [Db.V2.step, hg]
    have hnone := h.find_none hg
    simp only [ordStep, ordNext, hstep, ordOk, hnone]
    symm
    apply List.filter_eq_self.mpr
    intro p hp
    unfold Ord.find at hnone
    have := List.find?_eq_none.mp hnone p hp
    by_cases ht : p.2.track = t
    · have hu : p.2.uuid ≠ 0 := by intro e; simp [ht, e] at this
      simp [ht, hu]
    · simp [ht]
  | some e =>
    have hstep : step d (.removeTrackFrom c t) = ({ d with pe := deleteKeyed fires d.pe c e.id }, .ok none) := by
      simp [Db.V2.step, hg]
    have hsome := h.find_some hg
    simp only [ordStep, ordNext, hstep, ordOk, hsome, setKeyE_same]
    unfold dropEnt
    apply List.filter_congr
    intro p hp
    obtain ⟨_, _, _, hev⟩ := lookup_core hg
    by_cases hid : p.1 = e.id
    · have hin : (e.id, e.val) ∈ S.ents c := by
        have hp1 := List.mem_of_find?_eq_some hsome; exact hp1
      have := pair_eq_of_fst (h.re.nodup c) hp hin hid
      rw [this]
      simp [hev]
    · have hne : ¬ (p.2.track = t ∧ p.2.uuid = 0) := by
        intro hh
        have hp2 : (fun q : Int × Ent => q.2.track == t && q.2.uuid == 0) p = true := by simp [hh.1, hh.2]
        -- the Spec's listing has at most one entry for (t, own): the one found
        obtain ⟨r, hr, e1, e2, e3⟩ := h.row_of_entry hp
        obtain ⟨hce, _, hel, _⟩ := lookup_core hg
        have := h.pairs.pair_unique (core r) (mem_cores.mpr ⟨r, hr, rfl⟩) (core e) hce (by simp [core, e2, hel])
          (by simp only [core]; rw [e3, hev]; exact ent_eq.mpr hh)
        exact hid (by rw [← e1]; exact congrArg (·.1) this)
      have h1 : (p.1 != e.id) = true := by simpa using hid
      rw [h1]
      by_cases ht : p.2.track = t
      · have hu : p.2.uuid ≠ 0 := fun e' => hne ⟨ht, e'⟩
        simp [ht, hu]
      · simp [ht]

/-- Removing a track from the library erases it from every crate; removing a crate erases the contents of the
crate and of its whole subtree. -/
theorem C08V2_removal_erases (ops : List Db.V2.Op) (hm : ops.all memOp = true) :
    let d := run Db.empty ops
    (∀ t, t ∈ qAllTracks d → ∀ c, (c, t) ∉ (absM (step d (.removeTrack t)).1).pairs) ∧
    (∀ c, qValid d c = true → ∀ x t, (x = c ∨ ∃ l, qDescendants d c = .ok l ∧ x ∈ l) →
      (x, t) ∉ (absM (step d (.removeCrate c)).1).pairs) := by
  intro d
  obtain ⟨_, _, hI, _⟩ := inv_hist ops hm
  constructor
  · intro t ht c hmem
    have hI' := inv_step hI (.removeTrack t) rfl
    obtain ⟨r, hr, _, hv, hu⟩ := mem_pairs_iff.mp hmem
    have hlive := (hI'.mem.live (core r) (mem_cores.mpr ⟨r, hr, rfl⟩) hu).2
    have hstep : (step d (.removeTrack t)).1.tracks = d.tracks.filter (· != t) := by
      have hct : d.tracks.contains t = true := List.contains_iff_mem.mpr ht
      simp only [Db.V2.step, hct, if_true]
    rw [hstep] at hlive
    simp only [core] at hlive
    have := (List.mem_filter.mp hlive).2
    simp [hv] at this
  · intro c hc x t hx hmem
    have hI' := inv_step hI (.removeCrate c) rfl
    obtain ⟨r, hr, hk, _, hu⟩ := mem_pairs_iff.mp hmem
    have hlive := (hI'.mem.live (core r) (mem_cores.mpr ⟨r, hr, rfl⟩) hu).1
    simp only [core] at hlive
    rw [hk] at hlive
    have habs := absF_removeCrate hI.pl (c := c) (by rw [← qValid_eq]; exact hc)
    rw [← absF_ids, habs] at hlive
    obtain ⟨y, hy, e⟩ := Forest.Forest.mem_ids.mp hlive
    obtain ⟨_, h2, h3⟩ := Forest.mem_removeSubtree.mp hy
    rcases hx with rfl | ⟨l, h1, hxl⟩
    · exact h2 e
    · obtain ⟨l', h1', h2'⟩ := qDescendants_eq hI.pl.wf c
      rw [h1] at h1'
      simp only [Res.ok.injEq] at h1'
      subst h1'
      have hxd : x ∈ descSet d c := (h2' x).mp hxl
      rw [e, (mem_descSet.mp hxd).2] at h3; exact absurd h3 (by simp)

/-! ### non-vacuity: ids of crates, tracks and entity rows all differ; a foreign entry shares a track id -/

def sampleOps : List Db.V2.Op :=
  [.createTrack, .createTrack, .removeTrack 1, .createTrack, .createRoot [120], .removeCrate 1, .createRoot [97],
   .createSub 2 [98], .createRoot [99], .addTrack 2 3, .addTrack 3 2, .peAddBack 3 3 7 false, .addTrack 3 3, .addTrack 3 3,
   .removeTrackFrom 3 3, .addTrack 4 2, .clearTracks 4, .addTrack 4 3]

example : sampleOps.all memOp = true := by decide
example : (absM (run Db.empty sampleOps)).pairs = [(2, 3), (3, 2), (4, 3)] := by decide
example : qTracks (run Db.empty sampleOps) 3 = .ok [2] := by decide
/-- the foreign entry (track id 3 of database 7) survived remove_track of the own track 3 -/
example : qEntities (run Db.empty sampleOps) 3 = .ok [(2, 2, 0), (3, 3, 7)] := by decide
example : (run Db.empty sampleOps).pe.map (·.id) = [1, 2, 3, 6] := by decide
example : (peFind (run Db.empty sampleOps) 3 2 0).isSome = true := by decide
example : peFind (run Db.empty sampleOps) 3 3 0 = none := by decide

end EngineModel.Properties.C08V2
