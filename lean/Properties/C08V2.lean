/-
C08, schema 2.x — crate contents are exactly the tracks added and not removed.

Model: Db/V2Crates.lean (crate_impl::add_track / remove_track / clear_tracks / tracks,
database_impl::remove_track / remove_crate / create_track, playlist_entity_table::add_back / get / remove /
clear with the delete trigger) after the `fix:` commits listed in findings/C08_v2.json.
Spec: Spec/Members.lean (live crates, live tracks, the (crate, track) pairs; add idempotent, remove of an
absent pair a no-op, clear, track / crate removal erase).
`absM d` (Proofs/V2Abs.lean): crates = Playlist ids, tracks = Track ids, pairs = (listId, trackId) of the
PlaylistEntity rows in row order.  `judgeM` / `specRunM`: the Spec judge driven by the Model's own answers,
translating each API call into Spec operations exactly as the oracle of the tie does.
Histories range over the crate / track API (`apiOp`: everything but the three table-level
playlist_entity_table operations, which can address lists and tracks that do not exist).
-/
import Proofs.V2MembersQueries

namespace EngineModel.Properties.C08V2
open EngineModel EngineModel.Db.Chain EngineModel.Db.V2 EngineModel.Spec

/-- Refinement, one step: the membership Spec allows what the Model does, the membership state afterwards is
the abstraction of the Model state afterwards, and the invariants are kept. -/
theorem C08V2_step_refines {S : Ord} {d : Db} (h : Inv S d) (op : Db.V2.Op) (hapi : apiOp op = true) :
    judgeM (absM d) d op (step d op).2 = some (absM (step d op).1) ∧ Inv (ordStep S d op) (step d op).1 :=
  ⟨(mstep h.mem h.pl h.ch op hapi).judge, inv_step h op hapi⟩

/-- Refinement, all histories of the crate / track API: the Spec.Members judge never objects, and the state it
tracks is exactly the abstraction of the Model's tables. -/
theorem C08V2_refines (ops : List Db.V2.Op) (hapi : ops.all apiOp = true) :
    specRunM Db.empty Members.empty ops = some (absM (run Db.empty ops)) :=
  specRunM_eq inv_empty ops hapi

/-- Invariant: no (crate, track) pair is stored twice, every entry refers to a live crate and a live track,
track ids are a key. -/
theorem C08V2_invariant (ops : List Db.V2.Op) (hapi : ops.all apiOp = true) :
    MemInv (run Db.empty ops) :=
  (inv_run inv_empty ops hapi).mem

/-- crate.tracks() is exactly the Spec's contents of the crate — the tracks added and not since removed —
with no duplicates and no removed tracks (and it never meets the missing-tail undefined behaviour). -/
theorem C08V2_tracks_agree (ops : List Db.V2.Op) (hapi : ops.all apiOp = true) (c : Int) :
    let d := run Db.empty ops
    ∃ l, qTracks d c = .ok l ∧ l.Nodup ∧ (∀ t, t ∈ l ↔ t ∈ Members.tracksOf (absM d) c) ∧ ∀ t ∈ l, t ∈ qAllTracks d :=
  let hI := inv_run inv_empty ops hapi
  qTracks_spec hI.ch hI.mem c

/-- Frame: an operation changes the membership of no pair it is not about — add_track / remove_track of
(c, t) only (c, t); clear_tracks(c) only pairs of c; remove_track(t) only pairs of t; remove_crate only pairs of
the removed crates; every other operation none (`touches`, Proofs/V2MembersQueries.lean). -/
theorem C08V2_frame (ops : List Db.V2.Op) (hapi : ops.all apiOp = true) (op : Db.V2.Op) (hop : apiOp op = true)
    (p : Int × Int)
    (hp : ∀ mop ∈ membersOps (run Db.empty ops) op (step (run Db.empty ops) op).2, ¬ touches mop p) :
    p ∈ (absM (step (run Db.empty ops) op).1).pairs ↔ p ∈ (absM (run Db.empty ops)).pairs :=
  step_frame (inv_run inv_empty ops hapi) op hop p hp

/-- … in particular for add_track / remove_track on (c, t): every other pair keeps its membership. -/
theorem C08V2_frame_add_remove (ops : List Db.V2.Op) (hapi : ops.all apiOp = true) (c t : Int) (p : Int × Int)
    (hp : p ≠ (c, t)) :
    let d := run Db.empty ops
    (p ∈ (absM (step d (.addTrack c t)).1).pairs ↔ p ∈ (absM d).pairs) ∧
    (p ∈ (absM (step d (.removeTrackFrom c t)).1).pairs ↔ p ∈ (absM d).pairs) := by
  refine ⟨C08V2_frame ops hapi _ rfl p ?_, C08V2_frame ops hapi _ rfl p ?_⟩ <;>
  · intro mop hm
    simp only [membersOps, List.mem_singleton] at hm
    subst hm
    exact hp

/-- Adding a track that is already present is a no-op: crate::add_track returns normally and nothing changes;
at table level add_back returns the existing entity when throw_if_duplicate is off and throws (again without
effect) when it is on ("present" = same list, same track id, same database uuid `u`; the crate API always uses
the library's own uuid, tag 0). -/
theorem C08V2_add_present_noop (d : Db) (c t u : Int) (e : Row Ent) (h : peFind d c t u = some e) :
    step d (.peAddBack c t u false) = (d, .ok (some e.id)) ∧
    step d (.peAddBack c t u true) = (d, .throw .invalid_argument) ∧
    (u = 0 → plExists d c = true → t ∈ d.tracks → step d (.addTrack c t) = (d, .ok (some e.id))) := by
  refine ⟨by simp [step, peAddBack, h], by simp [step, peAddBack, h], ?_⟩
  intro hu h1 h2
  subst hu
  simp [step, peAddBack, h, h1, h2]

/-- Removing a track that is not in the crate is a no-op. -/
theorem C08V2_remove_absent_noop (d : Db) (c t : Int) (h : peGet d c t = none) :
    step d (.removeTrackFrom c t) = (d, .ok none) := by
  simp [step, h]

/-- Removing a track from the library erases it from every crate; removing a crate erases the contents of the
crate and of its whole subtree. -/
theorem C08V2_removal_erases (ops : List Db.V2.Op) (hapi : ops.all apiOp = true) :
    let d := run Db.empty ops
    (∀ t, t ∈ qAllTracks d → ∀ c, (c, t) ∉ (absM (step d (.removeTrack t)).1).pairs) ∧
    (∀ c, qValid d c = true → ∀ x t, (x = c ∨ x ∈ qDescendants d c) → (x, t) ∉ (absM (step d (.removeCrate c)).1).pairs) := by
  intro d
  have hI := inv_run inv_empty ops hapi
  constructor
  · intro t ht c hm
    have hI' := inv_step hI (.removeTrack t) rfl
    obtain ⟨r, hr, _, hv⟩ := mem_pairs_iff.mp hm
    have hlive := (hI'.mem.live (core r) (mem_cores.mpr ⟨r, hr, rfl⟩)).2
    have hstep : (step d (.removeTrack t)).1.tracks = d.tracks.filter (· != t) := by
      have hct : d.tracks.contains t = true := List.contains_iff_mem.mpr ht
      simp only [step, hct, if_true]
    rw [hstep] at hlive
    simp only [core] at hlive
    have := (List.mem_filter.mp hlive).2
    simp [hv] at this
  · intro c hc x t hx hm
    have hI' := inv_step hI (.removeCrate c) rfl
    obtain ⟨r, hr, hk, _⟩ := mem_pairs_iff.mp hm
    have hlive := (hI'.mem.live (core r) (mem_cores.mpr ⟨r, hr, rfl⟩)).1
    simp only [core] at hlive
    rw [hk] at hlive
    have hn : (ids d.pl).Nodup := hI.ch.rk.ids_nodup
    have hstep : step d (.removeCrate c) = (plRemove d c, .ok none) := by
      simp [step, show plExists d c = true from hc]
    rw [hstep] at hlive
    have habs := absF_plRemove hn hI.ch.rk.id_pos (plExists_iff.mp hc)
    rw [← absF_ids, habs] at hlive
    obtain ⟨y, hy, e⟩ := Forest.Forest.mem_ids.mp hlive
    obtain ⟨_, h2, h3⟩ := Forest.mem_removeSubtree.mp hy
    rcases hx with rfl | hx
    · exact h2 e
    · rw [e, (mem_descendantIds.mp hx).2] at h3; exact absurd h3 (by simp)

/-! ### non-vacuity: ids of crates, tracks and entity rows all differ -/

def sampleOps : List Db.V2.Op :=
  [.createTrack, .createTrack, .removeTrack 1, .createTrack, .createRoot [120], .removeCrate 1, .createRoot [97],
   .createSub 2 [98], .createRoot [99], .addTrack 2 3, .addTrack 3 2, .addTrack 3 3, .addTrack 3 3, .removeTrackFrom 3 3,
   .addTrack 4 2, .clearTracks 4, .addTrack 4 3]

example : sampleOps.all apiOp = true := by decide
example : (absM (run Db.empty sampleOps)).pairs = [(2, 3), (3, 2), (4, 3)] := by decide
example : qTracks (run Db.empty sampleOps) 3 = .ok [2] := by decide
example : (run Db.empty sampleOps).pe.map (·.id) = [1, 2, 5] := by decide
example : (peGet (run Db.empty sampleOps) 3 2).isSome = true := by decide
example : peGet (run Db.empty sampleOps) 3 3 = none := by decide

end EngineModel.Properties.C08V2
