/-
Property C15 (no public call has undefined behaviour or fails to terminate), part
"schema-2.x table API": `track_table`, `playlist_table`, `playlist_entity_table`
(`EngineModel/Table/{Track,Lists}.lean`, statements regenerated from the source).

  * `track_table`: no operation has a `ub` outcome on any state reachable through
    the API, whatever its arguments (the only `ub` source, `to_time_point` of a
    stored timestamp, is excluded by the column invariant of `TDb.Wf`).
  * `playlist_entity_table`: add_back / remove / clear / get never have a `ub`
    outcome; `get_for_list` has one exactly in the missing-tail situation
    (recorded finding C09 v2-entity-nonpositive-track-not-relinked).
  * `playlist_table`: the statement "every call terminates on every reachable
    state" is FALSE of the code — counterexample theorems below (a parent cycle
    is creatable through `update` and through `add`, after which the recursive
    views of the schema never finish).  Recorded finding
    C15 tableapi-playlist-parent-cycle-nontermination.
-/
import Properties.C18

namespace EngineModel.Properties.C15TableApi
open EngineModel EngineModel.Table EngineModel.Properties.C18

/-- **track_table, all arguments, all reachable states, all seven schemas.** -/
theorem C15_tableapi_track_no_ub (s : Schema2) :
    ∃ st, genStmts s = some st ∧
      ∀ (uuid : Val) (clock : Int), uuidTyped uuid = true → in64 (clock * 1000000000) = true →
      ∀ (ops : List TOp), (∀ op ∈ ops, wtOp op) → ∀ (u : Ub),
        let d := tRun s st { TDb.empty with uuid := uuid, clock := clock } ops
        (∀ r, (tAdd st d r).2 ≠ .ub u) ∧ (∀ r, (tUpdate s st d r).2 ≠ .ub u) ∧
        (∀ i, (tRemove st d i).2 ≠ .ub u) ∧ (∀ f i v, (tSetc s st d f i v).2 ≠ .ub u) ∧
        (∀ i, tGet st d i ≠ .ub u) ∧ (∀ f i, tGetc s st d f i ≠ .ub u) := by
  obtain ⟨st, h1, h2⟩ := C18_track_bindings_aligned s
  refine ⟨st, h1, ?_⟩
  intro uuid clock hu hclk ops hops u d
  exact C18_track_no_ub h2 (wf_run h2 (TDb.empty_wf uuid clock hu hclk) ops hops) u

/-- An aligned entity SELECT reads any row without `ub`: its members are integers and a string. -/
theorem readRow_entity_no_ub {sel : List (RB ECol EField)} (h : alignedR eSpec (fun _ => true) sel = true)
    (raw : Raw ECol) : ∃ g, readRow raw sel = .ok g := by
  apply readRow_of_all
  intro b hb
  rw [alignedR_src h hb]
  simp only [expectedSrc, if_true, readSrc, eSpec_colOf, eSpec_tyOf]
  cases b.field <;> exact ⟨_, rfl⟩

/-- **playlist_entity_table.**  On every state and for all arguments: `add_back`,
`remove`, both `get`s have no `ub` outcome; `get_for_list` has one only when the
list has entities none of which is a tail. -/
theorem C15_tableapi_entity_no_ub {st : LStmts} (ha : alignedL st = true) (d : LDb) (u : Ub) :
    (∀ r dup, (eAddBack st d r dup).2 ≠ .ub u) ∧ (∀ l e, (eRemove st d l e).2 ≠ .ub u) ∧
    (∀ l t, eGet st d l t ≠ .ub u) ∧ (∀ l t w, eGet3 st d l t w ≠ .ub u) ∧
    (∀ l, eGetForList st d l = .ub u →
      (d.pe.filter (fun x => x .listId == .int l)) ≠ [] ∧
      ∃ rows, readRows st.eSelList (d.pe.filter (fun x => x .listId == .int l)) = .ok rows ∧ mapFind rows 0 = none) := by
  have hext := alignedL_ext ha
  have hcore := alignedL_core ha
  simp only [alignedLcore, Bool.and_eq_true] at hcore
  simp only [alignedLext, Bool.and_eq_true] at hext
  obtain ⟨⟨⟨⟨⟨⟨⟨⟨⟨_, _⟩, _⟩, _⟩, _⟩, _⟩, _⟩, hesel⟩, _⟩, _⟩ := hcore
  refine ⟨?_, ?_, ?_, ?_, ?_⟩
  · intro r dup
    unfold eAddBack
    split
    · simp
    · split
      · split
        · split <;> simp
        · cases he : evalParams r st.eIns with
          | throw e => simp
          | ub u' => exact absurd he (evalParams_no_ub u')
          | ok ps => simp only; split <;> simp
      · simp
  · intro l e
    unfold eRemove
    split
    · first | (split <;> simp) | simp
    · simp
  · intro l t
    unfold eGet
    cases lastByUuid (d.pe.filter (fun x => x .listId == .int l && x .trackId == .int t)) with
    | none => simp
    | some raw =>
      obtain ⟨g, hg⟩ := readRow_entity_no_ub hesel raw
      simp [hg]
  · intro l t w
    unfold eGet3
    cases lastByUuid (d.pe.filter (fun x => x .listId == .int l && x .trackId == .int t && x .databaseUuid == .text w)) with
    | none => simp
    | some raw =>
      obtain ⟨g, hg⟩ := readRow_entity_no_ub hext.1.1 raw
      simp [hg]
  · intro l h
    unfold eGetForList at h
    cases hr : readRows st.eSelList (d.pe.filter (fun x => x .listId == .int l)) with
    | throw e => rw [hr] at h; cases h
    | ub u' =>
      -- the per-row reads cannot be `ub`
      exfalso
      have : ∀ raws : List (Raw ECol), ∃ gs, readRows st.eSelList raws = .ok gs := by
        intro raws
        induction raws with
        | nil => exact ⟨[], rfl⟩
        | cons x xs ih =>
          obtain ⟨g, hg⟩ := readRow_entity_no_ub hext.1.2 x
          obtain ⟨gs, hgs⟩ := ih
          exact ⟨g :: gs, by simp [readRows, hg, hgs]⟩
      obtain ⟨gs, hgs⟩ := this (d.pe.filter (fun x => x .listId == .int l))
      rw [hgs] at hr; cases hr
    | ok rows =>
      rw [hr] at h
      cases rows with
      | nil => cases h
      | cons r0 rest =>
        simp only at h
        cases hm : mapFind (r0 :: rest) 0 with
        | some tail => rw [hm] at h; cases h
        | none =>
          refine ⟨?_, r0 :: rest, rfl, hm⟩
          intro hnil
          rw [hnil] at hr
          simp [readRows] at hr

/-- **Counterexample (get_for_list without a tail).**  `add_back` of a track with
id 1 and of a track with id 0 to list 1, then `remove(1, 2)`: the delete trigger
does not fire for the non-positive track id, entity 1 keeps pointing at the
deleted entity 2, and `get_for_list(1)` dereferences `end()`. -/
theorem C15_tableapi_get_for_list_counterexample :
    let d1 := (eAddBack genLStmts LDb.empty (exEntity 1 1 [97] 0) false).1
    let d2 := (eAddBack genLStmts d1 (exEntity 1 0 [97] 0) false).1
    let d3 := (eRemove genLStmts d2 1 2)
    d3.2 = .ok () ∧
    (match eGetForList genLStmts d3.1 1 with
     | .ub .oob_read => true
     | _ => false) = true := by
  decide

/-- **Counterexample (parent cycle through `update`).**  Playlists A (id 1) and
B (id 2, child of A); `update` makes A a child of B — accepted; afterwards
`add` of any persisted playlist and `remove` of any playlist never terminate
(the recursive views PlaylistAllParent / PlaylistAllChildren run for the whole
table).  Replayed on the real library: corpus/C15/tableapi_parent_cycle_*.txt. -/
theorem C15_tableapi_parent_cycle_counterexample :
    let d1 := (pAdd genLStmts LDb.empty (exPlaylist [65] 0 0 0 false)).1
    let d2 := (pAdd genLStmts d1 (exPlaylist [66] 1 0 0 false)).1
    let upd := pUpdate genLStmts d2 (fun f => if f = .id then .int 1 else exPlaylist [65] 2 0 0 false f)
    upd.2 = .ok () ∧
    (pAdd genLStmts upd.1 (exPlaylist [67] 0 0 0 true)).2 = .ub .nontermination ∧
    (pRemove genLStmts upd.1 2).2 = .ub .nontermination := by
  decide

/-- **Counterexample (self-parent through `add`).**  On the empty table, `add` of a
persisted playlist whose `parent_list_id` is the id the row will receive (1)
never terminates: the insert trigger walks the parents of the new row. -/
theorem C15_tableapi_self_parent_counterexample :
    (pAdd genLStmts LDb.empty (exPlaylist [65] 1 0 0 true)).2 = .ub .nontermination := by
  decide

end EngineModel.Properties.C15TableApi
