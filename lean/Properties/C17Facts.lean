/-
C17 — the accepting side and the per-version statement, decided inside the kernel on facts
regenerated every run (`EngineModel/Gen/CatalogFacts.lean`, emitted by tools/props/C17.py from
the catalogs read back from the libraries the real code created and from the hydrated
reference dumps; not part of the default build: built on demand by the tie, cached by lake
while the facts do not change).

  * `created_accepted`    every version's extracted expectation tables (Gen/ValidatorTables)
                          accept the catalog that version's creator creates, and that catalog
                          is well formed;
  * `references_accepted` they accept every reference catalog of their version;
  * `C17_created_complete`   hence (bridge theorem) they reject every applicable single-element
                          mutation of the created catalog — the property, per version and file;
  * `C17_references_structure`  and every reference catalog has the structure of the created one.
-/
import EngineModel.Gen.CatalogFacts
import Properties.C17Tables

namespace EngineModel.Properties.C17Facts
open EngineModel.Spec.Catalog EngineModel.Spec.Validator EngineModel.Spec.SchemaDump
open EngineModel.Gen.ValidatorTables EngineModel.Gen.CatalogFacts

set_option maxRecDepth 1000000

/-- A fact `(k, j)`: the catalog `dumps[j]`, read for the database file of entry `k` of
`ValidatorTables.all`, is well formed and accepted by that entry's tables. -/
noncomputable def acceptOk (facts : List (Nat × Nat)) : Bool :=
  facts.all fun f =>
    match all[f.1]?, dumps[f.2]? with
    | some e, some d => wf (ofDump d e.2.1) && verifyDb e.2.2 (ofDump d e.2.1)
    | _, _ => false

theorem created_accepted : acceptOk createdFacts = true := by decide +kernel

theorem references_accepted : acceptOk referenceFacts = true := by decide +kernel

/-- every extracted table (every version, every database file) has its created catalog among the facts -/
theorem created_cover : ((List.range all.length).all fun k => createdFacts.any fun f => f.1 == k) = true := by
  decide +kernel

theorem acceptOk_mem {facts : List (Nat × Nat)} (h : acceptOk facts = true) {f : Nat × Nat} (hf : f ∈ facts)
    {e : String × List Char × DbExp} {d : Dump} (he : all[f.1]? = some e) (hd : dumps[f.2]? = some d) :
    wf (ofDump d e.2.1) = true ∧ verifyDb e.2.2 (ofDump d e.2.1) = true := by
  have := (List.all_eq_true.1 h) f hf
  simp only [he, hd, Bool.and_eq_true] at this
  exact this

/-- **C17 per schema version and database file, for the catalog the real creator creates**:
the version's own expectation tables reject every applicable single-element mutation of it. -/
theorem C17_created_complete {f : Nat × Nat} (hf : f ∈ createdFacts)
    {e : String × List Char × DbExp} {d : Dump} (he : all[f.1]? = some e) (hd : dumps[f.2]? = some d)
    (m : Mutation) (happ : applicable m (ofDump d e.2.1) = true) :
    verifyDb e.2.2 (apply m (ofDump d e.2.1)) = false := by
  obtain ⟨hwf, hacc⟩ := acceptOk_mem created_accepted hf he hd
  exact C17Tables.C17_tables_complete (List.mem_of_getElem? he) _ m hwf hacc happ

/-- The accepting side: every reference catalog of a version is accepted, and has exactly
the structure of the catalog that version's creator creates. -/
theorem C17_references_structure {f g : Nat × Nat} (hf : f ∈ referenceFacts) (hg : g ∈ createdFacts)
    (hk : f.1 = g.1) {e : String × List Char × DbExp} {d d' : Dump}
    (he : all[g.1]? = some e) (hd : dumps[g.2]? = some d) (hd' : dumps[f.2]? = some d') :
    sameCat (ofDump d e.2.1) (ofDump d' e.2.1) = true := by
  obtain ⟨hwf, hacc⟩ := acceptOk_mem created_accepted hg he hd
  obtain ⟨_, hacc'⟩ := acceptOk_mem references_accepted hf (hk ▸ he) hd'
  exact C17Tables.C17_tables_unique (List.mem_of_getElem? he) _ _ hwf hacc hacc'

/-- non-vacuity -/
example : createdFacts ≠ [] ∧ referenceFacts ≠ [] := by decide +kernel

end EngineModel.Properties.C17Facts
