/-
C15, schema 2.x tracks — "every public operation invoked with any argument
values on any state reachable through the API either completes or throws an
exception derived from std::exception; it never invokes undefined behaviour".

Model: `Api.C15TracksV2.step` = one dispatcher over `Db.create` / `Db.update` /
`Db.snapshot` / `Db.set` and the per-column getters of `EngineModel/TracksV2`
(every getter and setter incl. the per-slot accessors at ANY `int` index,
create / update with ANY snapshot) plus `remove` / `is_valid` / handle copy /
`id()`.  The `ub` outcomes this model can produce at all: `oob_index`
(`quick_cues[index]`, `loops[index]`, the waveform resampling loop) and
`signed_overflow` (`length * 1000` in `duration()` / `snapshot()`).  Casts of
doubles (`bpm`, sample rate) are guarded in the code after the `fix:` commits
and modelled as the guards (`toI64 … = none` → absent / `invalid_track_snapshot`).

`ops : FOps` (double arithmetic whose results never reach a snapshot) is
arbitrary: nothing is assumed of it.  `dbOk` = "every stored `length` scales
back to milliseconds inside int64"; it holds of the empty table and is kept by
every operation, hence on every reachable state.
-/
import Proofs.NoUbTracksV2
import Proofs.NoUbGuardsV2
import Proofs.NoUbStaleTracksV2

namespace EngineModel.Properties.C15TracksV2
open EngineModel EngineModel.TracksV2 EngineModel.Api.C15TracksV2 EngineModel.Api.GuardedTracksV2

/-- No operation, with any arguments, has undefined behaviour on a table whose rows satisfy the invariant. -/
theorem v2t_C15_no_ub (ops : FOps) (s : Schema) (db : Db) (hd : dbOk db = true) (op : Op) (u : Ub) :
    (step ops s db op).2 ≠ .ub u :=
  step_defined ops s db hd op u

/-- Every operation keeps the invariant (whether it returns or throws). -/
theorem v2t_C15_invariant (ops : FOps) (s : Schema) (db : Db) (hd : dbOk db = true) (op : Op) :
    dbOk (step ops s db op).1 = true :=
  step_dbOk ops s db hd op

theorem v2t_C15_empty : dbOk Db.empty = true := rfl

/-- **Reachable states**: along any script of operations with any arguments, started on the empty
library of any 2.x version, no call has undefined behaviour. -/
theorem v2t_C15_reachable_no_ub (ops : FOps) (s : Schema) (l : List Op) :
    ∀ r ∈ outcomes ops s Db.empty l, ∀ u, r ≠ .ub u :=
  fun r hr u => outcomes_defined ops s l Db.empty rfl r hr u

/-- Every setter, with any value and any slot index, on ANY row (no invariant): a new row or an exception. -/
theorem v2t_C15_setter_any_row (ops : FOps) (σ : Setter) (r : Row) (u : Ub) : applySetter ops σ r ≠ .ub u :=
  applySetter_defined ops σ r u

/-- The per-slot getters at any `int` index on ANY row. -/
theorem v2t_C15_slot_any_index (r : Row) (i : UInt32) (u : Ub) :
    getHotCueAt r i ≠ .ub u ∧ getLoopAt r i ≠ .ub u :=
  ⟨getHotCueAt_defined r i u, getLoopAt_defined r i u⟩

/-- create_track / update with any snapshot (over-long lists and labels, absent optionals, a waveform
without sample count / rate, doubles of any bit pattern): a stored row or an exception. -/
theorem v2t_C15_write_any_snapshot (ops : FOps) (s : Schema) (x : Snap) (u : Ub) : writeStore ops s x ≠ .ub u :=
  writeStore_defined ops s x u

/-- What every call through a handle whose track is not (or no longer) in the library does. -/
theorem stale_calls (ops : FOps) (s : Schema) (db' : Db) (id : Nat) (hg' : db'.get id = none) :
    (step ops s db' (.isValid id)).2 = .ok (.bool false) ∧
    (step ops s db' (.handleId id)).2 = .ok (.id id) ∧ (step ops s db' (.handleCopy id)).2 = .ok (.id id) ∧
    (∀ g, (step ops s db' (.get id g)).2 = .throw .runtime_error) ∧
    (∀ σ, (step ops s db' (.set id σ)).2 = .throw .runtime_error) ∧
    (step ops s db' (.snapshot id)).2 = .throw (.dj "track_deleted") ∧
    (step ops s db' (.remove id)).2 = .throw .invalid_argument ∧
    (∀ x u, (step ops s db' (.update id x)).2 ≠ .ub u) := by
  refine ⟨?_, rfl, rfl, ?_, ?_, ?_, ?_, ?_⟩
  · simp only [step, isValid, hg']; rfl
  · intro g; simp only [step, hg']
  · intro σ; simp only [step, Db.set, hg', lift]
  · simp only [step, Db.snapshot, hg', lift]
  · simp only [step, remove, isValid, hg', lift]; rfl
  · intro x u
    simp only [step, hg']
    exact lift_defined _ _ _ (update_defined ops s db' id x) u

/-- **Stale handles, one step** (any table): right after `remove_track` the handle reports
`is_valid() = false`; `id()`, copying, assigning and destroying it succeed (they touch no library state:
a handle is its id — no model content; AddressSanitizer watches them in the tie); getters and setters throw,
`snapshot()` throws `track_deleted`, removing it again throws, `update` never has undefined behaviour. -/
theorem v2t_C15_stale_handle_one_step (ops : FOps) (s : Schema) (db : Db) (id : Nat) :
    let db' := (step ops s db (.remove id)).1
    (step ops s db' (.isValid id)).2 = .ok (.bool false) ∧
    (step ops s db' (.handleId id)).2 = .ok (.id id) ∧ (step ops s db' (.handleCopy id)).2 = .ok (.id id) ∧
    (∀ g, (step ops s db' (.get id g)).2 = .throw .runtime_error) ∧
    (∀ σ, (step ops s db' (.set id σ)).2 = .throw .runtime_error) ∧
    (step ops s db' (.snapshot id)).2 = .throw (.dj "track_deleted") ∧
    (step ops s db' (.remove id)).2 = .throw .invalid_argument ∧
    (∀ x u, (step ops s db' (.update id x)).2 ≠ .ub u) := by
  have hg : (step ops s db (.remove id)).1.get id = none := by
    simp only [step, lift_fst]; exact get_after_remove db id
  exact stale_calls ops s _ id hg

/-- **Stale handles, along every later history**: once `remove_track` of a stored track has succeeded on a
table whose ids are below the AUTOINCREMENT counter (`IdInv`: true of the empty library, kept by every
operation), then after ANY further operations — creations included — the handle still reports
`is_valid() = false` and every call through it answers as in the one-step theorem: `Track.id` is
AUTOINCREMENT, the id is never issued again. -/
theorem v2t_C15_stale_handle (ops : FOps) (s : Schema) (db : Db) (hI : IdInv db) (id : Nat)
    (hv : isValid db id = true) (l : List Op) :
    let db' := run ops s (step ops s db (.remove id)).1 l
    (step ops s db' (.isValid id)).2 = .ok (.bool false) ∧
    (step ops s db' (.handleId id)).2 = .ok (.id id) ∧ (step ops s db' (.handleCopy id)).2 = .ok (.id id) ∧
    (∀ g, (step ops s db' (.get id g)).2 = .throw .runtime_error) ∧
    (∀ σ, (step ops s db' (.set id σ)).2 = .throw .runtime_error) ∧
    (step ops s db' (.snapshot id)).2 = .throw (.dj "track_deleted") ∧
    (step ops s db' (.remove id)).2 = .throw .invalid_argument ∧
    (∀ x u, (step ops s db' (.update id x)).2 ≠ .ub u) :=
  stale_calls ops s _ id (get_none_of_absent (tgone_run ops s l (tgone_after_remove ops s hI hv)).absent)

/-- … in particular after any script from the empty library of any 2.x version. -/
theorem v2t_C15_stale_handle_reachable (ops : FOps) (s : Schema) (l1 : List Op) (id : Nat)
    (hv : isValid (run ops s Db.empty l1) id = true) (l2 : List Op) :
    (step ops s (run ops s (step ops s (run ops s Db.empty l1) (.remove id)).1 l2) (.isValid id)).2 = .ok (.bool false) :=
  (v2t_C15_stale_handle ops s _ (idInv_run ops s l1 idInv_empty) id hv l2).1

/-- The invariant of `v2t_C15_no_ub` is needed (registered): a stored `length` that does not scale back to
milliseconds inside `int64_t` — not writable through the API — makes `duration()` and `snapshot()` overflow. -/
theorem v2t_C15_duration_overflow_counterexample :
    readDuration 9223372036854775807 = .ub .signed_overflow ∧
    (∀ r : Row, r.length = 9223372036854775807 → rowOk r = false) := by
  refine ⟨by decide +kernel, ?_⟩
  intro r hr
  unfold rowOk
  rw [hr]
  decide +kernel

def exOps : FOps := ⟨fun _ => 0, fun _ => 0, fun _ _ => 0⟩

def exSnap : Snap :=
  { Snap.empty with
    relativePath := some [97, 46, 109, 112, 51], title := some [65],
    duration := some 9223372036854775807, lastPlayedAt := some 9223372036854775808,
    hotCues := [some ⟨[97], 0x40c3880000000000, ⟨255, 1, 2, 3⟩⟩],
    sampleCount := some 100000, sampleRate := some 0x40e5888000000000,
    waveform := [⟨1, 2, 3, 4, 5, 6⟩] }

/-- a table with one track whose stored length is extreme -/
def exDb : Db := (step exOps .s2_21_2 Db.empty (.create exSnap)).1

/-! ### the guards, taken from the source

`GuardedTracksV2.stepG` is the dispatcher with every `v[index]`, `*optional`, double→int64 conversion and
division of track_impl.cpp / convert_*.hpp / track_utils.hpp as a possible `ub` behind the guard the C++
source has — the guard conditions (`Gen.C15Guards`) and the extents arithmetic (`Gen.TrackUtils`) are
regenerated from the source on every run, so these theorems are re-checked against the code as it is. -/

/-- **The guarded dispatcher is the dispatcher, and never `ub`**: with the guards of the source no site of
the 2.x track call paths is reached outside its domain — for any arguments, on any table (equality), and
the outcome is a value or an exception on a table that satisfies the invariant. -/
theorem v2t_C15_guarded_step (ops : FOps) (s : Schema) (db : Db) (op : Op) :
    stepG ops s db op = step ops s db op ∧ (dbOk db = true → ∀ u, (stepG ops s db op).2 ≠ .ub u) :=
  ⟨stepG_eq ops s db op, fun hd u => stepG_defined ops s db hd op u⟩

/-- … along any script from the empty library of any 2.x version. -/
theorem v2t_C15_guarded_reachable_no_ub (ops : FOps) (s : Schema) (l : List Op) :
    ∀ r ∈ outcomesG ops s Db.empty l, ∀ u, r ≠ .ub u := by
  rw [outcomesG_eq]
  exact v2t_C15_reachable_no_ub ops s l

/-- The sites themselves, for ANY arguments and ANY stored row: the per-slot accessors at any `int` index
(range test, then `v[index]`), `convert::write::waveform` (optional dereferences, `static_cast<int64_t>`,
the extents division, the resampling index) and `convert::write::bpm` (the cast). -/
theorem v2t_C15_sites (ops : FOps) (r : Row) (i : UInt32) (σ : Setter) (x : Snap) :
    getHotCueAtG Guards.source r i = getHotCueAt r i ∧ getLoopAtG Guards.source r i = getLoopAt r i ∧
    setSiteG Guards.source r σ = .ok () ∧ snapSiteG Guards.source ops x = .ok () :=
  ⟨getHotCueAtG_eq r i, getLoopAtG_eq r i, setSiteG_ok r σ, snapSiteG_ok ops x⟩

/-- **The whole public alphabet** of `database` / `track` over this model — the operations above plus
`database::tracks`, `track_by_id`, `tracks_by_relative_path` (`*id_maybe` behind its regenerated guard) and
the four calls without model content (`uuid`, `version_name`, `directory`, `verify`: outcome `ok`, exercised
by the tie only) — along any script from the empty library of any 2.x version: never `ub`. -/
theorem v2t_C15_all_calls_no_ub (ops : FOps) (s : Schema) (l : List Call) :
    ∀ r ∈ callOutcomes ops s Db.empty l, ∀ u, r ≠ .ub u :=
  callOutcomes_defined ops s l Db.empty rfl

/-- Each guard is needed — what a regression of the C++ does to the model: with the slot test weakened
to `index > size` (the defect repaired by `fix:` dd4c9ca) index 8 reads past the eight slots; without the
`!sample_count || !sample_rate` test a waveform without a rate dereferences an empty optional; without the
range test on the rate an infinite rate is cast; with the `bpm` range test dropped a huge BPM is cast. -/
theorem v2t_C15_guard_dropped_counterexample :
    let weak : Int → Nat → Bool := fun index size => decide (index < 0) || decide (index % 4294967296 > (size : Int))
    (stepGW { Guards.source with hotCueAt := weak } exOps .s2_21_2 exDb (.get 1 (.hotCueAt 8))).2 = .ub .oob_index ∧
    (stepGW { Guards.source with setLoopAt := weak } exOps .s2_21_2 exDb (.set 1 (.loopAt 8 none))).2 = .ub .oob_index ∧
    (stepGW { Guards.source with waveAbsent := fun _ _ => false } exOps .s2_21_2 exDb
      (.update 1 { exSnap with sampleRate := none })).2 = .ub .empty_optional ∧
    (stepGW { Guards.source with waveRange := fun _ => false } exOps .s2_21_2 exDb
      (.update 1 { exSnap with sampleRate := some 0x7ff0000000000000 })).2 = .ub .float_cast_range ∧
    (stepGW { Guards.source with bpmInRange := fun b _ _ => b } exOps .s2_21_2 exDb
      (.update 1 { exSnap with bpm := some 0x7fe0000000000000 })).2 = .ub .float_cast_range ∧
    -- track_utils.hpp: `qn == 0` replaced by `!(sample_rate > 0)`: a rate of 100 Hz divides by zero
    (stepGW { Guards.source with utilOvwZero := fun n _ r => n == 0 || !(F64.lt F64.zero r) } exOps .s2_21_2 exDb
      (.update 1 { exSnap with sampleRate := some 0x4059000000000000 })).2 = .ub .div_zero := by
  decide +kernel

/-! ### non-vacuity -/

example : exDb.rows.length = 1 := by decide +kernel
example : dbOk exDb = true := by decide +kernel
/-- index 8 (= the number of slots), −1, INT_MAX, INT_MIN: an exception, not an out-of-bounds access -/
example : void (step exOps .s2_21_2 exDb (.get 1 (.hotCueAt 8))).2 = .throw .out_of_range := by decide +kernel
example : void (step exOps .s2_21_2 exDb (.get 1 (.loopAt 4294967295))).2 = .throw .out_of_range := by
  decide +kernel
example : void (step exOps .s2_21_2 exDb (.set 1 (.hotCueAt 8 none))).2 = .throw .out_of_range := by
  decide +kernel
example : void (step exOps .s2_21_2 exDb (.set 1 (.loopAt 2147483648 none))).2 = .throw .out_of_range := by
  decide +kernel
example : void (step exOps .s2_21_2 exDb (.get 1 (.hotCueAt 7))).2 = .ok () := by decide +kernel
/-- nine cues, a waveform without a sample rate, a 300-byte label: exceptions -/
example : void (step exOps .s2_21_2 exDb (.set 1 (.hotCues (List.replicate 9 none)))).2 =
    .throw (.dj "hot_cues_overflow") := by decide +kernel
example : void (step exOps .s2_21_2 exDb (.update 1 { exSnap with sampleRate := none })).2 =
    .throw (.dj "invalid_track_snapshot") := by decide +kernel
example : void (step exOps .s2_21_2 exDb
    (.set 1 (.loopAt 0 (some ⟨List.replicate 300 65, 0, 0, ⟨0, 0, 0, 0⟩⟩)))).2 = .throw .invalid_argument := by
  decide +kernel
/-- the extreme duration reads back without overflow -/
example : void (step exOps .s2_21_2 exDb (.get 1 .duration)).2 = .ok () := by decide +kernel
/-- a row that violates the invariant does overflow: the hypothesis `dbOk` is needed -/
example : readDuration 9223372036854775807 = .ub .signed_overflow := by decide +kernel
/-- removing and then using the handle -/
example : void (step exOps .s2_21_2 (step exOps .s2_21_2 exDb (.remove 1)).1 (.isValid 1)).2 = .ok () := by
  decide +kernel

end EngineModel.Properties.C15TracksV2
