/-
C15, schema 2.x tracks — "every public operation invoked with any argument
values on any state reachable through the API either completes or throws an
exception derived from std::exception; it never invokes undefined behaviour".

Model: `Api.C15TracksV2.step` = one dispatcher over `Db.create` / `Db.update` /
`Db.snapshot` / `Db.set` and the per-column getters of `EngineModel/TracksV2`
(every getter and setter incl. the per-slot accessors at ANY `int` index,
create / update with ANY snapshot) plus `remove` / `is_valid` / handle copy /
`id()`.  The `ub` outcomes this model can produce at all: `oob_index`
(`quick_cues[index]`, `loops[index]`, the waveform resampling loop) and
`signed_overflow` (`length * 1000` in `duration()` / `snapshot()`).  Casts of
doubles (`bpm`, sample rate) are guarded in the code after the `fix:` commits
and modelled as the guards (`toI64 … = none` → absent / `invalid_track_snapshot`).

`ops : FOps` (double arithmetic whose results never reach a snapshot) is
arbitrary: nothing is assumed of it.  `dbOk` = "every stored `length` scales
back to milliseconds inside int64"; it holds of the empty table and is kept by
every operation, hence on every reachable state.
-/
import Proofs.NoUbTracksV2

namespace EngineModel.Properties.C15TracksV2
open EngineModel EngineModel.TracksV2 EngineModel.Api.C15TracksV2

/-- No operation, with any arguments, has undefined behaviour on a table whose rows satisfy the invariant. -/
theorem v2t_C15_no_ub (ops : FOps) (s : Schema) (db : Db) (hd : dbOk db = true) (op : Op) (u : Ub) :
    (step ops s db op).2 ≠ .ub u :=
  step_defined ops s db hd op u

/-- Every operation keeps the invariant (whether it returns or throws). -/
theorem v2t_C15_invariant (ops : FOps) (s : Schema) (db : Db) (hd : dbOk db = true) (op : Op) :
    dbOk (step ops s db op).1 = true :=
  step_dbOk ops s db hd op

theorem v2t_C15_empty : dbOk Db.empty = true := rfl

/-- **Reachable states**: along any script of operations with any arguments, started on the empty
library of any 2.x version, no call has undefined behaviour. -/
theorem v2t_C15_reachable_no_ub (ops : FOps) (s : Schema) (l : List Op) :
    ∀ r ∈ outcomes ops s Db.empty l, ∀ u, r ≠ .ub u :=
  fun r hr u => outcomes_defined ops s l Db.empty rfl r hr u

/-- Every setter, with any value and any slot index, on ANY row (no invariant): a new row or an exception. -/
theorem v2t_C15_setter_any_row (ops : FOps) (σ : Setter) (r : Row) (u : Ub) : applySetter ops σ r ≠ .ub u :=
  applySetter_defined ops σ r u

/-- The per-slot getters at any `int` index on ANY row. -/
theorem v2t_C15_slot_any_index (r : Row) (i : UInt32) (u : Ub) :
    getHotCueAt r i ≠ .ub u ∧ getLoopAt r i ≠ .ub u :=
  ⟨getHotCueAt_defined r i u, getLoopAt_defined r i u⟩

/-- create_track / update with any snapshot (over-long lists and labels, absent optionals, a waveform
without sample count / rate, doubles of any bit pattern): a stored row or an exception. -/
theorem v2t_C15_write_any_snapshot (ops : FOps) (s : Schema) (x : Snap) (u : Ub) : writeStore ops s x ≠ .ub u :=
  writeStore_defined ops s x u

/-- **Stale handles**: after a successful `remove_track`, the handle reports `is_valid() = false`;
`id()`, copying, assigning and destroying it succeed; getters and setters throw, `snapshot()` throws
`track_deleted`, removing it again throws, `update` never has undefined behaviour. -/
theorem v2t_C15_stale_handle (ops : FOps) (s : Schema) (db : Db) (id : Nat) :
    let db' := (step ops s db (.remove id)).1
    (step ops s db' (.isValid id)).2 = .ok (.bool false) ∧
    (step ops s db' (.handleId id)).2 = .ok (.id id) ∧ (step ops s db' (.handleCopy id)).2 = .ok (.id id) ∧
    (∀ g, (step ops s db' (.get id g)).2 = .throw .runtime_error) ∧
    (∀ σ, (step ops s db' (.set id σ)).2 = .throw .runtime_error) ∧
    (step ops s db' (.snapshot id)).2 = .throw (.dj "track_deleted") ∧
    (step ops s db' (.remove id)).2 = .throw .invalid_argument ∧
    (∀ x u, (step ops s db' (.update id x)).2 ≠ .ub u) := by
  have hg : (step ops s db (.remove id)).1.get id = none := by
    simp only [step, lift_fst]; exact get_after_remove db id
  intro db'
  have hg' : db'.get id = none := hg
  refine ⟨?_, rfl, rfl, ?_, ?_, ?_, ?_, ?_⟩
  · simp only [step, isValid, hg']; rfl
  · intro g; simp only [step, hg']
  · intro σ; simp only [step, Db.set, hg', lift]
  · simp only [step, Db.snapshot, hg', lift]
  · simp only [step, remove, isValid, hg', lift]; rfl
  · intro x u
    simp only [step, hg']
    exact lift_defined _ _ _ (writeStore_defined ops s x) u

/-! ### non-vacuity -/

def exOps : FOps := ⟨fun _ => 0, fun _ => 0, fun _ _ => 0⟩

def exSnap : Snap :=
  { Snap.empty with
    relativePath := some [97, 46, 109, 112, 51], title := some [65],
    duration := some 9223372036854775807, lastPlayedAt := some 9223372036854775808,
    hotCues := [some ⟨[97], 0x40c3880000000000, ⟨255, 1, 2, 3⟩⟩],
    sampleCount := some 100000, sampleRate := some 0x40e5888000000000,
    waveform := [⟨1, 2, 3, 4, 5, 6⟩] }

/-- a table with one track whose stored length is extreme -/
def exDb : Db := (step exOps .s2_21_2 Db.empty (.create exSnap)).1

example : exDb.rows.length = 1 := by decide +kernel
example : dbOk exDb = true := by decide +kernel
/-- index 8 (= the number of slots), −1, INT_MAX, INT_MIN: an exception, not an out-of-bounds access -/
example : void (step exOps .s2_21_2 exDb (.get 1 (.hotCueAt 8))).2 = .throw .out_of_range := by decide +kernel
example : void (step exOps .s2_21_2 exDb (.get 1 (.loopAt 4294967295))).2 = .throw .out_of_range := by
  decide +kernel
example : void (step exOps .s2_21_2 exDb (.set 1 (.hotCueAt 8 none))).2 = .throw .out_of_range := by
  decide +kernel
example : void (step exOps .s2_21_2 exDb (.set 1 (.loopAt 2147483648 none))).2 = .throw .out_of_range := by
  decide +kernel
example : void (step exOps .s2_21_2 exDb (.get 1 (.hotCueAt 7))).2 = .ok () := by decide +kernel
/-- nine cues, a waveform without a sample rate, a 300-byte label: exceptions -/
example : void (step exOps .s2_21_2 exDb (.set 1 (.hotCues (List.replicate 9 none)))).2 =
    .throw (.dj "hot_cues_overflow") := by decide +kernel
example : void (step exOps .s2_21_2 exDb (.update 1 { exSnap with sampleRate := none })).2 =
    .throw (.dj "invalid_track_snapshot") := by decide +kernel
example : void (step exOps .s2_21_2 exDb
    (.set 1 (.loopAt 0 (some ⟨List.replicate 300 65, 0, 0, ⟨0, 0, 0, 0⟩⟩)))).2 = .throw .invalid_argument := by
  decide +kernel
/-- the extreme duration reads back without overflow -/
example : void (step exOps .s2_21_2 exDb (.get 1 .duration)).2 = .ok () := by decide +kernel
/-- a row that violates the invariant does overflow: the hypothesis `dbOk` is needed -/
example : readDuration 9223372036854775807 = .ub .signed_overflow := by decide +kernel
/-- removing and then using the handle -/
example : void (step exOps .s2_21_2 (step exOps .s2_21_2 exDb (.remove 1)).1 (.isValid 1)).2 = .ok () := by
  decide +kernel

end EngineModel.Properties.C15TracksV2
