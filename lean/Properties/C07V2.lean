/-
C07, schema 2.x — all crate queries describe one well-formed forest.

Model: Db/V2Crates.lean (`step`, the queries `q…`): crate_impl.cpp / database_impl.cpp /
playlist_table.cpp of src/djinterop/engine/v2 with the Playlist triggers and the recursive view
PlaylistAllChildren, after the `fix:` commits listed in findings/C07_v2.json.
Spec: Spec/Forest.lean (live crates with name and optional parent; every query defined from `parent`;
`Forest.step` gives the verdict accept / reject / either for one call).
`absF d` (Proofs/V2Abs.lean): the Playlist table read as a forest (row order = creation order).
`judgeF`, `specRunF`: the Spec judge driven by the Model's own answers — the same judgement the oracle of
the tie passes on the real library's answers.
`PlInv d`: `Forest.Wf (absF d)` (ids a key and positive, parents live, parent relation ranked hence
acyclic, names valid and unique among siblings) and ids within the AUTOINCREMENT counter.
Histories range over ALL operations of the Model (crate API, track / content API, table-level entity API);
only the statements about the ordered listings root_crates() / children() need the chain invariant of C09
and therefore `ops.all okOp` (see Properties/C09.lean).
-/
import Proofs.V2ForestQueries
import Proofs.V2Run

namespace EngineModel.Properties.C07V2
open EngineModel EngineModel.Db.Chain EngineModel.Db.V2 EngineModel.Spec EngineModel.Spec.Forest

/-- Refinement, one step: on a state whose forest is well-formed, the Spec's verdict on the abstracted forest
allows what the Model does, the forest afterwards is the abstraction of the Model state afterwards, and the
invariant is kept. -/
theorem C07V2_step_refines {d : Db} (h : PlInv d) (op : Db.V2.Op) :
    judgeF (absF d) op (step d op).2 = some (absF (step d op).1) ∧ PlInv (step d op).1 :=
  ⟨judgeF_of_fstep h (fstep h.wf op), plInv_step h op⟩

/-- Refinement, all histories: the Spec.Forest judge never objects to the Model, and the forest it tracks is
exactly the abstraction of the Model's Playlist table. -/
theorem C07V2_refines (ops : List Db.V2.Op) :
    specRunF Db.empty Forest.empty ops = some (absF (run Db.empty ops)) :=
  specRunF_eq plInv_empty ops

/-- Invariant: after every history the crates form a well-formed forest; in particular no crate is its own
ancestor (acyclicity), every parent is a live crate, ids are a key. -/
theorem C07V2_forest_invariant (ops : List Db.V2.Op) :
    let f := absF (run Db.empty ops)
    Forest.Wf f ∧ (∀ x, f.isAncestor x x = false) ∧ (qCrates (run Db.empty ops)).Nodup ∧
    (∀ r ∈ (run Db.empty ops).pl, r.key = 0 ∨ r.key ∈ qCrates (run Db.empty ops)) := by
  have hI := plInv_run plInv_empty ops
  refine ⟨hI.wf, hI.wf.acyclic, by rw [qCrates_eq]; exact hI.wf.ids_nodup, ?_⟩
  intro r hr
  by_cases h0 : r.key = 0
  · exact Or.inl h0
  · right
    rw [qCrates_eq]
    exact hI.wf.parent_live (rowCrate r) (mem_crates_of_row hr) r.key (by simp [rowCrate, parentOpt_of_ne h0])

/-- Every structural query of the API is the Spec's query on the same forest: crates(), is_valid /
crate_by_id, parent(), name(), descendants(), crates_by_name, root_crate_by_name / sub_crate_by_name
(key 0 = root level), the last two having at most one candidate. -/
theorem C07V2_queries_agree (ops : List Db.V2.Op) :
    let d := run Db.empty ops
    let f := absF d
    qCrates d = f.ids ∧
    (∀ c, qValid d c = f.live c) ∧
    (∀ c, qParent d c = if f.live c then .ok (f.parentOf c) else .throw (exn "crate_deleted")) ∧
    (∀ c, qName d c = match f.nameOf c with | some n => .ok n | none => .throw (exn "crate_deleted")) ∧
    (∀ c, ∃ l, qDescendants d c = .ok l ∧ ∀ x, x ∈ l ↔ x ∈ f.descendants c) ∧
    (∀ n, qByName d n = f.byName n) ∧
    (∀ k n, qByParentName d k n = (f.byParentName (parentOpt k) n).getLast? ∧
      ∀ x ∈ f.byParentName (parentOpt k) n, ∀ y ∈ f.byParentName (parentOpt k) n, x = y) := by
  have hI := plInv_run plInv_empty ops
  exact ⟨qCrates_eq _, qValid_eq _, qParent_eq _, qName_eq _, qDescendants_eq hI.wf, qByName_eq _,
    fun k n => ⟨qByParentName_eq _ k n, byParentName_unique hI.wf _ n⟩⟩

/-- root_crates() and children(c) list exactly the Spec's roots / children (each once): the ordered listings
are permutations of `roots` / `children c`; equivalently x is listed under c iff parent(x) is c, and among
the roots iff parent(x) is absent. -/
theorem C07V2_roots_children_agree (ops : List Db.V2.Op) (hok : ops.all okOp = true) :
    let d := run Db.empty ops
    let f := absF d
    (∃ l, qRoots d = .ok l ∧ l.Perm f.roots ∧ ∀ x, x ∈ l ↔ qParent d x = .ok none) ∧
    (∀ c, c ≠ 0 → ∃ l, qChildren d c = .ok l ∧ l.Perm (f.children c) ∧ ∀ x, x ∈ l ↔ qParent d x = .ok (some c)) := by
  obtain ⟨_, _, hC⟩ := chInv_hist ops hok
  refine ⟨⟨_, walkIds_eq hC.rk 0, kids_perm_roots hC, fun x => mem_kids_iff hC 0 x⟩, ?_⟩
  intro c hc
  refine ⟨_, walkIds_eq hC.rk c, kids_perm_children hC hc, fun x => ?_⟩
  rw [mem_kids_iff hC c x, parentOpt_of_ne hc]

/-- descendants(c) — the recursive view PlaylistAllChildren, modelled by its own level-wise recursion — terminates
and is the transitive closure of the parent relation the API shows. -/
theorem C07V2_descendants_transitive_closure (ops : List Db.V2.Op) (c : Int) :
    ∃ l, qDescendants (run Db.empty ops) c = .ok l ∧
      ∀ x, x ∈ l ↔ Relation.TransGen (ParentQ (run Db.empty ops)) x c := by
  obtain ⟨l, h1, h2⟩ := qDescendants_eq (plInv_run plInv_empty ops).wf c
  exact ⟨l, h1, fun x => (h2 x).trans (mem_descSet_iff _ c x)⟩

/-- Whatever the Spec rejects (an invalid or taken name, a removed crate or parent, a re-parenting under itself
or one of its descendants) the Model rejects, and the whole state is unchanged. -/
theorem C07V2_rejected_without_effect (ops : List Db.V2.Op) (op : Db.V2.Op) (fop : Forest.Op) (hf : forestOp op = some fop)
    (hrej : ∀ n f', Forest.step (absF (run Db.empty ops)) fop n ≠ .accept f') :
    ∃ e, step (run Db.empty ops) op = (run Db.empty ops, .throw e) :=
  rejected_without_effect (plInv_run plInv_empty ops) hf hrej

/-- A re-parenting that would create a cycle is rejected with crate_invalid_parent, leaving the state unchanged. -/
theorem C07V2_cycle_rejected (ops : List Db.V2.Op) (c q : Int)
    (h : q = c ∨ ∃ l, qDescendants (run Db.empty ops) c = .ok l ∧ q ∈ l) :
    step (run Db.empty ops) (.setParent c (some q)) = (run Db.empty ops, .throw (exn "crate_invalid_parent")) := by
  have hP := plInv_run plInv_empty ops
  apply setParent_cycle_rejected hP c q
  rcases h with h | ⟨l, h1, h2⟩
  · exact Or.inl h
  · obtain ⟨l', h1', h2'⟩ := qDescendants_eq hP.wf c
    rw [h1] at h1'
    simp only [Res.ok.injEq] at h1'
    subst h1'
    exact Or.inr ((h2' q).mp h2)

/-- A re-parenting under a crate that is not (or no longer) valid is rejected, leaving the state unchanged. -/
theorem C07V2_dead_parent_rejected (ops : List Db.V2.Op) (c q : Int) (h : qValid (run Db.empty ops) q = false) :
    ∃ e, step (run Db.empty ops) (.setParent c (some q)) = (run Db.empty ops, .throw e) := by
  apply C07V2_rejected_without_effect ops _ _ rfl
  rw [qValid_eq] at h
  by_cases hqc : q = c
  · exact spec_setParent_rej (Or.inr (Or.inl ⟨q, rfl, Or.inl hqc⟩))
  · exact spec_setParent_rej (Or.inr (Or.inl ⟨q, rfl, Or.inr (Or.inl h)⟩))

/-- Invalid names (empty, or containing ';') are rejected without effect by every operation that takes a name. -/
theorem C07V2_invalid_name_rejected (ops : List Db.V2.Op) (n : Bytes) (hn : Forest.validName n = false) (p c a : Int) :
    let d := run Db.empty ops
    (∃ e, step d (.createRoot n) = (d, .throw e)) ∧ (∃ e, step d (.createRootAfter n a) = (d, .throw e)) ∧
    (∃ e, step d (.createSub p n) = (d, .throw e)) ∧ (∃ e, step d (.createSubAfter p n a) = (d, .throw e)) ∧
    (∃ e, step d (.rename c n) = (d, .throw e)) := by
  refine ⟨?_, ?_, ?_, ?_, ?_⟩
  · exact C07V2_rejected_without_effect ops _ _ rfl (spec_createRoot_rej (Or.inl hn))
  · exact C07V2_rejected_without_effect ops _ _ rfl (spec_createRoot_rej (Or.inl hn))
  · exact C07V2_rejected_without_effect ops _ _ rfl (spec_createSub_rej (Or.inr (Or.inl hn)))
  · exact C07V2_rejected_without_effect ops _ _ rfl (spec_createSub_rej (Or.inr (Or.inl hn)))
  · exact C07V2_rejected_without_effect ops _ _ rfl (spec_rename_rej (Or.inr (Or.inl hn)))

/-- remove_crate removes the crate with its whole subtree, and none of the removed crates is ever valid again
(whatever happens later): a removed crate is never again returned by any query. -/
theorem C07V2_removed_subtree_gone (ops : List Db.V2.Op) (c : Int) (hc : qValid (run Db.empty ops) c = true)
    (x : Int) (hx : x = c ∨ ∃ l, qDescendants (run Db.empty ops) c = .ok l ∧ x ∈ l) (later : List Db.V2.Op) :
    absF (step (run Db.empty ops) (.removeCrate c)).1 = Forest.removeSubtree (absF (run Db.empty ops)) c ∧
    qValid (run (step (run Db.empty ops) (.removeCrate c)).1 later) x = false := by
  have hI := plInv_run plInv_empty ops
  have habs := absF_removeCrate hI (by rw [← qValid_eq]; exact hc)
  refine ⟨habs, ?_⟩
  have hI' := plInv_step hI (.removeCrate c)
  have hx' : x = c ∨ x ∈ descSet (run Db.empty ops) c := by
    rcases hx with h | ⟨l, h1, h2⟩
    · exact Or.inl h
    · obtain ⟨l', h1', h2'⟩ := qDescendants_eq hI.wf c
      rw [h1] at h1'
      simp only [Res.ok.injEq] at h1'
      subst h1'
      exact Or.inr ((h2' x).mp h2)
  have hxl : x ∈ ids (run Db.empty ops).pl := by
    rcases hx' with rfl | hx
    · exact plExists_iff.mp hc
    · exact (mem_descSet.mp hx).1
  have hle : x ≤ (step (run Db.empty ops) (.removeCrate c)).1.plSeq := by
    have h1 := hI.seq x hxl
    have h2 := (ids_step hI (.removeCrate c)).1
    omega
  have hgone : x ∉ ids (step (run Db.empty ops) (.removeCrate c)).1.pl := by
    rw [← absF_ids, habs]
    intro hm
    obtain ⟨y, hy, e⟩ := Forest.mem_ids.mp hm
    obtain ⟨_, h2, h3⟩ := Forest.mem_removeSubtree.mp hy
    rcases hx' with rfl | hx
    · exact h2 e
    · rw [e, (mem_descSet.mp hx).2] at h3; exact absurd h3 (by simp)
  have := never_returns hI' hle hgone later
  cases hv : qValid (run (step (run Db.empty ops) (.removeCrate c)).1 later) x with
  | false => rfl
  | true => exact absurd (plExists_iff.mp hv) this

/-- Crate ids never collide and are never reused: a creation returns an id larger than every id any crate had at
any earlier point of the history (including crates removed since). -/
theorem C07V2_ids_never_reused (pre suf : List Db.V2.Op) (op : Db.V2.Op) (hc : isCreate op = true) (i : Int)
    (h : (step (run Db.empty (pre ++ suf)) op).2 = .ok (some i)) :
    ∀ x ∈ qCrates (run Db.empty pre), x < i := by
  intro x hx
  have hpre := plInv_run plInv_empty pre
  have h1 := hpre.seq x hx
  have h2 := plSeq_mono_run hpre suf
  rw [← run_append] at h2
  have h3 := create_id (plInv_run plInv_empty (pre ++ suf)) hc h
  omega

/-! ### non-vacuity -/

def sampleOps : List Db.V2.Op :=
  [.createRoot [97], .createSub 1 [98], .createSub 2 [99], .createRoot [100], .setParent 4 (some 3),
   .rename 2 [101], .removeCrate 2, .createRoot [98]]

example : qCrates (run Db.empty sampleOps) = [1, 5] := by decide
example : qDescendants (run Db.empty (sampleOps.take 5)) 1 = .ok [2, 3, 4] := by decide
/-- a cycle-creating re-parenting in a forest of depth three -/
example : qDescendants (run Db.empty (sampleOps.take 5)) 1 = .ok [2, 3, 4] ∧ (4 : Int) ∈ [2, 3, (4 : Int)] := by decide
example : step (run Db.empty (sampleOps.take 5)) (.setParent 1 (some 4))
    = (run Db.empty (sampleOps.take 5), .throw (exn "crate_invalid_parent")) := by decide
example : qValid (run Db.empty (sampleOps.take 6)) 2 = true ∧ qDescendants (run Db.empty (sampleOps.take 6)) 2 = .ok [3, 4] := by decide
/-- the model of the recursive view does not terminate on a cyclic table, like the real query (UNION ALL) -/
example : descendantIds [⟨1, 2, 0, [97]⟩, ⟨2, 1, 0, [98]⟩] 1 = .ub .nontermination := by decide
example : Forest.validName [] = false := by decide
example : isCreate (.createRoot [98]) = true ∧ (step (run Db.empty (sampleOps.take 7)) (.createRoot [98])).2 = .ok (some 5) := by decide

end EngineModel.Properties.C07V2
