/-
C15, schema 2.x crates — "every public operation invoked with any argument
values (ids of nonexistent entities, crates from elsewhere in the tree, empty /
huge / odd names) … either completes or throws …; it never invokes undefined
behaviour, aborts or fails to terminate.  Handles to removed … crates report
is_valid() == false".

Model: `Db.V2.step` and the queries `q*` of Db/V2Crates.lean (crates-2.x
work-package).  Undefined-behaviour sources of the C++ and where they are:
* `playlist_table::sort_ids` / `playlist_entity_table::get_for_list` dereference
  the tail (`next = 0`) of a non-empty selection without a test (the `assert`
  is compiled out): `Chain.walkBack` answers `ub oob_read` — INSIDE the model;
* the same functions' `do … while` follows `next ↦ id` until the map has no
  entry: the model gives the loop `rows.length` steps and then stops silently;
  `Api.GuardedV2.walkBackG` re-tests the loop condition at that point and
  answers `ub nontermination` — wrapper, proved equal to the model's walk on
  tables that represent lists (`R`);
* the recursive view `PlaylistAllChildren` (descendants(), the cycle check of
  set_parent, remove_crate) does not terminate on a cyclic parent relation: the
  model's `isAnc` has `|Playlist|` steps of fuel and then answers `false`;
  `descendantIdsG` answers `ub nontermination` instead — wrapper, proved equal
  to the model's on forests (`forestOk`);
* `crate::name` / `parent` / `create_*_after` on a removed crate dereferenced an
  empty optional before the `fix:`; the code now throws `crate_deleted` and the
  model mirrors that (`qName`, `qParent`, `step`): no `ub` left to exclude.

The mutating operations have no `ub` outcome on ANY state (first theorem).  The
ordered queries need the chain invariant `R` of Proofs/Chain.lean for both
tables and the forest shape (`v2c_C15_queries_no_ub`); that these hold on every
state reachable through the public API is proved by the crates-2.x work-package
(`Inv` = `ChInv` ∧ `PlInv` ∧ `MemInv`, Proofs/V2Members.lean, `inv_run`) and is
used for `v2c_C15_reachable_queries_no_ub`.  Histories that also use the three
table-level `playlist_entity_table` operations with non-positive track ids are
outside (recorded finding of C09: the schema's delete trigger does not re-link
such entries, after which `get_for_list` has no tail — see
`v2c_C15_table_level_counterexample`).
-/
import Proofs.NoUbCratesV2
import Proofs.NoUbStaleV2
import Proofs.V2WfRaw

namespace EngineModel.Properties.C15CratesV2
open EngineModel EngineModel.Db.Chain EngineModel.Db.V2 EngineModel.Api.GuardedV2

/-- **The mutating operations** (crate, membership, track, table level), with any arguments, through
the guarded step `stepG` — the model's `step` with every `*opt` / `opt->` of crate_impl.cpp,
database_impl.cpp, playlist_entity_table.cpp as a possible `ub empty_optional` behind the C++ guard
*as regenerated from the source* (`Gen.C15Guards`); the recursive view `PlaylistAllChildren` (cycle test
of set_parent, remove_crate) is the package's own `descendantIds`, `ub nontermination` on a cyclic table.
`stepG` IS the model's step on ANY state (no guard fails to protect its dereference), and on a state that
satisfies the crates-2.x invariant `PlInv` (a well-formed forest: kept by every operation, true of the
empty library) the outcome is a value or an exception — in particular the view terminates. -/
theorem v2c_C15_no_ub (d : Db) (op : Op) :
    stepG d op = step d op ∧ (PlInv d → ∀ u, (stepG d op).2 ≠ .ub u) :=
  ⟨stepG_eq d op, fun hI => stepG_defined d hI.wf op⟩

/-- **Reachable states**: along EVERY script from the empty library (public API and table level, any
arguments) the guarded run is the model's run and no call has undefined behaviour. -/
theorem v2c_C15_reachable_no_ub (ops : List Op) :
    runG Db.empty ops = run Db.empty ops ∧ ∀ r ∈ outcomesG Db.empty ops, ∀ u, r ≠ .ub u := by
  refine ⟨runG_eq plInv_empty ops, fun r hr u => ?_⟩
  rw [outcomesG_eq plInv_empty ops] at hr
  exact outcomes_defined ops Db.empty plInv_empty r hr u

/-- The invariant is needed: on a table whose parent links form a cycle (not reachable through the API; a
foreign or damaged library) `remove_crate` and `set_parent` of a crate on the cycle evaluate the recursive
view without end. -/
theorem v2c_C15_cyclic_table_counterexample :
    let d : Db := ⟨[⟨1, 2, 0, [65]⟩, ⟨2, 1, 0, [66]⟩, ⟨3, 0, 0, [67]⟩], 3, [], 0, [], 0⟩
    forestOk d.pl = false ∧
    (stepG d (.removeCrate 1)).2 = .ub .nontermination ∧
    (stepG d (.setParent 1 (some 3))).2 = .ub .nontermination ∧
    queryG d (.descendants 2) = .ub .nontermination := by
  decide +kernel

/-- Each guard is needed (what a regression of the C++ would do to the model): with the `!row` test of
`crate::set_name`, the `!after_row` test of `create_root_crate_after` or the `if (existing_id)` of
`add_back` dropped, the call on a removed crate / with a removed `after` / a new entry dereferences
an empty optional. -/
theorem v2c_C15_guard_dropped_counterexample :
    let d : Db := run Db.empty [.createRoot [65], .createTrack]
    (stepGW { Guards.source with setNameNoRow := fun _ => false } d (.rename 7 [66])).2 = .ub .empty_optional ∧
    (stepGW { Guards.source with rootAfterNoRow := fun _ => false } d (.createRootAfter [66] 7)).2 = .ub .empty_optional ∧
    (stepGW { Guards.source with subAfterNoRow := fun _ => false } d (.createSubAfter 1 [66] 7)).2 = .ub .empty_optional ∧
    (stepGW { Guards.source with setParentNoRow := fun _ => false } d (.setParent 7 none)).2 = .ub .empty_optional ∧
    (stepGW { Guards.source with addBackExisting := fun _ => true } d (.addTrack 1 1)).2 = .ub .empty_optional ∧
    (stepGW { Guards.source with setParentGiven := fun _ => true } d (.setParent 1 none)).2 = .ub .empty_optional ∧
    (stepGW { Guards.source with crateRemoveTrackFound := fun _ => true } d (.removeTrackFrom 1 1)).2 = .ub .empty_optional ∧
    (stepGW { Guards.source with dbRemoveTrackFound := fun _ => true } d (.removeTrack 1)).2 = .ub .empty_optional := by
  decide +kernel

/-- The chain walk of `sort_ids` / `get_for_list`: on a table that represents lists the tail exists and
the loop ends within `rows.length` lookups (the guarded walk = the model's walk = a value). -/
theorem v2c_C15_walk_terminates {α : Type} {A : Int → List Int} {t : Table α} (h : R A t) (k : Int) :
    walkBackG t k = walkBack t k ∧ ∃ l, walkBack t k = .ok l :=
  walkBackG_eq h k

/-- The recursive view: on a well-formed forest it ends within `|Playlist|` levels (theorem
`descendantIds_ok` of the crates-2.x package, which also says the result is the set of descendants). -/
theorem v2c_C15_view_terminates (d : Db) (hI : PlInv d) (c : Int) : ∃ l, descendantIds d.pl c = .ok l := by
  obtain ⟨l, hl, _⟩ := descendantIds_ok hI.wf c
  exact ⟨l, hl⟩

/-- Every query, for any crate id / name (existing or not), on a state whose two tables represent
lists and whose Playlist table is a well-formed forest: a value or an exception, and it terminates. -/
theorem v2c_C15_queries_no_ub (d : Db) {A B : Int → List Int} (hpl : R A d.pl) (hpe : R B d.pe)
    (hI : PlInv d) (q : Query) (u : Ub) : queryG d q ≠ .ub u :=
  queryG_defined d hpl hpe hI.wf q u

/-- The same for the model's own ordered queries (tie-compared with the library). -/
theorem v2c_C15_ordered_queries_no_ub (d : Db) {A B : Int → List Int} (hpl : R A d.pl) (hpe : R B d.pe)
    (c : Int) (u : Ub) :
    qRoots d ≠ .ub u ∧ qChildren d c ≠ .ub u ∧ qTracks d c ≠ .ub u ∧ qEntities d c ≠ .ub u := by
  obtain ⟨l0, h0, _⟩ := walkBack_spec hpl 0
  obtain ⟨l1, h1, _⟩ := walkBack_spec hpl c
  obtain ⟨l2, h2, _⟩ := walkBack_spec hpe c
  refine ⟨?_, ?_, ?_, ?_⟩
  · simp [qRoots, walkIds, h0, Res.bind]
  · simp [qChildren, walkIds, h1, Res.bind]
  · simp [qTracks, h2, Res.bind]
  · simp [qEntities, h2, Res.bind]

/-- **Reachable states**: after any history of public-API operations (crate, membership, track
operations with any arguments) from the empty library, every query — for any crate id or name,
existing or not — is a value or an exception and terminates. -/
theorem v2c_C15_reachable_queries_no_ub (ops : List Op) (hapi : ops.all apiOp = true) (q : Query) (u : Ub) :
    queryG (run Db.empty ops) q ≠ .ub u := by
  obtain ⟨_, _, hI, _⟩ := inv_run inv_empty ops (all_memOp_of_apiOp hapi)
  exact queryG_defined _ hI.ch.rk hI.ch.re hI.pl.wf q u

/-- **The whole public alphabet** of `database` / `crate` over this model: mutations and queries
interleaved in any order, with any arguments, from the empty library — every outcome is a value or an
exception.  `memCall`: the mutations are public-API operations or additions of entries of OTHER databases
(what other software sharing the library does); `crate::add_tracks` is a list of `addTrack`; `uuid`,
`version_name`, `directory`, `verify`, `crate::db` have no model content (outcome `ok`; tie only). -/
theorem v2c_C15_all_calls_no_ub (cs : List Call) (hm : cs.all memCall = true) :
    ∀ r ∈ callOutcomes Db.empty cs, ∀ u, r ≠ .ub u :=
  fun r hr u => callOutcomes_defined cs inv_empty hm r hr u

/-- The restriction to the public API is needed: at table level (`playlist_entity_table`, reachable
only by code that bypasses `crate`) entries with a non-positive track id are not re-linked by the
schema's delete trigger, and listing the playlist then dereferences a missing tail. -/
theorem v2c_C15_table_level_counterexample :
    qEntities (run Db.empty [.peAddBack 3 2 0 false, .peAddBack 3 3 0 false, .peAddBack 3 0 0 false, .peRemove 3 3]) 3 =
      .ub .oob_read := by
  decide +kernel

/-- What every call through the handle of a crate that is not (or no longer) in the library does. -/
theorem stale_calls (d : Db) (c : Int) (hgone : c ∉ ids d.pl) :
    qValid d c = false ∧ qNameG d c = .throw (exn "crate_deleted") ∧ qParentG d c = .throw (exn "crate_deleted") ∧
    (∀ n, (stepG d (.rename c n)).2 = .throw (exn "crate_deleted")) ∧
    (∀ n, (stepG d (.createSub c n)).2 = .throw (exn "crate_deleted")) ∧
    (∀ n a, (stepG d (.createSubAfter c n a)).2 = .throw (exn "crate_deleted")) ∧
    (∀ t, (stepG d (.addTrack c t)).2 = .throw (exn "crate_deleted")) ∧
    (∀ p, ∃ e, (stepG d (.setParent c p)).2 = .throw e) ∧
    (stepG d (.removeCrate c)).2 = .throw .invalid_argument := by
  have hget : Db.Chain.get d.pl c = none := get_none_of_not_mem hgone
  have hex : plExists d c = false := by
    cases h : plExists d c with
    | false => rfl
    | true => exact absurd ((plExists_iff d c).mp h) hgone
  refine ⟨hex, ?_, ?_, ?_, ?_, ?_, ?_, ?_, ?_⟩
  · rw [qNameG_eq]; simp only [qName, hget]
  · rw [qParentG_eq]; simp only [qParent, hget]
  · intro n; simp [stepG, stepGW, Guards.source, Gen.C15Guards.v2_crate_set_name_norow_eq, hget]
  · intro n; simp only [stepG, stepGW, step, hex, Bool.not_false, if_true]
  · intro n a; simp only [stepG, stepGW, hex, Bool.not_false, if_true]
  · intro t; simp only [stepG, stepGW, hex, Bool.not_false, if_true]
  · intro p
    cases p with
    | none =>
      refine ⟨exn "crate_deleted", ?_⟩
      simp [stepG, stepGW, Guards.source, Gen.C15Guards.v2_crate_set_parent_self_eq,
        Gen.C15Guards.v2_crate_set_parent_norow_eq, hget]
    | some q =>
      by_cases hq : q = c
      · refine ⟨exn "crate_invalid_parent", ?_⟩
        subst hq
        simp [stepG, stepGW, Guards.source, Gen.C15Guards.v2_crate_set_parent_self_eq, deref, Res.bind]
      · refine ⟨exn "crate_deleted", ?_⟩
        have h1 : (q == c) = false := by simpa using hq
        simp [stepG, stepGW, Guards.source, Gen.C15Guards.v2_crate_set_parent_self_eq,
          Gen.C15Guards.v2_crate_set_parent_norow_eq, deref, Res.bind, h1, hget]
  · simp only [stepG, stepGW, hex, Bool.not_false, if_true]

/-- **Stale crate handle, along every later history**: once `remove_crate(c)` has succeeded on a state
reachable through the API (`PlInv`: the crates-2.x invariant, kept by every operation), then after ANY
further operations `c.is_valid()` is false, `name()` / `parent()` throw `crate_deleted`, every mutation
through the handle throws, and removing it again throws — `Playlist.id` is AUTOINCREMENT, so the id is
never issued again.  (`id()`, copying, assigning and destroying a handle touch no library state: they
have no model content — the handle is the `Int`; AddressSanitizer watches them in the tie.) -/
theorem v2c_C15_stale_crate (d : Db) (hI : PlInv d) (c : Int) (hc : plExists d c = true) (ops : List Op) :
    let d' := run (step d (.removeCrate c)).1 ops
    qValid d' c = false ∧ qNameG d' c = .throw (exn "crate_deleted") ∧ qParentG d' c = .throw (exn "crate_deleted") ∧
    (∀ n, (stepG d' (.rename c n)).2 = .throw (exn "crate_deleted")) ∧
    (∀ n, (stepG d' (.createSub c n)).2 = .throw (exn "crate_deleted")) ∧
    (∀ n a, (stepG d' (.createSubAfter c n a)).2 = .throw (exn "crate_deleted")) ∧
    (∀ t, (stepG d' (.addTrack c t)).2 = .throw (exn "crate_deleted")) ∧
    (∀ p, ∃ e, (stepG d' (.setParent c p)).2 = .throw e) ∧
    (stepG d' (.removeCrate c)).2 = .throw .invalid_argument :=
  stale_calls _ c (gone_run (gone_after_remove hI hc) ops).absent

/-- … in particular after any script from the empty library. -/
theorem v2c_C15_stale_crate_reachable (ops1 : List Op) (c : Int) (hc : plExists (run Db.empty ops1) c = true)
    (ops2 : List Op) : qValid (run (step (run Db.empty ops1) (.removeCrate c)).1 ops2) c = false :=
  (v2c_C15_stale_crate _ (plInv_run plInv_empty ops1) c hc ops2).1

/-- Ids of crates that do not exist (never created, or removed) as the *other* argument: exceptions. -/
theorem v2c_C15_nonexistent_args (d : Db) (c q : Int) (hq : plExists d q = false) (hqc : q ≠ c) :
    (∃ e, (step d (.setParent c (some q))).2 = .throw e) ∧
    (∀ n, ∃ e, (step d (.createRootAfter n q)).2 = .throw e) ∧
    (∀ t, (stepG d (.addTrack q t)).2 = .throw (exn "crate_deleted")) := by
  have hget : Db.Chain.get d.pl q = none := by
    apply get_none_of_not_mem
    intro hm
    rw [(plExists_iff d q).mpr hm] at hq; cases hq
  refine ⟨?_, ?_, ?_⟩
  · simp only [step]
    have : (some q == some c) = false := by simpa using hqc
    simp only [this, Bool.false_eq_true, if_false]
    cases Db.Chain.get d.pl c with
    | none => exact ⟨_, rfl⟩
    | some row => simp only [hq, Bool.not_false, if_true]; exact ⟨_, rfl⟩
  · intro n
    simp only [step]
    split
    · exact ⟨_, rfl⟩
    · simp only [hget]; exact ⟨_, rfl⟩
  · intro t; simp only [stepG, stepGW, hq, Bool.not_false, if_true]

/-! ### non-vacuity: states that satisfy the hypotheses, and states that show they are needed -/

def nm (c : Char) : Bytes := [c.toNat.toUInt8]

/-- roots A, D; B under A; C under B; two tracks in A -/
def exOps : List Op :=
  [.createRoot (nm 'A'), .createSub 1 (nm 'B'), .createSub 2 (nm 'C'), .createRoot (nm 'D'), .createTrack,
   .createTrack, .addTrack 1 1, .addTrack 1 2]

def exDb : Db := run Db.empty exOps

example : wfRaw exDb = true := by decide +kernel
example : forestOk exDb.pl = true := by decide +kernel
/-- its Playlist table represents the lists root ↦ [1, 4], 1 ↦ [2], 2 ↦ [3] -/
example : exDb.pl = [⟨1, 0, 4, nm 'A'⟩, ⟨2, 1, 0, nm 'B'⟩, ⟨3, 2, 0, nm 'C'⟩, ⟨4, 0, 0, nm 'D'⟩] := by decide +kernel
example : qRoots exDb = .ok [1, 4] ∧ qTracks exDb 1 = .ok [1, 2] := by decide +kernel
example : PlInv exDb := plInv_run plInv_empty exOps
example : plExists exDb 2 = true := by decide +kernel
example : (stepG exDb (.setParent 1 (some 3))) = (step exDb (.setParent 1 (some 3))) := by decide +kernel
example : (stepG exDb (.removeCrate 1)).1.pl = [⟨4, 0, 0, nm 'D'⟩] := by decide +kernel
example : queryG exDb .roots = .ok () ∧ queryG exDb (.descendants 1) = .ok () ∧ queryG exDb (.tracks 99) = .ok () := by
  decide +kernel
/-- crates from elsewhere in the tree, nonexistent ids, odd names: exceptions -/
example : (step exDb (.setParent 1 (some 3))).2 = .throw (exn "crate_invalid_parent") := by decide +kernel
example : (step exDb (.setParent 1 (some 99))).2 = .throw (exn "crate_deleted") := by decide +kernel
example : (step exDb (.createSubAfter 1 (nm 'X') 4)).2 = .throw (exn "crate_invalid_parent") := by decide +kernel
example : (step exDb (.rename 2 [])).2 = .throw (exn "crate_invalid_name") := by decide +kernel
example : (step exDb (.addTrack 1 (-7))).2 = .throw (exn "track_deleted") := by decide +kernel
example : (step exDb (.rename 2 (List.replicate 300 200))).2 = .ok none := by decide +kernel

/-- the hypotheses are needed: a list without a tail, a self-referring row, a parent cycle -/
example : walkBack ([⟨1, 0, 2, ()⟩] : Table Unit) 0 = .ub .oob_read := by decide +kernel
example : walkBackG ([⟨0, 5, 0, ()⟩] : Table Unit) 5 = .ub .nontermination ∧
    walkBack ([⟨0, 5, 0, ()⟩] : Table Unit) 5 = .ok [⟨0, 5, 0, ()⟩] := by decide +kernel
example : descendantIds [⟨1, 2, 0, nm 'A'⟩, ⟨2, 1, 0, nm 'B'⟩] 1 = .ub .nontermination := by decide +kernel

end EngineModel.Properties.C15CratesV2
