/-
C15, schema 2.x crates — "every public operation invoked with any argument
values (ids of nonexistent entities, crates from elsewhere in the tree, empty /
huge / odd names) … either completes or throws …; it never invokes undefined
behaviour, aborts or fails to terminate.  Handles to removed … crates report
is_valid() == false".

Model: `Db.V2.step` and the queries `q*` of Db/V2Crates.lean (crates-2.x
work-package).  Undefined-behaviour sources of the C++ and where they are:
* `playlist_table::sort_ids` / `playlist_entity_table::get_for_list` dereference
  the tail (`next = 0`) of a non-empty selection without a test (the `assert`
  is compiled out): `Chain.walkBack` answers `ub oob_read` — INSIDE the model;
* the same functions' `do … while` follows `next ↦ id` until the map has no
  entry: the model gives the loop `rows.length` steps and then stops silently;
  `Api.GuardedV2.walkBackG` re-tests the loop condition at that point and
  answers `ub nontermination` — wrapper, proved equal to the model's walk on
  tables that represent lists (`R`);
* the recursive view `PlaylistAllChildren` (descendants(), the cycle check of
  set_parent, remove_crate) does not terminate on a cyclic parent relation: the
  model's `isAnc` has `|Playlist|` steps of fuel and then answers `false`;
  `descendantIdsG` answers `ub nontermination` instead — wrapper, proved equal
  to the model's on forests (`forestOk`);
* `crate::name` / `parent` / `create_*_after` on a removed crate dereferenced an
  empty optional before the `fix:`; the code now throws `crate_deleted` and the
  model mirrors that (`qName`, `qParent`, `step`): no `ub` left to exclude.

The mutating operations have no `ub` outcome on ANY state (first theorem).  The
ordered queries need the chain invariant `R` of Proofs/Chain.lean for both
tables and the forest shape (`v2c_C15_queries_no_ub`); that these hold on every
state reachable through the public API is proved by the crates-2.x work-package
(`Inv` = `ChInv` ∧ `PlInv` ∧ `MemInv`, Proofs/V2Members.lean, `inv_run`) and is
used for `v2c_C15_reachable_queries_no_ub`.  Histories that also use the three
table-level `playlist_entity_table` operations with non-positive track ids are
outside (recorded finding of C09: the schema's delete trigger does not re-link
such entries, after which `get_for_list` has no tail — see
`v2c_C15_table_level_counterexample`).
-/
import Proofs.NoUbCratesV2
import Proofs.V2WfRaw

namespace EngineModel.Properties.C15CratesV2
open EngineModel EngineModel.Db.Chain EngineModel.Db.V2 EngineModel.Api.GuardedV2

/-- No mutating operation (crate, membership, track, table level), with any arguments, has undefined
behaviour — on any state at all. -/
theorem v2c_C15_no_ub (d : Db) (op : Op) (u : Ub) : (step d op).2 ≠ .ub u :=
  step_defined d op u

/-- … hence along every script from the empty library. -/
theorem v2c_C15_reachable_no_ub (ops : List Op) : ∀ r ∈ outcomes Db.empty ops, ∀ u, r ≠ .ub u :=
  fun r hr u => outcomes_defined ops Db.empty r hr u

/-- The chain walk of `sort_ids` / `get_for_list`: on a table that represents lists the tail exists and
the loop ends within `rows.length` lookups (the guarded walk = the model's walk = a value). -/
theorem v2c_C15_walk_terminates {α : Type} {A : Int → List Int} {t : Table α} (h : R A t) (k : Int) :
    walkBackG t k = walkBack t k ∧ ∃ l, walkBack t k = .ok l :=
  walkBackG_eq h k

/-- The recursive view: on a forest it ends within `|Playlist|` steps (guarded = model = a value). -/
theorem v2c_C15_view_terminates (t : Table Bytes) (hf : forestOk t = true) (c : Int) :
    descendantIdsG t c = .ok (descendantIds t c) :=
  descendantIdsG_eq t hf c

/-- Every query, for any crate id / name (existing or not), on a state whose two tables represent
lists and whose parent links form a forest: a value or an exception, and it terminates. -/
theorem v2c_C15_queries_no_ub (d : Db) {A B : Int → List Int} (hpl : R A d.pl) (hpe : R B d.pe)
    (hf : forestOk d.pl = true) (q : Query) (u : Ub) : queryG d q ≠ .ub u :=
  queryG_defined d hpl hpe hf q u

/-- The same for the model's own ordered queries (tie-compared with the library). -/
theorem v2c_C15_ordered_queries_no_ub (d : Db) {A B : Int → List Int} (hpl : R A d.pl) (hpe : R B d.pe)
    (c : Int) (u : Ub) :
    qRoots d ≠ .ub u ∧ qChildren d c ≠ .ub u ∧ qTracks d c ≠ .ub u ∧ qEntities d c ≠ .ub u := by
  obtain ⟨l0, h0, _⟩ := walkBack_spec hpl 0
  obtain ⟨l1, h1, _⟩ := walkBack_spec hpl c
  obtain ⟨l2, h2, _⟩ := walkBack_spec hpe c
  refine ⟨?_, ?_, ?_, ?_⟩
  · simp [qRoots, walkIds, h0, Res.bind]
  · simp [qChildren, walkIds, h1, Res.bind]
  · simp [qTracks, h2, Res.bind]
  · simp [qEntities, h2, Res.bind]

/-- **Reachable states**: after any history of public-API operations (crate, membership, track
operations with any arguments) from the empty library, every query — for any crate id or name,
existing or not — is a value or an exception and terminates. -/
theorem v2c_C15_reachable_queries_no_ub (ops : List Op) (hapi : ops.all apiOp = true) (q : Query) (u : Ub) :
    queryG (run Db.empty ops) q ≠ .ub u := by
  obtain ⟨_, _, hI, _⟩ := inv_run inv_empty ops (all_memOp_of_apiOp hapi)
  exact queryG_defined _ hI.ch.rk hI.ch.re (forestOk_of_plInv hI.pl) q u

/-- The restriction to the public API is needed: at table level (`playlist_entity_table`, reachable
only by code that bypasses `crate`) entries with a non-positive track id are not re-linked by the
schema's delete trigger, and listing the playlist then dereferences a missing tail. -/
theorem v2c_C15_table_level_counterexample :
    qEntities (run Db.empty [.peAddBack 3 2 0 false, .peAddBack 3 3 0 false, .peAddBack 3 0 0 false, .peRemove 3 3]) 3 =
      .ub .oob_read := by
  decide +kernel

/-- **Stale crate handle**: after `remove_crate(c)` — from any state — `c.is_valid()` is false,
`name()` / `parent()` throw `crate_deleted`, every mutation through the handle throws, and removing it
again throws. -/
theorem v2c_C15_stale_crate (d : Db) (c : Int) :
    let d' := plRemove d c
    qValid d' c = false ∧ qName d' c = .throw (exn "crate_deleted") ∧ qParent d' c = .throw (exn "crate_deleted") ∧
    (∀ n, (step d' (.rename c n)).2 = .throw (exn "crate_deleted")) ∧
    (∀ n, (step d' (.createSub c n)).2 = .throw (exn "crate_deleted")) ∧
    (∀ n a, (step d' (.createSubAfter c n a)).2 = .throw (exn "crate_deleted")) ∧
    (∀ t, (step d' (.addTrack c t)).2 = .throw (exn "crate_deleted")) ∧
    (∀ p, ∃ e, (step d' (.setParent c p)).2 = .throw e) ∧
    (step d' (.removeCrate c)).2 = .throw .invalid_argument := by
  intro d'
  have hgone : c ∉ ids d'.pl := removed_gone d c
  have hget : Db.Chain.get d'.pl c = none := get_none_of_not_mem hgone
  have hex : plExists d' c = false := by
    cases h : plExists d' c with
    | false => rfl
    | true => exact absurd ((plExists_iff d' c).mp h) hgone
  refine ⟨hex, ?_, ?_, ?_, ?_, ?_, ?_, ?_, ?_⟩
  · simp only [qName, hget]
  · simp only [qParent, hget]
  · intro n; simp only [step, hget]
  · intro n; simp only [step, hex, Bool.not_false, if_true]
  · intro n a; simp only [step, hex, Bool.not_false, if_true]
  · intro t; simp only [step, hex, Bool.not_false, if_true]
  · intro p
    simp only [step]
    split
    · exact ⟨_, rfl⟩
    · simp only [hget]; exact ⟨_, rfl⟩
  · simp only [step, hex, Bool.not_false, if_true]

/-- Ids of crates that do not exist (never created, or removed) as the *other* argument: exceptions. -/
theorem v2c_C15_nonexistent_args (d : Db) (c q : Int) (hq : plExists d q = false) (hqc : q ≠ c) :
    (∃ e, (step d (.setParent c (some q))).2 = .throw e) ∧
    (∀ n, ∃ e, (step d (.createRootAfter n q)).2 = .throw e) ∧
    (∀ t, (step d (.addTrack q t)).2 = .throw (exn "crate_deleted")) := by
  have hget : Db.Chain.get d.pl q = none := by
    apply get_none_of_not_mem
    intro hm
    rw [(plExists_iff d q).mpr hm] at hq; cases hq
  refine ⟨?_, ?_, ?_⟩
  · simp only [step]
    have : (some q == some c) = false := by simpa using hqc
    simp only [this, Bool.false_eq_true, if_false]
    cases Db.Chain.get d.pl c with
    | none => exact ⟨_, rfl⟩
    | some row => simp only [hq, Bool.not_false, if_true]; exact ⟨_, rfl⟩
  · intro n
    simp only [step]
    split
    · exact ⟨_, rfl⟩
    · simp only [hget]; exact ⟨_, rfl⟩
  · intro t; simp only [step, hq, Bool.not_false, if_true]

/-! ### non-vacuity: states that satisfy the hypotheses, and states that show they are needed -/

def nm (c : Char) : Bytes := [c.toNat.toUInt8]

/-- roots A, D; B under A; C under B; two tracks in A -/
def exOps : List Op :=
  [.createRoot (nm 'A'), .createSub 1 (nm 'B'), .createSub 2 (nm 'C'), .createRoot (nm 'D'), .createTrack,
   .createTrack, .addTrack 1 1, .addTrack 1 2]

def exDb : Db := run Db.empty exOps

example : wfRaw exDb = true := by decide +kernel
example : forestOk exDb.pl = true := by decide +kernel
/-- its Playlist table represents the lists root ↦ [1, 4], 1 ↦ [2], 2 ↦ [3] -/
example : exDb.pl = [⟨1, 0, 4, nm 'A'⟩, ⟨2, 1, 0, nm 'B'⟩, ⟨3, 2, 0, nm 'C'⟩, ⟨4, 0, 0, nm 'D'⟩] := by decide +kernel
example : qRoots exDb = .ok [1, 4] ∧ qTracks exDb 1 = .ok [1, 2] := by decide +kernel
example : queryG exDb .roots = .ok () ∧ queryG exDb (.descendants 1) = .ok () ∧ queryG exDb (.tracks 99) = .ok () := by
  decide +kernel
/-- crates from elsewhere in the tree, nonexistent ids, odd names: exceptions -/
example : (step exDb (.setParent 1 (some 3))).2 = .throw (exn "crate_invalid_parent") := by decide +kernel
example : (step exDb (.setParent 1 (some 99))).2 = .throw (exn "crate_deleted") := by decide +kernel
example : (step exDb (.createSubAfter 1 (nm 'X') 4)).2 = .throw (exn "crate_invalid_parent") := by decide +kernel
example : (step exDb (.rename 2 [])).2 = .throw (exn "crate_invalid_name") := by decide +kernel
example : (step exDb (.addTrack 1 (-7))).2 = .throw (exn "track_deleted") := by decide +kernel
example : (step exDb (.rename 2 (List.replicate 300 200))).2 = .ok none := by decide +kernel

/-- the hypotheses are needed: a list without a tail, a self-referring row, a parent cycle -/
example : walkBack ([⟨1, 0, 2, ()⟩] : Table Unit) 0 = .ub .oob_read := by decide +kernel
example : walkBackG ([⟨0, 5, 0, ()⟩] : Table Unit) 5 = .ub .nontermination ∧
    walkBack ([⟨0, 5, 0, ()⟩] : Table Unit) 5 = .ok [⟨0, 5, 0, ()⟩] := by decide +kernel
example : descendantIdsG [⟨1, 2, 0, nm 'A'⟩, ⟨2, 1, 0, nm 'B'⟩] 7 = .ub .nontermination := by decide +kernel

end EngineModel.Properties.C15CratesV2
