/-
C01, schema 1.x — the database level, the statements, the bytes, and NaN.

`Properties/C01V1.lean` is about the rows of one track (`writeSnap` / `readSnap`).  This file states the
property on a library of several tracks (`dbCreate` = `database::create_track`, `dbUpdate` =
`track::update`, `dbSnap` = `track::snapshot()`):

  * round trip through both calls, and the acceptance converse (what the Spec accepts is written, given a
    free path);
  * rejection, `UNIQUE(path)` (from 1.11.1) and the frame (other tracks untouched);
  * "a failed call leaves the database unchanged" NOT by the shape of the value-level model but on the
    statement sequence `BEGIN; Track; MetaData; MetaDataInteger; PerformanceData; COMMIT`
    (EngineModel/TracksV1/Txn.lean over the connection model of Spec/Txn.lean) with a failure — a
    statement's own, or injected — at any position;
  * the blob columns (held at value level in the model) are what the byte-level decoders of Impl/V1.lean
    read from what its encoders write (on top of the locked C03 theorems);
  * what happens with NaN (outside the property's quantifier).
-/
import Properties.C01V1
import Proofs.TracksV1Txn
import Proofs.TracksV1Bridge
import Proofs.TracksV1NaN

namespace EngineModel.Properties.C01V1

open EngineModel EngineModel.TracksV1
open Fl (FOps)
open EngineModel.Spec.Txn (call Conn)

/-! ### round trip and acceptance on the database -/

/-- `create_track` returns normally ⇒ the Spec accepts the snapshot and `snapshot()` of the new track is
the normalised one. -/
theorem v1_C01_db_create_roundtrip (o : FOps) (d d' : Db) (id : Int) (x : Snap) (hn : Spec.NoNaN x = true)
    (h : dbCreate o d x = .ok (d', id)) :
    id = nextId d ∧ ∃ y, Spec.normalize d.schema x = some y ∧ dbSnap o d' id = .ok y := by
  obtain ⟨rows, hw, hd'⟩ := dbCreate_rows o d d' x id h
  have hid : id = nextId d := by
    unfold dbCreate at h
    rw [hw] at h
    simp only at h
    split at h
    · cases h
    · simp only [Res.ok.injEq, Prod.mk.injEq] at h; exact h.2.symm
  refine ⟨hid, ?_⟩
  obtain ⟨y, hy, hr⟩ := v1_C01_accepts o d.schema x none rows hn hw
  refine ⟨y, hy, ?_⟩
  subst hd'
  unfold dbSnap Db.rows
  simp only
  rw [hid, aget_append_fresh _ _ _ (aget_nextId d)]
  exact hr

/-- **Acceptance, `create_track`.**  A snapshot the Spec accepts, whose path no other track holds, IS
written, and `snapshot()` of the new track is the normalised snapshot. -/
theorem v1_C01_db_create_accepts (o : FOps) (d : Db) (x y : Snap) (p : Bytes) (hn : Spec.NoNaN x = true)
    (h : Spec.normalize d.schema x = some y) (hp : x.relativePath = some p) (hfree : pathTaken d (nextId d) p = false) :
    ∃ d', dbCreate o d x = .ok (d', nextId d) ∧ dbSnap o d' (nextId d) = .ok y := by
  obtain ⟨rows, hw, hr⟩ := v1_C01_roundtrip o d.schema x y none hn h
  have hpath : rows.track.path.getD [] = p := by
    rw [writeSnap_eq] at hw
    obtain ⟨pr, hpr, hw⟩ := Res.bind_eq_ok hw
    obtain ⟨c, _, hw⟩ := Res.bind_eq_ok hw
    cases hw
    have := prepare_path o x pr hpr
    rw [hp] at this; cases this; rfl
  refine ⟨{ d with tracks := d.tracks ++ [(nextId d, rows)] }, ?_, ?_⟩
  · unfold dbCreate
    rw [hw]
    simp only [hpath, hfree, Bool.false_eq_true, if_false]
  · unfold dbSnap Db.rows
    simp only
    rw [aget_append_fresh _ _ _ (aget_nextId d)]
    exact hr

/-- **Acceptance, `update`.** -/
theorem v1_C01_db_update_accepts (o : FOps) (d : Db) (id : Int) (prior : TrackRows) (x y : Snap) (p : Bytes)
    (hn : Spec.NoNaN x = true) (hrow : d.rows id = some prior) (h : Spec.normalize d.schema x = some y)
    (hp : x.relativePath = some p) (hfree : pathTaken d id p = false) :
    ∃ d', dbUpdate o d id x = .ok d' ∧ dbSnap o d' id = .ok y := by
  obtain ⟨rows, hw, hr⟩ := v1_C01_roundtrip o d.schema x y (some prior) hn h
  have hpath : rows.track.path.getD [] = p := by
    rw [writeSnap_eq] at hw
    obtain ⟨pr, hpr, hw⟩ := Res.bind_eq_ok hw
    obtain ⟨c, _, hw⟩ := Res.bind_eq_ok hw
    cases hw
    have := prepare_path o x pr hpr
    rw [hp] at this; cases this; rfl
  refine ⟨{ d with tracks := aset id rows d.tracks }, ?_, ?_⟩
  · unfold dbUpdate
    rw [hrow]
    simp only
    rw [hw]
    simp only [hpath, hfree, Bool.false_eq_true, if_false]
  · unfold dbSnap Db.rows
    simp only [aget_aset_same]
    exact hr

/-- **Rejection on the database**: a snapshot the Spec rejects makes both calls throw — never `ok`, never
`ub` — whatever the database holds. -/
theorem v1_C01_db_reject (o : FOps) (d : Db) (id : Int) (x : Snap) (hn : Spec.NoNaN x = true)
    (h : Spec.normalize d.schema x = none) :
    (∃ e, dbCreate o d x = .throw e) ∧ (∃ e, dbUpdate o d id x = .throw e) := by
  constructor
  · cases hc : dbCreate o d x with
    | ok r =>
      obtain ⟨d', id'⟩ := r
      obtain ⟨_, y, hy, _⟩ := v1_C01_db_create_roundtrip o d d' id' x hn hc
      rw [h] at hy; cases hy
    | throw e => exact ⟨e, rfl⟩
    | ub u =>
      exfalso
      unfold dbCreate at hc
      cases hw : writeSnap o d.schema x none with
      | ub u' => exact v1_C01_never_ub o d.schema x none u' hw
      | throw e =>
        rw [hw] at hc
        simp only at hc
        split at hc
        · cases hc
        · split at hc
          · cases hc
          · split at hc <;> cases hc
      | ok rows => rw [hw] at hc; simp only at hc; split at hc <;> cases hc
  · cases hc : dbUpdate o d id x with
    | ok d' =>
      obtain ⟨y, hy, _⟩ := v1_C01_db_roundtrip o d d' id x hn hc
      rw [h] at hy; cases hy
    | throw e => exact ⟨e, rfl⟩
    | ub u =>
      exfalso
      unfold dbUpdate at hc
      cases hp : d.rows id with
      | none =>
        rw [hp] at hc
        simp only at hc
        cases hw : writeSnap o d.schema x none with
        | ub u' => exact v1_C01_never_ub o d.schema x none u' hw
        | throw e => rw [hw] at hc; simp only at hc; split at hc <;> cases hc
        | ok rows => rw [hw] at hc; cases hc
      | some prior =>
        rw [hp] at hc
        simp only at hc
        cases hw : writeSnap o d.schema x (some prior) with
        | ub u' => exact v1_C01_never_ub o d.schema x (some prior) u' hw
        | throw e =>
          rw [hw] at hc
          simp only at hc
          split at hc
          · cases hc
          · split at hc
            · cases hc
            · split at hc <;> cases hc
        | ok rows => rw [hw] at hc; simp only at hc; split at hc <;> cases hc

/-- **`UNIQUE(path)`** (from 1.11.1): an acceptable snapshot whose path another track holds is refused by
both calls with an SQLite error. -/
theorem v1_C01_db_unique_path (o : FOps) (d : Db) (id : Int) (prior : TrackRows) (x y : Snap) (p : Bytes)
    (hn : Spec.NoNaN x = true) (h : Spec.normalize d.schema x = some y) (hp : x.relativePath = some p) :
    (pathTaken d (nextId d) p = true → dbCreate o d x = .throw .sqlite_error) ∧
    (d.rows id = some prior → pathTaken d id p = true → dbUpdate o d id x = .throw .sqlite_error) := by
  have hpath : ∀ prior' rows, writeSnap o d.schema x prior' = .ok rows → rows.track.path.getD [] = p := by
    intro prior' rows hw
    rw [writeSnap_eq] at hw
    obtain ⟨pr, hpr, hw⟩ := Res.bind_eq_ok hw
    obtain ⟨c, _, hw⟩ := Res.bind_eq_ok hw
    cases hw
    have := prepare_path o x pr hpr
    rw [hp] at this; cases this; rfl
  constructor
  · intro ht
    obtain ⟨rows, hw, _⟩ := v1_C01_roundtrip o d.schema x y none hn h
    unfold dbCreate
    rw [hw]
    simp only [hpath none rows hw, ht, if_true]
  · intro hrow ht
    obtain ⟨rows, hw, _⟩ := v1_C01_roundtrip o d.schema x y (some prior) hn h
    unfold dbUpdate
    rw [hrow]
    simp only
    rw [hw]
    simp only [hpath (some prior) rows hw, ht, if_true]

/-- **Frame**: `create_track` and `update` leave the rows — hence `snapshot()` and every getter — of every
other track as they were; `create_track` takes an id no track has. -/
theorem v1_C01_db_frame (o : FOps) (d : Db) (x : Snap) :
    (∀ d' id, dbCreate o d x = .ok (d', id) → d.rows id = none ∧ ∀ id', id' ≠ id → d'.rows id' = d.rows id') ∧
    (∀ d' id, dbUpdate o d id x = .ok d' → ∀ id', id' ≠ id → d'.rows id' = d.rows id') := by
  constructor
  · intro d' id h
    obtain ⟨rows, hw, hd'⟩ := dbCreate_rows o d d' x id h
    have hid : id = nextId d := by
      unfold dbCreate at h
      rw [hw] at h
      simp only at h
      split at h
      · cases h
      · simp only [Res.ok.injEq, Prod.mk.injEq] at h; exact h.2.symm
    subst hd'
    refine ⟨by rw [hid]; exact aget_nextId d, ?_⟩
    intro id' hne
    exact aget_append_other _ _ _ _ hne
  · intro d' id h id' hne
    obtain ⟨prior, rows, _, _, hd'⟩ := dbUpdate_rows o d d' x id h
    subst hd'
    exact aget_aset_other _ _ _ _ hne

/-! ### a failed call leaves the database unchanged — statement by statement

`writeCall` (Txn.lean): `prepare` (before the transaction; nothing is stepped if it throws), then
`BEGIN; Track; MetaData; MetaDataInteger; PerformanceData; COMMIT` on SQLite's connection model, with
`fault = some k` failing the k-th of these six statements and `auto` choosing whether SQLite rolls back by
itself.  Each write changes its own table; a statement may also fail by itself (`UNIQUE(path)`, no `Track`
row for the id, an encoder throwing). -/

/-- **All or nothing, `create_track`, any fault position.**  If the statement run raises, the connection is
back in autocommit mode on exactly the database it started from — although the working copy had by then
received up to four tables' worth of rows; if it does not raise, the committed database is the one the
value-level `dbCreate` returns.  Without an injected fault the run raises exactly when `dbCreate` throws. -/
theorem v1_C01_txn_create (o : FOps) (d : Db) (x : Snap) (pr : Prep) (hp : prepare o x = .ok pr)
    (fault : Option Nat) (auto : Bool) :
    let out := call fault auto (writeCmds o d.schema x pr (nextId d) false) d
    (out.raised = true → out.conn = Conn.idle d) ∧
    (out.raised = false → out.conn.working = none ∧ dbCreate o d x = .ok (out.conn.committed, nextId d)) ∧
    (fault = none → (out.raised = true ↔ ∃ e, dbCreate o d x = .throw e)) := by
  intro out
  have hshape := writeCmds_shape o d.schema x pr (nextId d) false
  have hsound := txn_shape_sound _ hshape fault auto d
  obtain ⟨hst, hnone⟩ := dbCreate_statements o d x pr hp
  refine ⟨hsound.1, ?_, ?_⟩
  · intro hr
    refine ⟨(hsound.2 hr).1, ?_⟩
    have := txn_all_writes _ hshape (writeCmds_noRollback o d.schema x pr (nextId d) false) fault auto d hr
    exact (hst _).mp this
  · intro hf
    subst hf
    have hr : out.raised = (Spec.Txn.applyAll (Spec.Txn.writesOf (writeCmds o d.schema x pr (nextId d) false)) d).isNone :=
      call_none_raised _ _ _ _ auto d
    rw [hr, Option.isNone_iff_eq_none]
    exact hnone

/-- **All or nothing, `update`, any fault position** (the track need not exist: then the `UPDATE` finds no
row, the call throws `track_deleted` and the three dependent tables are never touched — the `fix:` 353e3ca). -/
theorem v1_C01_txn_update (o : FOps) (d : Db) (id : Int) (x : Snap) (pr : Prep) (hp : prepare o x = .ok pr)
    (fault : Option Nat) (auto : Bool) :
    let out := call fault auto (writeCmds o d.schema x pr id true) d
    (out.raised = true → out.conn = Conn.idle d) ∧
    (out.raised = false → out.conn.working = none ∧ dbUpdate o d id x = .ok out.conn.committed) ∧
    (fault = none → (out.raised = true ↔ ∃ e, dbUpdate o d id x = .throw e)) := by
  intro out
  have hshape := writeCmds_shape o d.schema x pr id true
  have hsound := txn_shape_sound _ hshape fault auto d
  obtain ⟨hst, hnone⟩ := dbUpdate_statements o d id x pr hp
  refine ⟨hsound.1, ?_, ?_⟩
  · intro hr
    refine ⟨(hsound.2 hr).1, ?_⟩
    have := txn_all_writes _ hshape (writeCmds_noRollback o d.schema x pr id true) fault auto d hr
    exact (hst _).mp this
  · intro hf
    subst hf
    have hr : out.raised = (Spec.Txn.applyAll (Spec.Txn.writesOf (writeCmds o d.schema x pr id true)) d).isNone :=
      call_none_raised _ _ _ _ auto d
    rw [hr, Option.isNone_iff_eq_none]
    exact hnone

/-- An exception while the values are prepared (no relative path, a waveform without sample count / rate,
nine loops) is thrown before `BEGIN`: both calls throw it and no statement is stepped; preparing is never
undefined. -/
theorem v1_C01_txn_prepare (o : FOps) (d : Db) (id : Int) (x : Snap) :
    (∀ e, prepare o x = .throw e → dbCreate o d x = .throw e ∧ dbUpdate o d id x = .throw e ∧
      ∀ upd fault auto, writeCall o d x id upd fault auto = (d, true)) ∧
    (∀ u, prepare o x ≠ .ub u) := by
  refine ⟨?_, prepare_defined o x⟩
  intro e he
  refine ⟨dbCreate_prepare_throw o d x e he, dbUpdate_prepare_throw o d id x e he, ?_⟩
  intro upd fault auto
  unfold writeCall
  rw [he]

/-- The whole call in one statement: whatever the snapshot, the fault position and SQLite's rollback mode —
`writeCall` raised ⇒ the database is the one before the call. -/
theorem v1_C01_db_reject_unchanged (o : FOps) (d : Db) (x : Snap) (id : Int) (upd : Bool) (fault : Option Nat)
    (auto : Bool) (h : (writeCall o d x id upd fault auto).2 = true) : (writeCall o d x id upd fault auto).1 = d := by
  unfold writeCall at h ⊢
  cases hp : prepare o x with
  | ok pr =>
    rw [hp] at h
    simp only at h ⊢
    have hs := (txn_shape_sound _ (writeCmds_shape o d.schema x pr id upd) fault auto d).1 h
    rw [hs]; rfl
  | throw e => rfl
  | ub u => rfl

/-! ### the blob columns are the byte-level codecs composed

`viaBytes enc dec v = (enc v).bind dec` with `enc` / `dec` the statement-by-statement mirrors of
performance_data_format.cpp in Impl/V1.lean.  Proved from the locked C03 read-back theorems. -/

/-- Track data, beat data, high-resolution and overview waveform: the model's `norm…` is `decode ∘ encode`,
outcome for outcome. -/
theorem v1_C01_codec_bridge (t : Impl.V1.Track) (b : Impl.V1.Beat) (w : Impl.V1.Wave)
    (hh : 30 + 6 * w.entries.length < Codec.maxCount) :
    viaBytes Impl.V1.encodeTrack Impl.V1.decodeTrack t = .ok (normTrack t) ∧
    viaBytes Impl.V1.encodeBeat Impl.V1.decodeBeat b = normBeat b ∧
    viaBytes Impl.V1.encodeHires Impl.V1.decodeHires w = .ok (normHires w) ∧
    viaBytes Impl.V1.encodeOvw Impl.V1.decodeOvw w = .ok (normOvw w) :=
  ⟨bridge_track t, bridge_beat b, bridge_hires w hh, bridge_ovw w (by omega)⟩

/-- Quick cues and loops: the same value when accepted, an exception on both sides otherwise (the class of
the exception is compared by the tie; the locked C03 theorems conclude "throws"). -/
theorem v1_C01_codec_bridge_slots (c : Impl.V1.Cues) (l : Impl.V1.Loops) (hl : l.length < Codec.maxCount) :
    Res.agree (viaBytes Impl.V1.encodeCues Impl.V1.decodeCues c) (normCues c) ∧
    Res.agree (viaBytes Impl.V1.encodeLoops Impl.V1.decodeLoops l) (normLoops l) :=
  ⟨bridge_cues c, bridge_loops l hl⟩

/-- What a stored column holds: the decoder's reading of the encoder's bytes for the value `v` that the
conversion built. -/
def blobStored {α} (enc : α → Res Bytes) (dec : Bytes → Res α) (v c : α) : Prop := ∃ b, enc v = .ok b ∧ dec b = .ok c

theorem blobStored_of {α} (enc : α → Res Bytes) (dec : Bytes → Res α) (v c : α) (h : viaBytes enc dec v = .ok c) :
    blobStored enc dec v c := by
  unfold viaBytes at h
  cases he : enc v with
  | ok b => rw [he] at h; exact ⟨b, he, h⟩
  | throw e => rw [he] at h; cases h
  | ub u => rw [he] at h; cases h

/-- **The round trip really passes through the encoders and decoders.**  For every accepted snapshot
(waveform below the size any C++ vector has) the write succeeds, each of the six blob columns of the
written PerformanceData row is `decode b` for the bytes `b = encode v` of the value `v` that
`to_track_data` / `to_beat_data` / `to_cues_data` / `to_loops_data` / `to_*_waveform_data` built from the
snapshot, and `snapshot()` of the rows is the normalised snapshot. -/
theorem v1_C01_roundtrip_through_bytes (o : FOps) (s : Schema) (x y : Snap) (prior : Option TrackRows)
    (hn : Spec.NoNaN x = true) (h : Spec.normalize s x = some y)
    (hlen : 30 + 6 * x.waveform.length < Codec.maxCount) :
    ∃ rows p pr, writeSnap o s x prior = .ok rows ∧ rows.perf = some p ∧ prepare o x = .ok pr ∧
      blobStored Impl.V1.encodeTrack Impl.V1.decodeTrack ⟨x.sampleRate, x.sampleCount, x.averageLoudness, x.key⟩ p.trackData ∧
      blobStored Impl.V1.encodeBeat Impl.V1.decodeBeat
        ⟨x.sampleRate, x.sampleCount.map (fun n => o.ofU64 n.toNat), x.beatgrid, x.beatgrid⟩ p.beat ∧
      blobStored Impl.V1.encodeCues Impl.V1.decodeCues (toCues x.hotCues x.mainCue) p.cues ∧
      blobStored Impl.V1.encodeLoops Impl.V1.decodeLoops pr.loops p.loops ∧
      blobStored Impl.V1.encodeHires Impl.V1.decodeHires pr.hires p.hires ∧
      blobStored Impl.V1.encodeOvw Impl.V1.decodeOvw pr.ovw p.overview ∧
      readSnap o s rows = .ok y := by
  obtain ⟨rows, hw, hr⟩ := v1_C01_roundtrip o s x y prior hn h
  have hw' := hw
  rw [writeSnap_eq] at hw'
  obtain ⟨pr, hpr, hw'⟩ := Res.bind_eq_ok hw'
  obtain ⟨c, hc, hw'⟩ := Res.bind_eq_ok hw'
  cases hw'
  unfold perfCols at hc
  obtain ⟨bt, hbt, hc⟩ := Res.bind_eq_ok hc
  obtain ⟨cs, hcs, hc⟩ := Res.bind_eq_ok hc
  obtain ⟨lp, hlp, hc⟩ := Res.bind_eq_ok hc
  cases hc
  -- the sizes: the stored waveforms are the given one and its (at most 1024-entry) resampling
  have hprep := hpr
  unfold prepare at hprep
  cases hpath : x.relativePath with
  | none => rw [hpath] at hprep; cases hprep
  | some path =>
    rw [hpath] at hprep
    simp only at hprep
    obtain ⟨lc, _, hprep⟩ := Res.bind_eq_ok hprep
    obtain ⟨bi, _, hprep⟩ := Res.bind_eq_ok hprep
    obtain ⟨ov, hov, hprep⟩ := Res.bind_eq_ok hprep
    obtain ⟨hi, hhi, hprep⟩ := Res.bind_eq_ok hprep
    obtain ⟨ls, hls, hprep⟩ := Res.bind_eq_ok hprep
    cases hprep
    have hls8 : ls.length < Codec.maxCount := by
      rcases toLoops_cases x.loops with ⟨h8, ht⟩ | ⟨_, ht⟩
      · rw [ht] at hls; cases hls; rw [padTo8_length _ h8]; decide
      · rw [ht] at hls; cases hls
    have hhil : hi.entries.length = x.waveform.length ∨ hi.entries.length = 0 := toHires_entries o _ _ _ _ hhi
    have hovl : ov.entries.length ≤ 1024 := toOverview_entries o _ _ _ _ hov
    refine ⟨_, _, _, hw, rfl, hpr, ?_, ?_, ?_, ?_, ?_, ?_, hr⟩
    · exact blobStored_of _ _ _ _ (bridge_track _)
    · exact blobStored_of _ _ _ _ (by rw [bridge_beat]; exact hbt)
    · have := bridge_cues (toCues x.hotCues x.mainCue)
      rw [hcs] at this
      exact blobStored_of _ _ _ _ (Res.agree_ok this)
    · have := bridge_loops ls hls8
      rw [hlp] at this
      exact blobStored_of _ _ _ _ (Res.agree_ok this)
    · refine blobStored_of _ _ _ _ (bridge_hires hi ?_)
      unfold Codec.maxCount at hlen ⊢
      rcases hhil with h1 | h1 <;> omega
    · refine blobStored_of _ _ _ _ (bridge_ovw ov ?_)
      unfold Codec.maxCount
      omega

/-! ### NaN (outside the property's quantifier): what the library does -/

/-- **Every snapshot, NaN included**: the write is accepted exactly when `Spec.libAccepted`, then reads
back as `Spec.normFieldsNaN`; otherwise it throws; it is never undefined (`v1_C01_never_ub`). -/
theorem v1_C01_nan_total (o : FOps) (s : Schema) (x : Snap) (prior : Option TrackRows) :
    (∀ y, Spec.normalizeNaN s x = some y → ∃ rows, writeSnap o s x prior = .ok rows ∧ readSnap o s rows = .ok y) ∧
    (Spec.normalizeNaN s x = none → ∃ e, writeSnap o s x prior = .throw e) := by
  obtain ⟨h1, h2⟩ := writeSnap_total o s x prior
  unfold Spec.normalizeNaN
  constructor
  · intro y hy
    by_cases ha : Spec.libAccepted x = true
    · rw [if_pos ha] at hy; cases hy; exact h1 ha
    · rw [if_neg ha] at hy; cases hy
  · intro hy
    by_cases ha : Spec.libAccepted x = true
    · rw [if_pos ha] at hy; cases hy
    · rw [if_neg ha] at hy
      cases hh : Spec.libAccepted x with
      | true => exact absurd hh ha
      | false => exact h2 hh

/-- On snapshots without NaN this is the property's `normalize`. -/
theorem v1_C01_nan_agrees (s : Schema) (x : Snap) (hn : Spec.NoNaN x = true) :
    Spec.normalizeNaN s x = Spec.normalize s x := by
  unfold Spec.normalizeNaN Spec.normalize
  rw [libAccepted_eq x hn]
  split
  · congr 1
    unfold Spec.normFieldsNaN
    have : Spec.dropNaN (Spec.normFields s x).bpm = (Spec.normFields s x).bpm :=
      dropNaN_finite x.bpm (noNaN_bpm x hn)
    rw [this]
  · rfl

/-- What changes when a NaN is stored: nothing, bit for bit — average loudness, main cue, sample rate, cue
and loop offsets, grid offsets all come back as `normalize` would return them for any other bit pattern —
except the BPM, which comes back absent. -/
theorem v1_C01_nan_fields (s : Schema) (x y : Snap) (h : Spec.normalizeNaN s x = some y) :
    y = { Spec.normFields s x with bpm := y.bpm } ∧
    (∀ b, x.bpm = some b → F64.isNaN b = true → y.bpm = none) ∧
    (∀ b, x.bpm = some b → F64.isNaN b = false → y.bpm = some (if b = F64.negZero then F64.zero else b)) ∧
    (∀ b, x.averageLoudness = some b → F64.isNaN b = true → y.averageLoudness = some b) ∧
    (∀ b, x.mainCue = some b → F64.isNaN b = true → y.mainCue = some b) ∧
    (∀ b, x.sampleRate = some b → F64.isNaN b = true → y.sampleRate = some b) := by
  unfold Spec.normalizeNaN at h
  split at h
  · cases h
    have nz : ∀ b, F64.isNaN b = true → Spec.dropZero (some b) = some b := by
      intro b hb
      unfold Spec.dropZero
      have h1 : b ≠ F64.zero := by intro e; rw [e] at hb; revert hb; decide
      have h2 : b ≠ F64.negZero := by intro e; rw [e] at hb; revert hb; decide
      simp [h1, h2]
    refine ⟨rfl, ?_, ?_, ?_, ?_, ?_⟩
    · intro b hb hnan
      have hnz : b ≠ F64.negZero := by intro e; rw [e] at hnan; revert hnan; decide
      simp [Spec.normFieldsNaN, Spec.normFields, hb, Spec.dropNaN, hnz, hnan]
    · intro b hb hnan
      simp only [Spec.normFieldsNaN, Spec.normFields, hb, Option.map_some, Spec.dropNaN, Option.bind_some]
      by_cases hz : b = F64.negZero
      · simp only [hz, if_true]; rfl
      · simp only [hz, if_false, hnan]; rfl
    · intro b hb hnan; simp only [Spec.normFieldsNaN, Spec.normFields, hb]; exact nz b hnan
    · intro b hb hnan; simp only [Spec.normFieldsNaN, Spec.normFields, hb]; exact nz b hnan
    · intro b hb hnan; simp only [Spec.normFieldsNaN, Spec.normFields, hb]; exact nz b hnan
  · cases h

/-- The library accepts beat grids that the Spec's test rejects only when they contain NaN:
`validate_beatgrid` tests `!(next <= prev)`; witness with a NaN offset in the middle. -/
theorem v1_C01_nan_grid_counterexample :
    ∃ x : Snap, Spec.libAccepted x = true ∧ Spec.accepted x = false ∧ Spec.NoNaN x = false :=
  ⟨{ Snap.empty with relativePath := some [97], beatgrid := [⟨0, 0⟩, ⟨4, 0x7ff8000000000001⟩, ⟨8, 0x40e5888000000000⟩] },
    by decide, by decide, by decide⟩

/-! ### non-vacuity -/

def exOps : FOps := ⟨fun _ => 0, fun n => if n = 0 then 0 else F64.one, fun _ _ => 0, fun b => b⟩
def exEmpty : Db := ⟨.s1_15_0, []⟩
def exDb1 : Db := ((dbCreate exOps exEmpty exA).toOption.map (·.1)).getD exEmpty
def exB : Snap := { exA with relativePath := some [120, 46, 109, 112, 51], title := some [66] }
def exThrown {α} : Res α → Option Exn
  | .throw e => some e
  | _ => none

/-- one track created, a second snapshot with the same path is refused by `UNIQUE(path)`, one with another
path is written and leaves the first track alone -/
example : exDb1.tracks.length = 1 := by decide +kernel
example : exThrown (dbCreate exOps exDb1 exA) = some .sqlite_error := by decide +kernel
example : ((dbCreate exOps exDb1 exB).toOption.map fun r => (r.1.rows 1 == exDb1.rows 1, r.2)) = some (true, 2) := by
  decide +kernel
/-- `prepare` succeeds for `exA`; the fault-free statement run does not raise; a fault at each of the six
statements raises and gives back the database it started from — while the working copy before the fault at
the fifth statement already held the track's Track, MetaData and MetaDataInteger rows -/
example : (prepare exOps exB).isOk = true := by decide +kernel
example : (writeCall exOps exDb1 exB 2 false none false).2 = false ∧
    (writeCall exOps exDb1 exB 2 false none false).1.tracks.length = 2 := by decide +kernel
example : ∀ k ∈ [0, 1, 2, 3, 4, 5], ∀ auto ∈ [false, true],
    (writeCall exOps exDb1 exB 2 false (some k) auto).2 = true ∧
    (writeCall exOps exDb1 exB 2 false (some k) auto).1.tracks.length = 1 := by decide +kernel
example : (writeCall exOps exDb1 exB 2 false (some 6) false).2 = false := by decide +kernel
example : ((prepare exOps exB).toOption.map fun pr =>
    ((call none false ((writeCmds exOps .s1_15_0 exB pr 2 false).take 4) exDb1).conn.working.map
      fun w => (w.tracks.length, (w.rows 2).map fun r => (r.mstr.length, r.mint.length, r.perf.isSome)))) =
    some (some (2, some (15, 12, false))) := by decide +kernel
/-- an update of an absent track raises at the `UPDATE Track` statement: nothing is written -/
example : (writeCall exOps exDb1 exB 7 true none false).2 = true ∧
    (writeCall exOps exDb1 exB 7 true none false).1.tracks.length = 1 := by decide +kernel
/-- NaN: a NaN BPM reads back absent, a NaN main cue survives -/
example : ((Spec.normalizeNaN .s1_6_0 { exA with bpm := some 0x7ff8000000000001, mainCue := some 0x7ff8000000000001 }).map
    fun y => (y.bpm, y.mainCue)) = some (none, some 0x7ff8000000000001) := by decide
example : 30 + 6 * exA.waveform.length < Codec.maxCount := by decide

end EngineModel.Properties.C01V1
