/-
C06, schema 1.x (legacy layout, the eleven versions 1.6.0 … 1.18.0 os):
"after any sequence of single-field setter calls on tracks, each getter
returns the value last set for its field (under the same normalisation as a
snapshot), getter and snapshot field always agree, and no setter changes the
observable value of any other field of that track or of any other track, apart
from the file name and extension derived from the relative path".

Model (EngineModel/TracksV1/Accessors.lean): `get` / `set` = the 26 getters and
setters of `engine_track_impl.cpp` on the rows of one track (read-modify-write
of one PerformanceData blob column behind its decode-after-encode guard, or of
Track / MetaData / MetaDataInteger cells), `readSnap` = `snapshot()`,
`dbSet` / `dbGet` / `dbSnap` = the same on a database of several tracks
(`UNIQUE(path)` from 1.11.1), `dbRun` = a finite history of setter calls.
Spec (SpecFields.lean, SpecLens.lean): `normField` (the normalisation of C01,
field by field; `none` = the call must throw), `snapField` / `putField` (the
track as a record of lenses), `independent`, `replay`.
`Inv` is the invariant of rows the library itself builds; `o : FOps` (double
arithmetic that only reaches raw columns) is arbitrary, the only law ever
assumed of it is `CeilInRange` where stated.  NaN is outside the quantifier,
which matters for `set_bpm` only (`Spec.finiteArg`).
-/
import Proofs.TracksV1HistDb
import Proofs.TracksV1Table

namespace EngineModel.Properties.C06V1

open EngineModel EngineModel.TracksV1
open Fl (FOps)

/-- **Every setter is the lens the Spec describes.**  On rows satisfying the invariant, a call that
returns normally was acceptable to the Spec, and `snapshot()` afterwards is the snapshot before with
exactly that field replaced by the normalised value (the other 24 fields, and for a slot setter the
other seven slots, unchanged); the invariant is kept. -/
theorem v1_C06_setter_spec (o : FOps) (s : Schema) (r r' : TrackRows) (y : Snap) (f : Field) (v : f.ty)
    (hinv : Inv r = true) (hfin : Spec.finiteArg f v = true) (hy : readSnap o s r = .ok y)
    (h : set o r f v = .ok r') :
    ∃ w, Spec.normField f v = some w ∧ readSnap o s r' = .ok (Spec.putField y f w) ∧ Inv r' = true := by
  have hi := (inv_iff r).mp hinv
  obtain ⟨w, hw, hs, hi'⟩ := set_refines o s r r' f v hi hfin h
  rw [readSnap_of_inv o s r hi] at hy
  cases hy
  exact ⟨w, hw, by rw [readSnap_of_inv o s r' hi', hs], (inv_iff r').mpr hi'⟩

/-- **get ∘ set = normalisation.**  After a call that returned normally the getter of that field
returns the Spec's normalisation of the value passed. -/
theorem v1_C06_get_set (o : FOps) (r r' : TrackRows) (f : Field) (v : f.ty) (hinv : Inv r = true)
    (hfin : Spec.finiteArg f v = true) (h : set o r f v = .ok r') :
    ∃ w, Spec.normField f v = some w ∧ get o r' f = .ok w := by
  have hi := (inv_iff r).mp hinv
  obtain ⟨w, hw, hs, hi'⟩ := set_refines o .s1_6_0 r r' f v hi hfin h
  refine ⟨w, hw, ?_⟩
  rw [get_eq_snapField o .s1_6_0 r' hi' f, hs]
  exact snapField_put_same _ f w (set_slotValid o .s1_6_0 r r' f v h)

/-- **Reject.**  A value the Spec rejects (a beat grid the format cannot hold, more than eight cues or
loops, a label that is empty or longer than 255 bytes, a slot index outside 0..7) makes the setter
throw: it never returns normally and never runs into undefined behaviour; nothing is written (a
`throw` carries no new state, see `dbStep`). -/
theorem v1_C06_reject (o : FOps) (r : TrackRows) (f : Field) (v : f.ty) (hinv : Inv r = true)
    (h : Spec.normField f v = none) : ∃ e, set o r f v = .throw e := by
  have hfin : Spec.finiteArg f v = true := by
    cases f <;> first | rfl | (simp [Spec.normField] at h)
  have hnb : f = .bpm → CeilInRange o := by
    intro hf; subst hf; simp [Spec.normField] at h
  cases hs : set o r f v with
  | ok r' =>
    obtain ⟨w, hw, _⟩ := set_refines o .s1_6_0 r r' f v ((inv_iff r).mp hinv) hfin hs
    rw [h] at hw; cases hw
  | throw e => exact ⟨e, rfl⟩
  | ub u => exact absurd hs (set_defined o r f v hnb u)

/-- **No setter has undefined behaviour**, whatever the rows and the value (NaN included); for
`set_bpm` given that `ceil` maps doubles below 2^63 in magnitude into the range of `int64_t`. -/
theorem v1_C06_never_ub (o : FOps) (r : TrackRows) (f : Field) (v : f.ty) (hc : f = .bpm → CeilInRange o)
    (u : Ub) : set o r f v ≠ .ub u :=
  set_defined o r f v hc u

/-- **Frame.**  For every ordered pair of independent fields (all pairs of different fields, including
two different slots, except a slot and the list holding it): a setter call that returned normally
leaves the other getter's answer unchanged. -/
theorem v1_C06_frame (o : FOps) (r r' : TrackRows) (f g : Field) (v : f.ty) (hinv : Inv r = true)
    (hfin : Spec.finiteArg f v = true) (hfg : Spec.independent f g = true) (h : set o r f v = .ok r') :
    get o r' g = get o r g := by
  have hi := (inv_iff r).mp hinv
  obtain ⟨w, _, hs, hi'⟩ := set_refines o .s1_6_0 r r' f v hi hfin h
  rw [get_eq_snapField o .s1_6_0 r' hi' g, get_eq_snapField o .s1_6_0 r hi g, hs]
  exact snapField_put_other _ f g w hfg

/-- **The derived pair.**  File name and extension change only with the relative path, and then they
are the file name / extension of the new path. -/
theorem v1_C06_frame_derived (o : FOps) (r : TrackRows) (hinv : Inv r = true) :
    (∀ (f : Field) (v : f.ty) (r' : TrackRows), f ≠ .relativePath → Spec.finiteArg f v = true →
      set o r f v = .ok r' → ∀ d, getDerived r' d = getDerived r d) ∧
    (∀ (p : Bytes) (r' : TrackRows), set o r .relativePath p = .ok r' →
      getDerived r' .filename = getFilename p ∧ getDerived r' .fileExtension = (getExtension p).getD []) := by
  constructor
  · intro f v r' hf hfin h d
    obtain ⟨w, _, hs, _⟩ := set_refines o .s1_6_0 r r' f v ((inv_iff r).mp hinv) hfin h
    have hp : r'.track.path = r.track.path := by
      have := congrArg Snap.relativePath hs
      rw [putField_path _ f w hf] at this
      exact this
    cases d <;> simp only [getDerived, hp]
  · intro p r' h
    simp only [TracksV1.set, Res.ok.injEq] at h
    subst h
    exact ⟨rfl, rfl⟩

/-- **Getter = snapshot field.**  On rows satisfying the invariant `snapshot()` succeeds and every
getter returns the corresponding field of it (a per-slot getter: that slot, `out_of_range` outside the
slots). -/
theorem v1_C06_getter_snapshot (o : FOps) (s : Schema) (r : TrackRows) (hinv : Inv r = true) :
    ∃ y, readSnap o s r = .ok y ∧ ∀ f, get o r f = Spec.snapField y f := by
  have hi := (inv_iff r).mp hinv
  exact ⟨snapOf o s r, readSnap_of_inv o s r hi, get_eq_snapField o s r hi⟩

/-- The per-slot getters never index out of bounds (no invariant needed). -/
theorem v1_C06_slot_getters_safe (o : FOps) (r : TrackRows) (i : UInt32) (u : Ub) :
    get o r (.hotCueAt i) ≠ .ub u ∧ get o r (.loopAt i) ≠ .ub u := by
  constructor
  · simp only [TracksV1.get, slotIndex_eq]
    cases hs : Spec.slotOf i (colCues r).cues.length with
    | none => simp [Res.bind]
    | some k =>
      have hk := slotOf_lt _ _ _ hs
      simp only [Res.bind, liftUb]
      cases hget : (colCues r).cues[k]? with
      | some a => intro h; cases h
      | none => have := List.getElem?_eq_none_iff.mp hget; omega
  · simp only [TracksV1.get, slotIndex_eq]
    cases hs : Spec.slotOf i (colLoops r).length with
    | none => simp [Res.bind]
    | some k =>
      have hk := slotOf_lt _ _ _ hs
      simp only [Res.bind, liftUb]
      cases hget : (colLoops r)[k]? with
      | some a => intro h; cases h
      | none => have := List.getElem?_eq_none_iff.mp hget; omega

/-- **The invariant is established** by `create_track` (`prior = none`) and by `update` over any prior
rows whatsoever. -/
theorem v1_C06_inv_write (o : FOps) (s : Schema) (x : Snap) (prior : Option TrackRows) (rows : TrackRows)
    (h : writeSnap o s x prior = .ok rows) : Inv rows = true :=
  (inv_iff rows).mpr (writeSnap_inv o s x prior rows h)

/-- **… and preserved by every setter**, whatever the value. -/
theorem v1_C06_inv_set (o : FOps) (r r' : TrackRows) (f : Field) (v : f.ty) (hinv : Inv r = true)
    (h : set o r f v = .ok r') : Inv r' = true :=
  (inv_iff r').mpr (set_inv o .s1_6_0 r r' f v ((inv_iff r).mp hinv) h)

/-- The same on the database: the empty database, `create_track` and `update` keep every track's rows
inside the invariant. -/
theorem v1_C06_inv_db (o : FOps) (d : Db) (hinv : DbInv d) :
    DbInv ⟨d.schema, []⟩ ∧
    (∀ x d' id, dbCreate o d x = .ok (d', id) → DbInv d') ∧
    (∀ x d' id, dbUpdate o d id x = .ok d' → DbInv d') ∧
    (∀ id f v d', dbSet o d id f v = .ok d' → DbInv d') := by
  refine ⟨?_, ?_, ?_, ?_⟩
  · intro id r h; cases h
  · intro x d' id h; exact dbCreate_inv o d d' x id hinv h
  · intro x d' id h; exact dbUpdate_inv o d d' x id hinv h
  · intro id f v d' h id' r hr
    obtain ⟨r0, r0', h0, hs, h0', _⟩ := dbSet_rows_same o d d' id f v h
    by_cases hid : id' = id
    · subst hid
      rw [h0'] at hr
      cases hr
      exact v1_C06_inv_set o r0 r f v (hinv _ _ h0) hs
    · rw [dbSet_rows_other o d d' id id' f v hid h] at hr
      exact hinv _ _ hr

/-- **Other tracks.**  A setter call on one track leaves the rows — hence every getter and the
snapshot — of every other track exactly as they were. -/
theorem v1_C06_other_track (o : FOps) (d d' : Db) (id id' : Int) (f : Field) (v : f.ty) (hne : id' ≠ id)
    (h : dbSet o d id f v = .ok d') :
    d'.rows id' = d.rows id' ∧ dbSnap o d' id' = dbSnap o d id' ∧ ∀ g, dbGet o d' id' g = dbGet o d id' g := by
  have hr := dbSet_rows_other o d d' id id' f v hne h
  obtain ⟨_, _, _, _, _, hs⟩ := dbSet_rows_same o d d' id f v h
  refine ⟨hr, ?_, ?_⟩
  · simp only [dbSnap, hr, hs]
  · intro g; simp only [dbGet, hr]

/-- The database-level call on the track itself: get ∘ set and frame through `dbGet`. -/
theorem v1_C06_db_get_set (o : FOps) (d d' : Db) (id : Int) (f : Field) (v : f.ty) (hinv : DbInv d)
    (hfin : Spec.finiteArg f v = true) (h : dbSet o d id f v = .ok d') :
    ∃ w, Spec.normField f v = some w ∧ dbGet o d' id f = .ok w ∧
      ∀ g, Spec.independent f g = true → dbGet o d' id g = dbGet o d id g := by
  obtain ⟨r, r', hr, hs, hr', _⟩ := dbSet_rows_same o d d' id f v h
  obtain ⟨w, hw, hg⟩ := v1_C06_get_set o r r' f v (hinv _ _ hr) hfin hs
  refine ⟨w, hw, ?_, ?_⟩
  · simp only [dbGet, hr', hg]
  · intro g hfg
    simp only [dbGet, hr', hr]
    exact v1_C06_frame o r r' f g v (hinv _ _ hr) hfin hfg hs

/-- **Any finite sequence of setter calls, interleaved over any number of tracks.**  Afterwards every
track's rows still satisfy the invariant, and the snapshot of every track is exactly the snapshot
before with the history's successful calls on that track applied as Spec lenses in order
(`Spec.replay`: each such call puts the normalised value into its field and nothing else; failed calls
and calls on other tracks change nothing); a call that returned normally was acceptable to the Spec;
tracks that did not exist still do not. -/
theorem v1_C06_history (o : FOps) (d : Db) (h : List SetOp) (hinv : DbInv d)
    (hfin : ∀ op ∈ h, Spec.finiteArg op.f op.v = true) :
    DbInv (dbRun o d h).1 ∧
    (∀ e ∈ (dbRun o d h).2, e.2 = true → (Spec.normField e.1.f e.1.v).isSome = true) ∧
    (∀ id, d.rows id = none → (dbRun o d h).1.rows id = none) ∧
    (∀ id y, dbSnap o d id = .ok y → dbSnap o (dbRun o d h).1 id = .ok (Spec.replay id (dbRun o d h).2 y)) := by
  obtain ⟨h1, h2, h3, h4, h5⟩ := dbRun_spec o h d hinv hfin
  refine ⟨h1, h3, h4, ?_⟩
  intro id y hy
  unfold dbSnap at hy ⊢
  cases hr : d.rows id with
  | none => rw [hr] at hy; cases hy
  | some r =>
    rw [hr] at hy
    simp only at hy
    have hi := (inv_iff r).mp (hinv _ _ hr)
    rw [readSnap_of_inv o _ r hi] at hy
    cases hy
    obtain ⟨r', hr', hs⟩ := h5 id r hr
    rw [hr']
    simp only
    rw [h2, readSnap_of_inv o _ r' ((inv_iff r').mp (h1 _ _ hr')), hs]

/-- After any history every getter of every track still agrees with its snapshot field. -/
theorem v1_C06_history_getters (o : FOps) (d : Db) (h : List SetOp) (hinv : DbInv d)
    (hfin : ∀ op ∈ h, Spec.finiteArg op.f op.v = true) (id : Int) (r : TrackRows)
    (hr : (dbRun o d h).1.rows id = some r) :
    ∃ y, dbSnap o (dbRun o d h).1 id = .ok y ∧ ∀ f, dbGet o (dbRun o d h).1 id f = Spec.snapField y f := by
  obtain ⟨h1, _⟩ := v1_C06_history o d h hinv hfin
  obtain ⟨y, hy, hg⟩ := v1_C06_getter_snapshot o (dbRun o d h).1.schema r (h1 _ _ hr)
  refine ⟨y, by simp only [dbSnap, hr, hy], ?_⟩
  intro f
  simp only [dbGet, hr, hg]

/-- **A history that never names a track leaves it untouched** (rows, hence all observations). -/
theorem v1_C06_history_other_tracks (o : FOps) (d : Db) (h : List SetOp) (id : Int)
    (hne : ∀ op ∈ h, op.id ≠ id) : (dbRun o d h).1.rows id = d.rows id :=
  dbRun_other o h d id hne

/-- **Handles of tracks that are not (or no longer) in the database.**  Every setter throws — never
returns normally, never undefined behaviour — so nothing is written for the missing track; `snapshot()`
and the getters that read a `Track` column throw `track_deleted`; `is_valid()` is false. -/
theorem v1_C06_absent_track (o : FOps) (d : Db) (id : Int) (h : d.rows id = none) :
    (∀ (f : Field) (v : f.ty), ∃ e, dbSet o d id f v = .throw e) ∧
    dbSnap o d id = .throw (.dj "track_deleted") ∧ dbIsValid d id = false ∧
    (∀ f : Field, f.trackColumn = true → dbGet o d id f = .throw (.dj "track_deleted")) := by
  refine ⟨fun f v => dbSet_absent o d id f v h, ?_, ?_, ?_⟩
  · simp only [dbSnap, h]
  · simp only [dbIsValid, h]; rfl
  · intro f hf; simp only [dbGet, h, hf, if_true]

/-- **`remove_track`** makes the track absent and leaves the rows (hence every getter and the snapshot)
of every other track, the schema and the invariant as they were; so a history with removals in it
decomposes into setter histories (`v1_C06_history`) between removals. -/
theorem v1_C06_remove_track (d : Db) (id : Int) :
    (dbRemove d id).rows id = none ∧ (dbRemove d id).schema = d.schema ∧
    (∀ id', id' ≠ id → (dbRemove d id).rows id' = d.rows id') ∧ (DbInv d → DbInv (dbRemove d id)) := by
  refine ⟨aget_filter_ne _ _, rfl, fun id' hne => aget_filter_other _ _ _ hne, ?_⟩
  intro hinv id' r hr
  by_cases hid : id' = id
  · subst hid
    have : (dbRemove d id').rows id' = none := aget_filter_ne _ _
    rw [this] at hr; cases hr
  · have : (dbRemove d id).rows id' = d.rows id' := aget_filter_other _ _ _ hid
    rw [this] at hr
    exact hinv _ _ hr

/-- **The `Track` table stays well-formed.**  Distinct ids, `UNIQUE(path)` (from 1.11.1 on: no two
tracks with the same path) and the row invariant hold of the empty database and are kept by
`create_track`, `update`, every setter and `remove_track`; so every database reachable through the
modelled calls satisfies the hypotheses `Inv` / `DbInv` of the theorems above. -/
theorem v1_C06_table_ok (o : FOps) (d : Db) (hok : TableOk d) :
    TableOk ⟨d.schema, []⟩ ∧
    (∀ x d' id, dbCreate o d x = .ok (d', id) → TableOk d') ∧
    (∀ x d' id, dbUpdate o d id x = .ok d' → TableOk d') ∧
    (∀ id f v d', dbSet o d id f v = .ok d' → TableOk d') ∧
    (∀ id, TableOk (dbRemove d id)) := by
  refine ⟨⟨?_, ?_, ?_⟩, ?_, ?_, ?_, ?_⟩
  · exact List.nodup_nil
  · intro _ e1 he1; cases he1
  · intro id r h; cases h
  · intro x d' id h; exact dbCreate_tableOk o d d' id x hok h
  · intro x d' id h; exact dbUpdate_tableOk o d d' id x hok h
  · intro id f v d' h; exact dbSet_tableOk o d d' id f v hok h
  · intro id; exact dbRemove_tableOk d id hok

/-- **`UNIQUE(path)` at work**: a relative path that another track already holds (from 1.11.1 on) is
refused with an SQLite error by `set_relative_path`, and nothing is written. -/
theorem v1_C06_unique_path (o : FOps) (d : Db) (id id' : Int) (r r' : TrackRows) (p : Bytes)
    (hs : d.schema.ge .s1_11_1 = true) (hr : d.rows id = some r) (hne : id' ≠ id)
    (hm : (id', r') ∈ d.tracks) (hp : r'.track.path = some p) :
    dbSet o d id .relativePath p = .throw .sqlite_error := by
  have ht : pathTaken d id p = true := by
    unfold pathTaken
    rw [hs, Bool.true_and]
    apply List.any_eq_true.mpr
    exact ⟨(id', r'), hm, by simp [hne, hp]⟩
  unfold dbSet
  rw [hr]
  simp only
  exact if_pos ht

/-! ### what `Spec.replay` means: the lens laws of the Spec itself -/

/-- get ∘ put on the Spec record (for a per-slot field: when the slot exists). -/
theorem v1_C06_spec_get_put (y : Snap) (f : Field) (w : f.ty)
    (hs : ∀ i, (f = .hotCueAt i → (Spec.slotOf i y.hotCues.length).isSome = true) ∧
               (f = .loopAt i → (Spec.slotOf i y.loops.length).isSome = true)) :
    Spec.snapField (Spec.putField y f w) f = .ok w := by
  apply snapField_put_same
  cases f with
  | hotCueAt i =>
    have := (hs i).1 rfl
    cases h : Spec.slotOf i y.hotCues.length with
    | none => rw [h] at this; cases this
    | some k => exact ⟨k, h⟩
  | loopAt i =>
    have := (hs i).2 rfl
    cases h : Spec.slotOf i y.loops.length with
    | none => rw [h] at this; cases this
    | some k => exact ⟨k, h⟩
  | _ => trivial

/-- frame on the Spec record: all 26 × 26 ordered pairs of fields minus the overlapping ones. -/
theorem v1_C06_spec_frame (y : Snap) (f g : Field) (w : f.ty) (h : Spec.independent f g = true) :
    Spec.snapField (Spec.putField y f w) g = Spec.snapField y g :=
  snapField_put_other y f g w h

/-! ### non-vacuity -/

def exOps : FOps := ⟨fun _ => 0, fun n => if n = 0 then 0 else F64.one, fun _ _ => 0, fun b => b⟩

example : CeilInRange exOps := fun b h => Fl.toI64_some_of_absLt63 b h

def exSnap (n : UInt8) : Snap :=
  { Snap.empty with
    title := some [65, n], relativePath := some [97, 47, n, 46, 109, 112, 51],
    duration := some 185500, rating := some 150, bpm := some 0x405e200000000000, key := some 0,
    hotCues := [some ⟨[97], 0x40c3880000000000, ⟨255, 1, 2, 3⟩⟩],
    beatgrid := [⟨0, 0⟩, ⟨4, 0x40e5888000000000⟩],
    sampleCount := some 8000000, sampleRate := some 0x40e5888000000000,
    waveform := [⟨1, 2, 3, 4, 5, 6⟩] }

/-- two tracks created through the model of `create_track` on a 1.15.0 database -/
def exDb : Db :=
  match dbCreate exOps ⟨.s1_15_0, []⟩ (exSnap 49) with
  | .ok (d, _) =>
    (match dbCreate exOps d (exSnap 50) with
     | .ok (d', _) => d'
     | _ => d)
  | _ => ⟨.s1_15_0, []⟩

def exRows : TrackRows := (exDb.rows 1).getD blankRows

def exThrown {α} : Res α → Option Exn
  | .throw e => some e
  | _ => none

def exCue : Impl.V1.HotCue := ⟨[66], 0x40f5888000000000, ⟨255, 9, 8, 7⟩⟩

/-- sets, overwrites, a rejected slot index, a rejected label, a path collision, a failing then a
working sample-rate change, both tracks -/
def exHist : List SetOp :=
  [⟨1, .rating, some 250⟩, ⟨2, .hotCueAt 7, some exCue⟩, ⟨1, .hotCueAt 8, none⟩,
   ⟨1, .duration, some 61500⟩, ⟨2, .relativePath, [97, 47, 49, 46, 109, 112, 51]⟩,
   ⟨1, .loopAt 0, some ⟨[], 0, 0, ⟨0, 0, 0, 0⟩⟩⟩, ⟨2, .mainCue, some F64.negZero⟩, ⟨1, .key, some 0⟩,
   ⟨1, .sampleCount, some 0⟩, ⟨2, .beatgrid, [⟨0, 0⟩]⟩, ⟨1, .rating, none⟩, ⟨3, .title, none⟩]

example : exDb.tracks.length = 2 := by decide +kernel
example : Inv exRows = true := by decide +kernel
example : Inv ((exDb.rows 2).getD blankRows) = true := by decide +kernel
example : ∀ op ∈ exHist, Spec.finiteArg op.f op.v = true := by decide +kernel
/-- which calls of the history returned normally -/
example : (dbRun exOps exDb exHist).2.map (·.2) =
    [true, true, false, true, false, false, true, true, true, false, true, false] := by decide +kernel
/-- the theorem's conclusion, evaluated: snapshot after = replay of the trace on the snapshot before, and it differs -/
example : (dbSnap exOps exDb 1).toOption.map (Spec.replay 1 (dbRun exOps exDb exHist).2) =
    (dbSnap exOps (dbRun exOps exDb exHist).1 1).toOption := by decide +kernel
example : (dbSnap exOps (dbRun exOps exDb exHist).1 1).toOption ≠ (dbSnap exOps exDb 1).toOption := by decide +kernel
example : ((dbSnap exOps (dbRun exOps exDb exHist).1 1).toOption.map (·.duration)) = some (some 61000) := by
  decide +kernel
example : ((dbSnap exOps (dbRun exOps exDb exHist).1 2).toOption.map (·.hotCues.length)) = some 8 := by decide +kernel
/-- get ∘ set with a normalisation that is not the identity; a rejected and an accepted slot call -/
def exGetRating (r : TrackRows) : Res (Option UInt32) := get exOps r .rating
example : (set exOps exRows .rating (some 150)).toOption.map exGetRating = some (.ok (some 100)) := by
  decide +kernel
example : Spec.normField (.hotCueAt 8) (none : Option Impl.V1.HotCue) = none := by decide
example : set exOps exRows (.hotCueAt 8) none = .throw .out_of_range := by decide +kernel
example : (set exOps exRows (.hotCueAt 7) (some exCue)).isOk = true := by decide +kernel
example : Spec.independent (.hotCueAt 7) (.hotCueAt 0) = true ∧ Spec.independent .key .sampleRate = true ∧
    Spec.independent .hotCues (.hotCueAt 0) = false := by decide
/-- the path collision is refused by `UNIQUE(path)` -/
example : exThrown (dbSet exOps exDb 2 .relativePath [97, 47, 49, 46, 109, 112, 51]) = some .sqlite_error := by
  decide +kernel
example : TableOk exDb := by
  have h0 : TableOk ⟨.s1_15_0, []⟩ :=
    ⟨List.nodup_nil, (fun _ e he => by cases he), (fun _ _ h => by cases h)⟩
  cases h1 : dbCreate exOps ⟨.s1_15_0, []⟩ (exSnap 49) with
  | ok a =>
    have t1 := (v1_C06_table_ok exOps ⟨.s1_15_0, []⟩ h0).2.1 (exSnap 49) a.1 a.2 h1
    cases h2 : dbCreate exOps a.1 (exSnap 50) with
    | ok b =>
      have t2 := (v1_C06_table_ok exOps a.1 t1).2.1 (exSnap 50) b.1 b.2 h2
      have : exDb = b.1 := by unfold exDb; rw [h1]; simp only; rw [h2]
      rw [this]; exact t2
    | throw e => have : exDb = a.1 := by unfold exDb; rw [h1]; simp only; rw [h2]
                 rw [this]; exact t1
    | ub u => have : exDb = a.1 := by unfold exDb; rw [h1]; simp only; rw [h2]
              rw [this]; exact t1
  | throw e => have : exDb = ⟨.s1_15_0, []⟩ := by unfold exDb; rw [h1]
               rw [this]; exact h0
  | ub u => have : exDb = ⟨.s1_15_0, []⟩ := by unfold exDb; rw [h1]
            rw [this]; exact h0
/-- a removed track: gone, its setters throw, the other track keeps its snapshot -/
example : (dbRemove exDb 2).rows 2 = none ∧ (dbRemove exDb 2).rows 1 = exDb.rows 1 := by decide +kernel
example : exThrown (dbSet exOps (dbRemove exDb 2) 2 .title (some [65])) = some (.dj "track_deleted") ∧
    exThrown (dbSet exOps (dbRemove exDb 2) 2 .mainCue none) = some .runtime_error := by decide +kernel
example : getDerived exRows .filename = [49, 46, 109, 112, 51] ∧ getDerived exRows .fileExtension = [109, 112, 51] := by
  decide +kernel

end EngineModel.Properties.C06V1
