/-
C01, schema 1.x (legacy layout, the eleven versions 1.6.0 … 1.18.0 os):
"a snapshot written by create_track / update reads back unchanged up to the
stated normalisation, the read-back is a fixed point, nothing is silently
corrupted (it survives or the write throws)".

Model: `TracksV1.writeSnap` (create_track when `prior = none`, update over ANY
prior rows otherwise) and `TracksV1.readSnap` (snapshot()); Spec:
`TracksV1.Spec.normalize`.  `o : FOps` (double arithmetic that only reaches raw
columns) is arbitrary: no theorem assumes anything about it.  `NoNaN` is the
property's own quantifier ("arbitrary finite doubles"; infinities are allowed).
-/
import Proofs.TracksV1RoundTrip
import Proofs.TracksV1Spec
import Proofs.TracksV1Repr
import EngineModel.TracksV1.Accessors

namespace EngineModel.Properties.C01V1

open EngineModel EngineModel.TracksV1
open Fl (FOps)

/-- Accepted snapshots are written, and a new snapshot is exactly the normalised one —
for every version, every snapshot without NaN, and every prior state of the track. -/
theorem v1_C01_roundtrip (o : FOps) (s : Schema) (x y : Snap) (prior : Option TrackRows)
    (hn : Spec.NoNaN x = true) (h : Spec.normalize s x = some y) :
    ∃ rows, writeSnap o s x prior = .ok rows ∧ readSnap o s rows = .ok y := by
  unfold Spec.normalize at h
  by_cases ha : Spec.accepted x = true
  · rw [if_pos ha] at h
    cases h
    exact writeSnap_accepted o s x prior ha hn
  · rw [if_neg ha] at h; cases h

/-- Undefined behaviour never happens in create_track / update, whatever the snapshot (NaN included). -/
theorem v1_C01_never_ub (o : FOps) (s : Schema) (x : Snap) (prior : Option TrackRows) (u : Ub) :
    writeSnap o s x prior ≠ .ub u :=
  writeSnap_defined o s x prior u

/-- Snapshots the Spec rejects are rejected with an exception: never written, never undefined. -/
theorem v1_C01_reject (o : FOps) (s : Schema) (x : Snap) (prior : Option TrackRows)
    (hn : Spec.NoNaN x = true) (h : Spec.normalize s x = none) :
    ∃ e, writeSnap o s x prior = .throw e := by
  have hna : ¬ Spec.accepted x = true := by
    intro ha
    unfold Spec.normalize at h
    rw [if_pos ha] at h; cases h
  cases hw : writeSnap o s x prior with
  | ok rows => exact absurd (writeSnap_ok_accepted o s x prior rows hn hw) hna
  | throw e => exact ⟨e, rfl⟩
  | ub u => exact absurd hw (v1_C01_never_ub o s x prior u)

/-- Never "ok but wrong": whenever the write returns normally, the Spec accepts the snapshot and the
read-back is the normalised snapshot. -/
theorem v1_C01_accepts (o : FOps) (s : Schema) (x : Snap) (prior : Option TrackRows) (rows : TrackRows)
    (hn : Spec.NoNaN x = true) (hw : writeSnap o s x prior = .ok rows) :
    ∃ y, Spec.normalize s x = some y ∧ readSnap o s rows = .ok y := by
  have ha := writeSnap_ok_accepted o s x prior rows hn hw
  obtain ⟨rows', hw', hr⟩ := writeSnap_accepted o s x prior ha hn
  rw [hw] at hw'
  cases hw'
  exact ⟨Spec.normFields s x, by unfold Spec.normalize; rw [if_pos ha], hr⟩

/-- The range of `normalize` consists of fixed points. -/
theorem v1_C01_fixed_point (s : Schema) (x y : Snap) (h : Spec.normalize s x = some y) :
    Spec.normalize s y = some y := by
  unfold Spec.normalize at h
  by_cases ha : Spec.accepted x = true
  · rw [if_pos ha] at h
    cases h
    unfold Spec.normalize
    rw [if_pos (Spec.accepted_normFields s x ha), Spec.normFields_idem s x ha]
  · rw [if_neg ha] at h; cases h

/-! ### "normalisation" cannot hide a corruption

Which values the 1.x layout represents exactly, per field — explicit arithmetic predicates on the INPUT
only — and the theorem that `normalize` returns exactly those values, field by field: one field outside
its representable set says nothing about (and takes nothing away from) the others. -/

/-- not one of the two zeros (they mean "absent") -/
def ReprNonZero (v : Option Bits) : Prop := v ≠ some F64.zero ∧ v ≠ some F64.negZero
/-- any double but −0.0 (SQLite's REAL cell holds it as +0.0) -/
def ReprBpm (v : Option Bits) : Prop := v ≠ some F64.negZero
/-- whole seconds (zero included: the 1.x layout keeps a zero duration) -/
def ReprDuration (d : Option UInt64) : Prop := ∀ ms, d = some ms → Prim.s64 ms % 1000 = 0
def ReprTime (t : Option UInt64) : Prop := ∀ ns, t = some ns → Prim.s64 ns % 1000000000 = 0
/-- 0..100 -/
def ReprRating (r : Option UInt32) : Prop := ∀ v, r = some v → 0 ≤ Prim.s32 v ∧ Prim.s32 v ≤ 100
def ReprCount (v : Option UInt64) : Prop := v ≠ some 0
/-- eight slots, none at the reserved "empty" offset −1.0 -/
def ReprCues (l : List (Option Impl.V1.HotCue)) : Prop := l.length = 8 ∧ ∀ q, some q ∈ l → q.off ≠ F64.negOne
def ReprLoops (l : List (Option Impl.V1.LoopV)) : Prop := l.length = 8 ∧ ∀ q, some q ∈ l → q.start ≠ F64.negOne
/-- `file_bytes` has a column only from 1.15.0 on -/
def ReprFileBytes (s : Schema) (v : Option UInt64) : Prop := s.ge .s1_15_0 = true ∨ v = none

/-- **Every field the schema can represent comes back exactly as given**: the 14 fields stored verbatim
(the high-resolution waveform and the beat grid among them) always, the other 11 whenever the given value
is one the 1.x layout represents. -/
theorem v1_C01_representable (s : Schema) (x y : Snap) (h : Spec.normalize s x = some y) :
    y.album = x.album ∧ y.artist = x.artist ∧ y.beatgrid = x.beatgrid ∧ y.bitrate = x.bitrate ∧
    y.comment = x.comment ∧ y.composer = x.composer ∧ y.genre = x.genre ∧ y.key = x.key ∧
    y.publisher = x.publisher ∧ y.relativePath = x.relativePath ∧ y.title = x.title ∧
    y.trackNumber = x.trackNumber ∧ y.waveform = x.waveform ∧ y.year = x.year ∧
    (ReprNonZero x.averageLoudness → y.averageLoudness = x.averageLoudness) ∧
    (ReprBpm x.bpm → y.bpm = x.bpm) ∧
    (ReprDuration x.duration → y.duration = x.duration) ∧
    (ReprFileBytes s x.fileBytes → y.fileBytes = x.fileBytes) ∧
    (ReprCues x.hotCues → y.hotCues = x.hotCues) ∧
    (ReprTime x.lastPlayedAt → y.lastPlayedAt = x.lastPlayedAt) ∧
    (ReprLoops x.loops → y.loops = x.loops) ∧
    (ReprNonZero x.mainCue → y.mainCue = x.mainCue) ∧
    (ReprRating x.rating → y.rating = x.rating) ∧
    (ReprCount x.sampleCount → y.sampleCount = x.sampleCount) ∧
    (ReprNonZero x.sampleRate → y.sampleRate = x.sampleRate) := by
  unfold Spec.normalize at h
  split at h
  · cases h
    have nz : ∀ v, ReprNonZero v → Spec.dropZero v = v := Spec.dropZero_of_repr
    refine ⟨rfl, rfl, rfl, rfl, rfl, rfl, rfl, rfl, rfl, rfl, rfl, rfl, rfl, rfl, nz _, ?_, ?_, ?_, ?_, ?_, ?_, nz _,
      ?_, ?_, nz _⟩
    · exact Spec.bpm_of_repr x.bpm
    · exact Spec.duration_of_repr x.duration
    · intro hf
      simp only [Spec.normFields]
      rcases hf with hf | hf
      · rw [if_pos hf]
      · rw [hf]; split <;> rfl
    · exact Spec.cues_of_repr x.hotCues
    · exact Spec.time_of_repr x.lastPlayedAt
    · exact Spec.loops_of_repr x.loops
    · exact Spec.rating_of_repr x.rating
    · exact Spec.count_of_repr x.sampleCount
  · cases h

/-- The former all-or-nothing form follows: on a snapshot every field of which is representable,
`normalize` is the identity. -/
theorem v1_C01_representable_all (s : Schema) (x : Snap) (ha : Spec.accepted x = true)
    (hr : Spec.Representable s x = true) : Spec.normalize s x = some x := by
  unfold Spec.normalize
  rw [if_pos ha, Spec.normFields_of_representable s x hr]

/-- What was stored before the write has no influence on what is read after it. -/
theorem v1_C01_prior_irrelevant (o : FOps) (s : Schema) (x : Snap) (p1 p2 : Option TrackRows) (r1 r2 : TrackRows)
    (hn : Spec.NoNaN x = true) (h1 : writeSnap o s x p1 = .ok r1) (h2 : writeSnap o s x p2 = .ok r2) :
    readSnap o s r1 = readSnap o s r2 := by
  obtain ⟨y1, hy1, hr1⟩ := v1_C01_accepts o s x p1 r1 hn h1
  obtain ⟨y2, hy2, hr2⟩ := v1_C01_accepts o s x p2 r2 hn h2
  rw [hy1] at hy2
  cases hy2
  rw [hr1, hr2]

/-- Fixed point on the rows: writing the read-back snapshot to the same track again and reading once
more yields an identical snapshot. -/
theorem v1_C01_fixed_point_rows (o : FOps) (s : Schema) (x y : Snap) (prior : Option TrackRows) (rows : TrackRows)
    (hn : Spec.NoNaN x = true) (hny : Spec.NoNaN y = true) (hw : writeSnap o s x prior = .ok rows)
    (hr : readSnap o s rows = .ok y) :
    ∃ rows', writeSnap o s y (some rows) = .ok rows' ∧ readSnap o s rows' = .ok y := by
  obtain ⟨y', hy, hr'⟩ := v1_C01_accepts o s x prior rows hn hw
  rw [hr] at hr'
  cases hr'
  exact v1_C01_roundtrip o s y y (some rows) hny (v1_C01_fixed_point s x y hy)

/-! ### the same at the level of the database (several tracks, `UNIQUE(path)`) -/

theorem v1_C01_db_roundtrip (o : FOps) (d d' : Db) (id : Int) (x : Snap) (hn : Spec.NoNaN x = true)
    (h : dbUpdate o d id x = .ok d') :
    ∃ y, Spec.normalize d.schema x = some y ∧ dbSnap o d' id = .ok y := by
  unfold dbUpdate at h
  cases hp : d.rows id with
  | none =>
    rw [hp] at h
    simp only at h
    split at h
    · cases h
    · split at h <;> cases h
    · cases h
  | some prior =>
    rw [hp] at h
    simp only at h
    cases hw : writeSnap o d.schema x (some prior) with
    | ub u => rw [hw] at h; cases h
    | throw e =>
      rw [hw] at h
      simp only at h
      split at h
      · cases h
      · split at h
        · cases h
        · split at h <;> cases h
    | ok rows =>
      rw [hw] at h
      simp only at h
      split at h
      · cases h
      · cases h
        obtain ⟨y, hy, hr⟩ := v1_C01_accepts o d.schema x (some prior) rows hn hw
        refine ⟨y, hy, ?_⟩
        unfold dbSnap Db.rows
        simp only [aget_aset_same]
        exact hr

/-! ### non-vacuity: concrete snapshots on both sides of the Spec -/

def exA : Snap :=
  { Snap.empty with
    title := some [65], relativePath := some [97, 47, 98, 46, 109, 112, 51],
    duration := some 185500, rating := some 150, bpm := some 0x405e200000000000,
    hotCues := [some ⟨[97], 0x40c3880000000000, ⟨255, 1, 2, 3⟩⟩, some ⟨[98], F64.negOne, ⟨0, 0, 0, 0⟩⟩],
    beatgrid := [⟨0, 0⟩, ⟨4, 0x40e5888000000000⟩],
    sampleCount := some 8000000, sampleRate := some 0x40e5888000000000,
    waveform := [⟨1, 2, 3, 4, 5, 6⟩] }

example : Spec.NoNaN exA = true := by decide
example : Spec.accepted exA = true := by decide
example : (Spec.normalize .s1_6_0 exA).map (·.duration) = some (some 185000) := by decide
example : (Spec.normalize .s1_6_0 exA).map (·.rating) = some (some 100) := by decide
example : (Spec.normalize .s1_6_0 exA).map (·.hotCues.length) = some 8 := by decide
/-- nine loops must be rejected -/
example : Spec.normalize .s1_18_0_os { exA with loops := List.replicate 9 none } = none := by decide
/-- a waveform without a sample rate must be rejected -/
example : Spec.normalize .s1_6_0 { exA with sampleRate := none } = none := by decide
/-- a one-marker grid must be rejected -/
example : Spec.normalize .s1_6_0 { exA with beatgrid := [⟨0, 0⟩] } = none := by decide
/-- the `Repr…` premises are satisfiable by non-trivial values, and genuinely restrictive -/
example : ReprCues (some ⟨[99], 0x40f5888000000000, ⟨255, 1, 2, 3⟩⟩ :: List.replicate 7 none) ∧
    ReprDuration (some 61000) ∧ ReprDuration (some 0) ∧ ReprRating (some 0) ∧ ReprRating (some 100) ∧
    ReprTime (some 1700000000000000000) ∧ ReprBpm (some 0x405e000000000000) ∧ ReprNonZero (some F64.negOne) ∧
    ReprCount (some 1) ∧ ReprFileBytes .s1_15_0 (some 5) ∧ ReprFileBytes .s1_6_0 none := by
  refine ⟨⟨rfl, ?_⟩, ?_, ?_, ?_, ?_, ?_, by unfold ReprBpm; decide, ⟨by decide, by decide⟩, by unfold ReprCount; decide,
    Or.inl rfl, Or.inr rfl⟩
  · intro q hq
    simp only [List.mem_cons, Option.some.injEq, List.mem_replicate, reduceCtorEq, and_false, or_false] at hq
    subst hq; decide
  · intro ms h; cases h; decide
  · intro ms h; cases h; decide
  · intro v h; cases h; decide
  · intro v h; cases h; decide
  · intro ns h; cases h; decide
example : ¬ ReprDuration (some 185500) := fun h => absurd (h 185500 rfl) (by decide)
example : ¬ ReprRating (some 150) := fun h => absurd (h 150 rfl).2 (by decide)
example : ¬ ReprFileBytes .s1_13_2 (some 5) := fun h => by rcases h with h | h <;> cases h
/-- one unrepresentable field (rating 150) does not void the statement for the others: the duration of
`exA` with whole seconds comes back exactly -/
example : ((Spec.normalize .s1_6_0 { exA with duration := some 185000 }).map (·.duration)) = some (some 185000) ∧
    ((Spec.normalize .s1_6_0 { exA with duration := some 185000 }).map (·.rating)) = some (some 100) := by decide
/-- a representable snapshot -/
example : Spec.Representable .s1_15_0
    { exA with duration := some 185000, rating := some 100, hotCues := List.replicate 8 none,
               loops := List.replicate 8 none, fileBytes := some 5 } = true := by decide

end EngineModel.Properties.C01V1
