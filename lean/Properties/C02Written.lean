/-
C02, in the shape of the property text.

(1) "Every blob the library writes is decoded to the same logical content by an independent
    implementation": `Impl.encodeX v = ok b → Spec.decodeX b = some (the content written)`.
(2) "Conversely every blob produced by that independent encoder is decoded by the library to the same
    content": `Spec.encodeX v = some b → Impl.decodeX b = ok (the content written)`.

"The content written" is the value itself for the 2.x kinds; for 1.x it is the value as the format reads
it (`normTrack`, `normCue`, `normLoop`, `opaq`, `normOptF`: an optional field holding zero is the absent
encoding, a cue/loop with offset −1.0 is the empty slot, the overview has no opacity channel — C03).
Both follow from the agreement theorems of Properties/C02.lean and the read-back theorems of
Properties/C03.lean; no hypothesis restricts the value beyond what makes the encoder accept it and the
C++ container sizes.  Framing: (3) the Model of `zlib_uncompress` reads what the Spec framing writes, and
whatever it accepts the Spec reading of the column accepts with the same payload; the Model's length
prefix is the Spec's big-endian 32-bit length.
-/
import Properties.C02
import Properties.C03
import Proofs.BlobLevel

namespace EngineModel.Properties.C02
open EngineModel EngineModel.Codec EngineModel.V2 EngineModel.Impl.V2 EngineModel.Properties.C03
open EngineModel.V1Proofs

theorem ofSpec_ok {α} {o : Option α} {a : α} (h : ofSpec o = .ok a) : o = some a := by
  cases o with
  | none => simp [ofSpec] at h
  | some x => simp only [ofSpec, Res.ok.injEq] at h; rw [h]

theorem ok_inj {α} {a b : α} (h : (Res.ok a : Res α) = .ok b) : a = b := by injection h

/-! ## schema 2.x -/

/-- (1) what the library writes, the independent decoder reads back (value and trailing bytes). -/
theorem C02_v2_written_decodes :
    (∀ v extra b, encodeTrack v extra = .ok b → track.dec b = some (v, extra)) ∧
    (∀ v extra b, Beat.Valid v → encodeBeat v extra = .ok b → beat.dec b = some (v, extra)) ∧
    (∀ v extra b, Ovw.Valid v → 27 + v.points.length + extra.length < maxCount →
      encodeOvw v extra = .ok b → ovw.dec b = some (v, extra)) ∧
    (∀ v extra b, v.cues.length < maxCount → encodeCues v extra = .ok b → cues.dec b = some (v, extra)) ∧
    (∀ (v : Loops) extra b, v.length < maxCount → encodeLoops v extra = .ok b → loops.dec b = some (v, extra)) := by
  refine ⟨?_, ?_, ?_, ?_, ?_⟩
  · intro v extra b h
    obtain ⟨b', h1, h2⟩ := C03_v2_track_roundtrip v extra
    rw [h] at h1; have := ok_inj h1; subst this
    rw [C02_v2_track_decode_agrees] at h2; exact ofSpec_ok h2
  · intro v extra b hv h
    obtain ⟨b', h1, h2⟩ := C03_v2_beat_roundtrip v extra hv
    rw [h] at h1; have := ok_inj h1; subst this
    rw [C02_v2_beat_decode_agrees] at h2; exact ofSpec_ok h2
  · intro v extra b hv hlen h
    obtain ⟨b', h1, h2⟩ := C03_v2_ovw_roundtrip v extra hv hlen
    rw [h] at h1; have := ok_inj h1; subst this
    have hb : b.length < maxCount := by
      have := (C02_v2_ovw_encode_agrees v hv extra b).mp h
      rw [this, List.length_append, ovw_enc_length, hv.2.2]; omega
    rw [C02_v2_ovw_decode_agrees b hb] at h2; exact ofSpec_ok h2
  · intro v extra b hrep h
    have henc : encodableCues v := ((C02_v2_cues_encode_agrees v extra b).mp h).1
    obtain ⟨b', h1, h2⟩ := C03_v2_cues_roundtrip v extra hrep henc
    rw [h] at h1; have := ok_inj h1; subst this
    rw [C02_v2_cues_decode_agrees] at h2; exact ofSpec_ok h2
  · intro v extra b hrep h
    have henc : encodableLoops v := ((C02_v2_loops_encode_agrees v extra b).mp h).1
    obtain ⟨b', h1, h2⟩ := C03_v2_loops_roundtrip v extra hrep henc
    rw [h] at h1; have := ok_inj h1; subst this
    rw [C02_v2_loops_decode_agrees] at h2; exact ofSpec_ok h2

/-- (2) what the independent encoder writes (`X.enc v ++ extra`), the library reads back. -/
theorem C02_v2_spec_written_decoded :
    (∀ v extra, decodeTrack (track.enc v ++ extra) = .ok (v, extra)) ∧
    (∀ v extra, Beat.Valid v → decodeBeat (beat.enc v ++ extra) = .ok (v, extra)) ∧
    (∀ v extra, Ovw.Valid v → 27 + v.points.length + extra.length < maxCount →
      decodeOvw (ovw.enc v ++ extra) = .ok (v, extra)) ∧
    (∀ v extra, v.cues.length < maxCount → (∀ q ∈ v.cues, q.label.length ≤ 255) →
      decodeCues (cues.enc v ++ extra) = .ok (v, extra)) ∧
    (∀ (v : Loops) extra, v.length < maxCount → (∀ l ∈ v, l.label.length ≤ 255) →
      decodeLoops (loops.enc v ++ extra) = .ok (v, extra)) := by
  refine ⟨?_, ?_, ?_, ?_, ?_⟩
  · intro v extra
    obtain ⟨b, h1, h2⟩ := C03_v2_track_roundtrip v extra
    rw [(C02_v2_track_encode_agrees v extra b).mp h1] at h2; exact h2
  · intro v extra hv
    obtain ⟨b, h1, h2⟩ := C03_v2_beat_roundtrip v extra hv
    rw [(C02_v2_beat_encode_agrees v extra b).mp h1] at h2; exact h2
  · intro v extra hv hlen
    obtain ⟨b, h1, h2⟩ := C03_v2_ovw_roundtrip v extra hv hlen
    rw [(C02_v2_ovw_encode_agrees v hv extra b).mp h1] at h2; exact h2
  · intro v extra hrep hl
    obtain ⟨b, h1, h2⟩ := C03_v2_cues_roundtrip v extra hrep hl
    rw [((C02_v2_cues_encode_agrees v extra b).mp h1).2] at h2; exact h2
  · intro v extra hrep hl
    obtain ⟨b, h1, h2⟩ := C03_v2_loops_roundtrip v extra hrep hl
    rw [((C02_v2_loops_encode_agrees v extra b).mp h1).2] at h2; exact h2

/-! ## schema 1.x -/

theorem throw_ne_ok {α} {e : Exn} {b : α} (h : (Res.throw e : Res α) = .ok b) : False := by cases h

/-- (1) what the library writes, the independent decoder reads back (as the format reads it). -/
theorem C02_v1_written_decodes :
    (∀ v b, Impl.V1.encodeTrack v = .ok b → V1.decodeTrack b = some (normTrack v)) ∧
    (∀ v b, Impl.V1.encodeBeat v = .ok b →
      V1.decodeBeat b = some ⟨normOptF v.sampleRate, normOptF v.sampleCount, v.dflt, v.adj⟩) ∧
    (∀ v b, Impl.V1.encodeCues v = .ok b → V1.decodeCues b = some ⟨v.cues.map normCue, v.adjMain, v.defMain⟩) ∧
    (∀ (v : Impl.V1.Loops) b, v.length < maxCount → Impl.V1.encodeLoops v = .ok b →
      V1.decodeLoops b = some (v.map normLoop)) ∧
    (∀ v b, 27 + 3 * v.entries.length < maxCount → Impl.V1.encodeOvw v = .ok b →
      V1.decodeOvw b = some ⟨v.spe, v.entries.map opaq⟩) ∧
    (∀ v b, 30 + 6 * v.entries.length < maxCount → Impl.V1.encodeHires v = .ok b → V1.decodeHires b = some v) := by
  refine ⟨?_, ?_, ?_, ?_, ?_, ?_⟩
  · intro v b h
    obtain ⟨b', h1, h2⟩ := C03_v1_track_readback v
    rw [h] at h1; have := ok_inj h1; subst this
    rw [C02_v1_track_decode_agrees] at h2; exact ofSpec_ok h2
  · intro v b h
    by_cases he : encodableBeat1 v
    · obtain ⟨b', h1, h2⟩ := C03_v1_beat_readback v he
      rw [h] at h1; have := ok_inj h1; subst this
      have hs := (C02_v1_beat_encode_agrees v b).mp h
      have := spec_beat_roundtrip v he.1 he.2
      unfold V1.encodeBeat at hs
      simp only [he.1, he.2, Bool.and_self, if_true, Option.some.injEq] at hs
      rw [← hs]; exact this
    · rw [C03_v1_beat_reject v he] at h; exact (throw_ne_ok h).elim
  · intro v b h
    by_cases he : encodableCues1 v
    · obtain ⟨b', h1, h2⟩ := C03_v1_cues_readback v he
      rw [h] at h1; have := ok_inj h1; subst this
      rw [C02_v1_cues_decode_agrees] at h2; exact ofSpec_ok h2
    · obtain ⟨e, h'⟩ := C03_v1_cues_reject v he
      rw [h'] at h; exact (throw_ne_ok h).elim
  · intro v b hrep h
    by_cases he : encodableLoops1 v
    · obtain ⟨b', h1, h2⟩ := C03_v1_loops_readback v hrep he
      rw [h] at h1; have := ok_inj h1; subst this
      rw [C02_v1_loops_decode_agrees] at h2; exact ofSpec_ok h2
    · obtain ⟨e, h'⟩ := C03_v1_loops_reject v he
      rw [h'] at h; exact (throw_ne_ok h).elim
  · intro v b hrep h
    obtain ⟨b', h1, h2⟩ := C03_v1_ovw_readback v hrep
    rw [h] at h1; have := ok_inj h1; subst this
    have hb : b.length = 27 + 3 * v.entries.length := Impl.V2.writeInto_length h
    rw [C02_v1_ovw_decode_agrees b (by omega)] at h2; exact ofSpec_ok h2
  · intro v b hrep h
    obtain ⟨b', h1, h2⟩ := C03_v1_hires_roundtrip v hrep
    rw [h] at h1; have := ok_inj h1; subst this
    have hb : b.length = 30 + 6 * v.entries.length := Impl.V2.writeInto_length h
    rw [C02_v1_hires_decode_agrees b (by omega)] at h2; exact ofSpec_ok h2

/-- (2) what the independent encoder writes, the library reads back (as the format reads it) — in
particular nothing the independent ENCODER produces falls into the `missingSecondGrid` family of
`C02_v1_beat_decode_agrees_counterexample`. -/
theorem C02_v1_spec_written_decoded :
    (∀ v b, V1.encodeTrack v = some b → Impl.V1.decodeTrack b = .ok (normTrack v)) ∧
    (∀ v b, V1.encodeBeat v = some b →
      Impl.V1.decodeBeat b = .ok ⟨normOptF v.sampleRate, normOptF v.sampleCount, v.dflt, v.adj⟩) ∧
    (∀ v b, V1.encodeCues v = some b → Impl.V1.decodeCues b = .ok ⟨v.cues.map normCue, v.adjMain, v.defMain⟩) ∧
    (∀ (v : Impl.V1.Loops) b, v.length < maxCount → V1.encodeLoops v = some b →
      Impl.V1.decodeLoops b = .ok (v.map normLoop)) ∧
    (∀ v b, 27 + 3 * v.entries.length < maxCount → V1.encodeOvw v = some b →
      Impl.V1.decodeOvw b = .ok ⟨v.spe, v.entries.map opaq⟩) ∧
    (∀ v b, 30 + 6 * v.entries.length < maxCount → V1.encodeHires v = some b → Impl.V1.decodeHires b = .ok v) := by
  refine ⟨?_, ?_, ?_, ?_, ?_, ?_⟩
  · intro v b h
    have hi := (C02_v1_track_encode_agrees v b).mpr h
    obtain ⟨b', h1, h2⟩ := C03_v1_track_readback v
    rw [hi] at h1; have := ok_inj h1; subst this; exact h2
  · intro v b h
    have hi := (C02_v1_beat_encode_agrees v b).mpr h
    by_cases he : encodableBeat1 v
    · obtain ⟨b', h1, h2⟩ := C03_v1_beat_readback v he
      rw [hi] at h1; have := ok_inj h1; subst this; exact h2
    · rw [C03_v1_beat_reject v he] at hi; exact (throw_ne_ok hi).elim
  · intro v b h
    have hi := (C02_v1_cues_encode_agrees v b).mpr h
    by_cases he : encodableCues1 v
    · obtain ⟨b', h1, h2⟩ := C03_v1_cues_readback v he
      rw [hi] at h1; have := ok_inj h1; subst this; exact h2
    · obtain ⟨e, h'⟩ := C03_v1_cues_reject v he
      rw [h'] at hi; exact (throw_ne_ok hi).elim
  · intro v b hrep h
    have hi := (C02_v1_loops_encode_agrees v b).mpr h
    by_cases he : encodableLoops1 v
    · obtain ⟨b', h1, h2⟩ := C03_v1_loops_readback v hrep he
      rw [hi] at h1; have := ok_inj h1; subst this; exact h2
    · obtain ⟨e, h'⟩ := C03_v1_loops_reject v he
      rw [h'] at hi; exact (throw_ne_ok hi).elim
  · intro v b hrep h
    have hi := (C02_v1_ovw_encode_agrees v b).mpr h
    obtain ⟨b', h1, h2⟩ := C03_v1_ovw_readback v hrep
    rw [hi] at h1; have := ok_inj h1; subst this; exact h2
  · intro v b hrep h
    have hi := (C02_v1_hires_encode_agrees v b).mpr h
    obtain ⟨b', h1, h2⟩ := C03_v1_hires_roundtrip v hrep
    rw [hi] at h1; have := ok_inj h1; subst this; exact h2

/-- The family in which the library is more lenient than the Spec (`C02_v1_beat_decode_agrees_counterexample`:
a valid first grid followed by fewer than 8 bytes is read as "no grids") contains NO payload either encoder
produces: not the library's own (`Impl.V1.encodeBeat`), not the independent one (`V1.encodeBeat`).  Both
clauses of the property quantify over written blobs only, so the leniency is outside the property. -/
theorem C02_v1_beat_encoders_outside_lenient_family (v : Impl.V1.Beat) (b : Bytes)
    (h : V1.encodeBeat v = some b ∨ Impl.V1.encodeBeat v = .ok b) : missingSecondGrid b = false := by
  have hs : V1.encodeBeat v = some b := by
    rcases h with h | h
    · exact h
    · exact (C02_v1_beat_encode_agrees v b).mp h
  have hd := C02_v1_spec_written_decoded.2.1 v b hs
  have hd' : V1.decodeBeat b = some ⟨normOptF v.sampleRate, normOptF v.sampleCount, v.dflt, v.adj⟩ :=
    C02_v1_written_decodes.2.1 v b ((C02_v1_beat_encode_agrees v b).mpr hs)
  cases hm : missingSecondGrid b with
  | false => rfl
  | true =>
    rw [(decodeBeat_lenient b hm).1] at hd'
    cases hd'

/-- What the library does INSIDE the lenient family: the Spec rejects, the library either returns the
header fields with both grids empty or (non-zero trailing bytes) throws `invalid_argument` — nothing else. -/
theorem C02_v1_beat_lenient_family_behaviour (bs : Bytes) (hm : missingSecondGrid bs = true) :
    V1.decodeBeat bs = none ∧
    ((∃ sr sc, Impl.V1.decodeBeat bs = .ok ⟨sr, sc, [], []⟩) ∨
      Impl.V1.decodeBeat bs = .throw .invalid_argument) :=
  decodeBeat_lenient bs hm

/-! ## the framing, Model side against Spec side -/
section Framing
open EngineModel.Impl.Zlib

/-- The 4-byte prefix `zlib_compress` writes is the Spec's big-endian 32-bit length. -/
theorem C02_lenPrefix_be32 (n : Nat) : lenPrefix n = Zlib.be32 n := lenPrefix_eq_be32 n

/-- The Model of `zlib_uncompress` reads what the Spec framing (`be32 length ++ stored-block zlib stream`)
writes: payloads below 2 GiB (the prefix is read as `int32_t`). -/
theorem C02_unz_frame (x : Bytes) (h : x.length < 2147483648) : unz (Zlib.frame x) = .ok x := unz_frame x h

/-- Whatever the Model of `zlib_uncompress` returns from a stored column, the independent reading of the
column (`unframe`: empty / zero length = no data, otherwise the zlib stream after the prefix) returns too. -/
theorem C02_unz_ok_unframe (b p : Bytes) (h : unz b = .ok p) : Zlib.unframe b = some p := unz_ok_unframe b p h

/-- Loops are stored uncompressed: the blob-level Model of the two loops kinds is the payload codec itself. -/
theorem C02_loops_blob_raw :
    (∀ blob, Impl.Blob.fromBlobLoops2 blob = Impl.V2.decodeLoops blob) ∧
    (∀ v extra, Impl.Blob.toBlobLoops2 v extra = Impl.V2.encodeLoops v extra) ∧
    (∀ blob, Impl.Blob.fromBlobLoops1 blob = Impl.V1.decodeLoops blob) ∧
    (∀ v, Impl.Blob.toBlobLoops1 v = Impl.V1.encodeLoops v) :=
  ⟨fun _ => rfl, fun _ _ => rfl, fun _ => rfl, fun _ => rfl⟩

example : ([1, 2, 3] : Bytes).length < 2147483648 := by decide

end Framing

end EngineModel.Properties.C02
