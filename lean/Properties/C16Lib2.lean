/-
C16 on the WHOLE schema-2.x library (work-package composite-v2): observing never modifies.

The composite `step : FOps → Schema2 → Lib2 → Call → Lib2 × Res Out` has ONE type for observers and mutators; an
observer call is evaluated by running the SELECT-only pieces of the package models on what the connection sees
(`selectRow` — `get_column`'s `SELECT col FROM Track WHERE id = ?` — in the statement monad of the track
package; the query functions `q…` of the crate package on the crate view; `track_table::exists / all_ids /
find_id_by_path`, `information().get()`).  That such a call returns the library it was given is a theorem about
`step` (by cases over the alphabet), not a consequence of its type.
-/
import Proofs.Lib2Step

namespace EngineModel.Properties.C16Lib2
open EngineModel EngineModel.TracksV2 EngineModel.Lib.V2
open EngineModel.Table (Schema2)

/-- **No observer modifies any table** — on ANY library state (reachable or not), every schema version, every
argument (ids of removed or never-issued tracks / crates, any slot index, any name):
database: crates, crate_by_id, crates_by_name, root_crates, root_crate_by_name, tracks, track_by_id,
tracks_by_relative_path, uuid, version_name; crate: name, parent, children, descendants, is_valid,
sub_crate_by_name, tracks; track: the 26 getters + hot_cue_at / loop_at + filename / file_extension, snapshot,
is_valid. -/
theorem C16Lib2_observers_do_not_modify (ops : FOps) (s : Schema2) (L : Lib2) (c : Call) (h : c.isObserver = true) :
    (step ops s L c).1 = L :=
  observer_unchanged ops s L c h

/-- **Repeated observation returns the same answers**: an observer applied again — immediately, or after any
other observers — answers as the first time. -/
theorem C16Lib2_repeatable (ops : FOps) (s : Schema2) (L : Lib2) (c : Call) (h : c.isObserver = true)
    (between : List Call) (hb : between.all Call.isObserver = true) :
    (step ops s (run ops s (step ops s L c).1 between) c).2 = (step ops s L c).2 := by
  have h1 : (step ops s L c).1 = L := observer_unchanged ops s L c h
  have h2 : ∀ (l : List Call), l.all Call.isObserver = true → run ops s L l = L := by
    intro l hl
    induction l with
    | nil => rfl
    | cons x xs ih =>
      simp only [List.all_cons, Bool.and_eq_true] at hl
      show run ops s (step ops s L x).1 xs = L
      rw [observer_unchanged ops s L x hl.1]; exact ih hl.2
  rw [h1, h2 between hb]

/-- **Frame**: observers can be inserted into or dropped from any history without changing the library reached. -/
theorem C16Lib2_frame (ops : FOps) (s : Schema2) (L : Lib2) (hist : List Call) :
    run ops s L hist = run ops s L (hist.filter fun c => !c.isObserver) := by
  induction hist generalizing L with
  | nil => rfl
  | cons c cs ih =>
    cases hc : c.isObserver
    · simp only [List.filter_cons, hc, Bool.not_false, if_true]
      show run ops s (step ops s L c).1 cs = run ops s (step ops s L c).1 _
      exact ih _
    · simp only [List.filter_cons, hc, Bool.not_true, Bool.false_eq_true, if_false]
      show run ops s (step ops s L c).1 cs = _
      rw [observer_unchanged ops s L c hc]; exact ih _

/-- The classification is not vacuous: each mutator of the alphabet changes some library (so "observer" is a
property of the call, not of `step`), and a failing mutator is not thereby an observer. -/
theorem C16Lib2_mutators_modify :
    let ops : FOps := ⟨fun _ => 0, fun _ => 0, fun _ _ => 0⟩
    let x : Snap := { Snap.empty with relativePath := some [97, 46, 98] }
    let L0 := Lib2.empty .s2_18_0 [85]
    let L1 := (step ops .s2_18_0 L0 (.createTrack x)).1
    let L2 := (step ops .s2_18_0 L1 (.createRootCrate [65])).1
    L1 ≠ L0 ∧ L2 ≠ L1 ∧ (step ops .s2_18_0 L2 (.crateAddTrack 1 1)).1 ≠ L2 ∧
    (step ops .s2_18_0 L2 (.trackSet 1 (.title (some [66])))).1 ≠ L2 ∧
    (step ops .s2_18_0 L2 (.removeTrack 1)).1 ≠ L2 ∧ (step ops .s2_18_0 L2 (.removeCrate 1)).1 ≠ L2 := by
  decide +kernel

/-! ### non-vacuity -/
example : (Call.trackGet 7 .bpm).isObserver = true ∧ (Call.crateTracks 3).isObserver = true ∧
    (Call.trackSet 7 (.title none)).isObserver = false := by decide

end EngineModel.Properties.C16Lib2
