/-
C09 — Ordered listings keep every sibling and entry exactly once, in order (schema 2.x).

Model: Db/Chain.lean (generic keyed chains in a SQL table), instantiated twice in
Db/V2Crates.lean (Playlist: key = parentListId; PlaylistEntity: key = listId).
`R A t`  (Proofs/Chain.lean): the table `t` represents the abstract lists `A`
(one duplicate-free list of ids per key).
-/
import Proofs.Chain

namespace EngineModel.Properties.C09
open EngineModel EngineModel.Db.Chain EngineModel.Spec

variable {α : Type}

/-- The backwards walk of `sort_ids` / `get_for_list` over a table that represents `A`
returns the list of key `k`: every item exactly once, in order, and without meeting the
missing-tail undefined behaviour. -/
theorem C09_walk_lists_every_item_once_in_order {A : Int → List Int} {t : Table α} (h : R A t) (k : Int) :
    walkIds t k = .ok (A k) ∧ (A k).Nodup :=
  ⟨walkIds_eq h k, h.nodup k⟩

/-- INSERT under trigger_before_insert_List / trigger_after_insert_List puts the new row
immediately before `target` (at the end for target 0) in the list of its key and leaves
every other list alone. -/
theorem C09_insert_simulates {A : Int → List Int} {t : Table α} (h : R A t) {n k b : Int} (v : α)
    (hpos : 0 < n) (hfresh : n ∉ ids t) (hb : b = 0 ∨ b ∈ A k) :
    R (setKey A k (Ordered.insertBefore b n (A k))) (insertBefore t n k b v) :=
  R_insertBefore h v hpos hfresh hb

/-- non-vacuity: a concrete two-sibling table satisfies `R`, and the insert lemma applies to it. -/
example : R (fun k => if k = 0 then [1, 2] else []) ([⟨1, 0, 2, ()⟩, ⟨2, 0, 0, ()⟩] : Table Unit) := by
  constructor
  · decide
  · intro r hr; simp at hr; rcases hr with rfl | rfl <;> decide
  · intro k; by_cases h : k = 0 <;> simp [h]
  · intro r hr; simp at hr; rcases hr with rfl | rfl <;> simp
  · intro r hr; simp at hr; rcases hr with rfl | rfl <;> simp [succ]
  · intro k x hx
    by_cases h : k = 0
    · simp [h] at hx
      rcases hx with rfl | rfl
      · exact ⟨⟨1, 0, 2, ()⟩, by simp, rfl, h.symm⟩
      · exact ⟨⟨2, 0, 0, ()⟩, by simp, rfl, h.symm⟩
    · simp [h] at hx

end EngineModel.Properties.C09
