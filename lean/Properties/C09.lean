/-
C09 — Ordered listings keep every sibling and entry exactly once, in order (schema 2.x).

Model: Db/Chain.lean (generic keyed chains in a SQL table: the statements and triggers as list
operations), instantiated twice in Db/V2Crates.lean (Playlist: key = parentListId;
PlaylistEntity: key = listId) together with the crate API of src/djinterop/engine/v2.
Spec: Spec/Ordered.lean (one duplicate-free list of ids per key; `insertAfter`, append, `erase`;
`Change.holds` = how a listing may change across one operation).

`R A t` (Proofs/Chain.lean): the table `t` represents the abstract lists `A`.
`ChInv S d` (Proofs/V2Rep.lean): `R S.kids d.pl ∧ R S.ents d.pe`, every entity row makes the
schema's delete trigger fire, ids within the AUTOINCREMENT counters.
`ordStep S d op` (Proofs/V2Abs.lean): the Spec.Ordered lists after `op`, computed with the list
operations of the Spec only, driven by what the Model answered (success, new id).

Known finding (findings/C09.json, table level only): an entity row with trackId ≤ 0 is not
re-linked when it is removed, because the schema's own trigger is declared `WHEN OLD.trackId > 0`.
The history theorems therefore carry the decidable hypothesis `ops.all okOp`
(`okOp (.peAddBack _ t _) = (0 < t)`, every other operation — in particular the whole crate API,
where add_track demands an existing track — is `okOp`); the unrestricted statement is refuted by
`C09_history_counterexample`.
-/
import Proofs.V2Change
import Proofs.V2WfRaw

namespace EngineModel.Properties.C09
open EngineModel EngineModel.Db.Chain EngineModel.Db.V2 EngineModel.Spec

variable {α : Type}

/-- The backwards walk of `sort_ids` / `get_for_list` over a table that represents `A`
returns the list of key `k`: every item exactly once, in order, and without meeting the
missing-tail undefined behaviour. -/
theorem C09_walk_lists_every_item_once_in_order {A : Int → List Int} {t : Table α} (h : R A t) (k : Int) :
    walkIds t k = .ok (A k) ∧ (A k).Nodup :=
  ⟨walkIds_eq h k, h.nodup k⟩

/-- … and the listing of `k` consists of exactly the rows of `k`: none lost, none foreign. -/
theorem C09_listing_covers_exactly_the_rows {A : Int → List Int} {t : Table α} (h : R A t) (k x : Int) :
    x ∈ A k ↔ ∃ r ∈ t, r.id = x ∧ r.key = k := by
  constructor
  · exact h.cover k x
  · rintro ⟨r, hr, rfl, rfl⟩; exact h.mem r hr

/-- INSERT under trigger_before_insert_List / trigger_after_insert_List puts the new row
immediately before `target` (at the end for target 0) in the list of its key and leaves
every other list alone. -/
theorem C09_insert_simulates {A : Int → List Int} {t : Table α} (h : R A t) {n k b : Int} (v : α)
    (hpos : 0 < n) (hfresh : n ∉ ids t) (hb : b = 0 ∨ b ∈ A k) :
    R (setKey A k (Ordered.insertBefore b n (A k))) (insertBefore t n k b v) :=
  R_insertBefore h v hpos hfresh hb

/-- non-vacuity: a concrete two-sibling table satisfies `R`, and the insert lemma applies to it. -/
example : R (fun k => if k = 0 then [1, 2] else []) ([⟨1, 0, 2, ()⟩, ⟨2, 0, 0, ()⟩] : Table Unit) := by
  constructor
  · decide
  · intro r hr; simp at hr; rcases hr with rfl | rfl <;> decide
  · intro k; by_cases h : k = 0 <;> simp [h]
  · intro r hr; simp at hr; rcases hr with rfl | rfl <;> simp
  · intro r hr; simp at hr; rcases hr with rfl | rfl <;> simp [succ]
  · intro k x hx
    by_cases h : k = 0
    · simp [h] at hx
      rcases hx with rfl | rfl
      · exact ⟨⟨1, 0, 2, ()⟩, by simp, rfl, h.symm⟩
      · exact ⟨⟨2, 0, 0, ()⟩, by simp, rfl, h.symm⟩
    · simp [h] at hx

/-! ### the table-level simulation lemmas, one per statement sequence -/

/-- `DELETE FROM Playlist WHERE id = ?` under trigger_after_delete_List. -/
theorem C09_delete_playlist_simulates {A : Int → List Int} {t : Table α} (h : R A t) {i : Int} {old : Row α}
    (hg : get t i = some old) :
    R (setKey (setKey A old.key ((A old.key).erase i)) i []) (deleteCascade t i) :=
  R_deleteCascade h hg

/-- The four-statement splice of playlist_table::update to another parent. -/
theorem C09_move_simulates {A : Int → List Int} {t : Table α} (h : R A t) {old : Row α} (hold : old ∈ t)
    {nk target : Int} (hk : nk ≠ old.key) (hb : target = 0 ∨ target ∈ A nk) (v : α) :
    R (setKey (setKey A old.key ((A old.key).erase old.id)) nk (Ordered.insertBefore target old.id (A nk)))
      (move t old.id old.key old.next nk target v) :=
  R_move h hold hk hb v

/-- playlist_entity_table::add_back. -/
theorem C09_add_back_simulates {A : Int → List Int} {t : Table α} (h : R A t) {n k : Int} (v : α)
    (hpos : 0 < n) (hfresh : n ∉ ids t) : R (setKey A k (A k ++ [n])) (appendBack t n k v) :=
  R_appendBack h v hpos hfresh

/-- playlist_entity_table::remove, the schema's delete trigger firing for every row. -/
theorem C09_remove_entity_simulates {A : Int → List Int} {t : Table α} (h : R A t) (fires : Row α → Bool)
    (hfires : ∀ r ∈ t, fires r = true) (k i : Int) :
    R (setKey A k ((A k).erase i)) (deleteKeyed fires t k i) :=
  R_deleteKeyed h fires hfires k i

/-- playlist_entity_table::clear. -/
theorem C09_clear_simulates {A : Int → List Int} {t : Table α} (h : R A t) (fires : Row α → Bool)
    (hv : ∀ r r' : Row α, r.val = r'.val → fires r = fires r') (hfires : ∀ r ∈ t, fires r = true) (k : Int) :
    R (setKey A k []) (clearKey fires t k) :=
  R_clearKey h fires hv hfires k

/-! ### the 2.x crate API and the table-level entity API: per-operation simulation and history induction -/

/-- Per-operation simulation: every operation of the Model keeps the tables a representation of the
Spec.Ordered lists after the corresponding list operation. -/
theorem C09_step_simulates {S : Ord} {d : Db} (h : ChInv S d) (op : Op) (hok : okOp op = true) :
    ChInv (ordStep S d op) (step d op).1 :=
  chInv_step h op hok

/- Full statement (false, see `C09_history_counterexample`):
   ∀ ops n, ChInv (ordRun Db.empty Ord.empty (ops.take n)) (run Db.empty (ops.take n)). -/
/-- History induction: after every prefix of every history from the empty database both tables
represent the Spec.Ordered lists. -/
theorem C09_history_represented_partial (ops : List Op) (hok : ops.all okOp = true) (n : Nat) :
    ChInv (ordRun Db.empty Ord.empty (ops.take n)) (run Db.empty (ops.take n)) := by
  apply chInv_run chInv_empty
  rw [List.all_eq_true] at hok ⊢
  intro op hop
  exact hok op (List.mem_of_mem_take hop)

/-- … hence the executable chain well-formedness (the predicate the tie evaluates on the real rows). -/
theorem C09_history_wfChains_partial (ops : List Op) (hok : ops.all okOp = true) :
    wfChains (run Db.empty ops) = true :=
  wfChains_of_chInv (chInv_run chInv_empty ops hok)

/-- Every ordered listing of the Model equals the Spec.Ordered list: root_crates, children, the entity
listing (entity ids in order, each with its track) and crate::tracks; no listing meets the missing-tail
undefined behaviour; every listing is duplicate-free. -/
theorem C09_listings_equal_spec {S : Ord} {d : Db} (h : ChInv S d) :
    qRoots d = .ok (S.kids 0) ∧ (∀ c, qChildren d c = .ok (S.kids c)) ∧ (∀ k, (S.kids k).Nodup) ∧
    (∀ l, ∃ rows, qEntities d l = .ok rows ∧ rows.map (·.1) = S.ents l ∧ qTracks d l = .ok (rows.map (·.2.1)) ∧
      (∀ p ∈ rows, ∃ r ∈ d.pe, r.id = p.1 ∧ r.val.track = p.2.1 ∧ r.val.uuid = p.2.2 ∧ r.key = l)) ∧
    (∀ l, (S.ents l).Nodup) := by
  refine ⟨walkIds_eq h.rk 0, fun c => walkIds_eq h.rk c, h.rk.nodup, ?_, h.re.nodup⟩
  intro l
  obtain ⟨rows, hw, hm, hr⟩ := walkBack_spec h.re l
  refine ⟨rows.map (fun r => (r.id, r.val.track, r.val.uuid)), ?_, ?_, ?_, ?_⟩
  · simp [qEntities, hw, Res.bind]
  · rw [List.map_map]; exact hm
  · simp [qTracks, hw, Res.bind, List.map_map, Function.comp_def]
  · intro p hp
    obtain ⟨r, hrm, rfl⟩ := List.mem_map.mp hp
    exact ⟨r, (hr r hrm).1, rfl, rfl, rfl, (hr r hrm).2⟩

theorem C09_history_listings_equal_spec_partial (ops : List Op) (hok : ops.all okOp = true) :
    let d := run Db.empty ops
    let S := ordRun Db.empty Ord.empty ops
    qRoots d = .ok (S.kids 0) ∧ (∀ c, qChildren d c = .ok (S.kids c)) ∧
    (∀ l, ∃ rows, qEntities d l = .ok rows ∧ rows.map (·.1) = S.ents l ∧ qTracks d l = .ok (rows.map (·.2.1))) := by
  obtain ⟨h1, h2, _, h4, _⟩ := C09_listings_equal_spec (chInv_run chInv_empty ops hok)
  refine ⟨h1, h2, fun l => ?_⟩
  obtain ⟨rows, a, b, c, _⟩ := h4 l
  exact ⟨rows, a, b, c⟩

/-- Across one operation every sibling listing and every entry listing of the Spec.Ordered state changes
exactly as the property prescribes (`Change.holds`): a crate created after a sibling sits immediately after
it; a crate created without a position or moved to a new parent appears among its new siblings (the Model
appends); a removal erases the one item and keeps the rest in order; every other listing is untouched. -/
theorem C09_step_changes_as_prescribed {S : Ord} {d : Db} (h : ChInv S d) (op : Op) (k : Int) :
    (kidsChange d op k).holds (S.kids k) ((ordStep S d op).kids k) = true ∧
    (entsChange d op k).holds (S.ents k) ((ordStep S d op).ents k) = true :=
  ⟨kids_change h op k, ents_change h op k⟩

/-- The same on the Model's own listings (what the oracle of the tie checks on the real library's
listings): for every reachable state and every further operation, the listing of every key before and
after are related by the prescribed change, and the new one is duplicate-free. -/
theorem C09_history_listings_change_as_prescribed_partial (ops : List Op) (hok : ops.all okOp = true)
    (op : Op) (hop : okOp op = true) (k : Int) :
    let d := run Db.empty ops
    ∃ old new, qChildren d k = .ok old ∧ qChildren (step d op).1 k = .ok new ∧
      (kidsChange d op k).holds old new = true ∧ new.Nodup ∧
    ∃ olde newe, (qEntities d k).bind (fun l => .ok (l.map (·.1))) = .ok olde ∧
      (qEntities (step d op).1 k).bind (fun l => .ok (l.map (·.1))) = .ok newe ∧
      (entsChange d op k).holds olde newe = true ∧ newe.Nodup := by
  intro d
  have hI := chInv_run chInv_empty ops hok
  have hI' := chInv_step hI op hop
  obtain ⟨_, a2, _, a4, _⟩ := C09_listings_equal_spec hI
  obtain ⟨_, b2, b3, b4, b5⟩ := C09_listings_equal_spec hI'
  refine ⟨_, _, a2 k, b2 k, kids_change hI op k, b3 k, ?_⟩
  obtain ⟨rows, r1, r2, _, _⟩ := a4 k
  obtain ⟨rows', s1, s2, _, _⟩ := b4 k
  refine ⟨_, _, ?_, ?_, ents_change hI op k, b5 k⟩
  · show (qEntities (run Db.empty ops) k).bind _ = _
    rw [r1]; simp [Res.bind, r2]
  · show (qEntities (step (run Db.empty ops) op).1 k).bind _ = _
    rw [s1]; simp [Res.bind, s2]

/-- An entry's identity is (list, database uuid, track id): add_back treats as a duplicate only an entry of the
same list with the same track id AND the same database uuid.  Whatever else the list holds — in particular
an entry of ANOTHER database that happens to carry the same numeric track id — a new entry is appended at the
end of the listing with the next AUTOINCREMENT id, for every uuid `u`. -/
theorem C09_add_back_identity_includes_database {S : Ord} {d : Db} (h : ChInv S d) (l t u : Int) (f : Bool) (ht : 0 < t)
    (hnew : peFind d l t u = none) :
    (step d (.peAddBack l t u f)).2 = .ok (some (d.peSeq + 1)) ∧
    (ordStep S d (.peAddBack l t u f)).ents l = S.ents l ++ [d.peSeq + 1] ∧
    ChInv (ordStep S d (.peAddBack l t u f)) (step d (.peAddBack l t u f)).1 ∧
    ∃ rows, qEntities (step d (.peAddBack l t u f)).1 l = .ok rows ∧ rows.map (·.1) = S.ents l ++ [d.peSeq + 1] ∧
      (d.peSeq + 1, t, u) ∈ rows := by
  have hstep : step d (.peAddBack l t u f) =
      ({ d with pe := appendBack d.pe (d.peSeq + 1) l ⟨t, u⟩, peSeq := d.peSeq + 1 }, .ok (some (d.peSeq + 1))) := by
    simp [step, peAddBack, hnew]
  have hord : (ordStep S d (.peAddBack l t u f)).ents l = S.ents l ++ [d.peSeq + 1] := by
    rw [ordStep_ok hstep]; simp [ordOk, hnew]
  have hI' := chInv_step h (.peAddBack l t u f) (by simpa [okOp] using ht)
  refine ⟨by rw [hstep], hord, hI', ?_⟩
  obtain ⟨_, _, _, h4, _⟩ := C09_listings_equal_spec hI'
  obtain ⟨rows, r1, r2, _, r4⟩ := h4 l
  refine ⟨rows, r1, by rw [r2, hord], ?_⟩
  have hm : d.peSeq + 1 ∈ rows.map (·.1) := by rw [r2, hord]; simp
  obtain ⟨p, hp, e⟩ := List.mem_map.mp hm
  obtain ⟨r, hr, e1, e2, e3, _⟩ := r4 p hp
  -- the row with the new id is the appended one
  rw [hstep] at hr
  rcases mem_appendBack hr with ⟨r0, hr0, e4, _⟩ | ⟨_, e5⟩
  · exfalso
    have : d.peSeq + 1 ∈ ids d.pe := by
      simp only [ids, List.mem_map]; exact ⟨r0, hr0, by rw [← e4, e1, e]⟩
    have := h.peSeq _ this
    omega
  · have : p = (d.peSeq + 1, t, u) := by
      rw [e5] at e2 e3
      cases p with
      | mk a b =>
        cases b with
        | mk b c => simp only at e e2 e3; rw [e, ← e2, ← e3]
    rw [← this]; exact hp

/-- The unrestricted history statement is false of the code: at table level an entry whose trackId is not
positive is not re-linked when it is removed (the schema's trigger_before_delete_PlaylistEntity is declared
`WHEN OLD.trackId > 0`), after which get_for_list dereferences the missing tail.
Replayed on the real library: findings/C09.json, witness
`pe.add 3 2 0 0 ; pe.add 3 3 0 0 ; pe.add 3 0 0 0 ; pe.remove 3 3 ; pe.list 3`. -/
theorem C09_history_counterexample :
    qEntities (run Db.empty [.peAddBack 3 2 0 false, .peAddBack 3 3 0 false, .peAddBack 3 0 0 false, .peRemove 3 3]) 3
      = .ub .oob_read ∧
    wfChains (run Db.empty [.peAddBack 3 2 0 false, .peAddBack 3 3 0 false, .peAddBack 3 0 0 false, .peRemove 3 3]) = false := by
  decide

/-! ### non-vacuity -/

/-- A history exercising creation after the first sibling, sub-crates, a move of a non-last sibling,
contents and a removal satisfies `okOp`; its listings are the expected ones. -/
def sampleOps : List Op :=
  [.createRoot [97], .createRoot [98], .createRootAfter [99] 1, .createSub 1 [100], .createSub 1 [101],
   .setParent 3 (some 1), .createTrack, .createTrack, .addTrack 1 2, .addTrack 1 1, .peAddBack 1 2 0 false,
   .removeTrackFrom 1 2, .removeCrate 4]

example : sampleOps.all okOp = true := by decide
example : qRoots (run Db.empty sampleOps) = .ok [1, 2] := by decide
example : qChildren (run Db.empty sampleOps) 1 = .ok [5, 3] := by decide
example : qTracks (run Db.empty sampleOps) 1 = .ok [1] := by decide
example : (ordRun Db.empty Ord.empty sampleOps).kids 1 = [5, 3] := by decide
/-- two databases with colliding track ids in one list: [A:7, B:7, A:8, B:8]; re-adding B:7 returns entity 2;
removing it leaves [A:7, A:8, B:8] -/
def mixedOps : List Op := [.peAddBack 5 7 0 false, .peAddBack 5 7 1 false, .peAddBack 5 8 0 false, .peAddBack 5 8 1 true]
example : mixedOps.all okOp = true := by decide
example : qEntities (run Db.empty mixedOps) 5 = .ok [(1, 7, 0), (2, 7, 1), (3, 8, 0), (4, 8, 1)] := by decide
example : peFind (run Db.empty (mixedOps.take 1)) 5 7 1 = none ∧ (peGet (run Db.empty (mixedOps.take 1)) 5 7).isSome = true := by decide
example : (step (run Db.empty mixedOps) (.peAddBack 5 7 1 false)).2 = .ok (some 2) := by decide
example : qEntities (run Db.empty (mixedOps ++ [.peRemove 5 2])) 5 = .ok [(1, 7, 0), (3, 8, 0), (4, 8, 1)] := by decide

example : okOp (.setParent 3 (some 1)) = true ∧ (kidsChange (run Db.empty (sampleOps.take 5)) (.setParent 3 (some 1)) 1)
    = Ordered.Change.inserted 3 := by decide

end EngineModel.Properties.C09
