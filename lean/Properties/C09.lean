/-
C09 — Ordered listings keep every sibling and entry exactly once, in order (schema 2.x).

Model: Db/Chain.lean (generic keyed chains in a SQL table: the statements and triggers as list
operations), instantiated twice in Db/V2Crates.lean (Playlist: key = parentListId;
PlaylistEntity: key = listId) together with the crate API of src/djinterop/engine/v2.
Spec: Spec/Ordered.lean (one duplicate-free list of ids per key; `insertAfter`, append, `erase`;
`Change.holds` = how a listing may change across one operation).

`R A t` (Proofs/Chain.lean): the table `t` represents the abstract lists `A`.
`Ord` (Proofs/V2Abs.lean): the Spec state — sibling lists per parent, entry lists per playlist, every entry
with its payload (entity id, track id, database uuid).
`ordNext S f op res`: the Spec lists after `op`, computed with the list operations of Spec/Ordered from the
Spec state itself (`S`, and the Spec forest `f` of C07: who is whose parent, who is live, the subtree of a
crate), the arguments of the call and its answer `res` (returned / threw, the new id) — nothing else of the
Model is read; in particular WHICH entry a removal removes is looked up in the Spec's own listing.
`specRunO`: forest by `judgeF` (C07) and lists by `ordNext`, along a history, from the Model's answers only.
`ChInv S d` (Proofs/V2Rep.lean): `R S.kids d.pl ∧ R S.entIds d.pe`, every row carries the payload the Spec
recorded for it, no (list, database, track) triple twice, every entity row makes the schema's delete trigger
fire, ids within the AUTOINCREMENT counters.

Known finding (findings/C09.json, table level only): an entity row with trackId ≤ 0 is not
re-linked when it is removed, because the schema's own trigger is declared `WHEN OLD.trackId > 0`.
The history theorems therefore carry the decidable hypothesis `ops.all okOp`
(`okOp (.peAddBack _ t _) = (0 < t)`, every other operation — in particular the whole crate API,
where add_track demands an existing track — is `okOp`); the unrestricted statement is refuted by
`C09_history_counterexample`.
-/
import Proofs.V2Run

namespace EngineModel.Properties.C09
open EngineModel EngineModel.Db.Chain EngineModel.Db.V2 EngineModel.Spec

variable {α : Type}

/-- The backwards walk of `sort_ids` / `get_for_list` over a table that represents `A`
returns the list of key `k`: every item exactly once, in order, and without meeting the
missing-tail undefined behaviour. -/
theorem C09_walk_lists_every_item_once_in_order {A : Int → List Int} {t : Table α} (h : R A t) (k : Int) :
    walkIds t k = .ok (A k) ∧ (A k).Nodup :=
  ⟨walkIds_eq h k, h.nodup k⟩

/-- … and the listing of `k` consists of exactly the rows of `k`: none lost, none foreign. -/
theorem C09_listing_covers_exactly_the_rows {A : Int → List Int} {t : Table α} (h : R A t) (k x : Int) :
    x ∈ A k ↔ ∃ r ∈ t, r.id = x ∧ r.key = k := by
  constructor
  · exact h.cover k x
  · rintro ⟨r, hr, rfl, rfl⟩; exact h.mem r hr

/-- INSERT under trigger_before_insert_List / trigger_after_insert_List puts the new row
immediately before `target` (at the end for target 0) in the list of its key and leaves
every other list alone. -/
theorem C09_insert_simulates {A : Int → List Int} {t : Table α} (h : R A t) {n k b : Int} (v : α)
    (hpos : 0 < n) (hfresh : n ∉ ids t) (hb : b = 0 ∨ b ∈ A k) :
    R (setKey A k (Ordered.insertBefore b n (A k))) (insertBefore t n k b v) :=
  R_insertBefore h v hpos hfresh hb

/-- non-vacuity: a concrete two-sibling table satisfies `R`, and the insert lemma applies to it. -/
example : R (fun k => if k = 0 then [1, 2] else []) ([⟨1, 0, 2, ()⟩, ⟨2, 0, 0, ()⟩] : Table Unit) := by
  constructor
  · decide
  · intro r hr; simp at hr; rcases hr with rfl | rfl <;> decide
  · intro k; by_cases h : k = 0 <;> simp [h]
  · intro r hr; simp at hr; rcases hr with rfl | rfl <;> simp
  · intro r hr; simp at hr; rcases hr with rfl | rfl <;> simp [succ]
  · intro k x hx
    by_cases h : k = 0
    · simp [h] at hx
      rcases hx with rfl | rfl
      · exact ⟨⟨1, 0, 2, ()⟩, by simp, rfl, h.symm⟩
      · exact ⟨⟨2, 0, 0, ()⟩, by simp, rfl, h.symm⟩
    · simp [h] at hx

/-! ### the table-level simulation lemmas, one per statement sequence -/

/-- `DELETE FROM Playlist WHERE id = ?` under trigger_after_delete_List. -/
theorem C09_delete_playlist_simulates {A : Int → List Int} {t : Table α} (h : R A t) {i : Int} {old : Row α}
    (hg : get t i = some old) :
    R (setKey (setKey A old.key ((A old.key).erase i)) i []) (deleteCascade t i) :=
  R_deleteCascade h hg

/-- The four-statement splice of playlist_table::update to another parent. -/
theorem C09_move_simulates {A : Int → List Int} {t : Table α} (h : R A t) {old : Row α} (hold : old ∈ t)
    {nk target : Int} (hk : nk ≠ old.key) (hb : target = 0 ∨ target ∈ A nk) (v : α) :
    R (setKey (setKey A old.key ((A old.key).erase old.id)) nk (Ordered.insertBefore target old.id (A nk)))
      (move t old.id old.key old.next nk target v) :=
  R_move h hold hk hb v

/-- playlist_entity_table::add_back. -/
theorem C09_add_back_simulates {A : Int → List Int} {t : Table α} (h : R A t) {n k : Int} (v : α)
    (hpos : 0 < n) (hfresh : n ∉ ids t) : R (setKey A k (A k ++ [n])) (appendBack t n k v) :=
  R_appendBack h v hpos hfresh

/-- playlist_entity_table::remove, the schema's delete trigger firing for every row. -/
theorem C09_remove_entity_simulates {A : Int → List Int} {t : Table α} (h : R A t) (fires : Row α → Bool)
    (hfires : ∀ r ∈ t, fires r = true) (k i : Int) :
    R (setKey A k ((A k).erase i)) (deleteKeyed fires t k i) :=
  R_deleteKeyed h fires hfires k i

/-- playlist_entity_table::clear. -/
theorem C09_clear_simulates {A : Int → List Int} {t : Table α} (h : R A t) (fires : Row α → Bool)
    (hv : ∀ r r' : Row α, r.val = r'.val → fires r = fires r') (hfires : ∀ r ∈ t, fires r = true) (k : Int) :
    R (setKey A k []) (clearKey fires t k) :=
  R_clearKey h fires hv hfires k

/-! ### the 2.x crate API and the table-level entity API: per-operation simulation and history induction -/

/-- Per-operation simulation: every operation of the Model keeps the tables a representation of the Spec lists
after the corresponding Spec operation (`absF d` is the Spec forest by C07's refinement; `PlInv d`: that forest is
well-formed, so that the recursive view behind remove_crate / set_parent terminates). -/
theorem C09_step_simulates {S : Ord} {d : Db} (h : ChInv S d) (hP : PlInv d) (op : Op) (hok : okOp op = true) :
    ChInv (ordNext S (absF d) op (step d op).2) (step d op).1 :=
  chInv_step h hP op hok

/- Full statement (false, see `C09_history_counterexample`): the same for all `ops`. -/
/-- History induction: after every prefix of every history from the empty database the Spec run (driven by the
Model's answers only) has not objected, its forest is the abstraction of the Playlist table, and both tables
represent its lists. -/
theorem C09_history_represented_partial (ops : List Op) (hok : ops.all okOp = true) (n : Nat) :
    ∃ S, specRunO Db.empty Forest.empty Ord.empty (ops.take n) = some (absF (run Db.empty (ops.take n)), S) ∧
      ChInv S (run Db.empty (ops.take n)) := by
  apply chInv_hist
  rw [List.all_eq_true] at hok ⊢
  intro op hop
  exact hok op (List.mem_of_mem_take hop)

/-- … hence the executable chain well-formedness (the predicate the tie evaluates on the real rows). -/
theorem C09_history_wfChains_partial (ops : List Op) (hok : ops.all okOp = true) :
    wfChains (run Db.empty ops) = true := by
  obtain ⟨S, _, h⟩ := chInv_hist ops hok
  exact wfChains_of_chInv h

/-- Every ordered listing of the Model equals the Spec list: root_crates, children, get_for_list (entity id,
track id, database — exactly the Spec's entries with their payload, in order), track_ids, and crate::tracks
(the entries of the own database); no listing meets the missing-tail undefined behaviour; every listing is
duplicate-free. -/
theorem C09_listings_equal_spec {S : Ord} {d : Db} (h : ChInv S d) :
    qRoots d = .ok (S.kids 0) ∧ (∀ c, qChildren d c = .ok (S.kids c)) ∧ (∀ k, (S.kids k).Nodup) ∧
    (∀ l, qEntities d l = .ok ((S.ents l).map fun p => (p.1, p.2.track, p.2.uuid)) ∧
          qTrackIds d l = .ok ((S.ents l).map (·.2.track)) ∧
          qTracks d l = .ok (((S.ents l).filter (·.2.uuid == 0)).map (·.2.track))) ∧
    (∀ l, (S.entIds l).Nodup) :=
  ⟨walkIds_eq h.rk 0, fun c => walkIds_eq h.rk c, h.rk.nodup,
   fun l => ⟨qEntities_eq h l, qTrackIds_eq h l, qTracks_eq h l⟩, h.re.nodup⟩

theorem C09_history_listings_equal_spec_partial (ops : List Op) (hok : ops.all okOp = true) :
    ∃ S, specRunO Db.empty Forest.empty Ord.empty ops = some (absF (run Db.empty ops), S) ∧
      qRoots (run Db.empty ops) = .ok (S.kids 0) ∧ (∀ c, qChildren (run Db.empty ops) c = .ok (S.kids c)) ∧
      (∀ l, qEntities (run Db.empty ops) l = .ok ((S.ents l).map fun p => (p.1, p.2.track, p.2.uuid))) := by
  obtain ⟨S, h0, h⟩ := chInv_hist ops hok
  obtain ⟨h1, h2, _, h4, _⟩ := C09_listings_equal_spec h
  exact ⟨S, h0, h1, h2, fun l => (h4 l).1⟩

/-- Across one operation every sibling listing and every entry listing of the Spec state changes exactly as the
property prescribes (`Change.holds`; the prescription `kidsChange` / `entsChange` is computed from the Spec state,
the call and its result): a crate created after a sibling sits immediately after it; a crate created without a
position or moved to a new parent is the LAST of its new siblings (the property allows any position); an entry
added is the last of its list; a removal erases the one item and keeps the rest in order; every other listing is
untouched. -/
theorem C09_step_changes_as_prescribed {S : Ord} {d : Db} (h : ChInv S d) (op : Op) (k : Int) :
    (kidsChange (absF d) op (step d op).2 k).holds (S.kids k) ((ordNext S (absF d) op (step d op).2).kids k) = true ∧
    (entsChange S (absF d) op (step d op).2 k).holds (S.entIds k) ((ordNext S (absF d) op (step d op).2).entIds k) = true :=
  ⟨kids_change h op k, ents_change h op k⟩

/-- The same on the Model's own listings (what the oracle of the tie checks on the real library's listings): for
every reachable state and every further operation, the listing of every key before and after are related by the
prescribed change, and the new one is duplicate-free. -/
theorem C09_history_listings_change_as_prescribed_partial (ops : List Op) (hok : ops.all okOp = true)
    (op : Op) (hop : okOp op = true) (k : Int) :
    ∃ S, specRunO Db.empty Forest.empty Ord.empty ops = some (absF (run Db.empty ops), S) ∧
    ∃ old new, qChildren (run Db.empty ops) k = .ok old ∧ qChildren (step (run Db.empty ops) op).1 k = .ok new ∧
      (kidsChange (absF (run Db.empty ops)) op (step (run Db.empty ops) op).2 k).holds old new = true ∧ new.Nodup ∧
    ∃ olde newe, (qEntities (run Db.empty ops) k).bind (fun l => .ok (l.map (·.1))) = .ok olde ∧
      (qEntities (step (run Db.empty ops) op).1 k).bind (fun l => .ok (l.map (·.1))) = .ok newe ∧
      (entsChange S (absF (run Db.empty ops)) op (step (run Db.empty ops) op).2 k).holds olde newe = true ∧ newe.Nodup := by
  obtain ⟨S, h0, hI⟩ := chInv_hist ops hok
  have hI' := chInv_step hI (plInv_run plInv_empty ops) op hop
  obtain ⟨_, a2, _, a4, _⟩ := C09_listings_equal_spec hI
  obtain ⟨_, b2, b3, b4, b5⟩ := C09_listings_equal_spec hI'
  refine ⟨S, h0, _, _, a2 k, b2 k, kids_change hI op k, b3 k, S.entIds k, (ordStep S (run Db.empty ops) op).entIds k, ?_, ?_,
    ents_change hI op k, b5 k⟩
  · rw [(a4 k).1]; simp [Res.bind, Ord.entIds, List.map_map, Function.comp_def]
  · rw [(b4 k).1]; simp [Res.bind, Ord.entIds, List.map_map, Function.comp_def]

/-- The position, spelt out: a crate created without a position, and a crate moved to a new parent, is listed LAST
among its new siblings (and the listing it leaves loses exactly it). -/
theorem C09_new_or_moved_crate_is_last {S : Ord} {d : Db} (h : ChInv S d) (hP : PlInv d) :
    (∀ n out, (step d (.createRoot n)).2 = .ok out →
      ∃ i, out = some i ∧ qRoots (step d (.createRoot n)).1 = .ok (S.kids 0 ++ [i])) ∧
    (∀ p n out, (step d (.createSub p n)).2 = .ok out →
      ∃ i, out = some i ∧ qChildren (step d (.createSub p n)).1 p = .ok (S.kids p ++ [i])) ∧
    (∀ c p out, (step d (.setParent c p)).2 = .ok out → (absF d).live c = true →
      keyOf ((absF d).parentOf c) ≠ keyOf p →
      qChildren (step d (.setParent c p)).1 (keyOf p) = .ok (S.kids (keyOf p) ++ [c]) ∧
      qChildren (step d (.setParent c p)).1 (keyOf ((absF d).parentOf c)) = .ok ((S.kids (keyOf ((absF d).parentOf c))).erase c)) := by
  refine ⟨?_, ?_, ?_⟩
  · intro n out hres
    have hI' := chInv_step h hP (.createRoot n) rfl
    have hout := step_createRoot_ok hres
    refine ⟨_, hout, ?_⟩
    rw [(C09_listings_equal_spec hI').1]
    simp only [ordStep, ordNext, hres, hout, ordOk, setKey_same]
  · intro p n out hres
    have hI' := chInv_step h hP (.createSub p n) rfl
    have hout := step_createSub_ok hres
    refine ⟨_, hout, ?_⟩
    rw [(C09_listings_equal_spec hI').2.1 p]
    simp only [ordStep, ordNext, hres, hout, ordOk, setKey_same]
  · intro c p out hres hl hne
    have hI' := chInv_step h hP (.setParent c p) rfl
    have hcond : ((absF d).live c && keyOf ((absF d).parentOf c) != keyOf p) = true := by simp [hl, hne]
    have hk : (ordStep S d (.setParent c p)).kids = moveKid S.kids (keyOf ((absF d).parentOf c)) (keyOf p) c := by
      simp only [ordStep, ordNext, hres, ordOk, hcond, if_true]
    constructor
    · rw [(C09_listings_equal_spec hI').2.1 (keyOf p), hk]
      simp only [moveKid, setKey_same, setKey_other _ _ (Ne.symm hne)]
    · rw [(C09_listings_equal_spec hI').2.1 (keyOf ((absF d).parentOf c)), hk]
      simp only [moveKid, setKey_other _ _ hne, setKey_same]

/-- An entry's identity is (list, database uuid, track id): add_back treats as a duplicate only an entry of the
same list with the same track id AND the same database uuid.  Whatever else the list holds — in particular
an entry of ANOTHER database that happens to carry the same numeric track id — a new entry is appended at the
end of the listing with the next AUTOINCREMENT id and the payload given, for every uuid `u`.  (The hypothesis is on
the Spec's own listing.) -/
theorem C09_add_back_identity_includes_database {S : Ord} {d : Db} (h : ChInv S d) (hP : PlInv d) (l t u : Int) (f : Bool) (ht : 0 < t)
    (hnew : S.find l t u = none) :
    (step d (.peAddBack l t u f)).2 = .ok (some (d.peSeq + 1)) ∧
    ChInv (ordNext S (absF d) (.peAddBack l t u f) (step d (.peAddBack l t u f)).2) (step d (.peAddBack l t u f)).1 ∧
    qEntities (step d (.peAddBack l t u f)).1 l
      = .ok ((S.ents l).map (fun p => (p.1, p.2.track, p.2.uuid)) ++ [(d.peSeq + 1, t, u)]) := by
  have hnone := peFind_none_of_find h hnew
  have hstep : step d (.peAddBack l t u f) =
      ({ d with pe := appendBack d.pe (d.peSeq + 1) l ⟨t, u⟩, peSeq := d.peSeq + 1 }, .ok (some (d.peSeq + 1))) := by
    simp [step, peAddBack, hnone]
  have hI' := chInv_step h hP (.peAddBack l t u f) (by simpa [okOp] using ht)
  refine ⟨by rw [hstep], hI', ?_⟩
  rw [qEntities_eq hI' l]
  simp only [ordStep, ordNext, hstep, ordOk, hnew, Option.isNone_none, if_true, setKeyE_same, List.map_append,
    List.map_cons, List.map_nil]

/-- The unrestricted history statement is false of the code: at table level an entry whose trackId is not
positive is not re-linked when it is removed (the schema's trigger_before_delete_PlaylistEntity is declared
`WHEN OLD.trackId > 0`), after which get_for_list dereferences the missing tail.
Replayed on the real library: findings/C09.json, witness
`pe.add 3 2 0 0 ; pe.add 3 3 0 0 ; pe.add 3 0 0 0 ; pe.remove 3 3 ; pe.list 3`. -/
theorem C09_history_counterexample :
    qEntities (run Db.empty [.peAddBack 3 2 0 false, .peAddBack 3 3 0 false, .peAddBack 3 0 0 false, .peRemove 3 3]) 3
      = .ub .oob_read ∧
    wfChains (run Db.empty [.peAddBack 3 2 0 false, .peAddBack 3 3 0 false, .peAddBack 3 0 0 false, .peRemove 3 3]) = false := by
  decide

/-! ### non-vacuity -/

/-- A history exercising creation after the first sibling, sub-crates, a move of a non-last sibling,
contents and a removal satisfies `okOp`; its listings are the expected ones. -/
def sampleOps : List Op :=
  [.createRoot [97], .createRoot [98], .createRootAfter [99] 1, .createSub 1 [100], .createSub 1 [101],
   .setParent 3 (some 1), .createTrack, .createTrack, .addTrack 1 2, .addTrack 1 1, .peAddBack 1 2 0 false,
   .removeTrackFrom 1 2, .removeCrate 4]

example : sampleOps.all okOp = true := by decide
example : qRoots (run Db.empty sampleOps) = .ok [1, 2] := by decide
example : qChildren (run Db.empty sampleOps) 1 = .ok [5, 3] := by decide
example : qTracks (run Db.empty sampleOps) 1 = .ok [1] := by decide
example : (specRunO Db.empty Forest.empty Ord.empty sampleOps).map (fun p => (p.2.kids 1, p.2.ents 1)) = some ([5, 3], [(2, ⟨1, 0⟩)]) := by decide
example : okOp (.setParent 3 (some 1)) = true ∧
    kidsChange (absF (run Db.empty (sampleOps.take 5))) (.setParent 3 (some 1)) (step (run Db.empty (sampleOps.take 5)) (.setParent 3 (some 1))).2 1
      = Ordered.Change.appended 3 := by decide

/-- two databases with colliding track ids in one list: [A:7, B:7, A:8, B:8]; re-adding B:7 returns entity 2;
removing it leaves [A:7, A:8, B:8]; crate::remove_track of the own track 7 removes A:7 and keeps B:7 -/
def mixedOps : List Op := [.peAddBack 5 7 0 false, .peAddBack 5 7 1 false, .peAddBack 5 8 0 false, .peAddBack 5 8 1 true]
example : mixedOps.all okOp = true := by decide
example : qEntities (run Db.empty mixedOps) 5 = .ok [(1, 7, 0), (2, 7, 1), (3, 8, 0), (4, 8, 1)] := by decide
example : (specRunO Db.empty Forest.empty Ord.empty (mixedOps.take 1)).map (fun p => p.2.find 5 7 1) = some none := by decide
example : (step (run Db.empty mixedOps) (.peAddBack 5 7 1 false)).2 = .ok (some 2) := by decide
example : qEntities (run Db.empty (mixedOps ++ [.peRemove 5 2])) 5 = .ok [(1, 7, 0), (3, 8, 0), (4, 8, 1)] := by decide
example : qEntities (run Db.empty (mixedOps ++ [.removeTrackFrom 5 7])) 5 = .ok [(2, 7, 1), (3, 8, 0), (4, 8, 1)] := by decide
example : qTracks (run Db.empty mixedOps) 5 = .ok [7, 8] := by decide

end EngineModel.Properties.C09
