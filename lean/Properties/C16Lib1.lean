/-
C16 — Observing a library never modifies it.   Whole-library part for schema 1.x (composite-v1).

In the composite model `EngineModel/Lib/V1.lean` the observers (getters, `snapshot()`, listings and lookups, `verify()`,
`uuid()`, `version_name()`, `directory()`, `is_valid()`, `containing_crates()`; 24 constructors of the one `Call`
alphabet) are stepped by the SAME function `step : … → Lib1 → Call → Lib1 × Res Out` as the mutators and return a state
like every other call.  That the state returned is the state given is proved here over the composite step (it is not a
consequence of the type: `step` has the type of a function that could change any table).  `reload` (closing and loading)
is an observer of the stored state too (C10Lib1).
-/
import Proofs.Lib1Proj

namespace EngineModel.Properties.C16Lib1
open EngineModel EngineModel.Lib.V1 EngineModel.Api
open EngineModel.TracksV1 (Snap Field)
open EngineModel.TracksV1.Fl (FOps)

/-- **Every observing call leaves the whole library unchanged** — every table of both files, for ANY state (reachable or
not, well-formed or not), any schema version, any argument (a removed handle, an id that never existed). -/
theorem C16_lib1_observer_unchanged (o : FOps) (s : VSchema) (L : Lib1) (c : Call) (hc : c.isObserver = true) :
    (step o s L c).1 = L := step_observer o s L c hc

/-- … in particular the raw dump of all tables is the same before and after. -/
theorem C16_lib1_observer_raw_unchanged (o : FOps) (s : VSchema) (L : Lib1) (c : Call) (hc : c.isObserver = true) :
    raw (step o s L c).1 = raw L := by rw [step_observer o s L c hc]

/-- **Repeated observation returns the same answers**: after any sequence of observers the state is the one before, so
each of them — applied again, at any later point of the sequence — answers as it did the first time. -/
theorem C16_lib1_repeat (o : FOps) (s : VSchema) (L : Lib1) (qs : List Call) (hq : ∀ q ∈ qs, q.isObserver = true) :
    run o s L qs = L ∧ observeAll o s (run o s L qs) qs = observeAll o s L qs := by
  have h1 : run o s L qs = L := by
    induction qs generalizing L with
    | nil => rfl
    | cons q qs ih =>
      rw [run_cons, step_observer o s L q (hq q (List.mem_cons_self ..))]
      exact ih L (fun q' hq' => hq q' (List.mem_cons_of_mem _ hq'))
  exact ⟨h1, by rw [h1]⟩

/-- **Frame**: observers can be dropped from (or inserted into) any history without changing the state it reaches. -/
theorem C16_lib1_frame (o : FOps) (s : VSchema) (cs : List Call) (L : Lib1) :
    run o s L (cs.filter fun c => !c.isObserver) = run o s L cs := by
  induction cs generalizing L with
  | nil => rfl
  | cons c cs ih =>
    by_cases hc : c.isObserver = true
    · rw [List.filter_cons_of_neg (by simp [hc]), run_cons, step_observer o s L c hc]; exact ih L
    · rw [List.filter_cons_of_pos (by simpa using hc), run_cons, run_cons]; exact ih _

/-- An observer's answer is a function of the state alone (`observe`): the outcome of the step is what `observe` computes
from the state before. -/
theorem C16_lib1_answer_from_state (o : FOps) (s : VSchema) (L : Lib1) (c : Call) (hc : c.isObserver = true) :
    ∃ r, observe o s L c = some r ∧ (step o s L c).2 = r := by
  cases c <;> first | (cases hc; done) | exact ⟨_, rfl, rfl⟩

/-- The classification is not vacuous: the 14 mutating constructors are not observers, and a mutating call does change
the dump (a crate creation on the empty 1.6.0 library), after which an observer answers differently. -/
theorem C16_lib1_mutator_changes (o : FOps) :
    Call.isObserver (.createRootCrate [97]) = false ∧
    (raw (step o .s1_6_0 (Lib1.empty .s1_6_0 [77] [80] []) (.createRootCrate [97])).1).cr.crate =
      [⟨1, [97], [97, 59]⟩] ∧
    (raw (Lib1.empty .s1_6_0 [77] [80] [])).cr.crate = [] := by
  refine ⟨rfl, ?_, rfl⟩
  show (CratesV1.step (toDetect .s1_6_0) CratesV1.Db.empty (.createRoot [97])).1.crate = _
  decide +kernel

/-- non-vacuity: 24 of the 38 constructors are observers — e.g. a getter through the handle of a track that was never
created, `snapshot()`, `verify()`, `containing_crates()` — and `observeAll` of them is what `C16_lib1_repeat` speaks about. -/
example : Call.isObserver (.get 7 .title) = true ∧ Call.isObserver (.snapshot 1) = true ∧ Call.isObserver .verify = true ∧
    Call.isObserver (.containingCrates 2) = true ∧ Call.isObserver (.trackById 0) = true ∧
    Call.isObserver (.set 1 .title none) = false ∧ Call.isObserver (.removeTrack 1) = false := by decide

end EngineModel.Properties.C16Lib1
