/-
C08 on the WHOLE schema-2.x library (work-package composite-v2): crate contents are exactly the LIVE tracks —
rows of the Track table of the same state, not an id-level stand-in — that were added and not removed.

Model: `EngineModel/Lib/V2.lean` (see Properties/C11Lib2.lean).  Histories: every public call of database / crate /
track interleaved in any order (create_track with arbitrary snapshots, update, the 26 setters, remove_track, crate
creation / renaming / re-parenting / removal, add / remove / clear tracks, every observer), failed calls included,
plus `foreignEntry` — other software adding an entry of ANOTHER database that shares a numeric track id
(`Call.admissible`).

Spec: `Spec/Members.lean` (the C08 Spec of the crate packages, untouched).  `crateHist` (Lib/V2.lean) is the
composite history as the crate package sees it; the composition theorem `crates_run` (Proofs/Lib2Sim.lean) makes
every C08V2 history theorem a theorem about the composite.
-/
import Proofs.Lib2Sim
import Proofs.Lib2Exec
import Properties.C07V2
import Proofs.V2MembersQueries
import Proofs.V2ForestQueries
import Proofs.V2Run

namespace EngineModel.Properties.C08Lib2
open EngineModel EngineModel.Db.Chain EngineModel.TracksV2 EngineModel.Lib.V2 EngineModel.Spec
open EngineModel.Db.V2 (absM absF specRunM memOp Inv inv_hist qTracks qAllTracks)
open EngineModel.Table (Schema2)

/-- **Composition.**  After any admissible history of the composite, its crate tables (with the ids of the real
Track rows as "the tracks") are the crate package's tables after `crateHist`, and its Track table is the track
package's table after `trackHist`. -/
theorem C08Lib2_composition (ops : FOps) (s : Schema2) (uuid : Bytes) (hist : List Call)
    (ha : hist.all Call.admissible = true) :
    let L := run ops s (Lib2.empty s uuid) hist
    L.crates = EngineModel.Db.V2.run EngineModel.Db.V2.Db.empty (crateHist ops s (Lib2.empty s uuid) hist) ∧
    (crateHist ops s (Lib2.empty s uuid) hist).all memOp = true ∧
    L.tdb = (TDb.empty uuid).run ops (toT s) (trackHist hist) :=
  ⟨crates_run ops s (libInv_empty s uuid).toLibCore hist ha, crateHist_memOp ops s _ hist ha, tdb_run ops s _ hist⟩

/-- **Refinement of Spec.Members by the whole library.**  Along any admissible history the membership Spec — fed
with the calls and the library's own answers only — never objects, and the state it tracks (live crates, live
tracks, (crate, track) pairs added and not removed) is exactly the abstraction of the composite's tables. -/
theorem C08Lib2_refines (ops : FOps) (s : Schema2) (uuid : Bytes) (hist : List Call) (ha : hist.all Call.admissible = true) :
    let L := run ops s (Lib2.empty s uuid) hist
    specRunM EngineModel.Db.V2.Db.empty Forest.empty Members.empty (crateHist ops s (Lib2.empty s uuid) hist)
      = some (absF L.crates, absM L.crates) := by
  intro L
  obtain ⟨hc, hm, _⟩ := C08Lib2_composition ops s uuid hist ha
  obtain ⟨_, _, _, h⟩ := inv_hist _ hm
  show _ = some (absF L.crates, absM L.crates)
  rw [hc]; exact h

/-- **crate.tracks() is exactly the live tracks added and not removed.**  After any admissible history, for every
crate id `c`: `tracks()` returns normally, leaves the library untouched, lists no track twice, lists exactly the
Spec's contents of `c`, and every listed id is the id of a ROW of table Track of the same state — a track that
`track_by_id` finds and whose handle is valid (whatever entries of other databases the playlist holds). -/
theorem C08Lib2_tracks_exactly_live_members (ops : FOps) (s : Schema2) (uuid : Bytes) (hist : List Call)
    (ha : hist.all Call.admissible = true) (c : Int) :
    let L := run ops s (Lib2.empty s uuid) hist
    ∃ l, step ops s L (.crateTracks c) = (L, .ok (.ids l)) ∧ l.Nodup ∧
      (∀ t, t ∈ l ↔ t ∈ Members.tracksOf (absM L.crates) c) ∧
      (∀ t ∈ l, ∃ row ∈ L.tdb.rows, (row.id : Int) = t ∧
        (step ops s L (.trackById t)).2 = .ok (.oid (some t)) ∧ (step ops s L (.trackIsValid row.id)).2 = .ok (.bool true)) := by
  intro L
  obtain ⟨S, hS⟩ := (libCore_run ops s (libInv_empty s uuid).toLibCore hist ha).cr
  obtain ⟨l, h1, h2, h3, h4⟩ := EngineModel.Db.V2.qTracks_spec hS.ch hS.mem c
  refine ⟨l, ?_, h2, h3, ?_⟩
  · simp only [step]
    unfold crateQuery
    show (L, (qTracks L.crates c).bind fun a => Res.ok (Out.ids a)) = _
    have h1' : qTracks L.crates c = .ok l := h1
    rw [h1']; rfl
  · intro t ht
    obtain ⟨row, hrow, e⟩ := List.mem_map.mp (h4 t ht)
    have hex : trackExists L t = true := (trackExists_iff L t).mpr (h4 t ht)
    refine ⟨row, hrow, e, by simp only [step, hex, if_true], ?_⟩
    simp only [step]
    have : (L.tdb.find row.id).isSome = true := (find_isSome_iff L.tdb row.id).mpr (List.mem_map_of_mem hrow)
    rw [this]

/-- **Membership is carried by entity rows that reference live rows.**  `(c, t)` is a membership iff a
PlaylistEntity row of this database's uuid has `listId = c`, `trackId = t`; then `c` is the id of a Playlist row and
`t` the id of a Track row (the containing relation, read either way round, is this one relation). -/
theorem C08Lib2_membership_rows (ops : FOps) (s : Schema2) (uuid : Bytes) (hist : List Call)
    (ha : hist.all Call.admissible = true) (c t : Int) :
    let L := run ops s (Lib2.empty s uuid) hist
    ((c, t) ∈ (absM L.crates).pairs ↔ ∃ e ∈ L.pe, e.key = c ∧ e.val.track = t ∧ e.val.uuid = 0) ∧
    ((c, t) ∈ (absM L.crates).pairs → (∃ p ∈ L.pl, p.id = c) ∧ ∃ row ∈ L.tdb.rows, (row.id : Int) = t) := by
  intro L
  obtain ⟨S, hS⟩ := (libCore_run ops s (libInv_empty s uuid).toLibCore hist ha).cr
  refine ⟨EngineModel.Db.V2.mem_pairs_iff, ?_⟩
  intro hp
  obtain ⟨e, he, h1, h2, h3⟩ := EngineModel.Db.V2.mem_pairs_iff.mp hp
  obtain ⟨l1, l2⟩ := hS.mem.live (core e) (mem_cores.mpr ⟨e, he, rfl⟩) h3
  simp only [core] at l1 l2
  rw [h1] at l1; rw [h2] at l2
  obtain ⟨p, hp1, hp2⟩ := List.mem_map.mp l1
  obtain ⟨row, hr1, hr2⟩ := List.mem_map.mp l2
  exact ⟨⟨p, hp1, hp2⟩, ⟨row, hr1, hr2⟩⟩

/-- **Frame across the table families.**  A call the crate package does not see — `update`, every setter
(`set_relative_path` included), every observer, a `create_track` that was refused — changes NO membership and no
crate; a `create_track` that went through only adds the new track to the live tracks. -/
theorem C08Lib2_frame_track_calls (ops : FOps) (s : Schema2) (L : Lib2) (h : LibCore s L) (c : Call)
    (ha : c.admissible = true) :
    (crateOpOf ops s L c = none → (step ops s L c).1.crates = L.crates) ∧
    (crateOpOf ops s L c = some .createTrack →
      (absM (step ops s L c).1.crates).pairs = (absM L.crates).pairs ∧
      (absM (step ops s L c).1.crates).crates = (absM L.crates).crates) := by
  have hs := crates_step ops s h c ha
  constructor
  · intro e; rw [e] at hs; exact hs
  · intro e; rw [e] at hs; rw [hs]; exact ⟨rfl, rfl⟩

/-- **Frame inside the crate tables.**  A call changes the membership of no pair it is not about (`touches`:
add / remove of (c, t) only (c, t); clear only pairs of c; remove_track only pairs of t; remove_crate only pairs of
the removed subtree; everything else, a foreign entry included, none). -/
theorem C08Lib2_frame (ops : FOps) (s : Schema2) (L : Lib2) (h : LibCore s L) (c : Call) (ha : c.admissible = true)
    (op : COp) (hop : crateOpOf ops s L c = some op) (p : Int × Int)
    (hp : ∀ mop ∈ EngineModel.Db.V2.membersOps (absF L.crates) op (EngineModel.Db.V2.step L.crates op).2,
      ¬ EngineModel.Db.V2.touches mop p) :
    p ∈ (absM (step ops s L c).1.crates).pairs ↔ p ∈ (absM L.crates).pairs := by
  obtain ⟨S, hS⟩ := h.cr
  have hs := crates_step ops s h c ha
  rw [hop] at hs
  rw [hs]
  exact EngineModel.Db.V2.step_frame hS op (crateOpOf_memOp ops s L c ha op hop) p hp

/-- **remove_track erases the track everywhere, atomically.**  On any library satisfying the invariant:
`database::remove_track(t)` of a track that has a row returns normally, afterwards no Track row has the id, no crate
lists it (no membership (c, t) is left), and no ChangeLog row names it; of a track without a row it throws and
EVERY table is as before (memberships and ChangeLog included: one transaction). -/
theorem C08Lib2_remove_track_erases (ops : FOps) (s : Schema2) (L : Lib2) (h : LibCore s L) (t : Nat) :
    let L' := (step ops s L (.removeTrack t)).1
    ((L.tdb.find t).isSome = true →
      (step ops s L (.removeTrack t)).2 = .ok .unit ∧ L'.tdb.find t = none ∧
      (∀ c, ((c, (t : Int)) ∉ (absM L'.crates).pairs)) ∧ (∀ r ∈ L'.log, r.track ≠ some t)) ∧
    ((L.tdb.find t).isSome = false → step ops s L (.removeTrack t) = (L, .throw .invalid_argument)) := by
  intro L'
  have hL' : L' = (removeTrack s t L).1 := by show (step ops s L (.removeTrack t)).1 = _; simp only [step]; rw [m2_bind_pure_fst]
  have hres : (step ops s L (.removeTrack t)).2 = (removeTrack s t L).2.bind fun _ => .ok .unit := by
    simp only [step]; exact m2_bind_pure_snd _ _ L
  have hcnt : ((L.tdb.rows.filter fun e => e.id == t).length = 0) ↔ (L.tdb.find t).isSome = false := by
    have := contains_cast L.tdb.rows t
    have h2 := trackExists_iff L (t : Int)
    constructor
    · intro hz
      cases hf : (L.tdb.find t).isSome with
      | false => rfl
      | true =>
        exfalso
        have hm := (find_isSome_iff L.tdb t).mp hf
        obtain ⟨x, hx, e⟩ := List.mem_map.mp hm
        have : x ∈ L.tdb.rows.filter fun e => e.id == t := List.mem_filter.mpr ⟨hx, by simpa using e⟩
        rw [List.length_eq_zero_iff.mp hz] at this; cases this
    · intro hf
      rw [List.length_eq_zero_iff, List.filter_eq_nil_iff]
      intro x hx hxt
      have : t ∈ L.tdb.rows.map (·.id) := List.mem_map.mpr ⟨x, hx, by simpa using hxt⟩
      have := (find_isSome_iff L.tdb t).mpr this
      rw [hf] at this; cases this
  constructor
  · intro hf
    have hz : ¬ (L.tdb.rows.filter fun e => e.id == t).length = 0 := fun hz => by
      have := hcnt.mp hz; rw [hf] at this; cases this
    have heq := removeTrack_eq s t L
    simp only [hz, if_false] at heq
    refine ⟨by rw [hres, heq]; rfl, ?_, ?_, ?_⟩
    · rw [hL', heq]
      show ({ L.tdb with rows := L.tdb.rows.filter fun e => !(e.id == t) } : TDb).find t = none
      unfold TDb.find
      rw [List.find?_eq_none]
      intro x hx
      have := (List.mem_filter.mp hx).2
      simpa using this
    · intro c hp
      obtain ⟨S, hS⟩ := (libCore_removeTrack (s := s) h t).cr
      rw [← hL'] at hS
      obtain ⟨e, he, _, h2, h3⟩ := EngineModel.Db.V2.mem_pairs_iff.mp hp
      have hl := (hS.mem.live (core e) (mem_cores.mpr ⟨e, he, rfl⟩) h3).2
      simp only [core] at hl
      rw [h2, hL', heq] at hl
      obtain ⟨x, hx, e1⟩ := List.mem_map.mp hl
      have := (List.mem_filter.mp hx).2
      have : x.id ≠ t := by simpa using this
      omega
    · intro r hr
      rw [hL', heq] at hr
      simp only [removed] at hr
      cases hc : hasChangeLog s
      · simp only [hc, Bool.false_eq_true, if_false] at hr
        rw [h.logNone hc] at hr; cases hr
      · simp only [hc, if_true, Lib2.logNullify, List.mem_map] at hr
        obtain ⟨r0, _, rfl⟩ := hr
        by_cases he : r0.track = some t
        · simp [he]
        · simp [he]
  · intro hf
    have hz := hcnt.mpr hf
    have heq := removeTrack_eq s t L
    simp only [hz, if_true] at heq
    simp only [step]
    rw [m2_bind_apply, heq]

/-- **Adding a present track and removing an absent one are no-ops** on the whole library. -/
theorem C08Lib2_noops (ops : FOps) (s : Schema2) (L : Lib2) (c t : Int) :
    (∀ e, EngineModel.Db.V2.peFind L.crates c t 0 = some e → EngineModel.Db.V2.plExists L.crates c = true →
      trackExists L t = true → step ops s L (.crateAddTrack c t) = (L, .ok .unit)) ∧
    (EngineModel.Db.V2.peFind L.crates c t 0 = none → step ops s L (.crateRemoveTrack c t) = (L, .ok .unit)) := by
  constructor
  · intro e he hc ht
    have ht' : t ∈ L.crates.tracks := (trackExists_iff L t).mp ht
    simp only [step]
    rw [m2_bind_apply]
    have : crateCall (.addTrack c t) L = (L, .ok (some e.id)) := by
      unfold crateCall
      have hs : EngineModel.Db.V2.step L.crates (.addTrack c t) = (L.crates, .ok (some e.id)) := by
        simp [EngineModel.Db.V2.step, EngineModel.Db.V2.peAddBack, he, hc, ht']
      rw [hs]; rfl
    rw [this]; rfl
  · intro he
    simp only [step]
    rw [m2_bind_apply]
    have : crateCall (.removeTrackFrom c t) L = (L, .ok none) := by
      unfold crateCall
      have hs : EngineModel.Db.V2.step L.crates (.removeTrackFrom c t) = (L.crates, .ok none) := by
        simp [EngineModel.Db.V2.step, he]
      rw [hs]; rfl
    rw [this]; rfl

/-- **crate::add_track requires a track that exists in the Track table** (fix d308111): an id without a row —
never issued, or of a removed track — is refused with `track_deleted` and nothing is written. -/
theorem C08Lib2_add_requires_live_track (ops : FOps) (s : Schema2) (L : Lib2) (c t : Int)
    (hc : EngineModel.Db.V2.plExists L.crates c = true) (ht : trackExists L t = false) :
    step ops s L (.crateAddTrack c t) = (L, .throw (.dj "track_deleted")) := by
  have ht' : t ∉ L.crates.tracks := by
    intro hh; have := (trackExists_iff L t).mpr hh; rw [ht] at this; cases this
  simp only [step]
  rw [m2_bind_apply]
  have : crateCall (.addTrack c t) L = (L, .throw (.dj "track_deleted")) := by
    unfold crateCall
    have hs : EngineModel.Db.V2.step L.crates (.addTrack c t) = (L.crates, .throw (.dj "track_deleted")) := by
      simp [EngineModel.Db.V2.step, hc, ht', EngineModel.Db.V2.exn]
    rw [hs]; rfl
  rw [this]

/-- **A removed crate (with its whole subtree) is gone for good**, along every later history of the composite —
track calls, crate calls, creations included (Playlist ids are AUTOINCREMENT): `is_valid()` of the stale handle is
false and `crate_by_id` finds nothing, so no later call can add to or list the removed crate. -/
theorem C08Lib2_removed_crate_gone (ops : FOps) (s : Schema2) (uuid : Bytes) (pre later : List Call)
    (hp : pre.all Call.admissible = true) (hl : later.all Call.admissible = true) (c x : Int)
    (hc : EngineModel.Db.V2.qValid (run ops s (Lib2.empty s uuid) pre).crates c = true)
    (hx : x = c ∨ ∃ l, EngineModel.Db.V2.qDescendants (run ops s (Lib2.empty s uuid) pre).crates c = .ok l ∧ x ∈ l) :
    let L' := run ops s (Lib2.empty s uuid) (pre ++ [.removeCrate c] ++ later)
    (step ops s L' (.crateIsValid x)).2 = .ok (.bool false) ∧ (step ops s L' (.crateById x)).2 = .ok (.oid none) := by
  intro L'
  have hall : (pre ++ [Call.removeCrate c] ++ later).all Call.admissible = true := by
    simp only [List.all_append, hp, hl, Bool.and_true, Bool.true_and]; rfl
  have h0 := (libInv_empty s uuid).toLibCore
  have hpre := crates_run ops s h0 pre hp
  have hrun := crates_run ops s h0 (pre ++ [.removeCrate c] ++ later) hall
  rw [empty_crates] at hpre hrun
  have hone : crateHist ops s (run ops s (Lib2.empty s uuid) pre) [Call.removeCrate c] = [.removeCrate c] := rfl
  rw [crateHist_append, crateHist_append, hone, v2_run_append, v2_run_append] at hrun
  rw [hpre] at hc hx
  have key := (EngineModel.Properties.C07V2.C07V2_removed_subtree_gone _ c hc x hx
    (crateHist ops s (run ops s (Lib2.empty s uuid) (pre ++ [Call.removeCrate c])) later)).2
  have hv : EngineModel.Db.V2.qValid L'.crates x = false := by
    show EngineModel.Db.V2.qValid (run ops s (Lib2.empty s uuid) (pre ++ [.removeCrate c] ++ later)).crates x = false
    rw [hrun]; exact key
  constructor
  · simp only [step]; unfold crateQuery; simp only [hv]; rfl
  · simp only [step]; unfold crateQuery; simp only [hv]; rfl

/-! ### non-vacuity: ids of crates, tracks and entity rows all differ; a foreign entry shares a track id -/

def exOps : FOps := ⟨fun _ => 0, fun _ => 0, fun _ _ => 0⟩
def exSnap (n : UInt8) : Snap := { Snap.empty with relativePath := some [97, 47, n, 46, 109, 112, 51], title := some [n] }

def exHist : List Call :=
  [.createTrack (exSnap 49), .createTrack (exSnap 50), .removeTrack 1, .createTrack (exSnap 51), .createTrack (exSnap 51),
   .createRootCrate [120], .removeCrate 1, .createRootCrate [97], .crateCreateSub 2 [98], .createRootCrate [99],
   .crateAddTrack 2 3, .crateAddTrack 3 2, .foreignEntry 3 3 7, .crateAddTrack 3 3, .crateAddTrack 3 3, .trackSet 3 (.title none),
   .crateRemoveTrack 3 3, .crateAddTrack 4 2, .crateClearTracks 4, .crateAddTrack 4 3, .crateAddTrack 4 1, .trackUpdate 2 (exSnap 52)]

example : exHist.all Call.admissible = true := by decide
/-- what the crate package sees of it (the refused second create_track of "a/3.mp3" and the track calls are invisible) -/
example : crateHist exOps .s2_20_1 (Lib2.empty .s2_20_1 [85]) exHist =
    [.createTrack, .createTrack, .removeTrack 1, .createTrack, .createRoot [120], .removeCrate 1, .createRoot [97],
     .createSub 2 [98], .createRoot [99], .addTrack 2 3, .addTrack 3 2, .peAddBack 3 3 7 false, .addTrack 3 3, .addTrack 3 3,
     .removeTrackFrom 3 3, .addTrack 4 2, .clearTracks 4, .addTrack 4 3, .addTrack 4 1] := by decide +kernel
example : (absM (run exOps .s2_20_1 (Lib2.empty .s2_20_1 [85]) exHist).crates).pairs = [(2, 3), (3, 2), (4, 3)] := by decide +kernel
example : (step exOps .s2_20_1 (run exOps .s2_20_1 (Lib2.empty .s2_20_1 [85]) exHist) (.crateTracks 3)).2 = .ok (.ids [2]) := by
  decide +kernel
example : (run exOps .s2_20_1 (Lib2.empty .s2_20_1 [85]) exHist).pe.map (fun e => (e.id, e.key, e.val.track, e.val.uuid)) =
    [(1, 2, 3, 0), (2, 3, 2, 0), (3, 3, 3, 7), (6, 4, 3, 0)] := by decide +kernel

end EngineModel.Properties.C08Lib2
