/-
C06, schema 2.x — Getters return what setters stored and setters touch only
their field.

Model: `applySetter` (one `set_*` call on the row of its track), the getters
`get…`, `readSnap` = `snapshot()`, `Db.set` (EngineModel/TracksV2/Lens.lean).
Spec: `Spec.applySetter` (EngineModel/TracksV2/SpecLens.lean): on the snapshot
of the track the named field takes the normalised value (normalisation of
C01), nothing else changes; `none` = the call must throw.
All statements are for every row / snapshot / value and every instance `ops`.
-/
import Proofs.TracksV2Lens
import Proofs.TracksV2Main
import Proofs.TracksV2Db
import Proofs.TracksV2Hist
import Proofs.TracksV2Get
import Proofs.TracksV2Wf
import Proofs.TracksV2Proj
import Proofs.TracksV2Gone
import Proofs.TracksV2NormLink

namespace EngineModel.Properties.C06V2
open EngineModel EngineModel.TracksV2 EngineModel.Prim

/-- **Every setter is the lens the Spec describes.**  On a stored row (blobs
encodable, snapshot readable) a setter succeeds exactly when the Spec accepts,
the snapshot afterwards is the Spec's (named field = normalised value, the
other 24 fields unchanged), the row stays a stored row; where the Spec rejects
the setter throws (never undefined behaviour, nothing written). -/
theorem v2_C06_setter_spec (ops : FOps) (σ : Setter) (r : Row) (y : Snap) (hr : readSnap ops r = .ok y)
    (henc : RowEnc r) :
    match Spec.applySetter σ y with
    | some y' => ∃ r', applySetter ops σ r = .ok r' ∧ readSnap ops r' = .ok y' ∧ RowEnc r'
    | none => ∃ e, applySetter ops σ r = .throw e :=
  setter_refines ops σ r y hr henc

/-- Rows written by `create_track` / `update` are stored rows with a readable
snapshot (so the theorem above applies to every track the library created). -/
theorem v2_C06_written_rows (ops : FOps) (s : Schema) (x : Snap) (r : Row) (h : writeStore ops s x = .ok r) :
    RowEnc r ∧ ∃ y, readSnap ops r = .ok y := by
  constructor
  · unfold writeStore at h
    cases hw : writeSnap ops s x with
    | ok r0 =>
      rw [hw] at h
      simp only [Res.bind, tablePut, putCues, putLoops] at h
      by_cases h1 : cuesEncodable r0.cues.1 = true
      · by_cases h2 : loopsEncodable r0.loops.1 = true
        · simp only [h1, h2, if_true, Res.ok.injEq] at h
          subst h
          exact ⟨h1, h2⟩
        · simp [h1, h2] at h
      · simp [h1] at h
    | throw e => rw [hw] at h; cases h
    | ub u => rw [hw] at h; cases h
  · cases hn : Spec.normalize s x with
    | none =>
      obtain ⟨e, he⟩ := writeStore_throw_of_reject ops s x hn
      rw [he] at h; cases h
    | some y =>
      have := writeRead_of_normalize ops s x y hn
      unfold writeRead at this
      rw [h] at this
      exact ⟨y, this⟩

/-- **Getter = snapshot field**, for all 25 fields and the two per-slot getters
(which throw `out_of_range` exactly outside the slots of the track). -/
theorem v2_C06_getter_snapshot (ops : FOps) (r : Row) (y : Snap) (h : readSnap ops r = .ok y) :
    getAlbum r = y.album ∧ getArtist r = y.artist ∧ getAverageLoudness r = y.averageLoudness ∧
    getBeatgrid r = y.beatgrid ∧ getBitrate r = y.bitrate ∧ getBpm ops r = y.bpm ∧ getComment r = y.comment ∧
    getComposer r = y.composer ∧ getDuration r = .ok y.duration ∧ getGenre r = y.genre ∧
    getHotCues r = y.hotCues ∧ getKey r = y.key ∧ getLastPlayedAt r = y.lastPlayedAt ∧ getLoops r = y.loops ∧
    getMainCue r = y.mainCue ∧ getPublisher r = y.publisher ∧ getRating r = y.rating ∧
    some (getRelativePath r) = y.relativePath ∧ getSampleCount r = y.sampleCount ∧
    getSampleRate r = y.sampleRate ∧ getTitle r = y.title ∧ getTrackNumber r = y.trackNumber ∧
    getWaveform r = y.waveform ∧ getYear r = y.year ∧ r.fileBytes = y.fileBytes ∧
    (∀ i, getHotCueAt r i = match Spec.slot i y.hotCues.length with
      | some k => (match y.hotCues[k]? with | some c => .ok c | none => .ub .oob_index)
      | none => .throw .out_of_range) ∧
    (∀ i, getLoopAt r i = match Spec.slot i y.loops.length with
      | some k => (match y.loops[k]? with | some c => .ok c | none => .ub .oob_index)
      | none => .throw .out_of_range) := by
  obtain ⟨d, hd, rfl⟩ := readSnap_ok ops r y h
  refine ⟨rfl, rfl, rfl, rfl, rfl, rfl, rfl, rfl, hd, rfl, rfl, rfl, rfl, rfl, rfl, rfl, rfl, rfl, rfl, rfl, rfl, rfl,
    rfl, rfl, rfl, ?_, ?_⟩
  · intro i
    simp only [getHotCueAt, slotIndex_eq, snapWith, readHotCues, List.length_map]
    cases hs : Spec.slot i r.cues.1.cues.length with
    | none => rfl
    | some k =>
      simp only [Res.bind, List.getElem?_map]
      cases r.cues.1.cues[k]? <;> rfl
  · intro i
    simp only [getLoopAt, slotIndex_eq, snapWith, readLoops, List.length_map]
    cases hs : Spec.slot i r.loops.1.length with
    | none => rfl
    | some k =>
      simp only [Res.bind, List.getElem?_map]
      cases r.loops.1[k]? <;> rfl

/-- the per-slot getters never index out of bounds -/
theorem v2_C06_slot_getters_safe (r : Row) (i : UInt32) :
    (∀ u, getHotCueAt r i ≠ .ub u) ∧ (∀ u, getLoopAt r i ≠ .ub u) := by
  constructor
  · intro u
    simp only [getHotCueAt, slotIndex_eq]
    cases hs : Spec.slot i r.cues.1.cues.length with
    | none => simp [Res.bind]
    | some k =>
      have hk := slot_lt _ _ _ hs
      simp [Res.bind, List.getElem?_eq_getElem hk]
  · intro u
    simp only [getLoopAt, slotIndex_eq]
    cases hs : Spec.slot i r.loops.1.length with
    | none => simp [Res.bind]
    | some k =>
      have hk := slot_lt _ _ _ hs
      simp [Res.bind, List.getElem?_eq_getElem hk]


/-! ### get ∘ set and the frame law, on the Spec (and hence, by
`v2_C06_setter_spec` + `v2_C06_getter_snapshot`, on the getters of the code) -/

/-- `get f (set f v) = normField f v`: after an accepted call the named field
has the normalised value. -/
theorem v2_C06_get_set (σ : Setter) (y y' : Snap) (h : Spec.applySetter σ y = some y') :
    some (Spec.fieldOf y' (Spec.fieldOfSetter σ)) = Spec.newValue σ y := by
  cases σ <;> simp only [Spec.applySetter] at h <;>
    first
    | (cases h; rfl)
    | (split at h
       · cases h
       · split at h
         · cases h; simp [Spec.newValue, Spec.fieldOf, Spec.fieldOfSetter, *]
         · cases h)
    | (split at h
       · cases h
       · cases h; simp [Spec.newValue, Spec.fieldOf, Spec.fieldOfSetter, *])

/-- **Frame**: for every setter and every *other* field (all 26 × 24 ordered
pairs), an accepted call leaves that field's observable value unchanged. -/
theorem v2_C06_frame (σ : Setter) (y y' : Snap) (h : Spec.applySetter σ y = some y') (g : Spec.Field)
    (hg : g ≠ Spec.fieldOfSetter σ) : Spec.fieldOf y' g = Spec.fieldOf y g := by
  cases σ <;> simp only [Spec.applySetter] at h <;>
    first
    | (cases h; cases g <;> first | rfl | exact absurd rfl hg)
    | (split at h
       · cases h
       · split at h
         · cases h; cases g <;> first | rfl | exact absurd rfl hg
         · cases h)
    | (split at h
       · cases h
       · cases h; cases g <;> first | rfl | exact absurd rfl hg)


/-! ### several tracks, arbitrary histories -/

/-- A call on one track never touches the row (hence no observable value) of
another track. -/
theorem v2_C06_other_track (ops : FOps) (db : Db) (id id' : Nat) (σ : Setter) (h : id' ≠ id) :
    (db.set ops id σ).1.get id' = db.get id' := by
  unfold Db.set
  cases db.get id with
  | none => rfl
  | some r =>
    simp only []
    cases applySetter ops σ r with
    | ok r' =>
      simp only []
      split
      · rfl
      · exact Db.get_put_other db id id' r' h
    | throw e => rfl
    | ub u => rfl

/-- One call = one step of the lens Spec on the observable state (all
snapshots of all tracks), and the table stays well-formed. -/
theorem v2_C06_step (ops : FOps) (db : Db) (hok : DbOk ops db) (id : Nat) (σ : Setter) :
    DbOk ops (db.set ops id σ).1 ∧ obs ops (db.set ops id σ).1 = Spec.stepObs (obs ops db) id σ :=
  set_step ops db hok id σ

/-- **Any finite sequence of setter calls, interleaved over any number of
tracks**: the snapshots of all tracks afterwards are exactly what the lens Spec
computes from the snapshots before (each getter = the value last set for its
field under C01's normalisation, nothing else changed, rejected calls change
nothing). -/
theorem v2_C06_history (ops : FOps) (db : Db) (hok : DbOk ops db) (h : List (Nat × Setter)) :
    DbOk ops (db.run ops h) ∧ obs ops (db.run ops h) = Spec.runObs (obs ops db) h :=
  run_obs ops db hok h

/-- what `obs` lists is what `snapshot()` returns -/
theorem v2_C06_obs_is_snapshot (ops : FOps) (db : Db) (hok : DbOk ops db) (id : Nat) (r : Row)
    (h : db.get id = some r) : db.snapshot ops id = .ok (snapOf ops r) ∧ (id, snapOf ops r) ∈ obs ops db := by
  have hm := get_mem db id r h
  refine ⟨?_, ?_⟩
  · simp only [Db.snapshot, h]; exact (hok.1 _ hm).2
  · unfold obs; exact List.mem_map.mpr ⟨(id, r), hm, rfl⟩

/-- The tables the library builds satisfy the invariant: the empty table does,
and `create_track` / `update` keep it. -/
theorem v2_C06_dbok_empty (ops : FOps) : DbOk ops Db.empty ∧ Db.empty.Fresh := by
  refine ⟨⟨?_, ?_⟩, ?_⟩
  · intro e he; cases he
  · simp [Db.empty]
  · intro e he; cases he

theorem v2_C06_dbok_create (ops : FOps) (s : Schema) (db : Db) (hok : DbOk ops db) (hf : db.Fresh) (x : Snap) :
    DbOk ops (db.create ops s x).1 ∧ (db.create ops s x).1.Fresh := by
  unfold Db.create
  cases hw : writeStore ops s x with
  | ok r =>
    simp only []
    split
    · exact ⟨hok, hf⟩
    · obtain ⟨henc, y, hy⟩ := v2_C06_written_rows ops s x r hw
      refine ⟨⟨?_, ?_⟩, ?_⟩
      · intro e he
        simp only [List.mem_append, List.mem_singleton] at he
        rcases he with he | he
        · exact hok.1 e he
        · subst he; exact ⟨henc, by rw [hy, snapOf_of_readSnap ops r y hy]⟩
      · simp only [List.map_append, List.map_cons, List.map_nil]
        rw [List.nodup_append]
        refine ⟨hok.2, by simp, ?_⟩
        intro a ha b hb
        simp only [List.mem_singleton] at hb
        subst hb
        obtain ⟨e, he, rfl⟩ := List.mem_map.mp ha
        have := hf e he
        omega
      · intro e he
        simp only [List.mem_append, List.mem_singleton] at he
        rcases he with he | he
        · have := hf e he; show e.1 < db.nextId + 1; omega
        · subst he; show db.nextId < db.nextId + 1; omega
  | throw e => exact ⟨hok, hf⟩
  | ub u => exact ⟨hok, hf⟩


/-! ### get ∘ set, frame and "value last set" on the Model's own setters and getters

The statements above relate the Model to the lens Spec and state the lens laws
on the Spec; here they are composed into statements about `applySetter` and the
getters `get…` of the Model themselves (`getField` = the getter of each of the
25 fields). -/

/-- **get ∘ set and frame, on the Model.**  On a stored row with a readable
snapshot, after a setter call the Model accepts: the getter of the named field
answers the value set under C01's normalisation (`Spec.newValue`), and the
getter of every other field (all 24) answers what it answered before. -/
theorem v2_C06_model_get_set_frame (ops : FOps) (σ : Setter) (r r' : Row) (y : Snap)
    (hr : readSnap ops r = .ok y) (henc : RowEnc r) (hs : applySetter ops σ r = .ok r') :
    (∃ w, Spec.newValue σ y = some w ∧ getField ops r' (Spec.fieldOfSetter σ) = .ok w) ∧
    ∀ g, g ≠ Spec.fieldOfSetter σ → getField ops r' g = getField ops r g := by
  obtain ⟨y', h1, h2, _⟩ := spec_of_model_ok ops σ r r' y hr henc hs
  refine ⟨⟨_, (v2_C06_get_set σ y y' h1).symm, getField_snapshot ops r' y' h2 _⟩, ?_⟩
  intro g hg
  rw [getField_snapshot ops r' y' h2, getField_snapshot ops r y hr, v2_C06_frame σ y y' h1 g hg]

/-- **Per-slot frame.**  `set_hot_cue_at(i, v)`: `hot_cue_at(i)` answers the
value set (offset −1 = empty slot), `hot_cue_at(j)` for every other index `j`
(in or out of range) and every `loop_at(j)` answer what they answered before;
symmetrically for `set_loop_at`. -/
theorem v2_C06_model_slot_frame (ops : FOps) (i : UInt32) (r r' : Row) :
    (∀ v, applySetter ops (.hotCueAt i v) r = .ok r' →
      getHotCueAt r' i = .ok (Spec.normCue v) ∧ (∀ j : UInt32, j.toNat ≠ i.toNat → getHotCueAt r' j = getHotCueAt r j) ∧
      ∀ j, getLoopAt r' j = getLoopAt r j) ∧
    (∀ v, applySetter ops (.loopAt i v) r = .ok r' →
      getLoopAt r' i = .ok v ∧ (∀ j : UInt32, j.toNat ≠ i.toNat → getLoopAt r' j = getLoopAt r j) ∧
      ∀ j, getHotCueAt r' j = getHotCueAt r j) := by
  constructor
  · intro v h
    obtain ⟨hk, hs, rfl⟩ := hotCueAt_row h
    refine ⟨?_, fun j hj => getHotCueAt_set_other r i.toNat _ j hj, fun j => rfl⟩
    unfold getHotCueAt
    simp only [List.length_set, hs, Res.bind, List.getElem?_set_self hk, read_write_hotCue]
  · intro v h
    obtain ⟨hk, hs, rfl⟩ := loopAt_row h
    refine ⟨?_, fun j hj => getLoopAt_set_other r i.toNat _ j hj, fun j => rfl⟩
    unfold getLoopAt
    simp only [List.length_set, hs, Res.bind, List.getElem?_set_self hk, read_write_loop]

/-- **The derived getters** `filename()` / `file_extension()` change only with
`set_relative_path`, and then are those of the new path (the one exception the
property makes to the frame law). -/
theorem v2_C06_model_derived (ops : FOps) (σ : Setter) (r r' : Row) (h : applySetter ops σ r = .ok r') :
    (∀ p, σ = .relativePath p →
      getFilename' r' = getFilename p ∧ getFileExtension' r' = (getFileExtension p).getD []) ∧
    (σ.newPath = none → getFilename' r' = getFilename' r ∧ getFileExtension' r' = getFileExtension' r) := by
  rcases applySetter_cols ops σ r r' h with ⟨p, rfl, h1, _, _⟩ | ⟨hn, h1, _, _⟩
  · refine ⟨?_, fun hh => by cases hh⟩
    intro p' hp
    cases hp
    unfold getFilename' getFileExtension'
    rw [h1]
    exact ⟨rfl, rfl⟩
  · refine ⟨?_, fun _ => by unfold getFilename' getFileExtension'; rw [h1]; exact ⟨rfl, rfl⟩⟩
    intro p hp
    subst hp
    cases hn

/-- **Eight slots.**  Rows written by `create_track` / `update` have eight cue
and eight loop slots, and every setter keeps that. -/
theorem v2_C06_eight_slots (ops : FOps) :
    (∀ s x r, writeStore ops s x = .ok r → r.cues.1.cues.length = 8 ∧ r.loops.1.length = 8) ∧
    (∀ σ r r', applySetter ops σ r = .ok r' → r.cues.1.cues.length = 8 ∧ r.loops.1.length = 8 →
      r'.cues.1.cues.length = 8 ∧ r'.loops.1.length = 8) :=
  ⟨fun s x r h => slots8_written ops s x r h, fun σ r r' h h8 => slots8_set ops σ r r' h h8⟩

/-- **After any history every getter of every track equals the field of its
snapshot** (and `snapshot()` succeeds). -/
theorem v2_C06_history_getters (ops : FOps) (db : Db) (hok : DbOk ops db) (h : List (Nat × Setter)) (id : Nat)
    (r : Row) (hget : (db.run ops h).get id = some r) :
    (db.run ops h).snapshot ops id = .ok (snapOf ops r) ∧
    ∀ f, getField ops r f = .ok (Spec.fieldOf (snapOf ops r) f) := by
  have hok' := (v2_C06_history ops db hok h).1
  have hm := get_mem _ id r hget
  have hread := (hok'.1 _ hm).2
  exact ⟨by simp only [Db.snapshot, hget]; exact hread, getField_snapshot ops r _ hread⟩

/-- **Each getter returns the value last set for its field.**  In a history
`h₁ ++ [set f v on track id] ++ h₂` where that call is acceptable (the lens Spec
accepts the value for the snapshot `y` the track has at that moment, and the
path is not another track's) and no later call on the same track names the same
field, the getter of `f` on track `id` at the end answers `v` under C01's
normalisation (`Spec.newValue σ y`) — whatever else happened in `h₁`, `h₂`, on
this and on other tracks, accepted or rejected. -/
theorem v2_C06_value_last_set (ops : FOps) (db : Db) (hok : DbOk ops db) (h₁ h₂ : List (Nat × Setter)) (id : Nat)
    (σ : Setter) (r₁ : Row) (y' : Snap)
    (hget : (db.run ops h₁).get id = some r₁)
    (hacc : Spec.applySetter σ (snapOf ops r₁) = some y')
    (hnc : Spec.clashObs (obs ops (db.run ops h₁)) id σ = false)
    (hlater : ∀ c ∈ h₂, c.1 = id → Spec.fieldOfSetter c.2 ≠ Spec.fieldOfSetter σ) :
    ∃ r w, (db.run ops (h₁ ++ (id, σ) :: h₂)).get id = some r ∧
      Spec.newValue σ (snapOf ops r₁) = some w ∧ getField ops r (Spec.fieldOfSetter σ) = .ok w := by
  obtain ⟨hok1, hobs1⟩ := v2_C06_history ops db hok h₁
  have hrun : db.run ops (h₁ ++ (id, σ) :: h₂) = ((db.run ops h₁).run ops [(id, σ)]).run ops h₂ := by
    rw [show h₁ ++ (id, σ) :: h₂ = h₁ ++ ([(id, σ)] ++ h₂) from rfl, Db.run_append, Db.run_append]
  obtain ⟨hokD, hobsD⟩ := v2_C06_history ops (db.run ops h₁) hok1 ((id, σ) :: h₂)
  have hrun' : (db.run ops h₁).run ops ((id, σ) :: h₂) = db.run ops (h₁ ++ (id, σ) :: h₂) := by
    rw [Db.run_append]
  rw [hrun'] at hokD hobsD
  -- the observations at the end, seen from track `id`
  have hl1 : Spec.lookup (obs ops (db.run ops h₁)) id = some (snapOf ops r₁) := by
    rw [lookup_obs, hget]; rfl
  have hstep : Spec.lookup (Spec.stepObs (obs ops (db.run ops h₁)) id σ) id = some y' := by
    rw [Spec.lookup_stepObs, hl1]
    simp [hnc, hacc]
  have hkept := Spec.field_kept_run (Spec.stepObs (obs ops (db.run ops h₁)) id σ) id (Spec.fieldOfSetter σ) h₂ hlater
  rw [hstep] at hkept
  have hfin : Spec.runObs (obs ops (db.run ops h₁)) ((id, σ) :: h₂) =
      Spec.runObs (Spec.stepObs (obs ops (db.run ops h₁)) id σ) h₂ := rfl
  rw [← hfin, ← hobsD, lookup_obs] at hkept
  cases hg : (db.run ops (h₁ ++ (id, σ) :: h₂)).get id with
  | none => rw [hg] at hkept; cases hkept
  | some r =>
    rw [hg] at hkept
    simp only [Option.map_some, Option.some.injEq] at hkept
    have hm := get_mem _ id r hg
    have hread := (hokD.1 _ hm).2
    refine ⟨r, _, rfl, (v2_C06_get_set σ _ y' hacc).symm, ?_⟩
    rw [getField_snapshot ops r _ hread, hkept]


/-- **The setters of this file are the statement sequences of the C++.**  `Db.set`
(whole effect or nothing) is not an assumption: on every table satisfying the
structural invariant of the statement-level model (ids and paths keys, origin
columns set — every reachable one, C11V2Tracks), the SELECT / UPDATE statements
of `set_*` in the order and transaction scope of `track_impl.cpp`, with
`UNIQUE (path)` able to fail any of them, project exactly onto `Db.set`: same
answer, same rows.  Hence every theorem above holds of the statement-level
model, and a setter that throws has written nothing. -/
theorem v2_C06_statement_level (ops : FOps) (id : Nat) (σ : Setter) (db : TDb) (hs : SInv db) :
    (callSet ops id σ db).1.toDb = (db.toDb.set ops id σ).1 ∧ (callSet ops id σ db).2 = (db.toDb.set ops id σ).2 :=
  callSet_toDb ops id σ hs


/-! ### removed tracks, and the link to C01's normalisation -/

/-- `track::update` keeps the table invariant (whatever its outcome). -/
theorem v2_C06_dbok_update (ops : FOps) (s : Schema) (db : Db) (hok : DbOk ops db) (id : Nat) (x : Snap) :
    DbOk ops (db.update ops s id x).1 := by
  unfold Db.update
  cases hw : writeStore ops s x with
  | throw e => exact hok
  | ub u => exact hok
  | ok r =>
    simp only []
    split
    · exact hok
    split
    · exact hok
    · obtain ⟨henc, y, hy⟩ := v2_C06_written_rows ops s x r hw
      constructor
      · intro e he
        unfold Db.put at he
        simp only [List.mem_map] at he
        obtain ⟨e0, he0, rfl⟩ := he
        cases hid : (e0.1 == id) with
        | false => simpa [hid] using hok.1 e0 he0
        | true => simp only [hid, if_true]; exact ⟨henc, by rw [hy, snapOf_of_readSnap ops r y hy]⟩
      · unfold Db.put
        simp only [List.map_map]
        have : (db.rows.map ((fun e : Nat × Row => e.1) ∘ fun e => if (e.1 == id) = true then (id, r) else e))
            = db.rows.map (·.1) := by
          apply List.map_congr_left
          intro e he
          simp only [Function.comp]
          cases hid : (e.1 == id) with
          | false => simp
          | true => simp at hid; simp [hid]
        rw [this]; exact hok.2

/-- **A removed track stays removed, and every call on its handle is refused or
a no-op.**  On the statement-level table: `remove_track` of an existing track
returns normally and leaves no row for the id; from then on, through any
history (ids are never reissued — AUTOINCREMENT), there is no row for it
(`is_valid()` false, `snapshot()` `track_deleted`), every setter throws
`track_row_id_error` without writing, `update` throws (`track_deleted` for a
storable snapshot) without writing, a second
`remove_track` throws `invalid_argument`. -/
theorem v2_C06_removed_track (ops : FOps) (s : Schema) (db : TDb) (hI : Inv db) (id : Nat) :
    (∀ t, db.find id = some t → (callRemove id db).2 = .ok () ∧ Gone (callRemove id db).1 id) ∧
    (Gone db id → ∀ hist : List TOp,
      let db' := db.run ops s hist
      db'.find id = none ∧
      (∀ σ, callSet ops id σ db' = (db', .throw .runtime_error)) ∧
      (∀ x, ∃ e, callUpdate ops s id x db' = (db', .throw e)) ∧
      callRemove id db' = (db', .throw .invalid_argument)) := by
  refine ⟨fun t hf => gone_of_remove hI hf, ?_⟩
  intro hg hist db'
  have hI' : Inv db' := inv_run ops s hist hI
  have hg' : Gone db' id := gone_run ops s hist hI hg
  refine ⟨hg'.1, fun σ => callSet_none ops σ hg'.1, ?_, ?_⟩
  · intro x
    unfold callUpdate
    rw [M.lift_bind]
    rcases writeStore_total ops s x with ⟨r, hw⟩ | ⟨e, hw⟩
    · rw [hw]
      simp only []
      rw [M.bind_apply]
      unfold M.stmt
      simp only [updateStmt_none hg'.1]
      exact ⟨_, rfl⟩
    · rw [hw]; exact ⟨e, rfl⟩
  · rw [callRemove_eq]
    have : (db'.rows.filter fun e => e.id == id).length = 0 := by
      rw [List.length_eq_zero_iff, List.filter_eq_nil_iff]
      intro e he
      simpa using find_none hg'.1 e he
    simp [this]

/-- **One normalisation.**  The value a setter must store (`Spec.newValue`, the
oracle of this part) is the value `create_track` / `update` store for the same
input (`Spec.normalize`, C01's oracle): if C01 accepts `x` and stores `y`, then
for every field with a setter, setting it to `x`'s value must leave it holding
`y`'s value (waveform: on a track with `x`'s sample count and rate). -/
theorem v2_C06_norm_is_C01_norm (s : Schema) (x y : Snap) (h : Spec.normalize s x = some y) (f : Spec.Field)
    (σ : Setter) (hσ : Spec.setterOf x f = some σ) (y0 : Snap)
    (hw : f = .waveform → y0.sampleCount = x.sampleCount ∧ y0.sampleRate = x.sampleRate) :
    Spec.newValue σ y0 = some (Spec.fieldOf y f) :=
  Spec.newValue_eq_normalize s x y h f σ hσ y0 hw

/-! ### non-vacuity -/

def exOps : FOps := ⟨fun _ => 0, fun _ => 0, fun _ _ => 0⟩
def exSnap (n : UInt8) : Snap :=
  { Snap.empty with relativePath := some [97, n, 46, 109, 112, 51], title := some [n],
                    sampleCount := some 100000, sampleRate := some 0x40e5888000000000 }
/-- a table with two tracks -/
def exDb : Db := ((Db.empty.create exOps .s2_20_3 (exSnap 49)).1.create exOps .s2_20_3 (exSnap 50)).1
/-- a history that sets, overwrites, fails and collides -/
def exHist : List (Nat × Setter) :=
  [(1, .rating (some 250)), (2, .hotCueAt 7 (some ⟨[65], 0x40f5888000000000, ⟨255, 1, 2, 3⟩⟩)),
   (1, .hotCueAt 8 none), (1, .duration (some 61500)), (2, .relativePath [97, 49, 46, 109, 112, 51]),
   (1, .waveform [⟨1, 2, 3, 4, 5, 6⟩]), (2, .mainCue (some F64.negZero)), (1, .rating none)]

example : exDb.rows.length = 2 := by decide +kernel
example : (obs exOps (exDb.run exOps exHist)) = Spec.runObs (obs exOps exDb) exHist := by decide +kernel
example : (Spec.runObs (obs exOps exDb) exHist) ≠ obs exOps exDb := by decide +kernel
/-- the colliding path was refused, the out-of-range slot was refused -/
example : (exDb.set exOps 2 (.relativePath [97, 49, 46, 109, 112, 51])).2 = .throw .sqlite_error := by decide +kernel
example : (exDb.set exOps 1 (.hotCueAt 8 none)).2 = .throw .out_of_range := by decide +kernel
example : ((exDb.run exOps exHist).snapshot exOps 1).toOption.map (·.duration) = some (some 61000) := by
  decide +kernel
example : ((exDb.run exOps exHist).snapshot exOps 1).toOption.map (·.waveform.length) = some 1024 := by
  decide +kernel

/-- the hypotheses of `v2_C06_value_last_set` are satisfiable: track 1's rating is set to 250 (→ 100) in the
middle of a history with a later title change on track 1 and rating changes on track 2 -/
example : ∃ r, (exDb.run exOps ([(2, .rating (some 3))] ++ (1, .rating (some 250)) :: [(1, .title none), (2, .rating none)])).get 1
    = some r ∧ getField exOps r .rating = .ok (.int (some 100)) := ⟨_, rfl, by decide +kernel⟩
/-- … and of the per-slot frame: slot 3 of a created track accepts a cue, slot 8 does not exist -/
example : ((exDb.get 1).bind fun r =>
    (applySetter exOps (.hotCueAt 3 (some ⟨[65], 0x40f5888000000000, ⟨255, 1, 2, 3⟩⟩)) r).toOption).isSome = true := by
  decide +kernel

/-- removed tracks: the hypotheses are met by a real removal (track 2 of the example table of C11V2Tracks' shape) -/
example : let db := ((TDb.empty [1]).run exOps .s2_21_0 [.create (exSnap 49), .create (exSnap 50)])
    (db.find 2).isSome = true ∧ ((callRemove 2 db).1.find 2).isNone = true := by decide +kernel
example : Spec.setterOf (exSnap 49) .rating = some (.rating none) ∧ Spec.setterOf (exSnap 49) .fileBytes = none := ⟨rfl, rfl⟩

end EngineModel.Properties.C06V2
