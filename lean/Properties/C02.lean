/-
C02 — Written blobs agree with an independent decoder of the Engine format.

The Spec layouts (`Format/V2.lean`, `Format/V1.lean`: codec-combinator data
written from the format description) are the independent implementation; the
theorems pin the Model of the C++ codecs (`Impl.V2`, `Impl.V1`) to them, for
all values and all byte strings, in both directions — field order, widths and
endianness are the Spec's, so encoder and decoder cannot drift together.
The framing half of the independent implementation is `Zlib/Inflate.lean`
(RFC 1950/1951) and `Zlib/Stored.lean`; it is tied by execution (see the tie).
-/
import Proofs.ImplV2Lists
import Proofs.ImplV1Lists
import Proofs.ImplV1Beat
import Proofs.InflateStored
import Proofs.PrimGen

namespace EngineModel.Properties.C02
open EngineModel EngineModel.Codec EngineModel.V2 EngineModel.Impl.V2

/-- Spec verdict in the outcome alphabet: rejection is `invalid_argument`. -/
def ofSpec {α} (o : Option α) : Res α :=
  match o with
  | some p => .ok p
  | none => .throw .invalid_argument

theorem liftDec_eq_ofSpec {α} (c : Codec α) (bs : Bytes) : liftDec c bs = ofSpec (c.dec bs) := by
  unfold liftDec ofSpec; cases c.dec bs <;> rfl

/-! ## decoders: the Model decodes exactly what the Spec decodes, to the same value and remainder -/

theorem C02_v2_track_decode_agrees (bs : Bytes) : decodeTrack bs = ofSpec (track.dec bs) := by
  rw [decodeTrack_eq, liftDec_eq_ofSpec]
theorem C02_v2_beat_decode_agrees (bs : Bytes) : decodeBeat bs = ofSpec (beat.dec bs) := by
  rw [decodeBeat_eq, liftDec_eq_ofSpec]
/-- `hlen`: the payload is a C++ byte vector (fewer than 2^63 bytes, `vector::max_size()`); needed because the
length test `3 * (n + 1)` is `int64_t` arithmetic in the Model (`ub signed_overflow` beyond the range). -/
theorem C02_v2_ovw_decode_agrees (bs : Bytes) (hlen : bs.length < maxCount) : decodeOvw bs = ofSpec (ovw.dec bs) := by
  rw [decodeOvw_eq bs hlen, liftDec_eq_ofSpec]
theorem C02_v2_cues_decode_agrees (bs : Bytes) : decodeCues bs = ofSpec (cues.dec bs) := by
  rw [decodeCues_eq, liftDec_eq_ofSpec]
theorem C02_v2_loops_decode_agrees (bs : Bytes) : decodeLoops bs = ofSpec (loops.dec bs) := by
  rw [decodeLoops_eq, liftDec_eq_ofSpec]

/-! ## encoders: the Model writes exactly the Spec's bytes, or rejects -/

theorem C02_v2_track_encode_agrees (v : Track) (extra b : Bytes) :
    encodeTrack v extra = .ok b ↔ b = track.enc v ++ extra := by
  rw [encodeTrack_ok]; constructor
  · intro h; injection h with h; exact h.symm
  · intro h; rw [h]

theorem C02_v2_beat_encode_agrees (v : Beat) (extra b : Bytes) :
    encodeBeat v extra = .ok b ↔ b = beat.enc v ++ extra := by
  rw [encodeBeat_ok]; constructor
  · intro h; injection h with h; exact h.symm
  · intro h; rw [h]

theorem C02_v2_ovw_encode_agrees (v : Ovw) (hrep : v.Valid) (extra b : Bytes) :
    encodeOvw v extra = .ok b ↔ b = ovw.enc v ++ extra := by
  rw [encodeOvw_ok v hrep]; constructor
  · intro h; injection h with h; exact h.symm
  · intro h; rw [h]

theorem C02_v2_cues_encode_agrees (v : Cues) (extra b : Bytes) :
    encodeCues v extra = .ok b ↔ ((∀ q ∈ v.cues, q.label.length ≤ 255) ∧ b = cues.enc v ++ extra) := by
  by_cases hf : CuesFit v
  · rw [encodeCues_ok v hf]; constructor
    · intro h; injection h with h; exact ⟨hf, h.symm⟩
    · intro h; rw [h.2]
  · rw [encodeCues_reject v hf]; constructor
    · intro h; cases h
    · intro h; exact absurd h.1 hf

theorem C02_v2_loops_encode_agrees (v : Loops) (extra b : Bytes) :
    encodeLoops v extra = .ok b ↔ ((∀ l ∈ v, l.label.length ≤ 255) ∧ b = loops.enc v ++ extra) := by
  by_cases hf : LoopsFit v
  · rw [encodeLoops_ok v hf]; constructor
    · intro h; injection h with h; exact ⟨hf, h.symm⟩
    · intro h; rw [h.2]
  · rw [encodeLoops_reject v hf]; constructor
    · intro h; cases h
    · intro h; exact absurd h.1 hf

/-- Non-vacuity / a pinned byte layout: a 2.x loop is label-length, label,
start (LE double), end (LE double), two flags, ARGB. -/
example : loops.enc [⟨[0x41], 0x3ff0000000000000, 0x4000000000000000, 1, 0, ⟨255, 1, 2, 3⟩⟩] =
    [1, 0, 0, 0, 0, 0, 0, 0,  1, 0x41,  0, 0, 0, 0, 0, 0, 0xf0, 0x3f,  0, 0, 0, 0, 0, 0, 0, 0x40,  1, 0,  255, 1, 2, 3] := by
  decide

/-! ## schema 1.x: the six codecs of performance_data_format.cpp against the Spec of Format/V1.lean -/
section V1
open EngineModel.V1Proofs

theorem ofOpt_eq_ofSpec {α} (o : Option α) : ofOpt o = ofSpec o := by cases o <;> rfl

/-! ### decoders -/

theorem C02_v1_track_decode_agrees (bs : Bytes) : Impl.V1.decodeTrack bs = ofSpec (V1.decodeTrack bs) := by
  rw [V1Proofs.decodeTrack_eq, ofOpt_eq_ofSpec]
theorem C02_v1_ovw_decode_agrees (bs : Bytes) (hlen : bs.length < maxCount) :
    Impl.V1.decodeOvw bs = ofSpec (V1.decodeOvw bs) := by
  rw [V1Proofs.decodeOvw_eq bs hlen, ofOpt_eq_ofSpec]
theorem C02_v1_hires_decode_agrees (bs : Bytes) (hlen : bs.length < maxCount) :
    Impl.V1.decodeHires bs = ofSpec (V1.decodeHires bs) := by
  rw [V1Proofs.decodeHires_eq bs hlen, ofOpt_eq_ofSpec]
theorem C02_v1_cues_decode_agrees (bs : Bytes) : Impl.V1.decodeCues bs = ofSpec (V1.decodeCues bs) := by
  rw [V1Proofs.decodeCues_eq, ofOpt_eq_ofSpec]
theorem C02_v1_loops_decode_agrees (bs : Bytes) : Impl.V1.decodeLoops bs = ofSpec (V1.decodeLoops bs) := by
  rw [V1Proofs.decodeLoops_eq, ofOpt_eq_ofSpec]

/- Full statement for beat data (FALSE of the code, see the counterexample below):
     ∀ bs, Impl.V1.decodeBeat bs = ofSpec (V1.decodeBeat bs)
   `beat_data::decode` wraps the two grids in `try … catch (invalid_argument)`: a payload with a
   well-formed first grid followed by fewer than 8 zero bytes (second count missing) is accepted as
   "no grids".  `missingSecondGrid` (decidable) is exactly that family. -/

/-- Everything the Spec accepts, the library decodes to the same value (no restriction). -/
theorem C02_v1_beat_decode_agrees_of_spec (bs : Bytes) (v : Impl.V1.Beat) (h : V1.decodeBeat bs = some v) :
    Impl.V1.decodeBeat bs = .ok v := decodeBeat_of_spec bs v h

/-- Outside the `missingSecondGrid` family the Model decoder is the Spec decoder. -/
theorem C02_v1_beat_decode_agrees_partial (bs : Bytes) (h : missingSecondGrid bs = false) :
    Impl.V1.decodeBeat bs = ofSpec (V1.decodeBeat bs) := by
  rw [decodeBeat_eq bs h, ofOpt_eq_ofSpec]

/-- non-vacuity: a payload the library itself writes (no grids, no trailer) is outside the family -/
example : missingSecondGrid (List.replicate 16 0 ++ [1] ++ List.replicate 16 0) = false := by decide

/-- The 73-byte witness: header, one grid of two markers, nothing else. -/
def beatMissingSecondGrid : Bytes :=
  [0,0,0,0,0,0,0,0, 0,0,0,0,0,0,0,0, 1,  0,0,0,0,0,0,0,2,
   0,0,0,0,0,0,0,0, 0,0,0,0,0,0,0,0, 4,0,0,0, 0,0,0,0,
   0,0,0,0,0,0,0x59,0x40, 4,0,0,0,0,0,0,0, 0,0,0,0, 0,0,0,0]

theorem C02_v1_beat_decode_agrees_counterexample :
    Impl.V1.decodeBeat beatMissingSecondGrid = .ok ⟨none, none, [], []⟩ ∧
    V1.decodeBeat beatMissingSecondGrid = none := by
  decide

/-! ### encoders: the Model writes exactly the Spec's bytes, or rejects exactly when the Spec does -/

theorem agree_of {r : Res Bytes} {o : Option Bytes}
    (h : (∃ b0, o = some b0 ∧ r = .ok b0) ∨ (o = none ∧ ∃ e, r = .throw e)) (b : Bytes) :
    r = .ok b ↔ o = some b := by
  rcases h with ⟨b0, ho, hr⟩ | ⟨ho, e, hr⟩
  · rw [ho, hr]; constructor
    · intro h; injection h with h; rw [h]
    · intro h; injection h with h; rw [h]
  · rw [ho, hr]; constructor
    · intro h; cases h
    · intro h; cases h

theorem C02_v1_track_encode_agrees (v : Impl.V1.Track) (b : Bytes) :
    Impl.V1.encodeTrack v = .ok b ↔ V1.encodeTrack v = some b :=
  agree_of (Or.inl ⟨_, rfl, encodeTrack_ok v⟩) b

theorem C02_v1_ovw_encode_agrees (v : Impl.V1.Wave) (b : Bytes) :
    Impl.V1.encodeOvw v = .ok b ↔ V1.encodeOvw v = some b :=
  agree_of (Or.inl (encodeOvw_ok v)) b

theorem C02_v1_hires_encode_agrees (v : Impl.V1.Wave) (b : Bytes) :
    Impl.V1.encodeHires v = .ok b ↔ V1.encodeHires v = some b :=
  agree_of (Or.inl (encodeHires_ok v)) b

theorem C02_v1_loops_encode_agrees (v : Impl.V1.Loops) (b : Bytes) :
    Impl.V1.encodeLoops v = .ok b ↔ V1.encodeLoops v = some b := by
  apply agree_of
  cases h : v.all V1.loopSlotOk with
  | true => exact Or.inl ⟨_, by simp [V1.encodeLoops, h], encodeLoops_ok v h⟩
  | false => exact Or.inr ⟨by simp [V1.encodeLoops, h], encodeLoops_reject v h⟩

theorem C02_v1_cues_encode_agrees (v : Impl.V1.Cues) (b : Bytes) :
    Impl.V1.encodeCues v = .ok b ↔ V1.encodeCues v = some b := by
  apply agree_of
  by_cases h : v.cues.length = 8 ∧ v.cues.all V1.cueSlotOk = true
  · exact Or.inl ⟨_, by simp only [V1.encodeCues, h, and_self, if_true]; rfl, encodeCues_ok v h.1 h.2⟩
  · exact Or.inr ⟨by simp only [V1.encodeCues, h, if_false], encodeCues_reject v h⟩

theorem C02_v1_beat_encode_agrees (v : Impl.V1.Beat) (b : Bytes) :
    Impl.V1.encodeBeat v = .ok b ↔ V1.encodeBeat v = some b := by
  apply agree_of
  by_cases h : V1.gridOk v.dflt = true ∧ V1.gridOk v.adj = true
  · exact Or.inl ⟨_, by simp only [V1.encodeBeat, h.1, h.2, Bool.and_self, if_true]; rfl, encodeBeat_ok v h.1 h.2⟩
  · refine Or.inr ⟨?_, _, encodeBeat_reject v h⟩
    have : (V1.gridOk v.dflt && V1.gridOk v.adj) = false := by
      cases h1 : V1.gridOk v.dflt <;> cases h2 : V1.gridOk v.adj <;> simp_all
    simp [V1.encodeBeat, this]

/-- A pinned 1.x layout: track data is sample rate (BE double), sample count (BE int64),
average loudness (BE double), key (BE int32); an absent field is zero. -/
example : V1.encodeTrack ⟨some 0x40e5888000000000, some 0x0102030405060708, none, some 7⟩ =
    some [0x40, 0xe5, 0x88, 0x80, 0, 0, 0, 0,  1, 2, 3, 4, 5, 6, 7, 8,  0, 0, 0, 0, 0, 0, 0, 0,  0, 0, 0, 7] := by
  decide

end V1

/-! ## the framing half of the independent implementation

`Zlib/Inflate.lean` (RFC 1950/1951 decoder) inverts `Zlib/Stored.lean` (stored-block encoder) on
every byte list — multi-block above 65535 bytes, Adler-32 included — and whatever follows the
stream is returned untouched.  So every blob the tie hands to the real library in direction 2
(`Spec.encode` + `Stored.frame`) is, provably, a well-formed zlib stream of exactly that payload
according to the independent decoder. -/

theorem C02_inflate_stored (x r : Bytes) : Zlib.inflate (Zlib.deflateStored x ++ r) = some (x, r) :=
  Zlib.inflate_deflateStored x r

/-- With the 4-byte big-endian length prefix (payloads below 4 GiB: the prefix is 32 bits). -/
theorem C02_unframe_frame (x : Bytes) (h : x.length < 4294967296) : Zlib.unframe (Zlib.frame x) = some x :=
  Zlib.unframe_frame x h

example : ([1, 2, 3] : Bytes).length < 4294967296 := by decide

/-! ## the primitive layer, regenerated from encode_decode_utils.hpp

Every layout above bottoms out in the primitive codecs `Codec.u8/u32le/u32be/u64le/u64be`
(`Format/Codec.lean`) over the byte arithmetic of `Basic/Prim.lean`.  `tools/tr_prim.py` regenerates
`Gen/PrimGen.lean` from clang's typed AST of `encode_decode_utils.hpp` on every run (shifts, masks, ORs,
casts, `ptr[k]`, the order of the two 32-bit halves, `memcpy` between `int64_t` and `double`); these
theorems are re-checked against the regenerated definitions: the C++ primitives *are* the Spec's
primitives.  A decoder is a function of the bytes from `ptr` to the end of the buffer; `none` is an
access outside the buffer (the callers check the length first), which is exactly where the primitive
codec has no value. -/
section PrimGen
open EngineModel.Gen.Prim EngineModel.PrimGenProofs

theorem C02_prim_uint8 :
    (∀ a r, decode_uint8 (a :: r) = some (a, r)) ∧ decode_uint8 [] = none ∧ (∀ v, encode_uint8 v = [v]) :=
  ⟨decode_uint8_cons, rfl, fun _ => rfl⟩

theorem C02_prim_int32_be :
    (∀ x, encode_int32_be x = Prim.encU32BE x) ∧
    (∀ a b c d r, decode_int32_be (a :: b :: c :: d :: r) = some (Prim.decU32BE a b c d, r)) ∧
    (∀ bs, bs.length < 4 → decode_int32_be bs = none) :=
  ⟨encode_int32_be_eq, decode_int32_be_cons, decode_int32_be_short⟩

theorem C02_prim_int32_le :
    (∀ x, encode_int32_le x = Prim.encU32LE x) ∧
    (∀ a b c d r, decode_int32_le (a :: b :: c :: d :: r) = some (Prim.decU32LE a b c d, r)) ∧
    (∀ bs, bs.length < 4 → decode_int32_le bs = none) :=
  ⟨encode_int32_le_eq, decode_int32_le_cons, decode_int32_le_short⟩

theorem C02_prim_int64_be :
    (∀ x, encode_int64_be x = Prim.encU64BE x) ∧
    (∀ a b c d e f g h r, decode_int64_be (a :: b :: c :: d :: e :: f :: g :: h :: r) =
      some (Prim.decU64BE a b c d e f g h, r)) ∧
    (∀ bs, decode_int64_be bs = u64be.dec bs) :=
  ⟨encode_int64_be_eq, decode_int64_be_cons, decode_int64_be_eq⟩

theorem C02_prim_int64_le :
    (∀ x, encode_int64_le x = Prim.encU64LE x) ∧
    (∀ a b c d e f g h r, decode_int64_le (a :: b :: c :: d :: e :: f :: g :: h :: r) =
      some (Prim.decU64LE a b c d e f g h, r)) ∧
    (∀ bs, decode_int64_le bs = u64le.dec bs) :=
  ⟨encode_int64_le_eq, decode_int64_le_cons, decode_int64_le_eq⟩

/-- A double travels as its 64 bits (`memcpy` to/from `int64_t`). -/
theorem C02_prim_double :
    (∀ x, encode_double_be x = Prim.encU64BE x) ∧ (∀ bs, decode_double_be bs = u64be.dec bs) ∧
    (∀ x, encode_double_le x = Prim.encU64LE x) ∧ (∀ bs, decode_double_le bs = u64le.dec bs) :=
  ⟨encode_double_be_eq, decode_double_be_eq, encode_double_le_eq, decode_double_le_eq⟩

/-- `decode_extra` takes everything that is left, `encode_extra` stores it verbatim. -/
theorem C02_prim_extra :
    (∀ bs, decode_extra bs = some (bs, [])) ∧ (∀ extra, encode_extra extra = extra) :=
  ⟨decode_extra_eq, encode_extra_eq⟩

/-- The encoder/decoder pairs regenerated from the header are the Spec's primitive codecs. -/
theorem C02_prim_gen_agrees :
    (⟨encode_uint8, decode_uint8⟩ : Codec UInt8) = u8 ∧
    (⟨encode_int32_le, decode_int32_le⟩ : Codec UInt32) = u32le ∧
    (⟨encode_int32_be, decode_int32_be⟩ : Codec UInt32) = u32be ∧
    (⟨encode_int64_le, decode_int64_le⟩ : Codec UInt64) = u64le ∧
    (⟨encode_int64_be, decode_int64_be⟩ : Codec UInt64) = u64be ∧
    (⟨encode_double_le, decode_double_le⟩ : Codec UInt64) = u64le ∧
    (⟨encode_double_be, decode_double_be⟩ : Codec UInt64) = u64be := by
  have mk : ∀ {α} (e : α → Bytes) (d : Bytes → Option (α × Bytes)) (c : Codec α),
      (∀ x, e x = c.enc x) → (∀ bs, d bs = c.dec bs) → (⟨e, d⟩ : Codec α) = c := by
    intro α e d c h1 h2
    cases c
    congr
    · exact funext h1
    · exact funext h2
  exact ⟨mk _ _ _ encode_uint8_eq decode_uint8_eq,
    mk _ _ _ encode_int32_le_eq decode_int32_le_eq, mk _ _ _ encode_int32_be_eq decode_int32_be_eq,
    mk _ _ _ encode_int64_le_eq decode_int64_le_eq, mk _ _ _ encode_int64_be_eq decode_int64_be_eq,
    mk _ _ _ encode_double_le_eq decode_double_le_eq, mk _ _ _ encode_double_be_eq decode_double_be_eq⟩

/-- Pinned values (negative 32- and 64-bit patterns: the `>>` of the C++ is an arithmetic shift). -/
example : encode_int32_be 0x81020384 = [0x81, 2, 3, 0x84] ∧ encode_int32_le 0x81020384 = [0x84, 3, 2, 0x81] ∧
    decode_int32_le [0x84, 3, 2, 0x81, 9] = some (0x81020384, [9]) ∧
    encode_int64_le 0x8102030405060788 = [0x88, 7, 6, 5, 4, 3, 2, 0x81] ∧
    decode_int64_be [0x81, 2, 3, 4, 5, 6, 7, 0x88] = some (0x8102030405060788, []) ∧
    decode_int64_be [1, 2, 3, 4, 5, 6, 7] = none := by
  decide

end PrimGen

end EngineModel.Properties.C02
