/-
C02 — Written blobs agree with an independent decoder of the Engine format.

The Spec layouts (`Format/V2.lean`, `Format/V1.lean`: codec-combinator data
written from the format description) are the independent implementation; the
theorems pin the Model of the C++ codecs (`Impl.V2`, `Impl.V1`) to them, for
all values and all byte strings, in both directions — field order, widths and
endianness are the Spec's, so encoder and decoder cannot drift together.
The framing half of the independent implementation is `Zlib/Inflate.lean`
(RFC 1950/1951) and `Zlib/Stored.lean`; it is tied by execution (see the tie).
-/
import Proofs.ImplV2Lists

namespace EngineModel.Properties.C02
open EngineModel EngineModel.Codec EngineModel.V2 EngineModel.Impl.V2

/-- Spec verdict in the outcome alphabet: rejection is `invalid_argument`. -/
def ofSpec {α} (o : Option α) : Res α :=
  match o with
  | some p => .ok p
  | none => .throw .invalid_argument

theorem liftDec_eq_ofSpec {α} (c : Codec α) (bs : Bytes) : liftDec c bs = ofSpec (c.dec bs) := by
  unfold liftDec ofSpec; cases c.dec bs <;> rfl

/-! ## decoders: the Model decodes exactly what the Spec decodes, to the same value and remainder -/

theorem C02_v2_track_decode_agrees (bs : Bytes) : decodeTrack bs = ofSpec (track.dec bs) := by
  rw [decodeTrack_eq, liftDec_eq_ofSpec]
theorem C02_v2_beat_decode_agrees (bs : Bytes) : decodeBeat bs = ofSpec (beat.dec bs) := by
  rw [decodeBeat_eq, liftDec_eq_ofSpec]
theorem C02_v2_ovw_decode_agrees (bs : Bytes) : decodeOvw bs = ofSpec (ovw.dec bs) := by
  rw [decodeOvw_eq, liftDec_eq_ofSpec]
theorem C02_v2_cues_decode_agrees (bs : Bytes) : decodeCues bs = ofSpec (cues.dec bs) := by
  rw [decodeCues_eq, liftDec_eq_ofSpec]
theorem C02_v2_loops_decode_agrees (bs : Bytes) : decodeLoops bs = ofSpec (loops.dec bs) := by
  rw [decodeLoops_eq, liftDec_eq_ofSpec]

/-! ## encoders: the Model writes exactly the Spec's bytes, or rejects -/

theorem C02_v2_track_encode_agrees (v : Track) (extra b : Bytes) :
    encodeTrack v extra = .ok b ↔ b = track.enc v ++ extra := by
  rw [encodeTrack_ok]; constructor
  · intro h; injection h with h; exact h.symm
  · intro h; rw [h]

theorem C02_v2_beat_encode_agrees (v : Beat) (extra b : Bytes) :
    encodeBeat v extra = .ok b ↔ b = beat.enc v ++ extra := by
  rw [encodeBeat_ok]; constructor
  · intro h; injection h with h; exact h.symm
  · intro h; rw [h]

theorem C02_v2_ovw_encode_agrees (v : Ovw) (hrep : v.Valid) (extra b : Bytes) :
    encodeOvw v extra = .ok b ↔ b = ovw.enc v ++ extra := by
  rw [encodeOvw_ok v hrep]; constructor
  · intro h; injection h with h; exact h.symm
  · intro h; rw [h]

theorem C02_v2_cues_encode_agrees (v : Cues) (extra b : Bytes) :
    encodeCues v extra = .ok b ↔ ((∀ q ∈ v.cues, q.label.length ≤ 255) ∧ b = cues.enc v ++ extra) := by
  by_cases hf : CuesFit v
  · rw [encodeCues_ok v hf]; constructor
    · intro h; injection h with h; exact ⟨hf, h.symm⟩
    · intro h; rw [h.2]
  · rw [encodeCues_reject v hf]; constructor
    · intro h; cases h
    · intro h; exact absurd h.1 hf

theorem C02_v2_loops_encode_agrees (v : Loops) (extra b : Bytes) :
    encodeLoops v extra = .ok b ↔ ((∀ l ∈ v, l.label.length ≤ 255) ∧ b = loops.enc v ++ extra) := by
  by_cases hf : LoopsFit v
  · rw [encodeLoops_ok v hf]; constructor
    · intro h; injection h with h; exact ⟨hf, h.symm⟩
    · intro h; rw [h.2]
  · rw [encodeLoops_reject v hf]; constructor
    · intro h; cases h
    · intro h; exact absurd h.1 hf

/-- Non-vacuity / a pinned byte layout: a 2.x loop is label-length, label,
start (LE double), end (LE double), two flags, ARGB. -/
example : loops.enc [⟨[0x41], 0x3ff0000000000000, 0x4000000000000000, 1, 0, ⟨255, 1, 2, 3⟩⟩] =
    [1, 0, 0, 0, 0, 0, 0, 0,  1, 0x41,  0, 0, 0, 0, 0, 0, 0xf0, 0x3f,  0, 0, 0, 0, 0, 0, 0, 0x40,  1, 0,  255, 1, 2, 3] := by
  decide

end EngineModel.Properties.C02
