/-
C19, second part — the property stated on the REGENERATED functions applied to doubles.

`Properties/C19.lean` proves (i) that the code regenerated from track_utils.hpp computes the
hand model whenever `ops.toI64 rate = some r` and (ii) the property on the hand model.  Here the
floating-point side is made concrete: `Fl.FOps.cxx o` is the instance whose
`static_cast<int64_t>` is defined bit for bit (`TracksV1.Fl.toI64`; the remaining operations
`ofI64 / ofU64 / div` stay a parameter `o`, hardware doubles in the driver).  For a finite,
non-negative rate of value ≤ 2^31 the cast is the floor of the value (`Proofs/F64Val.lean`), so
the hypothesis "r = ⌊rate⌋" of part one is discharged and the property becomes a statement about
`Gen.TrackUtils.*` itself.
-/
import Properties.C19
import Proofs.F64Val

namespace EngineModel.Properties.C19
open EngineModel EngineModel.Pure.Waveform EngineModel.Cxx EngineModel.TracksV1

/-- The property's domain for the sample rate: a finite double of value in [0, 2^31]
(sign bit clear; `-0.0` is covered by the tie only). -/
def RateOk (rate : F64.Bits) : Prop :=
  F64.isFinite rate = true ∧ F64.signOf rate = false ∧ F64.toRat rate ≤ 2147483648

/-- ⌊rate⌋ as a natural number. -/
def rateFloor (rate : F64.Bits) : Nat := ⌊F64.toRat rate⌋.toNat

theorem toRat_nonneg_of_sign (rate : F64.Bits) (hs : F64.signOf rate = false) :
    0 ≤ F64.toRat rate := by
  unfold F64.toRat; simp only [hs, Bool.false_eq_true, if_false]; exact F64.magRat_nonneg rate

/-- **The cast is the floor**: for a rate in the domain, `static_cast<int64_t>(rate)` (bit-exact)
is `⌊rate⌋`, and `⌊rate⌋ ≤ 2^31`. -/
theorem C19_rate_floor (rate : F64.Bits) (h : RateOk rate) :
    Fl.toI64 rate = some ((rateFloor rate : Nat) : Int) ∧ rateFloor rate ≤ 2147483648 ∧
    ((rateFloor rate : Nat) : ℚ) ≤ F64.toRat rate ∧ F64.toRat rate < (rateFloor rate : Nat) + 1 := by
  obtain ⟨hf, hs, hb⟩ := h
  have h0 := toRat_nonneg_of_sign rate hs
  have hfl0 : 0 ≤ ⌊F64.toRat rate⌋ := Int.floor_nonneg.mpr h0
  have hcast : ((rateFloor rate : Nat) : Int) = ⌊F64.toRat rate⌋ := by
    unfold rateFloor; exact Int.toNat_of_nonneg hfl0
  have hle : ⌊F64.toRat rate⌋ ≤ 2147483648 := by
    have h1 : ((⌊F64.toRat rate⌋ : Int) : ℚ) ≤ F64.toRat rate := Int.floor_le _
    have h2 : ((⌊F64.toRat rate⌋ : Int) : ℚ) ≤ ((2147483648 : Int) : ℚ) := by push_cast; linarith
    exact_mod_cast h2
  refine ⟨?_, by omega, ?_, ?_⟩
  · rw [hcast]; exact F64.toI64_of_nonneg rate hf hs (by linarith)
  · have : (((rateFloor rate : Nat) : Int) : ℚ) ≤ F64.toRat rate := by rw [hcast]; exact Int.floor_le _
    exact_mod_cast this
  · have : F64.toRat rate < ((⌊F64.toRat rate⌋ : Int) : ℚ) + 1 := Int.lt_floor_add_one _
    rw [← hcast] at this
    exact_mod_cast this

theorem rate_lt_210_iff (rate : F64.Bits) (h : RateOk rate) :
    rateFloor rate < 210 ↔ F64.toRat rate < 210 := by
  obtain ⟨-, -, h1, h2⟩ := C19_rate_floor rate h
  constructor
  · intro hlt
    have : ((rateFloor rate : Nat) : ℚ) + 1 ≤ 210 := by exact_mod_cast hlt
    linarith
  · intro hlt
    have : ((rateFloor rate : Nat) : ℚ) < 210 := lt_of_le_of_lt h1 hlt
    exact_mod_cast this

/-! ### the regenerated functions on doubles -/

/-- What `calculate_high_resolution_waveform_extents` (regenerated) returns on doubles. -/
theorem C19_hi_on_doubles (o : Fl.FOps) (rate : F64.Bits) (n : Nat) (h : RateOk rate)
    (hn : n ≤ 4611686018427387904) :
    Gen.TrackUtils.calculate_high_resolution_waveform_extents o.cxx n rate =
      some (hiSize n (rateFloor rate), o.ofI64 (hiSpan n (rateFloor rate) : Nat)) :=
  C19_gen_hi o.cxx rate (rateFloor rate) n (C19_rate_floor rate h).1 (C19_rate_floor rate h).2.1 hn

/-- What `calculate_overview_waveform_extents` (regenerated) returns on doubles. -/
theorem C19_ov_on_doubles (o : Fl.FOps) (rate : F64.Bits) (n : Nat) (h : RateOk rate)
    (hn : n ≤ 4611686018427387904) :
    Gen.TrackUtils.calculate_overview_waveform_extents o.cxx n rate =
      some (ovSize n (rateFloor rate),
        if n = 0 ∨ qn (rateFloor rate) = 0 then o.ofI64 0
        else o.div (o.ofU64 (ovRounded n (rateFloor rate))) (o.ofU64 1024)) :=
  C19_gen_ov o.cxx rate (rateFloor rate) n (C19_rate_floor rate h).1 (C19_rate_floor rate h).2.1 hn

/-- **The high-resolution clause of C19 on the regenerated function**: for every sample count
≤ 2^62 and every rate in [0, 2^31] the call is defined; the result is empty exactly when there is
no audio or the rate is below 210; otherwise the entry span is the quantisation number
`q = (⌊rate⌋ / 210) · 2`, `size` entries cover the track with less than one entry of slack, and no
smaller number of entries does. -/
theorem C19_hi_property (o : Fl.FOps) (rate : F64.Bits) (n : Nat) (h : RateOk rate)
    (hn : n ≤ 4611686018427387904) :
    ∃ size spe, Gen.TrackUtils.calculate_high_resolution_waveform_extents o.cxx n rate
        = some (size, spe) ∧
      (size = 0 ↔ n = 0 ∨ F64.toRat rate < 210) ∧
      (n ≠ 0 → ¬ F64.toRat rate < 210 →
        let q := qn (rateFloor rate)
        q ≠ 0 ∧ spe = o.ofI64 (q : Nat) ∧ n ≤ size * q ∧ (size - 1) * q < n ∧
        ∀ k, n ≤ k * q → size ≤ k) := by
  refine ⟨_, _, C19_hi_on_doubles o rate n h hn, ?_, ?_⟩
  · rw [(C19_empty_iff n (rateFloor rate)).1, rate_lt_210_iff rate h]
  · intro hn0 hr
    have hq : qn (rateFloor rate) ≠ 0 := by
      rw [Ne, qn_eq_zero_iff, rate_lt_210_iff rate h]; exact hr
    have hc := C19_hi_cover n (rateFloor rate) hn0 hq
    refine ⟨hq, by rw [C19_hi_span n _ hn0 hq], hc.1, hc.2, ?_⟩
    intro k hk
    exact C19_hi_minimal n (rateFloor rate) k hn0 hq hk

/-- **The overview clause of C19 on the regenerated function**: empty under the same condition;
otherwise exactly 1024 entries, and the per-entry span is `rounded / 1024` computed in doubles,
where `rounded` is the sample count rounded down to the quantisation number. -/
theorem C19_ov_property (o : Fl.FOps) (rate : F64.Bits) (n : Nat) (h : RateOk rate)
    (hn : n ≤ 4611686018427387904) :
    ∃ size spe, Gen.TrackUtils.calculate_overview_waveform_extents o.cxx n rate
        = some (size, spe) ∧
      (size = 0 ↔ n = 0 ∨ F64.toRat rate < 210) ∧
      (n ≠ 0 → ¬ F64.toRat rate < 210 →
        let q := qn (rateFloor rate)
        let rounded := ovRounded n (rateFloor rate)
        size = 1024 ∧ spe = o.div (o.ofU64 rounded) (o.ofU64 1024) ∧
        rounded ≤ n ∧ n < rounded + q ∧ rounded % q = 0) := by
  refine ⟨_, _, C19_ov_on_doubles o rate n h hn, ?_, ?_⟩
  · rw [(C19_empty_iff n (rateFloor rate)).2, rate_lt_210_iff rate h]
  · intro hn0 hr
    have hq : qn (rateFloor rate) ≠ 0 := by
      rw [Ne, qn_eq_zero_iff, rate_lt_210_iff rate h]; exact hr
    have hro := C19_ov_rounded n (rateFloor rate) hn0 hq
    have hne : ¬ (n = 0 ∨ qn (rateFloor rate) = 0) := fun hc => hc.elim hn0 hq
    exact ⟨C19_ov_size n _ hn0 hq, by rw [if_neg hne], hro.1, hro.2.1, hro.2.2⟩

/-- **Sizes are monotone in the sample count**, on the regenerated functions. -/
theorem C19_mono_property (o : Fl.FOps) (rate : F64.Bits) (n n' : Nat) (h : RateOk rate)
    (hnn : n ≤ n') (hn' : n' ≤ 4611686018427387904) :
    ∃ s s' e e' t t' f f',
      Gen.TrackUtils.calculate_high_resolution_waveform_extents o.cxx n rate = some (s, e) ∧
      Gen.TrackUtils.calculate_high_resolution_waveform_extents o.cxx n' rate = some (s', e') ∧
      Gen.TrackUtils.calculate_overview_waveform_extents o.cxx n rate = some (t, f) ∧
      Gen.TrackUtils.calculate_overview_waveform_extents o.cxx n' rate = some (t', f') ∧
      s ≤ s' ∧ t ≤ t' := by
  have hm := C19_mono n n' (rateFloor rate) hnn
  exact ⟨_, _, _, _, _, _, _, _, C19_hi_on_doubles o rate n h (by omega),
    C19_hi_on_doubles o rate n' h hn', C19_ov_on_doubles o rate n h (by omega),
    C19_ov_on_doubles o rate n' h hn', hm.1, hm.2⟩

/-! ### `1024 · samples_per_entry = rounded` -/

/-- The exactness of the two floating-point operations behind the overview span, for integers
that a double holds exactly: converting `m ≤ 2^53` and dividing by 1024 (a power of two) loses
nothing.  True of IEEE-754 arithmetic; an explicit hypothesis here because `o` is opaque, and
sampled on the hardware by the tie (`exact_span` in the evidence). -/
def SpanExact (o : Fl.FOps) : Prop :=
  ∀ m : Nat, m ≤ 9007199254740992 →
    F64.isFinite (o.div (o.ofU64 m) (o.ofU64 1024)) = true ∧
    F64.toRat (o.div (o.ofU64 m) (o.ofU64 1024)) * 1024 = (m : ℚ)

/-- With exact scaling, **1024 entries of `samples_per_entry` samples span exactly the sample count
rounded down to the quantisation number** (sample counts up to 2^53). -/
theorem C19_ov_span_exact (o : Fl.FOps) (hx : SpanExact o) (rate : F64.Bits) (n : Nat)
    (h : RateOk rate) (hn : n ≤ 9007199254740992) (hn0 : n ≠ 0) (hr : ¬ F64.toRat rate < 210) :
    ∃ spe, Gen.TrackUtils.calculate_overview_waveform_extents o.cxx n rate = some (1024, spe) ∧
      F64.toRat spe * 1024 = (ovRounded n (rateFloor rate) : ℚ) ∧
      ovRounded n (rateFloor rate) ≤ n ∧ n < ovRounded n (rateFloor rate) + qn (rateFloor rate) := by
  obtain ⟨size, spe, hcall, -, hne⟩ := C19_ov_property o rate n h (by omega)
  obtain ⟨hs, hspe, h1, h2, -⟩ := hne hn0 hr
  refine ⟨spe, by rw [hcall, hs], ?_, h1, h2⟩
  rw [hspe]
  exact (hx _ (by omega)).2

/-! ### outside the domain (registered witnesses) -/

/-- A NaN or infinite sample rate: the conversion to `int64_t` is undefined behaviour (the
generated code returns `none`; UBSan: "nan is outside the range of representable values of type
'long int'", replayed on the library). -/
theorem C19_nan_counterexample (o : Fl.FOps) (n : Nat) :
    Gen.TrackUtils.calculate_high_resolution_waveform_extents o.cxx n 0x7ff8000000000000 = none ∧
    Gen.TrackUtils.calculate_overview_waveform_extents o.cxx n 0x7ff0000000000000 = none := by
  have h1 : Fl.toI64 0x7ff8000000000000 = none := by decide
  have h2 : Fl.toI64 0x7ff0000000000000 = none := by decide
  constructor
  · simp [Gen.TrackUtils.calculate_high_resolution_waveform_extents,
      Gen.TrackUtils.waveform_quantisation_number, Fl.FOps.cxx, h1]
  · simp [Gen.TrackUtils.calculate_overview_waveform_extents,
      Gen.TrackUtils.waveform_quantisation_number, Fl.FOps.cxx, h2]

/-- A sample rate of 2^63 (or more): the same undefined conversion. -/
theorem C19_huge_rate_counterexample (o : Fl.FOps) (n : Nat) :
    Gen.TrackUtils.calculate_high_resolution_waveform_extents o.cxx n 0x43e0000000000000 = none := by
  have : Fl.toI64 0x43e0000000000000 = none := by decide
  simp [Gen.TrackUtils.calculate_high_resolution_waveform_extents,
    Gen.TrackUtils.waveform_quantisation_number, Fl.FOps.cxx, this]

/-- A negative sample rate is converted without undefined behaviour but the property fails:
−44100 Hz gives the quantisation number −420 and a waveform whose entries span −420 samples each —
no number of such entries covers 1000 samples.  The restriction `0 ≤ rate` of the domain is needed.
(Only the span is stated: the entry *count* out of the domain depends on how the ceiling division
is written, wrap-around included.) -/
theorem C19_negative_rate_counterexample (o : Fl.FOps) :
    (Gen.TrackUtils.calculate_high_resolution_waveform_extents o.cxx 1000 0xc0e5888000000000).map
      Prod.snd = some (o.ofI64 (-420)) := by
  have h0 : Fl.toI64 0xc0e5888000000000 = some (-44100) := by decide
  have h1 : I64.div (-44100) 210 = some (-210) := by decide
  have h2 : I64.mul (-210) 2 = some (-420) := by decide
  have h2' : I64.mul 2 (-210) = some (-420) := by decide
  have h3 : (decide ((1000 : Nat) = u64OfInt 0) || decide ((-420 : Int) = 0)) = false := by decide
  have h4 : u64OfInt (-420) ≠ 0 := by decide
  simp only [Gen.TrackUtils.calculate_high_resolution_waveform_extents,
    Gen.TrackUtils.waveform_quantisation_number, Fl.FOps.cxx, h0, h1, h2, h2', h3,
    U64.div_pos _ _ h4, U64.mod_pos _ _ h4,
    Option.bind_eq_bind, Option.bind_some, Option.pure_def, Bool.false_eq_true, if_false,
    Option.map_some]

/-! ### non-vacuity -/
/-- 44.1 kHz is in the domain and its floor is 44100. -/
example : RateOk 0x40e5888000000000 ∧ rateFloor 0x40e5888000000000 = 44100 := by
  have hv : F64.toRat 0x40e5888000000000 = 44100 := by
    unfold F64.toRat F64.magRat
    have e1 : F64.expOf 0x40e5888000000000 = 1038 := by decide
    have e2 : F64.manOf 0x40e5888000000000 = 1557458220744704 := by decide
    have e3 : F64.signOf 0x40e5888000000000 = false := by decide
    simp only [e1, e2, e3]
    norm_num
  refine ⟨⟨by decide, by decide, by rw [hv]; norm_num⟩, ?_⟩
  unfold rateFloor; rw [hv]; simp

end EngineModel.Properties.C19
