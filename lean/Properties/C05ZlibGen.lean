/-
C05 on `zlib_uncompress` REGENERATED from the C++ (`Gen/ZlibGen.lean`, tools/tr_zlib.py): the statements
registered about the hand loops (`Properties/C05.lean`, `C05_uncompress_total` / `_no_ub`) transferred through
`Gen.Zlib.uncompress_eq_partial` (Proofs/ZlibGenEq.lean).  The proofs depend on the regenerated bodies: a
change of the C++ loops that changes the translation breaks `lake build`.
-/
import Proofs.ZlibGenEq

namespace EngineModel.Properties.C05ZlibGen
open EngineModel EngineModel.Impl.Zlib

/-- The regenerated function IS the hand model: every oracle that keeps to the sizes it was given (`Sized`: it
never claims more input than its window nor more output than `avail_out`), every stream state, every fuel
(the same number on both sides), every input, every initial content of the by-value parameter.
Full statement (no `Sized`) false: see the end of Proofs/ZlibGenEq.lean. -/
theorem C05_gen_uncompress_eq_partial {σ : Type} (o : Oracle σ) (hsz : Gen.Zlib.Sized o) (s0 : σ) (fuel : Nat)
    (buf u0 : Bytes) :
    Gen.Zlib.uncompress o s0 fuel buf u0 = uncompress o s0 buf.length fuel buf :=
  Gen.Zlib.uncompress_eq_partial o hsz s0 fuel buf u0

/-- For every inflate oracle honouring the call contract, every stream state, every input and every fuel of
at least `fuelBound` (linear in the input): the REGENERATED `zlib_uncompress` returns a value or throws
`system_error` / `length_error`. -/
theorem C05_gen_uncompress_total {σ : Type} (o : Oracle σ) (c : Contract o) (s0 : σ) (buf u0 : Bytes)
    (fuel : Nat) (hf : fuelBound c s0 buf.length ≤ fuel) :
    (∃ out, Gen.Zlib.uncompress o s0 fuel buf u0 = .ok out) ∨
    Gen.Zlib.uncompress o s0 fuel buf u0 = .throw .system_error ∨
    Gen.Zlib.uncompress o s0 fuel buf u0 = .throw .length_or_alloc := by
  rw [Gen.Zlib.uncompress_eq_partial o (Gen.Zlib.Sized.of_contract c) s0 fuel buf u0]
  exact uncompress_total o c s0 buf fuel hf

/-- … and is never `ub`: no region outside the input vector handed to `inflate()`, no write outside the local
array, no pointer moved past the end, no read of the array beyond what was written, the loops end. -/
theorem C05_gen_uncompress_no_ub {σ : Type} (o : Oracle σ) (c : Contract o) (s0 : σ) (buf u0 : Bytes)
    (fuel : Nat) (hf : fuelBound c s0 buf.length ≤ fuel) (u : Ub) :
    Gen.Zlib.uncompress o s0 fuel buf u0 ≠ .ub u := by
  rcases C05_gen_uncompress_total o c s0 buf u0 fuel hf with ⟨out, h⟩ | h | h <;> rw [h] <;> simp

/-- non-vacuity: the pass-through oracle honours the contract (`copyContract`), fuel `4·(n − 4) + 1`. -/
example : fuelBound copyContract () 104 = 401 := by decide
example : Gen.Zlib.Sized copyOracle := Gen.Zlib.Sized.of_contract copyContract

end EngineModel.Properties.C05ZlibGen
