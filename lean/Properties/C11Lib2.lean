/-
C11 on the WHOLE schema-2.x library (work-package composite-v2).

Model: `EngineModel/Lib/V2.lean` — one state `Lib2` holding the Track table (the statement-level table of the
track package, with its UNIQUE constraints, triggers and transaction scopes), Playlist + PlaylistEntity (the crate
package's tables), the Information row (uuid, version), the ChangeLog rows `trigger_after_update_Track` writes
(schemas before 2.20.3), AlbumArt ids and PreparelistEntity; one alphabet `Call` = every public operation of
`database`, `crate` and `track`; `step` delegates to the package models and adds the cross-table interactions
(`database::remove_track`'s transaction over PlaylistEntity, ChangeLog and Track; `crate::add_track`'s existence
test on the real Track table; the library's own uuid in every entry; the ChangeLog trigger).

`LibInv` (Proofs/Lib2Inv.lean) = the package invariants + cross-table referential integrity; `libInv`
(Lib/V2.lean) is its executable form — the SAME function the driver evaluates on the dump of the real
database after every step of the tie (mode `lib2`, command `lib2.inv`).
-/
import Proofs.Lib2Exec

namespace EngineModel.Properties.C11Lib2
open EngineModel EngineModel.Db.Chain EngineModel.TracksV2 EngineModel.Lib.V2
open EngineModel.Table (Schema2)

/-- **`LibInv` is inductive over every public call**, whatever the call answers (a call that throws included),
from ANY library satisfying it. -/
theorem C11Lib2_step_preserves (ops : FOps) (s : Schema2) (L : Lib2) (h : LibInv s L) (c : Call) :
    LibInv s (step ops s L c).1 :=
  libInv_step ops s h c

/-- **Reachable ⇒ `LibInv`**: after every finite history of public calls on the library the creator of version
`s` wrote — interleaving track, crate and membership calls in any order, failed calls included; the quantifier
over histories covers every prefix. -/
theorem C11Lib2_reachable (ops : FOps) (s : Schema2) (uuid : Bytes) (hist : List Call) :
    LibInv s (run ops s (Lib2.empty s uuid) hist) :=
  libInv_run ops s (libInv_empty s uuid) hist

/-- … in the executable form the tie evaluates on the real dump. -/
theorem C11Lib2_reachable_exec (ops : FOps) (s : Schema2) (uuid : Bytes) (hist : List Call) :
    libInv s (run ops s (Lib2.empty s uuid) hist) = true :=
  libInv_of_LibInv (C11Lib2_reachable ops s uuid hist)

/-- The executable check IS the invariant (both directions) … -/
theorem C11Lib2_exec_iff (s : Schema2) (L : Lib2) : libInv s L = true ↔ LibInv s L := libInv_iff s L

/-- … hence from ANY library whose dump passes the check (one written by Engine and loaded, not only one grown
from the empty library) every history keeps it. -/
theorem C11Lib2_from_any_wellformed (ops : FOps) (s : Schema2) (L : Lib2) (h : libInv s L = true) (hist : List Call) :
    libInv s (run ops s L hist) = true :=
  libInv_of_LibInv (libInv_run ops s (LibInv_of_libInv h) hist)

/-- **Cross-table referential integrity, in logical form.**  After every history:
every PlaylistEntity row carries this database's uuid (tag 0 = `Information.uuid`), its `listId` is the id of
a Playlist row and its `trackId` the id of a row of table Track (a ROW of the Track table of the same state, not
an id-level stand-in); every ChangeLog row is NULL or names a Track row; every Track row's origin columns are
(`Information.uuid`, its own id); ChangeLog exists only before 2.20.3; every `Track.albumArtId` names an
AlbumArt row. -/
theorem C11Lib2_referential_integrity (ops : FOps) (s : Schema2) (uuid : Bytes) (hist : List Call) :
    let L := run ops s (Lib2.empty s uuid) hist
    (∀ e ∈ L.pe, e.val.uuid = 0 ∧ (∃ p ∈ L.pl, p.id = e.key) ∧ ∃ t ∈ L.tdb.rows, (t.id : Int) = e.val.track) ∧
    (∀ r ∈ L.log, ∀ t, r.track = some t → ∃ x ∈ L.tdb.rows, x.id = t) ∧
    (∀ t ∈ L.tdb.rows, t.originUuid = L.uuid ∧ t.originId = t.id) ∧
    (hasChangeLog s = false → L.log = []) ∧
    (∀ t ∈ L.tdb.rows, t.row.albumArtId.toNat ∈ L.art) := by
  intro L
  have h : LibInv s L := C11Lib2_reachable ops s uuid hist
  obtain ⟨S, hS⟩ := h.cr
  refine ⟨?_, ?_, ?_, h.logNone, h.art.2⟩
  · intro e he
    have hu := h.own (core e) (mem_cores.mpr ⟨e, he, rfl⟩)
    obtain ⟨h1, h2⟩ := hS.mem.live (core e) (mem_cores.mpr ⟨e, he, rfl⟩) hu
    simp only [core] at h1 h2 hu
    refine ⟨hu, ?_, ?_⟩
    · obtain ⟨p, hp, e1⟩ := List.mem_map.mp h1; exact ⟨p, hp, e1⟩
    · obtain ⟨t, ht, e1⟩ := List.mem_map.mp h2; exact ⟨t, ht, e1⟩
  · intro r hr t ht
    obtain ⟨x, hx, e1⟩ := List.mem_map.mp (h.logLive r hr t ht)
    exact ⟨x, hx, e1⟩
  · intro t ht; exact h.tr.s.origin t ht

/-- **`PRAGMA foreign_key_check` is clean**, from the invariant: over every table of the 2.x schemas that
declares a foreign key (Track.albumArtId → AlbumArt, ChangeLog.trackId → Track before 2.20.3,
PlaylistEntity.listId → Playlist, PreparelistEntity.trackId → Track — read off schema_2_*.cpp) no child row
with a non-NULL key lacks its parent row. -/
theorem C11Lib2_foreign_key_check_clean (s : Schema2) (L : Lib2) (h : LibInv s L) : fkCheck L = [] := by
  obtain ⟨S, hS⟩ := h.cr
  unfold fkCheck
  simp only [List.append_eq_nil_iff, List.filterMap_eq_nil_iff]
  refine ⟨⟨⟨?_, ?_⟩, ?_⟩, ?_⟩
  · intro t ht
    have := h.art.2 t ht
    simp [List.contains_iff_mem, this]
  · intro r hr
    cases ht : r.track with
    | none => rfl
    | some t =>
      have := (find_isSome_iff L.tdb t).mpr (h.logLive r hr t ht)
      simp [Lib2.trackLive, this]
  · intro e he
    have hu := h.own (core e) (mem_cores.mpr ⟨e, he, rfl⟩)
    have h1 := (hS.mem.live (core e) (mem_cores.mpr ⟨e, he, rfl⟩) hu).1
    simp only [core] at h1
    have := (plAny_iff L e.key).mpr h1
    simp [this]
  · intro r hr
    rw [h.prep] at hr; cases hr

/-- … in particular after every history of public calls, failed calls included. -/
theorem C11Lib2_reachable_foreign_key_check_clean (ops : FOps) (s : Schema2) (uuid : Bytes) (hist : List Call) :
    fkCheck (run ops s (Lib2.empty s uuid) hist) = [] :=
  C11Lib2_foreign_key_check_clean s _ (C11Lib2_reachable ops s uuid hist)

/-- **A call that does not return normally leaves every table of the library as it was** — in particular
`database::remove_track` of a track that does not exist: the memberships it had already deleted and the
ChangeLog rows it had already cleared are rolled back with the failing `track_table::remove` (fix 516c689),
proved from the statement sequence inside `M2.transaction`, not assumed. -/
theorem C11Lib2_failed_call_unchanged (ops : FOps) (s : Schema2) (L : Lib2) (h : LibInv s L) (c : Call)
    (hf : ∀ v, (step ops s L c).2 ≠ .ok v) : (step ops s L c).1 = L :=
  failed_unchanged ops s h c hf

/-- The invariant is not vacuous and the transaction of `remove_track` is needed: without the membership loop
(revert of 37b35a5) the entity of the removed track dangles and `libInv` is false. -/
theorem C11Lib2_unscoped_counterexample :
    let L : Lib2 := { Lib2.empty .s2_18_0 [85] with
      tdb := ⟨[85], 1, []⟩, pl := [⟨1, 0, 0, [97]⟩], plSeq := 1, pe := [⟨1, 1, 0, ⟨1, 0⟩⟩], peSeq := 1 }
    libInv .s2_18_0 L = false := by
  decide

end EngineModel.Properties.C11Lib2
