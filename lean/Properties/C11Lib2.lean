/-
C11 on the WHOLE schema-2.x library (work-package composite-v2).

Model: `EngineModel/Lib/V2.lean` — one state `Lib2` holding the Track table (the statement-level table of the
track package, with its UNIQUE constraints, triggers and transaction scopes), Playlist + PlaylistEntity (the crate
package's tables), the Information row (uuid, version), the ChangeLog rows `trigger_after_update_Track` writes
(schemas before 2.20.3), AlbumArt ids and PreparelistEntity; one alphabet `Call` = every public operation of
`database`, `crate` and `track`; `step` delegates to the package models and adds the cross-table interactions
(`database::remove_track`'s transaction over PlaylistEntity, ChangeLog and Track; `crate::add_track`'s existence
test on the real Track table; the library's own uuid in every entry; the ChangeLog trigger).

Histories range over the public alphabet (`Call.isApi`: everything but `foreignEntry`, which is other software
adding an entry of another database — C08Lib2 covers those).
`LibInv` (Proofs/Lib2Inv.lean) = the package invariants + cross-table referential integrity; `libInv`
(Lib/V2.lean) is its executable form — the SAME function the driver evaluates on the dump of the real
database after every step of the tie (mode `lib2`, command `lib2.inv`).
-/
import Proofs.Lib2Exec

namespace EngineModel.Properties.C11Lib2
open EngineModel EngineModel.Db.Chain EngineModel.TracksV2 EngineModel.Lib.V2
open EngineModel.Table (Schema2)

/-- **`LibInv` is inductive over every public call**, whatever the call answers (a call that throws included),
from ANY library satisfying it. -/
theorem C11Lib2_step_preserves (ops : FOps) (s : Schema2) (L : Lib2) (h : LibInv s L) (c : Call) (hc : c.isApi = true) :
    LibInv s (step ops s L c).1 :=
  libInv_step ops s h c hc

/-- **Reachable ⇒ `LibInv`**: after every finite history of public calls on the library the creator of version
`s` wrote — interleaving track, crate and membership calls in any order, failed calls included; the quantifier
over histories covers every prefix. -/
theorem C11Lib2_reachable (ops : FOps) (s : Schema2) (uuid : Bytes) (hist : List Call) (hapi : hist.all Call.isApi = true) :
    LibInv s (run ops s (Lib2.empty s uuid) hist) :=
  libInv_run ops s (libInv_empty s uuid) hist hapi

/-- … in the executable form the tie evaluates on the real dump. -/
theorem C11Lib2_reachable_exec (ops : FOps) (s : Schema2) (uuid : Bytes) (hist : List Call) (hapi : hist.all Call.isApi = true) :
    libInv s (run ops s (Lib2.empty s uuid) hist) = true :=
  libInv_of_LibInv (C11Lib2_reachable ops s uuid hist hapi)

/-- The executable check IS the invariant (both directions) … -/
theorem C11Lib2_exec_iff (s : Schema2) (L : Lib2) : libInv s L = true ↔ LibInv s L := libInv_iff s L

/-- … hence from ANY library whose dump passes the check (one written by Engine and loaded, not only one grown
from the empty library) every history keeps it. -/
theorem C11Lib2_from_any_wellformed (ops : FOps) (s : Schema2) (L : Lib2) (h : libInv s L = true) (hist : List Call)
    (hapi : hist.all Call.isApi = true) : libInv s (run ops s L hist) = true :=
  libInv_of_LibInv (libInv_run ops s (LibInv_of_libInv h) hist hapi)

/-- **Cross-table referential integrity, in logical form.**  After every history:
every PlaylistEntity row carries this database's uuid (tag 0 = `Information.uuid`), its `listId` is the id of
a Playlist row and its `trackId` the id of a row of table Track (a ROW of the Track table of the same state, not
an id-level stand-in); every ChangeLog row is NULL or names a Track row; every Track row's origin columns are
(`Information.uuid`, its own id); ChangeLog exists only before 2.20.3; every `Track.albumArtId` names an
AlbumArt row. -/
theorem C11Lib2_referential_integrity (ops : FOps) (s : Schema2) (uuid : Bytes) (hist : List Call)
    (hapi : hist.all Call.isApi = true) :
    let L := run ops s (Lib2.empty s uuid) hist
    (∀ e ∈ L.pe, e.val.uuid = 0 ∧ (∃ p ∈ L.pl, p.id = e.key) ∧ ∃ t ∈ L.tdb.rows, (t.id : Int) = e.val.track) ∧
    (∀ r ∈ L.log, ∀ t, r.track = some t → ∃ x ∈ L.tdb.rows, x.id = t) ∧
    (∀ t ∈ L.tdb.rows, t.originUuid = L.uuid ∧ t.originId = t.id) ∧
    (hasChangeLog s = false → L.log = []) ∧
    (∀ t ∈ L.tdb.rows, t.row.albumArtId.toNat ∈ L.art) := by
  intro L
  have h : LibInv s L := C11Lib2_reachable ops s uuid hist hapi
  obtain ⟨S, hS⟩ := h.cr
  refine ⟨?_, ?_, ?_, h.logNone, h.art.2⟩
  · intro e he
    have hu := h.own (core e) (mem_cores.mpr ⟨e, he, rfl⟩)
    obtain ⟨h1, h2⟩ := hS.mem.live (core e) (mem_cores.mpr ⟨e, he, rfl⟩) hu
    simp only [core] at h1 h2 hu
    refine ⟨hu, ?_, ?_⟩
    · obtain ⟨p, hp, e1⟩ := List.mem_map.mp h1; exact ⟨p, hp, e1⟩
    · obtain ⟨t, ht, e1⟩ := List.mem_map.mp h2; exact ⟨t, ht, e1⟩
  · intro r hr t ht
    obtain ⟨x, hx, e1⟩ := List.mem_map.mp (h.logLive r hr t ht)
    exact ⟨x, hx, e1⟩
  · intro t ht; exact h.tr.s.origin t ht

/-- **`PRAGMA foreign_key_check` is clean**, from the invariant: over every table of the 2.x schemas that
declares a foreign key (Track.albumArtId → AlbumArt, ChangeLog.trackId → Track before 2.20.3,
PlaylistEntity.listId → Playlist, PreparelistEntity.trackId → Track — read off schema_2_*.cpp) no child row
with a non-NULL key lacks its parent row. -/
theorem C11Lib2_foreign_key_check_clean (s : Schema2) (L : Lib2) (h : LibInv s L) : fkCheck L = [] := by
  obtain ⟨S, hS⟩ := h.cr
  unfold fkCheck
  simp only [List.append_eq_nil_iff, List.filterMap_eq_nil_iff]
  refine ⟨⟨⟨?_, ?_⟩, ?_⟩, ?_⟩
  · intro t ht
    have := h.art.2 t ht
    simp [List.contains_iff_mem, this]
  · intro r hr
    cases ht : r.track with
    | none => rfl
    | some t =>
      have := (find_isSome_iff L.tdb t).mpr (h.logLive r hr t ht)
      simp [Lib2.trackLive, this]
  · intro e he
    have hu := h.own (core e) (mem_cores.mpr ⟨e, he, rfl⟩)
    have h1 := (hS.mem.live (core e) (mem_cores.mpr ⟨e, he, rfl⟩) hu).1
    simp only [core] at h1
    have := (plAny_iff L e.key).mpr h1
    simp [this]
  · intro r hr
    cases ht : r.track with
    | none => rfl
    | some t =>
      have := (find_isSome_iff L.tdb t).mpr (h.prep r hr t ht)
      simp [Lib2.trackLive, this]

/-- … in particular after every history of public calls, failed calls included. -/
theorem C11Lib2_reachable_foreign_key_check_clean (ops : FOps) (s : Schema2) (uuid : Bytes) (hist : List Call)
    (hapi : hist.all Call.isApi = true) : fkCheck (run ops s (Lib2.empty s uuid) hist) = [] :=
  C11Lib2_foreign_key_check_clean s _ (C11Lib2_reachable ops s uuid hist hapi)

/-- **A call that does not return normally leaves every table of the library as it was** — in particular
`database::remove_track` of a track that does not exist: the memberships it had already deleted and the
ChangeLog rows it had already cleared are rolled back with the failing `track_table::remove` (fix 516c689),
proved from the statement sequence inside `M2.transaction`, not assumed. -/
theorem C11Lib2_failed_call_unchanged (ops : FOps) (s : Schema2) (L : Lib2) (h : LibInv s L) (c : Call)
    (hf : ∀ v, (step ops s L c).2 ≠ .ok v) : (step ops s L c).1 = L :=
  failed_unchanged ops s h.toLibCore c hf

/-- The invariant is not vacuous and the transaction of `remove_track` is needed: without the membership loop
(revert of 37b35a5) the entity of the removed track dangles and `libInv` is false. -/
theorem C11Lib2_unscoped_counterexample :
    let L : Lib2 := { Lib2.empty .s2_18_0 [85] with
      tdb := ⟨[85], 1, []⟩, pl := [⟨1, 0, 0, [97]⟩], plSeq := 1, pe := [⟨1, 1, 0, ⟨1, 0⟩⟩], peSeq := 1 }
    libInv .s2_18_0 L = false := by
  decide

/-- The prepare list matters (this package's `fix:` 39a8ec7): Engine puts a track on its prepare list
(`plantPrepare`, not a call of the library), the library removes the track — `remove_track` deletes the
PreparelistEntity row with it (the model after the fix: `fkCheck = []`, the row is gone); had it not (the code
before the fix: the state below with the row left in place), `PRAGMA foreign_key_check` reports the row. -/
theorem C11Lib2_prepare_list_counterexample :
    let ops : FOps := ⟨fun _ => 0, fun _ => 0, fun _ _ => 0⟩
    let x : Snap := { Snap.empty with relativePath := some [97, 46, 98] }
    let L := run ops .s2_21_2 (Lib2.empty .s2_21_2 [85]) [.createTrack x, .plantPrepare 1]
    let L' := (step ops .s2_21_2 L (.removeTrack 1)).1
    L.prep = [⟨1, some 1⟩] ∧ L'.prep = [] ∧ fkCheck L' = [] ∧
    fkCheck { L' with prep := L.prep } = [⟨"PreparelistEntity", 1, "Track"⟩] := by
  decide +kernel

/-! ### non-vacuity: an interleaved history with refused calls, on a schema with the ChangeLog table -/

def exOps : FOps := ⟨fun _ => 0, fun _ => 0, fun _ _ => 0⟩
/-- "a/<n>.mp3" -/
def exSnap (n : UInt8) : Snap := { Snap.empty with relativePath := some [97, 47, n, 46, 109, 112, 51], title := some [n] }

/-- two tracks, a crate with a sub-crate, memberships, a refused re-pathing (UNIQUE(path)), an update, a track
removed while it is in two crates, calls through the stale handle (remove again, update, add to a crate), a crate
removed with its contents -/
def exHist : List Call :=
  [.createTrack (exSnap 49), .createTrack (exSnap 50), .createRootCrate [65], .crateCreateSub 1 [66],
   .crateAddTrack 1 1, .crateAddTrack 2 1, .crateAddTrack 2 2, .trackSet 2 (.relativePath [97, 47, 49, 46, 109, 112, 51]),
   .trackSet 1 (.title none), .trackUpdate 2 (exSnap 51), .removeTrack 1, .removeTrack 1, .trackUpdate 1 (exSnap 52),
   .crateAddTrack 1 1, .crateTracks 2, .removeCrate 2, .createTrack (exSnap 53)]

example : exHist.all Call.isApi = true := by decide
/-- the answers: the refused re-pathing, the second removal, update and add_track through the stale handle -/
example : (exHist.foldl (fun (acc : Lib2 × List (Res Out)) c => ((step exOps .s2_18_0 acc.1 c).1, acc.2 ++ [(step exOps .s2_18_0 acc.1 c).2]))
    (Lib2.empty .s2_18_0 [85], [])).2 =
    [.ok (.id 1), .ok (.id 2), .ok (.id 1), .ok (.id 2), .ok .unit, .ok .unit, .ok .unit, .throw .sqlite_error, .ok .unit,
     .ok .unit, .ok .unit, .throw .invalid_argument, .throw (.dj "track_deleted"), .throw (.dj "track_deleted"),
     .ok (.ids [2]), .ok .unit, .ok (.id 3)] := by decide +kernel
/-- the final tables: track 1 gone, its two memberships gone, its ChangeLog rows cleared, ids never reused -/
example : let L := run exOps .s2_18_0 (Lib2.empty .s2_18_0 [85]) exHist
    L.tdb.rows.map (·.id) = [2, 3] ∧ L.pl.map (·.id) = [1] ∧ L.pe = [] ∧ L.peSeq = 3 ∧
    L.log.map (fun r => (r.id, r.track)) = [(1, none), (2, some 2), (3, none), (4, some 2), (5, some 2), (6, some 3)] := by
  decide +kernel
example : libInv .s2_18_0 (run exOps .s2_18_0 (Lib2.empty .s2_18_0 [85]) exHist) = true := by decide +kernel
/-- from 2.20.3 on there is no ChangeLog table -/
example : (run exOps .s2_21_2 (Lib2.empty .s2_21_2 [85]) exHist).log = [] := by decide +kernel

end EngineModel.Properties.C11Lib2
