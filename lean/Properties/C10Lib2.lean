/-
C10 on the WHOLE schema-2.x library (work-package composite-v2): everything observed before closing is observed
after reopening.

What could a reload lose?  (a) state kept in handles — there is none: `v2::track_impl` / `v2::crate_impl` hold
the library pointer, table accessors and the id (Lib/V2.lean, "everything observable"); a `Call` takes ids;
(b) an open transaction — `Session.reload` = `Conn.reopen` of `Spec/Txn.lean` drops the working copy.  So the
content of C10 on the model is: no call of the composite leaves a transaction open, whatever happens inside it.
For the single-table calls that is the packages' (`stmts_run`, `topStmts_run`: their statement programs, run on
the connection, make exactly the step's result durable); here it is proved for the one call that spans three
tables, `database::remove_track`, and lifted to all histories, every prefix, reload after every call.
-/
import Proofs.Lib2Stmts
import Properties.C10

namespace EngineModel.Properties.C10Lib2
open EngineModel EngineModel.TracksV2 EngineModel.Lib.V2 EngineModel.Spec.Txn EngineModel.Spec.Observe
open EngineModel.Properties.C10
open EngineModel.Table (Schema2)

/-- the composite step as a state transformer (a call that throws leaves what `step` says — nothing, by
`C11Lib2_failed_call_unchanged`) -/
def next (ops : FOps) (s : Schema2) (L : Lib2) (c : Call) : Lib2 := (step ops s L c).1

theorem run_foldl (ops : FOps) (s : Schema2) (L : Lib2) (hist : List Call) : run ops s L hist = hist.foldl (next ops s) L := rfl

/-- **`remove_track` settles**: under every fault plan — any statement failing, SQLite rolling back by itself
or not — the statement program of `database::remove_track` leaves no transaction open. -/
theorem C10Lib2_remove_track_settles (s : Schema2) (L : Lib2) (t : Nat) (fault : Option Nat) (auto : Bool) :
    (⟨removeTrackStmts s L t, fault, auto⟩ : Call Lib2).settles :=
  C10_atomic_calls_settle _ (removeTrack_shape_atomic s L t)

/-- … and when nothing fails what it makes durable is exactly what the composite `step` returns: memberships,
ChangeLog and Track table together. -/
theorem C10Lib2_remove_track_durable (ops : FOps) (s : Schema2) (L : Lib2) (t : Nat) (auto : Bool)
    (h : (L.tdb.find t).isSome = true) :
    (exec none auto (removeTrackStmts s L t) 0 0 (Conn.idle L)).conn = Conn.idle (next ops s L (.removeTrack t)) :=
  (removeTrack_stmts_run ops s L t auto h).2

/-- … and when any statement of it fails, nothing of it is durable. -/
theorem C10Lib2_remove_track_fault_leaves_nothing (s : Schema2) (L : Lib2) (t : Nat) (k : Nat) (auto : Bool)
    (hk : k < countFaultable ((removeTrackStmts s L t).map Cmd.kind)) :
    (exec (some k) auto (removeTrackStmts s L t) 0 0 (Conn.idle L)).conn = Conn.idle L :=
  (removeTrack_all_or_nothing s L t k auto hk).2

/-- **Every prefix, reload after every call.**  A history of composite calls, each made durable by its (settled)
statement program; the session is closed and loaded again after EVERY call, all handles released: what is then
observed — every observer of database / crate / track on every crate and track, through the database or through
any ids the client kept — is what the one-session run of the model observes, at every prefix. -/
theorem C10Lib2_reload_every_prefix (ops : FOps) (s : Schema2) (L0 : Lib2) (hist : List Call) (n : Nat)
    (crateHandles : List Int) (trackHandles : List Nat) :
    observeAll ops s (runCallsReopen (Conn.idle L0) ((hist.take n).map (apiCall (next ops s)))).view crateHandles trackHandles
      = observeAll ops s (run ops s L0 (hist.take n)) crateHandles trackHandles ∧
    observeAll ops s (runCalls (Conn.idle L0) ((hist.take n).map (apiCall (next ops s)))).reopen.view crateHandles trackHandles
      = observeAll ops s (run ops s L0 (hist.take n)) crateHandles trackHandles := by
  obtain ⟨h1, h2⟩ := C10_api_model_reopen (next ops s) hist L0 n
  rw [h2, h1, run_foldl]
  exact ⟨rfl, rfl⟩

/-- **`observe (reload S) = observe S`** for a session at rest (what every history reaches), seen through the
database: releasing the handles and loading again changes no answer of any observer on any crate or track the
database lists; a handle re-obtained by id answers as the one held before (a handle is its id). -/
theorem C10Lib2_reload_observes (ops : FOps) (s : Schema2) (L : Lib2) (crateHandles : List Int) (trackHandles : List Nat) :
    let S : Session := ⟨Conn.idle L, crateHandles, trackHandles⟩
    (S.reload).observe ops s = observeAll ops s L [] [] ∧
    (∀ c ∈ observers L [] [], (c, (step ops s L c).2) ∈ S.observe ops s) ∧
    observeAll ops s (S.reload).conn.view crateHandles trackHandles = S.observe ops s := by
  intro S
  refine ⟨rfl, ?_, rfl⟩
  intro c hc
  refine List.mem_map.mpr ⟨c, ?_, rfl⟩
  show c ∈ observers L crateHandles trackHandles
  simp only [observers, List.mem_append, List.mem_flatMap, List.append_nil] at hc ⊢
  rcases hc with ((((h | h) | h) | ⟨x, hx, h⟩) | ⟨x, hx, h⟩)
  · exact Or.inl (Or.inl (Or.inl (Or.inl h)))
  · exact Or.inl (Or.inl (Or.inl (Or.inr h)))
  · exact Or.inl (Or.inl (Or.inr h))
  · exact Or.inl (Or.inr ⟨x, Or.inl hx, h⟩)
  · exact Or.inr ⟨x, Or.inl hx, h⟩

/-- The hypothesis matters: a session with a transaction left open DOES observe differently after reload — the
uncommitted membership is gone (so "no call leaves a transaction open" is what carries C10). -/
theorem C10Lib2_open_transaction_is_lost :
    let ops : FOps := ⟨fun _ => 0, fun _ => 0, fun _ _ => 0⟩
    let x : Snap := { Snap.empty with relativePath := some [97, 46, 98] }
    let L := run ops .s2_18_0 (Lib2.empty .s2_18_0 [85]) [.createTrack x, .createRootCrate [65]]
    let L' := (step ops .s2_18_0 L (.crateAddTrack 1 1)).1
    let S : Session := ⟨⟨L, some L'⟩, [], []⟩
    (step ops .s2_18_0 S.conn.view (.crateTracks 1)).2 = .ok (.ids [1]) ∧
    (step ops .s2_18_0 S.reload.conn.view (.crateTracks 1)).2 = .ok (.ids []) := by
  decide +kernel

end EngineModel.Properties.C10Lib2
