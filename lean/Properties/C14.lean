/-
C14 — A failed mutating call leaves no partial update.

Model: `EngineModel.Spec.Txn` (SQLite connection with statement-level atomicity,
the RAII scope of src/djinterop/util/sqlite_transaction.hpp, fault injection at
the k-th faultable statement, failures of writes by themselves, optional
automatic rollback by SQLite).  The monitor `atomicShape` looks only at the
statement kinds a call is *observed* to issue.

All theorems: every command list (no length bound), every fault position, both
rollback behaviours, every write function (partial ones included), every
database type and value.
-/
import EngineModel.Spec.Txn
import Proofs.Txn
import Proofs.Stmts
import Proofs.CratesV1Stmts
import Proofs.CratesV1Coroll
import Proofs.V2CratesStmts
import Proofs.TracksV2Stmts
import Proofs.TracksV1Stmts

namespace EngineModel.Properties.C14
open EngineModel.Spec.Txn EngineModel.Proofs.Txn

variable {α : Type}

/-- **Soundness of the monitor.**  If the kinds of a call form an atomic shape
then, wherever a fault is injected (and whichever write fails by itself,
whether or not SQLite rolls back on its own): a raised call leaves the
connection in autocommit state on exactly the database it started from; a
completed call leaves no transaction open and has made durable exactly the
surviving writes, in order. -/
theorem C14_shape_sound (cs : List (Cmd α)) (h : atomicShape (cs.map Cmd.kind) = true)
    (fault : Option Nat) (auto : Bool) (db : α) :
    ((call fault auto cs db).raised = true → (call fault auto cs db).conn = Conn.idle db) ∧
    ((call fault auto cs db).raised = false →
      (call fault auto cs db).conn.working = none ∧
      applyAll (effWrites cs [] false) db = some (call fault auto cs db).conn.committed) := by
  unfold atomicShape at h
  split at h
  · rename_i s' hs
    have hin : s'.inTxn = false := by simpa using h
    have := sound_aux fault auto db cs ShapeSt.init s' 0 0 (Conn.idle db) (TInv.init db) hs
    refine ⟨this.1, fun hr => ⟨this.2.1 hr hin, ?_⟩⟩
    exact durable_aux fault auto cs [] false 0 0 (Conn.idle db) ⟨by simp, by simp [Conn.idle]⟩ hr
  · cases h

/-- Without an injected fault and with writes that cannot fail, a call of atomic
shape completes (so, by `C14_shape_sound`, all its surviving writes are durable). -/
theorem C14_no_fault_succeeds (cs : List (Cmd α)) (h : atomicShape (cs.map Cmd.kind) = true)
    (htot : ∀ x ∈ cs, x.total) (auto : Bool) (db : α) :
    (call none auto cs db).raised = false := by
  unfold atomicShape at h
  split at h
  · rename_i s' hs
    exact (sound_aux none auto db cs ShapeSt.init s' 0 0 (Conn.idle db) (TInv.init db) hs).2.2 rfl htot
  · cases h

/-- No ROLLBACK among the observed statements (the case of every call of the
library on the unchanged tree): a completed call of atomic shape has applied
*all* its writes, in order. -/
theorem C14_all_writes (cs : List (Cmd α)) (h : atomicShape (cs.map Cmd.kind) = true)
    (hnr : ∀ x ∈ cs, x.kind ≠ .rollback) (fault : Option Nat) (auto : Bool) (db : α)
    (hr : (call fault auto cs db).raised = false) :
    applyAll (writesOf cs) db = some (call fault auto cs db).conn.committed := by
  have h1 := (C14_shape_sound cs h fault auto db).2 hr
  have hc : closedRun false (cs.map Cmd.kind) = some false := by
    unfold atomicShape at h
    split at h
    · rename_i s' hs
      have := shapeRun_closedRun _ _ _ hs
      simpa [ShapeSt.init, show s'.inTxn = false by simpa using h] using this
    · cases h
  have := effWrites_all cs [] false hc hnr
  rw [this] at h1
  simpa using h1.2

/-- **Completeness of the monitor** (it is not vacuous and not too strict):
whenever the kinds are *not* an atomic shape there are write functions (each
write increments a counter starting at 0) and a fault plan such that either
the call raises with the database changed (a partial or unreported update), or
the call raises with no fault at all (the list is not the trace of a successful
call: ill-bracketed), or it completes with a transaction left open. -/
theorem C14_shape_complete (ks : List CmdKind) (h : atomicShape ks = false) :
    ∃ fault : Option Nat,
      ((call fault false (incCmds ks) 0).raised = true ∧ (call fault false (incCmds ks) 0).conn.committed ≠ 0) ∨
      (fault = none ∧ (call fault false (incCmds ks) 0).raised = true) ∨
      ((call fault false (incCmds ks) 0).raised = false ∧ (call fault false (incCmds ks) 0).conn.working ≠ none) := by
  have hbad : shapeRun ShapeSt.init ks = none ∨ ∃ s', shapeRun ShapeSt.init ks = some s' ∧ s'.inTxn = true := by
    unfold atomicShape at h
    split at h
    · rename_i s' hs
      exact Or.inr ⟨s', hs, by simpa using h⟩
    · rename_i hs
      exact Or.inl hs
  obtain ⟨fault, _, hb⟩ := complete_aux ks ShapeSt.init 0 0 (Conn.idle 0) CInv.init hbad
  exact ⟨fault, hb⟩

/-- **The monitor is exactly right.**  The kinds form an atomic shape iff every
call with these kinds — over any database type, with any write functions — is
failure-atomic under every fault plan, never leaves a transaction open, and
completes when nothing fails. -/
theorem C14_shape_exact (ks : List CmdKind) :
    atomicShape ks = true ↔
      ∀ (β : Type) (cs : List (Cmd β)), cs.map Cmd.kind = ks →
        ∀ (fault : Option Nat) (auto : Bool) (db : β),
          ((call fault auto cs db).raised = true → (call fault auto cs db).conn = Conn.idle db) ∧
          ((call fault auto cs db).raised = false → (call fault auto cs db).conn.working = none) ∧
          (fault = none → (∀ x ∈ cs, x.total) → (call fault auto cs db).raised = false) := by
  constructor
  · intro h β cs hk fault auto db
    subst hk
    have hs := C14_shape_sound cs h fault auto db
    refine ⟨hs.1, fun hr => (hs.2 hr).1, ?_⟩
    intro hf htot
    subst hf
    exact C14_no_fault_succeeds cs h htot auto db
  · intro h
    cases hs : atomicShape ks
    · exfalso
      obtain ⟨fault, hb⟩ := C14_shape_complete ks hs
      have hx := h Nat (incCmds ks) (incCmds_kind ks) fault false 0
      rcases hb with ⟨hr, hc⟩ | ⟨hf, hr⟩ | ⟨hr, hw⟩
      · have := hx.1 hr
        rw [this] at hc
        simp [Conn.idle] at hc
      · have := hx.2.2 hf (incCmds_total ks)
        rw [this] at hr; cases hr
      · exact hw (hx.2.1 hr)
    · rfl

/-- **The library stays usable, whatever the shape**: a call that raises never
leaves a transaction open (every live scope rolls back while unwinding). -/
theorem C14_raise_autocommit (cs : List (Cmd α)) (fault : Option Nat) (auto : Bool) (db : α)
    (hr : (call fault auto cs db).raised = true) : (call fault auto cs db).conn.working = none :=
  raise_autocommit fault auto cs 0 0 (Conn.idle db) (Linked.idle db) hr

/-- For an atomic shape the connection is in autocommit state after *every* run,
raised or not. -/
theorem C14_usable (cs : List (Cmd α)) (h : atomicShape (cs.map Cmd.kind) = true)
    (fault : Option Nat) (auto : Bool) (db : α) : (call fault auto cs db).conn.working = none := by
  cases hr : (call fault auto cs db).raised
  · exact ((C14_shape_sound cs h fault auto db).2 hr).1
  · exact C14_raise_autocommit cs fault auto db hr

/-- After a failed call of atomic shape the next public call behaves exactly as
if the failed one had never been made. -/
theorem C14_next_call (cs : List (Cmd α)) (h : atomicShape (cs.map Cmd.kind) = true)
    (fault : Option Nat) (auto : Bool) (db : α) (hr : (call fault auto cs db).raised = true)
    (cs' : List (Cmd α)) (fault' : Option Nat) (auto' : Bool) :
    exec fault' auto' cs' 0 0 (call fault auto cs db).conn = call fault' auto' cs' db := by
  rw [(C14_shape_sound cs h fault auto db).1 hr]; rfl

/-- Edge: a fault on BEGIN.  The constructor of the scope throws, no scope object
exists, no ROLLBACK is issued, nothing has happened. -/
theorem C14_fault_on_begin (rest : List (Cmd α)) (auto : Bool) (db : α) :
    (call (some 0) auto (.begin :: rest) db).raised = true ∧
    (call (some 0) auto (.begin :: rest) db).conn = Conn.idle db ∧
    (call (some 0) auto (.begin :: rest) db).trace = [⟨.begin, true⟩] := by
  cases auto <;> simp [call, exec, Cmd.kind, faultable, unwind, Conn.idle]

/-- Edge: a fault on the COMMIT of a scope (here with one total write; the
general case is `C14_shape_sound`).  `commit()` throws before `committed_` is
set, the destructor issues ROLLBACK, the database is as before. -/
theorem C14_fault_on_commit (f : α → α) (auto : Bool) (db : α) :
    (call (some 2) auto [.begin, .write (fun a => some (f a)), .commit] db).raised = true ∧
    (call (some 2) auto [.begin, .write (fun a => some (f a)), .commit] db).conn = Conn.idle db ∧
    (call (some 2) auto [.begin, .write (fun a => some (f a)), .commit] db).trace =
      [⟨.begin, false⟩, ⟨.write, false⟩, ⟨.commit, true⟩, ⟨.rollback, false⟩] := by
  cases auto <;>
    simp [call, exec, Cmd.kind, faultable, unwind, Conn.idle, stepStmt, scopesAfter, Outcome.cons]

/-! ### the failing statement is reported; the skeleton -/

/-- **"reports it by throwing"**: whenever the fault position lies inside the call — `k` is below the number of
faultable statements the call issues — the call raises, whatever its statements are. -/
theorem C14_fault_is_reported (cs : List (Cmd α)) (k : Nat) (auto : Bool) (db : α)
    (hk : k < countFaultable (cs.map Cmd.kind)) : (call (some k) auto cs db).raised = true :=
  EngineModel.Proofs.Stmts.raised_of_fault cs k auto db hk

/-- … and with an atomic shape the database is then exactly the prior one: all or nothing at every position. -/
theorem C14_all_or_nothing (cs : List (Cmd α)) (h : atomicShape (cs.map Cmd.kind) = true) (k : Nat) (auto : Bool) (db : α)
    (hk : k < countFaultable (cs.map Cmd.kind)) :
    (call (some k) auto cs db).raised = true ∧ (call (some k) auto cs db).conn = Conn.idle db :=
  EngineModel.Proofs.Stmts.all_or_nothing cs h k auto db hk

open EngineModel.Spec.Stmts in
/-- The *skeleton* of a statement-kind sequence (reads dropped, the writes of one scope counted once) — what the
tie compares between a model operation and the statements of the real call — decides the monitor. -/
theorem C14_skeleton_decides (ks : List CmdKind) : atomicShape (skeleton ks) = atomicShape ks :=
  EngineModel.Proofs.Stmts.atomicShape_skeleton ks

/-! ### concrete operations: schema-1.x crates (`Api.CratesV1`, every version)

`CratesV1.stmts s db op` is the statement program of the call on prior tables `db` (`Api/CratesV1Stmts.lean`):
BEGIN / COMMIT of its `sqlite_transaction` scope, one `write` per INSERT / UPDATE / DELETE — loops statement by
statement, `update_path` in the order of its recursion. -/
section cratesV1
open EngineModel.Api EngineModel.Pure.Detect EngineModel.Spec.Stmts

/-- The program *is* the modelled call: run without fault it completes and makes exactly the tables that
`CratesV1.step` returns durable — for every schema, prior state and operation whose call returns normally. -/
theorem C14_crates_v1_program (s : Schema) (db : CratesV1.Db) (op : CratesV1.Op) (out : CratesV1.Out) (auto : Bool)
    (h : (CratesV1.step s db op).2 = .ok out) :
    (call none auto (CratesV1.stmts s db op) db).raised = false ∧
    (call none auto (CratesV1.stmts s db op) db).conn = Conn.idle (CratesV1.step s db op).1 :=
  EngineModel.Proofs.CratesV1Stmts.stmts_run s db op out auto h

/-- `shapeOf` of every 1.x crate operation is an atomic shape, on every schema and prior state. -/
theorem C14_crates_v1_shape (s : Schema) (op : CratesV1.Op) (db : CratesV1.Db) :
    atomicShape (CratesV1.shapeOf s op db) = true :=
  EngineModel.Proofs.CratesV1Stmts.stmts_atomic s db op

/-- … and its skeleton is fixed per operation: one autocommit DELETE for `crate::remove_track` /
`clear_tracks`, one scope for everything else (the tie requires the observed skeleton to be this one). -/
theorem C14_crates_v1_skeleton (s : Schema) (op : CratesV1.Op) (db : CratesV1.Db) :
    skeleton (CratesV1.shapeOf s op db) = (CratesV1.skeletonOf op).kinds :=
  EngineModel.Proofs.CratesV1Stmts.stmts_skeleton s db op

/-- **All or nothing, concretely**: a fault injected at *any* statement position `k` of *any* 1.x crate call —
BEGIN, COMMIT, any INSERT / UPDATE / DELETE of any loop iteration — raises and leaves the tables exactly as they
were, with no transaction open. -/
theorem C14_crates_v1_all_or_nothing (s : Schema) (db : CratesV1.Db) (op : CratesV1.Op) (k : Nat) (auto : Bool)
    (hk : k < countFaultable (CratesV1.shapeOf s op db)) :
    (call (some k) auto (CratesV1.stmts s db op) db).raised = true ∧
    (call (some k) auto (CratesV1.stmts s db op) db).conn = Conn.idle db :=
  C14_all_or_nothing _ (C14_crates_v1_shape s op db) k auto db hk

/-- A 1.x crate call that throws *by itself* (validation, a constraint) leaves every table as it was
(`Proofs/CratesV1Coroll.step_throw_unchanged`, on every state that satisfies the model's invariant). -/
theorem C14_crates_v1_self_throw (s : Schema) (db : CratesV1.Db) (hinv : CratesV1.Inv db)
    (op : CratesV1.Op) (hr : (CratesV1.step s db op).2.isOk = false) : (CratesV1.step s db op).1 = db :=
  CratesV1.step_throw_unchanged s hinv op hr

end cratesV1

/-! ### concrete operations: schema-2.x crates and memberships (`Db.V2`) -/
section cratesV2
open EngineModel.Db EngineModel.Spec.Stmts

theorem C14_crates_v2_program (d : V2.Db) (op : V2.Op) (out : V2.Out) (auto : Bool) (h : (V2.step d op).2 = .ok out) :
    (call none auto (V2.stmts d op) d).raised = false ∧
    (call none auto (V2.stmts d op) d).conn = Conn.idle (V2.step d op).1 :=
  EngineModel.Proofs.V2CratesStmts.stmts_run d op out auto h

theorem C14_crates_v2_shape (op : V2.Op) (d : V2.Db) : atomicShape (V2.shapeOf op d) = true :=
  EngineModel.Proofs.V2CratesStmts.stmts_atomic d op

/-- the skeleton of a successful call is one of the operation's allowed skeletons (`add_track` of a member and
`crate::remove_track` of a non-member issue no writing statement at all) -/
theorem C14_crates_v2_skeleton (op : V2.Op) (d : V2.Db) (out : V2.Out) (h : (V2.step d op).2 = .ok out) :
    ∃ k ∈ V2.allowed op, skeleton (V2.shapeOf op d) = k.kinds :=
  EngineModel.Proofs.V2CratesStmts.stmts_skeleton d op out h

theorem C14_crates_v2_all_or_nothing (d : V2.Db) (op : V2.Op) (k : Nat) (auto : Bool)
    (hk : k < countFaultable (V2.shapeOf op d)) :
    (call (some k) auto (V2.stmts d op) d).raised = true ∧ (call (some k) auto (V2.stmts d op) d).conn = Conn.idle d :=
  C14_all_or_nothing _ (C14_crates_v2_shape op d) k auto d hk

end cratesV2

/-! ### concrete operations: schema-2.x tracks (the statement-level table model `TracksV2/Table.lean`)

`TracksV2.topStmts` (`TracksV2/Stmts.lean`): `create_track`, `track::update` and the single-UPDATE setters are one
write; `set_bpm`, `set_key`, `set_relative_path`, `set_sample_count`, `set_sample_rate` are the scope of their
two or three UPDATEs in the order of the C++; `remove_track` is the scope of its DELETE. -/
section tracksV2
open EngineModel.TracksV2 EngineModel.Spec.Stmts

theorem C14_tracks_v2_program (ops : FOps) (s : TracksV2.Schema) (db : TDb) (op : TOp) (n : Nat) (auto : Bool)
    (h : (db.step ops s op).2 = .ok n) :
    (call none auto (topStmts ops s db op) db).raised = false ∧
    (call none auto (topStmts ops s db op) db).conn = Conn.idle (db.step ops s op).1 :=
  topStmts_run ops s db op n auto h

theorem C14_tracks_v2_shape (ops : FOps) (s : TracksV2.Schema) (op : TOp) (db : TDb) :
    atomicShape (topShapeOf ops s op db) = true :=
  topStmts_atomic ops s db op

theorem C14_tracks_v2_skeleton (ops : FOps) (s : TracksV2.Schema) (op : TOp) (db : TDb) (n : Nat)
    (h : (db.step ops s op).2 = .ok n) : skeleton (topShapeOf ops s op db) = op.skeleton.kinds :=
  topStmts_skeleton ops s db op n h

theorem C14_tracks_v2_all_or_nothing (ops : FOps) (s : TracksV2.Schema) (db : TDb) (op : TOp) (k : Nat) (auto : Bool)
    (hk : k < countFaultable (topShapeOf ops s op db)) :
    (call (some k) auto (topStmts ops s db op) db).raised = true ∧
    (call (some k) auto (topStmts ops s db op) db).conn = Conn.idle db :=
  C14_all_or_nothing _ (C14_tracks_v2_shape ops s op db) k auto db hk

/-- the table of the counterexample below: one track, every column at its default -/
def cxOps : FOps := ⟨fun _ => 0, fun _ => 0, fun _ _ => 0⟩
def cxTable : TDb := ⟨[1], 1, [⟨1, [1], 1, default⟩]⟩

/-- **The scope is needed** (the defect repaired by dbbedfa, DESIGN §7): the two UPDATEs of 2.x `set_bpm` issued
*without* their `sqlite_transaction` are not an atomic shape, and a fault on the second one raises with
`bpmAnalyzed` already written — a partial update.  Replayed on the real library: corpus/C14/v2_set_bpm.txt. -/
theorem C14_set_bpm_unscoped_counterexample :
    atomicShape ((setBody cxOps cxTable 1 (.bpm (some 0x405e000000000000))).map Cmd.kind) = false ∧
    (call (some 1) false (setBody cxOps cxTable 1 (.bpm (some 0x405e000000000000))) cxTable).raised = true ∧
    (call (some 1) false (setBody cxOps cxTable 1 (.bpm (some 0x405e000000000000))) cxTable).conn.committed ≠ cxTable ∧
    (call (some 1) false (topStmts cxOps .s2_21_2 cxTable (.set 1 (.bpm (some 0x405e000000000000)))) cxTable).conn.committed
      = cxTable := by
  decide +kernel

end tracksV2

open EngineModel.Db EngineModel.Spec.Stmts in
/-- Likewise for 2.x `database::remove_track` (the defect repaired by 516c689): its DELETEs — the membership, then
the track — outside a scope: a fault on the second raises with the membership already gone.
Replayed on the real library: corpus/C14/v2_remove_track.txt. -/
theorem C14_remove_track_unscoped_counterexample :
    let d := V2.run V2.Db.empty [.createRoot [65], .createTrack, .addTrack 1 1]
    atomicShape ((V2.body d (.removeTrack 1)).map Cmd.kind) = false ∧
    (call (some 1) false (V2.body d (.removeTrack 1)) d).raised = true ∧
    (call (some 1) false (V2.body d (.removeTrack 1)) d).conn.committed ≠ d ∧
    (call (some 1) false (V2.stmts d (.removeTrack 1)) d).conn.committed = d := by
  decide +kernel

/-! ### concrete operations: schema-1.x tracks (`TracksV1/Accessors.lean`, call granularity)

The 1.x track model has no statement level: a call is one write (the joint effect of its statements) inside the
scope engine_track_impl.cpp gives it.  Lean carries the scope table per operation (`TracksV1.Field.scoped`), which
the tie checks against the skeleton of every real call. -/
section tracksV1
open EngineModel.TracksV1 EngineModel.Spec.Stmts

theorem C14_tracks_v1_program (o : EngineModel.TracksV1.Fl.FOps) (d d' : TracksV1.Db) (op : TracksV1.TOp) (auto : Bool)
    (h : TracksV1.topStep o d op = .ok d') :
    (call none auto (TracksV1.topStmts o op) d).raised = false ∧
    (call none auto (TracksV1.topStmts o op) d).conn = Conn.idle d' :=
  TracksV1.topStmts_run o d d' op auto h

theorem C14_tracks_v1_shape (o : EngineModel.TracksV1.Fl.FOps) (op : TracksV1.TOp) :
    atomicShape (TracksV1.topShapeOf o op) = true ∧ skeleton (TracksV1.topShapeOf o op) = op.skeleton.kinds :=
  ⟨TracksV1.topStmts_atomic o op, TracksV1.topStmts_skeleton o op⟩

theorem C14_tracks_v1_all_or_nothing (o : EngineModel.TracksV1.Fl.FOps) (d : TracksV1.Db) (op : TracksV1.TOp) (k : Nat) (auto : Bool)
    (hk : k < countFaultable (TracksV1.topShapeOf o op)) :
    (call (some k) auto (TracksV1.topStmts o op) d).raised = true ∧
    (call (some k) auto (TracksV1.topStmts o op) d).conn = Conn.idle d :=
  C14_all_or_nothing _ (C14_tracks_v1_shape o op).1 k auto d hk

end tracksV1

/-! ### non-vacuity -/

-- shapes the library is observed to issue
example : atomicShape [.write] = true := by decide
example : atomicShape [.read, .begin, .read, .write, .write, .write, .write, .commit] = true := by decide
example : atomicShape [.begin, .commit, .write] = true := by decide
example : atomicShape [.begin, .write, .rollback, .read, .write] = true := by decide
-- the defects of DESIGN.md §7: two or three statements outside any scope
example : atomicShape [.write, .write] = false := by decide
example : atomicShape [.write, .read, .write] = false := by decide
example : atomicShape [.begin, .write, .commit, .write] = false := by decide
example : atomicShape [.begin, .write, .commit, .begin, .commit] = false := by decide
example : atomicShape [.begin, .write] = false := by decide          -- transaction left open
example : atomicShape [.begin, .begin, .commit] = false := by decide -- nested BEGIN fails by itself
-- a concrete partial update: [write, write] with a fault at the second write
example : (call (some 1) false (incCmds [.write, .write]) 0).raised = true ∧
    (call (some 1) false (incCmds [.write, .write]) 0).conn.committed = 1 := by decide
-- and the same writes inside a scope: nothing happens
example : (call (some 2) false (incCmds [.begin, .write, .write, .commit]) 0).raised = true ∧
    (call (some 2) false (incCmds [.begin, .write, .write, .commit]) 0).conn.committed = 0 ∧
    (call none false (incCmds [.begin, .write, .write, .commit]) 0).conn.committed = 2 := by decide
-- a write that fails by itself (constraint) inside a scope, with automatic rollback
example : (call none true [.begin, .write (fun n => some (n + 1)), .write (fun _ => none), .commit] (7 : Nat)).conn
    = Conn.idle 7 := by
  simp [call, exec, Cmd.kind, faultable, unwind, Conn.idle, stepStmt, scopesAfter, Outcome.cons]

-- concrete operations: the hypotheses are satisfiable and the programs are not trivial
open EngineModel.Api EngineModel.Pure.Detect in
example : let db := CratesV1.run .schema_1_18_0_os CratesV1.Db.empty [.createRoot [65], .createSub 1 [66], .createSub 2 [67]]
    (CratesV1.step .schema_1_18_0_os db (.rename 1 [68])).2 = .ok .unit ∧
    countFaultable (CratesV1.shapeOf .schema_1_18_0_os (.rename 1 [68]) db) = 5 ∧     -- BEGIN, 3 UPDATEs, COMMIT
    countFaultable (CratesV1.shapeOf .schema_1_18_0_os (.removeCrate 1) db) = 14 := by  -- BEGIN, 3 x 4 DELETEs, COMMIT
  decide +kernel
open EngineModel.Db in
example : let d := V2.run V2.Db.empty [.createRoot [65], .createSub 1 [66], .createTrack, .addTrack 2 1]
    (V2.step d (.removeCrate 1)).2 = .ok none ∧ countFaultable (V2.shapeOf (.removeCrate 1) d) = 6 ∧
    V2.shapeOf (.addTrack 2 1) d = [.read, .read, .read] := by
  decide +kernel

open EngineModel.TracksV2 in
example : countFaultable (topShapeOf cxOps .s2_21_2 (.set 1 (.relativePath [97, 46, 109, 112, 51])) cxTable) = 5 ∧
    (cxTable.step cxOps .s2_21_2 (.set 1 (.relativePath [97, 46, 109, 112, 51]))).2 = .ok 0 := by
  decide +kernel

end EngineModel.Properties.C14
