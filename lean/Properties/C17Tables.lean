/-
C17 — the hand-written expectation tables of every schema version, extracted from
src/djinterop/engine/schema/schema_*.cpp by tools/tr_validators.py on every run
(`EngineModel/Gen/ValidatorTables.lean`), are CLOSED: every block is terminated by
`validate_no_more`, every listed table that is not SQLite's own has its columns and
indices listed, every listed index has its columns listed.  With the bridge theorem
`C17_closed_tables_complete` this gives, for the tables of the real validators: whatever
well-formed catalog they accept, they reject every single-element mutation of it.
(That they accept the catalog their own creator creates is evaluated on every run by
the compiled model on the catalog read back from the really created library, and the
model with these tables is compared with the real verify() on every mutant.)
-/
import EngineModel.Gen.ValidatorTables
import Properties.C17

namespace EngineModel.Properties.C17Tables
open EngineModel.Spec.Catalog EngineModel.Spec.Validator EngineModel.Gen.ValidatorTables

set_option maxRecDepth 100000

/-- Every extracted table of every version is closed (decided by the kernel on the data). -/
theorem tables_closed : (all.all fun e => closed e.2.2) = true := by decide +kernel

theorem tables_closed_mem {e : String × List Char × DbExp} (h : e ∈ all) : closed e.2.2 = true :=
  (List.all_eq_true.1 tables_closed) e h

/-- **The validators of all schema versions are complete on what they accept**: for the
expectation tables `E` of any version and database file, any well-formed catalog `c` that
`E` accepts, and any applicable single-element mutation `m` (drop / add / rename table or
view; drop / add / replace column — name, type, nullability, default, key membership;
drop / add / replace index — name, uniqueness, origin, partiality, column list), `E`
rejects `apply m c`. -/
theorem C17_tables_complete {e : String × List Char × DbExp} (he : e ∈ all) (c : Db) (m : Mutation)
    (hwf : wf c = true) (hacc : verifyDb e.2.2 c = true) (happ : applicable m c = true) :
    verifyDb e.2.2 (apply m c) = false :=
  C17.C17_closed_tables_complete e.2.2 c m (tables_closed_mem he) hwf hacc happ

/-- … and accept nothing but catalogs with the structure of what they accept. -/
theorem C17_tables_unique {e : String × List Char × DbExp} (he : e ∈ all) (c c' : Db)
    (hwf : wf c = true) (hacc : verifyDb e.2.2 c = true) (hacc' : verifyDb e.2.2 c' = true) :
    sameCat c c' = true :=
  C17.C17_closed_tables_unique e.2.2 c c' (tables_closed_mem he) hwf hacc hacc'

/-! ### the whole library: a 1.x library is the pair of files `music` + `perfdata` -/

/-- `verify()` of a library = the validators of all its database files. -/
def verifyLib (es : List (List Char × DbExp)) (cat : List Char → Db) : Bool :=
  es.all fun e => verifyDb e.2 (cat e.1)

/-- The library with one single-element mutation applied to the file labelled `l`. -/
def mutateFile (l : List Char) (m : Mutation) (cat : List Char → Db) : List Char → Db :=
  fun l' => if l' = l then apply m (cat l') else cat l'

/-- The expectation tables of the database files of one version. -/
def filesOf (v : String) : List (List Char × DbExp) := (all.filter fun e => e.1 == v).map (·.2)

theorem filesOf_closed {v : String} {e : List Char × DbExp} (h : e ∈ filesOf v) : closed e.2 = true := by
  obtain ⟨e', he', rfl⟩ := List.mem_map.1 h
  exact tables_closed_mem (List.mem_filter.1 he').1

/-- **Library level** (lifts the per-file statement to the music + perfdata pair of 1.x): if
`verify()` of version `v` accepts a library whose file `l` is well formed, it rejects the
library obtained by any applicable single-element mutation of that file. -/
theorem C17_library_complete (v : String) (cat : List Char → Db) (l : List Char) (m : Mutation)
    (hl : ∃ e ∈ filesOf v, e.1 = l) (hwf : wf (cat l) = true) (hacc : verifyLib (filesOf v) cat = true)
    (happ : applicable m (cat l) = true) : verifyLib (filesOf v) (mutateFile l m cat) = false := by
  obtain ⟨e, he, rfl⟩ := hl
  have hacc_e : verifyDb e.2 (cat e.1) = true := (List.all_eq_true.1 hacc) e he
  have hrej := C17.C17_closed_tables_complete e.2 (cat e.1) m (filesOf_closed he) hwf hacc_e happ
  cases h : verifyLib (filesOf v) (mutateFile e.1 m cat) with
  | false => rfl
  | true =>
    have := (List.all_eq_true.1 h) e he
    simp only [mutateFile, if_true] at this
    rw [hrej] at this
    exact absurd this (by simp)

/-- non-vacuity: a 1.x version has two files, a 2.x version one -/
example : (filesOf "schema_1_9_1").length = 2 ∧ (filesOf "schema_2_21_2").length = 1 := by decide

/-- non-vacuity: there are tables (one per version and database file) -/
example : all.length ≥ 18 := by decide +kernel

end EngineModel.Properties.C17Tables
