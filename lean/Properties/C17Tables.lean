/-
C17 — the hand-written expectation tables of every schema version, extracted from
src/djinterop/engine/schema/schema_*.cpp by tools/tr_validators.py on every run
(`EngineModel/Gen/ValidatorTables.lean`), are CLOSED: every block is terminated by
`validate_no_more`, every listed table that is not SQLite's own has its columns and
indices listed, every listed index has its columns listed.  With the bridge theorem
`C17_closed_tables_complete` this gives, for the tables of the real validators: whatever
well-formed catalog they accept, they reject every single-element mutation of it.
(That they accept the catalog their own creator creates is evaluated on every run by
the compiled model on the catalog read back from the really created library, and the
model with these tables is compared with the real verify() on every mutant.)
-/
import EngineModel.Gen.ValidatorTables
import Properties.C17

namespace EngineModel.Properties.C17Tables
open EngineModel.Spec.Catalog EngineModel.Spec.Validator EngineModel.Gen.ValidatorTables

set_option maxRecDepth 100000

/-- Every extracted table of every version is closed (decided by the kernel on the data). -/
theorem tables_closed : (all.all fun e => closed e.2.2) = true := by decide +kernel

theorem tables_closed_mem {e : String × List Char × DbExp} (h : e ∈ all) : closed e.2.2 = true :=
  (List.all_eq_true.1 tables_closed) e h

/-- **The validators of all schema versions are complete on what they accept**: for the
expectation tables `E` of any version and database file, any well-formed catalog `c` that
`E` accepts, and any applicable single-element mutation `m` (drop / add / rename table or
view; drop / add / replace column — name, type, nullability, default, key membership;
drop / add / replace index — name, uniqueness, origin, partiality, column list), `E`
rejects `apply m c`. -/
theorem C17_tables_complete {e : String × List Char × DbExp} (he : e ∈ all) (c : Db) (m : Mutation)
    (hwf : wf c = true) (hacc : verifyDb e.2.2 c = true) (happ : applicable m c = true) :
    verifyDb e.2.2 (apply m c) = false :=
  C17.C17_closed_tables_complete e.2.2 c m (tables_closed_mem he) hwf hacc happ

/-- … and accept nothing but catalogs with the structure of what they accept. -/
theorem C17_tables_unique {e : String × List Char × DbExp} (he : e ∈ all) (c c' : Db)
    (hwf : wf c = true) (hacc : verifyDb e.2.2 c = true) (hacc' : verifyDb e.2.2 c' = true) :
    sameCat c c' = true :=
  C17.C17_closed_tables_unique e.2.2 c c' (tables_closed_mem he) hwf hacc hacc'

/-- non-vacuity: there are tables (one per version and database file) -/
example : all.length ≥ 18 := by decide +kernel

end EngineModel.Properties.C17Tables
