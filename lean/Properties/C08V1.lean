/-
C08 — Crate contents are exactly the tracks added and not removed.   Schema 1.x half.

Model  : EngineModel/Api/CratesV1.lean — add_track (delete-then-insert), remove_track (from a crate),
         clear_tracks, database::remove_track (with its DELETE FROM CrateTrackList, and the AUTOINCREMENT
         trigger of >= 1.17.0), database::remove_crate (whole sub-tree, with the membership rows),
         create_track as far as the Track id goes; `crateTracks` = crate::tracks(),
         `trackContainingCrates` = track::containing_crates(), both read through the CrateTrackList view
         (which from 1.9.1 on INNER JOINs List and hides rows of crates that no longer exist).
Spec   : EngineModel/Spec/Members.lean — a set of (crate, track) pairs between live crates and live tracks.
Trace  : `membersTrace` (EngineModel/Api/CratesV1Sim.lean) drives the Spec with what a caller sees of each
         call (returned / threw, reported ids, `crates()` before and after a removal).

Histories are arbitrary lists of Model operations — crate structure, membership and track operations
interleaved, on live and removed crates / tracks and on ids that never existed — so crate ids, track ids
and membership rows de-synchronise freely; `s` ranges over the eleven 1.x schema versions.
-/
import Proofs.CratesV1Suffix

namespace EngineModel.Properties.C08V1
open EngineModel EngineModel.Api.CratesV1 EngineModel.Spec EngineModel.Pure.Detect

/-- Refinement: for every history the membership Spec, told only the outcomes of the calls, never
contradicts them (add on a removed crate throws, remove / clear / add never fail otherwise, …), and in the
state reached `crate.tracks()`, `track.containing_crates()`, `database.tracks()` and `database.crates()`
are exactly the Spec's relation, its converse, its live tracks and its live crates (as sorted lists). -/
theorem C08_refines (s : Schema) (ops : List Op) :
    ∃ m, membersTrace s Db.empty Members.empty ops = some m ∧
      (∀ c, sortIds (crateTracks s (run s Db.empty ops) c) = sortIds (Members.tracksOf m c)) ∧
      (∀ t, sortIds (trackContainingCrates s (run s Db.empty ops) t) = sortIds (Members.cratesOf m t)) ∧
      dbTracks (run s Db.empty ops) = sortIds m.tracks ∧
      dbCrates (run s Db.empty ops) = sortIds m.crates ∧
      m.pairs.Nodup ∧ (∀ p ∈ m.pairs, p.1 ∈ m.crates ∧ p.2 ∈ m.tracks) := by
  have h : Inv (run s Db.empty ops) := inv_run s ops inv_empty
  obtain ⟨m, e, hm⟩ := membersTrace_run s ops inv_empty memRel_empty
  refine ⟨m, e, q_tracks s h hm, q_containing s h hm, q_dbTracks h hm, ?_, hm.pairsNodup, ?_⟩
  · unfold dbCrates
    apply sortIds_eq_of_mem h.idsNodup hm.cratesNodup
    intro c; exact (hm.crates c).symm
  · intro p hp
    have := h.ctlLive p ((hm.pairs p).mp hp)
    exact ⟨(hm.crates _).mpr this.1, (hm.tracks _).mpr this.2⟩

/-- The same from ANY raw state that passes `WfRaw` (a loaded library): the Spec, started on the membership state the
rows describe (`absMembers`), follows every history, and the queries agree at the end. -/
theorem C08_refines_from_wellformed (s : Schema) (db : Db) (hw : WfRaw db = true) (ops : List Op) :
    ∃ m, membersTrace s db (absMembers db) ops = some m ∧
      (∀ c, sortIds (crateTracks s (run s db ops) c) = sortIds (Members.tracksOf m c)) ∧
      (∀ t, sortIds (trackContainingCrates s (run s db ops) t) = sortIds (Members.cratesOf m t)) ∧
      dbTracks (run s db ops) = sortIds m.tracks ∧ m.pairs.Nodup := by
  have h0 : Inv db := inv_of_wfRaw hw
  have h : Inv (run s db ops) := inv_run s ops h0
  obtain ⟨m, e, hm⟩ := membersTrace_run s ops h0 (memRel_abs h0)
  exact ⟨m, e, q_tracks s h hm, q_containing s h hm, q_dbTracks h hm, hm.pairsNodup⟩

/-- … and the frame property from any well-formed state. -/
theorem C08_frame_from_wellformed (s : Schema) (db : Db) (hw : WfRaw db = true) (op : Op) (c t : Id)
    (hp : touches (absForest db) op (c, t) = false) :
    (t ∈ crateTracks s (step s db op).1 c ↔ t ∈ crateTracks s db c) ∧
    (c ∈ trackContainingCrates s (step s db op).1 t ↔ c ∈ trackContainingCrates s db t) := by
  have h : Inv db := inv_of_wfRaw hw
  have h' : Inv (step s db op).1 := (step_ok s h op).1
  rw [mem_crateTracks s h, mem_crateTracks s h', mem_containing s h, mem_containing s h']
  exact ⟨frame_ctl s h op (c, t) hp, frame_ctl s h op (c, t) hp⟩

example : WfRaw ⟨[⟨5, [97], [97, 59]⟩], [(5, 5)], [], [(5, 7)], [⟨7, true⟩], 0⟩ = true ∧
    touches (absForest ⟨[⟨5, [97], [97, 59]⟩], [(5, 5)], [], [(5, 7)], [⟨7, true⟩], 0⟩) (.removeTrack 8) (5, 7) = false := by
  decide +kernel

/-- In every reachable state the contents of a crate have no duplicates, consist of live tracks only, only
valid crates have contents, and `containing_crates` is the exact converse of `tracks`. -/
theorem C08_contents_wellformed (s : Schema) (ops : List Op) :
    let db := run s Db.empty ops
    (∀ c, (crateTracks s db c).Nodup) ∧ (∀ t, (trackContainingCrates s db t).Nodup) ∧
    (∀ c t, t ∈ crateTracks s db c → t ∈ dbTracks db ∧ crateIsValid db c = .ok true) ∧
    (∀ c t, t ∈ crateTracks s db c ↔ c ∈ trackContainingCrates s db t) := by
  intro db
  have h : Inv db := inv_run s ops inv_empty
  refine ⟨crateTracks_nodup s h, containing_nodup s h, ?_, ?_⟩
  · intro c t ht
    have := h.ctlLive _ ((mem_crateTracks s h c t).mp ht)
    refine ⟨?_, (isValid_iff h.toFInv c).mpr this.1⟩
    unfold dbTracks sortIds
    rw [List.mem_mergeSort, mem_liveIds]
    exact this.2
  · intro c t
    rw [mem_crateTracks s h, mem_containing s h]

/-- Frame: an operation leaves the membership of every pair it is not about unchanged — add / remove on
(c, t) every other pair, clear_tracks every other crate, track removal every other track, crate removal
every crate outside the removed sub-tree, all other operations every pair. -/
theorem C08_frame (s : Schema) (ops : List Op) (op : Op) (c t : Id)
    (hp : touches (absForest (run s Db.empty ops)) op (c, t) = false) :
    (t ∈ crateTracks s (step s (run s Db.empty ops) op).1 c ↔ t ∈ crateTracks s (run s Db.empty ops) c) ∧
    (c ∈ trackContainingCrates s (step s (run s Db.empty ops) op).1 t ↔ c ∈ trackContainingCrates s (run s Db.empty ops) t) := by
  have h : Inv (run s Db.empty ops) := inv_run s ops inv_empty
  have h' : Inv (step s (run s Db.empty ops) op).1 := (step_ok s h op).1
  rw [mem_crateTracks s h, mem_crateTracks s h', mem_containing s h, mem_containing s h']
  exact ⟨frame_ctl s h op (c, t) hp, frame_ctl s h op (c, t) hp⟩

/-- non-vacuity: adding t1 to crate 1 is not about (2, t1) nor about (1, t2). -/
example : touches (absForest (run .schema_1_6_0 Db.empty [.createRoot [97], .createRoot [98]])) (.addTrack 1 1) (2, 1) = false ∧
    touches (absForest (run .schema_1_6_0 Db.empty [.createRoot [97], .createRoot [98]])) (.addTrack 1 1) (1, 2) = false := by
  decide +kernel

/-- add_track: on a valid crate and a live track it succeeds and the track is then in the crate; otherwise
it throws (and by `C07_failed_call_changes_nothing` changes nothing).  Together with `C08_frame` this pins
the whole relation down; in particular adding a track that is already present changes no membership. -/
theorem C08_add_track (s : Schema) (ops : List Op) (c t : Id) :
    let db := run s Db.empty ops
    ((crateIsValid db c = .ok true ∧ t ∈ dbTracks db) →
      (step s db (.addTrack c t)).2 = .ok .unit ∧ t ∈ crateTracks s (step s db (.addTrack c t)).1 c) ∧
    (¬ (crateIsValid db c = .ok true ∧ t ∈ dbTracks db) →
      (step s db (.addTrack c t)).2.isOk = false ∧ (step s db (.addTrack c t)).1 = db) := by
  intro db
  have h : Inv db := inv_run s ops inv_empty
  have hlive : t ∈ dbTracks db ↔ liveTrack db t := by
    unfold dbTracks sortIds
    rw [List.mem_mergeSort, mem_liveIds]
  constructor
  · rintro ⟨hc, ht⟩
    have hc' := (isValid_iff h.toFInv c).mp hc
    have ht' := hlive.mp ht
    have e : step s db (.addTrack c t) = (afterAddTrack db c t, .ok .unit) := addTrack_ok s h hc' ht'
    rw [e]
    refine ⟨rfl, ?_⟩
    rw [mem_crateTracks s (inv_addTrack h hc' ht')]
    show (c, t) ∈ db.ctl.filter _ ++ [(c, t)]
    simp
  · intro hn
    by_cases hc : c ∈ ids db
    · have ht : ¬ liveTrack db t := fun ht => hn ⟨(isValid_iff h.toFInv c).mpr hc, hlive.mpr ht⟩
      have e : step s db (.addTrack c t) = (db, .throw exTrackDeleted) := addTrack_dead_track s h.idsNodup hc ht
      rw [e]; exact ⟨rfl, rfl⟩
    · have e : step s db (.addTrack c t) = (db, .throw exCrateDeleted) := addTrack_dead s db t hc
      rw [e]; exact ⟨rfl, rfl⟩

/-- "Adding a track that is already present is a no-op": the call succeeds and no crate's contents and no
track's containing crates change. -/
theorem C08_add_present_is_noop (s : Schema) (ops : List Op) (c t : Id)
    (hp : t ∈ crateTracks s (run s Db.empty ops) c) :
    (step s (run s Db.empty ops) (.addTrack c t)).2 = .ok .unit ∧
    (∀ c', sortIds (crateTracks s (step s (run s Db.empty ops) (.addTrack c t)).1 c') = sortIds (crateTracks s (run s Db.empty ops) c')) ∧
    (∀ t', sortIds (trackContainingCrates s (step s (run s Db.empty ops) (.addTrack c t)).1 t')
      = sortIds (trackContainingCrates s (run s Db.empty ops) t')) := by
  have h : Inv (run s Db.empty ops) := inv_run s ops inv_empty
  have hrow := (mem_crateTracks s h c t).mp hp
  have hc := (h.ctlLive _ hrow).1
  have ht := (h.ctlLive _ hrow).2
  have e : step s (run s Db.empty ops) (.addTrack c t) = (afterAddTrack (run s Db.empty ops) c t, .ok .unit) :=
    addTrack_ok s h hc ht
  rw [e]
  have h' := inv_addTrack h hc ht
  have hmem : ∀ p, p ∈ (afterAddTrack (run s Db.empty ops) c t).ctl ↔ p ∈ (run s Db.empty ops).ctl := by
    intro p
    show p ∈ (run s Db.empty ops).ctl.filter _ ++ [(c, t)] ↔ _
    rw [List.mem_append, List.mem_filter, List.mem_singleton]
    constructor
    · rintro (⟨hm, _⟩ | rfl)
      · exact hm
      · exact hrow
    · intro hm
      by_cases he : p = (c, t)
      · exact Or.inr he
      · exact Or.inl ⟨hm, (not_pair_iff p c t).mpr he⟩
  refine ⟨rfl, ?_, ?_⟩
  · intro c'
    apply sortIds_eq_of_mem (crateTracks_nodup s h' c') (crateTracks_nodup s h c')
    intro x; rw [mem_crateTracks s h', mem_crateTracks s h, hmem]
  · intro t'
    apply sortIds_eq_of_mem (containing_nodup s h' t') (containing_nodup s h t')
    intro x; rw [mem_containing s h', mem_containing s h, hmem]

/-- non-vacuity: a history in which the track is present when it is added again. -/
example : (1 : Id) ∈ crateTracks .schema_1_9_1 (run .schema_1_9_1 Db.empty [.createRoot [97], .createTrack, .addTrack 1 1]) 1 := by
  decide +kernel

/-- remove_track (from a crate) never fails and afterwards the track is not in the crate; "removing one that
is not present is a no-op": then no table changes at all. -/
theorem C08_remove_track (s : Schema) (ops : List Op) (c t : Id) :
    let db := run s Db.empty ops
    (step s db (.removeTrackFrom c t)).2 = .ok .unit ∧
    t ∉ crateTracks s (step s db (.removeTrackFrom c t)).1 c ∧
    (t ∉ crateTracks s db c → (step s db (.removeTrackFrom c t)).1 = db) := by
  intro db
  have h : Inv db := inv_run s ops inv_empty
  have e : step s db (.removeTrackFrom c t) = (filterCtl db (fun r => r.1 == c && r.2 == t), .ok .unit) :=
    removeTrackFrom_eq s h c t
  rw [e]
  refine ⟨rfl, ?_, ?_⟩
  · rw [mem_crateTracks s (inv_filterCtl h _)]
    show (c, t) ∉ db.ctl.filter _
    simp
  · intro hn
    rw [mem_crateTracks s h] at hn
    refine Db.ext' (a := filterCtl db _) (b := db) rfl rfl rfl ?_ rfl rfl
    show db.ctl.filter _ = db.ctl
    rw [List.filter_eq_self]
    intro r hr
    exact (not_pair_iff r c t).mpr (fun e => hn (e ▸ hr))

/-- clear_tracks never fails and empties the crate. -/
theorem C08_clear_tracks (s : Schema) (ops : List Op) (c : Id) :
    (step s (run s Db.empty ops) (.clearTracks c)).2 = .ok .unit ∧
    crateTracks s (step s (run s Db.empty ops) (.clearTracks c)).1 c = [] := by
  have h : Inv (run s Db.empty ops) := inv_run s ops inv_empty
  have e : step s (run s Db.empty ops) (.clearTracks c) = (filterCtl (run s Db.empty ops) (fun r => r.1 == c), .ok .unit) :=
    clearTracks_eq s h c
  rw [e]
  refine ⟨rfl, ?_⟩
  rw [List.eq_nil_iff_forall_not_mem]
  intro t ht
  rw [mem_crateTracks s (inv_filterCtl h _)] at ht
  have : (c, t) ∈ (run s Db.empty ops).ctl.filter (fun r => !(r.1 == c)) := ht
  simp at this

/-- Removing a track erases it from every crate, and it is no longer a track of the database. -/
theorem C08_track_removal_erases_memberships (s : Schema) (ops : List Op) (t : Id) :
    let db' := (step s (run s Db.empty ops) (.removeTrack t)).1
    (∀ c, t ∉ crateTracks s db' c) ∧ trackContainingCrates s db' t = [] ∧ t ∉ dbTracks db' := by
  intro db'
  have h : Inv (run s Db.empty ops) := inv_run s ops inv_empty
  have h' : Inv db' := (step_ok s h _).1
  obtain ⟨_, _, _, _, e4, _, e6⟩ := removeTrack_spec s h t
  have hno : ∀ c, (c, t) ∉ db'.ctl := by
    intro c hm
    have : (c, t) ∈ (run s Db.empty ops).ctl.filter (fun r => !(r.2 == t)) := e4 ▸ hm
    simp at this
  refine ⟨fun c hm => hno c ((mem_crateTracks s h' c t).mp hm), ?_, ?_⟩
  · rw [List.eq_nil_iff_forall_not_mem]
    intro c hm
    exact hno c ((mem_containing s h' t c).mp hm)
  · unfold dbTracks sortIds
    rw [List.mem_mergeSort, mem_liveIds]
    intro hl
    exact ((e6 t).mp hl).2 rfl

/-- Removing a crate erases the memberships of the crate and of its whole sub-tree. -/
theorem C08_crate_removal_erases_memberships (s : Schema) (ops : List Op) (c y : Id)
    (hy : y = c ∨ (absForest (run s Db.empty ops)).isAncestor c y = true) :
    let db' := (step s (run s Db.empty ops) (.removeCrate c)).1
    crateTracks s db' y = [] ∧ ∀ t, y ∉ trackContainingCrates s db' t := by
  intro db'
  have h : Inv (run s Db.empty ops) := inv_run s ops inv_empty
  have h' : Inv db' := (step_ok s h _).1
  have hshape : ∀ p, p ∈ db'.ctl ↔ (p ∈ (run s Db.empty ops).ctl ∧ ¬ Sub (run s Db.empty ops) c p.1) :=
    ctl_step s h (.removeCrate c)
  have hno : ∀ t, (y, t) ∉ db'.ctl := by
    intro t hm
    exact ((hshape _).mp hm).2 ((sub_iff_abs h.toFInv c y).mpr hy)
  refine ⟨?_, fun t hm => hno t ((mem_containing s h' t y).mp hm)⟩
  rw [List.eq_nil_iff_forall_not_mem]
  intro t hm
  exact hno t ((mem_crateTracks s h' y t).mp hm)

/-- non-vacuity: crate 2 is below crate 1 and holds a track when crate 1 is removed. -/
example : (absForest (run .schema_1_9_1 Db.empty [.createRoot [97], .createSub 1 [98], .createTrack, .addTrack 2 1])).isAncestor 1 2 = true ∧
    crateTracks .schema_1_9_1 (run .schema_1_9_1 Db.empty [.createRoot [97], .createSub 1 [98], .createTrack, .addTrack 2 1]) 2 = [1] := by
  decide +kernel

end EngineModel.Properties.C08V1
