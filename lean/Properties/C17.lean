/-
C17: `verify()` reports `database_inconsistency` for any single structural deviation from
the declared schema.

* Milestone 1: the generic `validate … ++iter … validate_no_more` walk accepts exactly the
  expected sequence; without the terminator it accepts every extension.
* Milestone 3: `verifyDb` with every block terminated is a conjunction of equalities of
  key-ordered sets; for the closed expectation `expOf c` it is `sameCat c`.
* Milestone 4: every applicable single-element mutation of a well-formed catalog deviates
  (`sameCat` fails), so the complete validator rejects it.
* Milestone 5: concrete instances, and what an open block / an uncovered index loses.
* Bridge: the same for arbitrary closed expectation tables (`C17_closed_tables_unique`,
  `C17_closed_tables_complete`).
* Stretch: for well-formed catalogs `sameCat` is plain set comparison (`deviatesPlain`).
-/
import EngineModel.Spec.Catalog
import EngineModel.Spec.Validator
import Proofs.Validator

namespace EngineModel.Properties.C17
open EngineModel.Spec.SchemaDump (Str)
open EngineModel.Spec.Catalog EngineModel.Spec.Validator

/-! ### Milestone 1: the generic walk -/

section walk
variable {α : Type} [DecidableEq α]

theorem walk_complete (E act : List α) : walk true E act = true ↔ act = E := by
  induction E generalizing act with
  | nil => cases act <;> simp [walk]
  | cons e es ih => cases act <;> simp [walk, ih]

/-- What a missing `validate_no_more` accepts: any extension. -/
theorem walk_open (E act : List α) : walk false E act = true ↔ E <+: act := by
  induction E generalizing act with
  | nil => cases act <;> simp [walk]
  | cons e es ih =>
    cases act with
    | nil => simp [walk]
    | cons a as =>
      simp only [walk, Bool.and_eq_true, decide_eq_true_eq, ih, List.cons_prefix_cons]
      exact ⟨fun ⟨h1, h2⟩ => ⟨h1.symm, h2⟩, fun ⟨h1, h2⟩ => ⟨h1.symm, h2⟩⟩

theorem walk_mono (b : Bool) (E act : List α) : walk true E act = true → walk b E act = true := by
  intro h
  cases b with
  | true => exact h
  | false =>
    rw [walk_complete] at h
    rw [walk_open, h]
    exact List.prefix_refl _

end walk

example : walk true [1, 2] [1, 2] = true := by decide
example : walk false [1, 2] [1, 2, 3] = true ∧ walk true [1, 2] [1, 2, 3] = false := by decide

/-! ### Milestone 3: `verifyDb` characterised -/

theorem verifyDb_iff (E : DbExp) (h : allNoMore E = true) (c : Db) :
    verifyDb E c = true ↔
      (setNames (tableNames c) = E.tables ∧ setNames c.views = E.views ∧
       ∀ te ∈ E.perTable, setCols (tableInfo c te.name) = te.cols ∧
         setIdxs (indexList c te.name) = te.idxs ∧
         ∀ x ∈ te.idxCols, setIdxCols (indexInfo c x.index) = x.cols) := by
  simp only [allNoMore, Bool.and_eq_true, List.all_eq_true] at h
  obtain ⟨⟨h1, h2⟩, h3⟩ := h
  simp only [verifyDb, h1, h2, walk_complete, Bool.and_eq_true, List.all_eq_true, and_assoc]
  refine and_congr_right fun _ => and_congr_right fun _ => ?_
  refine forall_congr' fun te => ?_
  refine imp_congr_right fun hte => ?_
  obtain ⟨⟨h4, h5⟩, h6⟩ := h3 te hte
  simp only [verifyTable, h4, h5, walk_complete, Bool.and_eq_true, List.all_eq_true, and_assoc]
  refine and_congr_right fun _ => and_congr_right fun _ => ?_
  refine forall_congr' fun x => ?_
  refine imp_congr_right fun hx => ?_
  simp only [verifyIdxCols, h6 x hx, walk_complete]

theorem verifyDb_expOf_iff (c c' : Db) : verifyDb (expOf c) c' = true ↔ sameCat c c' = true := by
  rw [sameCat_iff]
  simp only [verifyDb, verifyTable, verifyIdxCols, expOf, expOfTable, walk_complete, Bool.and_eq_true,
    List.all_eq_true, List.mem_map, and_assoc, forall_exists_index, and_imp, forall_apply_eq_imp_iff₂]

theorem expOf_closed (c : Db) (_h : wf c = true) : closed (expOf c) = true := by
  simp only [closed, allNoMore_expOf, covers_expOf, Bool.and_self]

theorem sameCat_refl (c : Db) (h : wf c = true) : sameCat c c = true := sameCat_refl' c h

/-- Accepting side: the complete validator for `c` accepts `c`. -/
theorem verifyDb_expOf_self (c : Db) (h : wf c = true) : verifyDb (expOf c) c = true :=
  (verifyDb_expOf_iff c c).2 (sameCat_refl c h)

/-! ### Milestone 4: every single-element mutation deviates -/

theorem mutation_deviates (c : Db) (m : Mutation) (hwf : wf c = true) (happ : applicable m c = true) :
    sameCat c (apply m c) = false := by
  cases hs : sameCat c (apply m c) with
  | false => rfl
  | true =>
    exfalso
    cases m with
    | dropTable t => exact dev_dropTable hwf happ hs
    | addTable t =>
      simp only [applicable, Bool.and_eq_true, Bool.not_eq_true'] at happ
      exact dev_addTable happ.1.1.1.1.1 hs
    | renameTable t new =>
      simp only [applicable, Bool.and_eq_true, Bool.not_eq_true'] at happ
      exact dev_renameTable happ.1.1 happ.1.2 hs
    | dropView v => exact dev_dropView hwf happ hs
    | addView v =>
      simp only [applicable, Bool.not_eq_true'] at happ
      exact dev_addView happ hs
    | renameView v new =>
      simp only [applicable, Bool.and_eq_true, Bool.not_eq_true'] at happ
      exact dev_renameView happ.1 happ.2 hs
    | dropCol t cn =>
      simp only [applicable, Bool.and_eq_true] at happ
      exact dev_dropCol hwf happ.1 happ.2 hs
    | addCol t col =>
      simp only [applicable, Bool.and_eq_true, Bool.not_eq_true'] at happ
      exact dev_addCol happ.1 happ.2 hs
    | updCol t cn new =>
      simp only [applicable, Bool.and_eq_true] at happ
      obtain ⟨h1, h2⟩ := happ
      split at h2
      · rename_i old hold
        simp only [Bool.and_eq_true, bne_iff_ne, ne_eq, Bool.or_eq_true, beq_iff_eq,
          Bool.not_eq_true'] at h2
        exact dev_updCol hwf h1 hold h2.1 h2.2 hs
      · cases h2
    | dropIdx t i =>
      simp only [applicable, Bool.and_eq_true] at happ
      exact dev_dropIdx hwf happ.1 happ.2 hs
    | addIdx t ix =>
      simp only [applicable, Bool.and_eq_true, Bool.not_eq_true'] at happ
      exact dev_addIdx happ.1.1 happ.1.2 hs
    | updIdx t i new =>
      simp only [applicable, Bool.and_eq_true] at happ
      obtain ⟨⟨h1, h2⟩, h3⟩ := happ
      split at h3
      · rename_i old hold
        simp only [Bool.and_eq_true, bne_iff_ne, ne_eq, Bool.or_eq_true, beq_iff_eq,
          Bool.not_eq_true'] at h3
        exact dev_updIdx hwf h1 ((nodupB_iff _).1 h2) hold h3.1 h3.2 hs
      · cases h3

theorem mutation_changes (c : Db) (m : Mutation) (hwf : wf c = true) (happ : applicable m c = true) :
    apply m c ≠ c := by
  intro h
  have := mutation_deviates c m hwf happ
  rw [h, sameCat_refl c hwf] at this
  cases this

/-- The core of C17: the complete validator for `c` throws on every single-element mutation of `c`. -/
theorem C17_complete_validator_rejects (c : Db) (m : Mutation) (hwf : wf c = true)
    (happ : applicable m c = true) : verifyDb (expOf c) (apply m c) = false := by
  cases h : verifyDb (expOf c) (apply m c) with
  | false => rfl
  | true =>
    rw [verifyDb_expOf_iff, mutation_deviates c m hwf happ] at h
    cases h

/-! ### Milestone 5: concrete instances (non-vacuity) -/

/-- Two tables (`tr`: two columns, one index over both; `in`: one column) and one view. -/
def cA : Db :=
  { tables :=
      [ ⟨"tr".toList,
          [⟨"id".toList, "INT".toList, 0, [], 1⟩, ⟨"nm".toList, "TXT".toList, 1, "x".toList, 0⟩],
          [⟨⟨"ix".toList, 0, "c".toList, 0⟩, [⟨0, "id".toList⟩, ⟨1, "nm".toList⟩]⟩]⟩,
        ⟨"in".toList, [⟨"k".toList, "TXT".toList, 0, [], 0⟩], []⟩ ]
    views := ["vw".toList] }

example : wf cA = true := by decide +kernel
example : allNoMore (expOf cA) = true := by decide +kernel
example : closed (expOf cA) = true := by decide +kernel
example : verifyDb (expOf cA) cA = true := by decide +kernel
example : sameCat cA cA = true := by decide +kernel

/-- One mutation of every kind. -/
def mutsA : List Mutation :=
  [ .dropTable "in".toList,
    .addTable ⟨"zz".toList, [⟨"a".toList, "INT".toList, 0, [], 0⟩], [⟨⟨"iz".toList, 1, "c".toList, 0⟩, [⟨0, "a".toList⟩]⟩]⟩,
    .renameTable "tr".toList "ts".toList,
    .dropView "vw".toList,
    .addView "vx".toList,
    .renameView "vw".toList "vy".toList,
    .dropCol "tr".toList "nm".toList,
    .addCol "in".toList ⟨"j".toList, "INT".toList, 0, [], 0⟩,
    .updCol "tr".toList "nm".toList ⟨"nm".toList, "TXT".toList, 0, "x".toList, 0⟩,   -- NOT NULL lost
    .updCol "tr".toList "nm".toList ⟨"nn".toList, "TXT".toList, 1, "x".toList, 0⟩,   -- renamed
    .updCol "tr".toList "id".toList ⟨"id".toList, "INT".toList, 0, [], 0⟩,           -- no longer the key
    .dropIdx "tr".toList "ix".toList,
    .addIdx "in".toList ⟨⟨"ik".toList, 0, "c".toList, 0⟩, [⟨0, "k".toList⟩]⟩,
    .updIdx "tr".toList "ix".toList ⟨⟨"ix".toList, 1, "c".toList, 0⟩, [⟨0, "id".toList⟩, ⟨1, "nm".toList⟩]⟩, -- now UNIQUE
    .updIdx "tr".toList "ix".toList ⟨⟨"iy".toList, 0, "c".toList, 0⟩, [⟨0, "id".toList⟩, ⟨1, "nm".toList⟩]⟩, -- renamed
    .updIdx "tr".toList "ix".toList ⟨⟨"ix".toList, 0, "c".toList, 0⟩, [⟨0, "nm".toList⟩, ⟨1, "id".toList⟩]⟩, -- columns swapped
    .updIdx "tr".toList "ix".toList ⟨⟨"ix".toList, 0, "c".toList, 0⟩, [⟨0, "id".toList⟩]⟩ ]                  -- a column fewer

example : mutsA.all (fun m => applicable m cA) = true := by decide +kernel
example : mutsA.all (fun m => !verifyDb (expOf cA) (apply m cA)) = true := by decide +kernel
example : mutsA.all (fun m => !sameCat cA (apply m cA)) = true := by decide +kernel
example : mutsA.all (fun m => decide (apply m cA ≠ cA)) = true := by decide +kernel

example : applicable (.dropCol "tr".toList "nm".toList) cA = true := by decide +kernel
example : verifyDb (expOf cA) (apply (.dropCol "tr".toList "nm".toList) cA) = false := by decide +kernel
example : applicable (.addIdx "in".toList ⟨⟨"ik".toList, 0, "c".toList, 0⟩, [⟨0, "k".toList⟩]⟩) cA = true := by
  decide +kernel
example : verifyDb (expOf cA)
    (apply (.addIdx "in".toList ⟨⟨"ik".toList, 0, "c".toList, 0⟩, [⟨0, "k".toList⟩]⟩) cA) = false := by
  decide +kernel

/-- Mutations that are *not* applicable (they change nothing, or name nothing): the hypothesis is not trivial. -/
example : applicable (.updCol "tr".toList "nm".toList ⟨"nm".toList, "TXT".toList, 1, "x".toList, 0⟩) cA = false := by
  decide +kernel
example : applicable (.dropCol "tr".toList "qq".toList) cA = false := by decide +kernel
example : applicable (.updIdx "tr".toList "ix".toList
    ⟨⟨"ix".toList, 0, "c".toList, 0⟩, [⟨1, "nm".toList⟩, ⟨0, "id".toList⟩]⟩) cA = false := by decide +kernel

/-- The hypotheses of the `std::set` lemmas of `Proofs/Validator.lean` hold for the orders and keys used. -/
example : ∀ x y : Str, ltStr x y = false → ltStr y x = false → x = y := strTot
example : ∀ x y : Int, ltInt x y = false → ltInt y x = false → x = y := intTot
example : ((tableNames cA).map id).Nodup := by decide +kernel
example : setNames (tableNames cA) = ["in".toList, "tr".toList] := by decide +kernel

/-! ### what an incomplete table loses -/

/-- `expOf cA` with the `validate_no_more` of the column block of `tr` deleted. -/
def eOpen : DbExp :=
  { expOf cA with
    perTable := (expOf cA).perTable.map fun te =>
      if te.name == "tr".toList then { te with colsNoMore := false } else te }

def cExtraCol : Db := apply (.addCol "tr".toList ⟨"zz".toList, "INT".toList, 0, [], 0⟩) cA

/-- A deleted `validate_no_more`: an extra column is accepted. -/
theorem open_block_counterexample :
    ∃ (E : DbExp) (c c' : Db), verifyDb E c = true ∧ verifyDb E c' = true ∧ sameCat c c' = false :=
  ⟨eOpen, cA, cExtraCol, by decide +kernel⟩

/-- `expOf cA` without the `index_info` block of `ix`. -/
def eUncovered : DbExp :=
  { expOf cA with
    perTable := (expOf cA).perTable.map fun te =>
      { te with idxCols := te.idxCols.filter fun x => !(x.index == "ix".toList) } }

def cSwappedIdx : Db :=
  apply (.updIdx "tr".toList "ix".toList
    ⟨⟨"ix".toList, 0, "c".toList, 0⟩, [⟨0, "nm".toList⟩, ⟨1, "id".toList⟩]⟩) cA

/-- An index whose columns are never inspected: a changed index column list is accepted. -/
theorem uncovered_index_counterexample :
    ∃ (E : DbExp) (c c' : Db), verifyDb E c = true ∧ verifyDb E c' = true ∧ sameCat c c' = false :=
  ⟨eUncovered, cA, cSwappedIdx, by decide +kernel⟩

example : allNoMore eOpen = false ∧ covers eOpen = true := by decide +kernel
example : allNoMore eUncovered = true ∧ covers eUncovered = false := by decide +kernel
example : applicable (.addCol "tr".toList ⟨"zz".toList, "INT".toList, 0, [], 0⟩) cA = true := by decide +kernel

/-! ### Arbitrary closed expectation tables (not only `expOf c`) -/

/-- A closed expectation table that accepts a well-formed catalog `c` accepts only catalogs
with the structure of `c`. -/
theorem C17_closed_tables_unique (E : DbExp) (c c' : Db) (hE : closed E = true) (hwf : wf c = true)
    (hacc : verifyDb E c = true) : verifyDb E c' = true → sameCat c c' = true := by
  intro hacc'
  simp only [closed, Bool.and_eq_true] at hE
  obtain ⟨hno, hcov⟩ := hE
  obtain ⟨a1, a2, a3⟩ := (verifyDb_iff E hno c).1 hacc
  obtain ⟨b1, b2, b3⟩ := (verifyDb_iff E hno c').1 hacc'
  obtain ⟨cov1, cov2⟩ := (covers_iff E).1 hcov
  rw [sameCat_iff]
  refine ⟨by rw [a1, b1], by rw [a2, b2], fun t ht => ?_⟩
  have hm := mem_tables_of_user ht
  obtain ⟨hin, hint⟩ := user_name_mem_setNames hwf ht
  rw [a1] at hin
  obtain ⟨te, hte, hten⟩ := cov1 _ hin hint
  obtain ⟨a4, a5, a6⟩ := a3 te hte
  obtain ⟨b4, b5, b6⟩ := b3 te hte
  rw [hten] at a4 a5 b4 b5
  rw [tableInfo_of_find (findTable_self hwf hm)] at a4
  rw [indexList_of_find (findTable_self hwf hm)] at a5
  refine ⟨by rw [a4, b4], by rw [a5, b5], fun i hi => ?_⟩
  have hie := entry_mem_setIdxs hwf hm hi
  rw [a5] at hie
  obtain ⟨x, hx, hxi⟩ := cov2 te hte _ hie
  have a7 := a6 x hx
  have b7 := b6 x hx
  rw [hxi] at a7 b7
  rw [indexInfo_self hwf hm hi] at a7
  rw [a7, b7]

/-- C17 for any closed expectation tables: if `verify()` accepts `c`, it throws on every
single-element mutation of `c`. -/
theorem C17_closed_tables_complete (E : DbExp) (c : Db) (m : Mutation)
    (hE : closed E = true) (hwf : wf c = true) (hacc : verifyDb E c = true)
    (happ : applicable m c = true) : verifyDb E (apply m c) = false := by
  cases h : verifyDb E (apply m c) with
  | false => rfl
  | true =>
    have := C17_closed_tables_unique E c (apply m c) hE hwf hacc h
    rw [mutation_deviates c m hwf happ] at this
    cases this

/-- The hypotheses are satisfiable together: `E := expOf cA`, `c := cA`, every mutation of `mutsA`. -/
example : closed (expOf cA) = true ∧ wf cA = true ∧ verifyDb (expOf cA) cA = true ∧
    mutsA.all (fun m => applicable m cA) = true := by decide +kernel

/-- A closed table that is *not* `expOf` of the catalog it accepts (it describes every
table twice): the general theorem applies where `verifyDb_expOf_iff` does not. -/
def eDup : DbExp :=
  { expOf cA with perTable := (expOf cA).perTable ++ (expOf cA).perTable }

example : closed eDup = true ∧ verifyDb eDup cA = true ∧ decide (eDup ≠ expOf cA) = true ∧
    mutsA.all (fun m => !verifyDb eDup (apply m cA)) = true := by decide +kernel

/-- Without closedness the conclusion fails (`eOpen`, `eUncovered` above accept a mutated catalog). -/
example : closed eOpen = false ∧ closed eUncovered = false := by decide +kernel

/-! ### Stretch: `sameCat` is plain set comparison at every level -/

theorem sameCat_iff_plain (c c' : Db) (h : wf c = true) (h' : wf c' = true) :
    sameCat c c' = true ↔ deviatesPlain c c' = false := sameCat_iff_plain' c c' h h'

example : wf cA = true ∧ wf cExtraCol = true := by decide +kernel
example : sameCat cA cExtraCol = false ∧ deviatesPlain cA cExtraCol = true := by decide +kernel
example : sameCat cA cA = true ∧ deviatesPlain cA cA = false := by decide +kernel

/-- The order hypotheses of `toSet_eq_iff_mem` hold for both orders used. -/
example : (∀ x : Str, ltStr x x = false) ∧
    (∀ x y z : Str, ltStr x y = true → ltStr y z = true → ltStr x z = true) :=
  ⟨ltStr_irrefl, ltStr_trans⟩
example : (∀ x : Int, ltInt x x = false) ∧
    (∀ x y z : Int, ltInt x y = true → ltInt y z = true → ltInt x z = true) :=
  ⟨ltInt_irrefl, ltInt_trans⟩

end EngineModel.Properties.C17
