/-
C11, schema 2.x (crate tables) — the stored database stays a well-formed Engine library.

`wfRaw` / `wfChains` (Db/V2Wf.lean) are the executable predicates the tie evaluates on the rows an
independent reader dumps from the real SQLite file after every step: Playlist and PlaylistEntity ids a key,
positive, within the AUTOINCREMENT counters; the nextListId / nextEntityId chains one acyclic list per key
covering all rows (walking back from the tail meets every row of the key exactly once); every parentListId
leads to a root through existing rows (parent ∈ live ∪ {0}, no cycle); titles valid and unique among siblings;
every PlaylistEntity row refers to an existing playlist and an existing track, no pair twice; track ids a key.
Here: every state reachable through the modelled API satisfies them.
The per-track derived columns of C11 are outside this part (track work-package).
-/
import Proofs.V2Run
import Proofs.V2WfConv

namespace EngineModel.Properties.C11V2
open EngineModel EngineModel.Db.Chain EngineModel.Db.V2 EngineModel.Spec

/-- The invariants are kept by every operation of the crate / track API … -/
theorem C11V2_step_preserves {S : Ord} {d : Db} (h : Inv S d) (ho : AllOwn d) (op : Db.V2.Op) (hapi : apiOp op = true) :
    Inv (ordNext S (absF d) op (step d op).2) (step d op).1 ∧ AllOwn (step d op).1 :=
  ⟨inv_step h op (memOp_of_apiOp hapi), allOwn_step h ho op hapi⟩

/-- … and imply the executable well-formedness predicate. -/
theorem C11V2_inv_wfRaw {S : Ord} {d : Db} (h : Inv S d) (ho : AllOwn d) : wfRaw d = true :=
  wfRaw_of_inv h ho

/-- reachable ⇒ WfRaw: after every history of the crate / track API from the empty library (hence after every
prefix of it) the raw tables are well-formed. -/
theorem C11V2_reachable_wfRaw (ops : List Db.V2.Op) (hapi : ops.all apiOp = true) :
    wfRaw (run Db.empty ops) = true := by
  obtain ⟨_, hI, ho⟩ := inv_allOwn_hist ops hapi
  exact wfRaw_of_inv hI ho

/-- What `wfRaw` rests on, in logical form: the chains are single acyclic lists covering all rows (from the
representation relation of C09: the walk from the tail returns a duplicate-free list containing exactly the ids
of the rows of the key), parents are live or 0 and the parent relation has no cycle, entries reference live
playlists and live tracks of the library's own database. -/
theorem C11V2_reachable_structure (ops : List Db.V2.Op) (hapi : ops.all apiOp = true) :
    let d := run Db.empty ops
    (∀ k, ∃ l, walkIds d.pl k = .ok l ∧ l.Nodup ∧ ∀ x, x ∈ l ↔ ∃ r ∈ d.pl, r.id = x ∧ r.key = k) ∧
    (∀ k, ∃ l, walkIds d.pe k = .ok l ∧ l.Nodup ∧ ∀ x, x ∈ l ↔ ∃ r ∈ d.pe, r.id = x ∧ r.key = k) ∧
    (∀ r ∈ d.pl, r.key = 0 ∨ r.key ∈ ids d.pl) ∧
    (∀ x, (absF d).isAncestor x x = false) ∧
    (∀ e ∈ d.pe, e.key ∈ ids d.pl ∧ e.val.track ∈ d.tracks ∧ e.val.uuid = 0) := by
  intro d
  obtain ⟨_, hI, ho⟩ := inv_allOwn_hist ops hapi
  have cov : ∀ {α : Type} {A : Int → List Int} {t : Table α}, R A t → ∀ k,
      ∃ l, walkIds t k = .ok l ∧ l.Nodup ∧ ∀ x, x ∈ l ↔ ∃ r ∈ t, r.id = x ∧ r.key = k := by
    intro α A t h k
    refine ⟨A k, walkIds_eq h k, h.nodup k, fun x => ⟨h.cover k x, ?_⟩⟩
    rintro ⟨r, hr, rfl, rfl⟩; exact h.mem r hr
  refine ⟨cov hI.ch.rk, cov hI.ch.re, ?_, hI.pl.wf.acyclic, ?_⟩
  · intro r hr
    by_cases h0 : r.key = 0
    · exact Or.inl h0
    · right
      rw [← absF_ids]
      exact hI.pl.wf.parent_live (rowCrate r) (mem_crates_of_row hr) r.key (by simp [rowCrate, parentOpt_of_ne h0])
  · intro e he
    have hu := ho (core e) (mem_cores.mpr ⟨e, he, rfl⟩)
    exact ⟨(hI.mem.live (core e) (mem_cores.mpr ⟨e, he, rfl⟩) hu).1, (hI.mem.live (core e) (mem_cores.mpr ⟨e, he, rfl⟩) hu).2, hu⟩

/-- Not only histories from the empty library: ANY state the executable check accepts — e.g. a library loaded from
disk whose dump passes `wfRaw` — satisfies the proof-level invariants, for the Spec state read off its tables
by the library's own walks.  Every per-operation theorem of C07V2 / C08V2 / C09 (stated for `Inv` / `ChInv` /
`PlInv`) therefore applies to it. -/
theorem C11V2_wfRaw_gives_invariants (d : Db) (h : wfRaw d = true) : Inv (readOrd d) d :=
  inv_of_wfRaw h

/-- … and well-formedness is kept along every history of the crate / track API from such a state (all of whose
entries belong to the library's own database). -/
theorem C11V2_wellformed_stays_wellformed (d : Db) (h : wfRaw d = true) (hown : d.pe.all (fun e => e.val.uuid == 0) = true)
    (ops : List Db.V2.Op) (hapi : ops.all apiOp = true) : wfRaw (run d ops) = true := by
  have ho : AllOwn d := by
    intro c hc
    obtain ⟨r, hr, rfl⟩ := mem_cores.mp hc
    rw [List.all_eq_true] at hown
    simpa [core] using hown r hr
  obtain ⟨_, hI, ho'⟩ := inv_allOwn_run (inv_of_wfRaw h) ho ops hapi
  exact wfRaw_of_inv hI ho'

/- Full statement for the chain part (false, see `C11V2_chains_counterexample`):
   ∀ ops, wfChains (run Db.empty ops) = true. -/
/-- The chain part alone also holds under the table-level playlist_entity_table operations (which may address
playlists and tracks that do not exist), as long as the track ids passed to add_back are positive. -/
theorem C11V2_reachable_wfChains_partial (ops : List Db.V2.Op) (hok : ops.all okOp = true) :
    wfChains (run Db.empty ops) = true := by
  obtain ⟨_, _, h⟩ := chInv_hist ops hok
  exact wfChains_of_chInv h

/-- … and fails without that restriction (known finding, findings/C09.json: the schema's delete trigger is
declared `WHEN OLD.trackId > 0`). -/
theorem C11V2_chains_counterexample :
    wfChains (run Db.empty [.peAddBack 3 2 0 false, .peAddBack 3 3 0 false, .peAddBack 3 0 0 false, .peRemove 3 3]) = false := by
  decide

/-! ### non-vacuity: a history with a deep forest, re-parenting, contents and removals -/

def sampleOps : List Db.V2.Op :=
  [.createRoot [97], .createSub 1 [98], .createSub 2 [99], .createRoot [100], .createTrack, .createTrack,
   .addTrack 3 1, .addTrack 3 2, .addTrack 4 2, .setParent 4 (some 3), .removeTrack 1, .createRootAfter [101] 1,
   .removeCrate 2, .createSub 5 [97]]

example : sampleOps.all apiOp = true := by decide
example : wfRaw (run Db.empty sampleOps) = true := by decide
example : (run Db.empty (sampleOps.take 12)).pl.map (fun r => (r.id, r.key, r.next)) = [(1, 0, 5), (2, 1, 0), (3, 2, 0), (4, 3, 0), (5, 0, 0)] := by decide
/-- a state that was NOT built by a history from the empty library (ids 7, 9, 12; a foreign entry): accepted by
`wfRaw`, hence covered by `C11V2_wfRaw_gives_invariants` -/
def loaded : Db := ⟨[⟨7, 0, 9, [97]⟩, ⟨9, 0, 0, [98]⟩, ⟨12, 9, 0, [99]⟩], 15, [⟨4, 9, 6, ⟨3, 0⟩⟩, ⟨6, 9, 0, ⟨3, 5⟩⟩], 8, [3, 5], 5⟩
example : wfRaw loaded = true := by decide
/-- `wfRaw` is not trivially true: it rejects a table with a dangling successor. -/
example : wfRaw { Db.empty with pl := [⟨1, 0, 7, [97]⟩], plSeq := 1 } = false := by decide

end EngineModel.Properties.C11V2
