/-
C15 on states left behind by FAILED calls, schema 1.x TRACKS (all eleven 1.x versions).

Model (`Api/FaultsTracksV1.lean`): `callF o d op plan` executes `create_track` / `track::update` / any `set_*` /
`remove_track` as its statement program (`TracksV1/Stmts.topStmts`: the program C14 proves all-or-nothing,
`C14_tracks_v1_program` / `C14_tracks_v1_shape`) on the connection of `Spec/Txn.lean` under a fault plan; `runF` is a
history of such calls.  The programs run over the same tables `TracksV1.Db` as the C15 API model
(`Api/C15TracksV1.step`, `GuardedTracksV1.stepG`), so no projection is needed: the composition is

    all-or-nothing (C14) ⇒ the tables after a failed call are the tables before ⇒ `DbInv` survives ⇒ `step_defined`.

LIMIT (C14's, unchanged): the 1.x track model has no statement level — a call is ONE write (the joint effect of its
INSERT OR REPLACE / UPDATE statements) inside the scope the C++ gives it, so the fault positions of this model are
BEGIN, that write and COMMIT; a fault BETWEEN two statements of a scoped call is covered by the scope table
(`Field.scoped`, compared with the real skeleton by C14's tie) and by the fault stream on the harness, not by a
statement-level theorem.  `CeilInRange o` is the one law of double arithmetic the 1.x setters need (a theorem for the
bit-exact `ceilBits`: `v1t_C15_ceil_exact`).
-/
import Proofs.C15FaultsTracksV1
import Properties.C15TracksV1

namespace EngineModel.Properties.C15FaultsTracksV1
open EngineModel EngineModel.TracksV1 EngineModel.Api.C15TracksV1 EngineModel.Api.GuardedTracksV1
open EngineModel.Api.FaultsTracksV1 EngineModel.Spec.Txn EngineModel.Spec.Stmts
open EngineModel.Proofs.C15FaultsTracksV1
open Fl (FOps)

/-- Whatever makes the statement program of a 1.x track call raise (a fault at any of its positions, or the write
refusing: the call throws by itself), the connection is afterwards at rest on exactly the prior tables. -/
theorem v1t_C15_failed_call_restores (o : FOps) (d : Db) (op : TOp) (fault : Option Nat) (auto : Bool)
    (hr : (call fault auto (topStmts o op) d).raised = true) : (call fault auto (topStmts o op) d).conn = Conn.idle d :=
  raised_restores o d op fault auto hr

/-- A fault position inside the call: the call throws and the next call starts from exactly the prior tables. -/
theorem v1t_C15_fault_inside_throws (o : FOps) (d : Db) (op : TOp) (p : Plan) (hk : p.k < positions o op)
    (hu : ∀ u, (stepG o d (toOp op)).2 ≠ .ub u) : callF o d op (some p) = (d, .throw .sqlite_error) :=
  callF_fault_inside o d op p hk hu

/-- One call under ANY plan, on ANY tables: prior tables or the fault-free call's; the fault-free outcome or the
failing statement's exception. -/
theorem v1t_C15_call_under_faults (o : FOps) (hc : CeilInRange o) (d : Db) (op : TOp) (plan : Option Plan) :
    ((callF o d op plan).1 = d ∨ (callF o d op plan).1 = (step o d (toOp op)).1) ∧
    ((callF o d op plan).2 = (step o d (toOp op)).2 ∨ (callF o d op plan).2 = .throw .sqlite_error) :=
  ⟨callF_state o hc d op plan, callF_outcome o hc d op plan⟩

/-- **C14 on this semantics**: a call — under any plan or none — that does not return normally leaves the tables
EQUAL to the prior ones, hence every observation (`stepG` of any operation: `snapshot()`, every getter, `is_valid()`)
and every later call is what it would have been.  Any tables. -/
theorem v1t_C14_failed_call_unchanged (o : FOps) (hc : CeilInRange o) (d : Db) (op : TOp) (plan : Option Plan)
    (hfail : ¬ ∃ v, (callF o d op plan).2 = .ok v) :
    (callF o d op plan).1 = d ∧ (∀ q, stepG o (callF o d op plan).1 q = stepG o d q) ∧
    (∀ op' plan', callF o (callF o d op plan).1 op' plan' = callF o d op' plan') := by
  have h := callF_failed_unchanged o hc d op plan hfail
  refine ⟨h, ?_, ?_⟩ <;> intros <;> rw [h]

/-- The invariant of the tracks-1.x package survives every history with failures, from any tables satisfying it. -/
theorem v1t_C15_after_faults_inv (o : FOps) (hc : CeilInRange o) {d : Db} (hd : DbInv d) (hist : List FCall) :
    DbInv (runF o d hist) :=
  inv_runF o hc hist hd

/-- **Reachability**: the tables after any history with failures are the tables the FAULT-FREE C15 model reaches by a
sub-list of the history (the calls that took effect), in order. -/
theorem v1t_C15_after_faults_reachable (o : FOps) (hc : CeilInRange o) (d : Db) (hist : List FCall) :
    ∃ l : List Op, l.Sublist (hist.map fun c => toOp c.1) ∧ runF o d hist = run o d l :=
  runF_reachable o hc hist d

/-- **C15 after failed calls, 1.x tracks**: for ALL schema versions × ALL histories of `create_track` / `update` /
`set_*` / `remove_track` (any arguments) × ALL fault plans from the empty library: no call of the history has
undefined behaviour; afterwards every public operation of the guarded model (`snapshot()`, every getter at any index,
`is_valid()`, `id()`, copies, every mutating call), the whole `database` / `track` alphabet, and every further
mutating call under any fault plan is a value or an exception. -/
theorem v1t_C15_after_faults_no_ub (o : FOps) (hc : CeilInRange o) (s : Schema) (hist : List FCall) :
    (∀ r ∈ outcomesF o ⟨s, []⟩ hist, ∀ u, r ≠ .ub u) ∧
    (∀ op u, (stepG o (runF o ⟨s, []⟩ hist) op).2 ≠ .ub u) ∧
    (∀ c u, (callG o (runF o ⟨s, []⟩ hist) c).2 ≠ .ub u) ∧
    (∀ op plan u, (callF o (runF o ⟨s, []⟩ hist) op plan).2 ≠ .ub u) := by
  have hI := inv_runF o hc hist (dbInv_empty s)
  refine ⟨outcomesF_defined o hc hist (dbInv_empty s), ?_, ?_, ?_⟩
  · intro op u; rw [stepG_eq o hc]; exact step_defined o hc _ hI op u
  · exact fun c u => callG_defined o hc _ hI c u
  · exact fun op plan u => callF_defined o hc hI op plan u

/-! ### non-vacuity -/

def exOps : FOps := C15TracksV1.exOps
example : CeilInRange exOps := ceilInRange_of_bounded (fun _ h => h)
/-- scoped calls have 3 fault positions (BEGIN, the write, COMMIT), the eleven single-statement setters 1 -/
example : positions exOps (.remove 1) = 3 ∧ positions exOps (.create Snap.empty) = 3 ∧
    positions exOps (.set 1 .title none) = 1 ∧ positions exOps (.set 1 .bpm none) = 3 := by decide

/-- a history with failures on 1.17-style tables: a fault on the BEGIN of a creation, the creation, a fault on the
COMMIT of `set_bpm`, on the single statement of `set_title`, a position beyond the call (does not fire), a setter that
throws by itself under a plan, a fault on the write of `remove_track`, the removal, `is_valid` afterwards -/
def exHist : List FCall :=
  [(.create C15TracksV1.exSnap, some ⟨0, false⟩), (.create C15TracksV1.exSnap, none),
   (.set 1 .bpm (some 0x405e000000000000), some ⟨2, true⟩), (.set 1 .title (some [90]), some ⟨0, false⟩),
   (.set 1 .title (some [90]), some ⟨5, false⟩), (.set 1 (.hotCueAt 8) none, some ⟨7, false⟩),
   (.remove 1, some ⟨1, false⟩), (.remove 1, none)]

example : (outcomesF exOps (⟨.s1_15_0, []⟩ : Db) exHist).map Res.isOk = [false, true, false, false, true, false, false, true] := by
  decide +kernel
example : void (stepG exOps (runF exOps (⟨.s1_15_0, []⟩ : Db) (exHist.take 7)) (.isValid 1)).2 = .ok () ∧
    (runF exOps (⟨.s1_15_0, []⟩ : Db) (exHist.take 7)).tracks.length = 1 ∧
    (runF exOps (⟨.s1_15_0, []⟩ : Db) exHist).tracks.length = 0 := by decide +kernel

end EngineModel.Properties.C15FaultsTracksV1
