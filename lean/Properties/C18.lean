/-
Property C18 — a row written through the schema-2.x table API reads back as written.

Model: `EngineModel/Table/{Core,Store,Track}.lean`; the INSERT / UPDATE / SELECT
binding tables and the accessor tables are those of `EngineModel/Gen/Bindings.lean`,
regenerated from the C++ source on every run.  Spec: `normRowT` (what `get` must
return after `add` / `update`), `normSetT` (after `set_<member>`), `fromAcc`
(what an accessor value denotes), written from the public headers and the
schema DDL (`Table/Names.lean`).

Theorems are stated for *any* statements satisfying the decidable alignment
predicate `alignedT` (every member bound to its own column with the conversion
of its declared type, none twice, none missing) and then closed for the
statements of the current source by `decide` (`C18_track_bindings_aligned`).
-/
import Proofs.TableTrack

namespace EngineModel.Properties.C18
open EngineModel EngineModel.Table

/-- The binding tables regenerated from the current source are aligned with the
Spec on each of the seven 2.x schema versions (three distinct column lists). -/
theorem C18_track_bindings_aligned :
    ∀ s : Schema2, ∃ st, genStmts s = some st ∧ alignedT s st = true := by
  intro s
  cases s <;> exact ⟨_, rfl, by decide⟩

/-- **Round trip, from alignment.**  On any state whose ids are bounded by the
AUTOINCREMENT counter, if `add r` succeeds with id `i` then `get i` returns the
row written, in normal form (`normRowT`: the id assigned, time points in whole
seconds, members without a column at their constants, the origin pair fixed up
when left unset). -/
theorem C18_track_roundtrip {s : Schema2} {st : TStmts} (ha : alignedT s st = true)
    {d d' : TDb} (hwf : idsBelow .id d.rows d.seq) {r : Row TField} (hr : wtRowT r) {i : Int}
    (h : tAdd st d r = (d', .ok i)) :
    tGet st d' i = .ok (some (normRowT s d.uuid none i r)) :=
  track_add_get ha hwf hr h

/-- The round trip for the statements of the current source, on every 2.x schema. -/
theorem C18_track_roundtrip_current (s : Schema2) :
    ∃ st, genStmts s = some st ∧
      ∀ {d d' : TDb}, idsBelow .id d.rows d.seq → ∀ {r : Row TField}, wtRowT r → ∀ {i : Int},
        tAdd st d r = (d', .ok i) → tGet st d' i = .ok (some (normRowT s d.uuid none i r)) := by
  obtain ⟨st, h1, h2⟩ := C18_track_bindings_aligned s
  exact ⟨st, h1, fun hwf _ hr _ h => track_add_get h2 hwf hr h⟩

/-! ### non-vacuity -/

/-- A track row with every optional absent. -/
def exRow : Row TField := fun f =>
  match f.ty with
  | .i64 => .int 0
  | .oi64 | .oi32 => .oint none
  | .str => .str (if f = .path then [112] else [])
  | .ostr => .ostr none
  | .odbl => .oreal none
  | .bool => .bool false
  | .time | .timeText => .time 1500000000123456789
  | .otime => .otime none
  | .blob .track => .blob (.track ⟨0, 0, 0, 0, 0, 0⟩ [])
  | .blob .ovw => .blob (.ovw ⟨0, [], [0, 0, 0]⟩ [])
  | .blob .beat => .blob (.beat ⟨0, 0, 0, [], []⟩ [])
  | .blob .cues => .blob (.cues ⟨[], 0, false, 0⟩ [])
  | .blob .loops => .blob (.loops [] [])

example : wtRowT exRow := by intro f; cases f <;> rfl

/-- The hypotheses of `C18_track_roundtrip` are satisfiable: the row is accepted on the empty table of 2.21.2. -/
example : ∃ st, genStmts .s2_21_2 = some st ∧ (tAdd st TDb.empty exRow).2 = .ok 1 :=
  ⟨_, rfl, by decide⟩

example : idsBelow TCol.id TDb.empty.rows TDb.empty.seq := by intro r hr; cases hr

end EngineModel.Properties.C18
