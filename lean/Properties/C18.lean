/-
Property C18 — a row written through the schema-2.x table API reads back as written.

Model: `EngineModel/Table/{Core,Store,Track}.lean`; the INSERT / UPDATE / SELECT
binding tables and the accessor tables are those of `EngineModel/Gen/Bindings.lean`,
regenerated from the C++ source on every run.  Spec: `normRowT` (what `get` must
return after `add` / `update`), `normSetT` (after `set_<member>`), `fromAcc`
(what an accessor value denotes), written from the public headers and the
schema DDL (`Table/Names.lean`).

Theorems are stated for *any* statements satisfying the decidable alignment
predicate `alignedT` (every member bound to its own column with the conversion
of its declared type, none twice, none missing; every accessor on its member's
column with its member's type and schema guard; remove() checking the row count)
and are closed for the statements of the current source by `decide`
(`C18_track_bindings_aligned`).  `TDb.Wf` is the invariant of reachable states
(`C18_track_histories`): ids bounded by the AUTOINCREMENT counter, every column
typed (`rowTypedT`: timestamp columns within the range `to_time_point` converts,
blob columns of their own kind), the database clock a representable time point;
on such states `get` and every accessor are defined (`C18_track_get_defined`,
`C18_track_no_ub`) — no theorem below assumes it.  `wtRowT` / `wtOp` say that
argument values have their declared C++ types (fixed-width integer ranges) —
they restrict nothing a C++ caller can pass.
-/
import Proofs.TableTrackWf
import Proofs.TableTrackQueries
import Proofs.TableLists
import Proofs.TableListsWf
import Proofs.TableEntity
import Proofs.TableListsTyped
import Proofs.TableInfo

namespace EngineModel.Properties.C18
open EngineModel EngineModel.Table

/-- The binding tables regenerated from the current source are aligned with the
Spec on each of the seven 2.x schema versions (three distinct column lists). -/
theorem C18_track_bindings_aligned :
    ∀ s : Schema2, ∃ st, genStmts s = some st ∧ alignedT s st = true := by
  intro s
  cases s <;> exact ⟨_, rfl, by decide⟩

/-- **Round trip, from alignment.**  If `add r` succeeds with id `i` then `get i`
returns the row written, in normal form (`normRowT`: the id assigned, time
points in whole seconds, members without a column at their constants, the
origin pair fixed up when left unset). -/
theorem C18_track_roundtrip {s : Schema2} {st : TStmts} (ha : alignedT s st = true)
    {d d' : TDb} (hwf : d.Wf) {r : Row TField} (hr : wtRowT r) {i : Int}
    (h : tAdd st d r = (d', .ok i)) :
    tGet st d' i = .ok (some (normRowT s d.uuid none i r)) :=
  track_add_get ha hwf.ids hr h

/-- `add` leaves every other row as it was. -/
theorem C18_track_add_frame {s : Schema2} {st : TStmts} (ha : alignedT s st = true) {d d' : TDb}
    {r : Row TField} {i : Int} (h : tAdd st d r = (d', .ok i)) (j : Int) (hj : j ≠ i) :
    findRow .id d'.rows j = findRow .id d.rows j :=
  track_add_frame ha h j hj

/-- **Update.**  After `update r` of an existing row, `get r.id` returns the row
written, in normal form; the last-edit time is the database's stamp on 2.20.3+
(the hypothesis on the clock says the stamp is representable as a time point);
every other row and the counters are untouched. -/
theorem C18_track_update {s : Schema2} {st : TStmts} (ha : alignedT s st = true)
    {d d' : TDb} {r : Row TField} (hr : wtRowT r) {i : Int} (hid : r .id = .int i)
    {old : Raw TCol} (hex : findRow .id d.rows i = some old)
    (hclk : in64 (d.clock * 1000000000) = true)
    (h : tUpdate s st d r = (d', .ok ())) :
    tGet st d' i = .ok (some (normRowT s d.uuid (if s.ge .s2_20_3 then some d.clock else none) i r))
    ∧ (∀ j, j ≠ i → findRow .id d'.rows j = findRow .id d.rows j)
    ∧ d'.seq = d.seq ∧ d'.uuid = d.uuid ∧ d'.clock = d.clock :=
  track_update_get ha hr hid hex hclk h

/-- **`get` is defined on every well-formed state** (hence on every state
reachable through the API, `C18_track_histories`): `nullopt` for an id with no
row, a row otherwise — never undefined behaviour (`to_time_point` overflow),
never an exception (`from_blob` of a foreign blob). -/
theorem C18_track_get_defined {s : Schema2} {st : TStmts} (ha : alignedT s st = true) {d : TDb} (hwf : d.Wf) (i : Int) :
    (findRow .id d.rows i = none ∧ tGet st d i = .ok none) ∨
    (∃ raw g, findRow .id d.rows i = some raw ∧ tGet st d i = .ok (some g)) :=
  track_get_defined ha hwf i

/-- **No operation of `track_table` has undefined behaviour on a well-formed
state**, whatever its arguments (ids of nonexistent rows, ill-typed rows,
unencodable blobs …). -/
theorem C18_track_no_ub {s : Schema2} {st : TStmts} (ha : alignedT s st = true) {d : TDb} (hwf : d.Wf) (u : Ub) :
    (∀ r, (tAdd st d r).2 ≠ .ub u) ∧ (∀ r, (tUpdate s st d r).2 ≠ .ub u) ∧
    (∀ i, (tRemove st d i).2 ≠ .ub u) ∧ (∀ f i v, (tSetc s st d f i v).2 ≠ .ub u) ∧
    (∀ i, tGet st d i ≠ .ub u) ∧ (∀ f i, tGetc s st d f i ≠ .ub u) :=
  ⟨fun r => tAdd_no_ub st d r u, fun r => tUpdate_no_ub s st d r u, fun i => tRemove_no_ub st d i u,
   fun f i v => tSetc_no_ub s st d f i v u, fun i => tGet_no_ub ha hwf i u, fun f i => tGetc_no_ub ha hwf f i u⟩

/-- **Per-column getter.**  On an existing row of a well-formed state `get` is
defined, and the getter of a member the schema has a column for denotes
(`fromAcc`) the member of the row `get` returns; on a schema without the column
it reports `unsupported_operation`. -/
theorem C18_track_column_get {s : Schema2} {st : TStmts} (ha : alignedT s st = true) {d : TDb} (hwf : d.Wf) {i : Int}
    {raw : Raw TCol} (hfind : findRow .id d.rows i = some raw) {f : TField} (hf : f ≠ .id) :
    ∃ g, tGet st d i = .ok (some g) ∧
      (if f.present s then ∃ v, tGetc s st d f i = .ok v ∧ fromAcc f v = g f
       else tGetc s st d f i = .throw (.dj "unsupported_operation")) :=
  track_getc_wf ha hwf hfind hf

/-- **Per-column setter changes that column only.**  If `set_<f>(i, v)` succeeds
on a well-formed state then the row existed, `get i` was defined on it (`g0`),
and afterwards `get i` returns `g0` with member `f` replaced by `v` and the
database-maintained members re-derived (`normSetT`); every other row and the
counters are untouched. -/
theorem C18_track_column_set_frame {s : Schema2} {st : TStmts} (ha : alignedT s st = true)
    {d d' : TDb} (hwf : d.Wf) {i : Int} {f : TField} (hf : f ≠ .id) {v : FVal}
    (hv : wtv f.accTy v = true) (h : tSetc s st d f i v = (d', .ok ())) :
    ∃ g0, tGet st d i = .ok (some g0)
    ∧ tGet st d' i = .ok (some (normSetT s d.uuid d.clock f v g0))
    ∧ (∀ j, j ≠ i → findRow .id d'.rows j = findRow .id d.rows j)
    ∧ d'.seq = d.seq ∧ d'.uuid = d.uuid ∧ d'.clock = d.clock :=
  track_setc_get_wf ha hwf hf hv h

/-- The Spec of a setter, unfolded: members other than `f`, the origin pair and
the last-edit time are exactly what they were. -/
theorem C18_track_set_touches_one_member (s : Schema2) (uuid : Val) (clock : Int) (f : TField) (v : FVal)
    (r0 : Row TField) (g : TField) (h1 : g ≠ f) (h2 : g ≠ .origin_track_id)
    (h3 : g ≠ .origin_database_uuid) (h4 : g ≠ .last_edit_time) :
    normSetT s uuid clock f v r0 g = r0 g := by
  unfold normSetT
  rw [stampRowT_other _ _ (Or.inl h4), fixRowT_other _ _ h2 h3]
  simp [setMember, h1]

/-- **Missing rows.**  Every column accessor and `remove` naming an id with no
row reports an error and leaves the table as it was. -/
theorem C18_track_missing_row_errors {s : Schema2} {st : TStmts} (ha : alignedT s st = true) {d : TDb} {i : Int}
    (hmiss : findRow .id d.rows i = none) :
    (∀ f, f ≠ .id → ∃ e, tGetc s st d f i = .throw e) ∧
    (∀ f v, f ≠ .id → ∃ e, tSetc s st d f i v = (d, .throw e)) ∧
    tRemove st d i = (d, .throw .invalid_argument) :=
  track_missing_row ha hmiss

/-- **Histories.**  The invariant the theorems above assume holds after every
sequence of add / update / set_<member> / remove with well-typed arguments,
from any state that satisfies it (in particular the empty table). -/
theorem C18_track_histories {s : Schema2} {st : TStmts} (ha : alignedT s st = true) {d : TDb} (hwf : d.Wf)
    (ops : List TOp) (hops : ∀ op ∈ ops, wtOp op) : (tRun s st d ops).Wf :=
  wf_run ha hwf ops hops

/-- The round trip after any history, for the statements of the current source:
`get` after `add` returns the row written, and `get` of any id is defined. -/
theorem C18_track_roundtrip_current (s : Schema2) :
    ∃ st, genStmts s = some st ∧
      ∀ (uuid : Val) (clock : Int), uuidTyped uuid = true → in64 (clock * 1000000000) = true →
      ∀ (ops : List TOp), (∀ op ∈ ops, wtOp op) →
        let d := tRun s st { TDb.empty with uuid := uuid, clock := clock } ops
        (∀ j, ∃ o, tGet st d j = .ok o) ∧
        ∀ (r : Row TField), wtRowT r → ∀ (d' : TDb) (i : Int),
          tAdd st d r = (d', .ok i) → tGet st d' i = .ok (some (normRowT s d.uuid none i r)) := by
  obtain ⟨st, h1, h2⟩ := C18_track_bindings_aligned s
  refine ⟨st, h1, ?_⟩
  intro uuid clock hu hclk ops hops d
  have hwf := wf_run h2 (TDb.empty_wf uuid clock hu hclk) ops hops
  refine ⟨fun j => ?_, fun r hr d' i h => track_add_get h2 hwf.ids hr h⟩
  rcases track_get_defined h2 hwf j with ⟨_, h⟩ | ⟨_, g, _, h⟩
  · exact ⟨_, h⟩
  · exact ⟨_, h⟩

/-! ### exists / all_ids / find_id_by_path -/

/-- **exists.**  `exists(id)` is true exactly when `get(id)` returns a row, and
exactly for the ids `all_ids()` lists. -/
theorem C18_track_exists {s : Schema2} {st : TStmts} (ha : alignedT s st = true) {d : TDb} (hwf : d.Wf) (i : Int) :
    (tExists d i = true ↔ ∃ g, tGet st d i = .ok (some g)) ∧ (tExists d i = true ↔ i ∈ tIds d) :=
  ⟨tExists_iff_get ha hwf i, tExists_iff_ids d i⟩

/-- **all_ids.**  `add` appends the assigned id, `remove` deletes the id, `update`
and every setter leave the id list as it was. -/
theorem C18_track_all_ids {s : Schema2} {st : TStmts} (ha : alignedT s st = true) (d : TDb) :
    (∀ r d' i, tAdd st d r = (d', .ok i) → tIds d' = tIds d ++ [i]) ∧
    (∀ i, tIds (tRemove st d i).1 = (tIds d).filter (fun j => !(j == i))) ∧
    (∀ r, tIds (tUpdate s st d r).1 = tIds d) ∧
    (∀ f i v, f ≠ .id → tIds (tSetc s st d f i v).1 = tIds d) :=
  ⟨fun _ _ _ h => tIds_add ha h, fun i => tIds_remove st d i, fun r => tIds_update ha d r,
   fun _ i v hf => tIds_setc ha d hf i v⟩

/-- **find_id_by_path.**  The path just written finds the id just assigned; in
general it answers an id exactly when some row holds that path, and then the id
of such a row. -/
theorem C18_track_find_id_by_path {s : Schema2} {st : TStmts} (ha : alignedT s st = true) (d : TDb) (p : Bytes) :
    (∀ r d' i, tAdd st d r = (d', .ok i) → r .path = .str p → tFindByPath d' p = some i) ∧
    (tFindByPath d p = none ↔ ∀ raw ∈ d.rows, raw .path ≠ .text p) ∧
    (∀ i, tFindByPath d p = some i → ∃ raw ∈ d.rows, rowId .id raw = i ∧ raw .path = .text p) :=
  ⟨fun _ _ _ h hp => tFind_add ha h hp, (tFind_spec d p).1, (tFind_spec d p).2⟩

/-! ## playlist_table and playlist_entity_table -/

/-- The list-table statements regenerated from the current source are aligned with the Spec. -/
theorem C18_list_bindings_aligned : alignedL genLStmts = true := by decide

/-- Full statement (false of the code for last-edit times in the first second of
the time-point range, see `C18_playlist_last_edit_floor_counterexample`):
`∀ d r i, (every member of r has its C++ type) → pAdd st d r = (d', .ok i) →
   pGet st d' i = .ok (some (normRowP i r))`.

**Playlist round trip (partial).**  `get` after a successful `add r` returns the
row written: the id assigned, the last-edit time in whole seconds (it is stored
as text `YYYY-MM-DD HH:MM:SS`).  Restriction: `wtRowP` demands, beyond the C++
types, that the floor of the last-edit time to whole seconds is a representable
time point (decidable: `wtv .timeText`). -/
theorem C18_playlist_roundtrip_partial {st : LStmts} (ha : alignedL st = true) {d d' : LDb}
    (hwf : idsBelow .id d.pl d.plSeq) {r : Row PField} (hr : wtRowP r) {i : Int}
    (h : pAdd st d r = (d', .ok i)) :
    pGet st d' i = .ok (some (normRowP i r)) :=
  playlist_add_get ha hwf hr h

/-- **Playlist update (partial; same restriction).**  `get` after a successful
`update r` returns the row written. -/
theorem C18_playlist_update_partial {st : LStmts} (ha : alignedL st = true) {d d' : LDb}
    {r : Row PField} (hr : wtRowP r) {i : Int} (hid : r .id = .int i)
    (h : pUpdate st d r = (d', .ok ())) :
    pGet st d' i = .ok (some (normRowP i r)) :=
  playlist_update_get ha hr hid h

/-- `remove` of a playlist id with no row reports an error and changes nothing. -/
theorem C18_playlist_missing_row_errors {st : LStmts} (ha : alignedL st = true) {d : LDb} {i : Int}
    (h : findRow .id d.pl i = none) : pRemove st d i = (d, .throw .invalid_argument) :=
  playlist_remove_missing ha h

/-- **Entity round trip (full).**  After `add_back r` inserted a row — no entry of
the same (list, track, database uuid) triple existed — the three-key
`get(list_id, track_id, database_uuid)` returns the row written: the id
assigned, no next entity. -/
theorem C18_entity_roundtrip {st : LStmts} (ha : alignedL st = true) {d d' : LDb}
    {r : Row EField} (hr : wtRowE r) {dup : Bool} {i l tr : Int} {u : Bytes}
    (hl : r .list_id = .int l) (ht : r .track_id = .int tr) (hu : r .database_uuid = .str u)
    (hnew : noEntry3 d.pe l tr u) (h : eAddBack st d r dup = (d', .ok i)) :
    eGet3 st d' l tr u = .ok (some (normRowE i r)) :=
  entity_add_get3 ha hr hl ht hu hnew h

/-- **`add_back` of an entry that already exists writes nothing**: with
`throw_if_duplicate` it reports `invalid_argument`, without it it answers the id
of the existing entry; the table is unchanged either way. -/
theorem C18_entity_add_duplicate {st : LStmts} {d : LDb} {r : Row EField} {l tr : Int} {u : Bytes}
    (hid : r .id = .int 0)
    (hl : r .list_id = .int l) (ht : r .track_id = .int tr) (hu : r .database_uuid = .str u)
    (hex : ¬ noEntry3 d.pe l tr u) :
    eAddBack st d r true = (d, .throw .invalid_argument) ∧
    ∃ x ∈ d.pe, x .listId = .int l ∧ x .trackId = .int tr ∧ x .databaseUuid = .text u ∧
      eAddBack st d r false = (d, .ok (rowId .id x)) :=
  entity_add_duplicate hid hl ht hu hex

/-- Full statement for the two-key `get` (false of the code, see the counterexample below):
`∀ d r dup i, eAddBack st d r dup = (d', .ok i) → (the row was inserted) →
   eGet st d' (list of r) (track of r) = .ok (some (normRowE i r))`.

**Entity round trip through `get(list_id, track_id)` — the greatest uuid wins.**
`get(list_id, track_id)` cannot name the database a track belongs to; it returns
the entry with the greatest database uuid (unsigned byte order).  So it returns
the row just written exactly under the restriction `hlow`: every existing entry
of the same (list, track) pair has a strictly smaller uuid. -/
theorem C18_entity_roundtrip_greatest_uuid {st : LStmts} (ha : alignedL st = true) {d d' : LDb}
    {r : Row EField} (hr : wtRowE r) {dup : Bool} {i l tr : Int} {u : Bytes}
    (hl : r .list_id = .int l) (ht : r .track_id = .int tr) (hu : r .database_uuid = .str u)
    (hlow : ∀ x ∈ d.pe, (x .listId == .int l && x .trackId == .int tr) = true → bytesLt (uuidOf x) u = true)
    (h : eAddBack st d r dup = (d', .ok i)) :
    eGet st d' l tr = .ok (some (normRowE i r)) :=
  entity_add_get_greatest ha hr hl ht hu hlow h

/-- **What `get(list_id, track_id)` returns, on any state**: `nullopt` exactly
when the pair has no entry; otherwise the row read from an entry of the pair
whose database uuid no other entry of the pair exceeds. -/
theorem C18_entity_get_greatest_uuid (st : LStmts) (d : LDb) (l tr : Int) :
    (eGet st d l tr = .ok none ↔ ∀ x ∈ d.pe, ¬ ((x .listId == .int l && x .trackId == .int tr) = true)) ∧
    (∀ g, eGet st d l tr = .ok (some g) →
      ∃ raw ∈ d.pe, raw .listId = .int l ∧ raw .trackId = .int tr ∧ readRow raw st.eSel = .ok g ∧
        ∀ x ∈ d.pe, (x .listId == .int l && x .trackId == .int tr) = true →
          bytesLt (uuidOf raw) (uuidOf x) = false) :=
  entity_get_greatest st d l tr

/-- **Entity round trip (partial; special case of the greatest-uuid theorem).**
Proved under the explicit restriction `noEntry`: no entry of the same
(list, track) pair exists yet. -/
theorem C18_entity_roundtrip_partial {st : LStmts} (ha : alignedL st = true) {d d' : LDb}
    {r : Row EField} (hr : wtRowE r) {dup : Bool} {i l tr : Int}
    (hl : r .list_id = .int l) (ht : r .track_id = .int tr)
    (hnone : noEntry d.pe l tr) (h : eAddBack st d r dup = (d', .ok i)) :
    eGet st d' l tr = .ok (some (normRowE i r)) :=
  entity_add_get ha hr hl ht hnone h

/-- **`remove(list_id, entity_id)` is about the PAIR.**  The translated WHERE
clause is aligned only if it names both `listId ← list_id` and `id ← entity_id`
(`alignedLext`); then `remove` naming a pair for which no row has that list AND
that id — in particular the id of an entity of another list — reports
`invalid_argument` and changes nothing. -/
theorem C18_entity_missing_row_errors {st : LStmts} (ha : alignedL st = true) {d : LDb} {l e : Int}
    (h : ∀ x ∈ d.pe, ¬ (x .listId = .int l ∧ x .id = .int e)) :
    eRemove st d l e = (d, .throw .invalid_argument) :=
  entity_remove_missing ha h

/-- **get_for_list.**  Every row it returns is the aligned read of an entry of
that list; and on a list without entries, the list read back after `add_back r`
is exactly the row written. -/
theorem C18_entity_get_for_list {st : LStmts} (ha : alignedL st = true) (d : LDb) (l : Int) :
    (∀ gs, eGetForList st d l = .ok gs →
      ∀ g ∈ gs, ∃ raw ∈ d.pe, raw .listId = .int l ∧ readRow raw st.eSelList = .ok g) ∧
    (∀ (r : Row EField) (dup : Bool) (i tr : Int) (u : Bytes) (d' : LDb), wtRowE r →
      r .list_id = .int l → r .track_id = .int tr → r .database_uuid = .str u → 0 ≤ d.peSeq →
      (∀ x ∈ d.pe, ¬ ((x .listId == .int l) = true)) → eAddBack st d r dup = (d', .ok i) →
      eGetForList st d' l = .ok [normRowE i r]) :=
  ⟨fun _ h => entity_list_sound h,
   fun _ _ _ _ _ _ hr hl ht hu hseq hempty h => entity_list_single ha hr hl ht hu hseq hempty h⟩

/-- **Histories (list tables).**  The invariant the playlist round trip assumes
holds after every sequence of playlist add / update / remove and entity
add_back / remove / clear, from any state that satisfies it. -/
theorem C18_list_histories {st : LStmts} (ha : alignedL st = true) {d : LDb} (hwf : d.Wf) (ops : List LOp) :
    (lRun st d ops).Wf :=
  wf_lRun ha hwf ops

/-- The playlist round trip after any history from the empty tables, for the
statements of the current source (partial: same restriction as above). -/
theorem C18_playlist_roundtrip_current_partial (ops : List LOp) (r : Row PField) (hr : wtRowP r) (d' : LDb) (i : Int)
    (h : pAdd genLStmts (lRun genLStmts LDb.empty ops) r = (d', .ok i)) :
    pGet genLStmts d' i = .ok (some (normRowP i r)) :=
  playlist_add_get C18_list_bindings_aligned (wf_lRun C18_list_bindings_aligned LDb.empty_wf ops) hr h

/-- **`playlist_table::get` is defined on reachable states.**  After any history
of playlist / entity operations whose row arguments are well-typed (`wtLOp`:
`wtRowP` for add / update — which excludes exactly the last-edit times of the
recorded finding), from the empty tables and for the statements of the current
source, `get(id)` answers `nullopt` or a row: never undefined behaviour
(`parse_ft` overflow), never an exception.  The invariant behind it (`leTyped`:
every stored last-edit text converts back) is kept by every such operation from
any state that satisfies it. -/
theorem C18_playlist_get_defined :
    (∀ (ops : List LOp), (∀ op ∈ ops, wtLOp op) → ∀ i,
      pGet genLStmts (lRun genLStmts LDb.empty ops) i = .ok none ∨
      ∃ g, pGet genLStmts (lRun genLStmts LDb.empty ops) i = .ok (some g)) ∧
    (∀ {st : LStmts}, alignedL st = true → ∀ {d : LDb}, leTyped d.pl →
      (∀ op, wtLOp op → leTyped (lStep st d op).pl) ∧
      (∀ i, pGet st d i = .ok none ∨ ∃ g, pGet st d i = .ok (some g))) :=
  ⟨fun ops hops i => playlist_get_defined C18_list_bindings_aligned
      (le_lRun C18_list_bindings_aligned (fun _ h => by cases h) ops hops) i,
   fun ha _ hwf => ⟨fun _ hop => le_lStep ha hwf hop, fun i => playlist_get_defined ha hwf i⟩⟩

/-! ### information_table -/

/-- The Information statements regenerated from the current source are aligned with the Spec. -/
theorem C18_info_bindings_aligned : alignedI genIStmts = true := by decide

/-- **information_table.**  `get` on the created library returns the row the
schema creator stored (uuid, the version triple of the schema, the indicator);
`update_current_played_indicator(v)` changes that member only. -/
theorem C18_info_get_update {st : IStmts} (ha : alignedI st = true) :
    (∀ (s : Schema2) (uuid : Bytes) (cpi : Int),
      iGet st (infoRow s (.text uuid) cpi) = .ok (normInfo s uuid cpi)) ∧
    (∀ (raw : Raw ICol) (g : Row IField) (v : Int), iGet st raw = .ok g →
      iGet st (iSetCpi st raw v) = .ok (normInfoSet v g)) :=
  ⟨fun s uuid cpi => info_get_created ha s uuid cpi, fun _ _ v h => info_set_get ha h v⟩

/-- An entity row. -/
def exEntity (l t : Int) (u : Bytes) (m : Int) : Row EField := fun f =>
  match f with
  | .id => .int 0
  | .list_id => .int l
  | .track_id => .int t
  | .database_uuid => .str u
  | .next_entity_id => .int 0
  | .membership_reference => .int m

/-- **Counterexample to the unrestricted entity round trip.**  After
`add_back (list 1, track 1, uuid "b")` and `add_back (list 1, track 1, uuid "a", ref 5)`
— both accepted, ids 1 and 2 — `get(1, 1)` returns the first row, not the row
just written.  (Replayed on the real library: corpus/C18/entity_get_ambiguous.txt.) -/
theorem C18_entity_roundtrip_counterexample :
    let d1 := (eAddBack genLStmts LDb.empty (exEntity 1 1 [98] 0) false).1
    let r2 := exEntity 1 1 [97] 5
    (eAddBack genLStmts d1 r2 false).2 = .ok 2 ∧
    (match eGet genLStmts (eAddBack genLStmts d1 r2 false).1 1 1 with
     | .ok (some g) => decide (g .id = .int 1 ∧ g .database_uuid = .str [98] ∧ g .id ≠ normRowE 2 r2 .id)
     | _ => false) = true := by
  decide

/-- A playlist row. -/
def exPlaylist (title : Bytes) (parent next lastEdit : Int) (persisted : Bool) : Row PField := fun f =>
  match f with
  | .id => .int 0
  | .title => .str title
  | .parent_list_id => .int parent
  | .is_persisted => .bool persisted
  | .next_list_id => .int next
  | .last_edit_time => .time lastEdit
  | .is_explicitly_exported => .bool true

/-- **The first second of the time-point range.**  A playlist whose last-edit
time lies in `[-2^63, -9223372036000000001]` ns is accepted by `add`, but `get`
then has undefined behaviour: the stored text is the floor to whole seconds,
`-9223372037 s`, which `parse_ft` converts back to nanoseconds with a signed
overflow.  (`wtRowP` excludes exactly these values.  Replayed on the real
library: corpus/C18/playlist_last_edit_floor.txt.) -/
theorem C18_playlist_last_edit_floor_counterexample :
    let r := exPlaylist [65] 0 0 (-9223372036854775808) false
    (pAdd genLStmts LDb.empty r).2 = .ok 1 ∧
    (match pGet genLStmts (pAdd genLStmts LDb.empty r).1 1 with
     | .ub .signed_overflow => true
     | _ => false) = true := by
  decide

/-! ### non-vacuity -/

example : wtRowP (exPlaylist [65] 0 0 1500000000123456789 true) := by intro f; cases f <;> rfl
example : wtRowE (exEntity 1 1 [97] 5) := by intro f; cases f <;> rfl
example : (pAdd genLStmts LDb.empty (exPlaylist [65] 0 0 1500000000123456789 true)).2 = .ok 1 := by decide
example : (pUpdate genLStmts (pAdd genLStmts LDb.empty (exPlaylist [65] 0 0 1 true)).1
    (fun f => if f = .id then .int 1 else exPlaylist [66] 0 0 2 false f)).2 = .ok () := by decide
example : noEntry LDb.empty.pe 1 1 := by intro x hx; cases hx
example : noEntry3 LDb.empty.pe 1 1 [97] := by intro x hx; cases hx
example : wtLOp (.pAdd (exPlaylist [65] 0 0 1500000000123456789 true)) := by intro f; cases f <;> rfl
/-- the greatest-uuid hypothesis with an entry present: "a" < "b" -/
example : ∀ x ∈ (eAddBack genLStmts LDb.empty (exEntity 1 1 [97] 0) false).1.pe,
    (x .listId == .int 1 && x .trackId == .int 1) = true → bytesLt (uuidOf x) [98] = true := by
  intro x hx _
  have : (eAddBack genLStmts LDb.empty (exEntity 1 1 [97] 0) false).1.pe.all (fun x => bytesLt (uuidOf x) [98]) = true := by
    decide
  exact List.all_eq_true.mp this x hx
example : (eAddBack genLStmts (eAddBack genLStmts LDb.empty (exEntity 1 1 [97] 0) false).1 (exEntity 1 1 [98] 7) false).2
    = .ok 2 := by decide
/-- remove naming the entity of another list: an error (entity 1 is in list 1, not in list 2) -/
example : (eRemove genLStmts (eAddBack genLStmts LDb.empty (exEntity 1 1 [97] 0) false).1 2 1).2
    = .throw .invalid_argument := by decide
example : (eGetForList genLStmts (eAddBack genLStmts LDb.empty (exEntity 1 1 [97] 5) false).1 1).isOk = true := by decide
example : (eAddBack genLStmts LDb.empty (exEntity 1 1 [97] 5) false).2 = .ok 1 := by decide


/-- A track row with every optional absent. -/
def exRow : Row TField := fun f =>
  match f.ty with
  | .i64 => .int 0
  | .oi64 | .oi32 => .oint none
  | .str => .str (if f = .path then [112] else [])
  | .ostr => .ostr none
  | .odbl => .oreal none
  | .bool => .bool false
  | .time | .timeText => .time 1500000000123456789
  | .otime => .otime none
  | .blob .track => .blob (.track ⟨0, 0, 0, 0, 0, 0⟩ [])
  | .blob .ovw => .blob (.ovw ⟨0, [], [0, 0, 0]⟩ [])
  | .blob .beat => .blob (.beat ⟨0, 0, 0, [], []⟩ [])
  | .blob .cues => .blob (.cues ⟨[], 0, false, 0⟩ [])
  | .blob .loops => .blob (.loops [] [])

def exDb : TDb := { TDb.empty with uuid := .text [117], clock := 1700000000 }

example : wtRowT exRow := by intro f; cases f <;> rfl
example : exDb.Wf := TDb.empty_wf _ _ rfl (by decide)

/-- The hypotheses of the round trip are satisfiable: the row is accepted on the empty table of 2.21.2 … -/
example : ∃ st, genStmts .s2_21_2 = some st ∧ (tAdd st exDb exRow).2 = .ok 1 :=
  ⟨_, rfl, by decide⟩

/-- … the update of that row (id 1) is accepted … -/
example : ∃ st, genStmts .s2_21_2 = some st ∧
    (tUpdate .s2_21_2 st (tAdd st exDb exRow).1 (fun f => if f = .id then .int 1 else exRow f)).2 = .ok () :=
  ⟨_, rfl, by decide⟩

/-- … a setter on it succeeds, and a getter on a missing row is an error. -/
example : ∃ st, genStmts .s2_21_2 = some st ∧
    (tSetc .s2_21_2 st (tAdd st exDb exRow).1 .title 1 (.ostr (some [65]))).2 = .ok () ∧
    tGetc .s2_21_2 st (tAdd st exDb exRow).1 .title 2 = .throw .runtime_error :=
  ⟨_, rfl, by decide, by decide⟩

end EngineModel.Properties.C18
