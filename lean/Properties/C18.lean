/-
Property C18 — a row written through the schema-2.x table API reads back as written.

Model: `EngineModel/Table/{Core,Store,Track}.lean`; the INSERT / UPDATE / SELECT
binding tables and the accessor tables are those of `EngineModel/Gen/Bindings.lean`,
regenerated from the C++ source on every run.  Spec: `normRowT` (what `get` must
return after `add` / `update`), `normSetT` (after `set_<member>`), `fromAcc`
(what an accessor value denotes), written from the public headers and the
schema DDL (`Table/Names.lean`).

Theorems are stated for *any* statements satisfying the decidable alignment
predicate `alignedT` (every member bound to its own column with the conversion
of its declared type, none twice, none missing; every accessor on its member's
column with its member's type and schema guard; remove() checking the row count)
and are closed for the statements of the current source by `decide`
(`C18_track_bindings_aligned`).  `TDb.Wf` is the invariant of reachable states
(`C18_track_histories`); `wtRowT` / `wtOp` say that argument values have their
declared C++ types (fixed-width integer ranges) — they restrict nothing a C++
caller can pass.
-/
import Proofs.TableTrackWf
import Proofs.TableLists
import Proofs.TableListsWf

namespace EngineModel.Properties.C18
open EngineModel EngineModel.Table

/-- The binding tables regenerated from the current source are aligned with the
Spec on each of the seven 2.x schema versions (three distinct column lists). -/
theorem C18_track_bindings_aligned :
    ∀ s : Schema2, ∃ st, genStmts s = some st ∧ alignedT s st = true := by
  intro s
  cases s <;> exact ⟨_, rfl, by decide⟩

/-- **Round trip, from alignment.**  If `add r` succeeds with id `i` then `get i`
returns the row written, in normal form (`normRowT`: the id assigned, time
points in whole seconds, members without a column at their constants, the
origin pair fixed up when left unset). -/
theorem C18_track_roundtrip {s : Schema2} {st : TStmts} (ha : alignedT s st = true)
    {d d' : TDb} (hwf : d.Wf) {r : Row TField} (hr : wtRowT r) {i : Int}
    (h : tAdd st d r = (d', .ok i)) :
    tGet st d' i = .ok (some (normRowT s d.uuid none i r)) :=
  track_add_get ha hwf.ids hr h

/-- `add` leaves every other row as it was. -/
theorem C18_track_add_frame {s : Schema2} {st : TStmts} (ha : alignedT s st = true) {d d' : TDb}
    {r : Row TField} {i : Int} (h : tAdd st d r = (d', .ok i)) (j : Int) (hj : j ≠ i) :
    findRow .id d'.rows j = findRow .id d.rows j :=
  track_add_frame ha h j hj

/-- **Update.**  After `update r` of an existing row, `get r.id` returns the row
written, in normal form; the last-edit time is the database's stamp on 2.20.3+
(the hypothesis on the clock says the stamp is representable as a time point);
every other row and the counters are untouched. -/
theorem C18_track_update {s : Schema2} {st : TStmts} (ha : alignedT s st = true)
    {d d' : TDb} {r : Row TField} (hr : wtRowT r) {i : Int} (hid : r .id = .int i)
    {old : Raw TCol} (hex : findRow .id d.rows i = some old)
    (hclk : in64 (d.clock * 1000000000) = true)
    (h : tUpdate s st d r = (d', .ok ())) :
    tGet st d' i = .ok (some (normRowT s d.uuid (if s.ge .s2_20_3 then some d.clock else none) i r))
    ∧ (∀ j, j ≠ i → findRow .id d'.rows j = findRow .id d.rows j)
    ∧ d'.seq = d.seq ∧ d'.uuid = d.uuid ∧ d'.clock = d.clock :=
  track_update_get ha hr hid hex hclk h

/-- **Per-column getter.**  On an existing row the getter of a member the schema
has a column for denotes (`fromAcc`) the member of the row `get` returns; on a
schema without the column it reports `unsupported_operation`. -/
theorem C18_track_column_get {s : Schema2} {st : TStmts} (ha : alignedT s st = true) {d : TDb} {i : Int}
    {raw : Raw TCol} (hfind : findRow .id d.rows i = some raw) {g : Row TField}
    (hget : tGet st d i = .ok (some g)) {f : TField} (hf : f ≠ .id) :
    if f.present s then ∃ v, tGetc s st d f i = .ok v ∧ fromAcc f v = g f
    else tGetc s st d f i = .throw (.dj "unsupported_operation") :=
  track_getc ha hfind hget hf

/-- **Per-column setter changes that column only.**  After `set_<f>(i, v)` on an
existing row, `get i` returns the row it returned before with member `f`
replaced by `v` and the database-maintained members re-derived (`normSetT`);
every other row and the counters are untouched. -/
theorem C18_track_column_set_frame {s : Schema2} {st : TStmts} (ha : alignedT s st = true)
    {d d' : TDb} (hwf : d.Wf) {i : Int} {f : TField} (hf : f ≠ .id) {v : FVal}
    (hv : wtv f.accTy v = true) {g0 : Row TField} (hget0 : tGet st d i = .ok (some g0))
    (hclk : in64 (d.clock * 1000000000) = true)
    (h : tSetc s st d f i v = (d', .ok ())) :
    tGet st d' i = .ok (some (normSetT s d.uuid d.clock f v g0))
    ∧ (∀ j, j ≠ i → findRow .id d'.rows j = findRow .id d.rows j)
    ∧ d'.seq = d.seq ∧ d'.uuid = d.uuid ∧ d'.clock = d.clock :=
  track_setc_get ha hwf hf hv hget0 hclk h

/-- The Spec of a setter, unfolded: members other than `f`, the origin pair and
the last-edit time are exactly what they were. -/
theorem C18_track_set_touches_one_member (s : Schema2) (uuid : Val) (clock : Int) (f : TField) (v : FVal)
    (r0 : Row TField) (g : TField) (h1 : g ≠ f) (h2 : g ≠ .origin_track_id)
    (h3 : g ≠ .origin_database_uuid) (h4 : g ≠ .last_edit_time) :
    normSetT s uuid clock f v r0 g = r0 g := by
  unfold normSetT
  rw [stampRowT_other _ _ (Or.inl h4), fixRowT_other _ _ h2 h3]
  simp [setMember, h1]

/-- **Missing rows.**  Every column accessor and `remove` naming an id with no
row reports an error and leaves the table as it was. -/
theorem C18_track_missing_row_errors {s : Schema2} {st : TStmts} (ha : alignedT s st = true) {d : TDb} {i : Int}
    (hmiss : findRow .id d.rows i = none) :
    (∀ f, f ≠ .id → ∃ e, tGetc s st d f i = .throw e) ∧
    (∀ f v, f ≠ .id → ∃ e, tSetc s st d f i v = (d, .throw e)) ∧
    tRemove st d i = (d, .throw .invalid_argument) :=
  track_missing_row ha hmiss

/-- **Histories.**  The invariant the theorems above assume holds after every
sequence of add / update / set_<member> / remove with well-typed arguments,
from any state that satisfies it (in particular the empty table). -/
theorem C18_track_histories {s : Schema2} {st : TStmts} (ha : alignedT s st = true) {d : TDb} (hwf : d.Wf)
    (ops : List TOp) (hops : ∀ op ∈ ops, wtOp op) : (tRun s st d ops).Wf :=
  wf_run ha hwf ops hops

/-- The round trip after any history, for the statements of the current source. -/
theorem C18_track_roundtrip_current (s : Schema2) :
    ∃ st, genStmts s = some st ∧
      ∀ (uuid : Val) (clock : Int), uuidTyped uuid = true →
      ∀ (ops : List TOp), (∀ op ∈ ops, wtOp op) →
      ∀ (r : Row TField), wtRowT r → ∀ (d' : TDb) (i : Int),
        let d := tRun s st { TDb.empty with uuid := uuid, clock := clock } ops
        tAdd st d r = (d', .ok i) → tGet st d' i = .ok (some (normRowT s d.uuid none i r)) := by
  obtain ⟨st, h1, h2⟩ := C18_track_bindings_aligned s
  refine ⟨st, h1, ?_⟩
  intro uuid clock hu ops hops r hr d' i d h
  exact track_add_get h2 (wf_run h2 (TDb.empty_wf uuid clock hu) ops hops).ids hr h

/-! ## playlist_table and playlist_entity_table -/

/-- The list-table statements regenerated from the current source are aligned with the Spec. -/
theorem C18_list_bindings_aligned : alignedL genLStmts = true := by decide

/-- **Playlist round trip.**  `get` after a successful `add r` returns the row
written: the id assigned, the last-edit time in whole seconds (it is stored as
text `YYYY-MM-DD HH:MM:SS`; `wtRowP` includes that its floor is a representable
time point — see `C18_playlist_last_edit_floor_counterexample`). -/
theorem C18_playlist_roundtrip {st : LStmts} (ha : alignedL st = true) {d d' : LDb}
    (hwf : idsBelow .id d.pl d.plSeq) {r : Row PField} (hr : wtRowP r) {i : Int}
    (h : pAdd st d r = (d', .ok i)) :
    pGet st d' i = .ok (some (normRowP i r)) :=
  playlist_add_get ha hwf hr h

/-- **Playlist update.**  `get` after a successful `update r` returns the row written. -/
theorem C18_playlist_update {st : LStmts} (ha : alignedL st = true) {d d' : LDb}
    {r : Row PField} (hr : wtRowP r) {i : Int} (hid : r .id = .int i)
    (h : pUpdate st d r = (d', .ok ())) :
    pGet st d' i = .ok (some (normRowP i r)) :=
  playlist_update_get ha hr hid h

/-- `remove` of a playlist id with no row reports an error and changes nothing. -/
theorem C18_playlist_missing_row_errors {st : LStmts} (ha : alignedL st = true) {d : LDb} {i : Int}
    (h : findRow .id d.pl i = none) : pRemove st d i = (d, .throw .invalid_argument) :=
  playlist_remove_missing ha h

/-- Full statement (false of the code, see the counterexample below):
`∀ d r dup i, eAddBack st d r dup = (d', .ok i) → (the row was inserted) →
   eGet st d' (list of r) (track of r) = .ok (some (normRowE i r))`.

**Entity round trip (partial).**  Proved under the explicit restriction `noEntry`:
no entry of the same (list, track) pair exists yet — `get(list_id, track_id)`
has no way to name the database a track belongs to. -/
theorem C18_entity_roundtrip_partial {st : LStmts} (ha : alignedL st = true) {d d' : LDb}
    {r : Row EField} (hr : wtRowE r) {dup : Bool} {i l tr : Int}
    (hl : r .list_id = .int l) (ht : r .track_id = .int tr)
    (hnone : noEntry d.pe l tr) (h : eAddBack st d r dup = (d', .ok i)) :
    eGet st d' l tr = .ok (some (normRowE i r)) :=
  entity_add_get ha hr hl ht hnone h

/-- `remove` of an entity that does not exist reports an error and changes nothing. -/
theorem C18_entity_missing_row_errors {st : LStmts} (ha : alignedL st = true) {d : LDb} {l e : Int}
    (h : d.pe.find? (fun x => x .listId == .int l && rowId .id x == e) = none) :
    eRemove st d l e = (d, .throw .invalid_argument) :=
  entity_remove_missing ha h

/-- **Histories (list tables).**  The invariant the playlist round trip assumes
holds after every sequence of playlist add / update / remove and entity
add_back / remove / clear, from any state that satisfies it. -/
theorem C18_list_histories {st : LStmts} (ha : alignedL st = true) {d : LDb} (hwf : d.Wf) (ops : List LOp) :
    (lRun st d ops).Wf :=
  wf_lRun ha hwf ops

/-- The playlist round trip after any history from the empty tables, for the
statements of the current source. -/
theorem C18_playlist_roundtrip_current (ops : List LOp) (r : Row PField) (hr : wtRowP r) (d' : LDb) (i : Int)
    (h : pAdd genLStmts (lRun genLStmts LDb.empty ops) r = (d', .ok i)) :
    pGet genLStmts d' i = .ok (some (normRowP i r)) :=
  playlist_add_get C18_list_bindings_aligned (wf_lRun C18_list_bindings_aligned LDb.empty_wf ops) hr h

/-- An entity row. -/
def exEntity (l t : Int) (u : Bytes) (m : Int) : Row EField := fun f =>
  match f with
  | .id => .int 0
  | .list_id => .int l
  | .track_id => .int t
  | .database_uuid => .str u
  | .next_entity_id => .int 0
  | .membership_reference => .int m

/-- **Counterexample to the unrestricted entity round trip.**  After
`add_back (list 1, track 1, uuid "b")` and `add_back (list 1, track 1, uuid "a", ref 5)`
— both accepted, ids 1 and 2 — `get(1, 1)` returns the first row, not the row
just written.  (Replayed on the real library: corpus/C18/entity_get_ambiguous.txt.) -/
theorem C18_entity_roundtrip_counterexample :
    let d1 := (eAddBack genLStmts LDb.empty (exEntity 1 1 [98] 0) false).1
    let r2 := exEntity 1 1 [97] 5
    (eAddBack genLStmts d1 r2 false).2 = .ok 2 ∧
    (match eGet genLStmts (eAddBack genLStmts d1 r2 false).1 1 1 with
     | .ok (some g) => decide (g .id = .int 1 ∧ g .database_uuid = .str [98] ∧ g .id ≠ normRowE 2 r2 .id)
     | _ => false) = true := by
  decide

/-- A playlist row. -/
def exPlaylist (title : Bytes) (parent next lastEdit : Int) (persisted : Bool) : Row PField := fun f =>
  match f with
  | .id => .int 0
  | .title => .str title
  | .parent_list_id => .int parent
  | .is_persisted => .bool persisted
  | .next_list_id => .int next
  | .last_edit_time => .time lastEdit
  | .is_explicitly_exported => .bool true

/-- **The first second of the time-point range.**  A playlist whose last-edit
time lies in `[-2^63, -9223372036000000001]` ns is accepted by `add`, but `get`
then has undefined behaviour: the stored text is the floor to whole seconds,
`-9223372037 s`, which `parse_ft` converts back to nanoseconds with a signed
overflow.  (`wtRowP` excludes exactly these values.  Replayed on the real
library: corpus/C18/playlist_last_edit_floor.txt.) -/
theorem C18_playlist_last_edit_floor_counterexample :
    let r := exPlaylist [65] 0 0 (-9223372036854775808) false
    (pAdd genLStmts LDb.empty r).2 = .ok 1 ∧
    (match pGet genLStmts (pAdd genLStmts LDb.empty r).1 1 with
     | .ub .signed_overflow => true
     | _ => false) = true := by
  decide

/-! ### non-vacuity -/

example : wtRowP (exPlaylist [65] 0 0 1500000000123456789 true) := by intro f; cases f <;> rfl
example : wtRowE (exEntity 1 1 [97] 5) := by intro f; cases f <;> rfl
example : (pAdd genLStmts LDb.empty (exPlaylist [65] 0 0 1500000000123456789 true)).2 = .ok 1 := by decide
example : (pUpdate genLStmts (pAdd genLStmts LDb.empty (exPlaylist [65] 0 0 1 true)).1
    (fun f => if f = .id then .int 1 else exPlaylist [66] 0 0 2 false f)).2 = .ok () := by decide
example : noEntry LDb.empty.pe 1 1 := by intro x hx; cases hx
example : (eAddBack genLStmts LDb.empty (exEntity 1 1 [97] 5) false).2 = .ok 1 := by decide


/-- A track row with every optional absent. -/
def exRow : Row TField := fun f =>
  match f.ty with
  | .i64 => .int 0
  | .oi64 | .oi32 => .oint none
  | .str => .str (if f = .path then [112] else [])
  | .ostr => .ostr none
  | .odbl => .oreal none
  | .bool => .bool false
  | .time | .timeText => .time 1500000000123456789
  | .otime => .otime none
  | .blob .track => .blob (.track ⟨0, 0, 0, 0, 0, 0⟩ [])
  | .blob .ovw => .blob (.ovw ⟨0, [], [0, 0, 0]⟩ [])
  | .blob .beat => .blob (.beat ⟨0, 0, 0, [], []⟩ [])
  | .blob .cues => .blob (.cues ⟨[], 0, false, 0⟩ [])
  | .blob .loops => .blob (.loops [] [])

def exDb : TDb := { TDb.empty with uuid := .text [117], clock := 1700000000 }

example : wtRowT exRow := by intro f; cases f <;> rfl
example : exDb.Wf := TDb.empty_wf _ _ rfl

/-- The hypotheses of the round trip are satisfiable: the row is accepted on the empty table of 2.21.2 … -/
example : ∃ st, genStmts .s2_21_2 = some st ∧ (tAdd st exDb exRow).2 = .ok 1 :=
  ⟨_, rfl, by decide⟩

/-- … the update of that row (id 1) is accepted … -/
example : ∃ st, genStmts .s2_21_2 = some st ∧
    (tUpdate .s2_21_2 st (tAdd st exDb exRow).1 (fun f => if f = .id then .int 1 else exRow f)).2 = .ok () :=
  ⟨_, rfl, by decide⟩

/-- … a setter on it succeeds, and a getter on a missing row is an error. -/
example : ∃ st, genStmts .s2_21_2 = some st ∧
    (tSetc .s2_21_2 st (tAdd st exDb exRow).1 .title 1 (.ostr (some [65]))).2 = .ok () ∧
    tGetc .s2_21_2 st (tAdd st exDb exRow).1 .title 2 = .throw .runtime_error :=
  ⟨_, rfl, by decide, by decide⟩

end EngineModel.Properties.C18
