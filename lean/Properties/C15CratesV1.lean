/-
C15, schema 1.x crates — "every public operation invoked with any argument
values (ids of nonexistent entities, crates from elsewhere in the tree, empty /
huge / odd names) on any state reachable through the API either completes or
throws; it never … fails to terminate.  Handles to removed tracks and crates
report is_valid() == false".

Model: `Api.CratesV1.step` (crates-1.x work-package): every crate / membership
operation of database and crate.  The ONE `ub` this model can produce is
`nontermination`: `update_path` (set_name, set_parent) recurses over children()
with no bound in the C++; the model gives it `|CrateParentList| + 1` levels and
answers `ub nontermination` when they are used up, which happens exactly on a
cyclic parent list.  All other statements are single SQL statements with
callbacks: no index, no optional dereference, no arithmetic.  Handles are
values (`shared_ptr` to an impl holding the id): `id()`, copy, assignment and
destruction do not touch the database and have no model-level content; the
handle-validity queries (`crateIsValid`, `trackIsValid`) do.

Invariant: `FInv` (ids unique, parent list functional / total / live, hierarchy
= its transitive closure, irreflexive) from Proofs/CratesV1Forest.lean, plus
`SeqOk` (no Track id beyond the AUTOINCREMENT counter, ≥ 1.17.0) — together
`CInv`; proved here to hold of the empty library and to be kept by all ten
operations, hence on every reachable state.
-/
import Proofs.NoUbCratesV1

namespace EngineModel.Properties.C15CratesV1
open EngineModel EngineModel.Api.CratesV1 EngineModel.Api.CratesV1.C15 EngineModel.Pure.Detect

/-- No operation, with any arguments, has undefined behaviour (here: runs out of recursion depth)
on a state whose crate tables describe a forest. -/
theorem v1c_C15_no_ub (s : Schema) (db : Db) (h : FInv db) (op : Op) (u : Ub) : (step s db op).2 ≠ .ub u :=
  step_defined s h op u

/-- Every operation keeps the invariant (whether it returns or throws). -/
theorem v1c_C15_invariant (s : Schema) (db : Db) (h : CInv s db) (op : Op) : CInv s (step s db op).1 :=
  step_cinv s h op

theorem v1c_C15_empty (s : Schema) : CInv s Db.empty := cinv_empty s

/-- **Reachable states**: along any script of operations with any arguments from the empty library,
no call has undefined behaviour — in particular every `update_path` recursion terminates within
`|CrateParentList| + 1` levels. -/
theorem v1c_C15_reachable_no_ub (s : Schema) (ops : List Op) :
    ∀ r ∈ outcomes s Db.empty ops, ∀ u, r ≠ .ub u :=
  fun r hr u => outcomes_defined s ops Db.empty (cinv_empty s) r hr u

/-- The handle-validity and by-id queries never have undefined behaviour, on ANY state and for any id
(the other queries of the model are total functions). -/
theorem v1c_C15_queries_no_ub (db : Db) (c : Id) (u : Ub) :
    crateIsValid db c ≠ .ub u ∧ crateName db c ≠ .ub u ∧ crateParent db c ≠ .ub u ∧
    dbCrateById db c ≠ .ub u ∧ trackIsValid db c ≠ .ub u := by
  refine ⟨?_, ?_, ?_, ?_, ?_⟩
  · unfold crateIsValid; simp only; split
    · exact fun h => by cases h
    · split <;> exact fun h => by cases h
  · unfold crateName; split <;> exact fun h => by cases h
  · unfold crateParent; split <;> exact fun h => by cases h
  · unfold dbCrateById crateIsValid; simp only; split
    · exact fun h => by cases h
    · split <;> exact fun h => by cases h
  · unfold trackIsValid; simp only; split
    · exact fun h => by cases h
    · split <;> exact fun h => by cases h

/-- **Stale crate handle**: after `remove_crate(c)` — on any state — `c.is_valid()` is false. -/
theorem v1c_C15_stale_crate_invalid (s : Schema) (db : Db) (c : Id) :
    crateIsValid (step s db (.removeCrate c)).1 c = .ok false :=
  crateIsValid_dead (removed_not_live s db c)

/-- Operations through a handle to a crate that does not exist (removed, or an id that never
existed) throw; nothing is written. -/
theorem v1c_C15_dead_crate_throws (s : Schema) (db : Db) (h : FInv db) (c : Id) (hc : c ∉ ids db) :
    (∀ n, ∃ e, step s db (.rename c n) = (db, .throw e)) ∧
    (∀ n, ∃ e, step s db (.createSub c n) = (db, .throw e)) ∧
    (∀ p, ∃ e, step s db (.setParent c p) = (db, .throw e)) ∧
    (∀ t, ∃ e, step s db (.addTrack c t) = (db, .throw e)) := by
  refine ⟨?_, ?_, ?_, ?_⟩
  · intro n
    rcases setName_cases s h c n with e | e | ⟨hl, _⟩
    · exact ⟨_, e⟩
    · exact ⟨_, e⟩
    · exact absurd hl hc
  · intro n
    rcases createSub_cases s h.idsNodup c n with e | e | e | ⟨hl, _⟩
    · exact ⟨_, e⟩
    · exact ⟨_, e⟩
    · exact ⟨_, e⟩
    · exact absurd hl hc
  · intro p
    rcases setParent_cases s h c p with e | e | ⟨hok, _⟩
    · exact ⟨_, e⟩
    · exact ⟨_, e⟩
    · exact absurd hok.1 hc
  · intro t
    refine ⟨exCrateDeleted, ?_⟩
    show addTrack s db c t = _
    unfold addTrack transaction
    rw [requireValid_dead hc]
    rfl

/-- A crate from elsewhere in the tree as the new parent: a descendant is refused, nothing is written. -/
theorem v1c_C15_descendant_parent_refused (s : Schema) (db : Db) (h : FInv db) (c q : Id)
    (hd : (c, q) ∈ db.ch) : step s db (.setParent c (some q)) = (db, .throw exInvalidParent) := by
  have hl := h.chLive _ hd
  have hne : q ≠ c := fun e => h.chIrrefl c (e ▸ hd)
  exact setParent_cycle s h.idsNodup hne hl.1 hl.2 hd

/-- **Stale track handle**: after `remove_track(t)` on a reachable state `t.is_valid()` is false
(from 1.17.0 on this needs the AUTOINCREMENT bound: the placeholder row gets a fresh id). -/
theorem v1c_C15_stale_track_invalid (s : Schema) (db : Db) (h : CInv s db) (t : Id) :
    trackIsValid (step s db (.removeTrack t)).1 t = .ok false :=
  trackIsValid_absent (removeTrack_props s h.seq t).1

/-! ### non-vacuity -/

def n (c : Char) : Name := [c.toNat.toUInt8]

/-- A/B(sub of A)/C(sub of B), root D, two tracks, one membership; then B renamed, C removed. -/
def exOps : List Op :=
  [.createRoot (n 'A'), .createSub 1 (n 'B'), .createSub 2 (n 'C'), .createRoot (n 'D'), .createTrack, .createTrack,
   .addTrack 2 1, .rename 2 (n 'E'), .setParent 4 (some 3), .removeCrate 3, .removeTrack 2]

def exDb : Db := run .schema_1_18_0_os Db.empty exOps

example : CInv .schema_1_18_0_os exDb := run_cinv _ exOps _ (cinv_empty _)
example : exDb.crate.map (·.id) = [1, 2] := by decide +kernel
example : exDb.crate.map (·.path) = [[65, 59], [65, 59, 69, 59]] := by decide +kernel
/-- ids of nonexistent / removed crates and tracks: exceptions -/
example : (step .schema_1_18_0_os exDb (.rename 3 (n 'X'))).2 = .throw exCrateDeleted := by decide +kernel
example : (step .schema_1_18_0_os exDb (.setParent 1 (some 999))).2 = .throw exCrateDeleted := by decide +kernel
example : (step .schema_1_18_0_os exDb (.addTrack 1 2)).2 = .throw exTrackDeleted := by decide +kernel
example : (step .schema_1_18_0_os exDb (.addTrack 1 (-5))).2 = .throw exTrackDeleted := by decide +kernel
/-- a crate from elsewhere in the tree: its own descendant as parent -/
example : (step .schema_1_18_0_os exDb (.setParent 1 (some 2))).2 = .throw exInvalidParent := by decide +kernel
/-- odd names -/
example : (step .schema_1_18_0_os exDb (.rename 1 [])).2 = .throw exInvalidName := by decide +kernel
example : (step .schema_1_18_0_os exDb (.rename 1 [97, 59, 98])).2 = .throw exInvalidName := by decide +kernel
example : (step .schema_1_18_0_os exDb (.rename 1 (List.replicate 300 200))).2 = .ok .unit := by decide +kernel
/-- stale handles -/
example : crateIsValid exDb 3 = .ok false := by decide +kernel
example : trackIsValid exDb 2 = .ok false := by decide +kernel

/-- The `ub` of the model is real: on a cyclic parent list (1 ↔ 2, not reachable through the API)
`set_name` does run out of recursion depth — the hypothesis `FInv` is needed. -/
def cyclic : Db :=
  { crate := [⟨1, n 'A', [65, 59]⟩, ⟨2, n 'B', [66, 59]⟩], cpl := [(1, 2), (2, 1)], ch := [], ctl := [], track := [],
    trackSeq := 0 }

example : (step .schema_1_6_0 cyclic (.rename 1 (n 'Z'))).2 = .ub .nontermination := by decide +kernel

end EngineModel.Properties.C15CratesV1
