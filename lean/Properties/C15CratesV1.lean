/-
C15, schema 1.x crates — "every public operation invoked with any argument
values (ids of nonexistent entities, crates from elsewhere in the tree, empty /
huge / odd names) on any state reachable through the API either completes or
throws; it never … fails to terminate.  Handles to removed tracks and crates
report is_valid() == false".

Model: `Api.CratesV1.step` (crates-1.x work-package): every crate / membership
operation of database and crate.  The ONE `ub` this model can produce is
`nontermination`: `update_path` (set_name, set_parent) recurses over children()
with no bound in the C++; the model gives it `|CrateParentList| + 1` levels and
answers `ub nontermination` when they are used up, which happens exactly on a
cyclic parent list.  All other statements are single SQL statements with
callbacks: no index, no optional dereference, no arithmetic.  Handles are
values (`shared_ptr` to an impl holding the id): `id()`, copy, assignment and
destruction do not touch the database and have no model-level content; the
handle-validity queries (`crateIsValid`, `trackIsValid`) do.

Invariant: `FInv` (ids unique, parent list functional / total / live, hierarchy
= its transitive closure, irreflexive) from Proofs/CratesV1Forest.lean, plus
`SeqOk` (no Track id beyond the AUTOINCREMENT counter, ≥ 1.17.0) — together
`CInv`; proved here to hold of the empty library and to be kept by all ten
operations, hence on every reachable state.
-/
import Proofs.NoUbCratesV1
import Properties.C07V1
import EngineModel.Api.GuardedCratesV1
import Proofs.C15GuardValues

namespace EngineModel.Properties.C15CratesV1
open EngineModel EngineModel.Api.CratesV1 EngineModel.Api.CratesV1.C15 EngineModel.Pure.Detect
open EngineModel.Api.GuardedCratesV1

/-- No operation, with any arguments, has undefined behaviour (here: runs out of recursion depth)
on a state whose crate tables describe a forest. -/
theorem v1c_C15_no_ub (s : Schema) (db : Db) (h : FInv db) (op : Op) (u : Ub) : (step s db op).2 ≠ .ub u :=
  step_defined s h op u

/-- Every operation keeps the invariant (whether it returns or throws). -/
theorem v1c_C15_invariant (s : Schema) (db : Db) (h : CInv s db) (op : Op) : CInv s (step s db op).1 :=
  step_cinv s h op

theorem v1c_C15_empty (s : Schema) : CInv s Db.empty := cinv_empty s

/-- **Reachable states**: along any script of operations with any arguments from the empty library,
no call has undefined behaviour — in particular every `update_path` recursion terminates within
`|CrateParentList| + 1` levels. -/
theorem v1c_C15_reachable_no_ub (s : Schema) (ops : List Op) :
    ∀ r ∈ outcomes s Db.empty ops, ∀ u, r ≠ .ub u :=
  fun r hr u => outcomes_defined s ops Db.empty (cinv_empty s) r hr u

/-- **Queries.**  The inventory of tools/tr_c15guards.py finds ONE dereference / index / division site in
the 1.x crate and database query paths: `*name` in `crate::name` (engine_crate_impl.cpp:281).
`crateNameSrc` is that function with the dereference explicit behind the guard regenerated from the source:
it is the model's `crateName`, hence never `ub`; without the guard it is `ub empty_optional` on a removed
crate.  The other queries (is_valid, parent, crate_by_id, track is_valid — single SELECTs with callbacks)
have no such site; their models are `ok` / `throw` only, which the last conjuncts record. -/
theorem v1c_C15_queries_no_ub (db : Db) (c : Id) (u : Ub) :
    crateNameSrc db c = crateName db c ∧ crateNameSrc db c ≠ .ub u ∧
    (c ∉ ids db → crateNameG (fun _ => false) db c = .ub .empty_optional) ∧
    crateIsValid db c ≠ .ub u ∧ crateParent db c ≠ .ub u ∧ dbCrateById db c ≠ .ub u ∧ trackIsValid db c ≠ .ub u := by
  have heq : crateNameSrc db c = crateName db c := by
    unfold crateNameSrc crateNameG crateName
    simp only [Gen.C15Guards.v1_crate_name_none_eq]
    cases h : (db.crate.filter (·.id == c)).map (·.title) with
    | nil => rfl
    | cons a l =>
      cases l with
      | nil => rfl
      | cons b l' => rfl
  refine ⟨heq, ?_, ?_, ?_, ?_, ?_, ?_⟩
  · rw [heq]; unfold crateName; split <;> exact fun h => by cases h
  · intro hc
    unfold crateNameG
    have : (db.crate.filter (·.id == c)).map (·.title) = [] := by
      rw [List.map_eq_nil_iff, List.filter_eq_nil_iff]
      intro r hr he
      exact hc (List.mem_map.mpr ⟨r, hr, by simpa using he⟩)
    rw [this]; rfl
  · unfold crateIsValid; simp only; split
    · exact fun h => by cases h
    · split <;> exact fun h => by cases h
  · unfold crateParent; split <;> exact fun h => by cases h
  · unfold dbCrateById crateIsValid; simp only; split
    · exact fun h => by cases h
    · split <;> exact fun h => by cases h
  · unfold trackIsValid; simp only; split
    · exact fun h => by cases h
    · split <;> exact fun h => by cases h

/-- **Stale crate handle, one step**: right after `remove_crate(c)` — on any state — `c.is_valid()` is false. -/
theorem v1c_C15_stale_crate_one_step (s : Schema) (db : Db) (c : Id) :
    crateIsValid (step s db (.removeCrate c)).1 c = .ok false :=
  crateIsValid_dead (removed_not_live s db c)

/-- FULL STATEMENT (property text: "handles to removed crates report is_valid() == false", along every
later history) — FALSE of the 1.x code: `Crate.id` is allocated as MAX(id)+1 / rowid, so the id of a removed
crate is handed out again (`v1c_C15_stale_crate_counterexample`; recorded finding of C15).
PROVED (the honest form): after `remove_crate(c)` on a state reachable through the API the handle stays
invalid along every continuation in which no creation reports the id `c`
(`reissues … = false`, the executable restriction of the crates-1.x package; its theorem
`C07_removed_never_returned_partial` does the induction). -/
theorem v1c_C15_stale_crate_partial (s : Schema) (ops ops' : List Op) (c : Id)
    (hno : reissues s (run s Db.empty (ops ++ [.removeCrate c])) ops' c = false) :
    crateIsValid (run s Db.empty ((ops ++ [.removeCrate c]) ++ ops')) c = .ok false := by
  have hy : crateIsValid (run s Db.empty (ops ++ [Op.removeCrate c])) c = .ok false := by
    rw [run_append]
    exact v1c_C15_stale_crate_one_step s _ c
  exact C07V1.C07_removed_never_returned_partial s (ops ++ [Op.removeCrate c]) ops' c hy hno

/-- The full statement is false on both allocation rules: create `a` (id 1), remove it — the handle is
invalid — create `b`: it receives id 1 and the stale handle is valid again. -/
theorem v1c_C15_stale_crate_counterexample :
    (crateIsValid (run .schema_1_6_0 Db.empty [.createRoot [97], .removeCrate 1]) 1 = .ok false ∧
     crateIsValid (run .schema_1_6_0 Db.empty ([.createRoot [97], .removeCrate 1] ++ [.createRoot [98]])) 1 = .ok true) ∧
    (crateIsValid (run .schema_1_18_0_os Db.empty [.createRoot [97], .removeCrate 1]) 1 = .ok false ∧
     crateIsValid (run .schema_1_18_0_os Db.empty ([.createRoot [97], .removeCrate 1] ++ [.createRoot [98]])) 1 = .ok true) := by
  decide +kernel

/-- Operations through a handle to a crate that does not exist (removed, or an id that never
existed) throw; nothing is written. -/
theorem v1c_C15_dead_crate_throws (s : Schema) (db : Db) (h : FInv db) (c : Id) (hc : c ∉ ids db) :
    (∀ n, ∃ e, step s db (.rename c n) = (db, .throw e)) ∧
    (∀ n, ∃ e, step s db (.createSub c n) = (db, .throw e)) ∧
    (∀ p, ∃ e, step s db (.setParent c p) = (db, .throw e)) ∧
    (∀ t, ∃ e, step s db (.addTrack c t) = (db, .throw e)) := by
  refine ⟨?_, ?_, ?_, ?_⟩
  · intro n
    rcases setName_cases s h c n with e | e | ⟨hl, _⟩
    · exact ⟨_, e⟩
    · exact ⟨_, e⟩
    · exact absurd hl hc
  · intro n
    rcases createSub_cases s h.idsNodup c n with e | e | e | ⟨hl, _⟩
    · exact ⟨_, e⟩
    · exact ⟨_, e⟩
    · exact ⟨_, e⟩
    · exact absurd hl hc
  · intro p
    rcases setParent_cases s h c p with e | e | ⟨hok, _⟩
    · exact ⟨_, e⟩
    · exact ⟨_, e⟩
    · exact absurd hok.1 hc
  · intro t
    refine ⟨exCrateDeleted, ?_⟩
    show addTrack s db c t = _
    unfold addTrack transaction
    rw [requireValid_dead hc]
    rfl

/-- A crate from elsewhere in the tree as the new parent: a descendant is refused, nothing is written. -/
theorem v1c_C15_descendant_parent_refused (s : Schema) (db : Db) (h : FInv db) (c q : Id)
    (hd : (c, q) ∈ db.ch) : step s db (.setParent c (some q)) = (db, .throw exInvalidParent) := by
  have hl := h.chLive _ hd
  have hne : q ≠ c := fun e => h.chIrrefl c (e ▸ hd)
  exact setParent_cycle s h.idsNodup hne hl.1 hl.2 hd

/-- **Stale track handle, one step**: right after `remove_track(t)` on a reachable state `t.is_valid()` is
false (from 1.17.0 on this needs the AUTOINCREMENT bound: the placeholder row gets a fresh id).  Along later
histories: before 1.17.0 the id is reissued like a crate's (recorded finding); see design/C15.md. -/
theorem v1c_C15_stale_track_one_step (s : Schema) (db : Db) (h : CInv s db) (t : Id) :
    trackIsValid (step s db (.removeTrack t)).1 t = .ok false :=
  trackIsValid_absent (removeTrack_props s h.seq t).1

/-! ### non-vacuity -/

def n (c : Char) : Name := [c.toNat.toUInt8]

/-- A/B(sub of A)/C(sub of B), root D, two tracks, one membership; then B renamed, C removed. -/
def exOps : List Op :=
  [.createRoot (n 'A'), .createSub 1 (n 'B'), .createSub 2 (n 'C'), .createRoot (n 'D'), .createTrack, .createTrack,
   .addTrack 2 1, .rename 2 (n 'E'), .setParent 4 (some 3), .removeCrate 3, .removeTrack 2]

def exDb : Db := run .schema_1_18_0_os Db.empty exOps

example : CInv .schema_1_18_0_os exDb := run_cinv _ exOps _ (cinv_empty _)
example : exDb.crate.map (·.id) = [1, 2] := by decide +kernel
example : exDb.crate.map (·.path) = [[65, 59], [65, 59, 69, 59]] := by decide +kernel
/-- ids of nonexistent / removed crates and tracks: exceptions -/
example : (step .schema_1_18_0_os exDb (.rename 3 (n 'X'))).2 = .throw exCrateDeleted := by decide +kernel
example : (step .schema_1_18_0_os exDb (.setParent 1 (some 999))).2 = .throw exCrateDeleted := by decide +kernel
example : (step .schema_1_18_0_os exDb (.addTrack 1 2)).2 = .throw exTrackDeleted := by decide +kernel
example : (step .schema_1_18_0_os exDb (.addTrack 1 (-5))).2 = .throw exTrackDeleted := by decide +kernel
/-- a crate from elsewhere in the tree: its own descendant as parent -/
example : (step .schema_1_18_0_os exDb (.setParent 1 (some 2))).2 = .throw exInvalidParent := by decide +kernel
/-- odd names -/
example : (step .schema_1_18_0_os exDb (.rename 1 [])).2 = .throw exInvalidName := by decide +kernel
example : (step .schema_1_18_0_os exDb (.rename 1 [97, 59, 98])).2 = .throw exInvalidName := by decide +kernel
example : (step .schema_1_18_0_os exDb (.rename 1 (List.replicate 300 200))).2 = .ok .unit := by decide +kernel
/-- stale handles -/
example : crateIsValid exDb 3 = .ok false := by decide +kernel
example : trackIsValid exDb 2 = .ok false := by decide +kernel

/-- The `ub` of the model is real: on a cyclic parent list (1 ↔ 2, not reachable through the API)
`set_name` does run out of recursion depth — the hypothesis `FInv` is needed. -/
def cyclic : Db :=
  { crate := [⟨1, n 'A', [65, 59]⟩, ⟨2, n 'B', [66, 59]⟩], cpl := [(1, 2), (2, 1)], ch := [], ctl := [], track := [],
    trackSeq := 0 }

/-- registered: the hypothesis `FInv` of `v1c_C15_no_ub` is needed -/
theorem v1c_C15_cyclic_table_counterexample :
    (step .schema_1_6_0 cyclic (.rename 1 (n 'Z'))).2 = .ub .nontermination := by decide +kernel

/-- non-vacuity of `v1c_C15_stale_crate_partial`: crate 1 removed, the continuation never reports id 1 -/
example : reissues .schema_1_9_1 (run .schema_1_9_1 Db.empty ([.createRoot [97], .createRoot [98]] ++ [.removeCrate 1]))
    [.createSub 2 [99], .rename 3 [100], .removeCrate 3] 1 = false := by decide +kernel

end EngineModel.Properties.C15CratesV1
