/-
C01, schema 2.x — Track data written through a snapshot reads back unchanged.

Model: `writeSnap` = `snapshot_to_row`, `tablePut` = the Track table as a store
of rows, `readSnap` = `snapshot()` (EngineModel/TracksV2/Model.lean);
`Db.create` / `Db.update` = `create_track` / `track::update` over a table with
the `UNIQUE (path)` constraint (Lens.lean).  Spec: `Spec.normalize`
(EngineModel/TracksV2/Spec.lean), written from the property text.
All theorems hold for every schema-2.x version `s`, every snapshot `x` (no size
bound) and every instance `ops` of the floating-point operations whose results
are stored but never read back.
-/
import Proofs.TracksV2Main
import Proofs.TracksV2Idem
import Proofs.TracksV2Db
import Proofs.TracksV2Wf
import Proofs.TracksV2Bridge

namespace EngineModel.Properties.C01V2
open EngineModel EngineModel.TracksV2 EngineModel.Prim

/-- Write then read of one track: exactly the normalised snapshot. -/
theorem v2_C01_roundtrip (ops : FOps) (s : Schema) (x y : Snap) (h : Spec.normalize s x = some y) :
    (writeStore ops s x).bind (readSnap ops) = .ok y :=
  writeRead_of_normalize ops s x y h

/-- A snapshot the library must reject is rejected with an exception — never
accepted, never undefined behaviour. -/
theorem v2_C01_reject (ops : FOps) (s : Schema) (x : Snap) (h : Spec.normalize s x = none) :
    ∃ e, writeStore ops s x = .throw e :=
  writeStore_throw_of_reject ops s x h

/-- Whatever the snapshot, a write either succeeds or throws. -/
theorem v2_C01_total (ops : FOps) (s : Schema) (x : Snap) :
    (∃ r, writeStore ops s x = .ok r) ∨ (∃ e, writeStore ops s x = .throw e) :=
  writeStore_total ops s x

/-- The read-back snapshot is a fixed point of the normalisation … -/
theorem v2_C01_fixed_point (s : Schema) (x y : Snap) (h : Spec.normalize s x = some y) :
    Spec.normalize s y = some y := by
  unfold Spec.normalize at h
  cases hp : x.relativePath with
  | none => simp [hp] at h
  | some p =>
    simp only [hp] at h
    cases hext : Spec.hasExtension p with
    | false => simp [hext] at h
    | true =>
      simp only [hext, Bool.not_true, Bool.false_eq_true, if_false] at h
      by_cases hlen : 8 < x.hotCues.length ∨ 8 < x.loops.length
      · simp [hlen] at h
      · simp only [hlen, if_false] at h
        cases hlc : Spec.labelsOk HotCue.label x.hotCues with
        | false => simp [hlc] at h
        | true =>
        cases hll : Spec.labelsOk LoopV.label x.loops with
        | false => simp [hlc, hll] at h
        | true =>
          simp only [hlc, hll, Bool.not_true, Bool.false_eq_true, if_false] at h
          cases hnw : Spec.normWaveform x.waveform x.sampleCount x.sampleRate with
          | none => simp [hnw] at h
          | some wv =>
            simp only [hnw, Option.some.injEq] at h
            subst h
            have hc : x.hotCues.length ≤ 8 := by omega
            have hl : x.loops.length ≤ 8 := by omega
            have e1 : (Spec.pad8 (x.hotCues.map Spec.normCue)).length = 8 :=
              Spec.pad8_length _ (by simpa using hc)
            have e2 : (Spec.pad8 x.loops).length = 8 := Spec.pad8_length _ hl
            have e3 : Spec.pad8 ((Spec.pad8 (x.hotCues.map Spec.normCue)).map Spec.normCue) =
                Spec.pad8 (x.hotCues.map Spec.normCue) := by
              rw [Spec.map_normCue_pad8, List.map_map]
              have : (Spec.normCue ∘ Spec.normCue) = Spec.normCue := funext Spec.normCue_idem
              rw [this, Spec.pad8_of_length _ e1]
            have e4 : Spec.pad8 (Spec.pad8 x.loops) = Spec.pad8 x.loops := Spec.pad8_of_length _ e2
            have e5 : Spec.labelsOk HotCue.label (Spec.pad8 (x.hotCues.map Spec.normCue)) = true := by
              rw [Spec.labelsOk_pad8]; exact Spec.labelsOk_map_normCue _ hlc
            have e6 : Spec.labelsOk LoopV.label (Spec.pad8 x.loops) = true := by
              rw [Spec.labelsOk_pad8]; exact hll
            have e7 := Spec.normWaveform_idem _ _ _ _ hnw
            simp only [Spec.normalize, hext, e1, e2, e3, e4, e5, e6, e7, Bool.not_true, Bool.false_eq_true,
              if_false, Spec.normZeroAbsent_idem, Spec.normBpm_idem, Spec.normDuration_idem, Spec.normTime_idem,
              Spec.normRating_idem, Spec.normCount_idem, Nat.lt_irrefl, or_self]

/-- … hence writing it to the same track again and reading once more yields the
identical snapshot. -/
theorem v2_C01_second_write (ops : FOps) (s : Schema) (x y : Snap) (h : Spec.normalize s x = some y) :
    (writeStore ops s y).bind (readSnap ops) = .ok y :=
  v2_C01_roundtrip ops s y y (v2_C01_fixed_point s x y h)


/-! ### "normalisation" cannot hide a corruption

Which values the schema represents exactly, per field (decidable, stated on the
input only), and the theorem that `normalize` returns exactly those values. -/

/-- whole, non-zero seconds -/
def ReprDuration (d : Option UInt64) : Prop := ∀ ms, d = some ms → s64 ms % 1000 = 0 ∧ s64 ms ≠ 0
/-- whole seconds -/
def ReprTime (t : Option UInt64) : Prop := ∀ ns, t = some ns → s64 ns % 1000000000 = 0
/-- 1..100 -/
def ReprRating (r : Option UInt32) : Prop := ∀ v, r = some v → 1 ≤ s32 v ∧ s32 v ≤ 100
/-- not one of the two zeros (they mean "absent") -/
def ReprNonZero (v : Option F) : Prop := v ≠ some 0 ∧ v ≠ some F64.negZero
def ReprCount (v : Option UInt64) : Prop := v ≠ some 0
/-- a number other than −0.0 -/
def ReprBpm (v : Option F) : Prop := ∀ b, v = some b → F64.isNaN b = false ∧ b ≠ F64.negZero
/-- eight slots, none at the "empty" offset −1 -/
def ReprCues (l : List (Option HotCue)) : Prop := l.length = 8 ∧ ∀ q, some q ∈ l → q.off ≠ F64.negOne
def ReprLoops (l : List (Option LoopV)) : Prop := l.length = 8
/-- empty, or already an overview waveform: the recommended number of entries, opacity 255 -/
def ReprWaveform (x : Snap) : Prop :=
  x.waveform = [] ∨
  (x.waveform.length = 1024 ∧ (∀ e ∈ x.waveform, e.lo = 255 ∧ e.mo = 255 ∧ e.ho = 255) ∧
    ∃ n r t, x.sampleCount = some n ∧ x.sampleRate = some r ∧ Spec.integerPart r = some t ∧
      Pure.Waveform.ovSize n.toNat t.natAbs = 1024)

theorem tdiv_mul_of_dvd (a k : Int) (hk : 0 < k) (h : a % k = 0) : Int.tdiv a k * k = a := by
  rw [tdiv_cases a k hk]
  split
  · have := Int.ediv_mul_cancel (Int.dvd_of_emod_eq_zero h)
    omega
  · have h2 : (-a) % k = 0 := by
      have : k ∣ a := Int.dvd_of_emod_eq_zero h
      exact Int.emod_eq_zero_of_dvd (Int.dvd_neg.mpr this)
    have := Int.ediv_mul_cancel (Int.dvd_of_emod_eq_zero h2)
    rw [Int.neg_mul]; omega

theorem overview_of_overview (w : List WEntry) (h : w.length = 1024)
    (ho : ∀ e ∈ w, e.lo = 255 ∧ e.mo = 255 ∧ e.ho = 255) : Spec.overviewOf w 1024 = w := by
  apply List.ext_getElem?
  intro k
  have hsome : ∀ i ∈ List.range 1024, ((w[w.length * (2 * i + 1) / 2048]?).map opq255).isSome = true := by
    intro i hi
    have := idx_lt w.length i (by omega) (by simpa using hi)
    simp [List.getElem?_eq_getElem this]
  rw [Spec.overviewOf_def, Spec.filterMap_getElem?_of_isSome _ _ hsome k]
  by_cases hk : k < 1024
  · have e : w.length * (2 * k + 1) / 2048 = k := by rw [h]; omega
    have hk' : k < w.length := by omega
    simp only [List.getElem?_range hk, Option.bind_some, e, List.getElem?_eq_getElem hk', Option.map_some]
    have := ho w[k] (List.getElem_mem hk')
    congr 1
    cases hw : w[k] with
    | mk a b c d e f =>
      rw [hw] at this
      simp only [opq255]
      obtain ⟨h1, h2, h3⟩ := this
      simp at h1 h2 h3
      subst h1 h2 h3; rfl
  · have : w[k]? = none := by simp; omega
    simp [this, hk]

/-- Every field the schema can represent comes back exactly as given: the 14
fields stored verbatim always, the others whenever the given value is one the
schema represents. -/
theorem v2_C01_representable (s : Schema) (x y : Snap) (h : Spec.normalize s x = some y) :
    y.album = x.album ∧ y.artist = x.artist ∧ y.beatgrid = x.beatgrid ∧ y.bitrate = x.bitrate ∧
    y.comment = x.comment ∧ y.composer = x.composer ∧ y.fileBytes = x.fileBytes ∧ y.genre = x.genre ∧
    y.key = x.key ∧ y.publisher = x.publisher ∧ y.relativePath = x.relativePath ∧ y.title = x.title ∧
    y.trackNumber = x.trackNumber ∧ y.year = x.year ∧
    (ReprNonZero x.averageLoudness → y.averageLoudness = x.averageLoudness) ∧
    (ReprBpm x.bpm → y.bpm = x.bpm) ∧
    (ReprDuration x.duration → y.duration = x.duration) ∧
    (ReprCues x.hotCues → y.hotCues = x.hotCues) ∧
    (ReprTime x.lastPlayedAt → y.lastPlayedAt = x.lastPlayedAt) ∧
    (ReprLoops x.loops → y.loops = x.loops) ∧
    (ReprNonZero x.mainCue → y.mainCue = x.mainCue) ∧
    (ReprRating x.rating → y.rating = x.rating) ∧
    (ReprCount x.sampleCount → y.sampleCount = x.sampleCount) ∧
    (ReprNonZero x.sampleRate → y.sampleRate = x.sampleRate) ∧
    (ReprWaveform x → y.waveform = x.waveform) := by
  unfold Spec.normalize at h
  cases hp : x.relativePath with
  | none => simp [hp] at h
  | some p =>
    simp only [hp] at h
    split at h
    · cases h
    · split at h
      · cases h
      · split at h
        · cases h
        · split at h
          · cases h
          · cases hnw : Spec.normWaveform x.waveform x.sampleCount x.sampleRate with
            | none => simp [hnw] at h
            | some wv =>
              simp only [hnw, Option.some.injEq] at h
              subst h
              have nz : ∀ v, ReprNonZero v → Spec.normZeroAbsent v = v := by
                intro v ⟨h1, h2⟩
                cases v with
                | none => rfl
                | some b =>
                  have : ¬ (b = 0 ∨ b = F64.negZero) := by
                    rintro (hh | hh) <;> subst hh
                    · exact h1 rfl
                    · exact h2 rfl
                  simp [Spec.normZeroAbsent, this]
              refine ⟨rfl, rfl, rfl, rfl, rfl, rfl, rfl, rfl, rfl, rfl, ?_, rfl, rfl, rfl, nz _, ?_, ?_, ?_, ?_,
                ?_, nz _, ?_, ?_, nz _, ?_⟩
              · simp
              · intro hb
                cases hv : x.bpm with
                | none => rfl
                | some b =>
                  obtain ⟨h1, h2⟩ := hb b hv
                  simp [Spec.normBpm, h1, h2]
              · intro hd
                cases hv : x.duration with
                | none => rfl
                | some ms =>
                  obtain ⟨h1, h2⟩ := hd ms hv
                  have e := tdiv_mul_of_dvd (s64 ms) 1000 (by omega) h1
                  have hq : ¬ Int.tdiv (s64 ms) 1000 = 0 := fun hh => by rw [hh] at e; omega
                  simp only [Spec.normDuration, hq, if_false, Spec.wholeSeconds, e, u64OfInt_s64]
              · intro ⟨h8, hoff⟩
                show Spec.pad8 (x.hotCues.map Spec.normCue) = x.hotCues
                have : x.hotCues.map Spec.normCue = x.hotCues := by
                  conv => rhs; rw [← List.map_id x.hotCues]
                  apply List.map_congr_left
                  intro c hc
                  cases c with
                  | none => rfl
                  | some q => simp [Spec.normCue, hoff q hc]
                rw [this, Spec.pad8_of_length _ h8]
              · intro ht
                cases hv : x.lastPlayedAt with
                | none => rfl
                | some ns =>
                  have e := tdiv_mul_of_dvd (s64 ns) 1000000000 (by omega) (ht ns hv)
                  simp only [Spec.normTime, Option.map_some, Spec.wholeSeconds, e, u64OfInt_s64]
              · intro h8
                exact Spec.pad8_of_length _ h8
              · intro hr
                cases hv : x.rating with
                | none => rfl
                | some v =>
                  obtain ⟨h1, h2⟩ := hr v hv
                  have a : ¬ s32 v ≤ 0 := by omega
                  have b : ¬ 100 < s32 v := by omega
                  simp [Spec.normRating, a, b]
              · intro hc
                cases hv : x.sampleCount with
                | none => rfl
                | some n =>
                  have : ¬ n = 0 := fun hh => hc (by rw [hv, hh])
                  simp [Spec.normCount, this]
              · intro hw
                show wv = x.waveform
                rcases hw with hw | ⟨hlen, hop, n, r, t, hn, hr, ht, hsz⟩
                · simp [Spec.normWaveform, hw] at hnw; rw [hw]; exact hnw
                · have hne : x.waveform ≠ [] := by intro hh; rw [hh] at hlen; simp at hlen
                  simp only [Spec.normWaveform, hne, if_false, hn, hr, ht, hsz, (by decide : ¬ (1024 : Nat) = 0),
                    Option.some.injEq] at hnw
                  rw [← hnw]
                  exact overview_of_overview _ hlen hop


/-! ### the same on the table: `create_track`, `update` over any prior row, other tracks -/

theorem path_of_written (ops : FOps) (s : Schema) (x y : Snap) (r : Row) (h : Spec.normalize s x = some y)
    (hw : writeStore ops s x = .ok r) : x.relativePath = some r.path := by
  have h1 := v2_C01_roundtrip ops s x y h
  rw [hw] at h1
  have h2 := (v2_C01_representable s x y h).2.2.2.2.2.2.2.2.2.2.1
  simp only [Res.bind, readSnap] at h1
  cases hd : readDuration r.length with
  | ok d =>
    rw [hd] at h1
    simp only [Res.ok.injEq] at h1
    rw [← h2, ← h1]
  | throw e => rw [hd] at h1; cases h1
  | ub u => rw [hd] at h1; cases h1

/-- `create_track` of an acceptable snapshot whose path no track has yet: a new
track whose snapshot is the normalised input; every other track's row is untouched. -/
theorem v2_C01_db_create (ops : FOps) (s : Schema) (db : Db) (hf : db.Fresh) (x y : Snap)
    (h : Spec.normalize s x = some y)
    (hfree : ∀ p, x.relativePath = some p → db.pathTaken 0 p = false) :
    ∃ db', db.create ops s x = (db', .ok db.nextId) ∧ db'.snapshot ops db.nextId = .ok y ∧ db'.Fresh ∧
      ∀ id, id ≠ db.nextId → db'.get id = db.get id := by
  have h1 := v2_C01_roundtrip ops s x y h
  cases hw : writeStore ops s x with
  | ok r =>
    have hp := path_of_written ops s x y r h hw
    have hnt := hfree r.path hp
    refine ⟨⟨db.rows ++ [(db.nextId, r)], db.nextId + 1⟩, ?_, ?_, ?_, ?_⟩
    · simp [Db.create, hw, hnt]
    · rw [hw] at h1
      simp only [Db.snapshot, Db.get_append_new db hf r, if_true]
      exact h1
    · intro e he
      simp only [List.mem_append, List.mem_singleton] at he
      rcases he with he | he
      · have := hf e he; show e.1 < db.nextId + 1; omega
      · subst he; show db.nextId < db.nextId + 1; omega
    · intro id hid
      rw [Db.get_append_new db hf r]; simp [hid]
  | throw e => rw [hw] at h1; cases h1
  | ub u => rw [hw] at h1; cases h1

/-- `update` of a track with an acceptable snapshot, whatever was stored for it
before: afterwards its snapshot is the normalised input and every other
track's row is untouched. -/
theorem v2_C01_db_update (ops : FOps) (s : Schema) (db : Db) (id : Nat) (r0 : Row) (hex : db.get id = some r0)
    (x y : Snap) (h : Spec.normalize s x = some y)
    (hfree : ∀ p, x.relativePath = some p → db.pathTaken id p = false) :
    ∃ db', db.update ops s id x = (db', .ok ()) ∧ db'.snapshot ops id = .ok y ∧
      ∀ id', id' ≠ id → db'.get id' = db.get id' := by
  have h1 := v2_C01_roundtrip ops s x y h
  cases hw : writeStore ops s x with
  | ok r =>
    have hp := path_of_written ops s x y r h hw
    have hnt := hfree r.path hp
    refine ⟨db.put id r, ?_, ?_, ?_⟩
    · simp [Db.update, hw, hnt, hex]
    · rw [hw] at h1
      simp only [Db.snapshot, Db.get_put_same db id r r0 hex]
      exact h1
    · intro id' hid
      exact Db.get_put_other db id id' r hid
  | throw e => rw [hw] at h1; cases h1
  | ub u => rw [hw] at h1; cases h1

/-- A rejected snapshot changes nothing: `create_track` / `update` throw and the
table is as before. -/
theorem v2_C01_db_reject (ops : FOps) (s : Schema) (db : Db) (id : Nat) (x : Snap)
    (h : Spec.normalize s x = none) :
    (∃ e, db.create ops s x = (db, .throw e)) ∧ (∃ e, db.update ops s id x = (db, .throw e)) := by
  obtain ⟨e, he⟩ := v2_C01_reject ops s x h
  exact ⟨⟨e, by simp [Db.create, he]⟩, ⟨e, by simp [Db.update, he]⟩⟩


/-! ### total statements on the statement-level Track table

`TDb` (EngineModel/TracksV2/Table.lean) has the `UNIQUE (path)` constraint, the
origin trigger and the statements `create_track` / `update` really issue; `Inv`
holds in every reachable state (C11V2Tracks).  Nothing is excluded: the
colliding path, the absent track and the rejected snapshot all have their
outcome stated. -/

theorem written_row (ops : FOps) (s : Schema) (x y : Snap) (h : Spec.normalize s x = some y) :
    ∃ r p, writeStore ops s x = .ok r ∧ readSnap ops r = .ok y ∧ x.relativePath = some p ∧ r.path = p := by
  have h1 := v2_C01_roundtrip ops s x y h
  cases hw : writeStore ops s x with
  | ok r =>
    rw [hw] at h1
    exact ⟨r, r.path, rfl, h1, path_of_written ops s x y r h hw, rfl⟩
  | throw e => rw [hw] at h1; cases h1
  | ub u => rw [hw] at h1; cases h1

/-- **`create_track`, every case.**  A snapshot the Spec rejects: exception, table
unchanged.  An acceptable snapshot whose path another track has: refused
(`sqlite_error`), table unchanged.  Otherwise: a new row with the next id whose
`snapshot()` is the normalised input; every other row untouched. -/
theorem v2_C01_table_create (ops : FOps) (s : Schema) (db : TDb) (hI : Inv db) (x : Snap) :
    match Spec.normalize s x with
    | none => ∃ e, callCreate ops s x db = (db, .throw e)
    | some y => ∃ r p, writeStore ops s x = .ok r ∧ x.relativePath = some p ∧ readSnap ops r = .ok y ∧
        callCreate ops s x db =
          if pathTaken' db 0 p then (db, .throw .sqlite_error)
          else ({ db with rows := db.rows ++ [db.created r], seq := db.seq + 1 }, .ok (db.seq + 1)) := by
  cases hn : Spec.normalize s x with
  | none =>
    obtain ⟨e, he⟩ := v2_C01_reject ops s x hn
    exact ⟨e, by unfold callCreate; rw [M.lift_bind, he]⟩
  | some y =>
    obtain ⟨r, p, hw, hr, hp, hrp⟩ := written_row ops s x y hn
    refine ⟨r, p, hw, hp, hr, ?_⟩
    unfold callCreate
    rw [M.lift_bind, hw]
    simp only []
    unfold M.stmt
    simp only [insertStmt_eq hI.s, hrp]
    cases pathTaken' db 0 p <;> rfl

/-- **`track::update`, every case**, whatever was stored for the track before.
Rejected snapshot: exception, table unchanged.  The track does not exist (its
handle outlived `remove_track`): `track_deleted`, nothing is written (since the
`fix:` 8862536 `track_impl::update` tests `rows_modified()`; before, the call
returned normally and the snapshot was dropped silently — C01: "it either
survives the round trip or the write is rejected with an exception").  The path is
another track's: refused, table unchanged.  Otherwise the row's `snapshot()` is
the normalised input, key and origin columns as before, every other row
untouched. -/
theorem v2_C01_table_update (ops : FOps) (s : Schema) (db : TDb) (hI : Inv db) (id : Nat) (x : Snap) :
    match Spec.normalize s x with
    | none => ∃ e, callUpdate ops s id x db = (db, .throw e)
    | some y =>
      match db.find id with
      | none => callUpdate ops s id x db = (db, .throw (.dj "track_deleted"))
      | some t => ∃ r p, writeStore ops s x = .ok r ∧ x.relativePath = some p ∧ readSnap ops r = .ok y ∧
          callUpdate ops s id x db =
            if pathTaken' db id p then (db, .throw .sqlite_error) else (db.rep t r, .ok ()) := by
  cases hn : Spec.normalize s x with
  | none =>
    obtain ⟨e, he⟩ := v2_C01_reject ops s x hn
    exact ⟨e, by unfold callUpdate; rw [M.lift_bind, he]⟩
  | some y =>
    obtain ⟨r, p, hw, hr, hp, hrp⟩ := written_row ops s x y hn
    cases hf : db.find id with
    | none =>
      simp only []
      unfold callUpdate
      rw [M.lift_bind, hw]
      simp only []
      rw [M.bind_apply]
      unfold M.stmt
      simp only [updateStmt_none hf]
      rfl
    | some t =>
      refine ⟨r, p, hw, hp, hr, ?_⟩
      unfold callUpdate
      rw [M.lift_bind, hw]
      simp only []
      rw [M.bind_apply]
      unfold M.stmt
      simp only [updateStmt_whole hI.s hf, hrp]
      cases pathTaken' db id p <;> rfl

/-- **The fixed point on the same track.**  After `update(x)` of an existing
track succeeded, its `snapshot()` is `y = normalize x`; writing `y` to the same
track again succeeds (its own path is not a collision) and `snapshot()` is `y`
once more. -/
theorem v2_C01_table_second_write (ops : FOps) (s : Schema) (db : TDb) (hI : Inv db) (id : Nat) (t : TRow)
    (hf : db.find id = some t) (x y : Snap) (hn : Spec.normalize s x = some y)
    (hok : (callUpdate ops s id x db).2 = .ok ()) :
    let db1 := (callUpdate ops s id x db).1
    (∃ t1, db1.find id = some t1 ∧ readSnap ops t1.row = .ok y) ∧
    (callUpdate ops s id y db1).2 = .ok () ∧
    ∃ t2, (callUpdate ops s id y db1).1.find id = some t2 ∧ readSnap ops t2.row = .ok y := by
  intro db1
  obtain ⟨ht, hid⟩ := find_mem hf
  have h1 := v2_C01_table_update ops s db hI id x
  rw [hn] at h1
  simp only [hf] at h1
  obtain ⟨r, p, hw, hp, hr, hcall⟩ := h1
  cases hc : pathTaken' db id p with
  | true => rw [hcall, hc] at hok; cases hok
  | false =>
    have e1 : db1 = db.rep t r := by show (callUpdate ops s id x db).1 = _; rw [hcall, hc]; rfl
    have hrp : r.path = p := by
      have h3 := path_of_written ops s x y r hn hw
      rw [hp] at h3; exact (Option.some.inj h3).symm
    have hI1 : Inv db1 := by
      rw [e1]
      exact ⟨SInv_rep hI.s ht r (by rw [hid, hrp]; exact hc), DInv_rep hI.d t r (writeStore_derived ops s x r hw)⟩
    have hf1 : db1.find id = some { t with row := r } := by rw [e1, find_rep, hf]; simp [hid]
    have hfix := v2_C01_fixed_point s x y hn
    have h2 := v2_C01_table_update ops s db1 hI1 id y
    rw [hfix] at h2
    simp only [hf1] at h2
    obtain ⟨r2, p2, _, hp2, hr2, hcall2⟩ := h2
    have hp2' : p2 = p := by
      have h3 := (v2_C01_representable s x y hn).2.2.2.2.2.2.2.2.2.2.1
      rw [h3, hp] at hp2
      exact (Option.some.inj hp2).symm
    have hc2 : pathTaken' db1 id p2 = false := by
      have hm : ({ t with row := r } : TRow) ∈ db1.rows := (find_mem hf1).1
      have := pathTaken_same hI1.s hm
      rw [hp2', ← hrp]
      simpa [hid] using this
    refine ⟨⟨_, hf1, hr⟩, by rw [hcall2, hc2]; rfl, ?_⟩
    rw [hcall2, hc2]
    refine ⟨{ ({ t with row := r } : TRow) with row := r2 }, ?_, hr2⟩
    show (db1.rep { t with row := r } r2).find id = _
    rw [find_rep, hf1]; simp [hid]


/-! ### every supported schema version: the per-version column lists

`tablePut s` is the row store the theorems above use for `track_table`.  Here it
is tied, for each of the seven 2.x versions, to C18's model of `track_table`
(`EngineModel/Table/Track.lean`) instantiated with the INSERT / UPDATE / SELECT
column lists that are **regenerated from `track_table.cpp` on every run**
(`Gen/Bindings.lean`; three distinct lists: 2.18.0, 2.20.1–2.20.2, 2.20.3+):
`toTable` presents a `Row` (plus id, origin pair, `date_added`,
`last_edit_time`) as the typed `track_row` of that model. -/

/-- **`create_track` on each version.**  With the statements of version `s`: if
`track_table::add` of the row `snapshot_to_row` built (id 0, origin (uuid, 0))
returns id `i`, then `tablePut s r` is defined and `track_table::get(i)` is that
row with id `i`, origin (uuid, `i`) (trigger), `date_added` at whole seconds,
and `last_edit_time` as written (2.20.3+) or the epoch (before). -/
theorem v2_C01_schema_create (s : Schema) :
    ∃ st, Table.genStmts s.to2 = some st ∧
    ∀ (d d' : Table.TDb) (u : Bytes) (r : Row) (da le i : Int),
      d.Wf → d.uuid = .text u → Table.in64 da = true → Table.in64 le = true →
      Table.tAdd st d (toTable 0 u 0 da le r) = (d', .ok i) →
      ∃ r', tablePut s r = .ok r' ∧
        Table.tGet st d' i = .ok (some (toTable i u i (Table.truncSec da * 1000000000)
          (if s.to2.ge .s2_20_3 then Table.truncSec le * 1000000000 else 0) r')) :=
  tablePut_is_get_add s

/-- **`track::update` on each version**: `get ∘ update` of the row built for an
existing track is `tablePut s r` with the origin pair repaired and
`last_edit_time` stamped by the database from 2.20.3 on; every other row is
untouched. -/
theorem v2_C01_schema_update (s : Schema) :
    ∃ st, Table.genStmts s.to2 = some st ∧
    ∀ (d d' : Table.TDb) (u : Bytes) (r : Row) (da le i : Int) (old : Table.Raw Table.TCol),
      d.uuid = .text u → Table.in64 i = true → Table.in64 da = true → Table.in64 le = true →
      Table.findRow .id d.rows i = some old → Table.in64 (d.clock * 1000000000) = true →
      Table.tUpdate s.to2 st d (toTable i u 0 da le r) = (d', .ok ()) →
      ∃ r', tablePut s r = .ok r' ∧
        Table.tGet st d' i = .ok (some (toTable i u i (Table.truncSec da * 1000000000)
          (if s.to2.ge .s2_20_3 then d.clock * 1000000000 else 0) r')) ∧
        ∀ j, j ≠ i → Table.findRow .id d'.rows j = Table.findRow .id d.rows j :=
  tablePut_is_get_update s

/-- The versions are not interchangeable: the row a 2.18.0 library reads back
differs from the one a 2.20.1 library reads back (`active_on_load_loops`), and
that from a 2.20.3 one (`last_edit_time`). -/
theorem v2_C01_schema_matters :
    tablePut .s2_18_0 (default : Row) ≠ tablePut .s2_20_1 { (default : Row) with activeOnLoadLoops := some 0 } ∧
    tablePut .s2_18_0 { (default : Row) with activeOnLoadLoops := some 0 } ≠
      tablePut .s2_20_1 { (default : Row) with activeOnLoadLoops := some 0 } ∧
    Table.TField.present Schema.s2_20_2.to2 .last_edit_time = false ∧
    Table.TField.present Schema.s2_20_3.to2 .last_edit_time = true := by
  refine ⟨by decide, by decide, rfl, rfl⟩

/-! ### non-vacuity -/

def exOps : FOps := ⟨fun _ => 0, fun _ => 0, fun _ _ => 0⟩

/-- a snapshot that needs every kind of normalisation -/
def exSnap : Snap :=
  { Snap.empty with
    relativePath := some [97, 47, 98, 46, 109, 112, 51]          -- "a/b.mp3"
    title := some [120]
    duration := some 61500                                        -- 61.5 s
    rating := some 250
    mainCue := some F64.negZero
    bpm := some F64.negZero
    hotCues := [none, some ⟨[99], 0x40f5888000000000, ⟨255, 1, 2, 3⟩⟩, some ⟨[100], F64.negOne, ⟨0, 0, 0, 0⟩⟩]
    loops := [some ⟨[], 0, 0x40f5888000000000, ⟨255, 0, 0, 0⟩⟩]
    beatgrid := [⟨0xfffffffc, 0⟩, ⟨4, 0x40f5888000000000⟩]
    sampleCount := some 100000
    sampleRate := some 0x40e5888000000000                         -- 44100.0
    waveform := [⟨1, 2, 3, 9, 9, 9⟩, ⟨4, 5, 6, 0, 0, 0⟩] }

example : (Spec.normalize .s2_21_2 exSnap).isSome = true := by decide +kernel
example : (Spec.normalize .s2_21_2 exSnap).map (·.duration) = some (some 61000) := by decide +kernel
example : (Spec.normalize .s2_21_2 exSnap).map (·.waveform.length) = some 1024 := by decide +kernel
example : (Spec.normalize .s2_21_2 exSnap) ≠ some exSnap := by decide +kernel
example : ((writeStore exOps .s2_21_2 exSnap).bind (readSnap exOps)) = (match Spec.normalize .s2_21_2 exSnap with
    | some y => .ok y | none => .throw .logic_error) := by decide +kernel
/-- rejected inputs exist, of each class -/
example : Spec.normalize .s2_18_0 Snap.empty = none := by decide +kernel
example : Spec.normalize .s2_18_0 { exSnap with sampleRate := none } = none := by decide +kernel
example : Spec.normalize .s2_18_0 { exSnap with hotCues := List.replicate 9 none } = none := by decide +kernel
example : Spec.normalize .s2_18_0 { exSnap with relativePath := some [97, 46, 98, 47, 99] } = none := by decide +kernel
example : writeStore exOps .s2_18_0 { exSnap with loops := [some ⟨List.replicate 256 65, 0, 0, ⟨0, 0, 0, 0⟩⟩] }
    = .throw .invalid_argument := by decide +kernel
/-- the `Repr…` premises are satisfiable by non-trivial values -/
example : ReprCues (some ⟨[99], 0x40f5888000000000, ⟨255, 1, 2, 3⟩⟩ :: List.replicate 7 none) ∧
    ReprLoops (List.replicate 8 (some ⟨[], 0, 0, ⟨0, 0, 0, 0⟩⟩)) ∧ ReprDuration (some 61000) ∧ ReprRating (some 100) ∧
    ReprTime (some 1700000000000000000) ∧ ReprBpm (some 0x405e000000000000) ∧ ReprNonZero (some F64.negOne) ∧
    ReprCount (some 1) := by
  refine ⟨⟨rfl, ?_⟩, rfl, ?_, ?_, ?_, ?_, ⟨by unfold F64.negOne; decide, by unfold F64.negOne F64.negZero; decide⟩, by unfold ReprCount; decide⟩
  · intro q hq
    simp [List.replicate] at hq
    subst hq; decide
  · intro ms h; cases h; decide
  · intro v h; cases h; decide
  · intro ns h; cases h; decide
  · intro b h; cases h; decide

end EngineModel.Properties.C01V2
