/-
C04 — Re-encoding a decoded foreign blob preserves every byte (schema 2.x).

From the generic `Exact` law of the codec combinators (whatever a layout's
decoder accepts *is* the encoding of the decoded value followed by the
remainder, which the 2.x structs keep as `extra_data`), transferred to the
Model of the C++ by the agreement theorems `decode*_eq` / `encode*_ok`.
Payload level (the compressed bytes are not compared).
-/
import Proofs.ImplV2Lists

namespace EngineModel.Properties.C04
open EngineModel EngineModel.Codec EngineModel.V2 EngineModel.Impl.V2

theorem C04_v2_track_reencode (bs : Bytes) (v : Track) (extra : Bytes)
    (h : decodeTrack bs = .ok (v, extra)) : encodeTrack v extra = .ok bs := by
  rw [decodeTrack_eq, liftDec_ok_iff] at h
  rw [encodeTrack_ok, track_exact.reencode h]

theorem C04_v2_beat_reencode (bs : Bytes) (v : Beat) (extra : Bytes)
    (h : decodeBeat bs = .ok (v, extra)) : encodeBeat v extra = .ok bs := by
  rw [decodeBeat_eq, liftDec_ok_iff] at h
  rw [encodeBeat_ok, beat_exact.reencode h]

theorem C04_v2_ovw_reencode (bs : Bytes) (v : Ovw) (extra : Bytes)
    (h : decodeOvw bs = .ok (v, extra)) : encodeOvw v extra = .ok bs := by
  rw [decodeOvw_eq, liftDec_ok_iff] at h
  rw [encodeOvw_ok v (ovw_exact _ _ _ h).1, ovw_exact.reencode h]

theorem C04_v2_loops_reencode (bs : Bytes) (v : Loops) (extra : Bytes)
    (h : decodeLoops bs = .ok (v, extra)) : encodeLoops v extra = .ok bs := by
  rw [decodeLoops_eq, liftDec_ok_iff] at h
  rw [encodeLoops_ok v (loops_exact _ _ _ h).1.2, loops_exact.reencode h]

/-- The one permitted normalisation: the `is_main_cue_adjusted` byte of a
quick-cues payload, any non-zero value becoming 1; identity on everything the
layout does not accept. -/
def normBool (bs : Bytes) : Bytes :=
  match cuesRaw.dec bs with
  | some (raw, extra) => cuesRaw.enc raw.normFlag ++ extra
  | none => bs

theorem cues_dec_raw {bs : Bytes} {v : Cues} {extra : Bytes} (h : cues.dec bs = some (v, extra)) :
    ∃ raw, cuesRaw.dec bs = some (raw, extra) ∧ v = raw.toCues := by
  unfold cues map at h
  simp only at h
  cases hd : cuesRaw.dec bs with
  | none => rw [hd] at h; simp at h
  | some p =>
    obtain ⟨raw, r⟩ := p
    rw [hd] at h
    simp at h
    obtain ⟨rfl, rfl⟩ := h
    exact ⟨raw, rfl, rfl⟩

theorem C04_v2_cues_reencode (bs : Bytes) (v : Cues) (extra : Bytes)
    (h : decodeCues bs = .ok (v, extra)) : encodeCues v extra = .ok (normBool bs) := by
  rw [decodeCues_eq, liftDec_ok_iff] at h
  obtain ⟨raw, hraw, rfl⟩ := cues_dec_raw h
  have hv := (cuesRaw_exact _ _ _ hraw).1
  rw [encodeCues_ok raw.toCues (fun q hq => hv.2 q hq)]
  unfold normBool
  rw [hraw]
  show Res.ok (cuesRaw.enc raw.toCues.toRaw ++ extra) = _
  rw [toRaw_toCues]

/-- `normBool` rewrites exactly one byte — the flag — and nothing else. -/
theorem C04_normBool_one_byte (bs : Bytes) (raw : CuesRaw) (extra : Bytes)
    (h : cuesRaw.dec bs = some (raw, extra)) :
    ∃ pre post, bs = pre ++ raw.isAdj :: post ∧
      normBool bs = pre ++ (if raw.isAdj != 0 then 1 else 0) :: post := by
  have e := (cuesRaw_exact _ _ _ h).2
  refine ⟨(counted u64be cue).enc raw.cues ++ u64be.enc raw.adjMain, u64be.enc raw.defMain ++ extra, ?_, ?_⟩
  · rw [e]
    simp [cuesRaw, map, pair, u8, List.append_assoc]
  · unfold normBool
    rw [h]
    simp [cuesRaw, map, pair, u8, CuesRaw.normFlag, List.append_assoc]

/-- …and is the identity on blobs whose flag byte is already 0 or 1 (in
particular on everything the library itself writes). -/
theorem C04_normBool_id (bs : Bytes) (raw : CuesRaw) (extra : Bytes)
    (h : cuesRaw.dec bs = some (raw, extra)) (hflag : raw.isAdj = 0 ∨ raw.isAdj = 1) :
    normBool bs = bs := by
  have e := (cuesRaw_exact _ _ _ h).2
  unfold normBool
  rw [h]
  have : raw.normFlag = raw := by
    cases raw with
    | mk c a i d =>
      rcases hflag with rfl | rfl <;> rfl
  show cuesRaw.enc raw.normFlag ++ extra = bs
  rw [this, ← e]

/-- Non-vacuity: a foreign quick-cues payload with flag byte 7 and two trailing bytes. -/
example : decodeCues ([0,0,0,0,0,0,0,0] ++ [0,0,0,0,0,0,0,1] ++ [7] ++ [0,0,0,0,0,0,0,2] ++ [0xaa, 0xbb])
    = .ok (⟨[], 1, true, 2⟩, [0xaa, 0xbb]) := by decide

end EngineModel.Properties.C04
