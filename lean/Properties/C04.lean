/-
C04 — Re-encoding a decoded foreign blob preserves every byte (schema 2.x).

From the generic `Exact` law of the codec combinators (whatever a layout's
decoder accepts *is* the encoding of the decoded value followed by the
remainder, which the 2.x structs keep as `extra_data`), transferred to the
Model of the C++ by the agreement theorems `decode*_eq` / `encode*_ok`.
Payload level (the compressed bytes are not compared).
-/
import Proofs.ImplV2Lists
import Proofs.SetterFrame

namespace EngineModel.Properties.C04
open EngineModel EngineModel.Codec EngineModel.V2 EngineModel.Impl.V2

theorem C04_v2_track_reencode (bs : Bytes) (v : Track) (extra : Bytes)
    (h : decodeTrack bs = .ok (v, extra)) : encodeTrack v extra = .ok bs := by
  rw [decodeTrack_eq, liftDec_ok_iff] at h
  rw [encodeTrack_ok, track_exact.reencode h]

theorem C04_v2_beat_reencode (bs : Bytes) (v : Beat) (extra : Bytes)
    (h : decodeBeat bs = .ok (v, extra)) : encodeBeat v extra = .ok bs := by
  rw [decodeBeat_eq, liftDec_ok_iff] at h
  rw [encodeBeat_ok, beat_exact.reencode h]

theorem C04_v2_ovw_reencode (bs : Bytes) (hlen : bs.length < maxCount) (v : Ovw) (extra : Bytes)
    (h : decodeOvw bs = .ok (v, extra)) : encodeOvw v extra = .ok bs := by
  rw [decodeOvw_eq bs hlen, liftDec_ok_iff] at h
  rw [encodeOvw_ok v (ovw_exact _ _ _ h).1, ovw_exact.reencode h]

theorem C04_v2_loops_reencode (bs : Bytes) (v : Loops) (extra : Bytes)
    (h : decodeLoops bs = .ok (v, extra)) : encodeLoops v extra = .ok bs := by
  rw [decodeLoops_eq, liftDec_ok_iff] at h
  rw [encodeLoops_ok v (loops_exact _ _ _ h).1.2, loops_exact.reencode h]

/-- The one permitted normalisation: the `is_main_cue_adjusted` byte of a
quick-cues payload, any non-zero value becoming 1; identity on everything the
layout does not accept. -/
def normBool (bs : Bytes) : Bytes :=
  match cuesRaw.dec bs with
  | some (raw, extra) => cuesRaw.enc raw.normFlag ++ extra
  | none => bs

theorem cues_dec_raw {bs : Bytes} {v : Cues} {extra : Bytes} (h : cues.dec bs = some (v, extra)) :
    ∃ raw, cuesRaw.dec bs = some (raw, extra) ∧ v = raw.toCues := by
  unfold cues map at h
  simp only at h
  cases hd : cuesRaw.dec bs with
  | none => rw [hd] at h; simp at h
  | some p =>
    obtain ⟨raw, r⟩ := p
    rw [hd] at h
    simp at h
    obtain ⟨rfl, rfl⟩ := h
    exact ⟨raw, rfl, rfl⟩

theorem C04_v2_cues_reencode (bs : Bytes) (v : Cues) (extra : Bytes)
    (h : decodeCues bs = .ok (v, extra)) : encodeCues v extra = .ok (normBool bs) := by
  rw [decodeCues_eq, liftDec_ok_iff] at h
  obtain ⟨raw, hraw, rfl⟩ := cues_dec_raw h
  have hv := (cuesRaw_exact _ _ _ hraw).1
  rw [encodeCues_ok raw.toCues (fun q hq => hv.2 q hq)]
  unfold normBool
  rw [hraw]
  show Res.ok (cuesRaw.enc raw.toCues.toRaw ++ extra) = _
  rw [toRaw_toCues]

/-- `normBool` rewrites exactly one byte — the flag — and nothing else. -/
theorem C04_normBool_one_byte (bs : Bytes) (raw : CuesRaw) (extra : Bytes)
    (h : cuesRaw.dec bs = some (raw, extra)) :
    ∃ pre post, bs = pre ++ raw.isAdj :: post ∧
      normBool bs = pre ++ (if raw.isAdj != 0 then 1 else 0) :: post := by
  have e := (cuesRaw_exact _ _ _ h).2
  refine ⟨(counted u64be cue).enc raw.cues ++ u64be.enc raw.adjMain, u64be.enc raw.defMain ++ extra, ?_, ?_⟩
  · rw [e]
    simp [cuesRaw, map, pair, u8, List.append_assoc]
  · unfold normBool
    rw [h]
    simp [cuesRaw, map, pair, u8, CuesRaw.normFlag, List.append_assoc]

/-- …and is the identity on blobs whose flag byte is already 0 or 1 (in
particular on everything the library itself writes). -/
theorem C04_normBool_id (bs : Bytes) (raw : CuesRaw) (extra : Bytes)
    (h : cuesRaw.dec bs = some (raw, extra)) (hflag : raw.isAdj = 0 ∨ raw.isAdj = 1) :
    normBool bs = bs := by
  have e := (cuesRaw_exact _ _ _ h).2
  unfold normBool
  rw [h]
  have : raw.normFlag = raw := by
    cases raw with
    | mk c a i d =>
      rcases hflag with rfl | rfl <;> rfl
  show cuesRaw.enc raw.normFlag ++ extra = bs
  rw [this, ← e]

/-- Non-vacuity: a foreign quick-cues payload with flag byte 7 and two trailing bytes. -/
example : decodeCues ([0,0,0,0,0,0,0,0] ++ [0,0,0,0,0,0,0,1] ++ [7] ++ [0,0,0,0,0,0,0,2] ++ [0xaa, 0xbb])
    = .ok (⟨[], 1, true, 2⟩, [0xaa, 0xbb]) := by decide

/-! ## setter frame: a read-modify-write setter changes only the bytes of the field it names

`TracksV2.applySetter` (lean/EngineModel/TracksV2/Lens.lean, the Model of `v2::track_impl`'s setters on
one Track row whose five BLOB columns are kept as decoded value + trailing `extra_data`) is related to
the stored payload bytes through the Spec encoders (`payloadTrack … payloadLoops`): for each of the eleven
read-modify-write setters every other column's payload is unchanged and, inside the touched column,
only the byte range of the named field may differ (`AgreeOutside a b`: equal length, equal before `a`
and from `b` on).  The row is arbitrary — foreign entry counts, labelled or coloured empty slots, odd
flag bytes (already normalised by decoding: `C04_v2_cues_reencode`), any trailing bytes. -/
section SetterFrame
open EngineModel.SetterFrame EngineModel.TracksV2

theorem C04_setter_frame_hot_cue_at (ops : FOps) (i : UInt32) (v : Option HotCue) (r r' : Row)
    (h : applySetter ops (.hotCueAt i v) r = .ok r') :
    payloadTrack r' = payloadTrack r ∧ payloadOvw r' = payloadOvw r ∧ payloadBeat r' = payloadBeat r ∧
    payloadLoops r' = payloadLoops r ∧
    ∃ pre post old, payloadCues r = pre ++ V2.cue.enc old ++ post ∧
      payloadCues r' = pre ++ V2.cue.enc (writeHotCue v) ++ post ∧ r.cues.1.cues[i.toNat]? = some old :=
  frame_hotCueAt ops i v r r' h

theorem C04_setter_frame_loop_at (ops : FOps) (i : UInt32) (v : Option LoopV) (r r' : Row)
    (h : applySetter ops (.loopAt i v) r = .ok r') :
    payloadTrack r' = payloadTrack r ∧ payloadOvw r' = payloadOvw r ∧ payloadBeat r' = payloadBeat r ∧
    payloadCues r' = payloadCues r ∧
    ∃ pre post old, payloadLoops r = pre ++ V2.loop.enc old ++ post ∧
      payloadLoops r' = pre ++ V2.loop.enc (writeLoop v) ++ post ∧ r.loops.1[i.toNat]? = some old :=
  frame_loopAt ops i v r r' h

theorem C04_setter_frame_main_cue (ops : FOps) (v : Option F) (r r' : Row)
    (h : applySetter ops (.mainCue v) r = .ok r') :
    payloadTrack r' = payloadTrack r ∧ payloadOvw r' = payloadOvw r ∧ payloadBeat r' = payloadBeat r ∧
    payloadLoops r' = payloadLoops r ∧
    ∃ pre mid mid', payloadCues r = pre ++ mid ++ r.cues.2 ∧ payloadCues r' = pre ++ mid' ++ r.cues.2 ∧
      mid.length = 17 ∧ mid'.length = 17 :=
  frame_mainCue ops v r r' h

theorem C04_setter_frame_hot_cues (ops : FOps) (v : List (Option HotCue)) (r r' : Row)
    (h : applySetter ops (.hotCues v) r = .ok r') :
    payloadTrack r' = payloadTrack r ∧ payloadOvw r' = payloadOvw r ∧ payloadBeat r' = payloadBeat r ∧
    payloadLoops r' = payloadLoops r ∧
    ∃ head head' tail, payloadCues r = head ++ tail ∧ payloadCues r' = head' ++ tail ∧
      tail.length = 17 + r.cues.2.length :=
  frame_hotCues ops v r r' h

theorem C04_setter_frame_average_loudness (ops : FOps) (v : Option F) (r r' : Row)
    (h : applySetter ops (.averageLoudness v) r = .ok r') :
    AgreeOutside 20 44 (payloadTrack r) (payloadTrack r') ∧ payloadOvw r' = payloadOvw r ∧
    payloadBeat r' = payloadBeat r ∧ payloadCues r' = payloadCues r ∧ payloadLoops r' = payloadLoops r :=
  frame_averageLoudness ops v r r' h

theorem C04_setter_frame_key (ops : FOps) (v : Option UInt32) (r r' : Row)
    (h : applySetter ops (.key v) r = .ok r') :
    AgreeOutside 16 20 (payloadTrack r) (payloadTrack r') ∧ payloadOvw r' = payloadOvw r ∧
    payloadBeat r' = payloadBeat r ∧ payloadCues r' = payloadCues r ∧ payloadLoops r' = payloadLoops r :=
  frame_key ops v r r' h

theorem C04_setter_frame_sample_count (ops : FOps) (v : Option UInt64) (r r' : Row)
    (h : applySetter ops (.sampleCount v) r = .ok r') :
    AgreeOutside 8 16 (payloadTrack r) (payloadTrack r') ∧ AgreeOutside 8 16 (payloadBeat r) (payloadBeat r') ∧
    payloadOvw r' = payloadOvw r ∧ payloadCues r' = payloadCues r ∧ payloadLoops r' = payloadLoops r :=
  frame_sampleCount ops v r r' h

theorem C04_setter_frame_sample_rate (ops : FOps) (v : Option F) (r r' : Row)
    (h : applySetter ops (.sampleRate v) r = .ok r') :
    AgreeOutside 0 8 (payloadTrack r) (payloadTrack r') ∧ AgreeOutside 0 8 (payloadBeat r) (payloadBeat r') ∧
    payloadOvw r' = payloadOvw r ∧ payloadCues r' = payloadCues r ∧ payloadLoops r' = payloadLoops r :=
  frame_sampleRate ops v r r' h

theorem C04_setter_frame_beatgrid (ops : FOps) (g : List GMarker) (r r' : Row)
    (h : applySetter ops (.beatgrid g) r = .ok r') :
    payloadTrack r' = payloadTrack r ∧ payloadOvw r' = payloadOvw r ∧ payloadCues r' = payloadCues r ∧
    payloadLoops r' = payloadLoops r ∧
    ∃ mid mid', payloadBeat r = (payloadBeat r).take 16 ++ mid ++ r.beat.2 ∧
      payloadBeat r' = (payloadBeat r).take 16 ++ mid' ++ r.beat.2 :=
  frame_beatgrid ops g r r' h

/-- non-vacuity: the hypotheses are satisfiable on a foreign-looking row (3 cue entries, a labelled and
coloured empty slot, flag set, two trailing bytes) -/
example : ∃ r', applySetter ops0 (.hotCueAt 0 (some cue0)) row0 = .ok r' := ⟨_, rfl⟩

/-- `set_loops` (read-modify-write since `fix:` bee2c23 — formerly the known finding
`v2-set-loops-waveform-drop-extra-data`, with `C04_setter_frame_loops_counterexample`): the loops payload is
the encoding of the loop list followed by the trailing `extra_data`; the call replaces the list by the new
(padded) one and keeps the trailing bytes; every other column is byte-identical. -/
theorem C04_setter_frame_loops (ops : FOps) (v : List (Option LoopV)) (r r' : Row)
    (h : applySetter ops (.loops v) r = .ok r') :
    payloadTrack r' = payloadTrack r ∧ payloadOvw r' = payloadOvw r ∧ payloadBeat r' = payloadBeat r ∧
    payloadCues r' = payloadCues r ∧
    ∃ ls, writeLoops v = .ok ls ∧ payloadLoops r = V2.loops.enc r.loops.1 ++ r.loops.2 ∧
      payloadLoops r' = V2.loops.enc ls ++ r.loops.2 :=
  frame_loops ops v r r' h

/-- `set_waveform` (likewise repaired): only the samples-per-entry / points / maximum fields of the overview
waveform payload are replaced; its trailing bytes and every other column are byte-identical. -/
theorem C04_setter_frame_waveform (ops : FOps) (w : List WEntry) (r r' : Row)
    (h : applySetter ops (.waveform w) r = .ok r') :
    payloadTrack r' = payloadTrack r ∧ payloadBeat r' = payloadBeat r ∧ payloadCues r' = payloadCues r ∧
    payloadLoops r' = payloadLoops r ∧
    ∃ o, writeWaveform ops w (getSampleCount r) (getSampleRate r) = .ok o ∧
      payloadOvw r = V2.ovw.enc r.ovw.1 ++ r.ovw.2 ∧ payloadOvw r' = V2.ovw.enc o ++ r.ovw.2 :=
  frame_waveform ops w r r' h

/-- the 15 setters that write plain columns only -/
def columnOnly : Setter → Bool
  | .album _ | .artist _ | .bitrate _ | .bpm _ | .comment _ | .composer _ | .duration _ | .genre _
  | .lastPlayedAt _ | .publisher _ | .rating _ | .relativePath _ | .title _ | .trackNumber _ | .year _ => true
  | _ => false

/-- **The other 15 setters** (`set_album` … `set_year`, incl. `set_bpm`, `set_relative_path`) leave the payload
of all five performance-data columns byte-identical.  Together with the eleven theorems above every one of
the 26 setters is covered. -/
theorem C04_setter_frame_column_setters (ops : FOps) (σ : Setter) (hσ : columnOnly σ = true) (r r' : Row)
    (h : applySetter ops σ r = .ok r') :
    payloadTrack r' = payloadTrack r ∧ payloadOvw r' = payloadOvw r ∧ payloadBeat r' = payloadBeat r ∧
    payloadCues r' = payloadCues r ∧ payloadLoops r' = payloadLoops r := by
  cases σ <;> simp only [columnOnly, Bool.false_eq_true] at hσ <;>
    (simp only [applySetter, Res.ok.injEq] at h; subst h; exact ⟨rfl, rfl, rfl, rfl, rfl⟩)

example : columnOnly (.title (some [65])) = true ∧ columnOnly (.key none) = false := ⟨rfl, rfl⟩

/-- non-vacuity, on the rows of the former counterexamples: `set_loops(loops())` on a loops column with a
foreign trailing byte 0xcc, `set_waveform(waveform())` on an overview column with a trailing 0x09 — both calls
succeed and the payload, foreign byte included, is exactly the old one. -/
example : ∃ r', applySetter ops0 (.loops (getLoops rowL)) rowL = .ok r' ∧
    payloadLoops r' = payloadLoops rowL ∧ (payloadLoops r').getLast? = some 0xcc :=
  loops_setter_keeps_extra_example
example : ∃ r', applySetter ops0 (.waveform (getWaveform row0)) row0 = .ok r' ∧
    payloadOvw r' = payloadOvw row0 ∧ (payloadOvw r').getLast? = some 0x09 :=
  waveform_setter_keeps_extra_example

end SetterFrame

/-! ## the same, about STORED BYTES

The frame theorems above speak about `payloadX r = Spec.X.enc (decoded value) ++ extra`.  The next
theorems tie that to the bytes of the columns before and after the call: if the five stored payloads
`B` decode (Model decoders) to the row `r`, the setter turns `r` into `r'`, and `r'` encodes (Model
encoders) to `B'`, then `payloadX r` IS the stored payload `B.X` (quick cues: `normBool B.c`, the one
permitted normalisation) and `payloadX r'` IS `B'.X`.  Hence every frame theorem is a statement about
stored bytes; the composed forms are stated for the fifteen column-only setters, for the four
fixed-field setters and for the per-slot setters. -/
section StoredBytes
open EngineModel.SetterFrame EngineModel.TracksV2

/-- the five uncompressed performance-data payloads of one Track row -/
structure Stored where
  t : Bytes
  o : Bytes
  b : Bytes
  c : Bytes
  l : Bytes

/-- what `from_blob` makes of the stored payloads is the row's decoded columns -/
def DecodesTo (B : Stored) (r : Row) : Prop :=
  decodeTrack B.t = .ok r.trackData ∧ decodeOvw B.o = .ok r.ovw ∧ decodeBeat B.b = .ok r.beat ∧
  decodeCues B.c = .ok r.cues ∧ decodeLoops B.l = .ok r.loops

/-- what `to_blob` makes of the row's decoded columns is the stored payloads -/
def EncodesTo (r : Row) (B : Stored) : Prop :=
  encodeTrack r.trackData.1 r.trackData.2 = .ok B.t ∧ encodeOvw r.ovw.1 r.ovw.2 = .ok B.o ∧
  encodeBeat r.beat.1 r.beat.2 = .ok B.b ∧ encodeCues r.cues.1 r.cues.2 = .ok B.c ∧
  encodeLoops r.loops.1 r.loops.2 = .ok B.l

theorem C04_stored_payloads (B : Stored) (r : Row) (hlen : B.o.length < maxCount) (h : DecodesTo B r) :
    payloadTrack r = B.t ∧ payloadOvw r = B.o ∧ payloadBeat r = B.b ∧ payloadCues r = normBool B.c ∧
    payloadLoops r = B.l := by
  obtain ⟨ht, ho, hb, hc, hl⟩ := h
  refine ⟨?_, ?_, ?_, ?_, ?_⟩
  · rw [decodeTrack_eq, liftDec_ok_iff] at ht
    exact ((track_exact _ _ _ ht).2).symm
  · rw [decodeOvw_eq _ hlen, liftDec_ok_iff] at ho
    exact ((ovw_exact _ _ _ ho).2).symm
  · rw [decodeBeat_eq, liftDec_ok_iff] at hb
    exact ((beat_exact _ _ _ hb).2).symm
  · have := C04_v2_cues_reencode B.c r.cues.1 r.cues.2 hc
    rw [decodeCues_eq, liftDec_ok_iff] at hc
    obtain ⟨raw, hraw, hv⟩ := cues_dec_raw hc
    have hfit := (cuesRaw_exact _ _ _ hraw).1
    rw [encodeCues_ok r.cues.1 (by rw [hv]; exact fun q hq => hfit.2 q hq)] at this
    injection this
  · rw [decodeLoops_eq, liftDec_ok_iff] at hl
    exact ((loops_exact _ _ _ hl).2).symm

theorem C04_written_payloads (r : Row) (B : Stored) (hv : r.ovw.1.Valid) (h : EncodesTo r B) :
    payloadTrack r = B.t ∧ payloadOvw r = B.o ∧ payloadBeat r = B.b ∧ payloadCues r = B.c ∧ payloadLoops r = B.l := by
  obtain ⟨ht, ho, hb, hc, hl⟩ := h
  refine ⟨?_, ?_, ?_, ?_, ?_⟩
  · rw [encodeTrack_ok] at ht; injection ht
  · rw [encodeOvw_ok _ hv] at ho; injection ho
  · rw [encodeBeat_ok] at hb; injection hb
  · by_cases hf : CuesFit r.cues.1
    · rw [encodeCues_ok _ hf] at hc; injection hc
    · rw [encodeCues_reject _ hf] at hc; cases hc
  · by_cases hf : LoopsFit r.loops.1
    · rw [encodeLoops_ok _ hf] at hl; injection hl
    · rw [encodeLoops_reject _ hf] at hl; cases hl

/-- the performance-data columns a read-modify-write setter names -/
def touchesTrack : Setter → Bool
  | .averageLoudness _ | .key _ | .sampleCount _ | .sampleRate _ => true | _ => false
def touchesBeat : Setter → Bool
  | .beatgrid _ | .sampleCount _ | .sampleRate _ => true | _ => false
def touchesCues : Setter → Bool
  | .hotCueAt _ _ | .hotCues _ | .mainCue _ => true | _ => false
def touchesLoops : Setter → Bool
  | .loopAt _ _ | .loops _ => true | _ => false
def touchesOvw : Setter → Bool
  | .waveform _ => true | _ => false

/-- **All 26 setters: a performance-data column the setter does not name is not changed at all** (decoded
value and trailing bytes) — in particular the fifteen column-only setters change none of the five. -/
theorem C04_setter_untouched_columns (ops : FOps) (σ : Setter) (r r' : Row) (h : applySetter ops σ r = .ok r') :
    (touchesTrack σ = false → r'.trackData = r.trackData) ∧ (touchesOvw σ = false → r'.ovw = r.ovw) ∧
    (touchesBeat σ = false → r'.beat = r.beat) ∧ (touchesCues σ = false → r'.cues = r.cues) ∧
    (touchesLoops σ = false → r'.loops = r.loops) := by
  have bind_ok : ∀ {α β} {x : Res α} {f : α → Res β} {b : β}, x.bind f = .ok b → ∃ a, x = .ok a ∧ f a = .ok b := by
    intro α β x f b hb
    cases x with
    | ok a => exact ⟨a, rfl, hb⟩
    | throw e => cases hb
    | ub u => cases hb
  cases σ <;> simp only [applySetter] at h <;>
    first
    | (injection h with h; subst h; simp [touchesTrack, touchesOvw, touchesBeat, touchesCues, touchesLoops])
    | (obtain ⟨_, _, h⟩ := bind_ok h
       obtain ⟨_, _, h⟩ := bind_ok h
       injection h with h; subst h; simp [touchesTrack, touchesOvw, touchesBeat, touchesCues, touchesLoops])
    | (obtain ⟨_, _, h⟩ := bind_ok h
       injection h with h; subst h; simp [touchesTrack, touchesOvw, touchesBeat, touchesCues, touchesLoops])

theorem C04_column_only_setters (ops : FOps) (σ : Setter) (hσ : columnOnly σ = true) (r r' : Row)
    (h : applySetter ops σ r = .ok r') :
    r'.trackData = r.trackData ∧ r'.ovw = r.ovw ∧ r'.beat = r.beat ∧ r'.cues = r.cues ∧ r'.loops = r.loops := by
  obtain ⟨h1, h2, h3, h4, h5⟩ := C04_setter_untouched_columns ops σ r r' h
  cases σ <;> simp [columnOnly] at hσ <;> exact ⟨h1 rfl, h2 rfl, h3 rfl, h4 rfl, h5 rfl⟩

/-- Stored-bytes form, fifteen column-only setters: decode the five stored payloads, apply the setter,
encode — every payload is byte-identical (quick cues: up to `normBool`). -/
theorem C04_column_only_setters_bytes (ops : FOps) (σ : Setter) (hσ : columnOnly σ = true) (B B' : Stored)
    (r r' : Row) (hlen : B.o.length < maxCount) (hd : DecodesTo B r)
    (h : applySetter ops σ r = .ok r') (he : EncodesTo r' B') :
    B'.t = B.t ∧ B'.o = B.o ∧ B'.b = B.b ∧ B'.c = normBool B.c ∧ B'.l = B.l := by
  obtain ⟨e1, e2, e3, e4, e5⟩ := C04_column_only_setters ops σ hσ r r' h
  have hv : r'.ovw.1.Valid := by
    rw [e2]
    have ho := hd.2.1
    rw [decodeOvw_eq _ hlen, liftDec_ok_iff] at ho
    exact (ovw_exact _ _ _ ho).1
  obtain ⟨p1, p2, p3, p4, p5⟩ := C04_stored_payloads B r hlen hd
  obtain ⟨q1, q2, q3, q4, q5⟩ := C04_written_payloads r' B' hv he
  unfold payloadTrack at p1 q1; unfold payloadOvw at p2 q2; unfold payloadBeat at p3 q3
  unfold payloadCues at p4 q4; unfold payloadLoops at p5 q5
  rw [e1] at q1; rw [e2] at q2; rw [e3] at q3; rw [e4] at q4; rw [e5] at q5
  exact ⟨by rw [← q1, p1], by rw [← q2, p2], by rw [← q3, p3], by rw [← q4, p4], by rw [← q5, p5]⟩

/-- Stored-bytes form, the four fixed-field setters: the track-data payload changes only inside the byte
range of the named field (and the beat-data payload for the two sample setters); overview, quick cues
(up to `normBool`) and loops are byte-identical. -/
theorem C04_fixed_field_setters_bytes (ops : FOps) (B B' : Stored) (r r' : Row)
    (hlen : B.o.length < maxCount) (hd : DecodesTo B r) (he : EncodesTo r' B') :
    (∀ v, applySetter ops (.averageLoudness v) r = .ok r' →
      AgreeOutside 20 44 B.t B'.t ∧ B'.o = B.o ∧ B'.b = B.b ∧ B'.c = normBool B.c ∧ B'.l = B.l) ∧
    (∀ v, applySetter ops (.key v) r = .ok r' →
      AgreeOutside 16 20 B.t B'.t ∧ B'.o = B.o ∧ B'.b = B.b ∧ B'.c = normBool B.c ∧ B'.l = B.l) ∧
    (∀ v, applySetter ops (.sampleCount v) r = .ok r' →
      AgreeOutside 8 16 B.t B'.t ∧ AgreeOutside 8 16 B.b B'.b ∧ B'.o = B.o ∧ B'.c = normBool B.c ∧ B'.l = B.l) ∧
    (∀ v, applySetter ops (.sampleRate v) r = .ok r' →
      AgreeOutside 0 8 B.t B'.t ∧ AgreeOutside 0 8 B.b B'.b ∧ B'.o = B.o ∧ B'.c = normBool B.c ∧ B'.l = B.l) := by
  obtain ⟨p1, p2, p3, p4, p5⟩ := C04_stored_payloads B r hlen hd
  have hvalid : ∀ σ, touchesOvw σ = false → applySetter ops σ r = .ok r' → r'.ovw.1.Valid := by
    intro σ hσ h
    have e2 := (C04_setter_untouched_columns ops σ r r' h).2.1 hσ
    rw [e2]
    have ho := hd.2.1
    rw [decodeOvw_eq _ hlen, liftDec_ok_iff] at ho
    exact (ovw_exact _ _ _ ho).1
  refine ⟨?_, ?_, ?_, ?_⟩
  · intro v h
    obtain ⟨q1, q2, q3, q4, q5⟩ := C04_written_payloads r' B' (hvalid _ rfl h) he
    obtain ⟨f1, f2, f3, f4, f5⟩ := C04_setter_frame_average_loudness ops v r r' h
    rw [p1, q1] at f1; rw [p2, q2] at f2; rw [p3, q3] at f3; rw [p4, q4] at f4; rw [p5, q5] at f5
    exact ⟨f1, f2, f3, f4, f5⟩
  · intro v h
    obtain ⟨q1, q2, q3, q4, q5⟩ := C04_written_payloads r' B' (hvalid _ rfl h) he
    obtain ⟨f1, f2, f3, f4, f5⟩ := C04_setter_frame_key ops v r r' h
    rw [p1, q1] at f1; rw [p2, q2] at f2; rw [p3, q3] at f3; rw [p4, q4] at f4; rw [p5, q5] at f5
    exact ⟨f1, f2, f3, f4, f5⟩
  · intro v h
    obtain ⟨q1, q2, q3, q4, q5⟩ := C04_written_payloads r' B' (hvalid _ rfl h) he
    obtain ⟨f1, f2, f3, f4, f5⟩ := C04_setter_frame_sample_count ops v r r' h
    rw [p1, q1] at f1; rw [p3, q3] at f2; rw [p2, q2] at f3; rw [p4, q4] at f4; rw [p5, q5] at f5
    exact ⟨f1, f2, f3, f4, f5⟩
  · intro v h
    obtain ⟨q1, q2, q3, q4, q5⟩ := C04_written_payloads r' B' (hvalid _ rfl h) he
    obtain ⟨f1, f2, f3, f4, f5⟩ := C04_setter_frame_sample_rate ops v r r' h
    rw [p1, q1] at f1; rw [p3, q3] at f2; rw [p2, q2] at f3; rw [p4, q4] at f4; rw [p5, q5] at f5
    exact ⟨f1, f2, f3, f4, f5⟩

/-- Stored-bytes form, the per-slot setters: in the stored quick-cues (loops) payload only the bytes of
entry `i` are replaced; the other four payloads are byte-identical. -/
theorem C04_slot_setters_bytes (ops : FOps) (B B' : Stored) (r r' : Row)
    (hlen : B.o.length < maxCount) (hd : DecodesTo B r) (he : EncodesTo r' B') :
    (∀ i v, applySetter ops (.hotCueAt i v) r = .ok r' →
      B'.t = B.t ∧ B'.o = B.o ∧ B'.b = B.b ∧ B'.l = B.l ∧
      ∃ pre post old, normBool B.c = pre ++ V2.cue.enc old ++ post ∧
        B'.c = pre ++ V2.cue.enc (writeHotCue v) ++ post ∧ r.cues.1.cues[i.toNat]? = some old) ∧
    (∀ i v, applySetter ops (.loopAt i v) r = .ok r' →
      B'.t = B.t ∧ B'.o = B.o ∧ B'.b = B.b ∧ B'.c = normBool B.c ∧
      ∃ pre post old, B.l = pre ++ V2.loop.enc old ++ post ∧
        B'.l = pre ++ V2.loop.enc (writeLoop v) ++ post ∧ r.loops.1[i.toNat]? = some old) := by
  obtain ⟨p1, p2, p3, p4, p5⟩ := C04_stored_payloads B r hlen hd
  have hvalid : ∀ σ, touchesOvw σ = false → applySetter ops σ r = .ok r' → r'.ovw.1.Valid := by
    intro σ hσ h
    have e2 := (C04_setter_untouched_columns ops σ r r' h).2.1 hσ
    rw [e2]
    have ho := hd.2.1
    rw [decodeOvw_eq _ hlen, liftDec_ok_iff] at ho
    exact (ovw_exact _ _ _ ho).1
  refine ⟨?_, ?_⟩
  · intro i v h
    obtain ⟨q1, q2, q3, q4, q5⟩ := C04_written_payloads r' B' (hvalid _ rfl h) he
    obtain ⟨f1, f2, f3, f5, pre, post, old, g1, g2, g3⟩ := C04_setter_frame_hot_cue_at ops i v r r' h
    rw [p1, q1] at f1; rw [p2, q2] at f2; rw [p3, q3] at f3; rw [p5, q5] at f5
    rw [p4] at g1; rw [q4] at g2
    exact ⟨f1, f2, f3, f5, pre, post, old, g1, g2, g3⟩
  · intro i v h
    obtain ⟨q1, q2, q3, q4, q5⟩ := C04_written_payloads r' B' (hvalid _ rfl h) he
    obtain ⟨f1, f2, f3, f4, pre, post, old, g1, g2, g3⟩ := C04_setter_frame_loop_at ops i v r r' h
    rw [p1, q1] at f1; rw [p2, q2] at f2; rw [p3, q3] at f3; rw [p4, q4] at f4
    rw [p5] at g1; rw [q5] at g2
    exact ⟨f1, f2, f3, f4, pre, post, old, g1, g2, g3⟩

example : columnOnly (.title (some [65])) = true ∧ columnOnly (.key none) = false := by decide

/-- non-vacuity: the foreign-looking row of the frame section (three cue entries, a labelled empty slot,
trailing bytes in every column) is what its own payloads decode to and encode from -/
example : DecodesTo ⟨payloadTrack row0, payloadOvw row0, payloadBeat row0, payloadCues row0, payloadLoops row0⟩ row0 ∧
    EncodesTo row0 ⟨payloadTrack row0, payloadOvw row0, payloadBeat row0, payloadCues row0, payloadLoops row0⟩ := by
  unfold DecodesTo EncodesTo
  refine ⟨⟨?_, ?_, ?_, ?_, ?_⟩, ⟨?_, ?_, ?_, ?_, ?_⟩⟩ <;> set_option maxRecDepth 8192 in decide

end StoredBytes

end EngineModel.Properties.C04
