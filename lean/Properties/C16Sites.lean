/-
C16, the static route — no observing entry point, as the source is written, can reach a writing SQL statement.

`EngineModel.Gen.SqlSites.observers` (regenerated from clang's typed AST on every run): the skeletons of every
observing entry point (getters, listings, lookups, verify, snapshot) of the impl classes behind djinterop::track /
crate / database of both schema generations and of the const / `get*` / `find*` / `*_ids` methods of the public 2.x
table classes, calls resolved transitively.
-/
import EngineModel.Gen.SqlSites
import Proofs.SqlSites
import Properties.C16

namespace EngineModel.Properties.C16Sites
open EngineModel.Spec.Txn hiding Ev
open EngineModel.Spec.SqlSites EngineModel.Proofs.SqlSites

/-- **Soundness**: a skeleton without a reachable writing statement site only has traces without a writing
statement, so (`C16_no_write_no_change`) any concrete call with such a trace — under any fault plan, scopes opened
or not — leaves the committed database as it was. -/
theorem C16_sites_sound {α : Type} (sk : Sk) (h : sk.noWrite = true) (evs : List Ev) (f : Bool) (hr : Run sk evs f)
    (cs : List (Cmd α)) (hk : cs.map Cmd.kind = conc 0 evs) (fault : Option Nat) (auto : Bool) (db : α) :
    (call fault auto cs db).conn.committed = db := by
  have hw := conc_noWrite evs 0 (noWrite_run hr h)
  apply EngineModel.Properties.C16.C16_no_write_no_change
  intro x hx
  apply hw
  rw [← hk]
  exact List.mem_map_of_mem hx

/-- A skeleton with reading statement sites only (and no scope) has only traces the monitor of C16 classifies as
observer (`readOnlyShape`). -/
theorem C16_sites_readonly_sound (sk : Sk) (h : sk.readOnly = true) (evs : List Ev) (f : Bool) (hr : Run sk evs f) :
    readOnlyShape (conc 0 evs) = true :=
  conc_readOnly evs 0 (readOnly_run hr h)

/-- Observing entry points that can reach a writing statement in the current source, with the reason.  Empty. -/
def exceptions : List (String × String) := []

/-- **No observing entry point of the current source can reach a writing SQL statement** (whatever the branch, the
state or the arguments). -/
theorem C16_sites_observers_read_only :
    ∀ e ∈ EngineModel.Gen.SqlSites.observers, e.1 ∉ exceptions.map (·.1) → e.2.noWrite = true := by
  decide +kernel

/-- some statement site or scope is reachable -/
def hasSite : Sk → Bool
  | .eps => false
  | .ev _ => true
  | .seq a b => hasSite a || hasSite b
  | .alt a b => hasSite a || hasSite b
  | .star a => hasSite a
  | .scope _ => true
  | .ret a => hasSite a

/-- Not vacuous: well over a hundred observers with a reachable (reading) statement site; and the mutators are
not accepted by the same predicate. -/
theorem C16_sites_coverage :
    120 ≤ (EngineModel.Gen.SqlSites.observers.filter (fun e => hasSite e.2)).length ∧
    100 ≤ (EngineModel.Gen.SqlSites.mutators.filter (fun e => !e.2.noWrite)).length := by
  decide +kernel

/-! ### non-vacuity -/
example : (Sk.seqs [.r, .star (.alts [.r, .eps])]).noWrite = true := by decide
example : (Sk.scope (.seqs [.r, .c])).noWrite = true ∧ (Sk.scope (.seqs [.r, .c])).readOnly = false := by decide
example : (Sk.seqs [.r, .ret .w]).noWrite = false := by decide
example : Run (.seq .r (.star .r)) ([.read] ++ ([.read] ++ [])) false :=
  Run.seqN (Run.ev .read) (Run.starN (Run.ev .read) Run.starNil)

end EngineModel.Properties.C16Sites
