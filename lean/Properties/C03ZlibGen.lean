/-
C03 on `zlib_compress` REGENERATED from the C++ (`Gen/ZlibGen.lean`, tools/tr_zlib.py): the statements
registered about the hand loops (`Properties/C03.lean`, `C03_compress_complete` / `_empty_ub` /
`_chunk_schedule` / `_finish_only_last`) transferred through `Gen.Zlib.compress_eq_partial`
(Proofs/ZlibGenCompressEq.lean).  The proofs depend on the regenerated bodies: a change of the C++ loops that
changes the translation breaks `lake build`.
-/
import Proofs.ZlibGenCompressEq
import Proofs.ZlibCompressChunks

namespace EngineModel.Properties.C03ZlibGen
open EngineModel EngineModel.Impl.Zlib

/-- The regenerated function IS the hand model — same output bytes and same call log: every deflate oracle
that keeps to the sizes it was given (`DSized`: it never claims more input than its window nor more output
than `avail_out`), every stream state, every fuel (the same number on both sides), every payload (the empty
one included), every initial content `c0` of the by-value parameter `compressed`.
Full statement (no `DSized`) false: see the end of Proofs/ZlibGenCompressEq.lean. -/
theorem C03_gen_compress_eq_partial {σ : Type} (o : DOracle σ) (hsz : Gen.Zlib.DSized o) (s0 : σ) (fuel : Nat)
    (buf c0 : Bytes) :
    Gen.Zlib.compress o s0 fuel buf c0 = compress o s0 fuel buf :=
  Gen.Zlib.compress_eq_partial o hsz s0 fuel buf c0

/-- For every deflate oracle honouring the call contract, every live start state, every non-empty payload and
every fuel of at least `cFuelBound` (linear in the payload): the REGENERATED `zlib_compress` returns; the blob
is the 4-byte length prefix OF THE PAYLOAD LENGTH followed by all output of all `deflate()` calls in order;
the calls consumed the WHOLE payload; the loops stopped only after a `Z_FINISH` call answered
`Z_STREAM_END`. -/
theorem C03_gen_compress_complete {σ : Type} (o : DOracle σ) (c : DContract o) (s0 : σ) (hs0 : c.live s0)
    (buf c0 : Bytes) (hne : buf ≠ []) (fuel : Nat) (hf : cFuelBound c s0 buf.length ≤ fuel) :
    ∃ blob log, Gen.Zlib.compress o s0 fuel buf c0 = .ok (blob, log) ∧
      blob = lenPrefix buf.length ++ log.flatMap (·.out) ∧
      (log.map (·.consumed)).sum = buf.length ∧
      ∃ d, log.getLast? = some d ∧ d.flush = .finish ∧ d.ret = .streamEnd := by
  rw [Gen.Zlib.compress_eq_partial o (Gen.Zlib.DSized.of_contract c) s0 fuel buf c0]
  exact compress_complete o c s0 hs0 buf hne fuel hf

/-- The hypothesis `buf ≠ []` is what the code needs: the regenerated `auto* ptr = &uncompressed[0]` on an
empty vector is `ub oob_index` — for EVERY oracle (no `DSized` needed: no call is made). -/
theorem C03_gen_compress_empty_ub {σ : Type} (o : DOracle σ) (s0 : σ) (fuel : Nat) (c0 : Bytes) :
    Gen.Zlib.compress o s0 fuel [] c0 = .ub .oob_index := by
  unfold Gen.Zlib.compress Gen.Zlib.compress_fn Gen.Zlib.compress_init
  have htl : Impl.ZlibCxx.tooLong 4 = false := by decide
  simp only [htl, Bool.false_eq_true, if_false, Gen.Zlib.encode_prefix, Res.bind, List.length_nil,
    Nat.le_refl, if_true, Impl.ZlibCxx.result]

/-- If the regenerated `zlib_compress` returns, its recorded calls follow `chunkPlan (payload length)` window
by window (`Sched`: per window a non-empty run of calls with that window's flush mode, the first seeing the
whole window, every call but the last of a run having filled the output buffer). -/
theorem C03_gen_compress_chunk_schedule_partial {σ : Type} (o : DOracle σ) (hsz : Gen.Zlib.DSized o) (s0 : σ)
    (fuel : Nat) (buf c0 : Bytes) (blob : Bytes) (log : List DCall)
    (h : Gen.Zlib.compress o s0 fuel buf c0 = .ok (blob, log)) :
    Sched (chunkPlan buf.length) log := by
  rw [Gen.Zlib.compress_eq_partial o hsz s0 fuel buf c0] at h
  exact compress_sched o s0 fuel buf blob log h

/-- **The last window, and only the last window, carries `Z_FINISH`, for every payload length** — of the
regenerated function: the log is `pre ++ fin`, every call of `pre` is `Z_NO_FLUSH`, `fin` is the non-empty run
of `Z_FINISH` calls, and its first call is handed exactly `finalChunkLen n` bytes. -/
theorem C03_gen_compress_finish_only_last_partial {σ : Type} (o : DOracle σ) (hsz : Gen.Zlib.DSized o) (s0 : σ)
    (fuel : Nat) (buf c0 : Bytes) (blob : Bytes) (log : List DCall)
    (h : Gen.Zlib.compress o s0 fuel buf c0 = .ok (blob, log)) :
    ∃ pre fin, log = pre ++ fin ∧
      (∀ d ∈ pre, d.flush = .noFlush) ∧ (∀ d ∈ fin, d.flush = .finish) ∧ fin ≠ [] ∧
      Sched (List.replicate (fullChunks buf.length) (.noFlush, chunk)) pre ∧
      Run .finish (finalChunkLen buf.length) fin ∧
      ∃ d, fin.head? = some d ∧ d.availIn = finalChunkLen buf.length := by
  rw [Gen.Zlib.compress_eq_partial o hsz s0 fuel buf c0] at h
  exact compress_finish_only_last o s0 fuel buf blob log h

/-! non-vacuity -/

/-- the pass-through oracle honours the contract (`storeContract`), hence is `DSized`; fuel `4·n + 2` -/
example : Gen.Zlib.DSized storeOracle := Gen.Zlib.DSized.of_contract storeContract
example : Gen.Zlib.DSized bufOracle := Gen.Zlib.DSized.of_contract bufContract
example : cFuelBound storeContract () 100000 = 400002 := by decide
example : ([0x2a] : Bytes) ≠ [] := by decide

/-- the hypothesis `… = .ok (blob, log)` of the two schedule theorems is met for every non-empty payload: the
regenerated function returns through the pass-through oracle -/
example (buf c0 : Bytes) (hne : buf ≠ []) :
    ∃ blob log, Gen.Zlib.compress storeOracle () (4 * buf.length + 2) buf c0 = .ok (blob, log) := by
  obtain ⟨blob, log, h, _⟩ := C03_gen_compress_complete storeOracle storeContract () trivial buf c0 hne
    (4 * buf.length + 2) (by simp only [cFuelBound, storeContract]; omega)
  exact ⟨blob, log, h⟩

end EngineModel.Properties.C03ZlibGen
