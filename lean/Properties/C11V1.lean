/-
C11 — The stored database stays a well-formed Engine library.   Schema 1.x half (crate tables,
membership table, and the per-track derived columns).

`WfRaw` (EngineModel/Api/CratesV1Wf.lean) is an EXECUTABLE predicate on a raw dump of Crate,
CrateParentList, CrateHierarchy, CrateTrackList (stored rows) and Track, written from the property text:
the three redundant encodings of the crate forest — path strings, parent list, flattened hierarchy —
describe the same forest (`absForest`, read off the parent list, judged with the Spec's own `isAncestor`
and `pathOf`), ids are keys, names are valid, no row mentions a crate or track that does not exist,
memberships are duplicate-free.  The tie evaluates the same function on the rows an independent reader
takes from the real database after every step.
-/
import Proofs.CratesV1Suffix
import Proofs.CratesV1TrackHist

namespace EngineModel.Properties.C11V1
open EngineModel EngineModel.Api.CratesV1 EngineModel.Spec EngineModel.Pure.Detect
open EngineModel.Api.TrackColsV1 EngineModel.Spec.PathParts

/-- Reachable ⇒ well-formed: after every history of crate / membership / track operations (any arguments)
on any 1.x schema version the raw tables satisfy `WfRaw`. -/
theorem C11_reachable_wellformed (s : Schema) (ops : List Op) : WfRaw (run s Db.empty ops) = true :=
  wfRaw_of_inv (inv_run s ops inv_empty)

/-- … i.e. the list of failing conjuncts the driver prints is empty. -/
theorem C11_no_failing_conjunct (s : Schema) (ops : List Op) : wfFailures (run s Db.empty ops) = [] :=
  wfFailures_of_inv (inv_run s ops inv_empty)

/-- The three encodings agree, spelled out as propositions: in every reachable state, with `f` the forest
read off CrateParentList,
  * every Crate.path is the names from the root down to the crate, each followed by ';';
  * CrateHierarchy is exactly the strict-ancestor relation of `f`;
  * CrateParentList has exactly one row per live crate: its parent, or itself for a root. -/
theorem C11_encodings_agree (s : Schema) (ops : List Op) :
    let db := run s Db.empty ops
    let f := absForest db
    (∀ r ∈ db.crate, r.path = pathOf f r.id) ∧
    (∀ a c, (a, c) ∈ db.ch ↔ f.isAncestor a c = true) ∧
    (∀ c p, (c, p) ∈ db.cpl ↔ (f.live c = true ∧ (f.parentOf c = some p ∨ (f.parentOf c = none ∧ p = c)))) ∧
    (db.cpl.map (·.1)).Nodup ∧ db.ch.Nodup := by
  intro db f
  have h : Inv db := inv_run s ops inv_empty
  have hf := h.toFInv
  refine ⟨path_eq_pathOf h, fun a c => (isAncestor_iff hf a c).symm, ?_, hf.cplNodup, hf.chNodup⟩
  intro c p
  show _ ↔ ((absForest db).live c = true ∧ _)
  rw [abs_live, abs_parentOf hf]
  constructor
  · intro hm
    have hc : c ∈ ids db := (hf.cplTotal c).mp (List.mem_map_of_mem (f := (·.1)) hm)
    refine ⟨hc, ?_⟩
    by_cases hpc : p = c
    · right
      obtain ⟨r, hr, rfl⟩ := exists_row hc
      exact ⟨(root_row_iff hf hr).mpr (hpc ▸ hm), hpc⟩
    · exact Or.inl ((parentOf_eq_some hf).mpr ⟨hm, hpc⟩)
  · rintro ⟨hc, hp | ⟨hp, rfl⟩⟩
    · exact ((parentOf_eq_some hf).mp hp).1
    · obtain ⟨r, hr, rfl⟩ := exists_row hc
      exact (root_row_iff hf hr).mp hp

/-- `WfRaw` is EXACTLY the invariant: for any raw state whatsoever (reachable or not — e.g. the rows read back
from the real database), the executable predicate holds iff `Inv` does.  So a dump that passes the run-time
check satisfies everything the C07 / C08 query agreements are derived from, and a dump that fails it violates
a named part of the invariant. -/
theorem C11_wfRaw_iff_invariant (db : Db) : WfRaw db = true ↔ Inv db := wfRaw_iff_inv db

/-- Well-formedness is preserved by every operation from ANY well-formed raw state (a loaded library that passes
the check), not only along histories from the empty library. -/
theorem C11_step_preserves_wellformedness (s : Schema) (db : Db) (hw : WfRaw db = true) (op : Op) :
    WfRaw (step s db op).1 = true :=
  wfRaw_of_inv (step_ok s (inv_of_wfRaw hw) op).1

/-- "foreign-key checks are clean", for the modelled tables: `fkViolations` lists what `PRAGMA foreign_key_check`
reports for CrateParentList / CrateHierarchy / CrateTrackList (child rows whose Crate or Track row is missing);
it is empty on every well-formed state, hence after every history. -/
theorem C11_foreign_key_check_clean (db : Db) (hw : WfRaw db = true) : fkViolations db = [] :=
  fk_clean (inv_of_wfRaw hw)

theorem C11_foreign_key_check_clean_reachable (s : Schema) (ops : List Op) : fkViolations (run s Db.empty ops) = [] :=
  fk_clean (inv_run s ops inv_empty)

/-- non-vacuity of `fkViolations`: the state remove_crate left before 1ccf623 (parent-list and membership rows of
the removed crate 1) is reported. -/
example : fkViolations ⟨[], [(1, 1)], [], [(1, 1)], [⟨1, true⟩], 0⟩
    = [("CrateParentList", 1, 1), ("CrateTrackList", 1, 1)] := by decide +kernel

/-- Memberships are stored once, and only between crates and tracks that exist. -/
theorem C11_membership_rows_wellformed (s : Schema) (ops : List Op) :
    let db := run s Db.empty ops
    db.ctl.Nodup ∧ (∀ r ∈ db.ctl, crateIsValid db r.1 = .ok true ∧ r.2 ∈ dbTracks db) ∧
    (db.track.map (·.id)).Nodup := by
  intro db
  have h : Inv db := inv_run s ops inv_empty
  refine ⟨h.ctlNodup, ?_, h.trackNodup⟩
  intro r hr
  refine ⟨(isValid_iff h.toFInv r.1).mpr (h.ctlLive r hr).1, ?_⟩
  unfold dbTracks sortIds
  rw [List.mem_mergeSort, mem_liveIds]
  exact (h.ctlLive r hr).2

/-- `WfRaw` is not vacuous: the raw states the pre-fix code produced are rejected — a parent-list row
surviving its crate (remove_crate before 1ccf623), a hierarchy and paths left behind by a re-parenting
(set_parent before 69e5e90: a;b;c; with b moved under d), a membership row of a removed track. -/
theorem C11_wfRaw_rejects_known_damage :
    WfRaw ⟨[], [(1, 1)], [], [], [], 0⟩ = false ∧
    WfRaw ⟨[⟨1, [97], [97, 59]⟩, ⟨2, [98], [97, 59, 98, 59]⟩, ⟨3, [99], [97, 59, 98, 59, 99, 59]⟩, ⟨4, [100], [100, 59]⟩],
           [(1, 1), (3, 2), (4, 4), (2, 4)], [(1, 3), (2, 3), (4, 2)], [], [], 0⟩ = false ∧
    WfRaw ⟨[⟨1, [97], [97, 59]⟩], [(1, 1)], [], [(1, 1)], [], 0⟩ = false := by
  decide +kernel

/-- … while the corresponding repaired states are accepted. -/
example :
    WfRaw ⟨[⟨1, [97], [97, 59]⟩, ⟨2, [98], [100, 59, 98, 59]⟩, ⟨3, [99], [100, 59, 98, 59, 99, 59]⟩, ⟨4, [100], [100, 59]⟩],
           [(1, 1), (3, 2), (4, 4), (2, 4)], [(2, 3), (4, 2), (4, 3)], [(3, 1)], [⟨1, true⟩], 0⟩ = true := by
  decide +kernel

/-! ### derived per-track columns

Model: the tracks work-package's multi-track database `TracksV1.Db` with `dbCreate` (create_track), `dbUpdate`
(track::update), `dbSet` (all 26 single-field setters, `set_relative_path` among them) and `dbRemove`; histories
`TOp` / `tRun` in `EngineModel/Api/TrackColsV1.lean` (a throwing call leaves the database as it was).
Spec: `EngineModel/Spec/PathParts.lean` — "file name = longest suffix without '/'", "extension = longest suffix of
the file name without '.', if it contains one" — independent of the library's `rfind` / `substr` arithmetic. -/

/-- After EVERY history of track operations, on every 1.x schema version: every stored track has a path,
`Track.filename` is the file-name part of that path and the MetaData text row of type 13 holds the extension of
that file name (NULL when it has none) — `derivedOk`, the executable predicate the tie also evaluates. -/
theorem C11_track_derived_columns_after_every_history (o : TracksV1.Fl.FOps) (s : TracksV1.Schema) (ops : List TOp) :
    derivedOk (tRun o ⟨s, []⟩ ops) = true :=
  (derivedOk_iff _).mpr (dok_run o ops ⟨s, []⟩ (fun e he => by cases he))

/-- … and every operation preserves it from ANY database that satisfies it (a loaded library). -/
theorem C11_track_derived_columns_step (o : TracksV1.Fl.FOps) (d : TracksV1.Db) (h : derivedOk d = true) (op : TOp) :
    derivedOk (tStep o d op) = true :=
  (derivedOk_iff _).mpr (dok_step o d ((derivedOk_iff d).mp h) op)

/-- The library's index arithmetic computes the Spec's parts: `get_filename` (rfind '/' + substr) is the longest
'/'-free suffix; the stored extension (`get_file_extension` of the file name: rfind '.' + substr, none without a
dot) is the Spec's extension of the Spec's file name. -/
theorem C11_path_parts_agree_with_spec (p : Bytes) :
    TracksV1.getFilename p = fileNamePart p ∧
    TracksV1.getExtension (TracksV1.getFilename p) = extensionPart (fileNamePart p) :=
  ⟨TracksV1.getFilename_spec p, TracksV1.getExtension_spec p⟩

/-- non-vacuity: create "a/b.mp3", then set_relative_path "d.e/f.g.h": the stored cells follow the new path;
and `derivedOk` is false on rows whose filename was left behind. -/
example :
    ((tRun ⟨fun _ => 0, fun _ => 0, fun _ _ => 0, fun x => x⟩ ⟨.s1_6_0, []⟩
      [.create { TracksV1.Snap.empty with relativePath := some [97, 47, 98, 46, 109, 112, 51] },
       .set 1 .relativePath [100, 46, 101, 47, 102, 46, 103, 46, 104]]).tracks.map
        fun e => (e.1, e.2.track.filename, TracksV1.aget 13 e.2.mstr))
      = [(1, some [102, 46, 103, 46, 104], some (some [104]))] := by
  decide +kernel

example : fileNamePart [100, 46, 101, 47, 102] = [102] ∧ extensionPart [102] = none ∧
    extensionPart [46, 102] = some [102] ∧ extensionPart [102, 46] = some [] := by decide +kernel

example : rowDerivedOk ⟨{ TracksV1.TrackRow.blank with path := some [97, 47, 98], filename := some [97] }, [], [], none⟩ = false := by
  decide +kernel

end EngineModel.Properties.C11V1
