/-
C11 — The stored database stays a well-formed Engine library.   Schema 1.x half (crate tables,
membership table, and the per-track derived columns).

`WfRaw` (EngineModel/Api/CratesV1Wf.lean) is an EXECUTABLE predicate on a raw dump of Crate,
CrateParentList, CrateHierarchy, CrateTrackList (stored rows) and Track, written from the property text:
the three redundant encodings of the crate forest — path strings, parent list, flattened hierarchy —
describe the same forest (`absForest`, read off the parent list, judged with the Spec's own `isAncestor`
and `pathOf`), ids are keys, names are valid, no row mentions a crate or track that does not exist,
memberships are duplicate-free.  The tie evaluates the same function on the rows an independent reader
takes from the real database after every step.
-/
import Proofs.CratesV1WfConv
import Proofs.CratesV1TrackCols

namespace EngineModel.Properties.C11V1
open EngineModel EngineModel.Api.CratesV1 EngineModel.Spec EngineModel.Pure.Detect

/-- Reachable ⇒ well-formed: after every history of crate / membership / track operations (any arguments)
on any 1.x schema version the raw tables satisfy `WfRaw`. -/
theorem C11_reachable_wellformed (s : Schema) (ops : List Op) : WfRaw (run s Db.empty ops) = true :=
  wfRaw_of_inv (inv_run s ops inv_empty)

/-- … i.e. the list of failing conjuncts the driver prints is empty. -/
theorem C11_no_failing_conjunct (s : Schema) (ops : List Op) : wfFailures (run s Db.empty ops) = [] :=
  wfFailures_of_inv (inv_run s ops inv_empty)

/-- The three encodings agree, spelled out as propositions: in every reachable state, with `f` the forest
read off CrateParentList,
  * every Crate.path is the names from the root down to the crate, each followed by ';';
  * CrateHierarchy is exactly the strict-ancestor relation of `f`;
  * CrateParentList has exactly one row per live crate: its parent, or itself for a root. -/
theorem C11_encodings_agree (s : Schema) (ops : List Op) :
    let db := run s Db.empty ops
    let f := absForest db
    (∀ r ∈ db.crate, r.path = pathOf f r.id) ∧
    (∀ a c, (a, c) ∈ db.ch ↔ f.isAncestor a c = true) ∧
    (∀ c p, (c, p) ∈ db.cpl ↔ (f.live c = true ∧ (f.parentOf c = some p ∨ (f.parentOf c = none ∧ p = c)))) ∧
    (db.cpl.map (·.1)).Nodup ∧ db.ch.Nodup := by
  intro db f
  have h : Inv db := inv_run s ops inv_empty
  have hf := h.toFInv
  refine ⟨path_eq_pathOf h, fun a c => (isAncestor_iff hf a c).symm, ?_, hf.cplNodup, hf.chNodup⟩
  intro c p
  show _ ↔ ((absForest db).live c = true ∧ _)
  rw [abs_live, abs_parentOf hf]
  constructor
  · intro hm
    have hc : c ∈ ids db := (hf.cplTotal c).mp (List.mem_map_of_mem (f := (·.1)) hm)
    refine ⟨hc, ?_⟩
    by_cases hpc : p = c
    · right
      obtain ⟨r, hr, rfl⟩ := exists_row hc
      exact ⟨(root_row_iff hf hr).mpr (hpc ▸ hm), hpc⟩
    · exact Or.inl ((parentOf_eq_some hf).mpr ⟨hm, hpc⟩)
  · rintro ⟨hc, hp | ⟨hp, rfl⟩⟩
    · exact ((parentOf_eq_some hf).mp hp).1
    · obtain ⟨r, hr, rfl⟩ := exists_row hc
      exact (root_row_iff hf hr).mp hp

/-- `WfRaw` is EXACTLY the invariant: for any raw state whatsoever (reachable or not — e.g. the rows read back
from the real database), the executable predicate holds iff `Inv` does.  So a dump that passes the run-time
check satisfies everything the C07 / C08 query agreements are derived from, and a dump that fails it violates
a named part of the invariant. -/
theorem C11_wfRaw_iff_invariant (db : Db) : WfRaw db = true ↔ Inv db := wfRaw_iff_inv db

/-- Memberships are stored once, and only between crates and tracks that exist. -/
theorem C11_membership_rows_wellformed (s : Schema) (ops : List Op) :
    let db := run s Db.empty ops
    db.ctl.Nodup ∧ (∀ r ∈ db.ctl, crateIsValid db r.1 = .ok true ∧ r.2 ∈ dbTracks db) ∧
    (db.track.map (·.id)).Nodup := by
  intro db
  have h : Inv db := inv_run s ops inv_empty
  refine ⟨h.ctlNodup, ?_, h.trackNodup⟩
  intro r hr
  refine ⟨(isValid_iff h.toFInv r.1).mpr (h.ctlLive r hr).1, ?_⟩
  unfold dbTracks sortIds
  rw [List.mem_mergeSort, mem_liveIds]
  exact (h.ctlLive r hr).2

/-- `WfRaw` is not vacuous: the raw states the pre-fix code produced are rejected — a parent-list row
surviving its crate (remove_crate before 1ccf623), a hierarchy and paths left behind by a re-parenting
(set_parent before 69e5e90: a;b;c; with b moved under d), a membership row of a removed track. -/
theorem C11_wfRaw_rejects_known_damage :
    WfRaw ⟨[], [(1, 1)], [], [], [], 0⟩ = false ∧
    WfRaw ⟨[⟨1, [97], [97, 59]⟩, ⟨2, [98], [97, 59, 98, 59]⟩, ⟨3, [99], [97, 59, 98, 59, 99, 59]⟩, ⟨4, [100], [100, 59]⟩],
           [(1, 1), (3, 2), (4, 4), (2, 4)], [(1, 3), (2, 3), (4, 2)], [], [], 0⟩ = false ∧
    WfRaw ⟨[⟨1, [97], [97, 59]⟩], [(1, 1)], [], [(1, 1)], [], 0⟩ = false := by
  decide +kernel

/-- … while the corresponding repaired states are accepted. -/
example :
    WfRaw ⟨[⟨1, [97], [97, 59]⟩, ⟨2, [98], [100, 59, 98, 59]⟩, ⟨3, [99], [100, 59, 98, 59, 99, 59]⟩, ⟨4, [100], [100, 59]⟩],
           [(1, 1), (3, 2), (4, 4), (2, 4)], [(2, 3), (4, 2), (4, 3)], [(3, 1)], [⟨1, true⟩], 0⟩ = true := by
  decide +kernel

/-- Per-track derived columns (model of the tracks work-package, `TracksV1.writeSnap` = create_track /
track::update, the only statements that write Track.path): after every successful write `Track.filename`
is the file-name part of `Track.path` and the file-extension MetaData row (type 13) is the extension of
that file name. -/
theorem C11_track_derived_columns (o : TracksV1.Fl.FOps) (s : TracksV1.Schema) (x : TracksV1.Snap)
    (prior : Option TracksV1.TrackRows) (rows : TracksV1.TrackRows) (h : TracksV1.writeSnap o s x prior = .ok rows) :
    ∃ p, x.relativePath = some p ∧ rows.track.path = some p ∧
      rows.track.filename = some (TracksV1.getFilename p) ∧
      TracksV1.aget 13 rows.mstr = some (TracksV1.getExtension (TracksV1.getFilename p)) :=
  TracksV1.writeSnap_derived_columns o s x prior rows h

/-- non-vacuity: a write that succeeds (path "a/b.mp3"; the float operations are irrelevant here). -/
example : (TracksV1.writeSnap ⟨fun _ => 0, fun _ => 0, fun _ _ => 0, fun x => x⟩ .s1_6_0
    { TracksV1.Snap.empty with relativePath := some [97, 47, 98, 46, 109, 112, 51] } none).isOk = true := by
  decide +kernel

example : TracksV1.getFilename [97, 47, 98, 46, 109, 112, 51] = [98, 46, 109, 112, 51] ∧
    TracksV1.getExtension [98, 46, 109, 112, 51] = some [109, 112, 51] := by decide +kernel

end EngineModel.Properties.C11V1
