/-
C15, schema 2.x crates: a removed crate stays removed along EVERY later history
(`Playlist.id` is AUTOINCREMENT: an id at or below `sqlite_sequence` is never
issued again), and the guarded step `stepG` coincides with the model's `step`
along every history from the empty library (the parent links stay a forest).

Rests on the crates-2.x package's `fstep` (every step is a throw that leaves the
state alone, an accepted forest operation, or a membership operation that leaves
the Playlist table alone), `plInv_step` / `plInv_run` and `forestOk_of_plInv`.
-/
import Proofs.NoUbCratesV2
import Proofs.V2ForestRun
import Proofs.V2WfRaw
import Proofs.V2Members

namespace EngineModel.Api.GuardedV2
open EngineModel EngineModel.Db.Chain EngineModel.Db.V2 EngineModel.ListAux EngineModel.Spec

/-- `c` is not a live crate and can never be issued again. -/
structure Gone (d : Db) (c : Int) : Prop where
  inv : PlInv d
  absent : c ∉ ids d.pl
  le : c ≤ d.plSeq

theorem gone_step {d : Db} {c : Int} (h : Gone d c) (op : Op) : Gone (step d op).1 c := by
  have hI' := plInv_step h.inv op
  refine ⟨hI', ?_, ?_⟩
  · cases fstep h.inv.wf op with
    | throws e he hv => rw [he]; exact h.absent
    | okF out fop h2 hf hacc hnew hseq =>
      intro hc
      rw [← absF_ids] at hc
      rcases Forest.step_accept_ids fop _ hacc c hc with h1 | ⟨h1, h2'⟩
      · rw [absF_ids] at h1; exact h.absent h1
      · have hcr : isCreate op = true := by rw [← forestOp_isCreate hf]; exact h1
        have hout := hnew hcr
        have hc' : c = d.plSeq + 1 := by rw [h2', hout]; rfl
        have := h.le
        omega
    | okN out h2 hf hpl hseq => rw [hpl]; exact h.absent
  · cases fstep h.inv.wf op with
    | throws e he hv => rw [he]; exact h.le
    | okF out fop h2 hf hacc hnew hseq => rw [hseq]; have := h.le; split <;> omega
    | okN out h2 hf hpl hseq => rw [hseq]; exact h.le

theorem gone_run {d : Db} {c : Int} (h : Gone d c) (ops : List Op) : Gone (run d ops) c := by
  induction ops generalizing d with
  | nil => exact h
  | cons op ops ih => exact ih (gone_step h op)

/-- right after a successful `remove_crate(c)` the crate is gone for good -/
theorem gone_after_remove {d : Db} (hI : PlInv d) {c : Int} (hc : plExists d c = true) :
    Gone (step d (.removeCrate c)).1 c := by
  have hI' := plInv_step hI (.removeCrate c)
  have hmem : c ∈ ids d.pl := (plExists_iff d c).mp hc
  obtain ⟨ds, hds, _⟩ := descendantIds_ok hI.wf c
  have hstep : (step d (.removeCrate c)).1 = plRemove d (c :: ds) := by
    simp only [step, hc, Bool.not_true, Bool.false_eq_true, if_false, hds]
  refine ⟨hI', ?_, ?_⟩
  · rw [hstep]; exact removed_gone d c ds
  · rw [hstep]; exact hI.seq c hmem

theorem not_valid_of_gone {d : Db} {c : Int} (h : Gone d c) : qValid d c = false := by
  unfold qValid
  cases hv : plExists d c with
  | false => rfl
  | true => exact absurd ((plExists_iff d c).mp hv) h.absent

/-! ### `stepG` along histories -/

theorem runG_eq {d : Db} (hI : PlInv d) (ops : List Op) : runG d ops = run d ops := by
  induction ops generalizing d with
  | nil => rfl
  | cons op ops ih =>
    simp only [runG, run, stepG_eq d op]
    exact ih (plInv_step hI op)

theorem outcomesG_eq {d : Db} (hI : PlInv d) (ops : List Op) : outcomesG d ops = outcomes d ops := by
  induction ops generalizing d with
  | nil => rfl
  | cons op ops ih =>
    simp only [outcomesG, outcomes, stepG_eq d op]
    rw [ih (plInv_step hI op)]

/-! ### every public call (mutations and queries interleaved) along API histories -/

/-- a call whose mutation, if it is one, is a public-API operation or the table-level addition of an entry
of ANOTHER database (`memOp` of the crates-2.x package: what other software sharing the library does) -/
def memCall : Call → Bool
  | .mutate op => memOp op
  | .q _ => true

theorem callOutcomes_defined (cs : List Call) : ∀ {S : Ord} {d : Db}, Inv S d → cs.all memCall = true →
    ∀ r ∈ callOutcomes d cs, Defined r := by
  induction cs with
  | nil => intro S d _ _ r hr; cases hr
  | cons c t ih =>
    intro S d hI hapi r hr
    simp only [List.all_cons, Bool.and_eq_true] at hapi
    have hf := hI.pl.wf
    simp only [callOutcomes, List.mem_cons] at hr
    cases c with
    | mutate op =>
      rcases hr with e | e
      · rw [e]
        simp only [callG]
        exact bind_unit_defined _ (stepG_defined d hf op)
      · have hst : (callG d (.mutate op)).1 = (step d op).1 := by simp only [callG, stepG_eq d op]
        rw [hst] at e
        exact ih (inv_step hI op hapi.1) hapi.2 r e
    | q q =>
      rcases hr with e | e
      · rw [e]; exact queryG_defined d hI.ch.rk hI.ch.re hf q
      · exact ih hI hapi.2 r e

end EngineModel.Api.GuardedV2
