/-
The independent inflate decoder (`EngineModel.Zlib.inflate`, written from
RFC 1950/1951) inverts the stored-block encoder (`deflateStored`) on every
byte list: multi-block streams (inputs longer than 65535 bytes) and the
Adler-32 trailer check included.  Corollary: `unframe (frame x) = some x`.
-/
import EngineModel.Zlib.Stored

namespace EngineModel
namespace Zlib

/-! ### small arithmetic / list facts -/

theorem toNat_toUInt8_mod (n : Nat) : (n % 256).toUInt8.toNat = n % 256 := by
  simp [Nat.toUInt8]

theorem foldl_push_toList (l : Bytes) (out : Array UInt8) :
    (l.foldl Array.push out).toList = out.toList ++ l := by
  induction l generalizing out with
  | nil => simp
  | cons a l ih => simp

/-! ### one stored block -/

/-- The block header: BFINAL (1 bit) and BTYPE = 00 (2 bits) are read from the
single header byte, which is `1` for the final block and `0` otherwise. -/
theorem blocks_header (fin : Bool) (fuel : Nat) (rest : Bytes) (out : Array UInt8) :
    blocks (fuel + 1) ⟨(if fin then 1 else 0) :: rest, 0⟩ out =
      match stored ⟨(if fin then 1 else 0) :: rest, 3⟩ out with
      | none => none
      | some (b, o) => if fin then some (b, o) else blocks fuel b o := by
  cases fin <;> simp [blocks, Bits.take, Bits.bit] <;> rfl

/-- `stored` on a cursor 3 bits into the header byte: the header byte is
dropped, LEN/NLEN are checked and `LEN` bytes are copied. -/
theorem stored_eq (h l0 l1 n0 n1 : UInt8) (r : Bytes) (out : Array UInt8)
    (hlen : l0.toNat + 256 * l1.toNat + (n0.toNat + 256 * n1.toNat) = 65535)
    (hr : l0.toNat + 256 * l1.toNat ≤ r.length) :
    stored ⟨h :: l0 :: l1 :: n0 :: n1 :: r, 3⟩ out =
      some (⟨r.drop (l0.toNat + 256 * l1.toNat), 0⟩,
        (r.take (l0.toNat + 256 * l1.toNat)).foldl Array.push out) := by
  simp [stored, Bits.align, hlen]
  omega

theorem stored_chunk (h : UInt8) (chunk tail : Bytes) (out : Array UInt8)
    (hn : chunk.length ≤ 65535) :
    stored ⟨h :: (le16 chunk.length ++ le16 (65535 - chunk.length) ++ chunk ++ tail), 3⟩ out =
      some (⟨tail, 0⟩, chunk.foldl Array.push out) := by
  have h1 : chunk.length % 256 + 256 * (chunk.length / 256 % 256) = chunk.length := by omega
  have h2 : (65535 - chunk.length) % 256 + 256 * ((65535 - chunk.length) / 256 % 256)
      = 65535 - chunk.length := by omega
  simp only [le16, List.cons_append, List.nil_append]
  rw [stored_eq]
  · simp only [toNat_toUInt8_mod, h1]
    simp
  · simp only [toNat_toUInt8_mod, h1, h2]
    omega
  · simp only [toNat_toUInt8_mod, h1, List.length_append]
    omega

theorem blocks_storedBlock (fin : Bool) (chunk tail : Bytes) (out : Array UInt8) (fuel : Nat)
    (hn : chunk.length ≤ 65535) :
    blocks (fuel + 1) ⟨storedBlock fin chunk ++ tail, 0⟩ out =
      if fin then some (⟨tail, 0⟩, chunk.foldl Array.push out)
      else blocks fuel ⟨tail, 0⟩ (chunk.foldl Array.push out) := by
  unfold storedBlock
  rw [List.cons_append, blocks_header, stored_chunk _ _ _ _ hn]

/-! ### the block sequence -/

theorem blocks_storedBlocks (f : Nat) :
    ∀ (x tail : Bytes) (out : Array UInt8) (fuel : Nat),
      x.length ≤ 65535 * (f + 1) → f + 1 ≤ fuel →
      blocks fuel ⟨storedBlocks f x ++ tail, 0⟩ out =
        some (⟨tail, 0⟩, x.foldl Array.push out) := by
  induction f with
  | zero =>
    intro x tail out fuel hx hf
    obtain ⟨k, rfl⟩ : ∃ k, fuel = k + 1 := ⟨fuel - 1, by omega⟩
    have hx' : x.length ≤ 65535 := by omega
    have ht : x.take 65535 = x := List.take_of_length_le hx'
    simp only [storedBlocks, ht]
    rw [blocks_storedBlock _ _ _ _ _ hx']
    simp
  | succ f ih =>
    intro x tail out fuel hx hf
    obtain ⟨k, rfl⟩ : ∃ k, fuel = k + 1 := ⟨fuel - 1, by omega⟩
    by_cases h : x.length ≤ 65535
    · simp only [storedBlocks, if_pos h]
      rw [blocks_storedBlock _ _ _ _ _ h]
      simp
    · simp only [storedBlocks, if_neg h]
      have htake : (x.take 65535).length ≤ 65535 := by
        rw [List.length_take]; omega
      have hdrop : (x.drop 65535).length ≤ 65535 * (f + 1) := by
        rw [List.length_drop]; omega
      rw [List.append_assoc, blocks_storedBlock _ _ _ _ _ htake]
      simp only [Bool.false_eq_true, if_false]
      rw [ih (x.drop 65535) tail _ k hdrop (by omega), ← List.foldl_append,
        List.take_append_drop]

theorem storedBlocks_length (f : Nat) :
    ∀ x : Bytes, x.length ≤ 65535 * (f + 1) → x.length ≤ (storedBlocks f x).length := by
  induction f with
  | zero =>
    intro x hx
    have ht : x.take 65535 = x := List.take_of_length_le (by omega)
    simp only [storedBlocks, ht, storedBlock, le16, List.length_cons, List.length_append]
    omega
  | succ f ih =>
    intro x hx
    by_cases h : x.length ≤ 65535
    · simp only [storedBlocks, if_pos h, storedBlock, le16, List.length_cons, List.length_append]
      omega
    · have hdrop : (x.drop 65535).length ≤ 65535 * (f + 1) := by
        rw [List.length_drop]; omega
      have := ih _ hdrop
      rw [List.length_drop] at this
      simp only [storedBlocks, if_neg h, storedBlock, le16, List.length_cons, List.length_append,
        List.length_take]
      omega

/-- Raw deflate level: the stored-block stream decodes to `x`, leaving exactly
what followed it. -/
theorem inflateRaw_storedBlocks (x tail : Bytes) :
    inflateRaw (storedBlocks x.length x ++ tail) = some (x, tail) := by
  have hx : x.length ≤ 65535 * (x.length + 1) := by omega
  have hlen := storedBlocks_length x.length x hx
  have hfuel : x.length + 1 ≤ 8 * (storedBlocks x.length x ++ tail).length + 1 := by
    rw [List.length_append]; omega
  unfold inflateRaw
  rw [Bits.ofBytes, blocks_storedBlocks x.length x tail #[] _ hx hfuel]
  simp [Bits.align]

/-! ### Adler-32 and the zlib wrapper -/

theorem adler32_fold_lt (data : Bytes) :
    ∀ p : Nat × Nat, p.1 < 65521 → p.2 < 65521 →
      (data.foldl (fun (p : Nat × Nat) x =>
        let a := (p.1 + x.toNat) % 65521
        (a, (p.2 + a) % 65521)) p).1 < 65521 ∧
      (data.foldl (fun (p : Nat × Nat) x =>
        let a := (p.1 + x.toNat) % 65521
        (a, (p.2 + a) % 65521)) p).2 < 65521 := by
  induction data with
  | nil => intro p h1 h2; exact ⟨h1, h2⟩
  | cons a l ih =>
    intro p h1 h2
    rw [List.foldl_cons]
    apply ih
    · exact Nat.mod_lt _ (by decide)
    · exact Nat.mod_lt _ (by decide)

theorem adler32_lt (data : Bytes) : adler32 data < 4294967296 := by
  have h := adler32_fold_lt data (1, 0) (by decide) (by decide)
  unfold adler32
  generalize List.foldl _ (1, 0) data = q at h ⊢
  obtain ⟨a, b⟩ := q
  simp only at h ⊢
  omega

/-- Main theorem: `inflate` inverts `deflateStored` on every input, and hands
back untouched whatever followed the stream. -/
theorem inflate_deflateStored (x r : Bytes) : inflate (deflateStored x ++ r) = some (x, r) := by
  have hA := adler32_lt x
  have hshape : deflateStored x ++ r =
      0x78 :: 0x01 :: (storedBlocks x.length x ++ (be32 (adler32 x) ++ r)) := by
    simp [deflateStored]
  rw [hshape]
  simp only [inflate, inflateRaw_storedBlocks, be32, List.cons_append, List.nil_append]
  simp
  omega

theorem inflate_stored (x : Bytes) : inflate (deflateStored x) = some (x, []) := by
  have := inflate_deflateStored x []
  simpa using this

/-- Engine framing round trip (the length prefix must fit its 4 bytes). -/
theorem unframe_frame (x : Bytes) (h : x.length < 4294967296) : unframe (frame x) = some x := by
  have hb : ((x.length / 16777216 % 256).toUInt8.toNat * 16777216
      + (x.length / 65536 % 256).toUInt8.toNat * 65536
      + (x.length / 256 % 256).toUInt8.toNat * 256
      + (x.length % 256).toUInt8.toNat) = x.length := by
    simp only [toNat_toUInt8_mod]
    omega
  simp only [frame, be32, List.cons_append, List.nil_append, unframe, hb, inflate_stored]
  by_cases h0 : x.length = 0
  · have : x = [] := List.eq_nil_of_length_eq_zero h0
    simp [this]
  · simp [h0]

end Zlib
end EngineModel
