/-
Representation relation between abstract ordered lists (one duplicate-free list
of ids per key) and a chain table, and the per-operation simulation lemmas.
-/
import EngineModel.Db.Chain
import EngineModel.Spec.Ordered
import Proofs.ListAux

namespace EngineModel.Db.Chain

open EngineModel.Spec EngineModel.ListAux

variable {α : Type}

/-- Successor of `x` in `l` (0 when `x` is last or absent). -/
def succ : List Int → Int → Int
  | [], _ => 0
  | a :: l, x => if a = x then l.headD 0 else succ l x

/-- Abstract lists with the list of key `k` replaced. -/
def setKey (A : Int → List Int) (k : Int) (l : List Int) : Int → List Int :=
  fun k' => if k' = k then l else A k'

@[simp] theorem setKey_same (A : Int → List Int) (k : Int) (l : List Int) : setKey A k l k = l := by
  simp [setKey]

theorem setKey_other (A : Int → List Int) {k k' : Int} (l : List Int) (h : k' ≠ k) :
    setKey A k l k' = A k' := by
  simp [setKey, h]

/-- The table `t` represents the lists `A`: ids are a key of the table and
positive; each row sits in the list of its key with `next` = its successor there
(0 at the tail); every listed id has its row. -/
structure R (A : Int → List Int) (t : Table α) : Prop where
  ids_nodup : (ids t).Nodup
  id_pos : ∀ r ∈ t, 0 < r.id
  nodup : ∀ k, (A k).Nodup
  mem : ∀ r ∈ t, r.id ∈ A r.key
  next : ∀ r ∈ t, r.next = succ (A r.key) r.id
  cover : ∀ k x, x ∈ A k → ∃ r ∈ t, r.id = x ∧ r.key = k

/-! ### `succ` -/

theorem succ_not_mem {l : List Int} {x : Int} (h : x ∉ l) : succ l x = 0 := by
  induction l with
  | nil => rfl
  | cons a l ih =>
    simp only [List.mem_cons, not_or] at h
    simp [succ, Ne.symm h.1, ih h.2]

theorem succ_mem_or_zero (l : List Int) (x : Int) : succ l x = 0 ∨ succ l x ∈ l := by
  induction l with
  | nil => left; rfl
  | cons a l ih =>
    simp only [succ]
    split
    · cases l with
      | nil => left; rfl
      | cons b l => right; simp
    · rcases ih with h | h
      · left; exact h
      · right; exact List.mem_cons_of_mem _ h

theorem succ_ne_self {l : List Int} (hn : l.Nodup) (x : Int) (hx : x ≠ 0) : succ l x ≠ x := by
  induction l with
  | nil => simp [succ]; exact fun h => hx h.symm
  | cons a l ih =>
    simp only [succ]
    have hn' := List.nodup_cons.mp hn
    split
    · rename_i h; subst h
      cases l with
      | nil => simp; exact fun h => hx h.symm
      | cons b l => simp at *; intro h; exact hn'.1.1 h.symm
    · exact ih hn'.2

/-- `succ` never points at the head. -/
theorem succ_ne_head {a : Int} {l : List Int} (hn : (a :: l).Nodup) (ha : a ≠ 0) (x : Int) :
    succ (a :: l) x ≠ a := by
  have hn' := List.nodup_cons.mp hn
  intro h
  rcases succ_mem_or_zero l x with h0 | hm
  · simp only [succ] at h
    split at h
    · cases l with
      | nil => simp at h; exact ha h.symm
      | cons b l => simp at h; simp at hn'; exact hn'.1.1 h.symm
    · rw [h0] at h; exact ha h.symm
  · simp only [succ] at h
    split at h
    · cases l with
      | nil => simp at h; exact ha h.symm
      | cons b l => simp at h; simp at hn'; exact hn'.1.1 h.symm
    · rw [h] at hm; exact hn'.1 hm

/-- In a duplicate-free list without 0, `succ` is injective on members. -/
theorem succ_inj {l : List Int} (hn : l.Nodup) (h0 : ∀ y ∈ l, y ≠ 0) {x y : Int}
    (hx : x ∈ l) (hy : y ∈ l) (h : succ l x = succ l y) : x = y := by
  induction l with
  | nil => simp at hx
  | cons a l ih =>
    have hn' := List.nodup_cons.mp hn
    have h0' : ∀ y ∈ l, y ≠ 0 := fun y hy => h0 y (List.mem_cons_of_mem _ hy)
    simp only [succ] at h
    by_cases hax : a = x <;> by_cases hay : a = y
    · rw [← hax, ← hay]
    · subst hax
      rw [if_pos rfl, if_neg hay] at h
      have hy' : y ∈ l := by
        rcases List.mem_cons.mp hy with h1 | h1
        · exact absurd h1.symm hay
        · exact h1
      cases l with
      | nil => simp at hy'
      | cons b l =>
        simp only [List.headD_cons] at h
        exact absurd h.symm (succ_ne_head hn'.2 (h0' b (by simp)) y)
    · subst hay
      rw [if_pos rfl, if_neg hax] at h
      have hx' : x ∈ l := by
        rcases List.mem_cons.mp hx with h1 | h1
        · exact absurd h1.symm hax
        · exact h1
      cases l with
      | nil => simp at hx'
      | cons b l =>
        simp only [List.headD_cons] at h
        exact absurd h (succ_ne_head hn'.2 (h0' b (by simp)) x)
    · rw [if_neg hax, if_neg hay] at h
      have hx' : x ∈ l := by
        rcases List.mem_cons.mp hx with h1 | h1
        · exact absurd h1.symm hax
        · exact h1
      have hy' : y ∈ l := by
        rcases List.mem_cons.mp hy with h1 | h1
        · exact absurd h1.symm hay
        · exact h1
      exact ih hn'.2 h0' hx' hy' h

/-! ### `succ` under the abstract list operations -/

theorem mem_insertBefore {b n : Int} {l : List Int} {y : Int} :
    y ∈ Ordered.insertBefore b n l ↔ y = n ∨ y ∈ l := by
  induction l with
  | nil => simp [Ordered.insertBefore]
  | cons a l ih =>
    simp only [Ordered.insertBefore]
    split
    · simp
    · simp only [List.mem_cons, ih]
      constructor
      · rintro (h | h | h)
        · right; left; exact h
        · left; exact h
        · right; right; exact h
      · rintro (h | h | h)
        · right; left; exact h
        · left; exact h
        · right; right; exact h

theorem nodup_insertBefore {b n : Int} {l : List Int} (hn : l.Nodup) (hnl : n ∉ l) :
    (Ordered.insertBefore b n l).Nodup := by
  induction l with
  | nil => simp [Ordered.insertBefore]
  | cons a l ih =>
    have hn' := List.nodup_cons.mp hn
    simp only [List.mem_cons, not_or] at hnl
    simp only [Ordered.insertBefore]
    split
    · refine List.nodup_cons.mpr ⟨?_, hn⟩
      simp only [List.mem_cons, not_or]; exact hnl
    · refine List.nodup_cons.mpr ⟨?_, ih hn'.2 hnl.2⟩
      rw [mem_insertBefore]
      simp only [not_or]
      exact ⟨Ne.symm hnl.1, hn'.1⟩

theorem insertBefore_headD {b n : Int} {l : List Int} (hb : b = 0 ∨ b ∈ l) (h0 : ∀ y ∈ l, y ≠ 0) :
    (Ordered.insertBefore b n l).headD 0 = if l.headD 0 = b then n else l.headD 0 := by
  cases l with
  | nil =>
    rcases hb with hb | hb
    · simp [Ordered.insertBefore, hb]
    · simp at hb
  | cons c l =>
    simp only [Ordered.insertBefore, List.headD_cons]
    by_cases h : c = b
    · simp [h]
    · simp [h]

theorem succ_insertBefore {b n : Int} {l : List Int} (hn : l.Nodup) (h0 : ∀ y ∈ l, y ≠ 0)
    (hnl : n ∉ l) (hb : b = 0 ∨ b ∈ l) {x : Int} (hx : x ∈ l) :
    succ (Ordered.insertBefore b n l) x = if succ l x = b then n else succ l x := by
  induction l with
  | nil => simp at hx
  | cons a l ih =>
    have hn' := List.nodup_cons.mp hn
    have h0' : ∀ y ∈ l, y ≠ 0 := fun y hy => h0 y (List.mem_cons_of_mem _ hy)
    simp only [List.mem_cons, not_or] at hnl
    simp only [Ordered.insertBefore]
    by_cases hab : a = b
    · rw [if_pos hab]
      have hnx : n ≠ x := by
        rintro rfl
        rcases List.mem_cons.mp hx with h | h
        · exact hnl.1 h
        · exact hnl.2 h
      have h1 : succ (n :: a :: l) x = succ (a :: l) x := by
        simp only [succ, if_neg hnx]
      rw [h1]
      have h2 : succ (a :: l) x ≠ b := hab ▸ succ_ne_head hn (h0 a (by simp)) x
      rw [if_neg h2]
    · rw [if_neg hab]
      have hb' : b = 0 ∨ b ∈ l := by
        rcases hb with h | h
        · left; exact h
        · rcases List.mem_cons.mp h with h | h
          · exact absurd h.symm hab
          · right; exact h
      by_cases hax : a = x
      · simp only [succ, if_pos hax]
        exact insertBefore_headD hb' h0'
      · have hx' : x ∈ l := by
          rcases List.mem_cons.mp hx with h | h
          · exact absurd h.symm hax
          · exact h
        simp only [succ, if_neg hax]
        exact ih hn'.2 h0' hnl.2 hb' hx'

theorem succ_insertBefore_new {b n : Int} {l : List Int} (hnl : n ∉ l) (hb : b = 0 ∨ b ∈ l) :
    succ (Ordered.insertBefore b n l) n = b := by
  induction l with
  | nil =>
    rcases hb with hb | hb
    · simp [Ordered.insertBefore, succ, hb]
    · simp at hb
  | cons a l ih =>
    simp only [List.mem_cons, not_or] at hnl
    simp only [Ordered.insertBefore]
    by_cases hab : a = b
    · rw [if_pos hab]; simp [succ, hab]
    · rw [if_neg hab]
      have hb' : b = 0 ∨ b ∈ l := by
        rcases hb with h | h
        · left; exact h
        · rcases List.mem_cons.mp h with h | h
          · exact absurd h.symm hab
          · right; exact h
      simp only [succ, if_neg (Ne.symm hnl.1)]
      exact ih hnl.2 hb'

theorem succ_erase {d : Int} {l : List Int} (hn : l.Nodup) (h0 : ∀ y ∈ l, y ≠ 0)
    {x : Int} (hx : x ∈ l) (hxd : x ≠ d) :
    succ (l.erase d) x = if succ l x = d then succ l d else succ l x := by
  induction l with
  | nil => simp at hx
  | cons a l ih =>
    have hn' := List.nodup_cons.mp hn
    have h0' : ∀ y ∈ l, y ≠ 0 := fun y hy => h0 y (List.mem_cons_of_mem _ hy)
    by_cases had : a = d
    · subst had
      have hx' : x ∈ l := by
        rcases List.mem_cons.mp hx with h | h
        · exact absurd h hxd
        · exact h
      simp only [List.erase_cons_head, succ, if_neg (Ne.symm hxd)]
      have : succ l x ≠ a := by
        rcases succ_mem_or_zero l x with h | h
        · rw [h]; exact Ne.symm (h0 a (by simp))
        · intro e; rw [e] at h; exact hn'.1 h
      rw [if_neg this]
    · have hne : (a == d) = false := by simpa using had
      rw [List.erase_cons_tail (by simpa using had)]
      by_cases hax : a = x
      · subst hax
        simp only [succ, if_pos rfl, if_neg had]
        cases l with
        | nil =>
          simp only [List.erase_nil, List.headD_nil, succ]
          split <;> simp
        | cons c l =>
          by_cases hcd : c = d
          · subst hcd; simp [succ]
          · rw [List.erase_cons_tail (by simpa using hcd)]
            simp [hcd]
      · have hx' : x ∈ l := by
          rcases List.mem_cons.mp hx with h | h
          · exact absurd h.symm hax
          · exact h
        simp only [succ, if_neg hax, if_neg had]
        exact ih hn'.2 h0' hx'

/-- `insertAfter a` is `insertBefore (succ l a)`. -/
theorem insertAfter_eq_insertBefore {a n : Int} {l : List Int} (hn : l.Nodup) (h0 : ∀ y ∈ l, y ≠ 0)
    (ha : a ∈ l) : Ordered.insertAfter a n l = Ordered.insertBefore (succ l a) n l := by
  induction l with
  | nil => simp at ha
  | cons c l ih =>
    have hn' := List.nodup_cons.mp hn
    have h0' : ∀ y ∈ l, y ≠ 0 := fun y hy => h0 y (List.mem_cons_of_mem _ hy)
    simp only [Ordered.insertAfter, Ordered.insertBefore, succ]
    by_cases hca : c = a
    · subst hca
      simp only [if_true]
      have : c ≠ l.headD 0 := by
        cases l with
        | nil => simpa using h0 c (by simp)
        | cons e l => simp at hn' ⊢; exact hn'.1.1
      rw [if_neg this]
      cases l with
      | nil => simp [Ordered.insertBefore]
      | cons e l => simp [Ordered.insertBefore]
    · have ha' : a ∈ l := by
        rcases List.mem_cons.mp ha with h | h
        · exact absurd h.symm hca
        · exact h
      simp only [if_neg hca]
      have : c ≠ succ l a := by
        rcases succ_mem_or_zero l a with h | h
        · rw [h]; exact h0 c (by simp)
        · intro e; rw [← e] at h; exact hn'.1 h
      rw [if_neg this, ih hn'.2 h0' ha']

/-! ### rows under `UPDATE … SET next` -/

@[simp] theorem updRow_id (p : Row α → Bool) (e : Int → Int) (r : Row α) : (updRow p e r).id = r.id := by
  unfold updRow; split <;> rfl
@[simp] theorem updRow_key (p : Row α → Bool) (e : Int → Int) (r : Row α) : (updRow p e r).key = r.key := by
  unfold updRow; split <;> rfl
@[simp] theorem updRow_val (p : Row α → Bool) (e : Int → Int) (r : Row α) : (updRow p e r).val = r.val := by
  unfold updRow; split <;> rfl
theorem updRow_next (p : Row α → Bool) (e : Int → Int) (r : Row α) :
    (updRow p e r).next = if p r then e r.next else r.next := by
  unfold updRow; split <;> rfl
theorem updRow_neg {p : Row α → Bool} {e : Int → Int} {r : Row α} (h : p r = false) : updRow p e r = r := by
  unfold updRow; simp [h]

theorem mem_updNext {p : Row α → Bool} {e : Int → Int} {t : Table α} {r' : Row α} :
    r' ∈ updNext p e t ↔ ∃ r ∈ t, updRow p e r = r' := by
  simp [updNext]

@[simp] theorem ids_updNext (p : Row α → Bool) (e : Int → Int) (t : Table α) : ids (updNext p e t) = ids t := by
  simp [ids, updNext, Function.comp_def]

theorem mem_rowsOf {t : Table α} {k : Int} {r : Row α} : r ∈ rowsOf t k ↔ r ∈ t ∧ r.key = k := by
  simp [rowsOf]

/-! ### basic consequences of `R` -/

theorem eq_of_id_eq {t : Table α} (hn : (ids t).Nodup) {r r' : Row α} (hr : r ∈ t) (hr' : r' ∈ t)
    (h : r.id = r'.id) : r = r' := by
  induction t with
  | nil => simp at hr
  | cons a t ih =>
    simp only [ids, List.map_cons, List.nodup_cons, List.mem_map, not_exists, not_and] at hn
    rcases List.mem_cons.mp hr with h1 | h1 <;> rcases List.mem_cons.mp hr' with h2 | h2
    · rw [h1, h2]
    · subst h1; exact absurd h.symm (hn.1 r' h2)
    · subst h2; exact absurd h (hn.1 r h1)
    · exact ih hn.2 h1 h2

theorem get_some {t : Table α} {i : Int} {r : Row α} (h : get t i = some r) : r ∈ t ∧ r.id = i := by
  unfold get at h
  have h1 := List.mem_of_find?_eq_some h
  have h2 := List.find?_some h
  exact ⟨h1, by simpa using h2⟩

theorem get_of_mem {t : Table α} (hn : (ids t).Nodup) {r : Row α} (hr : r ∈ t) : get t r.id = some r := by
  unfold get
  induction t with
  | nil => simp at hr
  | cons a t ih =>
    simp only [ids, List.map_cons, List.nodup_cons, List.mem_map, not_exists, not_and] at hn
    rcases List.mem_cons.mp hr with h1 | h1
    · subst h1; simp
    · have : a.id ≠ r.id := fun e => hn.1 r h1 e.symm
      rw [List.find?_cons_of_neg (by simpa using this)]
      exact ih hn.2 h1

theorem get_none {t : Table α} {i : Int} (h : get t i = none) : i ∉ ids t := by
  unfold get at h
  simp only [List.find?_eq_none, beq_iff_eq] at h
  simp only [ids, List.mem_map, not_exists, not_and]
  exact fun r hr => h r hr

namespace R

variable {A : Int → List Int} {t : Table α}

theorem pos (h : R A t) {k x : Int} (hx : x ∈ A k) : 0 < x := by
  obtain ⟨r, hr, rfl, _⟩ := h.cover k x hx
  exact h.id_pos r hr

theorem ne0 (h : R A t) (k : Int) : ∀ y ∈ A k, y ≠ 0 := fun _ hy => Int.ne_of_gt (h.pos hy)

theorem key_unique (h : R A t) {k k' x : Int} (hx : x ∈ A k) (hx' : x ∈ A k') : k = k' := by
  obtain ⟨r, hr, rfl, rfl⟩ := h.cover k _ hx
  obtain ⟨r', hr', e, rfl⟩ := h.cover k' _ hx'
  rw [eq_of_id_eq h.ids_nodup hr' hr e]

theorem next_nonneg (h : R A t) {r : Row α} (hr : r ∈ t) : 0 ≤ r.next := by
  rw [h.next r hr]
  rcases succ_mem_or_zero (A r.key) r.id with h0 | hm
  · rw [h0]; exact Int.le_refl 0
  · exact Int.le_of_lt (h.pos hm)

theorem not_mem_of_fresh (h : R A t) {n : Int} (hn : n ∉ ids t) (k : Int) : n ∉ A k := by
  intro hx
  obtain ⟨r, hr, e, _⟩ := h.cover k n hx
  exact hn (by simp only [ids, List.mem_map]; exact ⟨r, hr, e⟩)

/-- Keys without rows have the empty list. -/
theorem nil_of_no_rows (h : R A t) {k : Int} (hk : ∀ r ∈ t, r.key ≠ k) : A k = [] := by
  cases hl : A k with
  | nil => rfl
  | cons x l =>
    obtain ⟨r, hr, _, e⟩ := h.cover k x (by rw [hl]; simp)
    exact absurd e (hk r hr)

end R

/-! ### INSERT under the before/after triggers -/

theorem insertBefore_eq {t : Table α} (hnn : ∀ r ∈ t, 0 ≤ r.next) {b : Int} (hb : 0 ≤ b) (n k : Int) (v : α) :
    insertBefore t n k b v =
      updNext (fun r => r.next == b && r.key == k) (fun _ => n) t ++ [⟨n, k, b, v⟩] := by
  unfold insertBefore updNext
  simp only [List.map_append, List.map_map, List.map_cons, List.map_nil]
  congr 1
  · apply List.map_congr_left
    intro r hr
    have := hnn r hr
    simp only [Function.comp, updRow]
    by_cases h1 : r.next = b <;> by_cases h2 : r.key = k
    · simp [h1, h2]
    · simp [h1, h2]
    · have : r.next ≠ -(1 + b) := by omega
      simp [h1, h2, this]
    · simp [h1, h2]
  · have : b ≠ -(1 + b) := by omega
    simp [updRow, this]

/-- The table after an insertion, in characterised form. -/
theorem R_insertChar {A : Int → List Int} {t : Table α} (h : R A t) {n k b : Int} (v : α)
    (hpos : 0 < n) (hfresh : n ∉ ids t) (hb : b = 0 ∨ b ∈ A k) :
    R (setKey A k (Ordered.insertBefore b n (A k)))
      (updNext (fun r => r.next == b && r.key == k) (fun _ => n) t ++ [⟨n, k, b, v⟩]) := by
  have hnA : ∀ k', n ∉ A k' := h.not_mem_of_fresh hfresh
  constructor
  · -- ids
    have : ids (updNext (fun r => r.next == b && r.key == k) (fun _ => n) t ++ [⟨n, k, b, v⟩]) = ids t ++ [n] := by
      rw [ids, List.map_append]; exact congrArg (· ++ [n]) (ids_updNext _ _ t)
    rw [this]
    refine List.nodup_append.mpr ⟨h.ids_nodup, by simp, ?_⟩
    intro a ha c hc
    simp only [List.mem_singleton] at hc
    subst hc
    intro e; subst e; exact hfresh ha
  · intro r hr
    simp only [List.mem_append, mem_updNext, List.mem_singleton] at hr
    rcases hr with ⟨r0, hr0, rfl⟩ | rfl
    · simpa using h.id_pos r0 hr0
    · exact hpos
  · intro k'
    by_cases hk : k' = k
    · subst hk; rw [setKey_same]; exact nodup_insertBefore (h.nodup _) (hnA _)
    · rw [setKey_other _ _ hk]; exact h.nodup _
  · intro r hr
    simp only [List.mem_append, mem_updNext, List.mem_singleton] at hr
    rcases hr with ⟨r0, hr0, rfl⟩ | rfl
    · have hm := h.mem r0 hr0
      rw [updRow_key, updRow_id]
      by_cases hk : r0.key = k
      · rw [hk, setKey_same, mem_insertBefore]; right; rw [← hk]; exact hm
      · rw [setKey_other _ _ hk]; exact hm
    · simp only [setKey_same, mem_insertBefore]; left; trivial
  · intro r hr
    simp only [List.mem_append, mem_updNext, List.mem_singleton] at hr
    rcases hr with ⟨r0, hr0, rfl⟩ | rfl
    · have hm := h.mem r0 hr0
      have hnx := h.next r0 hr0
      rw [updRow_key, updRow_id, updRow_next]
      by_cases hk : r0.key = k
      · have hs := succ_insertBefore (h.nodup k) (h.ne0 k) (hnA k) hb (hk ▸ hm)
        rw [hk, setKey_same, hs, ← hk, ← hnx]
        by_cases hnb : r0.next = b
        · simp [hnb, hk]
        · simp [hnb]
      · have : (r0.next == b && r0.key == k) = false := by simp [hk]
        simp only [this, Bool.false_eq_true, if_false]
        rw [setKey_other _ _ hk]; exact hnx
    · simp only [setKey_same]
      exact (succ_insertBefore_new (hnA k) hb).symm
  · intro k' x hx
    by_cases hk : k' = k
    · subst hk
      rw [setKey_same, mem_insertBefore] at hx
      rcases hx with rfl | hx
      · exact ⟨⟨x, k', b, v⟩, by simp, rfl, rfl⟩
      · obtain ⟨r, hr, e1, e2⟩ := h.cover k' x hx
        exact ⟨_, List.mem_append_left _ (mem_updNext.mpr ⟨r, hr, rfl⟩), by simpa using e1, by simpa using e2⟩
    · rw [setKey_other _ _ hk] at hx
      obtain ⟨r, hr, e1, e2⟩ := h.cover k' x hx
      exact ⟨_, List.mem_append_left _ (mem_updNext.mpr ⟨r, hr, rfl⟩), by simpa using e1, by simpa using e2⟩

theorem R_insertBefore {A : Int → List Int} {t : Table α} (h : R A t) {n k b : Int} (v : α)
    (hpos : 0 < n) (hfresh : n ∉ ids t) (hb : b = 0 ∨ b ∈ A k) :
    R (setKey A k (Ordered.insertBefore b n (A k))) (insertBefore t n k b v) := by
  have hb0 : 0 ≤ b := by
    rcases hb with hb | hb
    · omega
    · exact Int.le_of_lt (h.pos hb)
  rw [insertBefore_eq (fun r hr => h.next_nonneg hr) hb0]
  exact R_insertChar h v hpos hfresh hb

/-! ### add_back -/

theorem insertBefore_zero {n : Int} {l : List Int} (h0 : ∀ y ∈ l, y ≠ 0) :
    Ordered.insertBefore 0 n l = l ++ [n] := by
  induction l with
  | nil => rfl
  | cons a l ih =>
    have : a ≠ 0 := h0 a (by simp)
    simp only [Ordered.insertBefore, if_neg this, List.cons_append]
    rw [ih (fun y hy => h0 y (List.mem_cons_of_mem _ hy))]

theorem appendBack_eq {t : Table α} {n : Int} (hfresh : n ∉ ids t) (k : Int) (v : α) :
    appendBack t n k v = updNext (fun r => r.next == 0 && r.key == k) (fun _ => n) t ++ [⟨n, k, 0, v⟩] := by
  unfold appendBack updNext
  simp only [List.map_append, List.map_cons, List.map_nil]
  congr 1
  · apply List.map_congr_left
    intro r hr
    have hne : r.id ≠ n := by
      intro e; apply hfresh; simp only [ids, List.mem_map]; exact ⟨r, hr, e⟩
    unfold updRow
    by_cases h1 : r.key = k <;> by_cases h2 : r.next = 0 <;> simp [h1, h2, hne]
  · simp [updRow]

theorem R_appendBack {A : Int → List Int} {t : Table α} (h : R A t) {n k : Int} (v : α)
    (hpos : 0 < n) (hfresh : n ∉ ids t) :
    R (setKey A k (A k ++ [n])) (appendBack t n k v) := by
  rw [appendBack_eq hfresh, ← insertBefore_zero (h.ne0 k)]
  exact R_insertChar h v hpos hfresh (Or.inl rfl)

/-! ### DELETE of one row with re-linking of its predecessor -/

/-- Characterised form: the predecessor of `i` (in key `k`) inherits `nx`, the row `i` goes. -/
def spliceOut (t : Table α) (i k nx : Int) : Table α :=
  (updNext (fun r => r.next == i && r.key == k) (fun _ => nx) t).filter (fun r => r.id != i)

theorem mem_spliceOut {t : Table α} {i k nx : Int} {r' : Row α} :
    r' ∈ spliceOut t i k nx ↔ ∃ r ∈ t, r.id ≠ i ∧ updRow (fun r => r.next == i && r.key == k) (fun _ => nx) r = r' := by
  unfold spliceOut
  simp only [List.mem_filter, mem_updNext, bne_iff_ne, ne_eq]
  constructor
  · rintro ⟨⟨r, hr, rfl⟩, hne⟩
    exact ⟨r, hr, by simpa using hne, rfl⟩
  · rintro ⟨r, hr, hne, rfl⟩
    exact ⟨⟨r, hr, rfl⟩, by simpa using hne⟩

theorem nodup_ids_filter {t : Table α} (p : Row α → Bool) (h : (ids t).Nodup) : (ids (t.filter p)).Nodup := by
  unfold ids at *
  exact List.Nodup.sublist (List.Sublist.map _ List.filter_sublist) h

theorem R_spliceOut {A : Int → List Int} {t : Table α} (h : R A t) {old : Row α} (hold : old ∈ t) :
    R (setKey A old.key ((A old.key).erase old.id)) (spliceOut t old.id old.key old.next) := by
  have hnd := h.nodup old.key
  have h0 := h.ne0 old.key
  constructor
  · unfold spliceOut
    apply nodup_ids_filter
    rw [ids_updNext]; exact h.ids_nodup
  · intro r hr
    obtain ⟨r0, hr0, _, rfl⟩ := mem_spliceOut.mp hr
    simpa using h.id_pos r0 hr0
  · intro k'
    by_cases hk : k' = old.key
    · subst hk; rw [setKey_same]; exact List.Nodup.erase _ hnd
    · rw [setKey_other _ _ hk]; exact h.nodup _
  · intro r hr
    obtain ⟨r0, hr0, hne, rfl⟩ := mem_spliceOut.mp hr
    rw [updRow_key, updRow_id]
    by_cases hk : r0.key = old.key
    · rw [hk, setKey_same]
      exact (List.mem_erase_of_ne hne).mpr (hk ▸ h.mem r0 hr0)
    · rw [setKey_other _ _ hk]; exact h.mem r0 hr0
  · intro r hr
    obtain ⟨r0, hr0, hne, rfl⟩ := mem_spliceOut.mp hr
    rw [updRow_key, updRow_id, updRow_next]
    have hnx := h.next r0 hr0
    by_cases hk : r0.key = old.key
    · rw [hk, setKey_same, succ_erase hnd h0 (hk ▸ h.mem r0 hr0) hne, ← hk, ← hnx, hk, ← h.next old hold]
      by_cases hn : r0.next = old.id
      · simp [hn, hk]
      · simp [hn]
    · have : (r0.next == old.id && r0.key == old.key) = false := by simp [hk]
      simp only [this, Bool.false_eq_true, if_false]
      rw [setKey_other _ _ hk]; exact hnx
  · intro k' x hx
    by_cases hk : k' = old.key
    · subst hk
      rw [setKey_same] at hx
      have hx' := (List.Nodup.mem_erase_iff hnd).mp hx
      obtain ⟨r, hr, e1, e2⟩ := h.cover _ x hx'.2
      exact ⟨_, mem_spliceOut.mpr ⟨r, hr, by rw [e1]; exact hx'.1, rfl⟩, by simpa using e1, by simpa using e2⟩
    · rw [setKey_other _ _ hk] at hx
      obtain ⟨r, hr, e1, e2⟩ := h.cover _ x hx
      have hne : r.id ≠ old.id := by
        intro e
        have := eq_of_id_eq h.ids_nodup hr hold e
        rw [this] at e2; exact hk e2.symm
      exact ⟨_, mem_spliceOut.mpr ⟨r, hr, hne, rfl⟩, by simpa using e1, by simpa using e2⟩

theorem find_rowsOf {A : Int → List Int} {t : Table α} (h : R A t) {k i : Int} {old : Row α}
    (hf : (rowsOf t k).find? (·.id == i) = some old) : old ∈ t ∧ old.id = i ∧ old.key = k := by
  have h1 := List.mem_of_find?_eq_some hf
  have h2 := List.find?_some hf
  obtain ⟨ht, hk⟩ := mem_rowsOf.mp h1
  exact ⟨ht, by simpa using h2, hk⟩

/-- `DELETE FROM PlaylistEntity WHERE listId = k AND id = i` (trigger firing): `i` leaves the list of `k`. -/
theorem R_deleteKeyed {A : Int → List Int} {t : Table α} (h : R A t) (fires : Row α → Bool)
    (hfires : ∀ r ∈ t, fires r = true) (k i : Int) :
    R (setKey A k ((A k).erase i)) (deleteKeyed fires t k i) := by
  unfold deleteKeyed
  cases hf : (rowsOf t k).find? (·.id == i) with
  | none =>
    -- no such row in this list: nothing happens, and `i` is not listed under `k`
    have hni : i ∉ A k := by
      intro hx
      obtain ⟨r, hr, e1, e2⟩ := h.cover k i hx
      have := List.find?_eq_none.mp hf r (mem_rowsOf.mpr ⟨hr, e2⟩)
      simp [e1] at this
    have : setKey A k ((A k).erase i) = A := by
      funext k'
      by_cases hk : k' = k
      · subst hk; rw [setKey_same, List.erase_of_not_mem hni]
      · rw [setKey_other _ _ hk]
    simp only [this]; exact h
  | some old =>
    obtain ⟨ht, hid, hk⟩ := find_rowsOf h hf
    simp only [hfires old ht, if_true]
    have := R_spliceOut h ht
    rw [hid, hk] at this
    rw [hid, hk]
    exact this

theorem deleteKeyed_fires {t : Table α} (fires : Row α → Bool) (hv : ∀ r r' : Row α, r.val = r'.val → fires r = fires r')
    (hfires : ∀ r ∈ t, fires r = true) (k i : Int) : ∀ r ∈ deleteKeyed fires t k i, fires r = true := by
  unfold deleteKeyed
  cases (rowsOf t k).find? (·.id == i) with
  | none => exact hfires
  | some old =>
    intro r hr
    simp only at hr
    have hr' := (List.mem_filter.mp hr).1
    split at hr'
    · obtain ⟨r0, hr0, rfl⟩ := mem_updNext.mp hr'
      rw [hv _ r0 (updRow_val _ _ _)]; exact hfires r0 hr0
    · exact hfires r hr'

theorem foldl_erase_nil {l : List Int} (hn : l.Nodup) (L : List Int) (hs : ∀ x ∈ l, x ∈ L) :
    L.foldl (fun l i => l.erase i) l = [] := by
  induction L generalizing l with
  | nil =>
    cases l with
    | nil => rfl
    | cons a l => exact absurd (hs a (by simp)) (by simp)
  | cons a L ih =>
    simp only [List.foldl_cons]
    apply ih (List.Nodup.erase _ hn)
    intro x hx
    have := (List.Nodup.mem_erase_iff hn).mp hx
    rcases List.mem_cons.mp (hs x this.2) with e | e
    · exact absurd e this.1
    · exact e

/-- `DELETE FROM PlaylistEntity WHERE listId = k`: the list of `k` becomes empty, all others stay. -/
theorem R_clearKey {A : Int → List Int} {t : Table α} (h : R A t) (fires : Row α → Bool)
    (hv : ∀ r r' : Row α, r.val = r'.val → fires r = fires r')
    (hfires : ∀ r ∈ t, fires r = true) (k : Int) :
    R (setKey A k []) (clearKey fires t k) := by
  unfold clearKey
  have key : ∀ (L : List Int) (A : Int → List Int) (t : Table α), R A t → (∀ r ∈ t, fires r = true) →
      R (setKey A k (L.foldl (fun l i => l.erase i) (A k))) (L.foldl (fun t i => deleteKeyed fires t k i) t) ∧
      ∀ r ∈ L.foldl (fun t i => deleteKeyed fires t k i) t, fires r = true := by
    intro L
    induction L with
    | nil =>
      intro A t h hf
      have : setKey A k (A k) = A := by
        funext k'; by_cases hk : k' = k
        · subst hk; simp
        · simp [setKey_other _ _ hk]
      simp only [List.foldl_nil, this]; exact ⟨h, hf⟩
    | cons a L ih =>
      intro A t h hf
      simp only [List.foldl_cons]
      have h1 := R_deleteKeyed h fires hf k a
      have hf1 := deleteKeyed_fires fires hv hf k a
      have := ih _ _ h1 hf1
      simp only [setKey_same] at this
      have e : setKey (setKey A k ((A k).erase a)) k (L.foldl (fun l i => l.erase i) ((A k).erase a)) =
          setKey A k (L.foldl (fun l i => l.erase i) ((A k).erase a)) := by
        funext k'; by_cases hk : k' = k
        · subst hk; simp
        · simp [setKey_other _ _ hk]
      rw [e] at this; exact this
  have := (key ((rowsOf t k).map (·.id)) A t h hfires).1
  rw [foldl_erase_nil (h.nodup k)] at this
  · exact this
  · intro x hx
    obtain ⟨r, hr, e1, e2⟩ := h.cover k x hx
    exact List.mem_map.mpr ⟨r, mem_rowsOf.mpr ⟨hr, e2⟩, e1⟩

/-! ### the four-statement splice of playlist_table::update (move to another key) -/

/-- Characterised form of `move` to a different key. -/
def moveRow (i ok onext nk target : Int) (v : α) (r : Row α) : Row α :=
  if r.id = i then ⟨i, nk, target, v⟩
  else if r.next = i ∧ r.key = ok then { r with next := onext }
  else if r.next = target ∧ r.key = nk then { r with next := i }
  else r

theorem move_eq {A : Int → List Int} {t : Table α} (h : R A t) {old : Row α} (hold : old ∈ t)
    {nk target : Int} (hk : nk ≠ old.key) (ht : 0 ≤ target) (v : α) :
    move t old.id old.key old.next nk target v = t.map (moveRow old.id old.key old.next nk target v) := by
  unfold move updNext
  simp only [List.map_map]
  apply List.map_congr_left
  intro r hr
  have hpos := h.id_pos old hold
  have hnn := h.next_nonneg hr
  simp only [Function.comp]
  by_cases hid : r.id = old.id
  · have hr' : r = old := eq_of_id_eq h.ids_nodup hr hold hid
    subst hr'
    have h1 : -(1 + r.next) ≠ r.id := by omega
    have h3 : r.key ≠ nk := Ne.symm hk
    simp [updRow, moveRow, h1, h3]
  · have s1 : updRow (fun r => r.id == old.id) (fun n => -(1 + n)) r = r := updRow_neg (by simpa using hid)
    rw [s1]
    by_cases c1 : r.next = old.id ∧ r.key = old.key
    · have s2 : updRow (fun r => r.next == old.id && r.key == old.key) (fun _ => old.next) r = { r with next := old.next } := by
        unfold updRow; simp [c1.1, c1.2]
      rw [s2]
      have s3 : updRow (fun r => r.next == target && r.key == nk) (fun _ => old.id) { r with next := old.next }
          = { r with next := old.next } := by
        apply updRow_neg
        have : r.key ≠ nk := by rw [c1.2]; exact Ne.symm hk
        simp [this]
      rw [s3]
      simp only [moveRow, if_neg hid, if_pos c1]
      have : ((r.id == old.id) = true) = False := by simpa using hid
      simp [hid]
    · have s2 : updRow (fun r => r.next == old.id && r.key == old.key) (fun _ => old.next) r = r := by
        apply updRow_neg
        by_cases c : r.next = old.id
        · have : r.key ≠ old.key := fun e => c1 ⟨c, e⟩
          simp [this]
        · simp [c]
      rw [s2]
      by_cases c2 : r.next = target ∧ r.key = nk
      · have s3 : updRow (fun r => r.next == target && r.key == nk) (fun _ => old.id) r = { r with next := old.id } := by
          unfold updRow; simp [c2.1, c2.2]
        rw [s3]
        simp only [moveRow, if_neg hid, if_neg c1, if_pos c2]
        simp [hid]
      · have s3 : updRow (fun r => r.next == target && r.key == nk) (fun _ => old.id) r = r := by
          apply updRow_neg
          by_cases c : r.next = target
          · have : r.key ≠ nk := fun e => c2 ⟨c, e⟩
            simp [this]
          · simp [c]
        rw [s3]
        simp only [moveRow, if_neg hid, if_neg c1, if_neg c2]
        simp [hid]

theorem R_move {A : Int → List Int} {t : Table α} (h : R A t) {old : Row α} (hold : old ∈ t)
    {nk target : Int} (hk : nk ≠ old.key) (hb : target = 0 ∨ target ∈ A nk) (v : α) :
    R (setKey (setKey A old.key ((A old.key).erase old.id)) nk (Ordered.insertBefore target old.id (A nk)))
      (move t old.id old.key old.next nk target v) := by
  have ht0 : 0 ≤ target := by
    rcases hb with hb | hb
    · omega
    · exact Int.le_of_lt (h.pos hb)
  rw [move_eq h hold hk ht0]
  have hio : old.id ∈ A old.key := h.mem old hold
  have hin : old.id ∉ A nk := fun hx => hk (h.key_unique hx hio)
  have hnext := h.next old hold
  have hmem : ∀ {r' : Row α}, r' ∈ t.map (moveRow old.id old.key old.next nk target v) ↔
      ∃ r ∈ t, moveRow old.id old.key old.next nk target v r = r' := by
    intro r'; simp
  have hmid : ∀ r, (moveRow old.id old.key old.next nk target v r).id = r.id := by
    intro r; unfold moveRow
    split
    · rename_i e; exact e.symm
    · split
      · rfl
      · split <;> rfl
  have hset : ∀ k', k' ≠ nk → k' ≠ old.key →
      setKey (setKey A old.key ((A old.key).erase old.id)) nk (Ordered.insertBefore target old.id (A nk)) k' = A k' := by
    intro k' h1 h2; rw [setKey_other _ _ h1, setKey_other _ _ h2]
  have hsetO : setKey (setKey A old.key ((A old.key).erase old.id)) nk (Ordered.insertBefore target old.id (A nk)) old.key
      = (A old.key).erase old.id := by
    rw [setKey_other _ _ (Ne.symm hk), setKey_same]
  constructor
  · have : ids (t.map (moveRow old.id old.key old.next nk target v)) = ids t := by
      simp only [ids, List.map_map]
      apply List.map_congr_left
      intro r _; exact hmid r
    rw [this]; exact h.ids_nodup
  · intro r hr
    obtain ⟨r0, hr0, rfl⟩ := hmem.mp hr
    rw [hmid]; exact h.id_pos r0 hr0
  · intro k'
    by_cases h1 : k' = nk
    · subst h1; rw [setKey_same]; exact nodup_insertBefore (h.nodup _) hin
    · by_cases h2 : k' = old.key
      · subst h2; rw [hsetO]; exact List.Nodup.erase _ (h.nodup _)
      · rw [hset k' h1 h2]; exact h.nodup _
  · intro r hr
    obtain ⟨r0, hr0, rfl⟩ := hmem.mp hr
    rw [hmid]
    by_cases hid : r0.id = old.id
    · have : (moveRow old.id old.key old.next nk target v r0).key = nk := by simp [moveRow, hid]
      rw [this, setKey_same, mem_insertBefore]; left; exact hid
    · have hkey : (moveRow old.id old.key old.next nk target v r0).key = r0.key := by
        unfold moveRow; rw [if_neg hid]; split
        · rfl
        · split <;> rfl
      rw [hkey]
      have hm := h.mem r0 hr0
      by_cases h1 : r0.key = nk
      · rw [h1, setKey_same, mem_insertBefore]; right; exact h1 ▸ hm
      · by_cases h2 : r0.key = old.key
        · rw [h2, hsetO]; exact (List.mem_erase_of_ne hid).mpr (h2 ▸ hm)
        · rw [hset _ h1 h2]; exact hm
  · intro r hr
    obtain ⟨r0, hr0, rfl⟩ := hmem.mp hr
    rw [hmid]
    by_cases hid : r0.id = old.id
    · have e1 : (moveRow old.id old.key old.next nk target v r0).key = nk := by simp [moveRow, hid]
      have e2 : (moveRow old.id old.key old.next nk target v r0).next = target := by simp [moveRow, hid]
      rw [e1, e2, setKey_same, hid]
      exact (succ_insertBefore_new hin hb).symm
    · have hkey : (moveRow old.id old.key old.next nk target v r0).key = r0.key := by
        unfold moveRow; rw [if_neg hid]; split
        · rfl
        · split <;> rfl
      rw [hkey]
      have hm := h.mem r0 hr0
      have hnx := h.next r0 hr0
      by_cases h1 : r0.key = nk
      · have hne : r0.key ≠ old.key := by rw [h1]; exact hk
        have e : (moveRow old.id old.key old.next nk target v r0).next = if r0.next = target then old.id else r0.next := by
          unfold moveRow; rw [if_neg hid, if_neg (fun c => hne c.2)]
          by_cases c : r0.next = target
          · simp [c, h1]
          · simp [c]
        rw [e, h1, setKey_same, succ_insertBefore (h.nodup nk) (h.ne0 nk) hin hb (h1 ▸ hm), ← h1, ← hnx]
      · by_cases h2 : r0.key = old.key
        · have e : (moveRow old.id old.key old.next nk target v r0).next = if r0.next = old.id then old.next else r0.next := by
            unfold moveRow; rw [if_neg hid]
            by_cases c : r0.next = old.id
            · simp [c, h2]
            · simp [c, h1]
          rw [e, h2, hsetO, succ_erase (h.nodup _) (h.ne0 _) (h2 ▸ hm) hid, ← h2, ← hnx, h2, ← hnext]
        · have e : (moveRow old.id old.key old.next nk target v r0).next = r0.next := by
            unfold moveRow; rw [if_neg hid, if_neg (fun c => h2 c.2), if_neg (fun c => h1 c.2)]
          rw [e, hset _ h1 h2]; exact hnx
  · intro k' x hx
    by_cases h1 : k' = nk
    · subst h1
      rw [setKey_same, mem_insertBefore] at hx
      rcases hx with rfl | hx
      · exact ⟨_, hmem.mpr ⟨old, hold, rfl⟩, hmid old, by simp [moveRow]⟩
      · obtain ⟨r, hr, e1, e2⟩ := h.cover _ x hx
        have hid : r.id ≠ old.id := by
          intro e; have := eq_of_id_eq h.ids_nodup hr hold e; rw [this] at e2; exact hk e2.symm
        refine ⟨_, hmem.mpr ⟨r, hr, rfl⟩, by rw [hmid]; exact e1, ?_⟩
        unfold moveRow; rw [if_neg hid]; split
        · exact e2
        · split <;> exact e2
    · by_cases h2 : k' = old.key
      · subst h2
        rw [hsetO] at hx
        have hx' := (List.Nodup.mem_erase_iff (h.nodup _)).mp hx
        obtain ⟨r, hr, e1, e2⟩ := h.cover _ x hx'.2
        have hid : r.id ≠ old.id := by rw [e1]; exact hx'.1
        refine ⟨_, hmem.mpr ⟨r, hr, rfl⟩, by rw [hmid]; exact e1, ?_⟩
        unfold moveRow; rw [if_neg hid]; split
        · exact e2
        · split <;> exact e2
      · rw [hset k' h1 h2] at hx
        obtain ⟨r, hr, e1, e2⟩ := h.cover _ x hx
        have hid : r.id ≠ old.id := by
          intro e; have := eq_of_id_eq h.ids_nodup hr hold e; rw [this] at e2; exact h2 e2.symm
        refine ⟨_, hmem.mpr ⟨r, hr, rfl⟩, by rw [hmid]; exact e1, ?_⟩
        unfold moveRow; rw [if_neg hid]; split
        · exact e2
        · split <;> exact e2

theorem R_setVal {A : Int → List Int} {t : Table α} (h : R A t) (i : Int) (v : α) : R A (setVal t i v) := by
  have hm : ∀ {r' : Row α}, r' ∈ setVal t i v ↔ ∃ r ∈ t, (if (r.id == i) = true then { r with val := v } else r) = r' := by
    intro r'; simp [setVal]
  have hid : ∀ r : Row α, (if (r.id == i) = true then { r with val := v } else r).id = r.id := by intro r; split <;> rfl
  have hkey : ∀ r : Row α, (if (r.id == i) = true then { r with val := v } else r).key = r.key := by intro r; split <;> rfl
  have hnext : ∀ r : Row α, (if (r.id == i) = true then { r with val := v } else r).next = r.next := by intro r; split <;> rfl
  constructor
  · have : ids (setVal t i v) = ids t := by
      simp only [ids, setVal, List.map_map]; apply List.map_congr_left; intro r _; exact hid r
    rw [this]; exact h.ids_nodup
  · intro r hr; obtain ⟨r0, hr0, rfl⟩ := hm.mp hr; rw [hid]; exact h.id_pos r0 hr0
  · exact h.nodup
  · intro r hr; obtain ⟨r0, hr0, rfl⟩ := hm.mp hr; rw [hid, hkey]; exact h.mem r0 hr0
  · intro r hr; obtain ⟨r0, hr0, rfl⟩ := hm.mp hr; rw [hid, hkey, hnext]; exact h.next r0 hr0
  · intro k x hx
    obtain ⟨r, hr, e1, e2⟩ := h.cover k x hx
    exact ⟨_, hm.mpr ⟨r, hr, rfl⟩, by rw [hid]; exact e1, by rw [hkey]; exact e2⟩

/-! ### the backwards walk (`sort_ids`, `get_for_list`) -/

theorem lookupNext_unique {rows : Table α} {c : Int} {r : Row α} (hr : r ∈ rows) (hc : r.next = c)
    (hu : ∀ r' ∈ rows, r'.next = c → r' = r) : lookupNext rows c = some r := by
  unfold lookupNext
  apply find?_unique (List.mem_reverse.mpr hr) (by simpa using hc)
  intro r' hr' hp
  exact hu r' (List.mem_reverse.mp hr') (by simpa using hp)

theorem lookupNext_none {rows : Table α} {c : Int} (h : ∀ r ∈ rows, r.next ≠ c) : lookupNext rows c = none := by
  unfold lookupNext
  rw [List.find?_eq_none]
  intro r hr
  simpa using h r (List.mem_reverse.mp hr)

theorem succ_mid {l1 suf : List Int} {p : Int} (hn : (l1 ++ p :: suf).Nodup) :
    succ (l1 ++ p :: suf) p = suf.headD 0 := by
  induction l1 with
  | nil => simp [succ]
  | cons a l ih =>
    have hn' : a ∉ l ++ p :: suf ∧ (l ++ p :: suf).Nodup := List.nodup_cons.mp hn
    have : a ≠ p := by
      intro e; subst e; exact hn'.1 (by simp)
    simp only [List.cons_append, succ, if_neg this]
    exact ih hn'.2

theorem walkFuel_spec {A : Int → List Int} {t : Table α} (h : R A t) (k : Int) :
    ∀ (n : Nat) (pre suf : List Int) (acc : List (Row α)) (fuel : Nat),
      pre.length = n → A k = pre ++ suf → acc.map (·.id) = suf → (∀ r ∈ acc, r ∈ rowsOf t k) →
      pre.length ≤ fuel →
      (walkFuel (rowsOf t k) fuel (suf.headD 0) acc).map (·.id) = A k ∧
      ∀ r ∈ walkFuel (rowsOf t k) fuel (suf.headD 0) acc, r ∈ rowsOf t k := by
  intro n
  induction n with
  | zero =>
    intro pre suf acc fuel hlen hA hacc haccm _
    have hpre : pre = [] := List.length_eq_zero_iff.mp hlen
    subst hpre
    simp only [List.nil_append] at hA
    cases fuel with
    | zero => simp only [walkFuel]; exact ⟨by rw [hacc, hA], haccm⟩
    | succ f =>
      have hnone : lookupNext (rowsOf t k) (suf.headD 0) = none := by
        apply lookupNext_none
        intro r hr
        obtain ⟨hrt, hrk⟩ := mem_rowsOf.mp hr
        rw [h.next r hrt, hrk, hA]
        have hm : r.id ∈ suf := by have := h.mem r hrt; rwa [hrk, hA] at this
        cases suf with
        | nil => simp at hm
        | cons a l =>
          simp only [List.headD_cons]
          exact succ_ne_head (hA ▸ h.nodup k) (h.ne0 k a (by rw [hA]; simp)) r.id
      simp only [walkFuel, hnone]
      exact ⟨by rw [hacc, hA], haccm⟩
  | succ n ih =>
    intro pre suf acc fuel hlen hA hacc haccm hfuel
    rcases List.eq_nil_or_concat pre with hp | ⟨pre', p, hp⟩
    · subst hp; simp at hlen
    · subst hp
      simp only [List.concat_eq_append, List.length_append, List.length_cons, List.length_nil] at hlen hfuel
      have hA' : A k = pre' ++ p :: suf := by rw [hA]; simp
      obtain ⟨rp, hrpt, hrpid, hrpk⟩ := h.cover k p (by rw [hA']; simp)
      have hrp : rp ∈ rowsOf t k := mem_rowsOf.mpr ⟨hrpt, hrpk⟩
      have hnext : rp.next = suf.headD 0 := by
        rw [h.next rp hrpt, hrpk, hrpid, hA']
        exact succ_mid (hA' ▸ h.nodup k)
      have hlook : lookupNext (rowsOf t k) (suf.headD 0) = some rp := by
        apply lookupNext_unique hrp hnext
        intro r' hr' hn'
        obtain ⟨hrt', hrk'⟩ := mem_rowsOf.mp hr'
        apply eq_of_id_eq h.ids_nodup hrt' hrpt
        have e1 : succ (A k) r'.id = succ (A k) rp.id := by
          have := h.next r' hrt'; rw [hrk'] at this
          have h2 := h.next rp hrpt; rw [hrpk] at h2
          rw [← this, ← h2, hn', hnext]
        exact succ_inj (h.nodup k) (h.ne0 k) (hrk' ▸ h.mem r' hrt') (hrpk ▸ h.mem rp hrpt) e1
      cases fuel with
      | zero => omega
      | succ f =>
        simp only [walkFuel, hlook]
        have := ih pre' (p :: suf) (rp :: acc) f (by omega) hA' (by simp [hrpid, hacc])
          (by intro r hr; rcases List.mem_cons.mp hr with e | e; exact e ▸ hrp; exact haccm r e) (by omega)
        simpa [hrpid] using this

/-- C09 core: on a table that represents `A`, the backwards walk returns exactly
the rows of `A k`, each once, in order (and does not hit the missing-tail UB). -/
theorem walkBack_spec {A : Int → List Int} {t : Table α} (h : R A t) (k : Int) :
    ∃ l, walkBack t k = .ok l ∧ l.map (·.id) = A k ∧ ∀ r ∈ l, r ∈ t ∧ r.key = k := by
  unfold walkBack
  by_cases hemp : (rowsOf t k).isEmpty = true
  · simp only [hemp, if_true]
    have hnil : rowsOf t k = [] := List.isEmpty_iff.mp hemp
    have : A k = [] := by
      apply h.nil_of_no_rows
      intro r hr hk
      have : r ∈ rowsOf t k := mem_rowsOf.mpr ⟨hr, hk⟩
      rw [hnil] at this; simp at this
    exact ⟨[], rfl, by simp [this], by simp⟩
  · simp only [hemp, Bool.false_eq_true, if_false]
    have hlen : (A k).length ≤ (rowsOf t k).length := by
      have h1 : (A k).length ≤ ((rowsOf t k).map (·.id)).length := by
        apply length_le_of_nodup_subset (h.nodup k)
        intro x hx
        obtain ⟨r, hr, e1, e2⟩ := h.cover k x hx
        exact List.mem_map.mpr ⟨r, mem_rowsOf.mpr ⟨hr, e2⟩, e1⟩
      simpa using h1
    have hw := walkFuel_spec h k (A k).length (A k) [] [] (rowsOf t k).length rfl (by simp) rfl (by simp) hlen
    simp only [List.headD_nil] at hw
    -- the tail exists
    obtain ⟨r0, hr0⟩ : ∃ r0, r0 ∈ rowsOf t k := by
      cases hrows : rowsOf t k with
      | nil => simp [hrows] at hemp
      | cons a l => exact ⟨a, by simp⟩
    obtain ⟨hr0t, hr0k⟩ := mem_rowsOf.mp hr0
    have hne : A k ≠ [] := by
      intro e; have := h.mem r0 hr0t; rw [hr0k, e] at this; simp at this
    rcases List.eq_nil_or_concat (A k) with e | ⟨pre, p, e⟩
    · exact absurd e hne
    · simp only [List.concat_eq_append] at e
      obtain ⟨rp, hrpt, hrpid, hrpk⟩ := h.cover k p (by rw [e]; simp)
      have hnext : rp.next = 0 := by
        rw [h.next rp hrpt, hrpk, hrpid, e]
        have := succ_mid (l1 := pre) (p := p) (suf := []) (by simpa using (e ▸ h.nodup k))
        simpa using this
      have hlook : lookupNext (rowsOf t k) 0 = some rp := by
        apply lookupNext_unique (mem_rowsOf.mpr ⟨hrpt, hrpk⟩) hnext
        intro r' hr' hn'
        obtain ⟨hrt', hrk'⟩ := mem_rowsOf.mp hr'
        apply eq_of_id_eq h.ids_nodup hrt' hrpt
        have e1 : succ (A k) r'.id = succ (A k) rp.id := by
          have := h.next r' hrt'; rw [hrk'] at this
          have h2 := h.next rp hrpt; rw [hrpk] at h2
          rw [← this, ← h2, hn', hnext]
        exact succ_inj (h.nodup k) (h.ne0 k) (hrk' ▸ h.mem r' hrt') (hrpk ▸ h.mem rp hrpt) e1
      simp only [hlook]
      exact ⟨_, rfl, hw.1, fun r hr => mem_rowsOf.mp (hw.2 r hr)⟩

theorem walkIds_eq {A : Int → List Int} {t : Table α} (h : R A t) (k : Int) : walkIds t k = .ok (A k) := by
  obtain ⟨l, hl, hm, _⟩ := walkBack_spec h k
  simp [walkIds, hl, Res.bind, hm]

end EngineModel.Db.Chain
