/-
Representation relation between abstract ordered lists (one duplicate-free list
of ids per key) and a chain table, and the per-operation simulation lemmas.
-/
import EngineModel.Db.Chain
import EngineModel.Spec.Ordered

namespace EngineModel.Db.Chain

open EngineModel.Spec

variable {α : Type}

/-- Successor of `x` in `l` (0 when `x` is last or absent). -/
def succ : List Int → Int → Int
  | [], _ => 0
  | a :: l, x => if a = x then l.headD 0 else succ l x

/-- Abstract lists with the list of key `k` replaced. -/
def setKey (A : Int → List Int) (k : Int) (l : List Int) : Int → List Int :=
  fun k' => if k' = k then l else A k'

@[simp] theorem setKey_same (A : Int → List Int) (k : Int) (l : List Int) : setKey A k l k = l := by
  simp [setKey]

theorem setKey_other (A : Int → List Int) {k k' : Int} (l : List Int) (h : k' ≠ k) :
    setKey A k l k' = A k' := by
  simp [setKey, h]

/-- The table `t` represents the lists `A`: ids are a key of the table and
positive; each row sits in the list of its key with `next` = its successor there
(0 at the tail); every listed id has its row. -/
structure R (A : Int → List Int) (t : Table α) : Prop where
  ids_nodup : (ids t).Nodup
  id_pos : ∀ r ∈ t, 0 < r.id
  nodup : ∀ k, (A k).Nodup
  mem : ∀ r ∈ t, r.id ∈ A r.key
  next : ∀ r ∈ t, r.next = succ (A r.key) r.id
  cover : ∀ k x, x ∈ A k → ∃ r ∈ t, r.id = x ∧ r.key = k

/-! ### `succ` -/

theorem succ_not_mem {l : List Int} {x : Int} (h : x ∉ l) : succ l x = 0 := by
  induction l with
  | nil => rfl
  | cons a l ih =>
    simp only [List.mem_cons, not_or] at h
    simp [succ, Ne.symm h.1, ih h.2]

theorem succ_mem_or_zero (l : List Int) (x : Int) : succ l x = 0 ∨ succ l x ∈ l := by
  induction l with
  | nil => left; rfl
  | cons a l ih =>
    simp only [succ]
    split
    · cases l with
      | nil => left; rfl
      | cons b l => right; simp
    · rcases ih with h | h
      · left; exact h
      · right; exact List.mem_cons_of_mem _ h

theorem succ_ne_self {l : List Int} (hn : l.Nodup) (x : Int) (hx : x ≠ 0) : succ l x ≠ x := by
  induction l with
  | nil => simp [succ]; exact fun h => hx h.symm
  | cons a l ih =>
    simp only [succ]
    have hn' := List.nodup_cons.mp hn
    split
    · rename_i h; subst h
      cases l with
      | nil => simp; exact fun h => hx h.symm
      | cons b l => simp at *; intro h; exact hn'.1.1 h.symm
    · exact ih hn'.2

/-- `succ` never points at the head. -/
theorem succ_ne_head {a : Int} {l : List Int} (hn : (a :: l).Nodup) (ha : a ≠ 0) (x : Int) :
    succ (a :: l) x ≠ a := by
  have hn' := List.nodup_cons.mp hn
  intro h
  rcases succ_mem_or_zero l x with h0 | hm
  · simp only [succ] at h
    split at h
    · cases l with
      | nil => simp at h; exact ha h.symm
      | cons b l => simp at h; simp at hn'; exact hn'.1.1 h.symm
    · rw [h0] at h; exact ha h.symm
  · simp only [succ] at h
    split at h
    · cases l with
      | nil => simp at h; exact ha h.symm
      | cons b l => simp at h; simp at hn'; exact hn'.1.1 h.symm
    · rw [h] at hm; exact hn'.1 hm

/-- In a duplicate-free list without 0, `succ` is injective on members. -/
theorem succ_inj {l : List Int} (hn : l.Nodup) (h0 : ∀ y ∈ l, y ≠ 0) {x y : Int}
    (hx : x ∈ l) (hy : y ∈ l) (h : succ l x = succ l y) : x = y := by
  induction l with
  | nil => simp at hx
  | cons a l ih =>
    have hn' := List.nodup_cons.mp hn
    have h0' : ∀ y ∈ l, y ≠ 0 := fun y hy => h0 y (List.mem_cons_of_mem _ hy)
    simp only [succ] at h
    by_cases hax : a = x <;> by_cases hay : a = y
    · rw [← hax, ← hay]
    · subst hax
      rw [if_pos rfl, if_neg hay] at h
      have hy' : y ∈ l := by
        rcases List.mem_cons.mp hy with h1 | h1
        · exact absurd h1.symm hay
        · exact h1
      cases l with
      | nil => simp at hy'
      | cons b l =>
        simp only [List.headD_cons] at h
        exact absurd h.symm (succ_ne_head hn'.2 (h0' b (by simp)) y)
    · subst hay
      rw [if_pos rfl, if_neg hax] at h
      have hx' : x ∈ l := by
        rcases List.mem_cons.mp hx with h1 | h1
        · exact absurd h1.symm hax
        · exact h1
      cases l with
      | nil => simp at hx'
      | cons b l =>
        simp only [List.headD_cons] at h
        exact absurd h (succ_ne_head hn'.2 (h0' b (by simp)) x)
    · rw [if_neg hax, if_neg hay] at h
      have hx' : x ∈ l := by
        rcases List.mem_cons.mp hx with h1 | h1
        · exact absurd h1.symm hax
        · exact h1
      have hy' : y ∈ l := by
        rcases List.mem_cons.mp hy with h1 | h1
        · exact absurd h1.symm hay
        · exact h1
      exact ih hn'.2 h0' hx' hy' h

/-! ### `succ` under the abstract list operations -/

theorem mem_insertBefore {b n : Int} {l : List Int} {y : Int} :
    y ∈ Ordered.insertBefore b n l ↔ y = n ∨ y ∈ l := by
  induction l with
  | nil => simp [Ordered.insertBefore]
  | cons a l ih =>
    simp only [Ordered.insertBefore]
    split
    · simp
    · simp only [List.mem_cons, ih]
      constructor
      · rintro (h | h | h)
        · right; left; exact h
        · left; exact h
        · right; right; exact h
      · rintro (h | h | h)
        · right; left; exact h
        · left; exact h
        · right; right; exact h

theorem nodup_insertBefore {b n : Int} {l : List Int} (hn : l.Nodup) (hnl : n ∉ l) :
    (Ordered.insertBefore b n l).Nodup := by
  induction l with
  | nil => simp [Ordered.insertBefore]
  | cons a l ih =>
    have hn' := List.nodup_cons.mp hn
    simp only [List.mem_cons, not_or] at hnl
    simp only [Ordered.insertBefore]
    split
    · refine List.nodup_cons.mpr ⟨?_, hn⟩
      simp only [List.mem_cons, not_or]; exact hnl
    · refine List.nodup_cons.mpr ⟨?_, ih hn'.2 hnl.2⟩
      rw [mem_insertBefore]
      simp only [not_or]
      exact ⟨Ne.symm hnl.1, hn'.1⟩

theorem insertBefore_headD {b n : Int} {l : List Int} (hb : b = 0 ∨ b ∈ l) (h0 : ∀ y ∈ l, y ≠ 0) :
    (Ordered.insertBefore b n l).headD 0 = if l.headD 0 = b then n else l.headD 0 := by
  cases l with
  | nil =>
    rcases hb with hb | hb
    · simp [Ordered.insertBefore, hb]
    · simp at hb
  | cons c l =>
    simp only [Ordered.insertBefore, List.headD_cons]
    by_cases h : c = b
    · simp [h]
    · simp [h]

theorem succ_insertBefore {b n : Int} {l : List Int} (hn : l.Nodup) (h0 : ∀ y ∈ l, y ≠ 0)
    (hnl : n ∉ l) (hb : b = 0 ∨ b ∈ l) {x : Int} (hx : x ∈ l) :
    succ (Ordered.insertBefore b n l) x = if succ l x = b then n else succ l x := by
  induction l with
  | nil => simp at hx
  | cons a l ih =>
    have hn' := List.nodup_cons.mp hn
    have h0' : ∀ y ∈ l, y ≠ 0 := fun y hy => h0 y (List.mem_cons_of_mem _ hy)
    simp only [List.mem_cons, not_or] at hnl
    simp only [Ordered.insertBefore]
    by_cases hab : a = b
    · rw [if_pos hab]
      have hnx : n ≠ x := by
        rintro rfl
        rcases List.mem_cons.mp hx with h | h
        · exact hnl.1 h
        · exact hnl.2 h
      have h1 : succ (n :: a :: l) x = succ (a :: l) x := by
        simp only [succ, if_neg hnx]
      rw [h1]
      have h2 : succ (a :: l) x ≠ b := hab ▸ succ_ne_head hn (h0 a (by simp)) x
      rw [if_neg h2]
    · rw [if_neg hab]
      have hb' : b = 0 ∨ b ∈ l := by
        rcases hb with h | h
        · left; exact h
        · rcases List.mem_cons.mp h with h | h
          · exact absurd h.symm hab
          · right; exact h
      by_cases hax : a = x
      · simp only [succ, if_pos hax]
        exact insertBefore_headD hb' h0'
      · have hx' : x ∈ l := by
          rcases List.mem_cons.mp hx with h | h
          · exact absurd h.symm hax
          · exact h
        simp only [succ, if_neg hax]
        exact ih hn'.2 h0' hnl.2 hb' hx'

theorem succ_insertBefore_new {b n : Int} {l : List Int} (hnl : n ∉ l) (hb : b = 0 ∨ b ∈ l) :
    succ (Ordered.insertBefore b n l) n = b := by
  induction l with
  | nil =>
    rcases hb with hb | hb
    · simp [Ordered.insertBefore, succ, hb]
    · simp at hb
  | cons a l ih =>
    simp only [List.mem_cons, not_or] at hnl
    simp only [Ordered.insertBefore]
    by_cases hab : a = b
    · rw [if_pos hab]; simp [succ, hab]
    · rw [if_neg hab]
      have hb' : b = 0 ∨ b ∈ l := by
        rcases hb with h | h
        · left; exact h
        · rcases List.mem_cons.mp h with h | h
          · exact absurd h.symm hab
          · right; exact h
      simp only [succ, if_neg (Ne.symm hnl.1)]
      exact ih hnl.2 hb'

theorem succ_erase {d : Int} {l : List Int} (hn : l.Nodup) (h0 : ∀ y ∈ l, y ≠ 0)
    {x : Int} (hx : x ∈ l) (hxd : x ≠ d) :
    succ (l.erase d) x = if succ l x = d then succ l d else succ l x := by
  induction l with
  | nil => simp at hx
  | cons a l ih =>
    have hn' := List.nodup_cons.mp hn
    have h0' : ∀ y ∈ l, y ≠ 0 := fun y hy => h0 y (List.mem_cons_of_mem _ hy)
    by_cases had : a = d
    · subst had
      have hx' : x ∈ l := by
        rcases List.mem_cons.mp hx with h | h
        · exact absurd h hxd
        · exact h
      simp only [List.erase_cons_head, succ, if_neg (Ne.symm hxd)]
      have : succ l x ≠ a := by
        rcases succ_mem_or_zero l x with h | h
        · rw [h]; exact Ne.symm (h0 a (by simp))
        · intro e; rw [e] at h; exact hn'.1 h
      rw [if_neg this]
    · have hne : (a == d) = false := by simpa using had
      rw [List.erase_cons_tail (by simpa using had)]
      by_cases hax : a = x
      · subst hax
        simp only [succ, if_pos rfl, if_neg had]
        cases l with
        | nil =>
          simp only [List.erase_nil, List.headD_nil, succ]
          split <;> simp
        | cons c l =>
          by_cases hcd : c = d
          · subst hcd; simp [succ]
          · rw [List.erase_cons_tail (by simpa using hcd)]
            simp [hcd]
      · have hx' : x ∈ l := by
          rcases List.mem_cons.mp hx with h | h
          · exact absurd h.symm hax
          · exact h
        simp only [succ, if_neg hax, if_neg had]
        exact ih hn'.2 h0' hx'

/-- `insertAfter a` is `insertBefore (succ l a)`. -/
theorem insertAfter_eq_insertBefore {a n : Int} {l : List Int} (hn : l.Nodup) (h0 : ∀ y ∈ l, y ≠ 0)
    (ha : a ∈ l) : Ordered.insertAfter a n l = Ordered.insertBefore (succ l a) n l := by
  induction l with
  | nil => simp at ha
  | cons c l ih =>
    have hn' := List.nodup_cons.mp hn
    have h0' : ∀ y ∈ l, y ≠ 0 := fun y hy => h0 y (List.mem_cons_of_mem _ hy)
    simp only [Ordered.insertAfter, Ordered.insertBefore, succ]
    by_cases hca : c = a
    · subst hca
      simp only [if_true]
      have : c ≠ l.headD 0 := by
        cases l with
        | nil => simpa using h0 c (by simp)
        | cons e l => simp at hn' ⊢; exact hn'.1.1
      rw [if_neg this]
      cases l with
      | nil => simp [Ordered.insertBefore]
      | cons e l => simp [Ordered.insertBefore]
    · have ha' : a ∈ l := by
        rcases List.mem_cons.mp ha with h | h
        · exact absurd h.symm hca
        · exact h
      simp only [if_neg hca]
      have : c ≠ succ l a := by
        rcases succ_mem_or_zero l a with h | h
        · rw [h]; exact h0 c (by simp)
        · intro e; rw [← e] at h; exact hn'.1 h
      rw [if_neg this, ih hn'.2 h0' ha']

/-! ### rows under `UPDATE … SET next` -/

@[simp] theorem updRow_id (p : Row α → Bool) (e : Int → Int) (r : Row α) : (updRow p e r).id = r.id := by
  unfold updRow; split <;> rfl
@[simp] theorem updRow_key (p : Row α → Bool) (e : Int → Int) (r : Row α) : (updRow p e r).key = r.key := by
  unfold updRow; split <;> rfl
@[simp] theorem updRow_val (p : Row α → Bool) (e : Int → Int) (r : Row α) : (updRow p e r).val = r.val := by
  unfold updRow; split <;> rfl
theorem updRow_next (p : Row α → Bool) (e : Int → Int) (r : Row α) :
    (updRow p e r).next = if p r then e r.next else r.next := by
  unfold updRow; split <;> rfl
theorem updRow_neg {p : Row α → Bool} {e : Int → Int} {r : Row α} (h : p r = false) : updRow p e r = r := by
  unfold updRow; simp [h]

theorem mem_updNext {p : Row α → Bool} {e : Int → Int} {t : Table α} {r' : Row α} :
    r' ∈ updNext p e t ↔ ∃ r ∈ t, updRow p e r = r' := by
  simp [updNext]

@[simp] theorem ids_updNext (p : Row α → Bool) (e : Int → Int) (t : Table α) : ids (updNext p e t) = ids t := by
  simp [ids, updNext, Function.comp_def]

/-! ### basic consequences of `R` -/

theorem eq_of_id_eq {t : Table α} (hn : (ids t).Nodup) {r r' : Row α} (hr : r ∈ t) (hr' : r' ∈ t)
    (h : r.id = r'.id) : r = r' := by
  induction t with
  | nil => simp at hr
  | cons a t ih =>
    simp only [ids, List.map_cons, List.nodup_cons, List.mem_map, not_exists, not_and] at hn
    rcases List.mem_cons.mp hr with h1 | h1 <;> rcases List.mem_cons.mp hr' with h2 | h2
    · rw [h1, h2]
    · subst h1; exact absurd h.symm (hn.1 r' h2)
    · subst h2; exact absurd h (hn.1 r h1)
    · exact ih hn.2 h1 h2

theorem get_some {t : Table α} {i : Int} {r : Row α} (h : get t i = some r) : r ∈ t ∧ r.id = i := by
  unfold get at h
  have h1 := List.mem_of_find?_eq_some h
  have h2 := List.find?_some h
  exact ⟨h1, by simpa using h2⟩

theorem get_of_mem {t : Table α} (hn : (ids t).Nodup) {r : Row α} (hr : r ∈ t) : get t r.id = some r := by
  unfold get
  induction t with
  | nil => simp at hr
  | cons a t ih =>
    simp only [ids, List.map_cons, List.nodup_cons, List.mem_map, not_exists, not_and] at hn
    rcases List.mem_cons.mp hr with h1 | h1
    · subst h1; simp
    · have : a.id ≠ r.id := fun e => hn.1 r h1 e.symm
      rw [List.find?_cons_of_neg (by simpa using this)]
      exact ih hn.2 h1

theorem get_none {t : Table α} {i : Int} (h : get t i = none) : i ∉ ids t := by
  unfold get at h
  simp only [List.find?_eq_none, beq_iff_eq] at h
  simp only [ids, List.mem_map, not_exists, not_and]
  exact fun r hr => h r hr

namespace R

variable {A : Int → List Int} {t : Table α}

theorem pos (h : R A t) {k x : Int} (hx : x ∈ A k) : 0 < x := by
  obtain ⟨r, hr, rfl, _⟩ := h.cover k x hx
  exact h.id_pos r hr

theorem ne0 (h : R A t) (k : Int) : ∀ y ∈ A k, y ≠ 0 := fun _ hy => Int.ne_of_gt (h.pos hy)

theorem key_unique (h : R A t) {k k' x : Int} (hx : x ∈ A k) (hx' : x ∈ A k') : k = k' := by
  obtain ⟨r, hr, rfl, rfl⟩ := h.cover k _ hx
  obtain ⟨r', hr', e, rfl⟩ := h.cover k' _ hx'
  rw [eq_of_id_eq h.ids_nodup hr' hr e]

theorem next_nonneg (h : R A t) {r : Row α} (hr : r ∈ t) : 0 ≤ r.next := by
  rw [h.next r hr]
  rcases succ_mem_or_zero (A r.key) r.id with h0 | hm
  · rw [h0]; exact Int.le_refl 0
  · exact Int.le_of_lt (h.pos hm)

theorem not_mem_of_fresh (h : R A t) {n : Int} (hn : n ∉ ids t) (k : Int) : n ∉ A k := by
  intro hx
  obtain ⟨r, hr, e, _⟩ := h.cover k n hx
  exact hn (by simp only [ids, List.mem_map]; exact ⟨r, hr, e⟩)

/-- Keys without rows have the empty list. -/
theorem nil_of_no_rows (h : R A t) {k : Int} (hk : ∀ r ∈ t, r.key ≠ k) : A k = [] := by
  cases hl : A k with
  | nil => rfl
  | cons x l =>
    obtain ⟨r, hr, _, e⟩ := h.cover k x (by rw [hl]; simp)
    exact absurd e (hk r hr)

end R

/-! ### INSERT under the before/after triggers -/

theorem insertBefore_eq {t : Table α} (hnn : ∀ r ∈ t, 0 ≤ r.next) {b : Int} (hb : 0 ≤ b) (n k : Int) (v : α) :
    insertBefore t n k b v =
      updNext (fun r => r.next == b && r.key == k) (fun _ => n) t ++ [⟨n, k, b, v⟩] := by
  unfold insertBefore updNext
  simp only [List.map_append, List.map_map, List.map_cons, List.map_nil]
  congr 1
  · apply List.map_congr_left
    intro r hr
    have := hnn r hr
    simp only [Function.comp, updRow]
    by_cases h1 : r.next = b <;> by_cases h2 : r.key = k
    · simp [h1, h2]
    · simp [h1, h2]
    · have : r.next ≠ -(1 + b) := by omega
      simp [h1, h2, this]
    · simp [h1, h2]
  · have : b ≠ -(1 + b) := by omega
    simp [updRow, this]

theorem R_insertBefore {A : Int → List Int} {t : Table α} (h : R A t) {n k b : Int} (v : α)
    (hpos : 0 < n) (hfresh : n ∉ ids t) (hb : b = 0 ∨ b ∈ A k) :
    R (setKey A k (Ordered.insertBefore b n (A k))) (insertBefore t n k b v) := by
  have hb0 : 0 ≤ b := by
    rcases hb with hb | hb
    · omega
    · exact Int.le_of_lt (h.pos hb)
  rw [insertBefore_eq (fun r hr => h.next_nonneg hr) hb0]
  have hnA : ∀ k', n ∉ A k' := h.not_mem_of_fresh hfresh
  constructor
  · -- ids
    have : ids (updNext (fun r => r.next == b && r.key == k) (fun _ => n) t ++ [⟨n, k, b, v⟩]) = ids t ++ [n] := by
      rw [ids, List.map_append]; exact congrArg (· ++ [n]) (ids_updNext _ _ t)
    rw [this]
    refine List.nodup_append.mpr ⟨h.ids_nodup, by simp, ?_⟩
    intro a ha c hc
    simp only [List.mem_singleton] at hc
    subst hc
    intro e; subst e; exact hfresh ha
  · intro r hr
    simp only [List.mem_append, mem_updNext, List.mem_singleton] at hr
    rcases hr with ⟨r0, hr0, rfl⟩ | rfl
    · simpa using h.id_pos r0 hr0
    · exact hpos
  · intro k'
    by_cases hk : k' = k
    · subst hk; rw [setKey_same]; exact nodup_insertBefore (h.nodup _) (hnA _)
    · rw [setKey_other _ _ hk]; exact h.nodup _
  · intro r hr
    simp only [List.mem_append, mem_updNext, List.mem_singleton] at hr
    rcases hr with ⟨r0, hr0, rfl⟩ | rfl
    · have hm := h.mem r0 hr0
      rw [updRow_key, updRow_id]
      by_cases hk : r0.key = k
      · rw [hk, setKey_same, mem_insertBefore]; right; rw [← hk]; exact hm
      · rw [setKey_other _ _ hk]; exact hm
    · simp only [setKey_same, mem_insertBefore]; left; trivial
  · intro r hr
    simp only [List.mem_append, mem_updNext, List.mem_singleton] at hr
    rcases hr with ⟨r0, hr0, rfl⟩ | rfl
    · have hm := h.mem r0 hr0
      have hnx := h.next r0 hr0
      rw [updRow_key, updRow_id, updRow_next]
      by_cases hk : r0.key = k
      · have hs := succ_insertBefore (h.nodup k) (h.ne0 k) (hnA k) hb (hk ▸ hm)
        rw [hk, setKey_same, hs, ← hk, ← hnx]
        by_cases hnb : r0.next = b
        · simp [hnb, hk]
        · simp [hnb]
      · have : (r0.next == b && r0.key == k) = false := by simp [hk]
        simp only [this, Bool.false_eq_true, if_false]
        rw [setKey_other _ _ hk]; exact hnx
    · simp only [setKey_same]
      exact (succ_insertBefore_new (hnA k) hb).symm
  · intro k' x hx
    by_cases hk : k' = k
    · subst hk
      rw [setKey_same, mem_insertBefore] at hx
      rcases hx with rfl | hx
      · exact ⟨⟨x, k', b, v⟩, by simp, rfl, rfl⟩
      · obtain ⟨r, hr, e1, e2⟩ := h.cover k' x hx
        exact ⟨_, List.mem_append_left _ (mem_updNext.mpr ⟨r, hr, rfl⟩), by simpa using e1, by simpa using e2⟩
    · rw [setKey_other _ _ hk] at hx
      obtain ⟨r, hr, e1, e2⟩ := h.cover k' x hx
      exact ⟨_, List.mem_append_left _ (mem_updNext.mpr ⟨r, hr, rfl⟩), by simpa using e1, by simpa using e2⟩

/-! ### the backwards walk (`sort_ids`, `get_for_list`) -/

theorem length_le_of_nodup_subset {l m : List Int} (hn : l.Nodup) (hs : ∀ x ∈ l, x ∈ m) :
    l.length ≤ m.length := by
  induction l generalizing m with
  | nil => simp
  | cons a l ih =>
    have hn' := List.nodup_cons.mp hn
    have ha : a ∈ m := hs a (by simp)
    have hsub : ∀ x ∈ l, x ∈ m.erase a := by
      intro x hx
      have hne : x ≠ a := fun e => hn'.1 (e ▸ hx)
      exact (List.mem_erase_of_ne hne).mpr (hs x (List.mem_cons_of_mem _ hx))
    have := ih hn'.2 hsub
    rw [List.length_erase_of_mem ha] at this
    have hpos : 0 < m.length := List.length_pos_of_mem ha
    simp only [List.length_cons]; omega

theorem find?_unique {β : Type} {p : β → Bool} {l : List β} {r : β} (hr : r ∈ l) (hp : p r = true)
    (hu : ∀ r' ∈ l, p r' = true → r' = r) : l.find? p = some r := by
  induction l with
  | nil => simp at hr
  | cons a l ih =>
    by_cases ha : p a = true
    · rw [List.find?_cons_of_pos ha, hu a (by simp) ha]
    · rw [List.find?_cons_of_neg ha]
      rcases List.mem_cons.mp hr with h | h
      · subst h; exact absurd hp ha
      · exact ih h (fun r' hr' => hu r' (List.mem_cons_of_mem _ hr'))

theorem lookupNext_unique {rows : Table α} {c : Int} {r : Row α} (hr : r ∈ rows) (hc : r.next = c)
    (hu : ∀ r' ∈ rows, r'.next = c → r' = r) : lookupNext rows c = some r := by
  unfold lookupNext
  apply find?_unique (List.mem_reverse.mpr hr) (by simpa using hc)
  intro r' hr' hp
  exact hu r' (List.mem_reverse.mp hr') (by simpa using hp)

theorem lookupNext_none {rows : Table α} {c : Int} (h : ∀ r ∈ rows, r.next ≠ c) : lookupNext rows c = none := by
  unfold lookupNext
  rw [List.find?_eq_none]
  intro r hr
  simpa using h r (List.mem_reverse.mp hr)

theorem mem_rowsOf {t : Table α} {k : Int} {r : Row α} : r ∈ rowsOf t k ↔ r ∈ t ∧ r.key = k := by
  simp [rowsOf]

theorem succ_mid {l1 suf : List Int} {p : Int} (hn : (l1 ++ p :: suf).Nodup) :
    succ (l1 ++ p :: suf) p = suf.headD 0 := by
  induction l1 with
  | nil => simp [succ]
  | cons a l ih =>
    have hn' : a ∉ l ++ p :: suf ∧ (l ++ p :: suf).Nodup := List.nodup_cons.mp hn
    have : a ≠ p := by
      intro e; subst e; exact hn'.1 (by simp)
    simp only [List.cons_append, succ, if_neg this]
    exact ih hn'.2

theorem walkFuel_spec {A : Int → List Int} {t : Table α} (h : R A t) (k : Int) :
    ∀ (n : Nat) (pre suf : List Int) (acc : List (Row α)) (fuel : Nat),
      pre.length = n → A k = pre ++ suf → acc.map (·.id) = suf → (∀ r ∈ acc, r ∈ rowsOf t k) →
      pre.length ≤ fuel →
      (walkFuel (rowsOf t k) fuel (suf.headD 0) acc).map (·.id) = A k ∧
      ∀ r ∈ walkFuel (rowsOf t k) fuel (suf.headD 0) acc, r ∈ rowsOf t k := by
  intro n
  induction n with
  | zero =>
    intro pre suf acc fuel hlen hA hacc haccm _
    have hpre : pre = [] := List.length_eq_zero_iff.mp hlen
    subst hpre
    simp only [List.nil_append] at hA
    cases fuel with
    | zero => simp only [walkFuel]; exact ⟨by rw [hacc, hA], haccm⟩
    | succ f =>
      have hnone : lookupNext (rowsOf t k) (suf.headD 0) = none := by
        apply lookupNext_none
        intro r hr
        obtain ⟨hrt, hrk⟩ := mem_rowsOf.mp hr
        rw [h.next r hrt, hrk, hA]
        have hm : r.id ∈ suf := by have := h.mem r hrt; rwa [hrk, hA] at this
        cases suf with
        | nil => simp at hm
        | cons a l =>
          simp only [List.headD_cons]
          exact succ_ne_head (hA ▸ h.nodup k) (h.ne0 k a (by rw [hA]; simp)) r.id
      simp only [walkFuel, hnone]
      exact ⟨by rw [hacc, hA], haccm⟩
  | succ n ih =>
    intro pre suf acc fuel hlen hA hacc haccm hfuel
    rcases List.eq_nil_or_concat pre with hp | ⟨pre', p, hp⟩
    · subst hp; simp at hlen
    · subst hp
      simp only [List.concat_eq_append, List.length_append, List.length_cons, List.length_nil] at hlen hfuel
      have hA' : A k = pre' ++ p :: suf := by rw [hA]; simp
      obtain ⟨rp, hrpt, hrpid, hrpk⟩ := h.cover k p (by rw [hA']; simp)
      have hrp : rp ∈ rowsOf t k := mem_rowsOf.mpr ⟨hrpt, hrpk⟩
      have hnext : rp.next = suf.headD 0 := by
        rw [h.next rp hrpt, hrpk, hrpid, hA']
        exact succ_mid (hA' ▸ h.nodup k)
      have hlook : lookupNext (rowsOf t k) (suf.headD 0) = some rp := by
        apply lookupNext_unique hrp hnext
        intro r' hr' hn'
        obtain ⟨hrt', hrk'⟩ := mem_rowsOf.mp hr'
        apply eq_of_id_eq h.ids_nodup hrt' hrpt
        have e1 : succ (A k) r'.id = succ (A k) rp.id := by
          have := h.next r' hrt'; rw [hrk'] at this
          have h2 := h.next rp hrpt; rw [hrpk] at h2
          rw [← this, ← h2, hn', hnext]
        exact succ_inj (h.nodup k) (h.ne0 k) (hrk' ▸ h.mem r' hrt') (hrpk ▸ h.mem rp hrpt) e1
      cases fuel with
      | zero => omega
      | succ f =>
        simp only [walkFuel, hlook]
        have := ih pre' (p :: suf) (rp :: acc) f (by omega) hA' (by simp [hrpid, hacc])
          (by intro r hr; rcases List.mem_cons.mp hr with e | e; exact e ▸ hrp; exact haccm r e) (by omega)
        simpa [hrpid] using this

/-- C09 core: on a table that represents `A`, the backwards walk returns exactly
the rows of `A k`, each once, in order (and does not hit the missing-tail UB). -/
theorem walkBack_spec {A : Int → List Int} {t : Table α} (h : R A t) (k : Int) :
    ∃ l, walkBack t k = .ok l ∧ l.map (·.id) = A k ∧ ∀ r ∈ l, r ∈ t ∧ r.key = k := by
  unfold walkBack
  by_cases hemp : (rowsOf t k).isEmpty = true
  · simp only [hemp, if_true]
    have hnil : rowsOf t k = [] := List.isEmpty_iff.mp hemp
    have : A k = [] := by
      apply h.nil_of_no_rows
      intro r hr hk
      have : r ∈ rowsOf t k := mem_rowsOf.mpr ⟨hr, hk⟩
      rw [hnil] at this; simp at this
    exact ⟨[], rfl, by simp [this], by simp⟩
  · simp only [hemp, Bool.false_eq_true, if_false]
    have hlen : (A k).length ≤ (rowsOf t k).length := by
      have h1 : (A k).length ≤ ((rowsOf t k).map (·.id)).length := by
        apply length_le_of_nodup_subset (h.nodup k)
        intro x hx
        obtain ⟨r, hr, e1, e2⟩ := h.cover k x hx
        exact List.mem_map.mpr ⟨r, mem_rowsOf.mpr ⟨hr, e2⟩, e1⟩
      simpa using h1
    have hw := walkFuel_spec h k (A k).length (A k) [] [] (rowsOf t k).length rfl (by simp) rfl (by simp) hlen
    simp only [List.headD_nil] at hw
    -- the tail exists
    obtain ⟨r0, hr0⟩ : ∃ r0, r0 ∈ rowsOf t k := by
      cases hrows : rowsOf t k with
      | nil => simp [hrows] at hemp
      | cons a l => exact ⟨a, by simp⟩
    obtain ⟨hr0t, hr0k⟩ := mem_rowsOf.mp hr0
    have hne : A k ≠ [] := by
      intro e; have := h.mem r0 hr0t; rw [hr0k, e] at this; simp at this
    rcases List.eq_nil_or_concat (A k) with e | ⟨pre, p, e⟩
    · exact absurd e hne
    · simp only [List.concat_eq_append] at e
      obtain ⟨rp, hrpt, hrpid, hrpk⟩ := h.cover k p (by rw [e]; simp)
      have hnext : rp.next = 0 := by
        rw [h.next rp hrpt, hrpk, hrpid, e]
        have := succ_mid (l1 := pre) (p := p) (suf := []) (by simpa using (e ▸ h.nodup k))
        simpa using this
      have hlook : lookupNext (rowsOf t k) 0 = some rp := by
        apply lookupNext_unique (mem_rowsOf.mpr ⟨hrpt, hrpk⟩) hnext
        intro r' hr' hn'
        obtain ⟨hrt', hrk'⟩ := mem_rowsOf.mp hr'
        apply eq_of_id_eq h.ids_nodup hrt' hrpt
        have e1 : succ (A k) r'.id = succ (A k) rp.id := by
          have := h.next r' hrt'; rw [hrk'] at this
          have h2 := h.next rp hrpt; rw [hrpk] at h2
          rw [← this, ← h2, hn', hnext]
        exact succ_inj (h.nodup k) (h.ne0 k) (hrk' ▸ h.mem r' hrt') (hrpk ▸ h.mem rp hrpt) e1
      simp only [hlook]
      exact ⟨_, rfl, hw.1, fun r hr => mem_rowsOf.mp (hw.2 r hr)⟩

theorem walkIds_eq {A : Int → List Int} {t : Table α} (h : R A t) (k : Int) : walkIds t k = .ok (A k) := by
  obtain ⟨l, hl, hm, _⟩ := walkBack_spec h k
  simp [walkIds, hl, Res.bind, hm]

end EngineModel.Db.Chain
