/-
Schema 2.x crates: every structural query of the Model (Db/V2Crates.lean, `q…`) is the corresponding
Spec.Forest query on `absF d`; rejections the property demands; ids are never handed out twice.
-/
import Proofs.V2Members
import Mathlib.Logic.Relation

set_option linter.dupNamespace false
set_option linter.unusedSimpArgs false

namespace EngineModel.Db.V2

open EngineModel.Db.Chain EngineModel.Spec EngineModel.Spec.Forest EngineModel.ListAux

theorem qCrates_eq (d : Db) : qCrates d = (absF d).ids := (absF_ids d).symm

theorem qValid_eq (d : Db) (c : Int) : qValid d c = (absF d).live c := plExists_eq_live d c

theorem qParent_eq (d : Db) (c : Int) :
    qParent d c = if (absF d).live c then .ok ((absF d).parentOf c) else .throw (exn "crate_deleted") := by
  unfold qParent
  cases hg : get d.pl c with
  | none => simp [live_false_of_get hg]
  | some r =>
    simp only [live_of_get hg, if_true, absF_parentOf_get hg]
    by_cases h0 : r.key = 0
    · simp [h0, parentOpt]
    · simp [h0, parentOpt]

theorem qName_eq (d : Db) (c : Int) :
    qName d c = (match (absF d).nameOf c with
      | some n => .ok n
      | none => .throw (exn "crate_deleted")) := by
  unfold qName
  rw [absF_nameOf]
  cases get d.pl c <;> rfl

/-- crate::descendants (the recursive view) terminates on a well-formed table and returns exactly the Spec's
descendants — as a set: the order within a level is SQLite's scan order. -/
theorem qDescendants_eq {d : Db} (hW : Forest.Wf (absF d)) (c : Int) :
    ∃ l, qDescendants d c = .ok l ∧ ∀ x, x ∈ l ↔ x ∈ (absF d).descendants c :=
  descendantIds_ok hW c

theorem qByName_eq (d : Db) (n : Bytes) : qByName d n = (absF d).byName n := by
  unfold qByName Forest.byName
  rw [absF_crates, List.filter_map, List.map_map]
  rfl

theorem qByParentName_eq (d : Db) (k : Int) (n : Bytes) :
    qByParentName d k n = ((absF d).byParentName (parentOpt k) n).getLast? := by
  unfold qByParentName findId Forest.byParentName
  rw [absF_crates, List.filter_map, List.map_map, List.getLast?_map]
  congr 2
  apply List.filter_congr
  intro r _
  simp only [Function.comp, rowCrate]
  by_cases hk : r.key = k
  · simp [hk, Bool.and_comm]
  · have : ¬ parentOpt r.key = parentOpt k := fun e => hk (parentOpt_inj.mp e)
    have e1 : (r.key == k) = false := beq_false_of_ne hk
    have e2 : (parentOpt r.key == parentOpt k) = false := beq_false_of_ne this
    rw [e1, e2]; simp

/-- With unique sibling names a lookup by (parent, name) has at most one answer. -/
theorem byParentName_unique {f : Forest.Forest} (h : Forest.Wf f) (p : Option Int) (n : Bytes) :
    ∀ x ∈ f.byParentName p n, ∀ y ∈ f.byParentName p n, x = y := by
  intro x hx y hy
  simp only [Forest.byParentName, List.mem_map, List.mem_filter, Bool.and_eq_true, beq_iff_eq] at hx hy
  obtain ⟨a, ⟨ha, ha1, ha2⟩, rfl⟩ := hx
  obtain ⟨b, ⟨hb, hb1, hb2⟩, rfl⟩ := hy
  rw [h.names_unique a ha b hb (ha1.trans hb1.symm) (ha2.trans hb2.symm)]

/-- The parent relation as the API shows it. -/
def ParentQ (d : Db) (a b : Int) : Prop := qParent d a = .ok (some b)

theorem parentQ_iff (d : Db) (a b : Int) : ParentQ d a b ↔ Forest.parentRel (absF d) a b := by
  unfold ParentQ Forest.parentRel
  rw [qParent_eq]
  constructor
  · intro h
    split at h
    · simpa using h
    · simp at h
  · intro h
    have hl : (absF d).live a = true := Forest.live_iff.mpr (Forest.live_of_parentOf h)
    simp [hl, h]

theorem mem_descSet_iff (d : Db) (c x : Int) :
    x ∈ descSet d c ↔ Relation.TransGen (ParentQ d) x c := by
  have hrel : ParentQ d = Forest.parentRel (absF d) := by
    funext a b; exact propext (parentQ_iff d a b)
  rw [hrel, ← Forest.isAncestor_iff_transGen]
  rw [mem_descSet]
  constructor
  · exact fun h => h.2
  · intro h
    refine ⟨?_, h⟩
    rw [← absF_ids]; exact Forest.descendant_live h

/-- children(c) and root_crates(): membership in the ordered listing is "parent() is c" / "parent() is absent". -/
theorem mem_kids_iff {S : Ord} {d : Db} (hC : ChInv S d) (k x : Int) :
    x ∈ S.kids k ↔ qParent d x = .ok (parentOpt k) := by
  constructor
  · intro hx
    obtain ⟨r, hr, e1, e2⟩ := hC.rk.cover k x hx
    have hg : get d.pl x = some r := e1 ▸ get_of_mem hC.rk.ids_nodup hr
    rw [qParent_eq, live_of_get hg, if_pos rfl, absF_parentOf_get hg, e2]
  · intro h
    rw [qParent_eq] at h
    split at h
    · rename_i hl
      simp only [Res.ok.injEq] at h
      rw [absF_parentOf] at h
      cases hg : get d.pl x with
      | none => rw [live_false_of_get hg] at hl; simp at hl
      | some r =>
        rw [hg] at h
        simp only [Option.bind_some] at h
        have hk := parentOpt_inj.mp h
        obtain ⟨hr, hid⟩ := get_some hg
        rw [← hid, ← hk]
        exact hC.rk.mem r hr
    · simp at h

theorem kids_perm_roots {S : Ord} {d : Db} (hC : ChInv S d) : (S.kids 0).Perm (absF d).roots := by
  rw [absF_roots]
  apply (List.perm_ext_iff_of_nodup (hC.rk.nodup 0) (nodup_ids_filter _ hC.rk.ids_nodup)).mpr
  intro x
  refine Iff.trans ?_ (mem_rowsOf_ids (t := d.pl) (k := 0) (x := x))
  exact ⟨hC.rk.cover 0 x, fun ⟨r, hr, e1, e2⟩ => e1 ▸ e2 ▸ hC.rk.mem r hr⟩
where
  mem_rowsOf_ids {t : Table Bytes} {k x : Int} : (∃ r ∈ t, r.id = x ∧ r.key = k) ↔ x ∈ ids (rowsOf t k) := by
    simp only [ids, List.mem_map, mem_rowsOf]
    constructor
    · rintro ⟨r, hr, e1, e2⟩; exact ⟨r, ⟨hr, e2⟩, e1⟩
    · rintro ⟨r, ⟨hr, e2⟩, e1⟩; exact ⟨r, hr, e1, e2⟩

theorem kids_perm_children {S : Ord} {d : Db} (hC : ChInv S d) {c : Int} (hc : c ≠ 0) :
    (S.kids c).Perm ((absF d).children c) := by
  rw [absF_children d hc]
  apply (List.perm_ext_iff_of_nodup (hC.rk.nodup c) (nodup_ids_filter _ hC.rk.ids_nodup)).mpr
  intro x
  refine Iff.trans ?_ (kids_perm_roots.mem_rowsOf_ids (t := d.pl) (k := c) (x := x))
  exact ⟨hC.rk.cover c x, fun ⟨r, hr, e1, e2⟩ => e1 ▸ e2 ▸ hC.rk.mem r hr⟩

/-! ### rejections -/

/-- Re-parenting under itself or under one of its own descendants is rejected, leaving everything unchanged. -/
theorem setParent_cycle_rejected {d : Db} (hP : PlInv d) (c q : Int) (h : q = c ∨ q ∈ descSet d c) :
    step d (.setParent c (some q)) = (d, .throw (exn "crate_invalid_parent")) := by
  rcases h with rfl | h
  · simp [step]
  · obtain ⟨hq, hanc⟩ := mem_descSet.mp h
    obtain ⟨ds, hds, hmem⟩ := descendantIds_ok hP.wf c
    have hqc : q ≠ c := by
      rintro rfl; rw [hP.wf.acyclic] at hanc; exact absurd hanc (by simp)
    have hcl : c ∈ ids d.pl := by rw [← absF_ids]; exact hP.wf.ancestor_live hanc
    obtain ⟨row, hg⟩ : ∃ row, get d.pl c = some row := by
      cases hg : get d.pl c with
      | none => exact absurd hcl (get_none hg)
      | some row => exact ⟨row, rfl⟩
    have h1 : (some q == some c) = false := by simpa using hqc
    have h2 : plExists d q = true := plExists_iff.mpr hq
    have h3 : q ∈ ds := (hmem q).mpr h
    simp [step, h1, hg, h2, hds, h3]

/-- remove_crate of a live crate: the forest loses exactly the subtree. -/
theorem absF_removeCrate {d : Db} (hI : PlInv d) {c : Int} (hl : (absF d).live c = true) :
    absF (step d (.removeCrate c)).1 = Forest.removeSubtree (absF d) c := by
  cases fstep hI.wf (.removeCrate c) with
  | throws e hs hv =>
    exfalso
    rcases hv (.remove c) rfl with h | h
    · exact h 0 _ (spec_remove_acc 0 hl)
    · simp [afterOk] at h
  | okF out fop h2 hf hacc _ _ =>
    simp only [forestOp, Option.some.injEq] at hf
    subst hf
    rw [spec_remove_acc _ hl] at hacc
    injection hacc with e
    exact e.symm
  | okN _ _ hf _ _ => simp [forestOp] at hf

theorem plSeq_mono_run {d : Db} (hI : PlInv d) (ops : List Op) : d.plSeq ≤ (run d ops).plSeq := by
  induction ops generalizing d with
  | nil => exact Int.le_refl _
  | cons op ops ih =>
    have := (ids_step hI op).1
    have := ih (plInv_step hI op)
    simp only [run]
    omega

/-- A creation hands out the next AUTOINCREMENT id. -/
theorem create_id {d : Db} (hP : PlInv d) {op : Op} (hc : isCreate op = true) {i : Int}
    (h : (step d op).2 = .ok (some i)) : i = d.plSeq + 1 := by
  cases fstep hP.wf op with
  | throws e hs _ => rw [hs] at h; simp at h
  | okF out fop h2 hf hacc hnew hseq =>
    rw [h2] at h
    simp only [Res.ok.injEq] at h
    rw [hnew hc] at h
    simpa using h.symm
  | okN out h2 hf _ _ => cases op <;> simp [isCreate] at hc <;> simp [forestOp] at hf

end EngineModel.Db.V2
