/-
`readSnap ∘ writeSnap = normalize` for the schema-1.x Model: evaluation of the
write on accepted snapshots, then of `snapshot()` on the rows it leaves.
-/
import Proofs.TracksV1Codec

namespace EngineModel.TracksV1

open Impl.V1 (GMarker HotCue LoopV Entry Wave Beat Cues Loops)
open Fl (FOps)

set_option linter.unusedSimpArgs false

/-! ### arithmetic of whole seconds -/

theorem mulI64_ok (a b : Int) (h : -9223372036854775808 ≤ a * b ∧ a * b ≤ 9223372036854775807) :
    mulI64 a b = .ok (a * b) := by
  unfold mulI64 Cxx.I64.mul Cxx.chk64 Cxx.inI64 Cxx.i64Min Cxx.i64Max
  have : decide (-9223372036854775808 ≤ a * b ∧ a * b ≤ 9223372036854775807) = true := by
    simp only [decide_eq_true_eq]; exact h
  rw [if_pos this]
  rfl

theorem mul1000_ok (d : UInt64) :
    mulI64 1000 (tdivPos (Prim.s64 d) 1000) = .ok (1000 * tdivPos (Prim.s64 d) 1000) := by
  have hr := Prim.s64_range d
  apply mulI64_ok
  unfold tdivPos
  split <;> omega

theorem mulBillion_ok (d : UInt64) :
    mulI64 1000000000 (toTimestamp d) = .ok (1000000000 * toTimestamp d) := by
  have hr := Prim.s64_range d
  apply mulI64_ok
  unfold toTimestamp tdivPos
  split <;> omega

theorem whole1000 (d : UInt64) : Prim.u64OfInt (1000 * tdivPos (Prim.s64 d) 1000) = Spec.wholeUnits 1000 d := by
  unfold Spec.wholeUnits tdivPos
  simp only
  congr 1
  split <;> split <;> omega

theorem wholeBillion (d : UInt64) :
    Prim.u64OfInt (1000000000 * toTimestamp d) = Spec.wholeUnits 1000000000 d := by
  unfold Spec.wholeUnits toTimestamp tdivPos
  simp only
  congr 1
  split <;> split <;> omega

theorem clamp_eq (r : UInt32) : Prim.u32OfInt (clampRating r) = Spec.clamp100 r := by
  unfold clampRating Spec.clamp100
  simp only
  by_cases h0 : Prim.s32 r < 0
  · simp [h0]; decide
  · by_cases h1 : 100 < Prim.s32 r
    · have : Prim.s32 r > 100 := h1
      simp [h0, h1]; decide
    · have : ¬ Prim.s32 r > 100 := h1
      simp [h0, h1, this, Prim.u32OfInt_s32]

/-! ### sentinels -/

theorem isZero_iff (v : Bits) : F64.isZero v = true ↔ (v = F64.zero ∨ v = F64.negZero) := by
  unfold F64.isZero
  simp [Bool.or_eq_true, beq_iff_eq]

theorem zeroNoneF_eq_dropZero (x : Option Bits) : zeroNoneF x = Spec.dropZero x := by
  cases x with
  | none => rfl
  | some v =>
    unfold zeroNoneF Spec.dropZero
    simp only [Option.bind_some]
    by_cases h : F64.isZero v = true
    · have := (isZero_iff v).mp h
      simp [h, this]
    · have : ¬ (v = F64.zero ∨ v = F64.negZero) := fun hh => h ((isZero_iff v).mpr hh)
      simp [h, this]

theorem mainCue_read (m : Option Bits) :
    (if F64.isZero (m.getD F64.zero) then none else some (m.getD F64.zero)) = Spec.dropZero m := by
  cases m with
  | none => simp [Spec.dropZero]; decide
  | some v =>
    simp only [Option.getD_some, Spec.dropZero]
    by_cases h : F64.isZero v = true
    · have := (isZero_iff v).mp h
      simp [h, this]
    · have : ¬ (v = F64.zero ∨ v = F64.negZero) := fun hh => h ((isZero_iff v).mpr hh)
      simp [h, this]

theorem key_read (k : Option UInt32) :
    (match (k.bind fun k => if k = 0 then none else some k) with
      | some k => some k
      | none => (k.map Prim.s32).map Prim.u32OfInt) = k := by
  cases k with
  | none => rfl
  | some v =>
    by_cases h : v = 0
    · subst h; simp; decide
    · simp [h]

theorem bpm_read (o : FOps) (b : Option Bits) (bi : Option Int) (hb : b = none → bi = none)
    (hn : Spec.optFinite b = true) :
    (match b.bind Fl.realCell with
      | some v => some v
      | none => bi.map o.ofI64) = b.map (fun v => if v = F64.negZero then F64.zero else v) := by
  cases b with
  | none => simp [hb rfl]
  | some v =>
    unfold Spec.optFinite at hn
    simp only [Option.all_some, Bool.not_eq_true'] at hn
    simp only [Option.bind_some, Fl.realCell, hn, Bool.false_eq_true, if_false, Option.map_some]
    by_cases h : v = F64.negZero <;> simp [h]

/-! ### the bulk meta-data statements read back -/

theorem cell_metaBulk (s : Schema) (x : Snap) (a b c : Option Bytes) (l : List (Int × Option Bytes)) :
    cell 1 (asetMany (metaBulk s x a b c) l) = x.title ∧
    cell 2 (asetMany (metaBulk s x a b c) l) = x.artist ∧
    cell 3 (asetMany (metaBulk s x a b c) l) = x.album ∧
    cell 4 (asetMany (metaBulk s x a b c) l) = x.genre ∧
    cell 5 (asetMany (metaBulk s x a b c) l) = x.comment ∧
    cell 6 (asetMany (metaBulk s x a b c) l) = x.publisher ∧
    cell 7 (asetMany (metaBulk s x a b c) l) = x.composer := by
  cases hs : s.ge .s1_15_0 <;>
    simp [metaBulk, hs, asetMany, List.foldl, cell, aget_aset_same, aget_aset_other]

theorem cell_metaIntBulk (s : Schema) (k r t : Option Int) (l : List (Int × Option Int)) :
    cell 4 (asetMany (metaIntBulk s k r t) l) = k ∧
    cell 5 (asetMany (metaIntBulk s k r t) l) = r ∧
    cell 1 (asetMany (metaIntBulk s k r t) l) = t := by
  cases hs : s.ge .s1_11_1 <;>
    simp [metaIntBulk, hs, asetMany, List.foldl, cell, aget_aset_same, aget_aset_other]


section
variable (s : Schema) (x : Snap) (a b c : Option Bytes) (l : List (Int × Option Bytes))
theorem cell_mb1 : cell 1 (asetMany (metaBulk s x a b c) l) = x.title := (cell_metaBulk s x a b c l).1
theorem cell_mb2 : cell 2 (asetMany (metaBulk s x a b c) l) = x.artist := (cell_metaBulk s x a b c l).2.1
theorem cell_mb3 : cell 3 (asetMany (metaBulk s x a b c) l) = x.album := (cell_metaBulk s x a b c l).2.2.1
theorem cell_mb4 : cell 4 (asetMany (metaBulk s x a b c) l) = x.genre := (cell_metaBulk s x a b c l).2.2.2.1
theorem cell_mb5 : cell 5 (asetMany (metaBulk s x a b c) l) = x.comment := (cell_metaBulk s x a b c l).2.2.2.2.1
theorem cell_mb6 : cell 6 (asetMany (metaBulk s x a b c) l) = x.publisher := (cell_metaBulk s x a b c l).2.2.2.2.2.1
theorem cell_mb7 : cell 7 (asetMany (metaBulk s x a b c) l) = x.composer := (cell_metaBulk s x a b c l).2.2.2.2.2.2
end
section
variable (s : Schema) (k r t : Option Int) (l : List (Int × Option Int))
theorem cell_mi4 : cell 4 (asetMany (metaIntBulk s k r t) l) = k := (cell_metaIntBulk s k r t l).1
theorem cell_mi5 : cell 5 (asetMany (metaIntBulk s k r t) l) = r := (cell_metaIntBulk s k r t l).2.1
theorem cell_mi1 : cell 1 (asetMany (metaIntBulk s k r t) l) = t := (cell_metaIntBulk s k r t l).2.2
end

theorem map_u32_s32 (v : Option UInt32) : Option.map (Prim.u32OfInt ∘ Prim.s32) v = v := by
  cases v <;> simp [Prim.u32OfInt_s32]

theorem key_read' (k : Option UInt32) :
    (match (k.bind fun k => if k = 0 then none else some k) with
      | some k => some k
      | none => Option.map (Prim.u32OfInt ∘ Prim.s32) k) = k := by
  rw [map_u32_s32]
  cases k with
  | none => rfl
  | some v => by_cases h : v = 0 <;> simp [h]

/-! ### `snapshot()` of the rows left by a write -/

theorem optMul_len (d : Option UInt64) :
    optMul 1000 (d.map fun d => tdivPos (Prim.s64 d) 1000) = .ok (d.map fun d => 1000 * tdivPos (Prim.s64 d) 1000) := by
  cases d with
  | none => rfl
  | some d => simp [optMul, mul1000_ok]

theorem optMul_ts (d : Option UInt64) :
    optMul 1000000000 (d.map toTimestamp) = .ok (d.map fun d => 1000000000 * toTimestamp d) := by
  cases d with
  | none => rfl
  | some d => simp [optMul, mulBillion_ok]

theorem readSnap_assemble (o : FOps) (s : Schema) (x : Snap) (prior : Option TrackRows) (path : Bytes)
    (lc bi : Option Int) (ov : Wave) (spe : Bits) (sr' sc' : Option Bits)
    (hpath : x.relativePath = some path) (hb : x.bpm = none → bi = none)
    (hn : Spec.optFinite x.bpm = true) :
    readSnap o s (assemble s x prior path lc bi ov ⟨spe, x.waveform⟩ ⟨sr', sc', x.beatgrid, x.beatgrid⟩
      ⟨Spec.pad8 (x.hotCues.map Spec.normCue), x.mainCue.getD F64.zero, x.mainCue.getD F64.zero⟩
      (Spec.pad8 (x.loops.map Spec.normLoop))) = .ok (Spec.normFields s x) := by
  unfold readSnap assemble
  simp only [writeTrackRow, optMul_len, cell_mi1, optMul_ts, Res.bind_ok', Res.pure_eq, bind, Res.bind]
  congr 1
  unfold Spec.normFields
  obtain ⟨album, artist, averageLoudness, beatgrid, bitrate, bpm, comment, composer, duration, fileBytes, genre,
    hotCues, key, lastPlayedAt, loops, mainCue, publisher, rating, relativePath, sampleCount, sampleRate, title,
    trackNumber, waveform, year⟩ := x
  simp only at hpath hb hn ⊢
  simp only [cell_mb1, cell_mb2, cell_mb3, cell_mb4, cell_mb5, cell_mb6, cell_mb7, cell_mi4, cell_mi5, hpath,
    Snap.mk.injEq, Option.bind_some, Option.map_some,
    normTrack, normHires, Option.getD_some, zeroNoneF_eq_dropZero, mainCue_read, fileBytesCol, Option.map_map]
  refine ⟨trivial, trivial, trivial, trivial, ?_, ?_, trivial, trivial, ?_, ?_, trivial, trivial, ?_, ?_, trivial,
    trivial, trivial, ?_, trivial, trivial, trivial, trivial, ?_, trivial, ?_⟩
  · exact map_u32_s32 _
  · exact bpm_read o _ bi hb hn
  · cases duration <;> simp [whole1000]
  · cases hs : s.ge .s1_15_0
    · simp
    · cases fileBytes <;> simp [Prim.u64OfInt_s64]
  · exact key_read' _
  · cases lastPlayedAt <;> simp [wholeBillion]
  · cases rating <;> simp [clamp_eq]
  · exact map_u32_s32 _
  · exact map_u32_s32 _

/-! ### acceptance, unpacked -/

theorem present_iff (r : Option Bits) : Spec.present r = true ↔ ∃ rr, r = some rr ∧ F64.isZero rr = false := by
  unfold Spec.present
  rw [← zeroNoneF_eq_dropZero]
  cases r with
  | none => simp [zeroNoneF]
  | some v =>
    unfold zeroNoneF
    cases h : F64.isZero v <;> simp [h]

theorem accepted_unpack (x : Snap) (h : Spec.accepted x = true) :
    (∃ p, x.relativePath = some p) ∧ x.hotCues.length ≤ 8 ∧ x.hotCues.all Spec.cueOk = true ∧
    x.loops.length ≤ 8 ∧ x.loops.all Spec.loopOk = true ∧ Spec.gridOk x.beatgrid = true ∧
    waveStorable x.sampleCount x.sampleRate x.waveform := by
  unfold Spec.accepted at h
  simp only [Bool.and_eq_true, decide_eq_true_eq, Bool.or_eq_true] at h
  obtain ⟨⟨⟨⟨⟨⟨h1, h2⟩, h3⟩, h4⟩, h5⟩, h6⟩, h7⟩ := h
  refine ⟨?_, h2, h3, h4, h5, h6, ?_⟩
  · cases hp : x.relativePath with
    | none => rw [hp] at h1; cases h1
    | some p => exact ⟨p, rfl⟩
  · rcases h7 with hw | ⟨hr, hc⟩
    · left
      cases hww : x.waveform with
      | nil => rfl
      | cons a t => rw [hww] at hw; cases hw
    · right
      obtain ⟨rr, hrr, hz⟩ := (present_iff _).mp hr
      cases hcc : x.sampleCount with
      | none => rw [hcc] at hc; cases hc
      | some n =>
        rw [hcc] at hc
        simp only [Option.any_some, decide_eq_true_eq] at hc
        exact ⟨n, rr, rfl, hrr, hc, hz⟩

theorem accepted_pack (x : Snap) (hp : ∃ p, x.relativePath = some p) (h2 : x.hotCues.length ≤ 8)
    (h3 : x.hotCues.all Spec.cueOk = true) (h4 : x.loops.length ≤ 8) (h5 : x.loops.all Spec.loopOk = true)
    (h6 : Spec.gridOk x.beatgrid = true) (h7 : waveStorable x.sampleCount x.sampleRate x.waveform) :
    Spec.accepted x = true := by
  unfold Spec.accepted
  simp only [Bool.and_eq_true, decide_eq_true_eq, Bool.or_eq_true]
  obtain ⟨p, hp⟩ := hp
  refine ⟨⟨⟨⟨⟨⟨by simp [hp], h2⟩, h3⟩, h4⟩, h5⟩, h6⟩, ?_⟩
  rcases h7 with hw | ⟨n, rr, hc, hr, hn, hz⟩
  · left; simp [hw]
  · right
    refine ⟨(present_iff _).mpr ⟨rr, hr, hz⟩, ?_⟩
    simp [hc, hn]

theorem noNaN_grid (x : Snap) (h : Spec.NoNaN x = true) : ∀ m ∈ x.beatgrid, F64.isNaN m.off = false := by
  unfold Spec.NoNaN at h
  simp only [Bool.and_eq_true] at h
  have hg := h.1.1.2
  intro m hm
  have := List.all_eq_true.mp hg m hm
  simpa using this

theorem noNaN_bpm (x : Snap) (h : Spec.NoNaN x = true) : Spec.optFinite x.bpm = true := by
  unfold Spec.NoNaN at h
  simp only [Bool.and_eq_true] at h
  exact h.1.1.1.1.1.2

/-! ### the main evaluation lemmas -/

theorem writeSnap_accepted (o : FOps) (s : Schema) (x : Snap) (prior : Option TrackRows)
    (ha : Spec.accepted x = true) (hn : Spec.NoNaN x = true) :
    ∃ rows, writeSnap o s x prior = .ok rows ∧ readSnap o s rows = .ok (Spec.normFields s x) := by
  obtain ⟨⟨path, hpath⟩, hc8, hcok, hl8, hlok, hgrid, hwave⟩ := accepted_unpack x ha
  obtain ⟨lc, hlc⟩ := lengthCalculated_ok x.sampleCount x.sampleRate
  obtain ⟨bi, hbi⟩ := roundedBpm_ok x.bpm
  obtain ⟨ov, hov⟩ := toOverview_ok o x.sampleCount x.sampleRate x.waveform
  obtain ⟨spe, hhi⟩ := toHires_ok o x.sampleCount x.sampleRate x.waveform hwave
  have hlo : toLoops x.loops = .ok (padTo8 x.loops) := by
    rcases toLoops_cases x.loops with ⟨_, h⟩ | ⟨h, _⟩
    · exact h
    · omega
  have hvg : Impl.V1.validGrid x.beatgrid = true := by
    rw [validGrid_eq_gridOk _ (noNaN_grid x hn)]; exact hgrid
  have hbeat := normBeat_same x.sampleRate (x.sampleCount.map fun n => o.ofU64 n.toNat) x.beatgrid
  rw [if_pos hvg] at hbeat
  have hcues := normCues_toCues_ok x.hotCues x.mainCue hc8 hcok
  have hloops := normLoops_pad_ok x.loops hlok
  have hb : x.bpm = none → bi = none := by
    intro h
    rw [h, roundedBpm_none] at hbi
    cases hbi; rfl
  refine ⟨_, ?_, readSnap_assemble o s x prior path lc bi ov spe (zeroNoneF x.sampleRate)
    (zeroNoneF (x.sampleCount.map fun n => o.ofU64 n.toNat)) hpath hb (noNaN_bpm x hn)⟩
  unfold writeSnap
  simp only [hpath, hlc, hbi, hov, hhi, hlo, hbeat, hcues, hloops, Res.bind_ok']

theorem normCues_defined (v : Cues) : Defined (normCues v) := by
  unfold normCues
  split
  · exact Defined.throw _
  · have hdef : Defined (mapRes normCueSlot v.cues) := by
      apply mapRes_defined
      intro a _
      rcases normCueSlot_cases a with ⟨_, h⟩ | ⟨_, e, h⟩ <;> rw [h]
      · exact Defined.ok _
      · exact Defined.throw _
    cases hm : mapRes normCueSlot v.cues with
    | ok r => simp only; split <;> first | exact Defined.throw _ | exact Defined.ok _
    | throw e => exact Defined.throw _
    | ub u => exact absurd hm (hdef u)

theorem normLoops_defined (v : Loops) : Defined (normLoops v) := by
  unfold normLoops
  apply mapRes_defined
  intro a _
  rcases normLoopSlot_cases a with ⟨_, h⟩ | ⟨_, e, h⟩ <;> rw [h]
  · exact Defined.ok _
  · exact Defined.throw _

theorem normBeat_defined (v : Beat) : Defined (normBeat v) := by
  unfold normBeat
  split
  · exact Defined.throw _
  · exact Defined.ok _

theorem defined_of_ok {α} {r : Res α} (h : ∃ v, r = .ok v) : Defined r := by
  obtain ⟨v, h⟩ := h; rw [h]; exact Defined.ok _

theorem writeSnap_defined (o : FOps) (s : Schema) (x : Snap) (prior : Option TrackRows) :
    Defined (writeSnap o s x prior) := by
  unfold writeSnap
  cases x.relativePath with
  | none => exact Defined.throw _
  | some path =>
    simp only
    refine Defined.bind (defined_of_ok (lengthCalculated_ok _ _)) fun _ _ => ?_
    refine Defined.bind (defined_of_ok (roundedBpm_ok _)) fun _ _ => ?_
    refine Defined.bind (defined_of_ok (toOverview_ok o _ _ _)) fun _ _ => ?_
    refine Defined.bind ?_ fun _ _ => ?_
    · rcases toHires_cases o x.sampleCount x.sampleRate x.waveform with ⟨v, h, _⟩ | ⟨h, _⟩ <;> rw [h]
      · exact Defined.ok _
      · exact Defined.throw _
    refine Defined.bind ?_ fun _ _ => ?_
    · rcases toLoops_cases x.loops with ⟨_, h⟩ | ⟨_, h⟩ <;> rw [h]
      · exact Defined.ok _
      · exact Defined.throw _
    refine Defined.bind (normBeat_defined _) fun _ _ => ?_
    refine Defined.bind (normCues_defined _) fun _ _ => ?_
    refine Defined.bind (normLoops_defined _) fun _ _ => ?_
    exact Defined.ok _

theorem writeSnap_ok_accepted (o : FOps) (s : Schema) (x : Snap) (prior : Option TrackRows) (rows : TrackRows)
    (hn : Spec.NoNaN x = true) (h : writeSnap o s x prior = .ok rows) : Spec.accepted x = true := by
  unfold writeSnap at h
  cases hp : x.relativePath with
  | none => rw [hp] at h; cases h
  | some path =>
    rw [hp] at h
    simp only at h
    obtain ⟨lc, _, h⟩ := Res.bind_eq_ok h
    obtain ⟨bi, _, h⟩ := Res.bind_eq_ok h
    obtain ⟨ov, _, h⟩ := Res.bind_eq_ok h
    obtain ⟨hi, hhi, h⟩ := Res.bind_eq_ok h
    obtain ⟨ls, hls, h⟩ := Res.bind_eq_ok h
    obtain ⟨bt, hbt, h⟩ := Res.bind_eq_ok h
    obtain ⟨cs, hcs, h⟩ := Res.bind_eq_ok h
    obtain ⟨lp, hlp, _⟩ := Res.bind_eq_ok h
    have hwave : waveStorable x.sampleCount x.sampleRate x.waveform := by
      rcases toHires_cases o x.sampleCount x.sampleRate x.waveform with ⟨_, _, hw⟩ | ⟨ht, _⟩
      · exact hw
      · rw [ht] at hhi; cases hhi
    have hl8 : x.loops.length ≤ 8 ∧ ls = padTo8 x.loops := by
      rcases toLoops_cases x.loops with ⟨h8, ht⟩ | ⟨_, ht⟩
      · rw [ht] at hls; cases hls; exact ⟨h8, rfl⟩
      · rw [ht] at hls; cases hls
    have hgrid : Spec.gridOk x.beatgrid = true := by
      rw [normBeat_same] at hbt
      cases hv : Impl.V1.validGrid x.beatgrid with
      | true => rw [← validGrid_eq_gridOk _ (noNaN_grid x hn)]; exact hv
      | false => rw [hv] at hbt; simp at hbt
    have hcues : x.hotCues.length ≤ 8 ∧ x.hotCues.all Spec.cueOk = true := by
      rcases normCues_toCues_cases x.hotCues x.mainCue with hh | ⟨e, he⟩
      · exact hh
      · rw [he] at hcs; cases hcs
    have hloops : x.loops.all Spec.loopOk = true := by
      rw [hl8.2] at hlp
      rcases normLoops_pad_cases x.loops with hh | ⟨e, he⟩
      · exact hh
      · rw [he] at hlp; cases hlp
    exact accepted_pack x ⟨path, hp⟩ hcues.1 hcues.2 hl8.1 hloops hgrid hwave

end EngineModel.TracksV1
