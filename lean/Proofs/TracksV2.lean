/-
Helper lemmas for C01/C06 on schema 2.x: each conversion pair of
convert_*.hpp composed (write, store, read) is the Spec's normalisation of
that field.
-/
import EngineModel.TracksV2.Model
import EngineModel.TracksV2.Spec
import Mathlib.Tactic.Linarith

namespace EngineModel
namespace TracksV2

open Prim

/-! ### integers -/

theorem trunc32_sext32 (x : UInt32) : trunc32 (sext32 x) = x := by
  apply UInt32.toNat_inj.mp
  have h := x.toNat_lt
  unfold trunc32 sext32 u64OfInt s32
  split <;> simp [UInt64.toNat_ofNat, UInt32.toNat_ofNat] <;> omega

theorem map_trunc32_sext32 (v : Option UInt32) : (v.map sext32).map trunc32 = v := by
  cases v <;> simp [trunc32_sext32]

theorem tdiv_cases (a : Int) (b : Int) (hb : 0 < b) :
    Int.tdiv a b = if 0 ≤ a then a / b else -((-a) / b) := by
  split
  · exact Int.tdiv_eq_ediv_of_nonneg ‹_›
  · have h : a = -(-a) := by omega
    rw [h, Int.neg_tdiv, Int.tdiv_eq_ediv_of_nonneg (by omega)]
    simp


/-! ### rating -/

theorem u64OfInt_eq_zero_iff (i : Int) (h1 : 0 ≤ i) (h2 : i < 18446744073709551616) :
    u64OfInt i = 0 ↔ i = 0 := by
  unfold u64OfInt
  constructor
  · intro h
    have := congrArg UInt64.toNat h
    simp [UInt64.toNat_ofNat] at this
    omega
  · intro h; subst h; rfl

theorem read_write_rating (r : Option UInt32) : readRating (writeRating r) = Spec.normRating r := by
  cases r with
  | none => simp [writeRating, readRating, Spec.normRating, s32, u64OfInt]
  | some v =>
    have hv := v.toNat_lt
    simp only [writeRating, readRating, Spec.normRating, Option.getD_some]
    by_cases h0 : s32 v < 0
    · simp [h0, u64OfInt]; omega
    · by_cases h1 : 100 < s32 v
      · have : ¬ s32 v ≤ 0 := by omega
        simp only [h0, h1, if_true, if_false, this]
        have e : u64OfInt 100 = 100 := rfl
        rw [e]
        simp only [show ((100 : UInt64) = 0) = False by decide, if_false]
        rfl
      · simp only [h0, h1, if_false]
        by_cases hz : s32 v ≤ 0
        · have : s32 v = 0 := by omega
          simp [this, hz, u64OfInt]
        · have hne : ¬ u64OfInt (s32 v) = 0 := by
            rw [u64OfInt_eq_zero_iff _ (by omega) (by omega)]; omega
          simp only [hne, hz, if_false]
          congr 1
          apply UInt32.toNat_inj.mp
          unfold trunc32 u64OfInt
          unfold s32 at *
          split at hz <;> simp [UInt64.toNat_ofNat, UInt32.toNat_ofNat] <;> omega


/-! ### duration, time stamps -/

theorem u64OfInt_eq_zero_iff' (i : Int) (h1 : -9223372036854775808 ≤ i) (h2 : i < 9223372036854775808) :
    u64OfInt i = 0 ↔ i = 0 := by
  constructor
  · intro h
    have := congrArg s64 h
    rw [s64_u64OfInt i h1 h2] at this
    simpa [s64] using this
  · intro h; subst h; rfl

theorem tdiv_bounds (a : Int) (k : Int) (hk : 0 < k) (h1 : -9223372036854775808 ≤ a) (h2 : a < 9223372036854775808) :
    -9223372036854775808 ≤ Int.tdiv a k * k ∧ Int.tdiv a k * k < 9223372036854775808 ∧
    -9223372036854775808 ≤ Int.tdiv a k ∧ Int.tdiv a k < 9223372036854775808 := by
  rw [tdiv_cases a k hk]
  split
  · have h3 : a / k * k ≤ a := Int.ediv_mul_le a (by omega)
    have h4 : 0 ≤ a / k := Int.ediv_nonneg ‹_› (by omega)
    have h5 : a / k ≤ a / k * k := by nlinarith
    refine ⟨?_, ?_, ?_, ?_⟩ <;> nlinarith
  · have h3 : (-a) / k * k ≤ -a := Int.ediv_mul_le (-a) (by omega)
    have h4 : 0 ≤ (-a) / k := Int.ediv_nonneg (by omega) (by omega)
    have h5 : (-a) / k ≤ (-a) / k * k := by nlinarith
    refine ⟨?_, ?_, ?_, ?_⟩ <;> nlinarith

theorem readDuration_of (q : Int) (b3 : -9223372036854775808 ≤ q) (b4 : q < 9223372036854775808)
    (b1 : -9223372036854775808 ≤ q * 1000) (b2 : q * 1000 < 9223372036854775808) :
    readDuration (u64OfInt q) = .ok (if q = 0 then none else some (u64OfInt (q * 1000))) := by
  have e1 := u64OfInt_eq_zero_iff' q b3 b4
  have e2 := s64_u64OfInt q b3 b4
  unfold readDuration
  by_cases hq : q = 0
  · rw [if_pos (e1.mpr hq), if_pos hq]
  · rw [if_neg (fun h => hq (e1.mp h)), if_neg hq, e2]
    rw [if_neg (by omega)]

theorem read_write_duration (d : Option UInt64) :
    readDuration (writeDuration d) = .ok (Spec.normDuration d) := by
  cases d with
  | none => simp [writeDuration, readDuration, Spec.normDuration, s64, u64OfInt]
  | some ms =>
    have hr := s64_range ms
    obtain ⟨b1, b2, b3, b4⟩ := tdiv_bounds (s64 ms) 1000 (by omega) hr.1 hr.2
    show readDuration (u64OfInt (Int.tdiv (s64 ms) 1000)) = _
    rw [readDuration_of _ b3 b4 b1 b2]
    rfl

theorem storeTime_eq (t : UInt64) : storeTime t = Spec.wholeSeconds 1000000000 t := rfl

theorem map_storeTime (t : Option UInt64) : t.map storeTime = Spec.normTime t := rfl

/-- whole seconds are a fixed point of the truncation -/
theorem wholeSeconds_idem (k : Int) (hk : 0 < k) (t : UInt64) :
    Spec.wholeSeconds k (Spec.wholeSeconds k t) = Spec.wholeSeconds k t := by
  have hr := s64_range t
  obtain ⟨b1, b2, _, _⟩ := tdiv_bounds (s64 t) k hk hr.1 hr.2
  unfold Spec.wholeSeconds
  rw [s64_u64OfInt _ b1 b2, Int.mul_tdiv_cancel _ (by omega)]


/-! ### sentinels -/

theorem isZero_iff (b : F) : F64.isZero b = true ↔ (b = 0 ∨ b = F64.negZero) := by
  simp [F64.isZero, F64.zero]

theorem zeroAbsent_getD (v : Option F) :
    (if F64.isZero (v.getD 0) then none else some (v.getD 0)) = Spec.normZeroAbsent v := by
  cases v with
  | none => simp [Spec.normZeroAbsent, F64.isZero, F64.zero]
  | some b =>
    simp only [Option.getD_some, Spec.normZeroAbsent]
    by_cases h : b = 0 ∨ b = F64.negZero
    · rw [if_pos ((isZero_iff b).mpr h), if_pos h]
    · rw [if_neg (fun hh => h ((isZero_iff b).mp hh)), if_neg h]

theorem read_write_count (v : Option UInt64) :
    (if v.getD 0 = 0 then none else some (v.getD 0)) = Spec.normCount v := by
  cases v with
  | none => simp [Spec.normCount]
  | some n => simp [Spec.normCount]

theorem read_write_bpm (ops : FOps) (v : Option F) :
    readBpm ops (storeReal (writeBpm v).1) (writeBpm v).2 = Spec.normBpm v := by
  cases v with
  | none => rfl
  | some b =>
    simp only [writeBpm, storeReal, Spec.normBpm, Option.bind_some]
    by_cases hn : F64.isNaN b = true
    · have : toI64 b = none := by
        unfold F64.isNaN at hn
        unfold toI64
        simp at hn
        simp [hn.1]
      simp [hn, this, readBpm]
    · simp only [hn, Bool.false_eq_true, if_false]
      by_cases hz : b = F64.negZero <;> simp [hz, readBpm]

/-! ### hot cues, loops -/

theorem read_write_hotCue (c : Option HotCue) : readHotCue (writeHotCue c) = Spec.normCue c := by
  cases c with
  | none => decide
  | some q =>
    cases q with
    | mk l o c =>
      show (if F64.eq o F64.negOne = true then none else some (⟨l, o, c⟩ : HotCue)) =
        (if o = F64.negOne then none else some ⟨l, o, c⟩)
      by_cases h : o = F64.negOne
      · rw [if_pos ((F64.eq_negOne_iff _).mpr h), if_pos h]
      · rw [if_neg (fun hh => h ((F64.eq_negOne_iff _).mp hh)), if_neg h]

theorem read_emptyCue : readHotCue emptyCue = none := by decide

theorem read_write_loop (l : Option LoopV) : readLoop (writeLoop l) = l := by
  cases l with
  | none => decide
  | some q => simp [writeLoop, readLoop]

theorem read_emptyLoop : readLoop emptyLoop = none := by decide

theorem map_padTo {α β} (f : α → β) (n : Nat) (e : α) (l : List α) :
    (padTo n e l).map f = padTo n (f e) (l.map f) := by
  simp [padTo]

theorem read_write_hotCues (cs : List (Option HotCue)) :
    (padTo 8 emptyCue (cs.map writeHotCue)).map readHotCue = Spec.pad8 (cs.map Spec.normCue) := by
  rw [map_padTo, read_emptyCue, List.map_map]
  have : (readHotCue ∘ writeHotCue) = Spec.normCue := funext read_write_hotCue
  rw [this]
  simp [padTo, Spec.pad8]

theorem read_write_loops (ls : List (Option LoopV)) :
    (padTo 8 emptyLoop (ls.map writeLoop)).map readLoop = Spec.pad8 ls := by
  rw [map_padTo, read_emptyLoop, List.map_map]
  have : (readLoop ∘ writeLoop) = id := funext read_write_loop
  rw [this]
  simp [padTo, Spec.pad8]

theorem all_padTo {α} (p : α → Bool) (n : Nat) (e : α) (l : List α) (he : p e = true) :
    (padTo n e l).all p = l.all p := by
  simp [padTo, List.all_append, List.all_replicate, he]

theorem cuesEncodable_write (cs : List (Option HotCue)) (a : F) (b : Bool) (d : F) :
    cuesEncodable ⟨padTo 8 emptyCue (cs.map writeHotCue), a, b, d⟩ = Spec.labelsOk HotCue.label cs := by
  unfold cuesEncodable Spec.labelsOk
  rw [all_padTo _ _ _ _ (by decide), List.all_map]
  congr 1
  funext o
  cases o <;> rfl

theorem loopsEncodable_write (ls : List (Option LoopV)) :
    loopsEncodable (padTo 8 emptyLoop (ls.map writeLoop)) = Spec.labelsOk LoopV.label ls := by
  unfold loopsEncodable Spec.labelsOk
  rw [all_padTo _ _ _ _ (by decide), List.all_map]
  congr 1
  funext o
  cases o <;> rfl

/-! ### beat grid -/

theorem read_write_grid (g : List GMarker) : readGridMarkers (writeGridMarkers g) = g := by
  induction g with
  | nil => rfl
  | cons m r ih =>
    cases r with
    | nil => simp [writeGridMarkers, readGridMarkers, trunc32_sext32]
    | cons n r' =>
      simp only [writeGridMarkers, readGridMarkers, List.map_cons, trunc32_sext32] at ih ⊢
      rw [ih]

theorem writeGrid_isEmpty (g : List GMarker) : (writeGridMarkers g).isEmpty = g.isEmpty := by
  cases g with
  | nil => rfl
  | cons m r => cases r <;> rfl


/-! ### integer part of a double -/

theorem integerPart_eq_toI64 (x : F) : Spec.integerPart x = toI64 x := by
  unfold Spec.integerPart toI64 F64.expOf F64.manOf F64.signOf
  simp only []
  generalize x.toNat / 4503599627370496 % 2048 = e
  generalize x.toNat % 4503599627370496 + 4503599627370496 = sig
  have hsig : x.toNat % 4503599627370496 + 4503599627370496 = sig → True := fun _ => trivial
  by_cases h1 : e ≥ 1087
  · by_cases h2 : e = 2047
    · simp [h1, h2]
    · have : ¬ e < 1023 := by omega
      have h3 : 1086 < e := by omega
      simp [h1, h2, this, h3]
  · by_cases h2 : e < 1023
    · have : ¬ e = 2047 := by omega
      simp [h1, h2, this]
    · have h3 : ¬ e = 2047 := by omega
      have h4 : ¬ 1086 < e := by omega
      simp only [h1, h2, h3, h4, if_false]
      generalize (if e ≥ 1075 then sig * 2 ^ (e - 1075) else sig / 2 ^ (1075 - e)) = mag
      have e5 : (if 1075 ≤ e then sig * 2 ^ (e - 1075) else sig / 2 ^ (1075 - e)) = mag → True := fun _ => trivial
      by_cases hs : 9223372036854775808 ≤ x.toNat
      · simp only [hs, decide_true, if_true]
        by_cases hm : mag ≤ 9223372036854775808
        · have : ¬ (-(mag : Int) < -9223372036854775808 ∨ 9223372036854775807 < -(mag : Int)) := by omega
          simp [hm, this]
        · have : (-(mag : Int) < -9223372036854775808 ∨ 9223372036854775807 < -(mag : Int)) := by omega
          simp [hm, this]
      · simp only [hs, decide_false, Bool.false_eq_true, if_false]
        by_cases hm : mag < 9223372036854775808
        · have : ¬ ((mag : Int) < -9223372036854775808 ∨ 9223372036854775807 < (mag : Int)) := by omega
          simp [hm, this]; omega
        · have : ((mag : Int) < -9223372036854775808 ∨ 9223372036854775807 < (mag : Int)) := by omega
          simp [hm, this]; omega


/-! ### file name / extension -/

theorem afterLast_none_iff (c : UInt8) (l : Bytes) : afterLast c l = none ↔ c ∉ l := by
  induction l with
  | nil => simp [afterLast]
  | cons x r ih =>
    simp only [afterLast, List.mem_cons, not_or]
    cases h : afterLast c r with
    | some s =>
      have : ¬ c ∉ r := fun hh => by rw [ih.mpr hh] at h; cases h
      simp [this]
    | none =>
      have hr := ih.mp h
      by_cases hx : x = c
      · simp [hx]
      · simp [hx, hr]; exact fun hh => hx hh.symm

theorem getFilename_no_slash (p : Bytes) : (47 : UInt8) ∉ getFilename p := by
  induction p with
  | nil => simp [getFilename, afterLast]
  | cons x r ih =>
    unfold getFilename at ih ⊢
    simp only [afterLast]
    cases h : afterLast 47 r with
    | some s => simpa [h] using ih
    | none =>
      have hr := (afterLast_none_iff 47 r).mp h
      by_cases hx : x = 47
      · simp [hx, hr]
      · simp [hx, hr]; exact fun hh => hx hh.symm

theorem getFilename_idem (p : Bytes) : getFilename (getFilename p) = getFilename p := by
  have h := (afterLast_none_iff 47 _).mpr (getFilename_no_slash p)
  generalize getFilename p = q at h
  unfold getFilename
  rw [h]; rfl

theorem hasExtension_iff (p : Bytes) :
    Spec.hasExtension p = (getFileExtension (getFilename p)).isSome := by
  unfold getFileExtension
  rw [getFilename_idem]
  induction p with
  | nil => simp [Spec.hasExtension, getFilename, afterLast]
  | cons x r ih =>
    unfold getFilename at ih ⊢
    simp only [Spec.hasExtension, afterLast]
    cases h : afterLast 47 r with
    | some s =>
      have hc : (47 : UInt8) ∈ r := by
        by_contra hh; rw [(afterLast_none_iff 47 r).mpr hh] at h; cases h
      simp [h] at ih
      simp [ih, hc]
    | none =>
      have hr := (afterLast_none_iff 47 r).mp h
      simp [h] at ih
      by_cases hx : x = 47
      · subst hx
        simp [ih]
      · simp only [hx, if_false, Option.getD_none, afterLast]
        rw [ih]
        cases h2 : afterLast 46 r with
        | some s => simp
        | none =>
          by_cases h46 : x = 46
          · simp [h46, hr]
          · simp [h46]


/-! ### waveform -/

theorem idx_lt (len i : Nat) (hl : 0 < len) (hi : i < 1024) : len * (2 * i + 1) / 2048 < len := by
  apply Nat.div_lt_of_lt_mul
  have h1 : 2 * i + 1 < 2048 := by omega
  have h2 : len * (2 * i + 1) < len * 2048 := Nat.mul_lt_mul_of_pos_left h1 hl
  omega

def opq255 (e : WEntry) : WEntry := { e with lo := 255, mo := 255, ho := 255 }

theorem resampleAt_ok (w : List WEntry) (l : List Nat)
    (h : ∀ i ∈ l, w.length * (2 * i + 1) / 2048 < w.length) :
    resampleAt w l = .ok (l.filterMap fun i => w[w.length * (2 * i + 1) / 2048]?) := by
  induction l with
  | nil => rfl
  | cons i r ih =>
    have hi := h i (by simp)
    have hr := ih (fun j hj => h j (by simp [hj]))
    simp only [resampleAt, List.filterMap_cons]
    rw [List.getElem?_eq_getElem hi]
    simp [hr, Res.bind]

theorem entriesOfPoints_pointsOf (es : List WEntry) : entriesOfPoints (pointsOf es) = es.map opq255 := by
  induction es with
  | nil => rfl
  | cons e r ih =>
    simp only [pointsOf, List.flatMap_cons, List.cons_append, List.nil_append, entriesOfPoints,
      List.map_cons] at ih ⊢
    rw [ih]; rfl

theorem overviewOf_eq (w : List WEntry) (size : Nat) :
    Spec.overviewOf w size =
      ((List.range size).filterMap fun i => w[w.length * (2 * i + 1) / 2048]?).map opq255 := by
  unfold Spec.overviewOf
  rw [List.map_filterMap]
  rfl

theorem qn_zero_iff (t : Int) :
    quantisationNumber t = 0 ↔ Pure.Waveform.qn t.natAbs = 0 := by
  unfold quantisationNumber Pure.Waveform.qn
  rw [tdiv_cases t 210 (by omega)]
  split <;> omega

theorem u64_eq_zero_iff (n : UInt64) : n = 0 ↔ n.toNat = 0 := by
  constructor
  · intro h; subst h; rfl
  · intro h; apply UInt64.toNat_inj.mp; simpa using h

/-- the waveform conversion, written and read back, is the Spec's resampling;
and it throws exactly where the Spec rejects -/
theorem read_write_waveform (ops : FOps) (w : List WEntry) (c : Option UInt64) (r : Option F) :
    match Spec.normWaveform w c r with
    | some l => ∃ o, writeWaveform ops w c r = .ok o ∧ readWaveform o = l
    | none => writeWaveform ops w c r = .throw (.dj "invalid_track_snapshot") := by
  unfold Spec.normWaveform writeWaveform
  by_cases hw : w = []
  · subst hw; simp [readWaveform, entriesOfPoints]
  · have hne : w.isEmpty = false := by cases w <;> simp_all
    have hl : 0 < w.length := by cases w <;> simp_all
    simp only [hw, if_false, hne, Bool.false_eq_true]
    cases c with
    | none => cases r <;> simp
    | some n =>
      cases r with
      | none => simp
      | some rate =>
        simp only [integerPart_eq_toI64]
        cases ht : toI64 rate with
        | none => simp
        | some t =>
          simp only [Pure.Waveform.ovSize]
          by_cases h0 : n = 0 ∨ quantisationNumber t = 0
          · have h0' : n.toNat = 0 ∨ Pure.Waveform.qn t.natAbs = 0 := by
              rcases h0 with h | h
              · exact Or.inl ((u64_eq_zero_iff n).mp h)
              · exact Or.inr ((qn_zero_iff t).mp h)
            simp [h0, h0']
          · have h0' : ¬ (n.toNat = 0 ∨ Pure.Waveform.qn t.natAbs = 0) := by
              intro h; apply h0
              rcases h with h | h
              · exact Or.inl ((u64_eq_zero_iff n).mpr h)
              · exact Or.inr ((qn_zero_iff t).mpr h)
            have hres := resampleAt_ok w (List.range 1024) (fun i hi => idx_lt _ _ hl (by simpa using hi))
            simp only [h0, h0', if_false, resample, hres, Res.bind, (by decide : ¬ (1024 : Nat) = 0)]
            refine ⟨_, rfl, ?_⟩
            simp only [readWaveform, entriesOfPoints_pointsOf, overviewOf_eq]

end TracksV2
end EngineModel
