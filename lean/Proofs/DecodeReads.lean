/-
C05 "decoders terminate promptly": from loop-body executions (Proofs/DecodeSteps.lean) to
CURSOR READS.

Part A (semantic, on the Model's own loop bodies).  Each iteration of each count-prefixed
loop either returns having advanced the cursor by EXACTLY its record size — 13 + label bytes
for a quick cue, 23 + label bytes for a loop, 24 for a beat-grid marker, 3 / 6 for an
overview / high-resolution waveform entry — or throws `invalid_argument`, or (only when fewer
bytes than one primitive are left, which the decoders' guards exclude) is an out-of-bounds
read.  A completed loop has consumed exactly the sum of its record sizes (`forN_consumes_exact`).

Part B (instrumented).  `CurT` is the cursor monad with a counter of primitive cursor actions:
one tick per `decode_uint8 / int32 / int64 / double` call and per bulk copy (`string::assign`
of a label, `decode_extra`, `memcpy` of waveform points); pointer arithmetic (`end - ptr`) and
comparisons are free.  Every loop body and every one of the eleven payload decoders is written
once more in `CurT` with the same statements, and proved to ERASE to the Model decoder
(`erase_*`: dropping the counter gives exactly `Impl.V2.* / Impl.V1.*`, on every input), so the
tick count is a count of what the Model really does.  Composite reads of the Model (`rd
marker`, `rd color`) are expanded into the primitive calls the C++ makes (4 each), which the
erasure theorem justifies.  Then:

 * per iteration: at most 7 primitive reads for a quick cue, 10 for a loop, 4 for a marker,
   3 / 6 for a waveform entry (`ticks_*_le`);
 * per decoder: `reads bs ≤ K · (bs.length / w) + c` with the constants of `decode_reads_*`.
-/
import Proofs.DecodeSteps
set_option linter.unusedSimpArgs false
set_option linter.unusedVariables false

namespace EngineModel
namespace Reads
open Codec Cur Steps

/-! ## Part A — every iteration consumes exactly its record size, or does not return -/

/-- A completed loop whose body advances the cursor by exactly `size a` has advanced it by the
sum of the sizes, and has produced `n` entries. -/
theorem forN_consumes_exact {α} {body : Cur α} {size : α → Nat}
    (hb : ∀ bs a r, body bs = .ok (a, r) → r = bs.drop (size a) ∧ size a ≤ bs.length) :
    ∀ (n : Nat) (bs : Bytes) (l : List α) (r : Bytes), forN body n bs = .ok (l, r) →
      r = bs.drop (l.map size).sum ∧ (l.map size).sum ≤ bs.length ∧ l.length = n := by
  intro n
  induction n with
  | zero =>
    intro bs l r h
    simp only [forN, pure_run, Res.ok.injEq, Prod.mk.injEq] at h
    obtain ⟨rfl, rfl⟩ := h
    simp
  | succ n ih =>
    intro bs l r h
    simp only [forN, bind_run] at h
    cases hb1 : body bs with
    | ok p =>
      obtain ⟨a, r1⟩ := p
      rw [hb1] at h
      simp only [] at h
      cases hf : forN body n r1 with
      | ok q =>
        obtain ⟨l', r'⟩ := q
        rw [hf] at h
        simp only [pure_run, Res.ok.injEq, Prod.mk.injEq] at h
        obtain ⟨rfl, rfl⟩ := h
        obtain ⟨h1, h1'⟩ := hb bs a r1 hb1
        obtain ⟨h2, h3, h4⟩ := ih r1 l' r' hf
        subst h1
        simp only [List.length_drop] at h3
        refine ⟨?_, ?_, ?_⟩
        · rw [h2, List.drop_drop, List.map_cons, List.sum_cons]
        · simp only [List.map_cons, List.sum_cons]; omega
        · simp [h4]
      | throw e => rw [hf] at h; simp at h
      | ub u => rw [hf] at h; simp at h
    | throw e => rw [hb1] at h; simp at h
    | ub u => rw [hb1] at h; simp at h

theorem drop_of_append {bs e r : Bytes} (h : bs = e ++ r) : r = bs.drop e.length ∧ e.length ≤ bs.length := by
  subst h; simp

/-- 2.x loop entry: returns with the cursor advanced by exactly 23 + label bytes, or throws. -/
theorem decodeLoop_iter (bs : Bytes) :
    (∃ l, Impl.V2.decodeLoop bs = .ok (l, bs.drop (23 + l.label.length)) ∧ 23 + l.label.length ≤ bs.length) ∨
    Impl.V2.decodeLoop bs = .throw .invalid_argument := by
  rw [Impl.V2.decodeLoop_eq]
  unfold liftDec
  cases hd : V2.loop.dec bs with
  | none => right; rfl
  | some p =>
    obtain ⟨l, r⟩ := p
    left
    have e := (V2.loop_exact bs l r hd).2
    obtain ⟨h1, h2⟩ := drop_of_append e
    rw [Impl.V2.loop_enc_length] at h1 h2
    exact ⟨l, by rw [← h1], h2⟩

theorem decodeLoop_consumes (bs : Bytes) (l : V2.Loop) (r : Bytes) (h : Impl.V2.decodeLoop bs = .ok (l, r)) :
    r = bs.drop (23 + l.label.length) ∧ 23 + l.label.length ≤ bs.length := by
  rcases decodeLoop_iter bs with ⟨l', h1, h2⟩ | h1
  · rw [h1] at h
    simp only [Res.ok.injEq, Prod.mk.injEq] at h
    obtain ⟨rfl, rfl⟩ := h
    exact ⟨rfl, h2⟩
  · rw [h1] at h; simp at h

/-- 2.x quick cue: returns with the cursor advanced by exactly 13 + label bytes (and the 17 bytes
of the trailer still ahead), or throws; an out-of-bounds read only on an empty remainder. -/
theorem decodeCue_iter (bs : Bytes) :
    (∃ q, Impl.V2.decodeCue bs = .ok (q, bs.drop (13 + q.label.length)) ∧
        13 + q.label.length + 17 ≤ bs.length) ∨
    Impl.V2.decodeCue bs = .throw .invalid_argument ∨
    (bs = [] ∧ Impl.V2.decodeCue bs = .ub .oob_read) := by
  cases bs with
  | nil => right; right; exact ⟨rfl, rfl⟩
  | cons b t =>
    rw [Impl.V2.decodeCue_run (b :: t) (by simp)]
    cases hd : V2.cue.dec (b :: t) with
    | none => right; left; rfl
    | some p =>
      obtain ⟨q, r⟩ := p
      simp only []
      by_cases h17 : 17 ≤ r.length
      · left
        have e := (V2.cue_exact _ q r hd).2
        obtain ⟨h1, h2⟩ := drop_of_append e
        rw [Impl.V2.cue_enc_length] at h1 h2
        refine ⟨q, by simp only [h17, if_true]; rw [← h1], ?_⟩
        have : (b :: t).length = (V2.cue.enc q ++ r).length := congrArg List.length e
        rw [List.length_append, Impl.V2.cue_enc_length] at this
        omega
      · right; left; simp only [h17, if_false]

theorem decodeCue_consumes (bs : Bytes) (q : V2.Cue) (r : Bytes) (h : Impl.V2.decodeCue bs = .ok (q, r)) :
    r = bs.drop (13 + q.label.length) ∧ 13 + q.label.length ≤ bs.length := by
  rcases decodeCue_iter bs with ⟨q', h1, h2⟩ | h1 | ⟨_, h1⟩
  · rw [h1] at h
    simp only [Res.ok.injEq, Prod.mk.injEq] at h
    obtain ⟨rfl, rfl⟩ := h
    exact ⟨rfl, by omega⟩
  · rw [h1] at h; simp at h
  · rw [h1] at h; simp at h

/-- A primitive or composite read of a fixed-width codec: `w` bytes or out of bounds. -/
theorem rd_fixed_iter {α} {c : Codec α} {P : α → Prop} (hx : c.Exact P) {w : Nat}
    (hw : ∀ a, (c.enc a).length = w) (bs : Bytes) :
    (∃ a, rd c bs = .ok (a, bs.drop w) ∧ w ≤ bs.length) ∨ rd c bs = .ub .oob_read := by
  unfold rd
  cases hd : c.dec bs with
  | none => right; rfl
  | some p =>
    obtain ⟨a, r⟩ := p
    left
    obtain ⟨h1, h2⟩ := drop_of_append (hx bs a r hd).2
    rw [hw] at h1 h2
    exact ⟨a, by rw [← h1], h2⟩

/-- beat-grid marker (both generations): exactly 24 bytes, or out of bounds -/
theorem marker_iter (bs : Bytes) :
    (∃ m, rd V2.marker bs = .ok (m, bs.drop 24) ∧ 24 ≤ bs.length) ∨ rd V2.marker bs = .ub .oob_read :=
  rd_fixed_iter V2.marker_exact V2.marker_enc_length bs

theorem marker_consumes (bs : Bytes) (m : V2.Marker) (r : Bytes) (h : rd V2.marker bs = .ok (m, r)) :
    r = bs.drop 24 ∧ 24 ≤ bs.length := by
  rcases marker_iter bs with ⟨m', h1, h2⟩ | h1
  · rw [h1] at h
    simp only [Res.ok.injEq, Prod.mk.injEq] at h
    exact ⟨h.2.symm, h2⟩
  · rw [h1] at h; simp at h

/-- 1.x overview waveform entry: exactly 3 bytes, or out of bounds -/
theorem ovwEntry_iter (bs : Bytes) :
    (∃ e, Impl.V1.ovwEntry bs = .ok (e, bs.drop 3) ∧ 3 ≤ bs.length) ∨ Impl.V1.ovwEntry bs = .ub .oob_read := by
  unfold Impl.V1.ovwEntry
  match bs with
  | a :: b :: c :: t => left; exact ⟨_, rfl, by simp⟩
  | [] => right; rfl
  | [a] => right; rfl
  | [a, b] => right; rfl

/-- 1.x high-resolution waveform entry: exactly 6 bytes, or out of bounds -/
theorem hiresEntry_iter (bs : Bytes) :
    (∃ e, Impl.V1.hiresEntry bs = .ok (e, bs.drop 6) ∧ 6 ≤ bs.length) ∨ Impl.V1.hiresEntry bs = .ub .oob_read := by
  unfold Impl.V1.hiresEntry
  match bs with
  | a :: b :: c :: d :: e :: f :: t => left; exact ⟨_, rfl, by simp⟩
  | [] => right; rfl
  | [a] => right; rfl
  | [a, b] => right; rfl
  | [a, b, c] => right; rfl
  | [a, b, c, d] => right; rfl
  | [a, b, c, d, e] => right; rfl

/-- 1.x loop entry = the 2.x wire entry read as present / absent: same cursor movement. -/
theorem decodeLoop1_iter (bs : Bytes) :
    (∃ l o, Impl.V2.decodeLoop bs = .ok (l, bs.drop (23 + l.label.length)) ∧
        Impl.V1.decodeLoop bs = .ok (o, bs.drop (23 + l.label.length)) ∧ 23 + l.label.length ≤ bs.length) ∨
    Impl.V1.decodeLoop bs = .throw .invalid_argument := by
  unfold Impl.V1.decodeLoop
  simp only [bind_run]
  rcases decodeLoop_iter bs with ⟨l, h1, h2⟩ | h1
  · left; exact ⟨l, _, h1, by rw [h1]; rfl, h2⟩
  · right; rw [h1]

theorem decodeCue1_iter (bs : Bytes) :
    (∃ q o, Impl.V2.decodeCue bs = .ok (q, bs.drop (13 + q.label.length)) ∧
        Impl.V1.decodeCue bs = .ok (o, bs.drop (13 + q.label.length)) ∧ 13 + q.label.length + 17 ≤ bs.length) ∨
    Impl.V1.decodeCue bs = .throw .invalid_argument ∨
    (bs = [] ∧ Impl.V1.decodeCue bs = .ub .oob_read) := by
  unfold Impl.V1.decodeCue
  simp only [bind_run]
  rcases decodeCue_iter bs with ⟨q, h1, h2⟩ | h1 | ⟨h0, h1⟩
  · left; exact ⟨q, _, h1, by rw [h1]; rfl, h2⟩
  · right; left; rw [h1]
  · right; right; exact ⟨h0, by rw [h1]⟩


/-! ## Part B — counting primitive cursor actions -/

/-- The cursor monad with a counter of primitive cursor actions. -/
def CurT (α : Type) := Bytes → Res (α × Bytes) × Nat

namespace CurT

@[inline] def pure' {α} (a : α) : CurT α := fun bs => (.ok (a, bs), 0)
@[inline] def bind' {α β} (m : CurT α) (f : α → CurT β) : CurT β := fun bs =>
  match m bs with
  | (.ok (a, r), n) => ((f a r).1, n + (f a r).2)
  | (.throw e, n) => (.throw e, n)
  | (.ub u, n) => (.ub u, n)

instance : Monad CurT where
  pure := pure'
  bind := bind'

/-- a cursor action of the Model, charged `k` primitive reads -/
def ofCur {α} (k : Nat) (m : Cur α) : CurT α := fun bs => (m bs, k)

/-- `decode_uint8 / decode_int32_* / decode_int64_* / decode_double_*`: one primitive read -/
def rd {α} (c : Codec α) : CurT α := ofCur 1 (Cur.rd c)
/-- `string::assign(ptr, n)` / `memcpy`: one bulk copy -/
def takeN (n : Nat) : CurT Bytes := ofCur 1 (Cur.takeN n)
/-- `decode_extra`: one bulk copy -/
def rest : CurT Bytes := ofCur 1 Cur.rest
/-- `end - ptr`: pointer arithmetic, no memory access -/
def remaining : CurT Nat := ofCur 0 Cur.remaining
def throwC {α} (e : Exn) : CurT α := ofCur 0 (Cur.throwC e)
def lift {α} (x : Res α) : CurT α := ofCur 0 (Cur.lift x)

def forN {α} (body : CurT α) : Nat → CurT (List α)
  | 0 => pure []
  | n + 1 => do
    let a ← body
    let l ← forN body n
    pure (a :: l)

/-- forget the counter -/
def erase {α} (m : CurT α) : Cur α := fun bs => (m bs).1
/-- the counter -/
def ticks {α} (m : CurT α) (bs : Bytes) : Nat := (m bs).2

theorem erase_pure {α} (a : α) : erase (pure a : CurT α) = (pure a : Cur α) := rfl

theorem erase_bind {α β} (m : CurT α) (f : α → CurT β) :
    erase (m >>= f) = (erase m >>= fun a => erase (f a)) := by
  funext bs
  show (bind' m f bs).1 = _
  simp only [bind', erase, bind_run]
  rcases h : m bs with ⟨r, n⟩
  cases r with
  | ok p => obtain ⟨a, r'⟩ := p; rfl
  | throw e => rfl
  | ub u => rfl

theorem erase_ofCur {α} (k : Nat) (m : Cur α) : erase (ofCur k m) = m := rfl
theorem erase_rd {α} (c : Codec α) : erase (rd c) = Cur.rd c := rfl
theorem erase_takeN (n : Nat) : erase (takeN n) = Cur.takeN n := rfl
theorem erase_rest : erase rest = Cur.rest := rfl
theorem erase_remaining : erase remaining = Cur.remaining := rfl
theorem erase_throwC {α} (e : Exn) : erase (throwC e : CurT α) = Cur.throwC e := rfl
theorem erase_lift {α} (x : Res α) : erase (lift x) = Cur.lift x := rfl

theorem erase_ite {α} (c : Prop) [Decidable c] (a b : CurT α) :
    erase (if c then a else b) = if c then erase a else erase b := by
  split <;> rfl

theorem erase_forN {α} (body : CurT α) : ∀ n, erase (forN body n) = Cur.forN (erase body) n
  | 0 => rfl
  | n + 1 => by
    show erase (body >>= fun a => forN body n >>= fun l => pure (a :: l)) = _
    simp only [erase_bind, erase_forN body n, erase_pure]
    rfl

theorem ticks_pure {α} (a : α) (bs : Bytes) : ticks (pure a : CurT α) bs = 0 := rfl
theorem ticks_ofCur {α} (k : Nat) (m : Cur α) (bs : Bytes) : ticks (ofCur k m) bs = k := rfl

theorem ticks_bind {α β} (m : CurT α) (f : α → CurT β) (bs : Bytes) :
    ticks (m >>= f) bs = ticks m bs + match erase m bs with
      | .ok (a, r) => ticks (f a) r
      | _ => 0 := by
  show (bind' m f bs).2 = _
  simp only [bind', erase, ticks]
  rcases h : m bs with ⟨r, n⟩
  cases r with
  | ok p => obtain ⟨a, r'⟩ := p; rfl
  | throw e => rfl
  | ub u => rfl

theorem ticks_ite {α} (c : Prop) [Decidable c] (a b : CurT α) (bs : Bytes) :
    ticks (if c then a else b) bs = if c then ticks a bs else ticks b bs := by
  split <;> rfl

/-- A bound on the ticks of `m >>= f` from a bound on `m` and a uniform bound on the continuation. -/
theorem ticks_bind_le' {α β} (m : CurT α) (f : α → CurT β) (bs : Bytes) (k1 k2 : Nat)
    (h1 : ticks m bs ≤ k1) (h2 : ∀ a r, erase m bs = .ok (a, r) → ticks (f a) r ≤ k2) :
    ticks (m >>= f) bs ≤ k1 + k2 := by
  rw [ticks_bind]
  have : (match erase m bs with | .ok (a, r) => ticks (f a) r | _ => 0) ≤ k2 := by
    split
    · rename_i a r h; exact h2 a r h
    · omega
  omega

theorem ticks_bind_le {α β} (m : CurT α) (f : α → CurT β) (bs : Bytes) (k1 k2 : Nat)
    (h1 : ticks m bs ≤ k1) (h2 : ∀ a r, ticks (f a) r ≤ k2) : ticks (m >>= f) bs ≤ k1 + k2 :=
  ticks_bind_le' m f bs k1 k2 h1 (fun a r _ => h2 a r)

theorem ticks_ite_le {α} (c : Prop) [Decidable c] (a b : CurT α) (bs : Bytes) (k : Nat)
    (h1 : c → ticks a bs ≤ k) (h2 : ¬ c → ticks b bs ≤ k) : ticks (if c then a else b) bs ≤ k := by
  split
  · rename_i h; exact h1 h
  · rename_i h; exact h2 h

/-- The loop: at most `k` ticks per executed iteration. -/
theorem ticks_forN_le {α} (body : CurT α) (k : Nat) (hk : ∀ bs, ticks body bs ≤ k) :
    ∀ (n : Nat) (bs : Bytes), ticks (forN body n) bs ≤ k * forNIters (erase body) n bs
  | 0, bs => by simp [forN, ticks_pure, forNIters]
  | n + 1, bs => by
    show ticks (body >>= fun a => forN body n >>= fun l => pure (a :: l)) bs ≤ _
    rw [ticks_bind]
    simp only [forNIters]
    have h0 := hk bs
    cases hb : erase body bs with
    | ok p =>
      obtain ⟨a, r⟩ := p
      simp only []
      have ih := ticks_forN_le body k hk n r
      have h2 := ticks_bind_le (forN body n) (fun l => (pure (a :: l) : CurT (List α))) r _ 0 ih
        (fun _ _ => Nat.le_of_eq rfl)
      rw [Nat.mul_add]
      omega
    | throw e => simp only []; omega
    | ub u => simp only []; omega

end CurT

/-! ### composite reads of the Model are the primitive reads the C++ makes -/

theorem rd_map {α β} (f : α → β) (g : β → α) (c : Codec α) :
    Cur.rd (Codec.map f g c) = (Cur.rd c >>= fun a => pure (f a)) := by
  funext bs
  simp only [Cur.rd, Codec.map, bind_run]
  cases c.dec bs with
  | none => rfl
  | some p => obtain ⟨a, r⟩ := p; rfl

theorem rd_pair {α β} (c : Codec α) (d : Codec β) :
    Cur.rd (Codec.pair c d) = (Cur.rd c >>= fun a => Cur.rd d >>= fun b => pure (a, b)) := by
  funext bs
  simp only [Cur.rd, Codec.pair, bind_run]
  cases c.dec bs with
  | none => rfl
  | some p =>
    obtain ⟨a, r⟩ := p
    simp only []
    cases d.dec r with
    | none => rfl
    | some q => obtain ⟨b, r'⟩ := q; rfl

/-- a colour: four `decode_uint8` calls -/
def rdColorT : CurT V2.Color := do
  let a ← CurT.rd u8
  let r ← CurT.rd u8
  let g ← CurT.rd u8
  let b ← CurT.rd u8
  pure ⟨a, r, g, b⟩

theorem erase_rdColorT : CurT.erase rdColorT = Cur.rd V2.color := by
  unfold rdColorT V2.color
  simp only [CurT.erase_bind, CurT.erase_rd, CurT.erase_pure, rd_map, rd_pair,
    cur_bind_assoc, cur_pure_bind]

/-- a beat-grid marker: `decode_double_le`, `decode_int64_le`, `decode_int32_le`, `decode_int32_le` -/
def rdMarkerT : CurT V2.Marker := do
  let off ← CurT.rd u64le
  let bn ← CurT.rd u64le
  let nb ← CurT.rd u32le
  let unk ← CurT.rd u32le
  pure ⟨off, bn, nb, unk⟩

theorem erase_rdMarkerT : CurT.erase rdMarkerT = Cur.rd V2.marker := by
  unfold rdMarkerT V2.marker
  simp only [CurT.erase_bind, CurT.erase_rd, CurT.erase_pure, rd_map, rd_pair,
    cur_bind_assoc, cur_pure_bind]

theorem ticks_rdColorT_le (bs : Bytes) : CurT.ticks rdColorT bs ≤ 4 := by
  unfold rdColorT
  refine CurT.ticks_bind_le _ _ bs 1 3 (Nat.le_of_eq rfl) (fun _ r => ?_)
  refine CurT.ticks_bind_le _ _ r 1 2 (Nat.le_of_eq rfl) (fun _ r => ?_)
  refine CurT.ticks_bind_le _ _ r 1 1 (Nat.le_of_eq rfl) (fun _ r => ?_)
  exact CurT.ticks_bind_le _ _ r 1 0 (Nat.le_of_eq rfl) (fun _ r => Nat.le_of_eq rfl)

theorem ticks_rdMarkerT_le (bs : Bytes) : CurT.ticks rdMarkerT bs ≤ 4 := by
  unfold rdMarkerT
  refine CurT.ticks_bind_le _ _ bs 1 3 (Nat.le_of_eq rfl) (fun _ r => ?_)
  refine CurT.ticks_bind_le _ _ r 1 2 (Nat.le_of_eq rfl) (fun _ r => ?_)
  refine CurT.ticks_bind_le _ _ r 1 1 (Nat.le_of_eq rfl) (fun _ r => ?_)
  exact CurT.ticks_bind_le _ _ r 1 0 (Nat.le_of_eq rfl) (fun _ r => Nat.le_of_eq rfl)


/-! ### the loop bodies, statement by statement, with their tick counts -/

/-- `quick_cues_blob::from_blob`, loop body (2.x and 1.x): 1 + 1 + 1 + 4 primitive actions -/
def decodeCueT : CurT V2.Cue := do
  let len ← CurT.rd u8
  let rem ← CurT.remaining
  if rem < 29 + len.toNat then CurT.throwC .invalid_argument else
  let label ← CurT.takeN len.toNat
  let off ← CurT.rd u64be
  let col ← rdColorT
  pure ⟨label, off, col⟩

theorem erase_decodeCueT : CurT.erase decodeCueT = Impl.V2.decodeCue := by
  unfold decodeCueT Impl.V2.decodeCue
  simp only [CurT.erase_bind, CurT.erase_rd, CurT.erase_remaining, CurT.erase_ite, CurT.erase_throwC,
    CurT.erase_takeN, erase_rdColorT, CurT.erase_pure]

theorem ticks_decodeCueT_le (bs : Bytes) : CurT.ticks decodeCueT bs ≤ 7 := by
  unfold decodeCueT
  refine CurT.ticks_bind_le _ _ bs 1 6 (Nat.le_of_eq rfl) (fun len r => ?_)
  refine CurT.ticks_bind_le _ _ r 0 6 (Nat.le_of_eq rfl) (fun rem r => ?_)
  refine CurT.ticks_ite_le _ _ _ r 6 (fun _ => Nat.zero_le _) (fun _ => ?_)
  refine CurT.ticks_bind_le _ _ r 1 5 (Nat.le_of_eq rfl) (fun _ r => ?_)
  refine CurT.ticks_bind_le _ _ r 1 4 (Nat.le_of_eq rfl) (fun _ r => ?_)
  exact CurT.ticks_bind_le _ _ r 4 0 (ticks_rdColorT_le r) (fun _ r => Nat.le_of_eq rfl)

/-- `loops_blob::from_blob`, loop body (2.x and 1.x): 1 + 1 + 2 + 2 + 4 primitive actions -/
def decodeLoopT : CurT V2.Loop := do
  let rem ← CurT.remaining
  if rem < 23 then CurT.throwC .invalid_argument else
  let len ← CurT.rd u8
  let rem ← CurT.remaining
  if rem < 22 + len.toNat then CurT.throwC .invalid_argument else
  let label ← CurT.takeN len.toNat
  let s ← CurT.rd u64le
  let e ← CurT.rd u64le
  let f1 ← CurT.rd u8
  let f2 ← CurT.rd u8
  let col ← rdColorT
  pure ⟨label, s, e, f1, f2, col⟩

theorem erase_decodeLoopT : CurT.erase decodeLoopT = Impl.V2.decodeLoop := by
  unfold decodeLoopT Impl.V2.decodeLoop
  simp only [CurT.erase_bind, CurT.erase_rd, CurT.erase_remaining, CurT.erase_ite, CurT.erase_throwC,
    CurT.erase_takeN, erase_rdColorT, CurT.erase_pure]

theorem ticks_decodeLoopT_le (bs : Bytes) : CurT.ticks decodeLoopT bs ≤ 10 := by
  unfold decodeLoopT
  refine CurT.ticks_bind_le _ _ bs 0 10 (Nat.le_of_eq rfl) (fun rem r => ?_)
  refine CurT.ticks_ite_le _ _ _ r 10 (fun _ => Nat.zero_le _) (fun _ => ?_)
  refine CurT.ticks_bind_le _ _ r 1 9 (Nat.le_of_eq rfl) (fun len r => ?_)
  refine CurT.ticks_bind_le _ _ r 0 9 (Nat.le_of_eq rfl) (fun rem r => ?_)
  refine CurT.ticks_ite_le _ _ _ r 9 (fun _ => Nat.zero_le _) (fun _ => ?_)
  refine CurT.ticks_bind_le _ _ r 1 8 (Nat.le_of_eq rfl) (fun _ r => ?_)
  refine CurT.ticks_bind_le _ _ r 1 7 (Nat.le_of_eq rfl) (fun _ r => ?_)
  refine CurT.ticks_bind_le _ _ r 1 6 (Nat.le_of_eq rfl) (fun _ r => ?_)
  refine CurT.ticks_bind_le _ _ r 1 5 (Nat.le_of_eq rfl) (fun _ r => ?_)
  refine CurT.ticks_bind_le _ _ r 1 4 (Nat.le_of_eq rfl) (fun _ r => ?_)
  exact CurT.ticks_bind_le _ _ r 4 0 (ticks_rdColorT_le r) (fun _ r => Nat.le_of_eq rfl)

/-- 1.x bodies: the 2.x wire entry, then a pure reading (no further cursor action) -/
def decodeCue1T : CurT (Option Impl.V1.HotCue) := do
  let q ← decodeCueT
  pure (if F64.ne q.off F64.negOne then some ⟨q.label, q.off, q.color⟩ else none)

def decodeLoop1T : CurT (Option Impl.V1.LoopV) := do
  let l ← decodeLoopT
  pure (if F64.ne l.start F64.negOne then some ⟨l.label, l.start, l.stop, l.color⟩ else none)

theorem erase_decodeCue1T : CurT.erase decodeCue1T = Impl.V1.decodeCue := by
  unfold decodeCue1T Impl.V1.decodeCue
  simp only [CurT.erase_bind, erase_decodeCueT, CurT.erase_pure]

theorem erase_decodeLoop1T : CurT.erase decodeLoop1T = Impl.V1.decodeLoop := by
  unfold decodeLoop1T Impl.V1.decodeLoop
  simp only [CurT.erase_bind, erase_decodeLoopT, CurT.erase_pure]

theorem ticks_decodeCue1T_le (bs : Bytes) : CurT.ticks decodeCue1T bs ≤ 7 :=
  CurT.ticks_bind_le _ _ bs 7 0 (ticks_decodeCueT_le bs) (fun _ _ => Nat.le_of_eq rfl)

theorem ticks_decodeLoop1T_le (bs : Bytes) : CurT.ticks decodeLoop1T bs ≤ 10 :=
  CurT.ticks_bind_le _ _ bs 10 0 (ticks_decodeLoopT_le bs) (fun _ _ => Nat.le_of_eq rfl)

/-- 1.x waveform entries: 3 / 6 `decode_uint8` calls -/
def ovwEntryT : CurT Impl.V1.Entry := do
  let a ← CurT.rd u8; let b ← CurT.rd u8; let c ← CurT.rd u8
  pure ⟨a, b, c, 255, 255, 255⟩

def hiresEntryT : CurT Impl.V1.Entry := do
  let a ← CurT.rd u8; let b ← CurT.rd u8; let c ← CurT.rd u8
  let d ← CurT.rd u8; let e ← CurT.rd u8; let f ← CurT.rd u8
  pure ⟨a, b, c, d, e, f⟩

theorem erase_ovwEntryT : CurT.erase ovwEntryT = Impl.V1.ovwEntry := by
  unfold ovwEntryT Impl.V1.ovwEntry
  simp only [CurT.erase_bind, CurT.erase_rd, CurT.erase_pure]

theorem erase_hiresEntryT : CurT.erase hiresEntryT = Impl.V1.hiresEntry := by
  unfold hiresEntryT Impl.V1.hiresEntry
  simp only [CurT.erase_bind, CurT.erase_rd, CurT.erase_pure]

theorem ticks_ovwEntryT_le (bs : Bytes) : CurT.ticks ovwEntryT bs ≤ 3 := by
  unfold ovwEntryT
  refine CurT.ticks_bind_le _ _ bs 1 2 (Nat.le_of_eq rfl) (fun _ r => ?_)
  refine CurT.ticks_bind_le _ _ r 1 1 (Nat.le_of_eq rfl) (fun _ r => ?_)
  exact CurT.ticks_bind_le _ _ r 1 0 (Nat.le_of_eq rfl) (fun _ r => Nat.le_of_eq rfl)

theorem ticks_hiresEntryT_le (bs : Bytes) : CurT.ticks hiresEntryT bs ≤ 6 := by
  unfold hiresEntryT
  refine CurT.ticks_bind_le _ _ bs 1 5 (Nat.le_of_eq rfl) (fun _ r => ?_)
  refine CurT.ticks_bind_le _ _ r 1 4 (Nat.le_of_eq rfl) (fun _ r => ?_)
  refine CurT.ticks_bind_le _ _ r 1 3 (Nat.le_of_eq rfl) (fun _ r => ?_)
  refine CurT.ticks_bind_le _ _ r 1 2 (Nat.le_of_eq rfl) (fun _ r => ?_)
  refine CurT.ticks_bind_le _ _ r 1 1 (Nat.le_of_eq rfl) (fun _ r => ?_)
  exact CurT.ticks_bind_le _ _ r 1 0 (Nat.le_of_eq rfl) (fun _ r => Nat.le_of_eq rfl)


/-! ### the decoders, statement by statement, with their tick counts -/

theorem CurT.ticks_forN_le_count {α} (body : CurT α) (k : Nat) (hk : ∀ bs, CurT.ticks body bs ≤ k)
    (n : Nat) (bs : Bytes) : CurT.ticks (CurT.forN body n) bs ≤ k * n :=
  Nat.le_trans (CurT.ticks_forN_le body k hk n bs) (Nat.mul_le_mul_left k (forNIters_le _ n bs))

theorem erase_rd_u64be {bs n r} (h8 : 8 ≤ bs.length) (h : CurT.erase (CurT.rd u64be) bs = .ok (n, r)) :
    n = u64be.get bs ∧ r = bs.drop 8 := by
  rw [CurT.erase_rd, rd_u64be_run h8] at h
  simp only [Res.ok.injEq, Prod.mk.injEq] at h
  exact ⟨h.1.symm, h.2.symm⟩

theorem erase_rd_u64le {bs n r} (h8 : 8 ≤ bs.length) (h : CurT.erase (CurT.rd u64le) bs = .ok (n, r)) :
    n = u64le.get bs ∧ r = bs.drop 8 := by
  rw [CurT.erase_rd, rd_u64le_run h8] at h
  simp only [Res.ok.injEq, Prod.mk.injEq] at h
  exact ⟨h.1.symm, h.2.symm⟩

theorem erase_remaining_ok {bs : Bytes} {rem r} (h : CurT.erase CurT.remaining bs = .ok (rem, r)) :
    rem = bs.length ∧ bs = r := by
  rw [CurT.erase_remaining, remaining_run] at h
  simp only [Res.ok.injEq, Prod.mk.injEq] at h
  exact ⟨h.1.symm, h.2⟩

/-- a count that passed `n < 0 || n > rem / w` -/
theorem count_le_of_guard (n : UInt64) (rem w : Nat) (hw : 0 < w)
    (hg : ¬ (Prim.s64 n < 0 ∨ ((rem : Int) / (w : Int)) < Prim.s64 n)) : n.toNat ≤ rem / w := by
  have h0 : ¬ Prim.s64 n < 0 := fun h => hg (Or.inl h)
  have h1 : ¬ ((rem : Int) / (w : Int)) < Prim.s64 n := fun h => hg (Or.inr h)
  rw [s64_of_nonneg n h0] at h1
  have : ((rem / w : Nat) : Int) = (rem : Int) / (w : Int) := Int.natCast_ediv rem w
  omega

/-! #### 2.x quick cues -/

def decodeCuesM : CurT (V2.Cues × Bytes) := do
  let n ← CurT.rd u64be
  let rem ← CurT.remaining
  if Prim.s64 n < 0 ∨ (rem / 13 : Int) < Prim.s64 n then CurT.throwC .invalid_argument else
  let cs ← CurT.forN decodeCueT n.toNat
  let adj ← CurT.rd u64be
  let flag ← CurT.rd u8
  let dflt ← CurT.rd u64be
  let extra ← CurT.rest
  pure (⟨cs, adj, flag != 0, dflt⟩, extra)

/-- `quick_cues_blob::from_blob` on the payload, with the number of primitive cursor actions -/
def decodeCuesT (bs : Bytes) : Res (V2.Cues × Bytes) × Nat :=
  if bs.length < 25 then (.throw .invalid_argument, 0) else
  ((CurT.erase decodeCuesM bs).bind (fun p => .ok p.1), CurT.ticks decodeCuesM bs)

theorem decodeCuesT_fst (bs : Bytes) : (decodeCuesT bs).1 = Impl.V2.decodeCues bs := by
  unfold decodeCuesT Impl.V2.decodeCues decodeCuesM
  split
  · rfl
  · simp only [CurT.erase_bind, CurT.erase_rd, CurT.erase_remaining, CurT.erase_ite, CurT.erase_throwC,
      CurT.erase_forN, erase_decodeCueT, CurT.erase_rest, CurT.erase_pure]

theorem decodeCuesT_reads (bs : Bytes) : (decodeCuesT bs).2 ≤ 7 * (bs.length / 13) + 5 := by
  unfold decodeCuesT
  split
  · exact Nat.zero_le _
  · rename_i h25
    show CurT.ticks decodeCuesM bs ≤ _
    unfold decodeCuesM
    have h8 : 8 ≤ bs.length := by omega
    have hfin : 1 + (7 * (bs.length / 13) + 4) = 7 * (bs.length / 13) + 5 := by omega
    rw [← hfin]
    refine CurT.ticks_bind_le' _ _ bs 1 _ (Nat.le_of_eq rfl) (fun n r hr => ?_)
    obtain ⟨rfl, rfl⟩ := erase_rd_u64be h8 hr
    have h0 : 0 + (7 * (bs.length / 13) + 4) = 7 * (bs.length / 13) + 4 := by omega
    rw [← h0]
    refine CurT.ticks_bind_le' _ _ _ 0 _ (Nat.le_of_eq rfl) (fun rem r hr => ?_)
    obtain ⟨rfl, rfl⟩ := erase_remaining_ok hr
    refine CurT.ticks_ite_le _ _ _ _ _ (fun _ => Nat.zero_le _) (fun hg => ?_)
    have hc := count_le_of_guard _ _ 13 (by omega) hg
    simp only [List.length_drop] at hc
    refine CurT.ticks_bind_le _ _ _ _ 4 ?_ (fun _ r => ?_)
    · have := CurT.ticks_forN_le_count decodeCueT 7 ticks_decodeCueT_le (u64be.get bs).toNat (bs.drop 8)
      have h2 : 7 * (u64be.get bs).toNat ≤ 7 * (bs.length / 13) :=
        Nat.mul_le_mul_left 7 (Nat.le_trans hc (Nat.div_le_div_right (by omega)))
      omega
    · refine CurT.ticks_bind_le _ _ r 1 3 (Nat.le_of_eq rfl) (fun _ r => ?_)
      refine CurT.ticks_bind_le _ _ r 1 2 (Nat.le_of_eq rfl) (fun _ r => ?_)
      refine CurT.ticks_bind_le _ _ r 1 1 (Nat.le_of_eq rfl) (fun _ r => ?_)
      exact CurT.ticks_bind_le _ _ r 1 0 (Nat.le_of_eq rfl) (fun _ r => Nat.le_of_eq rfl)


/-! #### 2.x loops -/

def decodeLoopsM : CurT (V2.Loops × Bytes) := do
  let n ← CurT.rd u64le
  let rem ← CurT.remaining
  if Prim.s64 n < 0 ∨ (rem / 23 : Int) < Prim.s64 n then CurT.throwC .invalid_argument else
  let ls ← CurT.forN decodeLoopT n.toNat
  let extra ← CurT.rest
  pure (ls, extra)

def decodeLoopsT (bs : Bytes) : Res (V2.Loops × Bytes) × Nat :=
  if bs.length < 8 then (.throw .invalid_argument, 0) else
  ((CurT.erase decodeLoopsM bs).bind (fun p => .ok p.1), CurT.ticks decodeLoopsM bs)

theorem decodeLoopsT_fst (bs : Bytes) : (decodeLoopsT bs).1 = Impl.V2.decodeLoops bs := by
  unfold decodeLoopsT Impl.V2.decodeLoops decodeLoopsM
  split
  · rfl
  · simp only [CurT.erase_bind, CurT.erase_rd, CurT.erase_remaining, CurT.erase_ite, CurT.erase_throwC,
      CurT.erase_forN, erase_decodeLoopT, CurT.erase_rest, CurT.erase_pure]

/-- the common part of the four cue / loop decoders: count, guard, loop, tail -/
theorem ticks_counted_le {α β} (rdCount : CurT UInt64) (getCount : Bytes → UInt64)
    (hrd : ∀ bs, CurT.ticks rdCount bs = 1)
    (hget : ∀ bs n r, 8 ≤ bs.length → CurT.erase rdCount bs = .ok (n, r) → n = getCount bs ∧ r = bs.drop 8)
    (body : CurT α) (kBody : Nat) (hbody : ∀ bs, CurT.ticks body bs ≤ kBody)
    (w : Nat) (hw : 0 < w) (tail : List α → CurT β) (kTail : Nat) (htail : ∀ l r, CurT.ticks (tail l) r ≤ kTail)
    (bs : Bytes) (h8 : 8 ≤ bs.length) :
    CurT.ticks (do
      let n ← rdCount
      let rem ← CurT.remaining
      if Prim.s64 n < 0 ∨ ((rem : Int) / (w : Int)) < Prim.s64 n then CurT.throwC .invalid_argument else
      let l ← CurT.forN body n.toNat
      tail l) bs ≤ kBody * (bs.length / w) + (1 + kTail) := by
  have hfin : 1 + (kBody * (bs.length / w) + kTail) = kBody * (bs.length / w) + (1 + kTail) := by omega
  rw [← hfin]
  refine CurT.ticks_bind_le' _ _ bs 1 _ (Nat.le_of_eq (hrd bs)) (fun n r hr => ?_)
  obtain ⟨rfl, rfl⟩ := hget bs n r h8 hr
  have h0 : 0 + (kBody * (bs.length / w) + kTail) = kBody * (bs.length / w) + kTail := by omega
  rw [← h0]
  refine CurT.ticks_bind_le' _ _ _ 0 _ (Nat.le_of_eq rfl) (fun rem r hr => ?_)
  obtain ⟨rfl, rfl⟩ := erase_remaining_ok hr
  refine CurT.ticks_ite_le _ _ _ _ _ (fun _ => Nat.zero_le _) (fun hg => ?_)
  have hc := count_le_of_guard _ _ w hw hg
  simp only [List.length_drop] at hc
  refine CurT.ticks_bind_le _ _ _ _ kTail ?_ (fun l r => htail l r)
  have := CurT.ticks_forN_le_count body kBody hbody (getCount bs).toNat (bs.drop 8)
  have h2 : kBody * (getCount bs).toNat ≤ kBody * (bs.length / w) :=
    Nat.mul_le_mul_left kBody (Nat.le_trans hc (Nat.div_le_div_right (by omega)))
  omega

theorem decodeLoopsT_reads (bs : Bytes) : (decodeLoopsT bs).2 ≤ 10 * (bs.length / 23) + 2 := by
  unfold decodeLoopsT
  split
  · exact Nat.zero_le _
  · rename_i h8
    exact ticks_counted_le (CurT.rd u64le) u64le.get (fun _ => rfl) (fun bs n r h hr => erase_rd_u64le h hr)
      decodeLoopT 10 ticks_decodeLoopT_le 23 (by omega)
      (fun ls => (do let extra ← CurT.rest; pure (ls, extra) : CurT (V2.Loops × Bytes))) 1
      (fun l r => CurT.ticks_bind_le _ _ r 1 0 (Nat.le_of_eq rfl) (fun _ _ => Nat.le_of_eq rfl))
      bs (by omega)

/-! #### 1.x quick cues and loops -/

def decodeCues1M : CurT Impl.V1.Cues := do
  let n ← CurT.rd u64be
  let rem ← CurT.remaining
  if Prim.s64 n < 0 ∨ (rem / 13 : Int) < Prim.s64 n then CurT.throwC .invalid_argument else
  let cs ← CurT.forN decodeCue1T n.toNat
  let adj ← CurT.rd u64be
  let flag ← CurT.rd u8
  let dflt ← CurT.rd u64be
  if flag.toNat > 1 ∨ (flag.toNat = 0 ∧ F64.ne adj dflt) then CurT.throwC .invalid_argument else
  let rem ← CurT.remaining
  if rem ≠ 0 then CurT.throwC .invalid_argument else
  pure (⟨cs, adj, dflt⟩ : Impl.V1.Cues)

def decodeCues1T (bs : Bytes) : Res Impl.V1.Cues × Nat :=
  if bs.length < 25 then (.throw .invalid_argument, 0) else
  ((CurT.erase decodeCues1M bs).bind (fun p => .ok p.1), CurT.ticks decodeCues1M bs)

theorem decodeCues1T_fst (bs : Bytes) : (decodeCues1T bs).1 = Impl.V1.decodeCues bs := by
  unfold decodeCues1T Impl.V1.decodeCues decodeCues1M
  split
  · rfl
  · simp only [CurT.erase_bind, CurT.erase_rd, CurT.erase_remaining, CurT.erase_ite, CurT.erase_throwC,
      CurT.erase_forN, erase_decodeCue1T, CurT.erase_pure]

theorem decodeCues1T_reads (bs : Bytes) : (decodeCues1T bs).2 ≤ 7 * (bs.length / 13) + 4 := by
  unfold decodeCues1T
  split
  · exact Nat.zero_le _
  · rename_i h25
    refine ticks_counted_le (CurT.rd u64be) u64be.get (fun _ => rfl) (fun bs n r h hr => erase_rd_u64be h hr)
      decodeCue1T 7 ticks_decodeCue1T_le 13 (by omega) _ 3 (fun cs r => ?_) bs (by omega)
    refine CurT.ticks_bind_le _ _ r 1 2 (Nat.le_of_eq rfl) (fun adj r => ?_)
    refine CurT.ticks_bind_le _ _ r 1 1 (Nat.le_of_eq rfl) (fun flag r => ?_)
    refine CurT.ticks_bind_le _ _ r 1 0 (Nat.le_of_eq rfl) (fun dflt r => ?_)
    refine CurT.ticks_ite_le _ _ _ r 0 (fun _ => Nat.le_of_eq rfl) (fun _ => ?_)
    refine CurT.ticks_bind_le _ _ r 0 0 (Nat.le_of_eq rfl) (fun rem r => ?_)
    exact CurT.ticks_ite_le _ _ _ r 0 (fun _ => Nat.le_of_eq rfl) (fun _ => Nat.le_of_eq rfl)

def decodeLoops1M : CurT Impl.V1.Loops := do
  let n ← CurT.rd u64le
  let rem ← CurT.remaining
  if Prim.s64 n < 0 ∨ (rem / 23 : Int) < Prim.s64 n then CurT.throwC .invalid_argument else
  let ls ← CurT.forN decodeLoop1T n.toNat
  let rem ← CurT.remaining
  if rem ≠ 0 then CurT.throwC .invalid_argument else
  pure ls

def decodeLoops1T (bs : Bytes) : Res Impl.V1.Loops × Nat :=
  if bs.length < 8 then (.throw .invalid_argument, 0) else
  ((CurT.erase decodeLoops1M bs).bind (fun p => .ok p.1), CurT.ticks decodeLoops1M bs)

theorem decodeLoops1T_fst (bs : Bytes) : (decodeLoops1T bs).1 = Impl.V1.decodeLoops bs := by
  unfold decodeLoops1T Impl.V1.decodeLoops decodeLoops1M
  split
  · rfl
  · simp only [CurT.erase_bind, CurT.erase_rd, CurT.erase_remaining, CurT.erase_ite, CurT.erase_throwC,
      CurT.erase_forN, erase_decodeLoop1T, CurT.erase_pure]

theorem decodeLoops1T_reads (bs : Bytes) : (decodeLoops1T bs).2 ≤ 10 * (bs.length / 23) + 1 := by
  unfold decodeLoops1T
  split
  · exact Nat.zero_le _
  · rename_i h8
    refine ticks_counted_le (CurT.rd u64le) u64le.get (fun _ => rfl) (fun bs n r h hr => erase_rd_u64le h hr)
      decodeLoop1T 10 ticks_decodeLoop1T_le 23 (by omega) _ 0 (fun ls r => ?_) bs (by omega)
    refine CurT.ticks_bind_le _ _ r 0 0 (Nat.le_of_eq rfl) (fun rem r => ?_)
    exact CurT.ticks_ite_le _ _ _ r 0 (fun _ => Nat.le_of_eq rfl) (fun _ => Nat.le_of_eq rfl)


/-! #### beat data -/

/-- 2.x `decode_beatgrid` -/
def decodeGridT : CurT (List V2.Marker) := do
  let rem ← CurT.remaining
  if rem < 8 then CurT.throwC .invalid_argument else
  let count ← CurT.rd u64be
  let rem ← CurT.remaining
  if Prim.s64 count < 0 ∨ (rem / 24 : Int) < Prim.s64 count then CurT.throwC .invalid_argument else
  CurT.forN rdMarkerT count.toNat

theorem erase_decodeGridT : CurT.erase decodeGridT = Impl.V2.decodeGrid := by
  unfold decodeGridT Impl.V2.decodeGrid
  simp only [CurT.erase_bind, CurT.erase_rd, CurT.erase_remaining, CurT.erase_ite, CurT.erase_throwC,
    CurT.erase_forN, erase_rdMarkerT]

/-- one count read and four reads per executed marker iteration -/
theorem ticks_decodeGridT_le (bs : Bytes) : CurT.ticks decodeGridT bs ≤ 1 + 4 * itersGridV2 bs := by
  unfold decodeGridT
  have h0 : 0 + (1 + 4 * itersGridV2 bs) = 1 + 4 * itersGridV2 bs := by omega
  rw [← h0]
  refine CurT.ticks_bind_le' _ _ bs 0 _ (Nat.le_of_eq rfl) (fun rem r hr => ?_)
  obtain ⟨rfl, rfl⟩ := erase_remaining_ok hr
  refine CurT.ticks_ite_le _ _ _ _ _ (fun _ => Nat.zero_le _) (fun h8 => ?_)
  have h8' : 8 ≤ bs.length := by omega
  refine CurT.ticks_bind_le' _ _ bs 1 _ (Nat.le_of_eq rfl) (fun n r hr => ?_)
  obtain ⟨rfl, rfl⟩ := erase_rd_u64be h8' hr
  have h0' : 0 + 4 * itersGridV2 bs = 4 * itersGridV2 bs := by omega
  rw [← h0']
  refine CurT.ticks_bind_le' _ _ _ 0 _ (Nat.le_of_eq rfl) (fun rem r hr => ?_)
  obtain ⟨rfl, rfl⟩ := erase_remaining_ok hr
  refine CurT.ticks_ite_le _ _ _ _ _ (fun _ => Nat.zero_le _) (fun hg => ?_)
  have hent : gridEntered bs := by
    refine ⟨h8', ?_⟩
    simpa only [List.length_drop] using hg
  have := CurT.ticks_forN_le rdMarkerT 4 ticks_rdMarkerT_le (u64be.get bs).toNat (bs.drop 8)
  rw [erase_rdMarkerT] at this
  unfold itersGridV2 gridCount
  rw [if_pos hent]
  exact this

def decodeBeatM : CurT (V2.Beat × Bytes) := do
  let sr ← CurT.rd u64be
  let n ← CurT.rd u64be
  let f ← CurT.rd u8
  let d ← decodeGridT
  let a ← decodeGridT
  let extra ← CurT.rest
  pure (⟨sr, n, f, d, a⟩, extra)

def decodeBeatT (bs : Bytes) : Res (V2.Beat × Bytes) × Nat :=
  if bs.length < 33 then (.throw .invalid_argument, 0) else
  ((CurT.erase decodeBeatM bs).bind (fun p => .ok p.1), CurT.ticks decodeBeatM bs)

theorem decodeBeatT_fst (bs : Bytes) : (decodeBeatT bs).1 = Impl.V2.decodeBeat bs := by
  unfold decodeBeatT Impl.V2.decodeBeat decodeBeatM
  split
  · rfl
  · simp only [CurT.erase_bind, CurT.erase_rd, erase_decodeGridT, CurT.erase_rest, CurT.erase_pure]

theorem erase_rd_u8 {bs : Bytes} {n r} (h1 : 1 ≤ bs.length) (h : CurT.erase (CurT.rd u8) bs = .ok (n, r)) :
    r = bs.drop 1 := by
  rw [CurT.erase_rd, rd_u8_run h1] at h
  simp only [Res.ok.injEq, Prod.mk.injEq] at h
  exact h.2.symm

theorem decodeBeatT_reads (bs : Bytes) : (decodeBeatT bs).2 ≤ 4 * (bs.length / 24) + 6 := by
  unfold decodeBeatT
  split
  · exact Nat.zero_le _
  · rename_i h33
    have hsteps := decode_steps_v2_beat bs
    unfold itersBeatV2 at hsteps
    rw [if_neg h33] at hsteps
    show CurT.ticks decodeBeatM bs ≤ _
    unfold decodeBeatM
    have e1 : 1 + (4 * (bs.length / 24) + 5) = 4 * (bs.length / 24) + 6 := by omega
    rw [← e1]
    refine CurT.ticks_bind_le' _ _ bs 1 _ (Nat.le_of_eq rfl) (fun sr r hr => ?_)
    obtain ⟨_, rfl⟩ := erase_rd_u64be (by omega) hr
    have e2 : 1 + (4 * (bs.length / 24) + 4) = 4 * (bs.length / 24) + 5 := by omega
    rw [← e2]
    refine CurT.ticks_bind_le' _ _ _ 1 _ (Nat.le_of_eq rfl) (fun n r hr => ?_)
    obtain ⟨_, rfl⟩ := erase_rd_u64be (by simp; omega) hr
    have e3 : 1 + (4 * (bs.length / 24) + 3) = 4 * (bs.length / 24) + 4 := by omega
    rw [← e3]
    refine CurT.ticks_bind_le' _ _ _ 1 _ (Nat.le_of_eq rfl) (fun f r hr => ?_)
    have hr' := erase_rd_u8 (by simp; omega) hr
    simp only [List.drop_drop, Nat.reduceAdd] at hr'
    subst hr'
    -- first grid
    cases hg1 : Impl.V2.decodeGrid (bs.drop 17) with
    | ok p =>
      obtain ⟨d, r1⟩ := p
      rw [hg1] at hsteps
      simp only [] at hsteps
      have e4 : (1 + 4 * itersGridV2 (bs.drop 17)) + (1 + 4 * itersGridV2 r1 + 1) ≤ 4 * (bs.length / 24) + 3 := by
        omega
      refine Nat.le_trans (CurT.ticks_bind_le' _ _ _ _ _ (ticks_decodeGridT_le _) (fun d' r hr => ?_)) e4
      rw [erase_decodeGridT, hg1] at hr
      simp only [Res.ok.injEq, Prod.mk.injEq] at hr
      obtain ⟨_, rfl⟩ := hr
      refine CurT.ticks_bind_le _ _ _ _ 1 (ticks_decodeGridT_le _) (fun _ r => ?_)
      exact CurT.ticks_bind_le _ _ r 1 0 (Nat.le_of_eq rfl) (fun _ _ => Nat.le_of_eq rfl)
    | throw e =>
      rw [hg1] at hsteps
      simp only [] at hsteps
      rw [CurT.ticks_bind, erase_decodeGridT, hg1]
      have := ticks_decodeGridT_le (bs.drop 17)
      simp only []
      omega
    | ub u =>
      rw [hg1] at hsteps
      simp only [] at hsteps
      rw [CurT.ticks_bind, erase_decodeGridT, hg1]
      have := ticks_decodeGridT_le (bs.drop 17)
      simp only []
      omega


/-- 1.x `decode_beatgrid` -/
def decodeGrid1T : CurT (List Impl.V1.GMarker) := do
  let rem ← CurT.remaining
  if rem < 8 then CurT.throwC .invalid_argument else
  let count ← CurT.rd u64be
  if Prim.s64 count = 0 then pure [] else
  if Prim.s64 count < 2 then CurT.throwC .invalid_argument else
  if Prim.s64 count > 32768 then CurT.throwC .invalid_argument else
  let rem ← CurT.remaining
  let need ← CurT.lift (Chk.mul64 24 (Prim.s64 count))
  if (rem : Int) < need then CurT.throwC .invalid_argument else
  let wire ← CurT.forN rdMarkerT count.toNat
  CurT.ofCur 0 (fun bs => match Impl.V1.checkWire none wire with
    | .ok g => .ok (g, bs)
    | .throw e => .throw e
    | .ub u => .ub u)

theorem erase_decodeGrid1T : CurT.erase decodeGrid1T = Impl.V1.decodeGrid := by
  unfold decodeGrid1T Impl.V1.decodeGrid
  simp only [CurT.erase_bind, CurT.erase_rd, CurT.erase_remaining, CurT.erase_ite, CurT.erase_throwC,
    CurT.erase_forN, erase_rdMarkerT, CurT.erase_lift, CurT.erase_pure]
  rfl

theorem erase_lift_mul64_ok {a b : Int} {bs : Bytes} {need r}
    (h : CurT.erase (CurT.lift (Chk.mul64 a b)) bs = .ok (need, r)) : need = a * b ∧ bs = r := by
  rw [CurT.erase_lift] at h
  unfold Chk.mul64 at h
  rcases Chk.i64_cases (a * b) with ⟨_, h1⟩ | ⟨_, h1⟩
  · rw [h1] at h
    simp only [lift_ok_run, Res.ok.injEq, Prod.mk.injEq] at h
    exact ⟨h.1.symm, h.2⟩
  · rw [h1] at h
    simp [Cur.lift] at h

theorem ticks_decodeGrid1T_le (bs : Bytes) : CurT.ticks decodeGrid1T bs ≤ 1 + 4 * itersGridV1 bs := by
  unfold decodeGrid1T
  have h0 : 0 + (1 + 4 * itersGridV1 bs) = 1 + 4 * itersGridV1 bs := by omega
  rw [← h0]
  refine CurT.ticks_bind_le' _ _ bs 0 _ (Nat.le_of_eq rfl) (fun rem r hr => ?_)
  obtain ⟨rfl, rfl⟩ := erase_remaining_ok hr
  refine CurT.ticks_ite_le _ _ _ _ _ (fun _ => Nat.zero_le _) (fun h8 => ?_)
  have h8' : 8 ≤ bs.length := by omega
  refine CurT.ticks_bind_le' _ _ bs 1 _ (Nat.le_of_eq rfl) (fun n r hr => ?_)
  obtain ⟨rfl, rfl⟩ := erase_rd_u64be h8' hr
  refine CurT.ticks_ite_le _ _ _ _ _ (fun _ => Nat.zero_le _) (fun hz => ?_)
  refine CurT.ticks_ite_le _ _ _ _ _ (fun _ => Nat.zero_le _) (fun h2 => ?_)
  refine CurT.ticks_ite_le _ _ _ _ _ (fun _ => Nat.zero_le _) (fun hb => ?_)
  have h0' : 0 + 4 * itersGridV1 bs = 4 * itersGridV1 bs := by omega
  rw [← h0']
  refine CurT.ticks_bind_le' _ _ _ 0 _ (Nat.le_of_eq rfl) (fun rem r hr => ?_)
  obtain ⟨rfl, rfl⟩ := erase_remaining_ok hr
  rw [← h0']
  refine CurT.ticks_bind_le' _ _ _ 0 _ (Nat.le_of_eq rfl) (fun need r hr => ?_)
  obtain ⟨rfl, rfl⟩ := erase_lift_mul64_ok hr
  refine CurT.ticks_ite_le _ _ _ _ _ (fun _ => Nat.zero_le _) (fun hg => ?_)
  have hent : grid1Entered bs := by
    refine ⟨h8', hz, h2, hb, ?_⟩
    simpa only [List.length_drop] using hg
  have := CurT.ticks_forN_le rdMarkerT 4 ticks_rdMarkerT_le (u64be.get bs).toNat (bs.drop 8)
  rw [erase_rdMarkerT] at this
  have hi : itersGridV1 bs = forNIters (Cur.rd V2.marker) (u64be.get bs).toNat (bs.drop 8) := by
    unfold itersGridV1 gridCount
    rw [if_pos hent]
  rw [hi]
  have e : 4 * forNIters (Cur.rd V2.marker) (u64be.get bs).toNat (bs.drop 8) =
      4 * forNIters (Cur.rd V2.marker) (u64be.get bs).toNat (bs.drop 8) + 0 := by omega
  rw [e]
  exact CurT.ticks_bind_le _ _ _ _ 0 this (fun _ _ => Nat.le_of_eq rfl)

/-- bytes examined by the trailing `while (ptr != end) { if (*ptr != 0) throw; ptr++; }` -/
def zeroScan (r : Bytes) : Nat := (r.takeWhile (· == 0)).length + (if r.all (· == 0) then 0 else 1)

theorem zeroScan_le (r : Bytes) : zeroScan r ≤ r.length := by
  unfold zeroScan
  induction r with
  | nil => simp
  | cons b t ih =>
    simp only [List.takeWhile_cons, List.all_cons, List.length_cons]
    by_cases hb : (b == 0) = true
    · simp only [hb, if_true, Bool.true_and, List.length_cons]
      omega
    · simp only [hb, Bool.false_eq_true, if_false, Bool.false_and, List.length_nil]
      omega

def beatHeadT : CurT (UInt64 × UInt64) := do
  let sr ← CurT.rd u64be
  let sc ← CurT.rd u64be
  let _flag ← CurT.rd u8
  pure (sr, sc)

/-- 1.x `beat_data::decode` on the payload, with the number of primitive cursor actions (the `try … catch`
keeps the reads made before the exception; the trailer loop reads `zeroScan` bytes) -/
def decodeBeat1T (bs : Bytes) : Res Impl.V1.Beat × Nat :=
  if bs.length < 33 then (.throw .invalid_argument, 0) else
  match CurT.erase beatHeadT bs with
  | .throw e => (.throw e, CurT.ticks beatHeadT bs)
  | .ub u => (.ub u, CurT.ticks beatHeadT bs)
  | .ok ((sr, sc), r0) =>
    let k := CurT.ticks beatHeadT bs
    let k1 := CurT.ticks decodeGrid1T r0
    match CurT.erase decodeGrid1T r0 with
    | .ub u => (.ub u, k + k1)
    | .throw _ =>
      (if !Impl.V1.allZero r0 then .throw .invalid_argument else
        .ok ⟨if F64.isZero sr then none else some sr, if F64.isZero sc then none else some sc, [], []⟩,
       k + k1 + zeroScan r0)
    | .ok (d, r1) =>
      let k2 := CurT.ticks decodeGrid1T r1
      match CurT.erase decodeGrid1T r1 with
      | .ub u => (.ub u, k + k1 + k2)
      | .throw _ =>
        (if !Impl.V1.allZero r1 then .throw .invalid_argument else
          .ok ⟨if F64.isZero sr then none else some sr, if F64.isZero sc then none else some sc, [], []⟩,
         k + k1 + k2 + zeroScan r1)
      | .ok (a, r2) =>
        (if !Impl.V1.allZero r2 then .throw .invalid_argument else
          .ok ⟨if F64.isZero sr then none else some sr, if F64.isZero sc then none else some sc, d, a⟩,
         k + k1 + k2 + zeroScan r2)

theorem erase_beatHeadT : CurT.erase beatHeadT =
    (do let sr ← Cur.rd u64be; let sc ← Cur.rd u64be; let _flag ← Cur.rd u8; pure (sr, sc) : Cur (UInt64 × UInt64)) := by
  unfold beatHeadT
  simp only [CurT.erase_bind, CurT.erase_rd, CurT.erase_pure]

theorem decodeBeat1T_fst (bs : Bytes) : (decodeBeat1T bs).1 = Impl.V1.decodeBeat bs := by
  unfold decodeBeat1T Impl.V1.decodeBeat
  split
  · rfl
  · rw [erase_beatHeadT, erase_decodeGrid1T]
    cases hh : (do let sr ← Cur.rd u64be; let sc ← Cur.rd u64be; let _flag ← Cur.rd u8; pure (sr, sc) :
        Cur (UInt64 × UInt64)) bs with
    | throw e => rfl
    | ub u => rfl
    | ok p =>
      obtain ⟨⟨sr, sc⟩, r0⟩ := p
      simp only []
      cases hg1 : Impl.V1.decodeGrid r0 with
      | ub u => rfl
      | throw e => rfl
      | ok q =>
        obtain ⟨d, r1⟩ := q
        simp only []
        cases hg2 : Impl.V1.decodeGrid r1 with
        | ub u => rfl
        | throw e => rfl
        | ok q2 => obtain ⟨a, r2⟩ := q2; rfl


theorem beatHead_run (bs : Bytes) (h : 17 ≤ bs.length) :
    CurT.erase beatHeadT bs = .ok ((u64be.get bs, u64be.get (bs.drop 8)), bs.drop 17) := by
  rw [erase_beatHeadT]
  have r1 := rd_u64be_run (bs := bs) (by omega)
  have r2 := rd_u64be_run (bs := bs.drop 8) (by simp; omega)
  have r3 := rd_u8_run (bs := bs.drop 16) (by simp; omega)
  simp only [List.drop_drop, Nat.reduceAdd] at r2 r3
  simp only [bind_run, r1, r2, r3, pure_run]

theorem ticks_beatHeadT_le (bs : Bytes) : CurT.ticks beatHeadT bs ≤ 3 := by
  unfold beatHeadT
  refine CurT.ticks_bind_le _ _ bs 1 2 (Nat.le_of_eq rfl) (fun _ r => ?_)
  refine CurT.ticks_bind_le _ _ r 1 1 (Nat.le_of_eq rfl) (fun _ r => ?_)
  exact CurT.ticks_bind_le _ _ r 1 0 (Nat.le_of_eq rfl) (fun _ r => Nat.le_of_eq rfl)

theorem decodeBeat1T_reads (bs : Bytes) : (decodeBeat1T bs).2 ≤ 4 * (bs.length / 24) + bs.length + 5 := by
  unfold decodeBeat1T
  split
  · exact Nat.zero_le _
  · rename_i h33
    have hsteps := decode_steps_v1_beat bs
    unfold itersBeatV1 at hsteps
    rw [if_neg h33] at hsteps
    have hk := ticks_beatHeadT_le bs
    have hl0 : (bs.drop 17).length = bs.length - 17 := List.length_drop
    rw [beatHead_run bs (by omega)]
    simp only []
    have hk1 := ticks_decodeGrid1T_le (bs.drop 17)
    rw [erase_decodeGrid1T]
    cases hg1 : Impl.V1.decodeGrid (bs.drop 17) with
    | ub u =>
      rw [hg1] at hsteps
      simp only [] at hsteps ⊢
      omega
    | throw e =>
      rw [hg1] at hsteps
      simp only [] at hsteps ⊢
      have := zeroScan_le (bs.drop 17)
      omega
    | ok q =>
      obtain ⟨d, r1⟩ := q
      rw [hg1] at hsteps
      simp only [] at hsteps ⊢
      have hc1 := decodeGrid1_consumes _ _ _ hg1
      have hk2 := ticks_decodeGrid1T_le r1
      cases hg2 : Impl.V1.decodeGrid r1 with
      | ub u => simp only []; omega
      | throw e =>
        simp only []
        have := zeroScan_le r1
        omega
      | ok q2 =>
        obtain ⟨a, r2⟩ := q2
        simp only []
        have hc2 := decodeGrid1_consumes _ _ _ hg2
        have := zeroScan_le r2
        omega

/-! #### waveforms -/

def decodeOvwM : CurT (V2.Ovw × Bytes) := do
  let n1 ← CurT.rd u64be
  let n2 ← CurT.rd u64be
  let spp ← CurT.rd u64be
  if n1 ≠ n2 then CurT.throwC .invalid_argument else
  let rem ← CurT.remaining
  if Prim.s64 n1 < 0 ∨ (rem / 3 : Int) < Prim.s64 n1 then CurT.throwC .invalid_argument else
  let n1p ← CurT.lift (Chk.add64 (Prim.s64 n1) 1)
  let need ← CurT.lift (Chk.mul64 3 n1p)
  if (rem : Int) < need then CurT.throwC .invalid_argument else
  let pts ← CurT.takeN (3 * n1.toNat)
  let mx ← CurT.takeN 3
  let extra ← CurT.rest
  pure (⟨spp, pts, mx⟩, extra)

/-- 2.x `overview_waveform_data_blob::from_blob`: no loop in the Model (the points are one bulk copy) -/
def decodeOvwT (bs : Bytes) : Res (V2.Ovw × Bytes) × Nat :=
  if bs.length < 27 then (.throw .invalid_argument, 0) else
  ((CurT.erase decodeOvwM bs).bind (fun p => .ok p.1), CurT.ticks decodeOvwM bs)

theorem decodeOvwT_fst (bs : Bytes) : (decodeOvwT bs).1 = Impl.V2.decodeOvw bs := by
  unfold decodeOvwT Impl.V2.decodeOvw decodeOvwM
  split
  · rfl
  · simp only [CurT.erase_bind, CurT.erase_rd, CurT.erase_remaining, CurT.erase_ite, CurT.erase_throwC,
      CurT.erase_lift, CurT.erase_takeN, CurT.erase_rest, CurT.erase_pure]

theorem decodeOvwT_reads (bs : Bytes) : (decodeOvwT bs).2 ≤ 6 := by
  unfold decodeOvwT
  split
  · exact Nat.zero_le _
  · show CurT.ticks decodeOvwM bs ≤ 6
    unfold decodeOvwM
    refine CurT.ticks_bind_le _ _ bs 1 5 (Nat.le_of_eq rfl) (fun _ r => ?_)
    refine CurT.ticks_bind_le _ _ r 1 4 (Nat.le_of_eq rfl) (fun _ r => ?_)
    refine CurT.ticks_bind_le _ _ r 1 3 (Nat.le_of_eq rfl) (fun _ r => ?_)
    refine CurT.ticks_ite_le _ _ _ r 3 (fun _ => Nat.zero_le _) (fun _ => ?_)
    refine CurT.ticks_bind_le _ _ r 0 3 (Nat.le_of_eq rfl) (fun _ r => ?_)
    refine CurT.ticks_ite_le _ _ _ r 3 (fun _ => Nat.zero_le _) (fun _ => ?_)
    refine CurT.ticks_bind_le _ _ r 0 3 (Nat.le_of_eq rfl) (fun _ r => ?_)
    refine CurT.ticks_bind_le _ _ r 0 3 (Nat.le_of_eq rfl) (fun _ r => ?_)
    refine CurT.ticks_ite_le _ _ _ r 3 (fun _ => Nat.zero_le _) (fun _ => ?_)
    refine CurT.ticks_bind_le _ _ r 1 2 (Nat.le_of_eq rfl) (fun _ r => ?_)
    refine CurT.ticks_bind_le _ _ r 1 1 (Nat.le_of_eq rfl) (fun _ r => ?_)
    exact CurT.ticks_bind_le _ _ r 1 0 (Nat.le_of_eq rfl) (fun _ r => Nat.le_of_eq rfl)

def decodeWaveM (w : Nat) (entry : CurT Impl.V1.Entry) : CurT Impl.V1.Wave := do
  let n1 ← CurT.rd u64be
  let n2 ← CurT.rd u64be
  let spe ← CurT.rd u64be
  if n1 ≠ n2 then CurT.throwC .invalid_argument else
  let rem ← CurT.remaining
  if Prim.s64 n1 < 0 ∨ (rem / w : Int) < Prim.s64 n1 then CurT.throwC .invalid_argument else
  let n1p ← CurT.lift (Chk.add64 (Prim.s64 n1) 1)
  let need ← CurT.lift (Chk.mul64 (w : Int) n1p)
  if (rem : Int) ≠ need then CurT.throwC .invalid_argument else
  let es ← CurT.forN entry n1.toNat
  let _ ← CurT.takeN w
  let rem ← CurT.remaining
  if rem ≠ 0 then CurT.throwC .runtime_error else
  pure (⟨spe, es⟩ : Impl.V1.Wave)

/-- 1.x waveform decoders (`w` = 3 overview, 6 high resolution) -/
def decodeWaveT (minLen w : Nat) (entry : CurT Impl.V1.Entry) (bs : Bytes) : Res Impl.V1.Wave × Nat :=
  if bs.length < minLen then (.throw .invalid_argument, 0) else
  ((CurT.erase (decodeWaveM w entry) bs).bind (fun p => .ok p.1), CurT.ticks (decodeWaveM w entry) bs)

theorem decodeWaveT_fst (minLen w : Nat) (entry : CurT Impl.V1.Entry) (bs : Bytes) :
    (decodeWaveT minLen w entry bs).1 = Impl.V1.decodeWave minLen w (CurT.erase entry) bs := by
  unfold decodeWaveT Impl.V1.decodeWave decodeWaveM
  split
  · rfl
  · simp only [CurT.erase_bind, CurT.erase_rd, CurT.erase_remaining, CurT.erase_ite, CurT.erase_throwC,
      CurT.erase_lift, CurT.erase_takeN, CurT.erase_forN, CurT.erase_pure]

theorem decodeWaveT_reads (minLen w : Nat) (hm : 24 ≤ minLen) (hw : 0 < w) (entry : CurT Impl.V1.Entry) (k : Nat)
    (hk : ∀ bs, CurT.ticks entry bs ≤ k) (bs : Bytes) :
    (decodeWaveT minLen w entry bs).2 ≤ k * (bs.length / w) + 4 := by
  unfold decodeWaveT
  split
  · exact Nat.zero_le _
  · rename_i hmin
    show CurT.ticks (decodeWaveM w entry) bs ≤ _
    unfold decodeWaveM
    have e1 : 1 + (k * (bs.length / w) + 3) = k * (bs.length / w) + 4 := by omega
    rw [← e1]
    refine CurT.ticks_bind_le' _ _ bs 1 _ (Nat.le_of_eq rfl) (fun n1 r hr => ?_)
    obtain ⟨rfl, rfl⟩ := erase_rd_u64be (by omega) hr
    have e2 : 1 + (k * (bs.length / w) + 2) = k * (bs.length / w) + 3 := by omega
    rw [← e2]
    refine CurT.ticks_bind_le' _ _ _ 1 _ (Nat.le_of_eq rfl) (fun n2 r hr => ?_)
    obtain ⟨_, rfl⟩ := erase_rd_u64be (by simp; omega) hr
    have e3 : 1 + (k * (bs.length / w) + 1) = k * (bs.length / w) + 2 := by omega
    rw [← e3]
    refine CurT.ticks_bind_le' _ _ _ 1 _ (Nat.le_of_eq rfl) (fun spe r hr => ?_)
    obtain ⟨_, rfl⟩ := erase_rd_u64be (by simp; omega) hr
    refine CurT.ticks_ite_le _ _ _ _ _ (fun _ => Nat.zero_le _) (fun _ => ?_)
    have e0 : 0 + (k * (bs.length / w) + 1) = k * (bs.length / w) + 1 := by omega
    rw [← e0]
    refine CurT.ticks_bind_le' _ _ _ 0 _ (Nat.le_of_eq rfl) (fun rem r hr => ?_)
    obtain ⟨rfl, rfl⟩ := erase_remaining_ok hr
    refine CurT.ticks_ite_le _ _ _ _ _ (fun _ => Nat.zero_le _) (fun hg => ?_)
    have hc := count_le_of_guard _ _ w hw hg
    simp only [List.length_drop] at hc
    rw [← e0]
    refine CurT.ticks_bind_le _ _ _ 0 _ (Nat.le_of_eq rfl) (fun _ r => ?_)
    rw [← e0]
    refine CurT.ticks_bind_le _ _ _ 0 _ (Nat.le_of_eq rfl) (fun _ r => ?_)
    refine CurT.ticks_ite_le _ _ _ _ _ (fun _ => Nat.zero_le _) (fun _ => ?_)
    refine CurT.ticks_bind_le _ _ _ _ 1 ?_ (fun _ r => ?_)
    · have := CurT.ticks_forN_le_count entry k hk (u64be.get bs).toNat r
      have h2 : k * (u64be.get bs).toNat ≤ k * (bs.length / w) :=
        Nat.mul_le_mul_left k (Nat.le_trans hc (Nat.div_le_div_right (by omega)))
      omega
    · refine CurT.ticks_bind_le _ _ r 1 0 (Nat.le_of_eq rfl) (fun _ r => ?_)
      refine CurT.ticks_bind_le _ _ r 0 0 (Nat.le_of_eq rfl) (fun _ r => ?_)
      exact CurT.ticks_ite_le _ _ _ r 0 (fun _ => Nat.le_of_eq rfl) (fun _ => Nat.le_of_eq rfl)

/-! #### track data (no loop) -/

def decodeTrackM : CurT (V2.Track × Bytes) := do
  let sr ← CurT.rd u64be
  let n ← CurT.rd u64be
  let k ← CurT.rd u32be
  let lo ← CurT.rd u64be
  let mid ← CurT.rd u64be
  let hi ← CurT.rd u64be
  let extra ← CurT.rest
  pure (⟨sr, n, k, lo, mid, hi⟩, extra)

def decodeTrackT (bs : Bytes) : Res (V2.Track × Bytes) × Nat :=
  if bs.length < 44 then (.throw .invalid_argument, 0) else
  ((CurT.erase decodeTrackM bs).bind (fun p => .ok p.1), CurT.ticks decodeTrackM bs)

theorem decodeTrackT_fst (bs : Bytes) : (decodeTrackT bs).1 = Impl.V2.decodeTrack bs := by
  unfold decodeTrackT Impl.V2.decodeTrack decodeTrackM
  split
  · rfl
  · simp only [CurT.erase_bind, CurT.erase_rd, CurT.erase_rest, CurT.erase_pure]

theorem decodeTrackT_reads (bs : Bytes) : (decodeTrackT bs).2 ≤ 7 := by
  unfold decodeTrackT
  split
  · exact Nat.zero_le _
  · show CurT.ticks decodeTrackM bs ≤ 7
    unfold decodeTrackM
    refine CurT.ticks_bind_le _ _ bs 1 6 (Nat.le_of_eq rfl) (fun _ r => ?_)
    refine CurT.ticks_bind_le _ _ r 1 5 (Nat.le_of_eq rfl) (fun _ r => ?_)
    refine CurT.ticks_bind_le _ _ r 1 4 (Nat.le_of_eq rfl) (fun _ r => ?_)
    refine CurT.ticks_bind_le _ _ r 1 3 (Nat.le_of_eq rfl) (fun _ r => ?_)
    refine CurT.ticks_bind_le _ _ r 1 2 (Nat.le_of_eq rfl) (fun _ r => ?_)
    refine CurT.ticks_bind_le _ _ r 1 1 (Nat.le_of_eq rfl) (fun _ r => ?_)
    exact CurT.ticks_bind_le _ _ r 1 0 (Nat.le_of_eq rfl) (fun _ r => Nat.le_of_eq rfl)

def decodeTrack1M : CurT Impl.V1.Track := do
  let sr ← CurT.rd u64be
  let n ← CurT.rd u64be
  let loud ← CurT.rd u64be
  let k ← CurT.rd u32be
  let rem ← CurT.remaining
  if rem ≠ 0 then CurT.throwC .runtime_error else
  pure (⟨if F64.isZero sr then none else some sr, if n = 0 then none else some n,
    if F64.isZero loud then none else some loud, if k = 0 then none else some k⟩ : Impl.V1.Track)

def decodeTrack1T (bs : Bytes) : Res Impl.V1.Track × Nat :=
  if bs.length ≠ 28 then (.throw .invalid_argument, 0) else
  ((CurT.erase decodeTrack1M bs).bind (fun p => .ok p.1), CurT.ticks decodeTrack1M bs)

theorem decodeTrack1T_fst (bs : Bytes) : (decodeTrack1T bs).1 = Impl.V1.decodeTrack bs := by
  unfold decodeTrack1T Impl.V1.decodeTrack decodeTrack1M
  split
  · rfl
  · simp only [CurT.erase_bind, CurT.erase_rd, CurT.erase_remaining, CurT.erase_ite, CurT.erase_throwC,
      CurT.erase_pure]

theorem decodeTrack1T_reads (bs : Bytes) : (decodeTrack1T bs).2 ≤ 4 := by
  unfold decodeTrack1T
  split
  · exact Nat.zero_le _
  · show CurT.ticks decodeTrack1M bs ≤ 4
    unfold decodeTrack1M
    refine CurT.ticks_bind_le _ _ bs 1 3 (Nat.le_of_eq rfl) (fun _ r => ?_)
    refine CurT.ticks_bind_le _ _ r 1 2 (Nat.le_of_eq rfl) (fun _ r => ?_)
    refine CurT.ticks_bind_le _ _ r 1 1 (Nat.le_of_eq rfl) (fun _ r => ?_)
    refine CurT.ticks_bind_le _ _ r 1 0 (Nat.le_of_eq rfl) (fun _ r => ?_)
    refine CurT.ticks_bind_le _ _ r 0 0 (Nat.le_of_eq rfl) (fun _ r => ?_)
    exact CurT.ticks_ite_le _ _ _ r 0 (fun _ => Nat.le_of_eq rfl) (fun _ => Nat.le_of_eq rfl)

end Reads
end EngineModel
