/-
C05 "decoders terminate promptly": from loop-body executions (Proofs/DecodeSteps.lean) to
CURSOR READS.

Part A (semantic, on the Model's own loop bodies).  Each iteration of each count-prefixed
loop either returns having advanced the cursor by EXACTLY its record size — 13 + label bytes
for a quick cue, 23 + label bytes for a loop, 24 for a beat-grid marker, 3 / 6 for an
overview / high-resolution waveform entry — or throws `invalid_argument`, or (only when fewer
bytes than one primitive are left, which the decoders' guards exclude) is an out-of-bounds
read.  A completed loop has consumed exactly the sum of its record sizes (`forN_consumes_exact`).

Part B (instrumented).  `CurT` is the cursor monad with a counter of primitive cursor actions:
one tick per `decode_uint8 / int32 / int64 / double` call and per bulk copy (`string::assign`
of a label, `decode_extra`, `memcpy` of waveform points); pointer arithmetic (`end - ptr`) and
comparisons are free.  Every loop body and every one of the eleven payload decoders is written
once more in `CurT` with the same statements, and proved to ERASE to the Model decoder
(`erase_*`: dropping the counter gives exactly `Impl.V2.* / Impl.V1.*`, on every input), so the
tick count is a count of what the Model really does.  Composite reads of the Model (`rd
marker`, `rd color`) are expanded into the primitive calls the C++ makes (4 each), which the
erasure theorem justifies.  Then:

 * per iteration: at most 7 primitive reads for a quick cue, 10 for a loop, 4 for a marker,
   3 / 6 for a waveform entry (`ticks_*_le`);
 * per decoder: `reads bs ≤ K · (bs.length / w) + c` with the constants of `decode_reads_*`.
-/
import Proofs.DecodeSteps
set_option linter.unusedSimpArgs false
set_option linter.unusedVariables false

namespace EngineModel
namespace Reads
open Codec Cur Steps

/-! ## Part A — every iteration consumes exactly its record size, or does not return -/

/-- A completed loop whose body advances the cursor by exactly `size a` has advanced it by the
sum of the sizes, and has produced `n` entries. -/
theorem forN_consumes_exact {α} {body : Cur α} {size : α → Nat}
    (hb : ∀ bs a r, body bs = .ok (a, r) → r = bs.drop (size a) ∧ size a ≤ bs.length) :
    ∀ (n : Nat) (bs : Bytes) (l : List α) (r : Bytes), forN body n bs = .ok (l, r) →
      r = bs.drop (l.map size).sum ∧ (l.map size).sum ≤ bs.length ∧ l.length = n := by
  intro n
  induction n with
  | zero =>
    intro bs l r h
    simp only [forN, pure_run, Res.ok.injEq, Prod.mk.injEq] at h
    obtain ⟨rfl, rfl⟩ := h
    simp
  | succ n ih =>
    intro bs l r h
    simp only [forN, bind_run] at h
    cases hb1 : body bs with
    | ok p =>
      obtain ⟨a, r1⟩ := p
      rw [hb1] at h
      simp only [] at h
      cases hf : forN body n r1 with
      | ok q =>
        obtain ⟨l', r'⟩ := q
        rw [hf] at h
        simp only [pure_run, Res.ok.injEq, Prod.mk.injEq] at h
        obtain ⟨rfl, rfl⟩ := h
        obtain ⟨h1, h1'⟩ := hb bs a r1 hb1
        obtain ⟨h2, h3, h4⟩ := ih r1 l' r' hf
        subst h1
        simp only [List.length_drop] at h3
        refine ⟨?_, ?_, ?_⟩
        · rw [h2, List.drop_drop, List.map_cons, List.sum_cons]
        · simp only [List.map_cons, List.sum_cons]; omega
        · simp [h4]
      | throw e => rw [hf] at h; simp at h
      | ub u => rw [hf] at h; simp at h
    | throw e => rw [hb1] at h; simp at h
    | ub u => rw [hb1] at h; simp at h

theorem drop_of_append {bs e r : Bytes} (h : bs = e ++ r) : r = bs.drop e.length ∧ e.length ≤ bs.length := by
  subst h; simp

/-- 2.x loop entry: returns with the cursor advanced by exactly 23 + label bytes, or throws. -/
theorem decodeLoop_iter (bs : Bytes) :
    (∃ l, Impl.V2.decodeLoop bs = .ok (l, bs.drop (23 + l.label.length)) ∧ 23 + l.label.length ≤ bs.length) ∨
    Impl.V2.decodeLoop bs = .throw .invalid_argument := by
  rw [Impl.V2.decodeLoop_eq]
  unfold liftDec
  cases hd : V2.loop.dec bs with
  | none => right; rfl
  | some p =>
    obtain ⟨l, r⟩ := p
    left
    have e := (V2.loop_exact bs l r hd).2
    obtain ⟨h1, h2⟩ := drop_of_append e
    rw [Impl.V2.loop_enc_length] at h1 h2
    exact ⟨l, by rw [← h1], h2⟩

theorem decodeLoop_consumes (bs : Bytes) (l : V2.Loop) (r : Bytes) (h : Impl.V2.decodeLoop bs = .ok (l, r)) :
    r = bs.drop (23 + l.label.length) ∧ 23 + l.label.length ≤ bs.length := by
  rcases decodeLoop_iter bs with ⟨l', h1, h2⟩ | h1
  · rw [h1] at h
    simp only [Res.ok.injEq, Prod.mk.injEq] at h
    obtain ⟨rfl, rfl⟩ := h
    exact ⟨rfl, h2⟩
  · rw [h1] at h; simp at h

/-- 2.x quick cue: returns with the cursor advanced by exactly 13 + label bytes (and the 17 bytes
of the trailer still ahead), or throws; an out-of-bounds read only on an empty remainder. -/
theorem decodeCue_iter (bs : Bytes) :
    (∃ q, Impl.V2.decodeCue bs = .ok (q, bs.drop (13 + q.label.length)) ∧
        13 + q.label.length + 17 ≤ bs.length) ∨
    Impl.V2.decodeCue bs = .throw .invalid_argument ∨
    (bs = [] ∧ Impl.V2.decodeCue bs = .ub .oob_read) := by
  cases bs with
  | nil => right; right; exact ⟨rfl, rfl⟩
  | cons b t =>
    rw [Impl.V2.decodeCue_run (b :: t) (by simp)]
    cases hd : V2.cue.dec (b :: t) with
    | none => right; left; rfl
    | some p =>
      obtain ⟨q, r⟩ := p
      simp only []
      by_cases h17 : 17 ≤ r.length
      · left
        have e := (V2.cue_exact _ q r hd).2
        obtain ⟨h1, h2⟩ := drop_of_append e
        rw [Impl.V2.cue_enc_length] at h1 h2
        refine ⟨q, by simp only [h17, if_true]; rw [← h1], ?_⟩
        have : (b :: t).length = (V2.cue.enc q ++ r).length := congrArg List.length e
        rw [List.length_append, Impl.V2.cue_enc_length] at this
        omega
      · right; left; simp only [h17, if_false]

theorem decodeCue_consumes (bs : Bytes) (q : V2.Cue) (r : Bytes) (h : Impl.V2.decodeCue bs = .ok (q, r)) :
    r = bs.drop (13 + q.label.length) ∧ 13 + q.label.length ≤ bs.length := by
  rcases decodeCue_iter bs with ⟨q', h1, h2⟩ | h1 | ⟨_, h1⟩
  · rw [h1] at h
    simp only [Res.ok.injEq, Prod.mk.injEq] at h
    obtain ⟨rfl, rfl⟩ := h
    exact ⟨rfl, by omega⟩
  · rw [h1] at h; simp at h
  · rw [h1] at h; simp at h

/-- A primitive or composite read of a fixed-width codec: `w` bytes or out of bounds. -/
theorem rd_fixed_iter {α} {c : Codec α} {P : α → Prop} (hx : c.Exact P) {w : Nat}
    (hw : ∀ a, (c.enc a).length = w) (bs : Bytes) :
    (∃ a, rd c bs = .ok (a, bs.drop w) ∧ w ≤ bs.length) ∨ rd c bs = .ub .oob_read := by
  unfold rd
  cases hd : c.dec bs with
  | none => right; rfl
  | some p =>
    obtain ⟨a, r⟩ := p
    left
    obtain ⟨h1, h2⟩ := drop_of_append (hx bs a r hd).2
    rw [hw] at h1 h2
    exact ⟨a, by rw [← h1], h2⟩

/-- beat-grid marker (both generations): exactly 24 bytes, or out of bounds -/
theorem marker_iter (bs : Bytes) :
    (∃ m, rd V2.marker bs = .ok (m, bs.drop 24) ∧ 24 ≤ bs.length) ∨ rd V2.marker bs = .ub .oob_read :=
  rd_fixed_iter V2.marker_exact V2.marker_enc_length bs

theorem marker_consumes (bs : Bytes) (m : V2.Marker) (r : Bytes) (h : rd V2.marker bs = .ok (m, r)) :
    r = bs.drop 24 ∧ 24 ≤ bs.length := by
  rcases marker_iter bs with ⟨m', h1, h2⟩ | h1
  · rw [h1] at h
    simp only [Res.ok.injEq, Prod.mk.injEq] at h
    exact ⟨h.2.symm, h2⟩
  · rw [h1] at h; simp at h

/-- 1.x overview waveform entry: exactly 3 bytes, or out of bounds -/
theorem ovwEntry_iter (bs : Bytes) :
    (∃ e, Impl.V1.ovwEntry bs = .ok (e, bs.drop 3) ∧ 3 ≤ bs.length) ∨ Impl.V1.ovwEntry bs = .ub .oob_read := by
  unfold Impl.V1.ovwEntry
  match bs with
  | a :: b :: c :: t => left; exact ⟨_, rfl, by simp⟩
  | [] => right; rfl
  | [a] => right; rfl
  | [a, b] => right; rfl

/-- 1.x high-resolution waveform entry: exactly 6 bytes, or out of bounds -/
theorem hiresEntry_iter (bs : Bytes) :
    (∃ e, Impl.V1.hiresEntry bs = .ok (e, bs.drop 6) ∧ 6 ≤ bs.length) ∨ Impl.V1.hiresEntry bs = .ub .oob_read := by
  unfold Impl.V1.hiresEntry
  match bs with
  | a :: b :: c :: d :: e :: f :: t => left; exact ⟨_, rfl, by simp⟩
  | [] => right; rfl
  | [a] => right; rfl
  | [a, b] => right; rfl
  | [a, b, c] => right; rfl
  | [a, b, c, d] => right; rfl
  | [a, b, c, d, e] => right; rfl

/-- 1.x loop entry = the 2.x wire entry read as present / absent: same cursor movement. -/
theorem decodeLoop1_iter (bs : Bytes) :
    (∃ l o, Impl.V2.decodeLoop bs = .ok (l, bs.drop (23 + l.label.length)) ∧
        Impl.V1.decodeLoop bs = .ok (o, bs.drop (23 + l.label.length)) ∧ 23 + l.label.length ≤ bs.length) ∨
    Impl.V1.decodeLoop bs = .throw .invalid_argument := by
  unfold Impl.V1.decodeLoop
  simp only [bind_run]
  rcases decodeLoop_iter bs with ⟨l, h1, h2⟩ | h1
  · left; exact ⟨l, _, h1, by rw [h1]; rfl, h2⟩
  · right; rw [h1]

theorem decodeCue1_iter (bs : Bytes) :
    (∃ q o, Impl.V2.decodeCue bs = .ok (q, bs.drop (13 + q.label.length)) ∧
        Impl.V1.decodeCue bs = .ok (o, bs.drop (13 + q.label.length)) ∧ 13 + q.label.length + 17 ≤ bs.length) ∨
    Impl.V1.decodeCue bs = .throw .invalid_argument ∨
    (bs = [] ∧ Impl.V1.decodeCue bs = .ub .oob_read) := by
  unfold Impl.V1.decodeCue
  simp only [bind_run]
  rcases decodeCue_iter bs with ⟨q, h1, h2⟩ | h1 | ⟨h0, h1⟩
  · left; exact ⟨q, _, h1, by rw [h1]; rfl, h2⟩
  · right; left; rw [h1]
  · right; right; exact ⟨h0, by rw [h1]⟩

end Reads
end EngineModel
