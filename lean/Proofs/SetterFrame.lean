/-
C04, the frame half: every read-modify-write setter of `v2::track_impl`
(`applySetter`) leaves the stored bytes of every performance-data column it
does not name untouched, and inside the column(s) it does name only the bytes of
the named field(s) may differ.  The stored payload of a column is the Spec
encoding (`Format/V2.lean`) of its decoded value followed by the trailing
`extra_data`.
-/
import EngineModel.TracksV2.Lens
import Proofs.ImplV2Lists
set_option linter.unusedSimpArgs false
set_option linter.unusedVariables false

namespace EngineModel
namespace SetterFrame

open Codec

/-! ### payloads -/

def payloadTrack (r : TracksV2.Row) : Bytes := V2.track.enc r.trackData.1 ++ r.trackData.2
def payloadOvw   (r : TracksV2.Row) : Bytes := V2.ovw.enc r.ovw.1 ++ r.ovw.2
def payloadBeat  (r : TracksV2.Row) : Bytes := V2.beat.enc r.beat.1 ++ r.beat.2
def payloadCues  (r : TracksV2.Row) : Bytes := V2.cues.enc r.cues.1 ++ r.cues.2
def payloadLoops (r : TracksV2.Row) : Bytes := V2.loops.enc r.loops.1 ++ r.loops.2

/-- two byte strings of equal length that agree outside the byte range [a, b) -/
def AgreeOutside (a b : Nat) (p q : Bytes) : Prop :=
  p.length = q.length ∧ p.take a = q.take a ∧ p.drop b = q.drop b

/-! ### generic list / encoder facts -/

theorem encL_append {α} (c : Codec α) (l₁ l₂ : List α) :
    encL c (l₁ ++ l₂) = encL c l₁ ++ encL c l₂ := by
  induction l₁ with
  | nil => rfl
  | cons a l ih => simp only [List.cons_append, encL, ih, List.append_assoc]

/-- the encoding of a list, cut at the entry of slot `k` -/
theorem encL_split {α} (c : Codec α) (l : List α) (k : Nat) (h : k < l.length) :
    encL c l = encL c (l.take k) ++ c.enc l[k] ++ encL c (l.drop (k + 1)) := by
  have e : l = l.take k ++ (l[k] :: l.drop (k + 1)) := by
    rw [← List.drop_eq_getElem_cons h, List.take_append_drop]
  have e2 : encL c l = encL c (l.take k ++ (l[k] :: l.drop (k + 1))) := by rw [← e]
  rw [e2, encL_append]
  simp only [encL, List.append_assoc]

/-- … and of the list with slot `k` replaced: only the middle part differs -/
theorem encL_set {α} (c : Codec α) (l : List α) (k : Nat) (x : α) (h : k < l.length) :
    encL c (l.set k x) = encL c (l.take k) ++ c.enc x ++ encL c (l.drop (k + 1)) := by
  rw [List.set_eq_take_append_cons_drop, if_pos h, encL_append]
  simp only [encL, List.append_assoc]

theorem agree_mid (pre mid mid' post : Bytes) (a b : Nat) (ha : pre.length = a)
    (hb : a + mid.length = b) (hm : mid.length = mid'.length) :
    AgreeOutside a b (pre ++ mid ++ post) (pre ++ mid' ++ post) := by
  refine ⟨by simp [hm], ?_, ?_⟩
  · rw [List.append_assoc, List.append_assoc, List.take_left' ha, List.take_left' ha]
  · rw [List.drop_left' (by simp; omega), List.drop_left' (by simp; omega)]

/-! ### the layouts, as concatenations (definitional) -/

theorem cues_enc_eq (v : V2.Cues) :
    V2.cues.enc v = u64be.enc (UInt64.ofNat v.cues.length) ++ encL V2.cue v.cues ++
      Impl.V2.cuesTail.enc (v.adjMain, (if v.isAdj then 1 else 0), v.defMain) := rfl

theorem loops_enc_eq (v : V2.Loops) :
    V2.loops.enc v = u64le.enc (UInt64.ofNat v.length) ++ encL V2.loop v := rfl

theorem track_enc_eq (t : V2.Track) :
    V2.track.enc t = u64be.enc t.sampleRate ++ (u64be.enc t.samples ++ (u32be.enc t.key ++
      (u64be.enc t.lo ++ (u64be.enc t.mid ++ u64be.enc t.hi)))) := rfl

theorem beat_enc_eq (v : V2.Beat) :
    V2.beat.enc v = u64be.enc v.sampleRate ++ (u64be.enc v.samples ++ ([v.isSet] ++
      (V2.grid.enc v.dflt ++ V2.grid.enc v.adj))) := rfl

theorem u32be_enc_length (x : UInt32) : (u32be.enc x).length = 4 := rfl

/-! ### what a successful slot setter did -/

theorem slotIndex_ok {i : UInt32} {n k : Nat} (h : TracksV2.slotIndex i n = .ok k) :
    k = i.toNat ∧ i.toNat < n := by
  unfold TracksV2.slotIndex at h
  split at h
  · simp at h
  · rename_i hc
    simp at h
    exact ⟨h.symm, by omega⟩

theorem hotCueAt_ok {ops i v r r'} (h : TracksV2.applySetter ops (.hotCueAt i v) r = .ok r') :
    i.toNat < r.cues.1.cues.length ∧
    r' = { r with cues := ({ r.cues.1 with cues := r.cues.1.cues.set i.toNat (TracksV2.writeHotCue v) },
                            r.cues.2) } := by
  simp only [TracksV2.applySetter] at h
  cases hs : TracksV2.slotIndex i r.cues.1.cues.length with
  | throw e => rw [hs] at h; simp [Res.bind] at h
  | ub u => rw [hs] at h; simp [Res.bind] at h
  | ok k =>
    obtain ⟨rfl, hk⟩ := slotIndex_ok hs
    rw [hs] at h
    simp only [TracksV2.putCues] at h
    by_cases he : TracksV2.cuesEncodable
        { r.cues.1 with cues := r.cues.1.cues.set i.toNat (TracksV2.writeHotCue v) } = true
    · simp only [he, if_true, Res.bind, Res.ok.injEq] at h
      exact ⟨hk, h.symm⟩
    · simp [he, Res.bind] at h

theorem loopAt_ok {ops i v r r'} (h : TracksV2.applySetter ops (.loopAt i v) r = .ok r') :
    i.toNat < r.loops.1.length ∧
    r' = { r with loops := (r.loops.1.set i.toNat (TracksV2.writeLoop v), r.loops.2) } := by
  simp only [TracksV2.applySetter] at h
  cases hs : TracksV2.slotIndex i r.loops.1.length with
  | throw e => rw [hs] at h; simp [Res.bind] at h
  | ub u => rw [hs] at h; simp [Res.bind] at h
  | ok k =>
    obtain ⟨rfl, hk⟩ := slotIndex_ok hs
    rw [hs] at h
    simp only [TracksV2.putLoops] at h
    by_cases he : TracksV2.loopsEncodable (r.loops.1.set i.toNat (TracksV2.writeLoop v)) = true
    · simp only [he, if_true, Res.bind, Res.ok.injEq] at h
      exact ⟨hk, h.symm⟩
    · simp [he, Res.bind] at h

/-! ### frame theorems: the per-slot setters -/

/-- The precise form: where the changed bytes lie.  `pre` is the count and the
entries of the slots before `i`, `post` is the entries of the slots after `i`,
the 17 main-cue bytes and the trailing `extra_data`. -/
theorem frame_hotCueAt_located (ops : TracksV2.FOps) (i : UInt32) (v : Option TracksV2.HotCue)
    (r r' : TracksV2.Row) (h : TracksV2.applySetter ops (.hotCueAt i v) r = .ok r') :
    ∃ (hk : i.toNat < r.cues.1.cues.length),
      let pre := u64be.enc (UInt64.ofNat r.cues.1.cues.length) ++
        encL V2.cue (r.cues.1.cues.take i.toNat)
      let post := encL V2.cue (r.cues.1.cues.drop (i.toNat + 1)) ++
        Impl.V2.cuesTail.enc (r.cues.1.adjMain, (if r.cues.1.isAdj then 1 else 0), r.cues.1.defMain) ++
        r.cues.2
      payloadCues r = pre ++ V2.cue.enc r.cues.1.cues[i.toNat] ++ post ∧
      payloadCues r' = pre ++ V2.cue.enc (TracksV2.writeHotCue v) ++ post := by
  obtain ⟨hk, rfl⟩ := hotCueAt_ok h
  refine ⟨hk, ?_, ?_⟩
  · simp only [payloadCues, cues_enc_eq]
    rw [encL_split V2.cue _ _ hk]
    simp only [List.append_assoc]
  · simp only [payloadCues, cues_enc_eq, List.length_set]
    rw [encL_set V2.cue _ _ _ hk]
    simp only [List.append_assoc]

/-- `set_hot_cue_at(i, v)`: only the entry of slot `i` of the quick-cues blob
changes; every other entry, the count, the main-cue fields and the trailing
bytes are byte-identical, and no other column is touched. -/
theorem frame_hotCueAt (ops : TracksV2.FOps) (i : UInt32) (v : Option TracksV2.HotCue)
    (r r' : TracksV2.Row) (h : TracksV2.applySetter ops (.hotCueAt i v) r = .ok r') :
    payloadTrack r' = payloadTrack r ∧ payloadOvw r' = payloadOvw r ∧
    payloadBeat r' = payloadBeat r ∧ payloadLoops r' = payloadLoops r ∧
    ∃ pre post old,
      payloadCues r = pre ++ V2.cue.enc old ++ post ∧
      payloadCues r' = pre ++ V2.cue.enc (TracksV2.writeHotCue v) ++ post ∧
      r.cues.1.cues[i.toNat]? = some old := by
  obtain ⟨hk, h1, h2⟩ := frame_hotCueAt_located ops i v r r' h
  obtain ⟨_, rfl⟩ := hotCueAt_ok h
  exact ⟨rfl, rfl, rfl, rfl, _, _, _, h1, h2, List.getElem?_eq_getElem hk⟩

/-- The precise form for `set_loop_at`. -/
theorem frame_loopAt_located (ops : TracksV2.FOps) (i : UInt32) (v : Option TracksV2.LoopV)
    (r r' : TracksV2.Row) (h : TracksV2.applySetter ops (.loopAt i v) r = .ok r') :
    ∃ (hk : i.toNat < r.loops.1.length),
      let pre := u64le.enc (UInt64.ofNat r.loops.1.length) ++ encL V2.loop (r.loops.1.take i.toNat)
      let post := encL V2.loop (r.loops.1.drop (i.toNat + 1)) ++ r.loops.2
      payloadLoops r = pre ++ V2.loop.enc r.loops.1[i.toNat] ++ post ∧
      payloadLoops r' = pre ++ V2.loop.enc (TracksV2.writeLoop v) ++ post := by
  obtain ⟨hk, rfl⟩ := loopAt_ok h
  refine ⟨hk, ?_, ?_⟩
  · simp only [payloadLoops, loops_enc_eq]
    rw [encL_split V2.loop _ _ hk]
    simp only [List.append_assoc]
  · simp only [payloadLoops, loops_enc_eq, List.length_set]
    rw [encL_set V2.loop _ _ _ hk]
    simp only [List.append_assoc]

/-- `set_loop_at(i, v)`: only the entry of slot `i` of the loops blob changes. -/
theorem frame_loopAt (ops : TracksV2.FOps) (i : UInt32) (v : Option TracksV2.LoopV)
    (r r' : TracksV2.Row) (h : TracksV2.applySetter ops (.loopAt i v) r = .ok r') :
    payloadTrack r' = payloadTrack r ∧ payloadOvw r' = payloadOvw r ∧
    payloadBeat r' = payloadBeat r ∧ payloadCues r' = payloadCues r ∧
    ∃ pre post old,
      payloadLoops r = pre ++ V2.loop.enc old ++ post ∧
      payloadLoops r' = pre ++ V2.loop.enc (TracksV2.writeLoop v) ++ post ∧
      r.loops.1[i.toNat]? = some old := by
  obtain ⟨hk, h1, h2⟩ := frame_loopAt_located ops i v r r' h
  obtain ⟨_, rfl⟩ := loopAt_ok h
  exact ⟨rfl, rfl, rfl, rfl, _, _, _, h1, h2, List.getElem?_eq_getElem hk⟩

/-! ### frame theorems: main cue, whole hot-cue list -/

/-- `set_main_cue(v)`: only the 17 bytes adjusted main cue / flag / default
main cue may change. -/
theorem frame_mainCue (ops : TracksV2.FOps) (v : Option TracksV2.F)
    (r r' : TracksV2.Row) (h : TracksV2.applySetter ops (.mainCue v) r = .ok r') :
    payloadTrack r' = payloadTrack r ∧ payloadOvw r' = payloadOvw r ∧
    payloadBeat r' = payloadBeat r ∧ payloadLoops r' = payloadLoops r ∧
    ∃ pre mid mid',
      payloadCues r = pre ++ mid ++ r.cues.2 ∧
      payloadCues r' = pre ++ mid' ++ r.cues.2 ∧
      mid.length = 17 ∧ mid'.length = 17 := by
  simp only [TracksV2.applySetter, Res.ok.injEq] at h
  subst h
  exact ⟨rfl, rfl, rfl, rfl,
    u64be.enc (UInt64.ofNat r.cues.1.cues.length) ++ encL V2.cue r.cues.1.cues,
    Impl.V2.cuesTail.enc (r.cues.1.adjMain, (if r.cues.1.isAdj then 1 else 0), r.cues.1.defMain),
    Impl.V2.cuesTail.enc (v.getD 0, 1, v.getD 0), rfl, rfl, rfl, rfl⟩

theorem hotCues_ok {ops v r r'} (h : TracksV2.applySetter ops (.hotCues v) r = .ok r') :
    ∃ cs, r' = { r with cues := ({ r.cues.1 with cues := cs }, r.cues.2) } := by
  simp only [TracksV2.applySetter] at h
  cases hw : TracksV2.writeHotCues v with
  | throw e => rw [hw] at h; simp [Res.bind] at h
  | ub u => rw [hw] at h; simp [Res.bind] at h
  | ok cs =>
    rw [hw] at h
    simp only [TracksV2.putCues] at h
    by_cases he : TracksV2.cuesEncodable { r.cues.1 with cues := cs } = true
    · simp only [he, if_true, Res.bind, Res.ok.injEq] at h
      exact ⟨cs, h.symm⟩
    · simp [he, Res.bind] at h

/-- `set_hot_cues(v)`: the list is replaced; the main-cue fields and the
trailing bytes are preserved. -/
theorem frame_hotCues (ops : TracksV2.FOps) (v : List (Option TracksV2.HotCue))
    (r r' : TracksV2.Row) (h : TracksV2.applySetter ops (.hotCues v) r = .ok r') :
    payloadTrack r' = payloadTrack r ∧ payloadOvw r' = payloadOvw r ∧
    payloadBeat r' = payloadBeat r ∧ payloadLoops r' = payloadLoops r ∧
    ∃ head head' tail,
      payloadCues r = head ++ tail ∧ payloadCues r' = head' ++ tail ∧
      tail.length = 17 + r.cues.2.length := by
  obtain ⟨cs, rfl⟩ := hotCues_ok h
  refine ⟨rfl, rfl, rfl, rfl,
    u64be.enc (UInt64.ofNat r.cues.1.cues.length) ++ encL V2.cue r.cues.1.cues,
    u64be.enc (UInt64.ofNat cs.length) ++ encL V2.cue cs,
    Impl.V2.cuesTail.enc (r.cues.1.adjMain, (if r.cues.1.isAdj then 1 else 0), r.cues.1.defMain) ++
      r.cues.2, ?_, ?_, ?_⟩
  · simp only [payloadCues, cues_enc_eq, List.append_assoc]
  · simp only [payloadCues, cues_enc_eq, List.append_assoc]
  · rw [List.length_append, Impl.V2.cuesTail_enc_length]

/-! ### frame theorems: the fixed-layout fields of the track-data and beat-data blobs -/

/-- `set_average_loudness(v)`: bytes 20..43 of the track-data blob (the three
loudness doubles). -/
theorem frame_averageLoudness (ops : TracksV2.FOps) (v : Option TracksV2.F)
    (r r' : TracksV2.Row) (h : TracksV2.applySetter ops (.averageLoudness v) r = .ok r') :
    AgreeOutside 20 44 (payloadTrack r) (payloadTrack r') ∧
    payloadOvw r' = payloadOvw r ∧ payloadBeat r' = payloadBeat r ∧
    payloadCues r' = payloadCues r ∧ payloadLoops r' = payloadLoops r := by
  simp only [TracksV2.applySetter, Res.ok.injEq] at h
  subst h
  refine ⟨?_, rfl, rfl, rfl, rfl⟩
  have := agree_mid
    (u64be.enc r.trackData.1.sampleRate ++ (u64be.enc r.trackData.1.samples ++ u32be.enc r.trackData.1.key))
    (u64be.enc r.trackData.1.lo ++ (u64be.enc r.trackData.1.mid ++ u64be.enc r.trackData.1.hi))
    (u64be.enc (TracksV2.writeAverageLoudness v) ++ (u64be.enc (TracksV2.writeAverageLoudness v) ++
      u64be.enc (TracksV2.writeAverageLoudness v)))
    r.trackData.2 20 44 rfl rfl rfl
  simpa only [payloadTrack, track_enc_eq, List.append_assoc] using this

/-- `set_key(v)`: bytes 16..19 of the track-data blob. -/
theorem frame_key (ops : TracksV2.FOps) (v : Option UInt32)
    (r r' : TracksV2.Row) (h : TracksV2.applySetter ops (.key v) r = .ok r') :
    AgreeOutside 16 20 (payloadTrack r) (payloadTrack r') ∧
    payloadOvw r' = payloadOvw r ∧ payloadBeat r' = payloadBeat r ∧
    payloadCues r' = payloadCues r ∧ payloadLoops r' = payloadLoops r := by
  simp only [TracksV2.applySetter, Res.ok.injEq] at h
  subst h
  refine ⟨?_, rfl, rfl, rfl, rfl⟩
  have := agree_mid
    (u64be.enc r.trackData.1.sampleRate ++ u64be.enc r.trackData.1.samples)
    (u32be.enc r.trackData.1.key)
    (u32be.enc (TracksV2.writeKey v).2)
    (u64be.enc r.trackData.1.lo ++ (u64be.enc r.trackData.1.mid ++ u64be.enc r.trackData.1.hi) ++
      r.trackData.2) 16 20 rfl rfl rfl
  simpa only [payloadTrack, track_enc_eq, List.append_assoc] using this

/-- `set_sample_count(v)`: bytes 8..15 of the track-data blob and bytes 8..15
of the beat-data blob (the setter writes both columns). -/
theorem frame_sampleCount (ops : TracksV2.FOps) (v : Option UInt64)
    (r r' : TracksV2.Row) (h : TracksV2.applySetter ops (.sampleCount v) r = .ok r') :
    AgreeOutside 8 16 (payloadTrack r) (payloadTrack r') ∧
    AgreeOutside 8 16 (payloadBeat r) (payloadBeat r') ∧
    payloadOvw r' = payloadOvw r ∧ payloadCues r' = payloadCues r ∧
    payloadLoops r' = payloadLoops r := by
  simp only [TracksV2.applySetter, Res.ok.injEq] at h
  subst h
  refine ⟨?_, ?_, rfl, rfl, rfl⟩
  · have := agree_mid
      (u64be.enc r.trackData.1.sampleRate)
      (u64be.enc r.trackData.1.samples)
      (u64be.enc (v.getD 0))
      (u32be.enc r.trackData.1.key ++ (u64be.enc r.trackData.1.lo ++
        (u64be.enc r.trackData.1.mid ++ u64be.enc r.trackData.1.hi)) ++ r.trackData.2) 8 16 rfl rfl rfl
    simpa only [payloadTrack, track_enc_eq, List.append_assoc] using this
  · have := agree_mid
      (u64be.enc r.beat.1.sampleRate)
      (u64be.enc r.beat.1.samples)
      (u64be.enc (ops.ofU64 (v.getD 0)))
      ([r.beat.1.isSet] ++ (V2.grid.enc r.beat.1.dflt ++ V2.grid.enc r.beat.1.adj) ++ r.beat.2)
      8 16 rfl rfl rfl
    simpa only [payloadBeat, beat_enc_eq, List.append_assoc] using this

/-- `set_sample_rate(v)`: bytes 0..7 of the track-data blob and bytes 0..7 of
the beat-data blob. -/
theorem frame_sampleRate (ops : TracksV2.FOps) (v : Option TracksV2.F)
    (r r' : TracksV2.Row) (h : TracksV2.applySetter ops (.sampleRate v) r = .ok r') :
    AgreeOutside 0 8 (payloadTrack r) (payloadTrack r') ∧
    AgreeOutside 0 8 (payloadBeat r) (payloadBeat r') ∧
    payloadOvw r' = payloadOvw r ∧ payloadCues r' = payloadCues r ∧
    payloadLoops r' = payloadLoops r := by
  simp only [TracksV2.applySetter, Res.ok.injEq] at h
  subst h
  refine ⟨?_, ?_, rfl, rfl, rfl⟩
  · have := agree_mid []
      (u64be.enc r.trackData.1.sampleRate)
      (u64be.enc (TracksV2.writeSampleRate v))
      (u64be.enc r.trackData.1.samples ++ (u32be.enc r.trackData.1.key ++ (u64be.enc r.trackData.1.lo ++
        (u64be.enc r.trackData.1.mid ++ u64be.enc r.trackData.1.hi))) ++ r.trackData.2) 0 8 rfl rfl rfl
    simpa only [payloadTrack, track_enc_eq, List.append_assoc, List.nil_append] using this
  · have := agree_mid []
      (u64be.enc r.beat.1.sampleRate)
      (u64be.enc (TracksV2.writeSampleRate v))
      (u64be.enc r.beat.1.samples ++ ([r.beat.1.isSet] ++
        (V2.grid.enc r.beat.1.dflt ++ V2.grid.enc r.beat.1.adj)) ++ r.beat.2)
      0 8 rfl rfl rfl
    simpa only [payloadBeat, beat_enc_eq, List.append_assoc, List.nil_append] using this

/-- `set_beatgrid(g)`: the first 16 bytes (sample rate, sample count) and the
trailing bytes of the beat-data blob are preserved. -/
theorem frame_beatgrid (ops : TracksV2.FOps) (g : List TracksV2.GMarker)
    (r r' : TracksV2.Row) (h : TracksV2.applySetter ops (.beatgrid g) r = .ok r') :
    payloadTrack r' = payloadTrack r ∧ payloadOvw r' = payloadOvw r ∧
    payloadCues r' = payloadCues r ∧ payloadLoops r' = payloadLoops r ∧
    ∃ mid mid',
      payloadBeat r = (payloadBeat r).take 16 ++ mid ++ r.beat.2 ∧
      payloadBeat r' = (payloadBeat r).take 16 ++ mid' ++ r.beat.2 := by
  simp only [TracksV2.applySetter, Res.ok.injEq] at h
  subst h
  have ht : (payloadBeat r).take 16 = u64be.enc r.beat.1.sampleRate ++ u64be.enc r.beat.1.samples := by
    have e : payloadBeat r = (u64be.enc r.beat.1.sampleRate ++ u64be.enc r.beat.1.samples) ++
        (([r.beat.1.isSet] ++ (V2.grid.enc r.beat.1.dflt ++ V2.grid.enc r.beat.1.adj)) ++ r.beat.2) := by
      simp only [payloadBeat, beat_enc_eq, List.append_assoc]
    rw [e]
    exact List.take_left' rfl
  refine ⟨rfl, rfl, rfl, rfl,
    [r.beat.1.isSet] ++ (V2.grid.enc r.beat.1.dflt ++ V2.grid.enc r.beat.1.adj),
    [if (TracksV2.writeGridMarkers g).isEmpty then 0 else 1] ++
      (V2.grid.enc (TracksV2.writeGridMarkers g) ++ V2.grid.enc (TracksV2.writeGridMarkers g)), ?_, ?_⟩
  · rw [ht]
    simp only [payloadBeat, beat_enc_eq, List.append_assoc]
  · rw [ht]
    simp only [payloadBeat, beat_enc_eq, List.append_assoc]

/-! ### the two whole-list setters of the loops / overview-waveform columns

Since the repair (`fix:` bee2c23) `set_loops` and `set_waveform` are read-modify-write
like the others: the loop list / the waveform fields are replaced, the trailing
`extra_data` of the stored blob is kept. -/

theorem loops_ok {ops v r r'} (h : TracksV2.applySetter ops (.loops v) r = .ok r') :
    ∃ ls, TracksV2.writeLoops v = .ok ls ∧ r' = { r with loops := (ls, r.loops.2) } := by
  simp only [TracksV2.applySetter] at h
  cases hw : TracksV2.writeLoops v with
  | throw e => rw [hw] at h; simp [Res.bind] at h
  | ub u => rw [hw] at h; simp [Res.bind] at h
  | ok ls =>
    rw [hw] at h
    simp only [TracksV2.putLoops] at h
    by_cases he : TracksV2.loopsEncodable ls = true
    · simp only [he, if_true, Res.bind, Res.ok.injEq] at h
      exact ⟨ls, rfl, h.symm⟩
    · simp [he, Res.bind] at h

theorem waveform_ok {ops w r r'} (h : TracksV2.applySetter ops (.waveform w) r = .ok r') :
    ∃ o, TracksV2.writeWaveform ops w (TracksV2.getSampleCount r) (TracksV2.getSampleRate r) = .ok o ∧
      r' = { r with ovw := (o, r.ovw.2) } := by
  simp only [TracksV2.applySetter] at h
  cases hw : TracksV2.writeWaveform ops w (TracksV2.getSampleCount r) (TracksV2.getSampleRate r) with
  | throw e => rw [hw] at h; simp [Res.bind] at h
  | ub u => rw [hw] at h; simp [Res.bind] at h
  | ok o =>
    rw [hw] at h
    simp only [Res.bind, Res.ok.injEq] at h
    exact ⟨o, rfl, h.symm⟩

/-- `set_loops(v)`: the stored loops payload is the encoding of the old list followed by the
trailing bytes; afterwards it is the encoding of the new (padded) list followed by the *same*
trailing bytes; no other column is touched. -/
theorem frame_loops (ops : TracksV2.FOps) (v : List (Option TracksV2.LoopV))
    (r r' : TracksV2.Row) (h : TracksV2.applySetter ops (.loops v) r = .ok r') :
    payloadTrack r' = payloadTrack r ∧ payloadOvw r' = payloadOvw r ∧
    payloadBeat r' = payloadBeat r ∧ payloadCues r' = payloadCues r ∧
    ∃ ls, TracksV2.writeLoops v = .ok ls ∧
      payloadLoops r = V2.loops.enc r.loops.1 ++ r.loops.2 ∧
      payloadLoops r' = V2.loops.enc ls ++ r.loops.2 := by
  obtain ⟨ls, hw, rfl⟩ := loops_ok h
  exact ⟨rfl, rfl, rfl, rfl, ls, hw, rfl, rfl⟩

/-- `set_waveform(w)`: only the samples-per-entry / points / maximum fields of the overview
waveform blob are replaced; the trailing bytes are the old ones; no other column is touched. -/
theorem frame_waveform (ops : TracksV2.FOps) (w : List TracksV2.WEntry)
    (r r' : TracksV2.Row) (h : TracksV2.applySetter ops (.waveform w) r = .ok r') :
    payloadTrack r' = payloadTrack r ∧ payloadBeat r' = payloadBeat r ∧
    payloadCues r' = payloadCues r ∧ payloadLoops r' = payloadLoops r ∧
    ∃ o, TracksV2.writeWaveform ops w (TracksV2.getSampleCount r) (TracksV2.getSampleRate r) = .ok o ∧
      payloadOvw r = V2.ovw.enc r.ovw.1 ++ r.ovw.2 ∧
      payloadOvw r' = V2.ovw.enc o ++ r.ovw.2 := by
  obtain ⟨o, hw, rfl⟩ := waveform_ok h
  exact ⟨rfl, rfl, rfl, rfl, o, hw, rfl, rfl⟩

/-! ### a concrete foreign-looking row: every hypothesis above is satisfiable -/

def ops0 : TracksV2.FOps := ⟨fun _ => 0, fun _ => 0, fun _ _ => 0⟩

/-- 44100 Hz / 1000 samples / key 5; an empty overview waveform followed by one
foreign byte; a two-marker grid followed by ten trailing bytes; THREE quick-cue
entries (a set cue, an EMPTY slot that still carries the label "old" and the
colour ff/7f/00/7f, a plain empty slot), flag true, two trailing bytes; three
loop entries (the second an empty slot with a label) and one trailing byte. -/
def row0 : TracksV2.Row :=
  { (default : TracksV2.Row) with
    trackData := (⟨0x40e5888000000000, 1000, 5, 0x3fe0000000000000, 0x3fe0000000000001, 0x3fe0000000000002⟩,
                  [0x01, 0x02])
    ovw := (⟨0, [], [0, 0, 0]⟩, [0x09])
    beat := (⟨0x40e5888000000000, 0x408f400000000000, 1,
              [⟨0, 0, 4, 0⟩, ⟨0x40e5888000000000, 4, 0, 0⟩],
              [⟨0x4059000000000000, 0, 4, 0⟩, ⟨0x40e5888000000000, 4, 0, 0⟩]⟩,
             [0, 0, 0, 0, 0, 0, 0, 0, 0, 0x55])
    cues := (⟨[⟨[0x61], 0x40f0000000000000, ⟨0xff, 0x01, 0x02, 0x03⟩⟩,
               ⟨[0x6f, 0x6c, 0x64], TracksV2.negOne, ⟨0xff, 0x7f, 0x00, 0x7f⟩⟩,
               ⟨[], TracksV2.negOne, TracksV2.zeroColor⟩],
              0x4024000000000000, true, 0x4034000000000000⟩, [0xaa, 0xbb])
    loops := ([⟨[0x4c], 0x40f0000000000000, 0x40f8000000000000, 1, 1, ⟨0xff, 0x10, 0x20, 0x30⟩⟩,
               ⟨[0x6f, 0x6c, 0x64], TracksV2.negOne, TracksV2.negOne, 0, 0, ⟨0xff, 0x7f, 0x00, 0x7f⟩⟩,
               ⟨[], TracksV2.negOne, TracksV2.negOne, 0, 0, TracksV2.zeroColor⟩],
              [0xcc]) }

def cue0 : TracksV2.HotCue := ⟨[0x6e, 0x65, 0x77], 0x4059000000000000, ⟨0xff, 0x00, 0xff, 0x00⟩⟩
def loop0 : TracksV2.LoopV := ⟨[0x6e], 0x4059000000000000, 0x4069000000000000, ⟨0xff, 0x00, 0xff, 0x00⟩⟩

example : ∃ r', TracksV2.applySetter ops0 (.hotCueAt 0 (some cue0)) row0 = .ok r' := ⟨_, rfl⟩
example : ∃ r', TracksV2.applySetter ops0 (.hotCueAt 1 (some cue0)) row0 = .ok r' := ⟨_, rfl⟩
example : ∃ r', TracksV2.applySetter ops0 (.hotCueAt 2 none) row0 = .ok r' := ⟨_, rfl⟩
example : ∃ r', TracksV2.applySetter ops0 (.loopAt 1 (some loop0)) row0 = .ok r' := ⟨_, rfl⟩
example : ∃ r', TracksV2.applySetter ops0 (.loopAt 2 none) row0 = .ok r' := ⟨_, rfl⟩
example : ∃ r', TracksV2.applySetter ops0 (.mainCue (some 0x4059000000000000)) row0 = .ok r' := ⟨_, rfl⟩
example : ∃ r', TracksV2.applySetter ops0 (.hotCues [none, some cue0]) row0 = .ok r' := ⟨_, rfl⟩
example : ∃ r', TracksV2.applySetter ops0 (.averageLoudness (some 0x3fd0000000000000)) row0 = .ok r' :=
  ⟨_, rfl⟩
example : ∃ r', TracksV2.applySetter ops0 (.key (some 11)) row0 = .ok r' := ⟨_, rfl⟩
example : ∃ r', TracksV2.applySetter ops0 (.sampleCount (some 2000)) row0 = .ok r' := ⟨_, rfl⟩
example : ∃ r', TracksV2.applySetter ops0 (.sampleRate (some 0x40e7700000000000)) row0 = .ok r' := ⟨_, rfl⟩
example : ∃ r', TracksV2.applySetter ops0 (.beatgrid [⟨0, 0x4059000000000000⟩, ⟨8, 0x40e5888000000000⟩]) row0
    = .ok r' := ⟨_, rfl⟩

/-- the frame theorems applied to the concrete calls -/
example := frame_hotCueAt ops0 1 (some cue0) row0 _ rfl
example := frame_loopAt ops0 1 (some loop0) row0 _ rfl
example := frame_mainCue ops0 (some 0x4059000000000000) row0 _ rfl
example := frame_hotCues ops0 [none, some cue0] row0 _ rfl
example := frame_averageLoudness ops0 (some 0x3fd0000000000000) row0 _ rfl
example := frame_key ops0 (some 11) row0 _ rfl
example := frame_sampleCount ops0 (some 2000) row0 _ rfl
example := frame_sampleRate ops0 (some 0x40e7700000000000) row0 _ rfl
example := frame_beatgrid ops0 [⟨0, 0x4059000000000000⟩, ⟨8, 0x40e5888000000000⟩] row0 _ rfl

/-- Writing a hot cue into slot 0 of the concrete row: the stored quick-cues
blob afterwards, byte for byte.  Slot 1 (EMPTY, label "old", colour
ff/7f/00/7f), slot 2, the count 3, the main-cue fields and the two trailing
bytes aa bb are exactly the old ones. -/
example : ∀ r', TracksV2.applySetter ops0 (.hotCueAt 0 (some cue0)) row0 = .ok r' →
    payloadCues row0 =
      [0, 0, 0, 0, 0, 0, 0, 3] ++
      [1, 0x61, 0x40, 0xf0, 0, 0, 0, 0, 0, 0, 0xff, 0x01, 0x02, 0x03] ++
      ([3, 0x6f, 0x6c, 0x64, 0xbf, 0xf0, 0, 0, 0, 0, 0, 0, 0xff, 0x7f, 0x00, 0x7f] ++
       [0, 0xbf, 0xf0, 0, 0, 0, 0, 0, 0, 0, 0, 0, 0] ++
       [0x40, 0x24, 0, 0, 0, 0, 0, 0, 1, 0x40, 0x34, 0, 0, 0, 0, 0, 0] ++ [0xaa, 0xbb]) ∧
    payloadCues r' =
      [0, 0, 0, 0, 0, 0, 0, 3] ++
      [3, 0x6e, 0x65, 0x77, 0x40, 0x59, 0, 0, 0, 0, 0, 0, 0xff, 0x00, 0xff, 0x00] ++
      ([3, 0x6f, 0x6c, 0x64, 0xbf, 0xf0, 0, 0, 0, 0, 0, 0, 0xff, 0x7f, 0x00, 0x7f] ++
       [0, 0xbf, 0xf0, 0, 0, 0, 0, 0, 0, 0, 0, 0, 0] ++
       [0x40, 0x24, 0, 0, 0, 0, 0, 0, 1, 0x40, 0x34, 0, 0, 0, 0, 0, 0] ++ [0xaa, 0xbb]) := by
  intro r' h
  have e : r' = { row0 with cues := ({ row0.cues.1 with
      cues := row0.cues.1.cues.set 0 (TracksV2.writeHotCue (some cue0)) }, row0.cues.2) } :=
    (hotCueAt_ok h).2
  subst e
  exact ⟨by decide, by decide⟩

/-- `set_loops(get_loops())` on a row whose loops blob has eight well-formed
entries followed by one foreign byte: the call succeeds and the stored payload,
foreign byte included, is exactly what it was (before the repair the byte was
dropped — the former `loops_setter_counterexample`). -/
def rowL : TracksV2.Row :=
  { row0 with loops := ([⟨[0x4c], 0x40f0000000000000, 0x40f8000000000000, 1, 1, ⟨0xff, 0x10, 0x20, 0x30⟩⟩,
      TracksV2.emptyLoop, TracksV2.emptyLoop, TracksV2.emptyLoop, TracksV2.emptyLoop, TracksV2.emptyLoop,
      TracksV2.emptyLoop, TracksV2.emptyLoop], [0xcc]) }

set_option maxRecDepth 4096 in
theorem loops_setter_keeps_extra_example :
    ∃ r', TracksV2.applySetter ops0 (.loops (TracksV2.getLoops rowL)) rowL = .ok r' ∧
      payloadLoops r' = payloadLoops rowL ∧ (payloadLoops r').getLast? = some 0xcc := by
  refine ⟨_, rfl, ?_, ?_⟩
  · decide
  · decide

/-- a different list on the same row: the payload changes, the foreign byte stays -/
example : ∃ r', TracksV2.applySetter ops0 (.loops [none, some loop0]) rowL = .ok r' ∧
    payloadLoops r' ≠ payloadLoops rowL ∧ r'.loops.2 = [0xcc] := ⟨_, rfl, by decide, rfl⟩

/-- `set_waveform(get_waveform())` on the concrete row (empty waveform, one
foreign trailing byte in the overview blob): the byte is kept. -/
theorem waveform_setter_keeps_extra_example :
    ∃ r', TracksV2.applySetter ops0 (.waveform (TracksV2.getWaveform row0)) row0 = .ok r' ∧
      payloadOvw r' = payloadOvw row0 ∧ (payloadOvw r').getLast? = some 0x09 :=
  ⟨_, rfl, rfl, rfl⟩

example := frame_loops ops0 [none, some loop0] rowL _ rfl
example := frame_waveform ops0 [] row0 _ rfl

end SetterFrame
end EngineModel
