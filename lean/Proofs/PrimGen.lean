/-
The primitive byte codecs regenerated from src/djinterop/engine/encode_decode_utils.hpp
(`EngineModel/Gen/PrimGen.lean`, written by tools/tr_prim.py on every run from
clang's typed AST: shifts, masks, ORs, casts, `ptr[k]`, call order) are equal to
the hand-written primitives every codec theorem is built on: `Prim.encU32BE`,
`Prim.decU32BE`, … (`Basic/Prim.lean`, arithmetic on `Nat`) and the primitive
codecs `Codec.u8/u32le/u32be/u64le/u64be` (`Format/Codec.lean`).

A change of endianness, shift amount, mask, byte index, width or call order in
the header changes the generated definitions and one of these proofs stops
checking.  Core tactics only (`omega` after going to `Nat`); no Mathlib.
-/
import EngineModel.Gen.PrimGen
import EngineModel.Format.Codec
set_option linter.unusedSimpArgs false
set_option linter.unusedVariables false

namespace EngineModel
namespace PrimGenProofs
open EngineModel.Gen.Prim

/-! ### bit-level helper lemmas -/

/-- `x ||| y = x + y` when `x` is a multiple of `2^i` and `y < 2^i`. -/
theorem or_eq_add (i x y : Nat) (hx : x % 2 ^ i = 0) (hy : y < 2 ^ i) : x ||| y = x + y := by
  have : x = (x / 2 ^ i) <<< i := by
    rw [Nat.shiftLeft_eq]; have := Nat.div_add_mod x (2 ^ i); rw [hx] at this; rw [Nat.mul_comm]; omega
  rw [this, ← Nat.shiftLeft_add_eq_or_of_lt hy]

theorem or_eq_add' (i x y : Nat) (hx : x < 2 ^ i) (hy : y % 2 ^ i = 0) : x ||| y = x + y := by
  rw [Nat.or_comm, or_eq_add i y x hy hx, Nat.add_comm]

theorem and255 (x : UInt32) : (x &&& (255 : UInt32)).toNat = x.toNat % 256 := by
  rw [UInt32.toNat_and]
  exact Nat.and_two_pow_sub_one_eq_mod x.toNat 8

theorem and255' (x : UInt32) : ((255 : UInt32) &&& x).toNat = x.toNat % 256 := by
  rw [UInt32.toNat_and, Nat.and_comm]
  exact Nat.and_two_pow_sub_one_eq_mod x.toNat 8

/-- The arithmetic shift of the signed value agrees, on the byte that is kept, with
the logical shift of the pattern (the sign only fills bits above it). -/
theorem sar32_toNat_mod (x : UInt32) (k : Nat) (hk : k = 0 ∨ k = 8 ∨ k = 16 ∨ k = 24) :
    (PrimOps.sar32 x k).toNat % 256 = x.toNat / 2 ^ k % 256 := by
  have h := x.toNat_lt
  unfold PrimOps.sar32 PrimOps.ofS32 PrimOps.s32
  rcases hk with rfl | rfl | rfl | rfl <;> simp [UInt32.toNat_ofNat'] <;> split <;> omega

theorem shr32_toNat (x : UInt32) (k : Nat) (hk : k = 0 ∨ k = 8 ∨ k = 16 ∨ k = 24) :
    (PrimOps.shr32 x k).toNat = x.toNat / 2 ^ k := by
  unfold PrimOps.shr32
  rcases hk with rfl | rfl | rfl | rfl <;> simp [UInt32.toNat_shiftRight, Nat.shiftRight_eq_div_pow]

/-- `static_cast<std::byte>(e)` keeps the low byte of the pattern. -/
theorem byte_of_i32_eq (m : UInt32) : PrimOps.byte_of_i32 m = (m.toNat % 256).toUInt8 := by
  apply UInt8.toNat_inj.mp
  simp only [PrimOps.byte_of_i32, UInt32.toNat_toUInt8, Nat.toUInt8, UInt8.toNat_ofNat', Nat.reducePow, Nat.mod_mod]

theorem byte_of_u32_eq (m : UInt32) : PrimOps.byte_of_u32 m = (m.toNat % 256).toUInt8 := byte_of_i32_eq m

theorem u32_of_i32_eq (m : UInt32) : PrimOps.u32_of_i32 m = m := rfl
theorem i32_of_u32_eq (m : UInt32) : PrimOps.i32_of_u32 m = m := rfl

/-- Normal form of one stored byte: `static_cast<std::byte>((value >> k) & 0xFF)` and its
behaviour-preserving variants (mask on either side or absent, shift done on `uint32_t`). -/
macro "prim_enc32" x:term : tactic =>
  `(tactic| simp only [List.nil_append, byte_of_i32_eq, byte_of_u32_eq, u32_of_i32_eq, i32_of_u32_eq, and255, and255',
      Nat.mod_mod, sar32_toNat_mod $x 0 (by simp), sar32_toNat_mod $x 8 (by simp), sar32_toNat_mod $x 16 (by simp),
      sar32_toNat_mod $x 24 (by simp), shr32_toNat $x 0 (by simp), shr32_toNat $x 8 (by simp),
      shr32_toNat $x 16 (by simp), shr32_toNat $x 24 (by simp), Nat.reducePow, Nat.div_one])

/-- `static_cast<uint8_t>(ptr[i]) << k`, computed in `int`. -/
theorem shl32_u8 (b : UInt8) (k : Nat) (hk : k = 8 ∨ k = 16 ∨ k = 24) :
    (PrimOps.shl32 (PrimOps.i32_of_u8 (PrimOps.u8_of_byte b)) k).toNat = b.toNat * 2 ^ k := by
  have h := b.toNat_lt
  unfold PrimOps.shl32 PrimOps.i32_of_u8 PrimOps.u8_of_byte
  rcases hk with rfl | rfl | rfl <;>
    simp [UInt32.toNat_shiftLeft, UInt8.toNat_toUInt32, Nat.shiftLeft_eq] <;> omega

theorem i32_u8 (b : UInt8) : (PrimOps.i32_of_u8 (PrimOps.u8_of_byte b)).toNat = b.toNat := by
  simp [PrimOps.i32_of_u8, PrimOps.u8_of_byte]

/-- `static_cast<int32_t>(value)` of an `int64_t`: the low half. -/
theorem i32_of_i64_eq_lo32 (x : UInt64) : PrimOps.i32_of_i64 x = Prim.lo32 x := by
  apply UInt32.toNat_inj.mp
  simp [PrimOps.i32_of_i64, Prim.lo32, UInt64.toNat_toUInt32, UInt32.toNat_ofNat']

/-- `static_cast<int32_t>(value >> 32)` of an `int64_t` (arithmetic shift): the high half. -/
theorem i32_of_sar64_eq_hi32 (x : UInt64) : PrimOps.i32_of_i64 (PrimOps.sar64 x 32) = Prim.hi32 x := by
  apply UInt32.toNat_inj.mp
  have h := x.toNat_lt
  unfold PrimOps.sar64 PrimOps.ofS64 PrimOps.s64
  simp [PrimOps.i32_of_i64, Prim.hi32, UInt64.toNat_toUInt32, UInt32.toNat_ofNat', UInt64.toNat_ofNat']
  split <;> omega

theorem lo32_sar64 (x : UInt64) : Prim.lo32 (PrimOps.sar64 x 32) = Prim.hi32 x := by
  rw [← i32_of_i64_eq_lo32, i32_of_sar64_eq_hi32]

/-- `static_cast<int64_t>(static_cast<uint32_t>(e))`: zero extension. -/
theorem i64_u32 (e : UInt32) : (PrimOps.i64_of_u32 (PrimOps.u32_of_i32 e)).toNat = e.toNat := by
  simp [PrimOps.i64_of_u32, PrimOps.u32_of_i32]

/-- `static_cast<int64_t>(static_cast<uint32_t>(e)) << 32`. -/
theorem shl64_u32 (e : UInt32) :
    (PrimOps.shl64 (PrimOps.i64_of_u32 (PrimOps.u32_of_i32 e)) 32).toNat = e.toNat * 4294967296 := by
  have h := e.toNat_lt
  unfold PrimOps.shl64 PrimOps.i64_of_u32 PrimOps.u32_of_i32
  simp [UInt64.toNat_shiftLeft, UInt32.toNat_toUInt64, Nat.shiftLeft_eq]
  omega

/-! ### one byte -/

theorem decode_uint8_cons (a : UInt8) (r : Bytes) : decode_uint8 (a :: r) = some (a, r) := by
  simp [decode_uint8, PrimOps.rd, PrimOps.adv, PrimOps.u8_of_byte]

theorem decode_uint8_eq (bs : Bytes) : decode_uint8 bs = Codec.u8.dec bs := by
  cases bs with
  | nil => simp [decode_uint8, PrimOps.rd, Codec.u8]
  | cons a r => rw [decode_uint8_cons]; rfl

theorem encode_uint8_eq (v : UInt8) : encode_uint8 v = Codec.u8.enc v := rfl

/-! ### 32 bits -/

theorem encode_int32_be_eq (x : UInt32) : encode_int32_be x = Prim.encU32BE x := by
  simp only [encode_int32_be, Prim.encU32BE]
  prim_enc32 x

theorem encode_int32_le_eq (x : UInt32) : encode_int32_le x = Prim.encU32LE x := by
  simp only [encode_int32_le, Prim.encU32LE]
  prim_enc32 x

/-- The four promoted bytes OR-ed together at bit offsets 24, 16, 8, 0 (canonical order). -/
theorem or4 (a b c d : UInt8) :
    (((PrimOps.shl32 (PrimOps.i32_of_u8 (PrimOps.u8_of_byte a)) 24 |||
        PrimOps.shl32 (PrimOps.i32_of_u8 (PrimOps.u8_of_byte b)) 16) |||
        PrimOps.shl32 (PrimOps.i32_of_u8 (PrimOps.u8_of_byte c)) 8) |||
        PrimOps.i32_of_u8 (PrimOps.u8_of_byte d)) = Prim.decU32BE a b c d := by
  apply UInt32.toNat_inj.mp
  have ha := a.toNat_lt; have hb := b.toNat_lt; have hc := c.toNat_lt; have hd := d.toNat_lt
  simp only [UInt32.toNat_or, shl32_u8 _ 8 (by simp), shl32_u8 _ 16 (by simp), shl32_u8 _ 24 (by simp), i32_u8,
    Prim.decU32BE, UInt32.toNat_ofNat']
  rw [or_eq_add 24 (a.toNat * 2 ^ 24) (b.toNat * 2 ^ 16) (by omega) (by omega),
    or_eq_add 16 _ (c.toNat * 2 ^ 8) (by omega) (by omega), or_eq_add 8 _ d.toNat (by omega) (by omega)]
  omega

/-- Equality up to associativity/commutativity of `|||`, with the four shifted bytes made opaque first. -/
macro "or4_ac" a:term:max b:term:max c:term:max d:term:max : tactic =>
  `(tactic| (generalize PrimOps.shl32 (PrimOps.i32_of_u8 (PrimOps.u8_of_byte $a)) 24 = A
             generalize PrimOps.shl32 (PrimOps.i32_of_u8 (PrimOps.u8_of_byte $b)) 16 = B
             generalize PrimOps.shl32 (PrimOps.i32_of_u8 (PrimOps.u8_of_byte $c)) 8 = C
             generalize PrimOps.i32_of_u8 (PrimOps.u8_of_byte $d) = D
             ac_rfl))

/-- Runs the generated decoder on four available bytes: what is left is the equation for the value. -/
macro "prim_dec32_run" f:ident : tactic =>
  `(tactic| simp only [$f:ident, PrimOps.rd, PrimOps.adv, List.getElem?_cons_zero, List.getElem?_cons_succ,
      Option.bind_eq_bind, Option.bind_some, Option.pure_def, List.length_cons, List.drop_succ_cons, List.drop_zero,
      Nat.le_add_left, if_true, Option.some.injEq, Prod.mk.injEq, and_true])

theorem decode_int32_be_cons (a b c d : UInt8) (r : Bytes) :
    decode_int32_be (a :: b :: c :: d :: r) = some (Prim.decU32BE a b c d, r) := by
  prim_dec32_run decode_int32_be
  -- `|` is associative and commutative: the operand order of the C++ does not matter
  refine Eq.trans ?_ (or4 a b c d)
  or4_ac a b c d

theorem decode_int32_le_cons (a b c d : UInt8) (r : Bytes) :
    decode_int32_le (a :: b :: c :: d :: r) = some (Prim.decU32LE a b c d, r) := by
  prim_dec32_run decode_int32_le
  refine Eq.trans ?_ (or4 d c b a)
  or4_ac d c b a

/-- Fewer than four bytes: `ptr[k]` leaves the buffer. -/
theorem decode_int32_be_short (bs : Bytes) (h : bs.length < 4) : decode_int32_be bs = none := by
  match bs, h with
  | [], _ => rfl
  | [_], _ => rfl
  | [_, _], _ => rfl
  | [_, _, _], _ => rfl

theorem decode_int32_le_short (bs : Bytes) (h : bs.length < 4) : decode_int32_le bs = none := by
  match bs, h with
  | [], _ => rfl
  | [_], _ => rfl
  | [_, _], _ => rfl
  | [_, _, _], _ => rfl

theorem decode_int32_be_eq (bs : Bytes) : decode_int32_be bs = Codec.u32be.dec bs := by
  match bs with
  | a :: b :: c :: d :: r => rw [decode_int32_be_cons]; rfl
  | [] => rfl
  | [_] => rfl
  | [_, _] => rfl
  | [_, _, _] => rfl

theorem decode_int32_le_eq (bs : Bytes) : decode_int32_le bs = Codec.u32le.dec bs := by
  match bs with
  | a :: b :: c :: d :: r => rw [decode_int32_le_cons]; rfl
  | [] => rfl
  | [_] => rfl
  | [_, _] => rfl
  | [_, _, _] => rfl

/-! ### 64 bits: compositions of the generated 32-bit functions, in the C++ call order -/

theorem encode_int64_be_eq (x : UInt64) : encode_int64_be x = Prim.encU64BE x := by
  simp only [encode_int64_be, Prim.encU64BE, List.nil_append, encode_int32_be_eq, i32_of_i64_eq_lo32,
    lo32_sar64]

theorem encode_int64_le_eq (x : UInt64) : encode_int64_le x = Prim.encU64LE x := by
  simp only [encode_int64_le, Prim.encU64LE, List.nil_append, encode_int32_le_eq, i32_of_i64_eq_lo32,
    lo32_sar64]

/-- `static_cast<int64_t>(static_cast<uint32_t>(e1)) << 32 | static_cast<int64_t>(static_cast<uint32_t>(e2))`. -/
theorem join_hi_lo (hi lo : UInt32) :
    (PrimOps.shl64 (PrimOps.i64_of_u32 (PrimOps.u32_of_i32 hi)) 32 ||| PrimOps.i64_of_u32 (PrimOps.u32_of_i32 lo)) =
      Prim.join64 hi lo := by
  apply UInt64.toNat_inj.mp
  have h1 := hi.toNat_lt; have h2 := lo.toNat_lt
  simp only [UInt64.toNat_or, shl64_u32, i64_u32, Prim.join64, UInt64.toNat_ofNat']
  rw [or_eq_add 32 _ _ (by omega) (by omega)]
  omega

/-- `static_cast<int64_t>(static_cast<uint32_t>(e1)) | static_cast<int64_t>(static_cast<uint32_t>(e2)) << 32`. -/
theorem join_lo_hi (lo hi : UInt32) :
    (PrimOps.i64_of_u32 (PrimOps.u32_of_i32 lo) ||| PrimOps.shl64 (PrimOps.i64_of_u32 (PrimOps.u32_of_i32 hi)) 32) =
      Prim.join64 hi lo := by
  apply UInt64.toNat_inj.mp
  have h1 := hi.toNat_lt; have h2 := lo.toNat_lt
  simp only [UInt64.toNat_or, shl64_u32, i64_u32, Prim.join64, UInt64.toNat_ofNat']
  rw [or_eq_add' 32 _ _ (by omega) (by omega)]
  omega

theorem decode_int64_be_eq (bs : Bytes) : decode_int64_be bs = Codec.u64be.dec bs := by
  simp only [decode_int64_be, decode_int32_be_eq, Codec.u64be, Codec.map, Codec.pair, Option.bind_eq_bind,
    Option.pure_def]
  cases h1 : Codec.u32be.dec bs with
  | none => rfl
  | some p1 =>
    obtain ⟨e1, r1⟩ := p1
    simp only [Option.bind_some]
    cases h2 : Codec.u32be.dec r1 with
    | none => rfl
    | some p2 =>
      obtain ⟨e2, r2⟩ := p2
      simp only [Option.bind_some, join_hi_lo, join_lo_hi]

theorem decode_int64_le_eq (bs : Bytes) : decode_int64_le bs = Codec.u64le.dec bs := by
  simp only [decode_int64_le, decode_int32_le_eq, Codec.u64le, Codec.map, Codec.pair, Option.bind_eq_bind,
    Option.pure_def]
  cases h1 : Codec.u32le.dec bs with
  | none => rfl
  | some p1 =>
    obtain ⟨e1, r1⟩ := p1
    simp only [Option.bind_some]
    cases h2 : Codec.u32le.dec r1 with
    | none => rfl
    | some p2 =>
      obtain ⟨e2, r2⟩ := p2
      simp only [Option.bind_some, join_lo_hi, join_hi_lo]

theorem decode_int64_be_cons (a b c d e f g h : UInt8) (r : Bytes) :
    decode_int64_be (a :: b :: c :: d :: e :: f :: g :: h :: r) = some (Prim.decU64BE a b c d e f g h, r) := by
  rw [decode_int64_be_eq]; rfl

theorem decode_int64_le_cons (a b c d e f g h : UInt8) (r : Bytes) :
    decode_int64_le (a :: b :: c :: d :: e :: f :: g :: h :: r) = some (Prim.decU64LE a b c d e f g h, r) := by
  rw [decode_int64_le_eq]; rfl

/-! ### doubles: `memcpy` between `int64_t` and `double` keeps the 64 bits -/

theorem encode_double_be_eq (x : UInt64) : encode_double_be x = Prim.encU64BE x := by
  simp only [encode_double_be, PrimOps.i64_of_f64_bits, List.nil_append, encode_int64_be_eq]

theorem encode_double_le_eq (x : UInt64) : encode_double_le x = Prim.encU64LE x := by
  simp only [encode_double_le, PrimOps.i64_of_f64_bits, List.nil_append, encode_int64_le_eq]

theorem decode_double_be_eq (bs : Bytes) : decode_double_be bs = Codec.u64be.dec bs := by
  simp only [decode_double_be, PrimOps.f64_of_i64_bits, decode_int64_be_eq, Option.bind_eq_bind, Option.pure_def]
  cases Codec.u64be.dec bs with
  | none => rfl
  | some p => rfl

theorem decode_double_le_eq (bs : Bytes) : decode_double_le bs = Codec.u64le.dec bs := by
  simp only [decode_double_le, PrimOps.f64_of_i64_bits, decode_int64_le_eq, Option.bind_eq_bind, Option.pure_def]
  cases Codec.u64le.dec bs with
  | none => rfl
  | some p => rfl

/-! ### trailing extra data -/

/-- `decode_extra(ptr, end)` takes everything that is left (`Cur.rest`). -/
theorem decode_extra_eq (bs : Bytes) : decode_extra bs = some (bs, []) := by
  cases bs with
  | nil => rfl
  | cons a r =>
    simp [decode_extra, PrimOps.resize, PrimOps.memcpy, PrimOps.adv]

/-- `encode_extra(extra, ptr)` stores the bytes verbatim. -/
theorem encode_extra_eq (extra : Bytes) : encode_extra extra = extra := by
  cases extra with
  | nil => rfl
  | cons a r => simp [encode_extra]

end PrimGenProofs
end EngineModel
