/-
Schema 2.x crate contents refine Spec.Members: `MemInv` (entities refer to live
playlists and live tracks, no (list, track) pair twice, track ids a key within the
counter) is preserved by every crate / track API operation, and the Spec judge
driven by the Model's answers accepts every step and tracks `absM`.
-/
import Proofs.V2Rep
import Proofs.V2ForestRun

set_option linter.dupNamespace false
set_option linter.unusedSimpArgs false

namespace EngineModel.Db.V2

open EngineModel.Db.Chain EngineModel.Spec EngineModel.ListAux

/-! ### properties of `cores` of the entity table that survive deletions -/

/-- ids are a key, and no (list, track) pair occurs twice. -/
structure PairsOk (cs : List (Int × Int × Ent)) : Prop where
  ids_nodup : (cs.map (·.1)).Nodup
  pair_unique : ∀ c ∈ cs, ∀ c' ∈ cs, c.2.1 = c'.2.1 → c.2.2.track = c'.2.2.track → c = c'

theorem PairsOk.filter {cs : List (Int × Int × Ent)} (h : PairsOk cs) (q : Int × Int × Ent → Bool) : PairsOk (cs.filter q) :=
  ⟨List.Nodup.sublist (List.Sublist.map _ List.filter_sublist) h.ids_nodup,
   fun c hc c' hc' => h.pair_unique c (List.mem_filter.mp hc).1 c' (List.mem_filter.mp hc').1⟩

theorem core_eq_of_id {cs : List (Int × Int × Ent)} (hn : (cs.map (·.1)).Nodup) {c c' : Int × Int × Ent}
    (hc : c ∈ cs) (hc' : c' ∈ cs) (h : c.1 = c'.1) : c = c' := by
  induction cs with
  | nil => simp at hc
  | cons a l ih =>
    simp only [List.map_cons, List.nodup_cons, List.mem_map, not_exists, not_and] at hn
    rcases List.mem_cons.mp hc with h1 | h1 <;> rcases List.mem_cons.mp hc' with h2 | h2
    · rw [h1, h2]
    · subst h1; exact absurd h.symm (hn.1 c' h2)
    · subst h2; exact absurd h (hn.1 c h1)
    · exact ih hn.2 h1 h2

/-- The last row of list `l` with track `t` (playlist_entity_table::get), read off `cores`. -/
theorem lookup_core {pe : Table Ent} {l t : Int} {e : Row Ent}
    (h : (pe.filter (fun r => r.key == l && r.val.track == t)).getLast? = some e) : core e ∈ cores pe ∧ e.key = l ∧ e.val.track = t := by
  have hm := List.mem_of_getLast? h
  obtain ⟨h1, h2⟩ := List.mem_filter.mp hm
  simp only [Bool.and_eq_true, beq_iff_eq] at h2
  exact ⟨mem_cores.mpr ⟨e, h1, rfl⟩, h2.1, h2.2⟩

theorem lookup_none {pe : Table Ent} {l t : Int}
    (h : (pe.filter (fun r => r.key == l && r.val.track == t)).getLast? = none) : ∀ c ∈ cores pe, ¬ (c.2.1 = l ∧ c.2.2.track = t) := by
  intro c hc hh
  obtain ⟨r, hr, rfl⟩ := mem_cores.mp hc
  have := List.getLast?_eq_none_iff.mp h
  rw [List.filter_eq_nil_iff] at this
  exact this r hr (by simpa [core] using hh)

/-- Deleting the entity found for (l, t) removes exactly the rows of that pair. -/
theorem cores_delete_pair {pe : Table Ent} (hp : PairsOk (cores pe)) {l t : Int} {e : Row Ent}
    (h : (pe.filter (fun r => r.key == l && r.val.track == t)).getLast? = some e) :
    cores (deleteKeyed fires pe l e.id) = (cores pe).filter (fun c => !(c.2.1 == l && c.2.2.track == t)) := by
  obtain ⟨hce, hel, het⟩ := lookup_core h
  rw [cores_deleteKeyed]
  · apply List.filter_congr
    intro c hc
    by_cases hid : c.1 = e.id
    · have : c = core e := core_eq_of_id hp.ids_nodup hc hce hid
      subst this
      simp [core, hel, het]
    · have : ¬ (c.2.1 = l ∧ c.2.2.track = t) := by
        intro hh
        have := hp.pair_unique c hc (core e) hce (by simp [core, hh.1, hel]) (by simp [core, hh.2, het])
        exact hid (by rw [this]; rfl)
      have e1 : (c.1 != e.id) = true := by simpa using hid
      by_cases h1 : c.2.1 = l
      · have h2 : c.2.2.track ≠ t := fun e' => this ⟨h1, e'⟩
        have e2 : (c.2.1 == l) = true := by simpa using h1
        have e3 : (c.2.2.track == t) = false := by simpa using h2
        rw [e1, e2, e3]; rfl
      · have e2 : (c.2.1 == l) = false := by simpa using h1
        rw [e1, e2]; rfl
  · intro r hr hid
    have : core r = core e := core_eq_of_id hp.ids_nodup (mem_cores.mpr ⟨r, hr, rfl⟩) hce hid
    have : r.key = e.key := congrArg (·.2.1) this
    rw [this, hel]

theorem filter_pair_none {cs : List (Int × Int × Ent)} {l t : Int} (h : ∀ c ∈ cs, ¬ (c.2.1 = l ∧ c.2.2.track = t)) :
    cs.filter (fun c => !(c.2.1 == l && c.2.2.track == t)) = cs := by
  apply List.filter_eq_self.mpr
  intro c hc
  have := h c hc
  by_cases h1 : c.2.1 = l
  · have h2 : c.2.2.track ≠ t := fun e' => this ⟨h1, e'⟩
    simp [h1, h2]
  · simp [h1]

/-- database::remove_track's loop: the rows (l, tv) with l among the visited lists go. -/
theorem cores_foldl_removeTrack (tv : Int) (L : List Int) (pe : Table Ent) (hp : PairsOk (cores pe)) :
    cores (L.foldl (fun (pe : Table Ent) (l : Int) =>
      match (pe.filter (fun r => r.key == l && r.val.track == tv)).getLast? with
      | some e => deleteKeyed fires pe l e.id
      | none => pe) pe) = (cores pe).filter (fun c => !(L.contains c.2.1 && c.2.2.track == tv)) := by
  induction L generalizing pe with
  | nil => simp only [List.foldl_nil, List.contains_nil, Bool.false_and, Bool.not_false]
           exact (List.filter_eq_self.mpr (fun _ _ => rfl)).symm
  | cons a L ih =>
    simp only [List.foldl_cons]
    have hstep : ∀ pe1 : Table Ent, cores pe1 = (cores pe).filter (fun c => !(c.2.1 == a && c.2.2.track == tv)) →
        cores (L.foldl (fun (pe : Table Ent) (l : Int) =>
          match (pe.filter (fun r => r.key == l && r.val.track == tv)).getLast? with
          | some e => deleteKeyed fires pe l e.id
          | none => pe) pe1) = (cores pe).filter (fun c => !((a :: L).contains c.2.1 && c.2.2.track == tv)) := by
      intro pe1 h1
      rw [ih pe1 (h1 ▸ hp.filter _), h1, List.filter_filter]
      apply List.filter_congr
      intro c _
      by_cases hca : c.2.1 = a
      · by_cases ht : c.2.2.track = tv <;> simp [hca, ht, List.contains_cons]
      · have : (c.2.1 == a) = false := by simpa using hca
        rw [contains_cons_ne hca, this]
        simp
    cases hl : (pe.filter (fun r => r.key == a && r.val.track == tv)).getLast? with
    | none =>
      simp only
      exact hstep pe (filter_pair_none (lookup_none hl)).symm
    | some e =>
      simp only
      exact hstep _ (cores_delete_pair hp hl)

/-! ### the membership invariant -/

structure MemInv (d : Db) : Prop where
  pairs : PairsOk (cores d.pe)
  live : ∀ c ∈ cores d.pe, c.2.1 ∈ ids d.pl ∧ c.2.2.track ∈ d.tracks
  tracks_nodup : d.tracks.Nodup
  tracks_seq : ∀ t ∈ d.tracks, 0 < t ∧ t ≤ d.trSeq
  trSeq0 : 0 ≤ d.trSeq
  /-- through the crate API every entry carries the library's own database uuid -/
  own : ∀ c ∈ cores d.pe, c.2.2.uuid = 0

theorem memInv_empty : MemInv Db.empty := by
  refine ⟨⟨?_, ?_⟩, ?_, ?_, ?_, ?_, ?_⟩ <;> simp [Db.empty, cores]

theorem absM_pairs (d : Db) : (absM d).pairs = (cores d.pe).map pairOf := rfl

theorem peGet_isSome_iff {d : Db} {l t : Int} : (peGet d l t).isSome = true ↔ (l, t) ∈ (absM d).pairs := by
  unfold peGet
  rw [absM_pairs]
  constructor
  · intro h
    cases hg : (d.pe.filter (fun r => r.key == l && r.val.track == t)).getLast? with
    | none => rw [hg] at h; simp at h
    | some e =>
      obtain ⟨h1, h2, h3⟩ := lookup_core hg
      exact List.mem_map.mpr ⟨core e, h1, by simp [pairOf, core, h2, h3]⟩
  · intro h
    obtain ⟨c, hc, e⟩ := List.mem_map.mp h
    cases hg : (d.pe.filter (fun r => r.key == l && r.val.track == t)).getLast? with
    | some e' => rfl
    | none =>
      exfalso
      simp only [pairOf, Prod.mk.injEq] at e
      exact lookup_none hg c hc e

theorem peGet_none_iff {d : Db} {l t : Int} : peGet d l t = none ↔ (l, t) ∉ (absM d).pairs := by
  rw [← peGet_isSome_iff]
  cases peGet d l t <;> simp

/-- With only local entries, add_back's duplicate test for the local uuid coincides with get(list, track). -/
theorem peFind_local {d : Db} (h : ∀ c ∈ cores d.pe, c.2.2.uuid = 0) (l t : Int) : peFind d l t 0 = peGet d l t := by
  unfold peFind peGet
  congr 1
  apply List.filter_congr
  intro r hr
  have := h (core r) (mem_cores.mpr ⟨r, hr, rfl⟩)
  simp only [core] at this
  simp [this]

/-! ### one step of the crate / track API against Spec.Members -/

/-- What `step` does to the membership abstraction, operation by operation. -/
structure MStep (d : Db) (op : Op) : Prop where
  judge : judgeM (absM d) d op (step d op).2 = some (absM (step d op).1)
  inv : MemInv (step d op).1

theorem judgeM_throw_nil {d : Db} {op : Op} {e : Exn} (h : step d op = (d, .throw e)) (hops : membersOps d op (.throw e) = []) :
    judgeM (absM d) d op (step d op).2 = some (absM (step d op).1) := by
  rw [h]; simp [judgeM, outcome, hops]

theorem absM_congr_pl {d d' : Db} (h1 : ids d'.pl = ids d.pl) (h2 : d'.pe = d.pe) (h3 : d'.tracks = d.tracks) : absM d' = absM d := by
  simp [absM, h1, h2, h3]

theorem MemInv.congr {d d' : Db} (h : MemInv d) (h1 : ids d'.pl = ids d.pl) (h2 : d'.pe = d.pe) (h3 : d'.tracks = d.tracks)
    (h4 : d'.trSeq = d.trSeq) : MemInv d' := by
  refine ⟨by rw [h2]; exact h.pairs, ?_, by rw [h3]; exact h.tracks_nodup, by rw [h3, h4]; exact h.tracks_seq, by rw [h4]; exact h.trSeq0,
    by rw [h2]; exact h.own⟩
  rw [h2, h1, h3]; exact h.live

/-! ### operations on the Playlist table alone -/

def isPlOnly : Op → Bool
  | .createRoot _ | .createRootAfter _ _ | .createSub _ _ | .createSubAfter _ _ _ | .rename _ _ | .setParent _ _ => true
  | _ => false

def Frame (d d' : Db) : Prop := d'.pe = d.pe ∧ d'.peSeq = d.peSeq ∧ d'.tracks = d.tracks ∧ d'.trSeq = d.trSeq

theorem Frame.refl (d : Db) : Frame d d := ⟨rfl, rfl, rfl, rfl⟩

theorem plAdd_frame (d : Db) (n : Bytes) (k b : Int) : Frame d (plAdd d n k b).1 := by
  cases hv : Forest.validName n with
  | true => rw [plAdd_valid d k b hv]; exact ⟨rfl, rfl, rfl, rfl⟩
  | false => rw [plAdd_invalid d k b hv]; exact Frame.refl d

theorem plUpdate_frame (d : Db) (i : Int) (n : Bytes) (k b : Int) : Frame d (plUpdate d i n k b).1 := by
  unfold plUpdate
  split
  · exact Frame.refl d
  · exact Frame.refl d
  · split
    · exact Frame.refl d
    · split
      · split
        · exact Frame.refl d
        · exact ⟨rfl, rfl, rfl, rfl⟩
      · split
        · exact Frame.refl d
        · exact ⟨rfl, rfl, rfl, rfl⟩

theorem step_pl_frame {d : Db} {op : Op} (h : isPlOnly op = true) : Frame d (step d op).1 := by
  cases op <;> simp only [isPlOnly] at h <;> simp only [step] <;> (repeat' split) <;>
    first | exact Frame.refl d | exact plAdd_frame d _ _ _ | exact plUpdate_frame d _ _ _ _ | simp at h

theorem membersOps_create {d : Db} {op : Op} (hc : isCreate op = true) (n : Int) :
    membersOps d op (.ok (some n)) = [.newCrate n] := by
  cases op <;> simp [isCreate] at hc <;> simp [membersOps, outcome, newIdOf]

theorem membersOps_create_throw {d : Db} {op : Op} (hc : isPlOnly op = true) (e : Exn) :
    membersOps d op (.throw e) = [] := by
  cases op <;> simp [isPlOnly] at hc <;> simp [membersOps, outcome]

theorem membersOps_noncreate {d : Db} {op : Op} (hp : isPlOnly op = true) (hc : isCreate op = false) (res : Res Out) :
    membersOps d op res = [] := by
  cases op <;> simp [isPlOnly] at hp <;> simp [isCreate] at hc <;> simp [membersOps]

theorem absM_of {d d' : Db} (hf : Frame d d') : absM d' = ⟨ids d'.pl, d.tracks, (cores d.pe).map pairOf⟩ := by
  simp [absM, hf.1, hf.2.2.1]

theorem mstep_plOnly {d : Db} (hM : MemInv d) (hP : PlInv d) {op : Op} (h : isPlOnly op = true) : MStep d op := by
  have hfr := step_pl_frame (d := d) h
  cases fstep hP.wf op with
  | throws e hs _ =>
    exact ⟨judgeM_throw_nil hs (membersOps_create_throw h e), by rw [hs]; exact hM⟩
  | okF out fop h2 hf hacc hnew hseq =>
    have hids := Forest.step_accept_ids_eq fop _ hacc
    rw [absF_ids, absF_ids] at hids
    have hcr := forestOp_isCreate hf
    cases hc : isCreate op with
    | true =>
      have hout := hnew hc
      subst hout
      have hids' : ids (step d op).1.pl = ids d.pl ++ [d.plSeq + 1] := by
        rw [hc] at hcr
        cases fop <;> simp [Forest.Op.isCreate] at hcr <;> simpa [newIdOf] using hids
      refine ⟨?_, ?_⟩
      · rw [h2]
        simp only [judgeM, outcome, membersOps_create hc, List.foldlM_cons, List.foldlM_nil, judgeM1, Members.step,
          Members.Verdict.next]
        rw [absM_of hfr, hids']
        rfl
      · refine ⟨by rw [hfr.1]; exact hM.pairs, ?_, by rw [hfr.2.2.1]; exact hM.tracks_nodup,
          by rw [hfr.2.2.1, hfr.2.2.2]; exact hM.tracks_seq, by rw [hfr.2.2.2]; exact hM.trSeq0,
          by rw [hfr.1]; exact hM.own⟩
        rw [hfr.1, hfr.2.2.1, hids']
        intro c hcm
        exact ⟨List.mem_append_left _ (hM.live c hcm).1, (hM.live c hcm).2⟩
    | false =>
      have hids' : ids (step d op).1.pl = ids d.pl := by
        rw [hc] at hcr
        cases fop <;> simp [Forest.Op.isCreate] at hcr
        · exact hids
        · exact hids
        · cases op <;> simp [forestOp] at hf <;> simp [isPlOnly] at h
      refine ⟨?_, hM.congr hids' hfr.1 hfr.2.2.1 hfr.2.2.2⟩
      rw [h2]
      simp only [judgeM, outcome, membersOps_noncreate h hc, List.foldlM_nil]
      rw [absM_congr_pl hids' hfr.1 hfr.2.2.1]
      rfl
  | okN out h2 hf _ _ => cases op <;> simp [forestOp] at hf <;> simp [isPlOnly] at h

/-! ### remove_crate -/

theorem cores_foldl_clearKey {t : Table Ent} (hn : (ids t).Nodup) (G : List Int) :
    cores (G.foldl (fun t i => clearKey fires t i) t) = (cores t).filter (fun c => !G.contains c.2.1) := by
  induction G generalizing t with
  | nil =>
    simp only [List.foldl_nil, List.contains_nil, Bool.not_false]
    exact (List.filter_eq_self.mpr (fun _ _ => rfl)).symm
  | cons g G ih =>
    simp only [List.foldl_cons]
    have h1 := cores_clearKey fires hn g
    have hn1 : (ids (clearKey fires t g)).Nodup := by
      rw [ids_eq_cores, h1]
      rw [ids_eq_cores] at hn
      exact List.Nodup.sublist (List.Sublist.map _ List.filter_sublist) hn
    rw [ih hn1, h1, List.filter_filter]
    apply List.filter_congr
    intro c _
    by_cases hcg : c.2.1 = g
    · simp [hcg, List.contains_cons]
    · have : (c.2.1 == g) = false := by simpa using hcg
      rw [contains_cons_ne hcg]
      simp [hcg]

theorem mstep_removeCrate {S : Ord} {d : Db} (hM : MemInv d) (hC : ChInv S d) (c : Int) :
    MStep d (.removeCrate c) := by
  by_cases he : plExists d c = true
  · have hstep : step d (.removeCrate c) = (plRemove d c, .ok none) := by simp [step, he]
    have hn := hC.rk.ids_nodup
    have hcl := gone_closed hn hC.rk.id_pos (plExists_iff.mp he)
    have hpl : cores (plRemove d c).pl = (cores d.pl).filter (fun k => !(c :: descendantIds d.pl c).contains k.1) :=
      cores_foldl_deleteCascade _ _ hcl
    have hpe : cores (plRemove d c).pe = (cores d.pe).filter (fun k => !(c :: descendantIds d.pl c).contains k.2.1) :=
      cores_foldl_clearKey hC.re.ids_nodup _
    have hids : ids (plRemove d c).pl = (ids d.pl).filter (fun x => !(c :: descendantIds d.pl c).contains x) := by
      rw [ids_eq_cores, hpl, ids_eq_cores, List.filter_map]
      rfl
    have htr : (plRemove d c).tracks = d.tracks := rfl
    refine ⟨?_, ?_⟩
    · rw [hstep]
      simp only [judgeM, outcome, membersOps, he, beq_self_eq_true, Bool.and_self, if_true, List.foldlM_cons,
        List.foldlM_nil, judgeM1, Members.step, Members.Verdict.next]
      simp only [absM, hids, hpe, htr, List.filter_map]
      rfl
    · rw [hstep]
      refine ⟨by rw [hpe]; exact hM.pairs.filter _, ?_, hM.tracks_nodup, hM.tracks_seq, hM.trSeq0,
        by rw [hpe]; exact fun k hk => hM.own k (List.mem_filter.mp hk).1⟩
      intro k hk
      rw [hpe] at hk
      obtain ⟨hk1, hk2⟩ := List.mem_filter.mp hk
      refine ⟨?_, (hM.live k hk1).2⟩
      rw [hids]
      exact List.mem_filter.mpr ⟨(hM.live k hk1).1, hk2⟩
  · have he' : plExists d c = false := by simpa using he
    have hstep : step d (.removeCrate c) = (d, .throw .invalid_argument) := by simp [step, he']
    exact ⟨judgeM_throw_nil hstep (by simp [membersOps, outcome]), by rw [hstep]; exact hM⟩

/-! ### tracks and contents -/

theorem mem_crates_iff {d : Db} {c : Int} : (absM d).crates.contains c = true ↔ c ∈ ids d.pl := by
  simp [absM]

theorem map_pairOf_filter (cs : List (Int × Int × Ent)) (q : Int × Int → Bool) :
    (cs.filter (fun c => q (pairOf c))).map pairOf = (cs.map pairOf).filter q := by
  rw [List.filter_map]; rfl

theorem mstep_createTrack {d : Db} (hM : MemInv d) : MStep d .createTrack := by
  have hstep : step d .createTrack = ({ d with tracks := d.tracks ++ [d.trSeq + 1], trSeq := d.trSeq + 1 }, .ok (some (d.trSeq + 1))) := rfl
  have hfresh : d.trSeq + 1 ∉ d.tracks := by
    intro h; have := (hM.tracks_seq _ h).2; omega
  refine ⟨?_, ?_⟩
  · rw [hstep]
    have : (absM d).tracks.contains (d.trSeq + 1) = false := by simpa [absM] using hfresh
    simp only [judgeM, outcome, membersOps, newIdOf, List.foldlM_cons, List.foldlM_nil, judgeM1, this, Members.step,
      Members.Verdict.next]
    rfl
  · rw [hstep]
    refine ⟨hM.pairs, ?_, ?_, ?_, by have := hM.trSeq0; show 0 ≤ d.trSeq + 1; omega, hM.own⟩
    · intro c hc
      exact ⟨(hM.live c hc).1, List.mem_append_left _ (hM.live c hc).2⟩
    · refine List.nodup_append.mpr ⟨hM.tracks_nodup, by simp, ?_⟩
      intro a ha b hb
      simp only [List.mem_singleton] at hb
      subst hb
      intro e; subst e; exact hfresh ha
    · intro t ht
      simp only [List.mem_append, List.mem_singleton] at ht
      show 0 < t ∧ t ≤ d.trSeq + 1
      rcases ht with ht | ht
      · have := hM.tracks_seq t ht; omega
      · have := hM.trSeq0; omega

theorem mstep_removeTrack {d : Db} (hM : MemInv d) (t : Int) : MStep d (.removeTrack t) := by
  by_cases hc : t ∈ d.tracks
  · have hct : d.tracks.contains t = true := List.contains_iff_mem.mpr hc
    have hstep : step d (.removeTrack t) = ({ d with
        pe := (ids d.pl).foldl (fun pe l =>
          match (pe.filter (fun r => r.key == l && r.val.track == t)).getLast? with
          | some e => deleteKeyed fires pe l e.id
          | none => pe) d.pe,
        tracks := d.tracks.filter (· != t) }, .ok none) := by
      show (if d.tracks.contains t then _ else _) = _
      rw [if_pos hct]
      rfl
    have hpe : cores (step d (.removeTrack t)).1.pe = (cores d.pe).filter (fun c => !(c.2.2.track == t)) := by
      rw [hstep]
      show cores ((ids d.pl).foldl _ d.pe) = _
      rw [cores_foldl_removeTrack t (ids d.pl) d.pe hM.pairs]
      apply List.filter_congr
      intro c hcm
      have : (ids d.pl).contains c.2.1 = true := List.contains_iff_mem.mpr (hM.live c hcm).1
      rw [this, Bool.true_and]
    refine ⟨?_, ?_⟩
    · have h2 : (step d (.removeTrack t)).2 = .ok none := by rw [hstep]
      have h3 : (step d (.removeTrack t)).1.tracks = d.tracks.filter (· != t) := by rw [hstep]
      have h4 : (step d (.removeTrack t)).1.pl = d.pl := by rw [hstep]
      have hct' : (absM d).tracks.contains t = true := hct
      rw [h2]
      simp only [judgeM, outcome, membersOps, List.foldlM_cons, List.foldlM_nil, judgeM1, Members.step, hct',
        Bool.not_true, Bool.false_eq_true, if_false, Members.Verdict.next]
      simp only [absM, hpe, h3, h4]
      have := map_pairOf_filter (cores d.pe) (fun p => p.2 != t)
      simp only [pairOf] at this
      simp only [pairOf, bne, Option.some.injEq, Option.pure_def, Option.bind_eq_bind, Option.bind_some]
      congr 1
      exact this.symm ▸ rfl
    · have h3 : (step d (.removeTrack t)).1.tracks = d.tracks.filter (· != t) := by rw [hstep]
      have h4 : (step d (.removeTrack t)).1.pl = d.pl := by rw [hstep]
      have h5 : (step d (.removeTrack t)).1.trSeq = d.trSeq := by rw [hstep]
      refine ⟨by rw [hpe]; exact hM.pairs.filter _, ?_, ?_, ?_, by rw [h5]; exact hM.trSeq0,
        by rw [hpe]; exact fun k hk => hM.own k (List.mem_filter.mp hk).1⟩
      · intro c hcm
        rw [hpe] at hcm
        obtain ⟨h1, h2⟩ := List.mem_filter.mp hcm
        rw [h4, h3]
        refine ⟨(hM.live c h1).1, List.mem_filter.mpr ⟨(hM.live c h1).2, ?_⟩⟩
        simpa using h2
      · rw [h3]; exact List.Nodup.sublist List.filter_sublist hM.tracks_nodup
      · rw [h3, h5]; intro x hx; exact hM.tracks_seq x (List.mem_filter.mp hx).1
  · have hstep : step d (.removeTrack t) = (d, .throw .invalid_argument) := by simp [step, hc]
    have hct' : (absM d).tracks.contains t = false := by simpa [absM] using hc
    refine ⟨?_, by rw [hstep]; exact hM⟩
    rw [hstep]
    have hnm : t ∉ (absM d).tracks := hc
    simp [judgeM, outcome, membersOps, judgeM1, Members.step, hct', hnm, Members.Verdict.next]

theorem mstep_addTrack {S : Ord} {d : Db} (hM : MemInv d) (hC : ChInv S d) (c t : Int) : MStep d (.addTrack c t) := by
  by_cases he : plExists d c = true
  · by_cases ht : t ∈ d.tracks
    · have hstep0 : step d (.addTrack c t) = peAddBack d c t 0 false := by simp [step, he, ht]
      have hfind : peFind d c t 0 = peGet d c t := peFind_local hM.own c t
      have hcm : c ∈ (absM d).crates := plExists_iff.mp he
      have htm : t ∈ (absM d).tracks := ht
      cases hg : peGet d c t with
      | some e =>
        have hstep : step d (.addTrack c t) = (d, .ok (some e.id)) := by rw [hstep0]; simp [peAddBack, hfind, hg]
        have hp : (c, t) ∈ (absM d).pairs := peGet_isSome_iff.mp (by rw [hg]; rfl)
        refine ⟨?_, by rw [hstep]; exact hM⟩
        rw [hstep]
        simp [judgeM, outcome, membersOps, judgeM1, Members.step, hcm, htm, hp, Members.Verdict.next]
      | none =>
        have hstep : step d (.addTrack c t) =
            ({ d with pe := appendBack d.pe (d.peSeq + 1) c ⟨t, 0⟩, peSeq := d.peSeq + 1 }, .ok (some (d.peSeq + 1))) := by
          rw [hstep0]; simp [peAddBack, hfind, hg]
        have hp : (c, t) ∉ (absM d).pairs := peGet_none_iff.mp hg
        refine ⟨?_, ?_⟩
        · rw [hstep]
          simp [judgeM, outcome, membersOps, judgeM1, Members.step, hcm, htm, hp, Members.Verdict.next]
          simp [absM, cores_appendBack, pairOf]
        · rw [hstep]
          have hfresh : d.peSeq + 1 ∉ (cores d.pe).map (·.1) := by
            rw [← ids_eq_cores]; intro h; have := hC.peSeq _ h; omega
          refine ⟨?_, ?_, hM.tracks_nodup, hM.tracks_seq, hM.trSeq0, ?_⟩
          · show PairsOk (cores (appendBack d.pe (d.peSeq + 1) c ⟨t, 0⟩))
            rw [cores_appendBack]
            constructor
            · rw [List.map_append]
              refine List.nodup_append.mpr ⟨hM.pairs.ids_nodup, by simp, ?_⟩
              intro a ha b hb
              simp only [List.map_cons, List.map_nil, List.mem_singleton] at hb
              subst hb
              intro e; subst e; exact hfresh ha
            · intro x hx y hy e1 e2
              simp only [List.mem_append, List.mem_singleton] at hx hy
              rcases hx with hx | rfl <;> rcases hy with hy | rfl
              · exact hM.pairs.pair_unique x hx y hy e1 e2
              · exfalso; apply hp; rw [absM_pairs]
                exact List.mem_map.mpr ⟨x, hx, by simp only [pairOf]; simp only at e1 e2; rw [e1, e2]⟩
              · exfalso; apply hp; rw [absM_pairs]
                exact List.mem_map.mpr ⟨y, hy, by simp only [pairOf]; simp only at e1 e2; rw [← e1, ← e2]⟩
              · rfl
          · show ∀ k ∈ cores (appendBack d.pe (d.peSeq + 1) c ⟨t, 0⟩), k.2.1 ∈ ids d.pl ∧ k.2.2.track ∈ d.tracks
            rw [cores_appendBack]
            intro k hk
            simp only [List.mem_append, List.mem_singleton] at hk
            rcases hk with hk | rfl
            · exact hM.live k hk
            · exact ⟨plExists_iff.mp he, ht⟩
          · show ∀ k ∈ cores (appendBack d.pe (d.peSeq + 1) c ⟨t, 0⟩), k.2.2.uuid = 0
            rw [cores_appendBack]
            intro k hk
            simp only [List.mem_append, List.mem_singleton] at hk
            rcases hk with hk | rfl
            · exact hM.own k hk
            · rfl
    · have hstep : step d (.addTrack c t) = (d, .throw (exn "track_deleted")) := by simp [step, he, ht]
      have hcm : c ∈ (absM d).crates := plExists_iff.mp he
      have htm : t ∉ (absM d).tracks := ht
      refine ⟨?_, by rw [hstep]; exact hM⟩
      rw [hstep]
      simp [judgeM, outcome, membersOps, judgeM1, Members.step, hcm, htm, Members.Verdict.next]
  · have he' : plExists d c = false := by simpa using he
    have hstep : step d (.addTrack c t) = (d, .throw (exn "crate_deleted")) := by simp [step, he']
    have hcm : c ∉ (absM d).crates := fun h => he (plExists_iff.mpr h)
    refine ⟨?_, by rw [hstep]; exact hM⟩
    rw [hstep]
    simp [judgeM, outcome, membersOps, judgeM1, Members.step, hcm, Members.Verdict.next]

theorem state_eq_of_pairs {s : Members.State} {p : List (Int × Int)} (h : p = s.pairs) :
    ({ s with pairs := p } : Members.State) = s := by
  subst h; rfl

theorem mstep_removeTrackFrom {d : Db} (hM : MemInv d) (c t : Int) : MStep d (.removeTrackFrom c t) := by
  cases hg : peGet d c t with
  | some e =>
    have hstep : step d (.removeTrackFrom c t) = ({ d with pe := deleteKeyed fires d.pe c e.id }, .ok none) := by
      simp [step, hg]
    have hcores := cores_delete_pair hM.pairs hg
    obtain ⟨hce, hel, het⟩ := lookup_core hg
    have hcm : c ∈ (absM d).crates := hel ▸ (hM.live _ hce).1
    refine ⟨?_, ?_⟩
    · rw [hstep]
      simp [judgeM, outcome, membersOps, judgeM1, Members.step, hcm, Members.Verdict.next]
      simp only [absM, hcores]
      congr 1
      have := map_pairOf_filter (cores d.pe) (fun p => !(p.1 == c && p.2 == t))
      simp only [pairOf] at this
      rw [show (List.filter (fun c_1 => !(c_1.2.1 == c && c_1.2.2.track == t)) (cores d.pe)).map pairOf = _ from this]
      apply List.filter_congr
      intro p _
      cases p; rfl
    · rw [hstep]
      refine ⟨by show PairsOk (cores (deleteKeyed fires d.pe c e.id)); rw [hcores]; exact hM.pairs.filter _, ?_,
        hM.tracks_nodup, hM.tracks_seq, hM.trSeq0,
        by show ∀ k ∈ cores (deleteKeyed fires d.pe c e.id), _; rw [hcores]; exact fun k hk => hM.own k (List.mem_filter.mp hk).1⟩
      show ∀ k ∈ cores (deleteKeyed fires d.pe c e.id), _
      rw [hcores]
      intro k hk
      exact hM.live k (List.mem_filter.mp hk).1
  | none =>
    have hstep : step d (.removeTrackFrom c t) = (d, .ok none) := by simp [step, hg]
    have hp : (c, t) ∉ (absM d).pairs := peGet_none_iff.mp hg
    refine ⟨?_, by rw [hstep]; exact hM⟩
    rw [hstep]
    by_cases hcm : c ∈ (absM d).crates
    · simp [judgeM, outcome, membersOps, judgeM1, Members.step, hcm, Members.Verdict.next]
      apply state_eq_of_pairs
      apply List.filter_eq_self.mpr
      intro p hpm
      simp only [bne_iff_ne, ne_eq]
      intro e; exact hp (e ▸ hpm)
    · simp [judgeM, outcome, membersOps, judgeM1, Members.step, hcm, Members.Verdict.next]

theorem mstep_clearTracks {S : Ord} {d : Db} (hM : MemInv d) (hC : ChInv S d) (c : Int) : MStep d (.clearTracks c) := by
  have hstep : step d (.clearTracks c) = ({ d with pe := clearKey fires d.pe c }, .ok none) := rfl
  have hcores := cores_clearKey fires hC.re.ids_nodup c
  refine ⟨?_, ?_⟩
  · rw [hstep]
    by_cases hcm : c ∈ (absM d).crates
    · simp [judgeM, outcome, membersOps, judgeM1, Members.step, hcm, Members.Verdict.next]
      simp only [absM, hcores]
      congr 1
      have := map_pairOf_filter (cores d.pe) (fun p => p.1 != c)
      simp only [pairOf] at this
      exact this.symm
    · simp [judgeM, outcome, membersOps, judgeM1, Members.step, hcm, Members.Verdict.next]
      simp only [absM, hcores]
      congr 2
      symm
      apply List.filter_eq_self.mpr
      intro k hk
      simp only [bne_iff_ne, ne_eq]
      intro e
      exact hcm (e ▸ (hM.live k hk).1)
  · rw [hstep]
    refine ⟨by show PairsOk (cores (clearKey fires d.pe c)); rw [hcores]; exact hM.pairs.filter _, ?_,
      hM.tracks_nodup, hM.tracks_seq, hM.trSeq0,
      by show ∀ k ∈ cores (clearKey fires d.pe c), _; rw [hcores]; exact fun k hk => hM.own k (List.mem_filter.mp hk).1⟩
    show ∀ k ∈ cores (clearKey fires d.pe c), _
    rw [hcores]
    intro k hk
    exact hM.live k (List.mem_filter.mp hk).1

/-- Every operation of the crate / track API is accepted by the membership Spec and keeps `MemInv`. -/
theorem mstep {S : Ord} {d : Db} (hM : MemInv d) (hP : PlInv d) (hC : ChInv S d) (op : Op) (hapi : apiOp op = true) :
    MStep d op := by
  cases op with
  | createRoot n => exact mstep_plOnly hM hP rfl
  | createRootAfter n a => exact mstep_plOnly hM hP rfl
  | createSub p n => exact mstep_plOnly hM hP rfl
  | createSubAfter p n a => exact mstep_plOnly hM hP rfl
  | rename c n => exact mstep_plOnly hM hP rfl
  | setParent c p => exact mstep_plOnly hM hP rfl
  | removeCrate c => exact mstep_removeCrate hM hC c
  | createTrack => exact mstep_createTrack hM
  | removeTrack t => exact mstep_removeTrack hM t
  | addTrack c t => exact mstep_addTrack hM hC c t
  | removeTrackFrom c t => exact mstep_removeTrackFrom hM c t
  | clearTracks c => exact mstep_clearTracks hM hC c
  | peAddBack l t f => simp [apiOp] at hapi
  | peRemove l e => simp [apiOp] at hapi
  | peClear l => simp [apiOp] at hapi

/-! ### all invariants together, over histories of the crate / track API -/

structure Inv (S : Ord) (d : Db) : Prop where
  ch : ChInv S d
  pl : PlInv d
  mem : MemInv d

theorem inv_empty : Inv Ord.empty Db.empty := ⟨chInv_empty, plInv_empty, memInv_empty⟩

theorem okOp_of_apiOp {op : Op} (h : apiOp op = true) : okOp op = true := by
  cases op <;> simp [apiOp] at h <;> rfl

theorem inv_step {S : Ord} {d : Db} (hI : Inv S d) (op : Op) (hapi : apiOp op = true) :
    Inv (ordStep S d op) (step d op).1 :=
  ⟨chInv_step hI.ch op (okOp_of_apiOp hapi), plInv_step hI.pl op, (mstep hI.mem hI.pl hI.ch op hapi).inv⟩

theorem inv_run {S : Ord} {d : Db} (hI : Inv S d) (ops : List Op) (hapi : ops.all apiOp = true) :
    Inv (ordRun d S ops) (run d ops) := by
  induction ops generalizing S d with
  | nil => exact hI
  | cons op ops ih =>
    simp only [List.all_cons, Bool.and_eq_true] at hapi
    exact ih (inv_step hI op hapi.1) hapi.2

theorem specRunM_eq {S : Ord} {d : Db} (hI : Inv S d) (ops : List Op) (hapi : ops.all apiOp = true) :
    specRunM d (absM d) ops = some (absM (run d ops)) := by
  induction ops generalizing S d with
  | nil => rfl
  | cons op ops ih =>
    simp only [List.all_cons, Bool.and_eq_true] at hapi
    simp only [specRunM, run]
    rw [(mstep hI.mem hI.pl hI.ch op hapi.1).judge]
    exact ih (inv_step hI op hapi.1) hapi.2

end EngineModel.Db.V2
